module verifharnesshz

go 1.19

require (
	github.com/cloudwego/hertz v0.0.0
	github.com/cloudwego/hertz/cmd/hz v0.0.0
)

require (
	github.com/Masterminds/goutils v1.1.1 // indirect
	github.com/Masterminds/semver/v3 v3.2.0 // indirect
	github.com/Masterminds/sprig/v3 v3.2.3 // indirect
	github.com/bytedance/gopkg v0.1.0 // indirect
	github.com/bytedance/sonic v1.13.2 // indirect
	github.com/bytedance/sonic/loader v0.2.4 // indirect
	github.com/cloudwego/base64x v0.1.5 // indirect
	github.com/cloudwego/netpoll v0.6.4 // indirect
	github.com/fsnotify/fsnotify v1.5.4 // indirect
	github.com/golang/protobuf v1.5.0 // indirect
	github.com/google/uuid v1.1.2 // indirect
	github.com/hashicorp/go-version v1.5.0 // indirect
	github.com/huandu/xstrings v1.3.3 // indirect
	github.com/imdario/mergo v0.3.11 // indirect
	github.com/klauspost/cpuid/v2 v2.0.9 // indirect
	github.com/mitchellh/copystructure v1.0.0 // indirect
	github.com/mitchellh/reflectwalk v1.0.0 // indirect
	github.com/nyaruka/phonenumbers v1.0.55 // indirect
	github.com/shopspring/decimal v1.2.0 // indirect
	github.com/spf13/cast v1.3.1 // indirect
	github.com/twitchyliquid64/golang-asm v0.15.1 // indirect
	golang.org/x/arch v0.0.0-20210923205945-b76863e36670 // indirect
	golang.org/x/crypto v0.3.0 // indirect
	golang.org/x/sys v0.24.0 // indirect
	golang.org/x/tools v0.4.0 // indirect
	google.golang.org/protobuf v1.28.0 // indirect
	gopkg.in/yaml.v2 v2.4.0 // indirect
)

replace github.com/cloudwego/hertz => /repo

replace github.com/cloudwego/hertz/cmd/hz => /repo/cmd/hz
