package main

import (
	"context"
	"fmt"
	"go/ast"
	"go/parser"
	"go/token"
	"go/types"
	"os"
	"sort"
	"strconv"
	"strings"
	"sync"

	"github.com/cloudwego/hertz/cmd/hz/generator"
	"github.com/cloudwego/hertz/cmd/hz/util"
	"github.com/cloudwego/hertz/cmd/hz/util/logs"
	"github.com/cloudwego/hertz/pkg/common/hlog"
	"github.com/cloudwego/hertz/pkg/app"
	"github.com/cloudwego/hertz/pkg/common/config"
	"github.com/cloudwego/hertz/pkg/route"
)

type c16decl struct{ verb, path, name, dir string }

var c16mu sync.Mutex // hz keeps process-wide tables

// c16generate runs the real generator for one service and returns router.go and middleware.go
func c16generate(opt int, decls []c16decl) (router, mw string, err error) {
	c16mu.Lock()
	defer c16mu.Unlock()
	util.ResetUniqueNamesForVerif()
	generator.ResetForVerif()
	g := &generator.HttpPackageGenerator{ProjPackage: "example.com/p", HandlerDir: "biz/handler", RouterDir: "biz/router", ModelDir: "biz/model",
		SortRouter: opt&1 != 0, SnakeStyleMiddleware: opt&2 != 0, HandlerByMethod: opt&4 != 0}
	g.OutputDir = os.TempDir()
	var ms []*generator.HttpMethod
	for _, d := range decls {
		ms = append(ms, &generator.HttpMethod{Name: d.name, HTTPMethod: d.verb, Path: d.path, OutputDir: d.dir, ReturnTypeName: "api.Resp", Serializer: "JSON", GenHandler: true})
	}
	pkg := &generator.HttpPackage{IdlName: "api.thrift", Package: "api", Services: []*generator.Service{{Name: "Svc", Methods: ms}}}
	if err = g.Generate(pkg); err != nil {
		return
	}
	files, err := g.GetFormatAndExcludedFiles()
	if err != nil {
		return
	}
	for _, f := range files {
		switch f.Path {
		case "biz/router/api/api.go":
			router = f.Content
		case "biz/router/api/middleware.go":
			mw = f.Content
		}
	}
	if router == "" || mw == "" {
		err = fmt.Errorf("router or middleware file missing")
	}
	return
}

// ---- the emitted program as a listing ----
func c16lit(e ast.Expr) string {
	if b, ok := e.(*ast.BasicLit); ok {
		s, _ := strconv.Unquote(b.Value)
		return s
	}
	return "?"
}
func c16mwName(e ast.Expr) string { // zMw()  or z_mw()
	if c, ok := e.(*ast.CallExpr); ok {
		if id, ok := c.Fun.(*ast.Ident); ok {
			return id.Name
		}
	}
	return "?"
}
func c16expr(e ast.Expr) string {
	switch x := e.(type) {
	case *ast.Ident:
		return x.Name
	case *ast.SelectorExpr:
		return c16expr(x.X) + "." + x.Sel.Name
	}
	return "?"
}

func c16listing(stmts []ast.Stmt, out *[]string) {
	for _, s := range stmts {
		switch x := s.(type) {
		case *ast.BlockStmt:
			*out = append(*out, "{")
			c16listing(x.List, out)
			*out = append(*out, "}")
		case *ast.AssignStmt:
			call, ok := x.Rhs[0].(*ast.CallExpr)
			if !ok || len(x.Lhs) != 1 || len(call.Args) != 2 {
				*out = append(*out, "?assign")
				continue
			}
			sel := call.Fun.(*ast.SelectorExpr)
			*out = append(*out, fmt.Sprintf("G|%s|%s|%s|%s", c16expr(x.Lhs[0]), c16expr(sel.X), c16lit(call.Args[0]), c16mwName(call.Args[1])))
		case *ast.ExprStmt:
			call, ok := x.X.(*ast.CallExpr)
			if !ok || len(call.Args) != 2 {
				*out = append(*out, "?expr")
				continue
			}
			sel := call.Fun.(*ast.SelectorExpr)
			app, ok := call.Args[1].(*ast.CallExpr)
			if !ok || len(app.Args) != 2 {
				*out = append(*out, "?append")
				continue
			}
			*out = append(*out, fmt.Sprintf("H|%s|%s|%s|%s|%s", c16expr(sel.X), sel.Sel.Name, c16lit(call.Args[0]), c16mwName(app.Args[0]), c16expr(app.Args[1])))
		default:
			*out = append(*out, "?stmt")
		}
	}
}

// ---- type check against stubs of the packages the router file imports ----
const c16stubContext = `package context
type Context interface{}`
const c16stubApp = `package app
import "context"
type RequestContext struct{}
type HandlerFunc func(c context.Context, ctx *RequestContext)`
const c16stubServer = `package server
import "github.com/cloudwego/hertz/pkg/app"
type RouterGroup struct{}
type Hertz struct{ RouterGroup }
func (g *RouterGroup) Group(p string, h ...app.HandlerFunc) *RouterGroup { return g }
func (g *RouterGroup) GET(p string, h ...app.HandlerFunc) {}
func (g *RouterGroup) POST(p string, h ...app.HandlerFunc) {}
func (g *RouterGroup) PUT(p string, h ...app.HandlerFunc) {}
func (g *RouterGroup) DELETE(p string, h ...app.HandlerFunc) {}
func (g *RouterGroup) PATCH(p string, h ...app.HandlerFunc) {}
func (g *RouterGroup) HEAD(p string, h ...app.HandlerFunc) {}
func (g *RouterGroup) OPTIONS(p string, h ...app.HandlerFunc) {}
func (g *RouterGroup) Any(p string, h ...app.HandlerFunc) {}`

type c16importer struct {
	fset *token.FileSet
	pk   map[string]*types.Package
	src  map[string]string
}

func (im *c16importer) Import(path string) (*types.Package, error) {
	if p, ok := im.pk[path]; ok {
		return p, nil
	}
	src, ok := im.src[path]
	if !ok {
		return nil, fmt.Errorf("no stub for %s", path)
	}
	f, err := parser.ParseFile(im.fset, path+"/stub.go", src, 0)
	if err != nil {
		return nil, err
	}
	p, err := (&types.Config{Importer: im}).Check(path, im.fset, []*ast.File{f}, nil)
	if err != nil {
		return nil, err
	}
	im.pk[path] = p
	return p, nil
}

func c16typecheck(router, mw string, decls []c16decl, byMethod bool) error {
	fset := token.NewFileSet()
	im := &c16importer{fset: fset, pk: map[string]*types.Package{}, src: map[string]string{
		"context": c16stubContext, "github.com/cloudwego/hertz/pkg/app": c16stubApp,
		"github.com/cloudwego/hertz/pkg/app/server": c16stubServer,
	}}
	byPkg := map[string][]string{}
	for _, d := range decls {
		byPkg[c16handlerPkg(d, byMethod)] = append(byPkg[c16handlerPkg(d, byMethod)], d.name)
	}
	for path, names := range byPkg {
		var hb strings.Builder
		base := path[strings.LastIndex(path, "/")+1:]
		fmt.Fprintf(&hb, "package %s\nimport (\"context\"; \"github.com/cloudwego/hertz/pkg/app\")\n", strings.NewReplacer("-", "_", ".", "_").Replace(base))
		seen := map[string]bool{}
		for _, n := range names {
			if !seen[n] {
				seen[n] = true
				fmt.Fprintf(&hb, "func %s(c context.Context, ctx *app.RequestContext) {}\n", n)
			}
		}
		im.src[path] = hb.String()
	}
	var files []*ast.File
	for name, src := range map[string]string{"api.go": router, "middleware.go": mw} {
		f, err := parser.ParseFile(fset, name, src, 0)
		if err != nil {
			return err
		}
		files = append(files, f)
	}
	_, err := (&types.Config{Importer: im}).Check("example.com/p/biz/router/api", fset, files, nil)
	return err
}

// ---- run the emitted program on a real engine ----
type c16reg struct {
	method, path string
	chain        []string
}

func c16runOnly(listing []string, only int) (regs []c16reg, err error) {
	opt := config.NewOptions(nil)
	e := route.NewEngine(opt)
	var trace []string
	mk := func(name string) app.HandlerFunc {
		return func(c context.Context, ctx *app.RequestContext) {
			trace = append(trace, name)
			ctx.Next(c)
		}
	}
	defer func() {
		if r := recover(); r != nil {
			err = fmt.Errorf("registration panicked: %v", r)
		}
	}()
	hidx := 0
	scopes := []map[string]*route.RouterGroup{{"r": &e.RouterGroup}}
	lookup := func(v string) *route.RouterGroup {
		for i := len(scopes) - 1; i >= 0; i-- {
			if g, ok := scopes[i][v]; ok {
				return g
			}
		}
		return nil
	}
	for _, l := range listing {
		p := strings.Split(l, "|")
		switch p[0] {
		case "{":
			scopes = append(scopes, map[string]*route.RouterGroup{})
		case "}":
			scopes = scopes[:len(scopes)-1]
		case "G":
			base := lookup(p[2])
			if base == nil {
				return nil, fmt.Errorf("undefined group variable %s", p[2])
			}
			if _, dup := scopes[len(scopes)-1][p[1]]; dup {
				return nil, fmt.Errorf("%s redeclared in this block", p[1])
			}
			scopes[len(scopes)-1][p[1]] = base.Group(p[3], mk(p[4]))
		case "H":
			hidx++
			if only >= 0 && hidx-1 != only {
				continue
			}
			base := lookup(p[1])
			if base == nil {
				return nil, fmt.Errorf("undefined group variable %s", p[1])
			}
			hs := []app.HandlerFunc{mk(p[4]), mk("=" + p[5])}
			if p[2] == "Any" {
				base.Any(p[3], hs...)
			} else {
				base.Handle(p[2], p[3], hs...)
			}
		default:
			return nil, fmt.Errorf("unexpected statement %s", l)
		}
	}
	for _, ri := range e.Routes() {
		ctx := e.NewContext()
		ctx.Request.Header.SetMethod(ri.Method)
		ctx.Request.SetRequestURI(c16probe(ri.Path))
		ctx.Request.SetHost("h")
		trace = nil
		e.ServeHTTP(context.Background(), ctx)
		regs = append(regs, c16reg{ri.Method, ri.Path, append([]string{}, trace...)})
	}
	return
}

// c16probe: a path only this pattern can win: parameters become "zq", a catch-all "zq/zq"
func c16probe(pattern string) string {
	segs := strings.Split(pattern, "/")
	for i, s := range segs {
		switch {
		case strings.HasPrefix(s, ":"):
			segs[i] = "zq"
		case strings.HasPrefix(s, "*"):
			segs[i] = "zq/zq"
		}
	}
	return strings.Join(segs, "/")
}

// c16valid: the declared routes can be registered on an engine at all (no conflicting wildcards)
func c16valid(decls []c16decl) (ok bool) {
	defer func() {
		if recover() != nil {
			ok = false
		}
	}()
	e := route.NewEngine(config.NewOptions(nil))
	h := func(c context.Context, ctx *app.RequestContext) {}
	for _, d := range decls {
		p := d.path
		if !strings.HasPrefix(p, "/") {
			p = "/" + p
		}
		if strings.EqualFold(d.verb, "any") {
			e.Any(p, h)
		} else {
			e.Handle(strings.ToUpper(d.verb), p, h)
		}
	}
	return true
}

// c16run: the registered (method, path) set of the whole program, and for every handle statement
// the chain that runs for it, probed on an engine that carries that statement's routes only
func c16run(listing []string) (regs []c16reg, err error) {
	all, err := c16runOnly(listing, -1)
	if err != nil {
		return nil, err
	}
	n := 0
	for _, l := range listing {
		if strings.HasPrefix(l, "H|") {
			n++
		}
	}
	chains := map[string][]string{}
	for k := 0; k < n; k++ {
		one, err := c16runOnly(listing, k)
		if err != nil {
			return nil, err
		}
		for _, r := range one {
			chains[r.method+" "+r.path] = r.chain
		}
	}
	for i := range all {
		all[i].chain = chains[all[i].method+" "+all[i].path]
	}
	return all, nil
}

func c16parseDecls(in In, from int) (ds []c16decl) {
	for _, f := range in[from:] {
		p := strings.Split(f[2:], " ")
		d := c16decl{verb: p[0], path: p[1], name: p[2]}
		if len(p) > 3 {
			d.dir = p[3]
		}
		ds = append(ds, d)
	}
	return
}

// the import path of the package that holds the handler of d
func c16handlerPkg(d c16decl, byMethod bool) string {
	if !byMethod {
		return "example.com/p/biz/handler/api"
	}
	if d.dir == "" {
		return "example.com/p/biz/handler"
	}
	return "example.com/p/biz/handler/" + d.dir
}

var c16methods = []string{"GET", "POST", "PUT", "PATCH", "HEAD", "OPTIONS", "DELETE", "CONNECT", "TRACE"}

func init() {
	hlog.SetLevel(hlog.LevelFatal)
	logs.SetLevel(logs.LevelError)
	register(&Unit{Name: "c16.router", Props: []string{"C16"}, ShrinkOps: true, KeepPrefix: 1,
		// in: option bits (1 sort-router, 2 snake-style middleware, 4 handler-by-method), decl "VERB path Name"...
		Check: func(t *T, in In) []Finding {
			opt := in.N(0)
			decls := c16parseDecls(in, 1)
			if len(decls) == 0 {
				return nil
			}
			if !c16valid(decls) {
				t.Count("declared-set-itself-conflicts")
				return nil
			}
			var fs []Finding
			bad := func(class, impl, expect string) {
				fs = append(fs, Finding{Kind: "oracle", Unit: "c16.router", Class: class, Impl: impl, Expect: expect})
			}
			router, mw, err := c16generate(opt, decls)
			if err != nil {
				bad("generation-failed-or-output-is-not-go", err.Error(), "")
				return fs
			}
			if err := c16typecheck(router, mw, decls, opt&4 != 0); err != nil {
				bad("generated-router-does-not-type-check", err.Error(), "")
				return fs
			}
			fset := token.NewFileSet()
			f, _ := parser.ParseFile(fset, "api.go", router, 0)
			var listing []string
			for _, d := range f.Decls {
				if fd, ok := d.(*ast.FuncDecl); ok && fd.Name.Name == "Register" {
					c16listing(fd.Body.List, &listing)
				}
			}
			for _, l := range listing {
				if strings.HasPrefix(l, "?") {
					bad("unexpected-statement-in-Register", l, "")
					return fs
				}
			}
			regs, err := c16run(listing)
			if err != nil {
				bad("generated-registration-fails", err.Error(), "")
				return fs
			}
			// exactly the declared (verb, path) set, each bound to the declared handler
			imports := map[string]string{}
			for _, is := range f.Imports {
				path, _ := strconv.Unquote(is.Path.Value)
				alias := path[strings.LastIndex(path, "/")+1:]
				if is.Name != nil {
					alias = is.Name.Name
				}
				imports[alias] = path
			}
			want := map[string]string{}
			for _, d := range decls {
				p := d.path
				if !strings.HasPrefix(p, "/") {
					p = "/" + p
				}
				vs := []string{strings.ToUpper(d.verb)}
				if strings.EqualFold(d.verb, "any") {
					vs = c16methods
				}
				for _, v := range vs {
					want[v+" "+p] = c16handlerPkg(d, opt&4 != 0) + "." + d.name
				}
			}
			got := map[string]bool{}
			for _, r := range regs {
				k := r.method + " " + r.path
				if got[k] {
					bad("route-registered-twice", k, "")
				}
				got[k] = true
				name, ok := want[k]
				if !ok {
					bad("undeclared-route-registered", k, "")
					continue
				}
				ran := "?"
				if len(r.chain) >= 3 {
					h := strings.TrimPrefix(r.chain[len(r.chain)-1], "=")
					if i := strings.Index(h, "."); i > 0 {
						ran = imports[h[:i]] + h[i:]
					}
				}
				if ran != name {
					bad("route-bound-to-another-handler", k+" ran "+ran+" "+fmt.Sprint(r.chain), name)
				}
				if len(r.chain) > 0 && r.chain[0] != "rootMw" && r.chain[0] != "root_mw" {
					bad("route-not-wrapped-by-the-root-middleware", fmt.Sprint(r.chain), "")
				}
			}
			var missing []string
			for k := range want {
				if !got[k] {
					missing = append(missing, k)
				}
			}
			sort.Strings(missing)
			if len(missing) > 0 {
				bad("declared-route-not-registered", fmt.Sprint(missing), "")
			}
			t.Count(fmt.Sprintf("options/%d", opt))
			// correspondence with Model/HzRouter.v (default naming style, handler by service)
			if opt&6 == 0 {
				margs := [][]byte{[]byte(strconv.Itoa(opt & 1))}
				for _, d := range decls {
					margs = append(margs, []byte(d.verb), []byte(d.path), []byte(d.name))
				}
				mod := t.M.Call("hz_router", margs...)
				if impl := strings.Join(listing, "\n"); mod != impl {
					fs = append(fs, Finding{Kind: "corr", Unit: "c16.router", Class: "hz_router", Impl: impl, Model: mod})
				}
				// what the program registers on the real engine vs the model's reading of the statements
				// (Any is one registration per method on the engine, one in the model)
				var lines []string
				seenAny := map[string]bool{}
				hs := 0
				for _, l := range listing {
					p := strings.Split(l, "|")
					if p[0] != "H" {
						continue
					}
					hs++
				}
				byKey := map[string]c16reg{}
				for _, r := range regs {
					byKey[r.method+" "+r.path] = r
				}
				_ = seenAny
				modRegs := strings.Split(t.M.Call("hz_interp", margs...), "\n")
				for _, ml := range modRegs {
					q := strings.SplitN(ml, " ", 4)
					if len(q) != 4 {
						lines = append(lines, "unparsable model line: "+ml)
						continue
					}
					verbs := []string{q[0]}
					if q[0] == "Any" {
						verbs = c16methods
					}
					for _, v := range verbs {
						r, ok := byKey[v+" "+q[1]]
						got := "absent"
						if ok {
							got = strings.Join(r.chain[:len(r.chain)-1], ",") + " " + strings.TrimPrefix(r.chain[len(r.chain)-1], "=")
						}
						if want := q[2] + " " + q[3]; got != want {
							lines = append(lines, fmt.Sprintf("%s %s: engine %s, model %s", v, q[1], got, want))
						}
						delete(byKey, v+" "+q[1])
					}
				}
				for k := range byKey {
					lines = append(lines, "engine has "+k+", model has not")
				}
				if len(lines) > 0 {
					sort.Strings(lines)
					fs = append(fs, Finding{Kind: "corr", Unit: "c16.router", Class: "hz_interp", Impl: strings.Join(lines, "; "), Model: strings.Join(modRegs, "; ")})
				}
			}
			return fs
		},
		Gen: func(t *T) {
			segs := []string{"a", "b", "a-b", "a_b", "a.b", "A", "ab", ":id", ":name", "v1", "1x", "user", "users", "a~b"}
			verbs := []string{"GET", "GET", "POST", "PUT", "DELETE", "PATCH", "HEAD", "OPTIONS", "Any", "get"}
			for i := 0; i < t.Scale(400, 12000); i++ {
				in := In{Nn([]int{0, 0, 0, 1, 2, 3, 4, 5}[t.R.Intn(8)])}
				used := map[string]bool{}
				for k, n := 0, 1+t.R.Intn(9); k < n; k++ {
					var sb strings.Builder
					depth := t.R.Intn(5)
					for d := 0; d < depth; d++ {
						sb.WriteString("/" + segs[t.R.Intn(len(segs))])
					}
					switch t.R.Intn(8) {
					case 0:
						sb.WriteString("/*rest")
					case 1:
						sb.WriteString("/")
					}
					p := sb.String()
					if p == "" {
						p = "/"
					}
					v := verbs[t.R.Intn(len(verbs))]
					key := strings.ToUpper(v) + " " + p
					if used[key] || used["ANY "+p] || (strings.EqualFold(v, "any") && c16anyUsed(used, p)) {
						continue
					}
					used[key] = true
					dir := ""
					if in.N(0)&4 != 0 {
						dir = []string{"", "user", "a/user", "b/user", "b/order"}[t.R.Intn(5)]
					}
					in = append(in, S(strings.TrimSpace(fmt.Sprintf("%s %s M%d %s", v, p, k%4, dir))))
				}
				t.Do(in, len(in) > 1)
			}
		}})
}

func c16anyUsed(used map[string]bool, p string) bool {
	for k := range used {
		if strings.HasSuffix(k, " "+p) {
			return true
		}
	}
	return false
}

// ---- c16.update: `hz update` — the IDL gained routes and the router package already exists on disk.
// api.go is regenerated, middleware.go and the handler files are updated in place; the package must
// still be exactly what a fresh generation of the whole IDL gives: it type-checks, every middleware the
// router calls is declared once, every declared handler exists once, and the router equals the fresh one.
func c16generateIn(dir string, opt int, decls []c16decl) (files map[string]string, err error) {
	util.ResetUniqueNamesForVerif()
	generator.ResetForVerif()
	g := &generator.HttpPackageGenerator{ProjPackage: "example.com/p", HandlerDir: "biz/handler", RouterDir: "biz/router", ModelDir: "biz/model",
		SortRouter: opt&1 != 0, SnakeStyleMiddleware: opt&2 != 0, HandlerByMethod: opt&4 != 0}
	g.OutputDir = "."
	var ms []*generator.HttpMethod
	for _, d := range decls {
		ms = append(ms, &generator.HttpMethod{Name: d.name, HTTPMethod: d.verb, Path: d.path, OutputDir: d.dir, ReturnTypeName: "api.Resp", Serializer: "JSON", GenHandler: true})
	}
	pkg := &generator.HttpPackage{IdlName: "api.thrift", Package: "api", Services: []*generator.Service{{Name: "Svc", Methods: ms}}}
	if err = g.Generate(pkg); err != nil {
		return
	}
	fl, err := g.GetFormatAndExcludedFiles()
	if err != nil {
		return
	}
	files = map[string]string{}
	for _, f := range fl {
		files[f.Path] = f.Content
		p := dir + "/" + f.Path
		if err = os.MkdirAll(p[:strings.LastIndex(p, "/")], 0o755); err != nil {
			return
		}
		if err = os.WriteFile(p, []byte(f.Content), 0o644); err != nil {
			return
		}
	}
	return
}

func init() {
	register(&Unit{Name: "c16.update", Props: []string{"C16"},
		// in: option bits, number of declarations of the first run, decl...
		Check: func(t *T, in In) []Finding {
			opt, k := in.N(0), in.N(1)
			decls := c16parseDecls(in, 2)
			if k < 1 || k >= len(decls) || !c16valid(decls) {
				return nil
			}
			c16mu.Lock()
			defer c16mu.Unlock()
			wd, _ := os.Getwd()
			dir, err := os.MkdirTemp("", "verif-c16-")
			if err != nil {
				panic(err)
			}
			defer os.RemoveAll(dir)
			defer os.Chdir(wd)
			var fs []Finding
			bad := func(class, impl, expect string) {
				fs = append(fs, Finding{Kind: "oracle", Unit: "c16.update", Class: class, Impl: impl, Expect: expect})
			}
			// the reference: everything generated at once into an empty project
			ref, _ := os.MkdirTemp("", "verif-c16-ref-")
			defer os.RemoveAll(ref)
			os.Chdir(ref)
			fresh, err := c16generateIn(ref, opt, decls)
			if err != nil {
				return nil // not generable at all: c16.router's subject
			}
			os.Chdir(dir)
			if _, err := c16generateIn(dir, opt, decls[:k]); err != nil {
				return nil
			}
			upd, err := c16generateIn(dir, opt, decls)
			if err != nil {
				bad("update-failed", err.Error(), "")
				return fs
			}
			router, mw := upd["biz/router/api/api.go"], upd["biz/router/api/middleware.go"]
			if mw == "" { // not touched by this run: the file on disk stands
				b, _ := os.ReadFile(dir + "/biz/router/api/middleware.go")
				mw = string(b)
			}
			if router != fresh["biz/router/api/api.go"] {
				bad("updated-router-differs-from-a-fresh-generation", router, fresh["biz/router/api/api.go"])
			}
			if err := c16typecheck(router, mw, decls, opt&4 != 0); err != nil {
				bad("updated-router-package-does-not-type-check", err.Error(), "")
			}
			// every declared handler is defined exactly once in its package
			defs := map[string]int{}
			for path := range fresh {
				if !strings.HasPrefix(path, "biz/handler/") || !strings.HasSuffix(path, ".go") {
					continue
				}
				src, ok := upd[path]
				if !ok {
					b, _ := os.ReadFile(dir + "/" + path)
					src = string(b)
				}
				f, err := parser.ParseFile(token.NewFileSet(), path, src, 0)
				if err != nil {
					bad("updated-handler-file-is-not-go", path+": "+err.Error(), "")
					continue
				}
				for _, d := range f.Decls {
					if fd, ok := d.(*ast.FuncDecl); ok && fd.Recv == nil {
						defs[path[:strings.LastIndex(path, "/")]+"."+fd.Name.Name]++
					}
				}
			}
			for _, d := range decls {
				pk := strings.TrimPrefix(c16handlerPkg(d, opt&4 != 0), "example.com/p/")
				if n := defs[pk+"."+d.name]; n != 1 {
					bad("handler-not-defined-exactly-once-after-update", fmt.Sprintf("%s.%s defined %d times", pk, d.name, n), "")
				}
			}
			t.Count(fmt.Sprintf("options/%d", opt))
			return fs
		},
		Gen: func(t *T) {
			segs := []string{"a", "b", "a-b", "a_b", "a.b", "b_a", "ab", ":id", "v1", "user", "users", "x_user"}
			verbs := []string{"GET", "POST", "PUT", "DELETE", "Any"}
			for i := 0; i < t.Scale(150, 4000); i++ {
				in := In{Nn([]int{0, 0, 1, 2, 3, 4}[t.R.Intn(6)]), Nn(0)}
				used := map[string]bool{}
				for k, n := 0, 2+t.R.Intn(7); k < n; k++ {
					var sb strings.Builder
					for d, depth := 0, 1+t.R.Intn(3); d < depth; d++ {
						sb.WriteString("/" + segs[t.R.Intn(len(segs))])
					}
					p := sb.String()
					v := verbs[t.R.Intn(len(verbs))]
					key := strings.ToUpper(v) + " " + p
					if used[key] || used["ANY "+p] || (strings.EqualFold(v, "any") && c16anyUsed(used, p)) {
						continue
					}
					used[key] = true
					dir := ""
					if in.N(0)&4 != 0 {
						dir = []string{"", "user", "a/user", "b/order"}[t.R.Intn(4)]
					}
					in = append(in, S(strings.TrimSpace(fmt.Sprintf("%s %s M%d %s", v, p, k, dir))))
				}
				if len(in) < 4 {
					continue
				}
				in[1] = Nn(1 + t.R.Intn(len(in)-3))
				t.Do(in, true)
			}
		}})
}
