package main

import "math/rand"

// enumStrings calls f on every string over alphabet of length 0..maxLen.
func enumStrings(alphabet [][]byte, maxLen int, f func([]byte)) {
	var rec func(prefix []byte, depth int)
	rec = func(prefix []byte, depth int) {
		f(prefix)
		if depth == maxLen {
			return
		}
		for _, a := range alphabet {
			rec(append(append([]byte(nil), prefix...), a...), depth+1)
		}
	}
	rec(nil, 0)
}

func toks(ss ...string) [][]byte {
	out := make([][]byte, len(ss))
	for i, s := range ss {
		out[i] = []byte(s)
	}
	return out
}

// randFrom builds a random string of n tokens; with probability 1/8 a token is a random byte.
func randFrom(r *rand.Rand, alphabet [][]byte, n int) []byte {
	var b []byte
	for i := 0; i < n; i++ {
		if r.Intn(8) == 0 {
			b = append(b, byte(r.Intn(256)))
		} else {
			b = append(b, alphabet[r.Intn(len(alphabet))]...)
		}
	}
	return b
}
