package main

import (
	"fmt"
	"strconv"
	"strings"

	"github.com/cloudwego/hertz/pkg/network/standard"
)

// c13.outbuf: the writer side of the real standard.Conn against Model/OutBuf.v (Malloc, WriteBinary, Flush over
// the output link buffer).  After EVERY operation the node structure (hook H3 DumpOutputForVerif: room left,
// capacity:malloc:off:readOnly per node), the number of bytes the peer has received, and at a Flush the bytes it
// received are compared with the model's.
func init() {
	register(&Unit{Name: "c13.outbuf", Props: []string{"C13"},
		// in: ops "M12" (Malloc + fill), "W5000" (WriteBinary of a slice whose capacity is its length), "F" (Flush)
		Check: func(t *T, in In) []Finding {
			sc := &srcConn{}
			conn := standard.NewConnForVerif(sc, 4096)
			var payload []byte
			pos := 0
			var outs []string
			var keep [][]byte
			for _, o := range strings.Split(in.S(0), ",") {
				if o == "" {
					continue
				}
				n := 0
				if len(o) > 1 {
					n, _ = strconv.Atoi(o[1:])
				}
				tok := ""
				switch o[0] {
				case 'M':
					buf, _ := conn.Malloc(n)
					b := patBytes(pos, n)
					copy(buf, b)
					payload = append(payload, b...)
					pos += n
					tok = "M"
				case 'W':
					b := make([]byte, n)
					copy(b, patBytes(pos, n))
					conn.WriteBinary(b)
					keep = append(keep, b)
					payload = append(payload, b...)
					pos += n
					tok = "W"
				case 'F':
					before := sc.out.Len()
					conn.Flush()
					tok = fmt.Sprintf("F%x", sc.out.Bytes()[before:])
					keep = nil
				default:
					continue
				}
				d := standard.DumpOutputForVerif(conn)
				sp := strings.SplitN(d, " ", 2)
				outs = append(outs, fmt.Sprintf("%s@%s sent=%d %s", tok, sp[0], sc.out.Len(), sp[1]))
			}
			impl := strings.Join(outs, ";")
			mod := t.M.Call("ob_script", []byte(in.S(0)), payload)
			if impl != mod {
				is, ms := strings.Split(impl, ";"), strings.Split(mod, ";")
				k := 0
				for k < len(is) && k < len(ms) && is[k] == ms[k] {
					k++
				}
				note := fmt.Sprintf("first difference at operation %d", k)
				if k < len(is) && k < len(ms) {
					note += fmt.Sprintf(": impl %s | model %s", truncate(is[k], 300), truncate(ms[k], 300))
				}
				return []Finding{{Kind: "corr", Unit: "c13.outbuf", Class: "ob_script", Impl: truncate(impl, 2000), Model: truncate(mod, 2000), Note: note}}
			}
			return nil
		},
		Gen: func(t *T) {
			sizes := []int{0, 1, 7, 100, 4095, 4096, 4097, 8191, 8192, 8193, 9000, 20000}
			for _, a := range []int{1, 100, 4095} {
				for _, b := range []int{4096, 9000} {
					for _, c := range []int{1, 3000, 4095, 5000} {
						t.Do(In{S(fmt.Sprintf("M%d,W%d,M%d,F,M%d,F", a, b, c, a))}, true)
						t.Do(In{S(fmt.Sprintf("M%d,F,W%d,F,M%d,F,F", a, b, c))}, true)
						t.Do(In{S(fmt.Sprintf("W%d,M%d,W%d,M%d,F,M%d,W%d,F", b, a, b, c, c, a))}, true)
					}
				}
			}
			for i := 0; i < t.Scale(600, 3000); i++ {
				var ops []string
				for j, n := 0, 1+t.R.Intn(t.Scale(25, 50)); j < n; j++ {
					sz := sizes[t.R.Intn(len(sizes))]
					if t.R.Intn(2) == 0 {
						sz = t.R.Intn(300)
					}
					switch t.R.Intn(5) {
					case 0, 1:
						ops = append(ops, fmt.Sprintf("M%d", sz))
					case 2, 3:
						ops = append(ops, fmt.Sprintf("W%d", sz))
					default:
						ops = append(ops, "F")
					}
				}
				ops = append(ops, "F")
				t.Do(In{S(strings.Join(ops, ","))}, true)
			}
		}})
}
