package main

import (
	"crypto/tls"
	"errors"
	"net"
	"sync"
	"time"

	"github.com/cloudwego/hertz/pkg/network"
	"github.com/cloudwego/hertz/pkg/network/standard"
)

// peerDialer: an in-memory "server" for the real hertz client.  Every dial asks `next` for the
// scripted connection (or a dial error).
type peerDialer struct {
	mu    sync.Mutex
	conns []*scriptConn
	dials int
	next  func(i int) (*scriptConn, error)
}

func (d *peerDialer) DialConnection(nw, address string, timeout time.Duration, tlsConfig *tls.Config) (network.Conn, error) {
	d.mu.Lock()
	i := d.dials
	d.dials++
	d.mu.Unlock()
	sc, err := d.next(i)
	if err != nil {
		return nil, err
	}
	d.mu.Lock()
	d.conns = append(d.conns, sc)
	d.mu.Unlock()
	return standard.NewConnForVerif(sc, 4096), nil
}

func (d *peerDialer) DialTimeout(nw, address string, timeout time.Duration, tlsConfig *tls.Config) (net.Conn, error) {
	return nil, errors.New("not supported")
}

func (d *peerDialer) AddTLS(conn network.Conn, tlsConfig *tls.Config) (network.Conn, error) {
	return nil, errors.New("not supported")
}
