package main

import (
	"errors"
	"context"
	"fmt"
	"strings"

	"github.com/cloudwego/hertz/pkg/app"
	"github.com/cloudwego/hertz/pkg/common/config"
	"github.com/cloudwego/hertz/pkg/common/ut"
	"github.com/cloudwego/hertz/pkg/route"
)

// handler programs over N (Next), the Abort family — A (Abort), S (AbortWithStatus), G (AbortWithMsg),
// J (AbortWithStatusJSON), R (AbortWithError) — and M (mark numbered by position)
var c12Behaviours = []string{"M", "MNM", "MAM", "MNMAM", "MAMNM", "MNMNM", "MSM", "MGM", "MJM", "MRM", "MGMNM"}

func c12Handler(i int, prog string, log *[]string) app.HandlerFunc {
	return func(c context.Context, ctx *app.RequestContext) {
		*log = append(*log, fmt.Sprintf("E%d", i))
		for pos, ch := range prog {
			switch ch {
			case 'N':
				ctx.Next(c)
			case 'A':
				*log = append(*log, "A")
				ctx.Abort()
			case 'S':
				*log = append(*log, "A")
				ctx.AbortWithStatus(403)
			case 'G':
				*log = append(*log, "A")
				ctx.AbortWithMsg("denied", 403)
			case 'J':
				*log = append(*log, "A")
				ctx.AbortWithStatusJSON(403, map[string]string{"e": "denied"})
			case 'R':
				*log = append(*log, "A")
				ctx.AbortWithError(403, errors.New("denied")) //nolint:errcheck
			default:
				*log = append(*log, fmt.Sprintf("M%d.%d", i, pos))
			}
		}
		*log = append(*log, fmt.Sprintf("X%d", i))
	}
}

// traceOracle checks the property directly on a recorded trace: each handler entered at most
// once and in increasing order, none entered after an Abort, and well-bracketed (onion).
func traceOracle(tr []string) string {
	lastEnter := -1
	aborted := false
	var stack []int
	for _, e := range tr {
		var i, n int
		switch {
		case e == "A":
			aborted = true
		case e[0] == 'E':
			fmt.Sscanf(e, "E%d", &i)
			if i <= lastEnter {
				return "entered-twice-or-out-of-order"
			}
			if aborted {
				return "entered-after-abort"
			}
			lastEnter = i
			stack = append(stack, i)
		case e[0] == 'X':
			fmt.Sscanf(e, "X%d", &i)
			if len(stack) == 0 || stack[len(stack)-1] != i {
				return "not-onion-order"
			}
			stack = stack[:len(stack)-1]
		case e[0] == 'M':
			fmt.Sscanf(e, "M%d.%d", &i, &n)
			if len(stack) == 0 || stack[len(stack)-1] != i {
				return "mark-outside-own-bracket"
			}
		}
	}
	if len(stack) != 0 {
		return "unclosed-bracket"
	}
	return ""
}

func newEngine() *route.Engine {
	opt := config.NewOptions(nil)
	return route.NewEngine(opt)
}

func init() {
	register(&Unit{Name: "c12.chain", Props: []string{"C12"},
		Check: func(t *T, in In) []Finding {
			progs := strings.Split(in.S(0), ",")
			var log []string
			e := newEngine()
			hs := make([]app.HandlerFunc, len(progs))
			for i, p := range progs {
				hs[i] = c12Handler(i, p, &log)
			}
			e.GET("/x", hs...)
			ut.PerformRequest(e, "GET", "/x", nil)
			impl := strings.Join(log, " ")
			margs := make([][]byte, len(progs))
			for i, p := range progs {
				margs[i] = []byte(strings.NewReplacer("S", "A", "G", "A", "J", "A", "R", "A").Replace(p))
			}
			mod := t.M.Call("run_chain", margs...)
			var fs []Finding
			if impl != mod {
				fs = append(fs, Finding{Kind: "corr", Unit: "c12.chain", Class: "run_chain", Impl: impl, Model: mod})
			}
			if why := traceOracle(log); why != "" {
				fs = append(fs, Finding{Kind: "oracle", Unit: "c12.chain", Class: why, Impl: impl})
			}
			return fs
		},
		Gen: func(t *T) {
			maxLen := t.Scale(5, 6)
			var rec func(prefix []string)
			rec = func(prefix []string) {
				if len(prefix) > 0 {
					t.Do(In{S(strings.Join(prefix, ","))}, len(prefix) > 1)
				}
				if len(prefix) == maxLen {
					return
				}
				for _, b := range c12Behaviours[:7] { // exhaustive over the first seven; the rest of the Abort family below
					rec(append(append([]string(nil), prefix...), b))
				}
			}
			rec(nil)
			// every member of the Abort family at every position of chains of up to four handlers
			for _, ab := range []string{"MGM", "MJM", "MRM", "MGMNM", "MSM"} {
				for n := 1; n <= 4; n++ {
					for pos := 0; pos < n; pos++ {
						for _, other := range []string{"MNM", "M", "MNMNM"} {
							ps := make([]string, n)
							for j := range ps {
								ps[j] = other
							}
							ps[pos] = ab
							t.Do(In{S(strings.Join(ps, ","))}, true)
						}
					}
				}
			}
			// longer chains and denser programs, random
			alpha := "NAMSGJR"
			for i := 0; i < t.Scale(3000, 60000); i++ {
				n := 1 + t.R.Intn(12)
				ps := make([]string, n)
				for j := range ps {
					k := t.R.Intn(5)
					b := make([]byte, k)
					for x := range b {
						b[x] = alpha[t.R.Intn(len(alpha))]
					}
					ps[j] = "M" + string(b)
				}
				t.Do(In{S(strings.Join(ps, ","))}, true)
			}
		}})

	// assembly: engine / group middleware, Use before and after registration, 404 and 405 chains.
	// A program is a list of ops; the expectation is computed independently: the middleware ids
	// visible on the group path at registration time, outermost first, then the route's handlers.
	register(&Unit{Name: "c12.assembly", Props: []string{"C12", "C06"},
		Check: func(t *T, in In) []Finding {
			ops := strings.Fields(in.S(0))
			opt := config.NewOptions(nil)
			opt.HandleMethodNotAllowed = true
			e := route.NewEngine(opt)
			var log []string
			mk := func(id string) app.HandlerFunc {
				return func(c context.Context, ctx *app.RequestContext) { log = append(log, id) }
			}
			type grp struct {
				g    *route.RouterGroup
				mws  []string // expected middleware ids, in order
				path string
			}
			groups := []*grp{{g: &e.RouterGroup, path: ""}}
			type rt struct {
				method, path string
				exp          []string
			}
			var routes []rt
			var noRoute, noMethod []string
			id := 0
			fresh := func(prefix string) string { id++; return fmt.Sprintf("%s%d", prefix, id) }
			for _, op := range ops {
				var gi, k int
				switch {
				case strings.HasPrefix(op, "use"): // use<g>.<k>
					fmt.Sscanf(op, "use%d.%d", &gi, &k)
					if gi >= len(groups) {
						continue
					}
					g := groups[gi]
					var hs []app.HandlerFunc
					for j := 0; j < k; j++ {
						n := fresh("m")
						hs = append(hs, mk(n))
						g.mws = append(g.mws, n)
					}
					if gi == 0 {
						e.Use(hs...)
					} else {
						g.g.Use(hs...)
					}
				case strings.HasPrefix(op, "grp"): // grp<parent>.<k>
					fmt.Sscanf(op, "grp%d.%d", &gi, &k)
					if gi >= len(groups) || len(groups) > 6 {
						continue
					}
					p := groups[gi]
					var hs []app.HandlerFunc
					ng := &grp{mws: append([]string(nil), p.mws...), path: p.path + fmt.Sprintf("/g%d", len(groups))}
					for j := 0; j < k; j++ {
						n := fresh("m")
						hs = append(hs, mk(n))
						ng.mws = append(ng.mws, n)
					}
					ng.g = p.g.Group(fmt.Sprintf("/g%d", len(groups)), hs...)
					groups = append(groups, ng)
				case strings.HasPrefix(op, "get"): // get<g>.<k>
					fmt.Sscanf(op, "get%d.%d", &gi, &k)
					if gi >= len(groups) || k == 0 {
						continue
					}
					g := groups[gi]
					var hs []app.HandlerFunc
					exp := append([]string(nil), g.mws...)
					for j := 0; j < k; j++ {
						n := fresh("h")
						hs = append(hs, mk(n))
						exp = append(exp, n)
					}
					p := fmt.Sprintf("/r%d", len(routes))
					g.g.GET(p, hs...)
					routes = append(routes, rt{"GET", g.path + p, exp})
				case strings.HasPrefix(op, "noroute"):
					fmt.Sscanf(op, "noroute%d", &k)
					var hs []app.HandlerFunc
					noRoute = nil
					for j := 0; j < k; j++ {
						n := fresh("nr")
						hs = append(hs, mk(n))
						noRoute = append(noRoute, n)
					}
					e.NoRoute(hs...)
				case strings.HasPrefix(op, "nomethod"):
					fmt.Sscanf(op, "nomethod%d", &k)
					var hs []app.HandlerFunc
					noMethod = nil
					for j := 0; j < k; j++ {
						n := fresh("nm")
						hs = append(hs, mk(n))
						noMethod = append(noMethod, n)
					}
					e.NoMethod(hs...)
				}
			}
			var fs []Finding
			run := func(method, path string, exp []string, class string) {
				log = nil
				ut.PerformRequest(e, method, path, nil)
				if strings.Join(log, " ") != strings.Join(exp, " ") {
					fs = append(fs, Finding{Kind: "oracle", Unit: "c12.assembly", Class: class, Impl: strings.Join(log, " "), Expect: strings.Join(exp, " "), Note: method + " " + path})
				}
			}
			for _, r := range routes {
				run(r.method, r.path, r.exp, "route-chain")
			}
			engineMws := groups[0].mws
			run("GET", "/definitely/not/registered", append(append([]string(nil), engineMws...), noRoute...), "notfound-chain")
			if len(routes) > 0 {
				run("POST", routes[0].path, append(append([]string(nil), engineMws...), noMethod...), "nomethod-chain")
			}
			return fs
		},
		Gen: func(t *T) {
			// directed: the shapes where slices could share backing arrays
			for uses := 0; uses <= 8; uses++ {
				var ops []string
				for i := 0; i < uses; i++ {
					ops = append(ops, "use0.1")
				}
				for _, tail := range []string{
					"grp0.0 use1.1 use0.1 get1.1",
					"grp0.0 grp0.0 use1.1 use2.1 get1.1 get2.1",
					"grp0.1 grp1.0 use2.1 use1.1 get2.1 get1.1",
					"get0.1 use0.1 get0.1 grp0.0 use0.1 use1.1 get1.1 get0.1",
					"noroute1 use0.1 nomethod1 use0.1 get0.1",
					"use0.1 get0.1",
				} {
					t.Do(In{S(strings.Join(ops, " ") + " " + tail)}, true)
				}
			}
			kinds := []string{"use", "use", "grp", "get", "get", "noroute", "nomethod"}
			for i := 0; i < t.Scale(4000, 80000); i++ {
				n := 2 + t.R.Intn(14)
				var ops []string
				ng := 1
				for j := 0; j < n; j++ {
					k := kinds[t.R.Intn(len(kinds))]
					switch k {
					case "use", "get":
						ops = append(ops, fmt.Sprintf("%s%d.%d", k, t.R.Intn(ng), 1+t.R.Intn(2)))
					case "grp":
						if ng < 6 {
							ops = append(ops, fmt.Sprintf("grp%d.%d", t.R.Intn(ng), t.R.Intn(3)))
							ng++
						}
					default:
						ops = append(ops, fmt.Sprintf("%s%d", k, t.R.Intn(3)))
					}
				}
				t.Do(In{S(strings.Join(ops, " "))}, true)
			}
		}})
}
