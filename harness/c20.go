package main

import (
	"fmt"
	"math"
	"math/rand"
	"reflect"
	"strings"

	"github.com/cloudwego/hertz/pkg/app/server/binding"
	"github.com/cloudwego/hertz/pkg/verifexport"
)

// ---- token expressions: operands are digits, operators are one-byte codes, ( ) groups ----
var c20Ops = map[byte]string{'*': "*", '/': "/", '%': "%", '+': "+", '-': "-", '<': "<", 'L': "<=", '>': ">", 'G': ">=", 'E': "==", 'N': "!=", '&': "&&", '|': "||"}
var c20Prio = map[string]int{"*": 6, "/": 6, "%": 6, "+": 5, "-": 5, "<": 4, "<=": 4, ">": 4, ">=": 4, "==": 3, "!=": 3, "&&": 2, "||": 1}
var c20Codes = []byte("*/%+-<L>GEN&|")

// expand a token string to a real expression, with seeded random spacing
func c20Expand(tok []byte, r *rand.Rand) string {
	var sb strings.Builder
	sp := func() {
		if r != nil {
			sb.WriteString(strings.Repeat(" ", r.Intn(3)))
		} else {
			sb.WriteString(" ")
		}
	}
	for _, c := range tok {
		if op, ok := c20Ops[c]; ok {
			sp()
			sb.WriteString(op)
			sp()
		} else {
			sb.WriteByte(c)
		}
	}
	return sb.String()
}

// independent precedence-climbing parser over the token string, rendering like the hook
type c20node struct {
	op   string
	l, r *c20node
	leaf string
	grp  *c20node
}

func (n *c20node) String() string {
	switch {
	case n.grp != nil:
		return "G(" + n.grp.String() + ")"
	case n.op != "":
		return "(" + n.l.String() + " " + n.op + " " + n.r.String() + ")"
	}
	return n.leaf
}

type c20parser struct {
	s   []byte
	pos int
}

func (p *c20parser) primary() *c20node {
	if p.pos >= len(p.s) {
		return nil
	}
	c := p.s[p.pos]
	if c == '(' {
		p.pos++
		inner := p.expr(0)
		if inner == nil || p.pos >= len(p.s) || p.s[p.pos] != ')' {
			return nil
		}
		p.pos++
		return &c20node{grp: inner}
	}
	if _, isOp := c20Ops[c]; isOp || c == ')' {
		return nil
	}
	p.pos++
	return &c20node{leaf: string(c)}
}

func (p *c20parser) expr(minPrio int) *c20node {
	lhs := p.primary()
	if lhs == nil {
		return nil
	}
	for p.pos < len(p.s) {
		op, ok := c20Ops[p.s[p.pos]]
		if !ok || c20Prio[op] < minPrio {
			break
		}
		p.pos++
		rhs := p.expr(c20Prio[op] + 1) // left associative
		if rhs == nil {
			return nil
		}
		lhs = &c20node{op: op, l: lhs, r: rhs}
	}
	return lhs
}

func c20Spec(tok []byte) string {
	p := &c20parser{s: tok}
	n := p.expr(0)
	if n == nil || p.pos != len(tok) {
		return "!SYNTAX"
	}
	return "G(" + n.String() + ")"
}

func c20RandTok(r *rand.Rand, depth int) []byte {
	n := 1 + r.Intn(5)
	var out []byte
	for i := 0; i < n; i++ {
		if i > 0 {
			out = append(out, c20Codes[r.Intn(len(c20Codes))])
		}
		if depth > 0 && r.Intn(4) == 0 {
			out = append(out, '(')
			out = append(out, c20RandTok(r, depth-1)...)
			out = append(out, ')')
		} else {
			out = append(out, byte('0'+r.Intn(10)))
		}
	}
	return out
}

// ---- evaluation oracle (documented semantics, float64) over the same token trees ----
type c20val struct {
	f      float64
	b      bool
	isBool bool
}

func c20truth(v c20val) bool {
	if v.isBool {
		return v.b
	}
	return v.f != 0
}

func c20eval(n *c20node, dollar float64) c20val {
	switch {
	case n.grp != nil:
		return c20eval(n.grp, dollar)
	case n.op == "":
		if n.leaf == "$" {
			return c20val{f: dollar}
		}
		var f float64
		fmt.Sscanf(n.leaf, "%g", &f)
		return c20val{f: f}
	}
	a, b := c20eval(n.l, dollar), c20eval(n.r, dollar)
	num := func(v c20val) float64 { return v.f }
	switch n.op {
	case "+":
		return c20val{f: num(a) + num(b)}
	case "-":
		return c20val{f: num(a) - num(b)}
	case "*":
		return c20val{f: num(a) * num(b)}
	case "/":
		if num(b) == 0 {
			return c20val{f: math.NaN()}
		}
		return c20val{f: num(a) / num(b)}
	case "%":
		if int64(num(b)) == 0 {
			return c20val{f: math.NaN()}
		}
		return c20val{f: float64(int64(num(a)) % int64(num(b)))}
	case "<":
		return c20val{b: num(a) < num(b), isBool: true}
	case "<=":
		return c20val{b: num(a) <= num(b), isBool: true}
	case ">":
		return c20val{b: num(a) > num(b), isBool: true}
	case ">=":
		return c20val{b: num(a) >= num(b), isBool: true}
	case "==":
		if a.isBool != b.isBool {
			return c20val{b: false, isBool: true}
		}
		if a.isBool {
			return c20val{b: a.b == b.b, isBool: true}
		}
		return c20val{b: a.f == b.f, isBool: true}
	case "!=":
		if a.isBool != b.isBool {
			return c20val{b: true, isBool: true}
		}
		if a.isBool {
			return c20val{b: a.b != b.b, isBool: true}
		}
		return c20val{b: a.f != b.f, isBool: true}
	case "&&":
		return c20val{b: c20truth(a) && c20truth(b), isBool: true}
	case "||":
		return c20val{b: c20truth(a) || c20truth(b), isBool: true}
	}
	return c20val{}
}

// well-typed for the oracle: arithmetic and ordering on numbers only; no NaN reaches a comparison
func c20typed(n *c20node) (isBool bool, ok bool) {
	switch {
	case n.grp != nil:
		return c20typed(n.grp)
	case n.op == "":
		return false, true
	}
	ab, ok1 := c20typed(n.l)
	bb, ok2 := c20typed(n.r)
	if !ok1 || !ok2 {
		return false, false
	}
	switch n.op {
	case "+", "-", "*", "/", "%":
		return false, !ab && !bb
	case "<", "<=", ">", ">=":
		return true, !ab && !bb
	case "==", "!=":
		return true, ab == bb
	default:
		return true, ab && bb
	}
}

func init() {
	register(&Unit{Name: "c20.shape", Props: []string{"C20"},
		Check: func(t *T, in In) []Finding {
			tok := in.B(0)
			var r *rand.Rand
			if in.N(1) != 0 {
				r = rand.New(rand.NewSource(int64(in.N(1))))
			}
			expr := c20Expand(tok, r)
			impl, err := verifexport.TagexprShape(expr)
			if err != nil {
				impl = "!SYNTAX"
			}
			var fs []Finding
			mod := t.M.Call("sort_shape", tok)
			if impl != mod {
				fs = append(fs, Finding{Kind: "corr", Unit: "c20.shape", Class: "sort_shape", Impl: impl, Model: mod, Note: expr})
			}
			if spec := c20Spec(tok); spec != impl {
				fs = append(fs, Finding{Kind: "oracle", Unit: "c20.shape", Class: "shape-differs-from-precedence-climbing", Impl: impl, Expect: spec, Note: expr})
			}
			if ms := t.M.Call("spec_shape", tok); ms != c20Spec(tok) {
				fs = append(fs, Finding{Kind: "corr", Unit: "c20.shape", Class: "spec_shape-vs-go-spec", Impl: c20Spec(tok), Model: ms})
			}
			return fs
		},
		Gen: func(t *T) {
			// all operator sequences up to length 4 (thorough 5) over one representative per class
			reps := []byte("*+<E&|")
			maxOps := t.Scale(4, 5)
			var rec func(prefix []byte, n int)
			rec = func(prefix []byte, n int) {
				tok := append(append([]byte(nil), prefix...), byte('1'+n))
				t.Do(In{H(tok), Nn(0)}, n >= 2)
				if n == maxOps {
					return
				}
				for _, o := range reps {
					rec(append(append([]byte(nil), tok...), o), n+1)
				}
			}
			rec(nil, 0)
			// every pair of the 13 operators
			for _, a := range c20Codes {
				for _, b := range c20Codes {
					t.Do(In{H([]byte{'1', a, '2', b, '3'}), Nn(0)}, true)
					t.Do(In{H([]byte{'1', a, '(', '2', b, '3', ')', b, '4'}), Nn(0)}, true)
				}
			}
			for i := 0; i < t.Scale(10000, 200000); i++ {
				tok := c20RandTok(t.R, t.Scale(3, 5))
				t.Do(In{H(tok), Nn(1 + t.R.Intn(1000))}, len(tok) > 3)
			}
		}})

	// function arguments are sorted separately (parseFuncSign): len/in with operator arguments
	register(&Unit{Name: "c20.funcargs", Props: []string{"C20"},
		Check: func(t *T, in In) []Finding {
			tok := in.B(0)
			expr := "in($," + c20Expand(tok, nil) + ",100)"
			impl, err := verifexport.TagexprShape(expr)
			if err != nil {
				impl = "!SYNTAX"
			}
			spec := c20Spec(tok)
			dollar, _ := verifexport.TagexprShape("$")
			exp := "G(F(" + dollar + "," + spec + ",G(100)))"
			var fs []Finding
			if spec != "!SYNTAX" && impl != exp {
				fs = append(fs, Finding{Kind: "oracle", Unit: "c20.funcargs", Class: "funcarg-shape-differs-from-precedence-climbing", Impl: impl, Expect: exp, Note: expr})
			}
			return fs
		},
		Gen: func(t *T) {
			for _, a := range c20Codes {
				for _, b := range c20Codes {
					t.Do(In{H([]byte{'1', a, '2', b, '3'})}, true)
				}
			}
			for i := 0; i < t.Scale(2000, 40000); i++ {
				t.Do(In{H(c20RandTok(t.R, 2))}, true)
			}
		}})

	// end to end: binding.Validate on run-time generated struct types
	register(&Unit{Name: "c20.eval", Props: []string{"C20"},
		Check: func(t *T, in In) []Finding {
			tok := in.B(0)
			val := float64(in.N(1)) / 2 // field values in halves: ..., -1, -0.5, 0, 0.5, 1, ...
			p := &c20parser{s: tok}
			n := p.expr(0)
			if n == nil || p.pos != len(tok) {
				return nil
			}
			if isBool, ok := c20typed(n); !ok || !isBool {
				return nil
			}
			// '$' is written as operand 'x' in the token string
			expr := strings.ReplaceAll(c20Expand(tok, nil), "x", "$")
			var walk func(m *c20node)
			walk = func(m *c20node) {
				if m == nil {
					return
				}
				if m.leaf == "x" {
					m.leaf = "$"
				}
				walk(m.l)
				walk(m.r)
				walk(m.grp)
			}
			walk(n)
			want := c20truth(c20eval(n, val))
			typ := reflect.StructOf([]reflect.StructField{{Name: "A", Type: reflect.TypeOf(float64(0)), Tag: reflect.StructTag(fmt.Sprintf(`vd:"%s"`, expr))}})
			obj := reflect.New(typ)
			obj.Elem().Field(0).SetFloat(val)
			err := binding.Validate(obj.Interface())
			got := err == nil
			if got != want {
				return []Finding{{Kind: "oracle", Unit: "c20.eval", Class: "validate-differs-from-documented-evaluation", Impl: fmt.Sprint(got), Expect: fmt.Sprint(want), Note: fmt.Sprintf("vd:%q A=%v err=%v", expr, val, err)}}
			}
			return nil
		},
		Gen: func(t *T) {
			ops := []byte("*/%+-")
			cmps := []byte("<L>GEN")
			operands := []byte("x0123")
			// arithmetic of 1..3 operators compared with a literal, all small field values
			for i := 0; i < t.Scale(6000, 120000); i++ {
				n := 1 + t.R.Intn(3)
				tok := []byte{operands[t.R.Intn(len(operands))]}
				for j := 0; j < n; j++ {
					tok = append(tok, ops[t.R.Intn(len(ops))], operands[t.R.Intn(len(operands))])
				}
				tok = append(tok, cmps[t.R.Intn(len(cmps))], operands[t.R.Intn(len(operands))])
				if t.R.Intn(3) == 0 {
					tok = append(tok, "&|"[t.R.Intn(2)], 'x', cmps[t.R.Intn(len(cmps))], operands[t.R.Intn(len(operands))])
				}
				t.Do(In{H(tok), Nn(t.R.Intn(13) - 6)}, true)
			}
		}})
}
