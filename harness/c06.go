package main

import (
	"context"
	"encoding/hex"
	"fmt"
	"math/rand"
	"strings"

	"github.com/cloudwego/hertz/pkg/app"
	"github.com/cloudwego/hertz/pkg/common/config"
	"github.com/cloudwego/hertz/pkg/common/utils"
)

// ---- an independent, search-free reading of the routing rule (Go side oracle) ----
type c06tok struct {
	kind int // 0 literal, 1 param, 2 catch-all
	c    byte
	name string
}

func c06tokens(p string) (ts []c06tok) {
	for i := 0; i < len(p); i++ {
		switch p[i] {
		case ':':
			j := i + 1
			for j < len(p) && p[j] != '/' {
				j++
			}
			ts = append(ts, c06tok{kind: 1, name: p[i+1 : j]})
			i = j - 1
		case '*':
			ts = append(ts, c06tok{kind: 2, name: p[i+1:]})
			return
		default:
			ts = append(ts, c06tok{c: p[i]})
		}
	}
	return
}

// c06match: does the pattern match s, and with which values
func c06match(ts []c06tok, s string) (bool, []string) {
	var vals []string
	for _, t := range ts {
		switch t.kind {
		case 0:
			if s == "" || s[0] != t.c {
				return false, nil
			}
			s = s[1:]
		case 1:
			if s == "" {
				return false, nil
			}
			i := strings.IndexByte(s, '/')
			if i < 0 {
				i = len(s)
			}
			vals = append(vals, s[:i])
			s = s[i:]
		case 2:
			return true, append(vals, s)
		}
	}
	return s == "", vals
}

// c06better: p wins over q at the first point where they differ (literal/end < param < catch-all)
func c06better(p, q []c06tok) bool {
	for i := 0; ; i++ {
		switch {
		case i >= len(p) && i >= len(q):
			return false
		case i >= len(p):
			return q[i].kind > 0
		case i >= len(q):
			return false
		}
		a, b := p[i], q[i]
		if a.kind == b.kind && (a.kind != 0 || a.c == b.c) {
			continue
		}
		return a.kind < b.kind
	}
}

type c06result struct {
	chain    []string // what ran, in order: middlewares m0.. then the route handler
	ran      int
	fullPath string
	params   [][2]string
	status   int
}

func (r c06result) String() string {
	if r.ran < 0 {
		return "NONE"
	}
	var ps []string
	for _, kv := range r.params {
		ps = append(ps, kv[0]+"="+hex.EncodeToString([]byte(kv[1])))
	}
	return fmt.Sprintf("H%d %s %s", r.ran, r.fullPath, strings.Join(ps, ","))
}

// c06serve registers the routes in the given order on a fresh real Engine and serves one request.
// routes are "<M><pattern>" with M = G or P.  ok=false: registration panicked.
func c06serve(optBits int, routes []string, order []int, method, uri string) (res c06result, rPath string, ok bool) {
	res, rPath, ok, _ = c06serveDump(optBits, routes, order, method, uri)
	return
}

// c06serveDump also renders the radix tree of the request's method (hook H3)
func c06serveDump(optBits int, routes []string, order []int, method, uri string) (res c06result, rPath string, ok bool, dump string) {
	e := newRunningEngine(func(o *config.Options) {
		o.UseRawPath = optBits&1 != 0
		o.UnescapePathValues = optBits&2 == 0
		o.RemoveExtraSlash = optBits&4 != 0
		o.RedirectTrailingSlash = optBits&8 == 0
		o.RedirectFixedPath = optBits&16 != 0
		o.HandleMethodNotAllowed = optBits&32 != 0
	})
	res.ran = -1
	// middlewares added by separate Use calls (the group's handler slice gets spare capacity)
	for k := 0; k < (optBits>>8)&7; k++ {
		k := k
		e.Use(func(c context.Context, ctx *app.RequestContext) {
			res.chain = append(res.chain, fmt.Sprintf("m%d", k))
			ctx.Next(c)
		})
	}
	func() {
		defer func() {
			if r := recover(); r != nil {
				ok = false
			}
		}()
		ok = true
		for _, i := range order {
			i := i
			m := map[byte]string{'G': "GET", 'P': "POST"}[routes[i][0]]
			e.Handle(m, routes[i][1:], func(c context.Context, ctx *app.RequestContext) {
				res.ran = i
				res.chain = append(res.chain, fmt.Sprintf("H%d", i))
				res.fullPath = ctx.FullPath()
				for _, p := range ctx.Params {
					res.params = append(res.params, [2]string{p.Key, p.Value})
				}
			})
		}
	}()
	if !ok {
		return
	}
	ctx := e.NewContext()
	ctx.Request.Header.SetMethod(method)
	ctx.Request.SetRequestURI(uri)
	ctx.Request.SetHost("h")
	rPath = string(ctx.Request.URI().Path())
	if optBits&1 != 0 {
		rPath = string(ctx.Request.URI().PathOriginal())
	}
	if optBits&4 != 0 {
		rPath = utils.CleanPath(rPath)
	}
	e.ServeHTTP(context.Background(), ctx)
	res.status = ctx.Response.StatusCode()
	dump = e.DumpTreeForVerif(method, func(ppath string) string {
		for i, r := range routes {
			if map[byte]string{'G': "GET", 'P': "POST"}[r[0]] == method && r[1:] == ppath {
				return fmt.Sprint(i)
			}
		}
		return "?" + ppath
	})
	return
}

func init() {
	register(&Unit{Name: "c06.router", Props: []string{"C06"}, ShrinkOps: true, KeepPrefix: 4, SpecExact: true,
		// in: option bits, order seed, method (G/P), request URI (bytes), routes "<M><pattern>"...
		Check: func(t *T, in In) []Finding {
			optBits, seed, method, uri := in.N(0), in.N(1), in.S(2), string(in.B(3))
			var routes []string
			for _, f := range in[4:] {
				routes = append(routes, f[2:])
			}
			if len(routes) == 0 {
				return nil
			}
			ident := make([]int, len(routes))
			for i := range ident {
				ident[i] = i
			}
			order := append([]int{}, ident...)
			rand.New(rand.NewSource(int64(seed))).Shuffle(len(order), func(i, j int) { order[i], order[j] = order[j], order[i] })
			m := map[string]string{"G": "GET", "P": "POST"}[method]
			r1, rPath, ok1 := c06serve(optBits, routes, ident, m, uri)
			r2, _, ok2, dump2 := c06serveDump(optBits, routes, order, m, uri)
			var fs []Finding
			bad := func(class, impl, expect string) {
				fs = append(fs, Finding{Kind: "oracle", Unit: "c06.router", Class: class, Impl: impl, Expect: expect})
			}
			if ok1 != ok2 {
				t.Count("acceptance-depends-on-order")
				return nil
			}
			if !ok1 {
				t.Count("set-rejected")
				return nil
			}
			t.Count("set-accepted")
			if r1.String() != r2.String() {
				bad("registration-order-changes-the-outcome", r2.String()+" (order "+fmt.Sprint(order)+")", r1.String())
			}
			if rPath == "" || rPath[0] != '/' {
				if r1.ran >= 0 {
					bad("handler-ran-for-a-non-path", r1.String(), "NONE")
				}
				return fs
			}
			unescape := optBits&1 != 0 && optBits&2 == 0
			// search-free oracle: the chosen route matches, its parameters are the matched substrings,
			// it beats every other matching route of the method; nothing runs when nothing matches
			var matching []int
			for i, r := range routes {
				if r[:1] != method {
					continue
				}
				if okm, _ := c06match(c06tokens(r[1:]), rPath); okm {
					matching = append(matching, i)
				}
			}
			if r1.ran >= 0 {
				var want []string
				for k := 0; k < (optBits>>8)&7; k++ {
					want = append(want, fmt.Sprintf("m%d", k))
				}
				want = append(want, fmt.Sprintf("H%d", r1.ran))
				if fmt.Sprint(r1.chain) != fmt.Sprint(want) {
					bad("chain-that-ran-is-not-middlewares-then-the-route-handler", fmt.Sprint(r1.chain), fmt.Sprint(want))
				}
				if fmt.Sprint(r2.chain) != fmt.Sprint(want) {
					bad("chain-that-ran-is-not-middlewares-then-the-route-handler", fmt.Sprint(r2.chain)+" (order "+fmt.Sprint(order)+")", fmt.Sprint(want))
				}
			}
			if r1.ran < 0 {
				t.Count("outcome/no-route")
				if len(matching) > 0 {
					bad("no-handler-although-a-route-matches", "NONE", routes[matching[0]])
				}
			} else {
				t.Count("outcome/handler")
				ts := c06tokens(routes[r1.ran][1:])
				okm, vals := c06match(ts, rPath)
				if routes[r1.ran][:1] != method || !okm {
					bad("handler-of-a-route-that-does-not-match", r1.String(), fmt.Sprint(matching))
				} else {
					if r1.fullPath != routes[r1.ran][1:] {
						bad("full-path-differs-from-the-registered-pattern", r1.fullPath, routes[r1.ran][1:])
					}
					if !unescape {
						var got []string
						for _, kv := range r1.params {
							got = append(got, kv[1])
						}
						if fmt.Sprintf("%q", got) != fmt.Sprintf("%q", vals) {
							bad("parameter-differs-from-the-matched-substring", fmt.Sprintf("%q", got), fmt.Sprintf("%q", vals))
						}
					}
					for _, j := range matching {
						if j != r1.ran && !c06better(ts, c06tokens(routes[j][1:])) {
							bad("a-higher-priority-route-matches", r1.String(), routes[j])
						}
					}
				}
			}
			// the compressed tree itself: the real tree built in this registration order against Model/Radix.v
			// (shape, handlers), which also certifies that the tree is well-formed and holds exactly the routes
			{
				var ord []string
				for _, i := range order {
					if routes[i][:1] == method {
						ord = append(ord, fmt.Sprint(i))
					}
				}
				rargs := [][]byte{[]byte(strings.Join(ord, ","))}
				for _, r := range routes {
					rargs = append(rargs, []byte(r[1:]))
				}
				want := "wf=1 routes=1 " + dump2
				if len(ord) == 0 {
					want = "wf=1 routes=1 S\"\"[|-|-]"
				}
				if len(ord) > 0 {
					if mod := t.M.Call("radix_script", rargs...); mod != want {
						fs = append(fs, Finding{Kind: "corr", Unit: "c06.router", Class: "radix_script", Impl: want, Model: mod})
					}
				}
			}
			// correspondence with Model/Router.v
			margs := [][]byte{[]byte(map[bool]string{true: "1", false: "0"}[unescape]), []byte(rPath)}
			for _, r := range routes {
				if r[:1] == method {
					margs = append(margs, []byte(r[1:]))
				} else {
					margs = append(margs, nil)
				}
			}
			if mod := t.M.Call("route_find", margs...); mod != r1.String() {
				fs = append(fs, Finding{Kind: "corr", Unit: "c06.router", Class: "route_find", Impl: r1.String(), Model: mod, Note: "rPath=" + rPath})
			}
			return fs
		},
		Gen: func(t *T) {
			segs := []string{"a", "b", "ab", "a", ":x", ":y", "a:x", "b:y", ":x", "ba"} // no empty segment: registration cleans // away
			vals := []string{"a", "b", "ab", "", "a/b", "x", "abb", "%41", "a+b", "%2F", "%zz", "a/", "/"}
			genPattern := func(k int) string {
				var sb strings.Builder
				n := 1 + t.R.Intn(4)
				for i := 0; i < n; i++ {
					sb.WriteByte('/')
					if i == n-1 && t.R.Intn(5) == 0 {
						sb.WriteString(fmt.Sprintf("*f%d", k))
						return sb.String()
					}
					s := segs[t.R.Intn(len(segs))]
					if strings.Contains(s, ":") {
						s = fmt.Sprintf("%s%d", s, i) // distinct names per position
					}
					sb.WriteString(s)
				}
				if t.R.Intn(5) == 0 {
					sb.WriteByte('/')
				}
				return sb.String()
			}
			instantiate := func(p string) string {
				var sb strings.Builder
				for _, tk := range c06tokens(p) {
					switch tk.kind {
					case 0:
						sb.WriteByte(tk.c)
					default:
						sb.WriteString(vals[t.R.Intn(len(vals))])
					}
				}
				return sb.String()
			}
			mutate := func(s string) string {
				switch t.R.Intn(6) {
				case 0:
					if len(s) > 1 {
						return s[:len(s)-1]
					}
				case 1:
					return s + "/"
				case 2:
					return s + "a"
				case 3:
					if len(s) > 2 {
						i := 1 + t.R.Intn(len(s)-1)
						return s[:i] + string("ab/"[t.R.Intn(3)]) + s[i+1:]
					}
				case 4:
					if len(s) > 2 {
						i := 1 + t.R.Intn(len(s)-1)
						return s[:i] + s[i+1:]
					}
				}
				return s
			}
			optChoices := []int{0, 0, 0, 1, 3, 4, 8, 16, 32, 1 | 4}
			for i := 0; i < t.Scale(2500, 60000); i++ {
				n := 1 + t.R.Intn(6)
				in := In{Nn(optChoices[t.R.Intn(len(optChoices))] | t.R.Intn(8)<<8), Nn(t.R.Intn(1 << 20)), S("GP"[t.R.Intn(6)/5 : t.R.Intn(6)/5+1]), ""}
				in[2] = S(map[bool]string{true: "P", false: "G"}[t.R.Intn(6) == 0])
				var pats []string
				for k := 0; k < n; k++ {
					m := "G"
					if t.R.Intn(6) == 0 {
						m = "P"
					}
					p := genPattern(k)
					pats = append(pats, p)
					in = append(in, S(m+p))
				}
				path := instantiate(pats[t.R.Intn(len(pats))])
				if t.R.Intn(3) == 0 {
					path = mutate(path)
				}
				if t.R.Intn(12) == 0 {
					path = "/" + strings.Repeat("a/", t.R.Intn(3)) + vals[t.R.Intn(len(vals))]
				}
				in[3] = H([]byte(path))
				t.Do(in, true)
			}
			// bounded-exhaustive: every pair of patterns from a small universe x every short path
			if t.Thorough() {
				var uni []string
				atoms := []string{"a", ":x", "a:x", "b"}
				for _, s1 := range atoms {
					uni = append(uni, "/"+s1, "/"+s1+"/", "/"+s1+"/*f")
					for _, s2 := range atoms {
						s2 := strings.Replace(s2, ":x", ":y", 1)
						uni = append(uni, "/"+s1+"/"+s2)
					}
				}
				uni = append(uni, "/", "/*f")
				var paths []string
				var gen func(p string, d int)
				gen = func(p string, d int) {
					paths = append(paths, p)
					if d == 0 {
						return
					}
					for _, c := range []string{"a", "b", "/"} {
						gen(p+c, d-1)
					}
				}
				gen("/", 4)
				for i, p := range uni {
					for j, q := range uni {
						if i >= j {
							continue
						}
						for _, path := range paths {
							t.Do(In{Nn(0), Nn(1), S("G"), H([]byte(path)), S("G" + p), S("G" + q)}, true)
						}
					}
				}
			}
		}})
}
