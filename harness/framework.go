// Correspondence + oracle harness: runs the real hertz code (built from /repo's working tree
// with -tags verif) side by side with the extracted Coq model (modeld) and with independent
// property oracles.  One seeded PRNG; every finding is shrunk and replayable.
package main

import (
	"bufio"
	"crypto/sha1"
	"encoding/hex"
	"encoding/json"
	"flag"
	"fmt"
	"math/rand"
	"os"
	"os/exec"
	"runtime"
	"sort"
	"strings"
	"sync"
	"time"
)

// In is a replayable case: fields prefixed "h:" are hex byte strings (shrinkable),
// "n:" decimal numbers, "s:" opaque strings (JSON etc.).
type In []string

func H(b []byte) string { return "h:" + hex.EncodeToString(b) }
func Nn(n int) string   { return fmt.Sprintf("n:%d", n) }
func S(s string) string { return "s:" + s }
func (in In) B(i int) []byte {
	if i >= len(in) {
		return nil
	}
	if strings.HasPrefix(in[i], "s:") { // a text field read as bytes
		return []byte(in[i][2:])
	}
	b, _ := hex.DecodeString(strings.TrimPrefix(in[i], "h:"))
	return b
}
func (in In) N(i int) int {
	var n int
	fmt.Sscanf(strings.TrimPrefix(in[i], "n:"), "%d", &n)
	return n
}
func (in In) S(i int) string { return strings.TrimPrefix(in[i], "s:") }
func (in In) Pretty() []string {
	out := make([]string, len(in))
	for i, f := range in {
		if strings.HasPrefix(f, "h:") {
			out[i] = fmt.Sprintf("%q", in.B(i))
		} else {
			out[i] = f
		}
	}
	return out
}

// Finding kinds: "corr" = model and implementation disagree; "oracle" = the implementation
// violates the property itself on this input (independent oracle).
type Finding struct {
	Kind   string   `json:"kind"`
	Unit   string   `json:"unit"`
	Class  string   `json:"class"`
	Input  In       `json:"input"`
	Pretty []string `json:"pretty"`
	Impl   string   `json:"impl"`
	Model  string   `json:"model,omitempty"`
	Expect string   `json:"expect,omitempty"`
	Note   string   `json:"note,omitempty"`
	// Exact: a correspondence finding of a unit whose model result is, by a theorem of the property
	// file, the result the property requires: the input is then a failing input of the property.
	Exact bool `json:"exact,omitempty"`
}

type Unit struct {
	Name  string
	Props []string
	// Check runs implementation, model and oracle on one case and returns findings.
	Check func(t *T, in In) []Finding
	// Gen drives Check over the generated/enumerated space (calls t.Do).
	Gen func(t *T)
	// ShrinkOps: the input is a list of independent "s:" operations after KeepPrefix fixed fields;
	// the shrinker may drop any of them.
	ShrinkOps  bool
	KeepPrefix int
	// SpecExact: see Finding.Exact
	SpecExact bool
}

var units []*Unit

func register(u *Unit) { units = append(units, u) }

type T struct {
	Prop      string
	Tier      string
	Seed      int64
	R         *rand.Rand
	M         *Model
	U         *Unit
	mu        sync.Mutex
	Evals     int
	seen      map[[20]byte]struct{}
	NonTr     int
	Dist      map[string]int
	Samples   []interface{}
	Findings  []Finding
	perUnit   map[string]int
	unitEval  map[string]int
	shrinking bool
}

func (t *T) Thorough() bool { return t.Tier == "thorough" }

// Scale picks a count by tier.
func (t *T) Scale(quick, thorough int) int {
	if t.Thorough() {
		return thorough
	}
	return quick
}

func (t *T) Count(key string) {
	t.mu.Lock()
	t.Dist[t.U.Name+"/"+key]++
	t.mu.Unlock()
}

// Do runs one case; nontrivial says whether it counts as non-trivial under the unit's rule.
func (t *T) Do(in In, nontrivial bool) {
	t.journal(in)
	fs := t.safeCheck(in)
	t.mu.Lock()
	t.Evals++
	t.unitEval[t.U.Name]++
	if nontrivial {
		h := sha1.Sum([]byte(t.U.Name + "\x00" + strings.Join(in, "\x00")))
		if _, ok := t.seen[h]; !ok {
			t.seen[h] = struct{}{}
			t.NonTr++
		}
	}
	if len(t.Samples) < 6 && (t.unitEval[t.U.Name] == 3 || t.unitEval[t.U.Name] == 57) {
		t.Samples = append(t.Samples, map[string]interface{}{"unit": t.U.Name, "input": in.Pretty()})
	}
	t.mu.Unlock()
	for _, f := range fs {
		t.record(f, in)
	}
}

// atExit: cleanups run when main ends normally (temporary directories of fixtures)
var exitFuncs []func()

func atExit(f func()) { exitFuncs = append(exitFuncs, f) }

// journal: the case about to run, kept in <out>.cur.  A crash of the code under test outside the calling
// goroutine (a finalizer, a worker) takes the process down; the driver then finds the input here.
var journalMu sync.Mutex
var journalFile *os.File

func (t *T) journal(in In) {
	if journalFile == nil {
		return
	}
	journalMu.Lock()
	defer journalMu.Unlock()
	b, _ := json.Marshal(map[string]interface{}{"finding": Finding{Kind: "oracle", Unit: t.U.Name, Class: "implementation-crashes-the-process", Input: in, Pretty: in.Pretty()}})
	journalFile.Truncate(0)
	journalFile.WriteAt(b, 0)
}

// safeCheck converts a panic of the code under test into an oracle finding.
func (t *T) safeCheck(in In) (fs []Finding) {
	defer func() {
		if r := recover(); r != nil {
			msg := fmt.Sprint(r)
			if len(msg) > 120 {
				msg = msg[:120]
			}
			fs = []Finding{{Kind: "oracle", Unit: t.U.Name, Class: "panic", Impl: "panic: " + msg, Note: panicSite()}}
		}
	}()
	return t.U.Check(t, in)
}

func (t *T) record(f Finding, in In) {
	key := f.Unit + "|" + f.Kind + "|" + f.Class
	t.mu.Lock()
	n := t.perUnit[key]
	t.perUnit[key] = n + 1
	t.mu.Unlock()
	if n >= 3 { // keep at most three findings per unit/kind/class
		return
	}
	f = t.shrink(f, in)
	f.Pretty = f.Input.Pretty()
	f.Exact = f.Kind == "corr" && t.U.SpecExact
	t.mu.Lock()
	t.Findings = append(t.Findings, f)
	t.mu.Unlock()
}

// shrink: greedy deletion of byte ranges from every "h:" field while a finding of the same
// kind and class persists.
func (t *T) shrink(f Finding, in In) Finding {
	cur := append(In(nil), in...)
	same := func(c In) (Finding, bool) {
		for _, g := range t.safeCheck(c) {
			if g.Kind == f.Kind && g.Class == f.Class {
				return g, true
			}
		}
		return Finding{}, false
	}
	best := f
	budget := 400
	// first drop whole "s:" operations (programs are lists of independent ops)
	if t.U.ShrinkOps {
		for i := len(cur) - 1; i >= t.U.KeepPrefix && budget > 0 && len(cur) > t.U.KeepPrefix+1; i-- {
			if i >= len(cur) || !strings.HasPrefix(cur[i], "s:") {
				continue
			}
			c := append(append(In(nil), cur[:i]...), cur[i+1:]...)
			budget--
			if g, ok := same(c); ok {
				cur, best = c, g
			}
		}
	}
	for i := range cur {
		if !strings.HasPrefix(cur[i], "h:") {
			continue
		}
		b := cur.B(i)
		for size := len(b) / 2; size >= 1 && budget > 0; {
			shrunk := false
			for off := 0; off+size <= len(b) && budget > 0; off++ {
				nb := append(append([]byte(nil), b[:off]...), b[off+size:]...)
				c := append(In(nil), cur...)
				c[i] = H(nb)
				budget--
				if g, ok := same(c); ok {
					b, cur, best, shrunk = nb, c, g, true
					off--
				}
			}
			if !shrunk || size > len(b) {
				size /= 2
			}
		}
	}
	best.Input = cur
	return best
}

// ---------------------------------------------------------------------------------------

type Model struct {
	mu    sync.Mutex
	cmd   *exec.Cmd
	in    *bufio.Writer
	out   *bufio.Reader
	Calls int
}

func startModel(path string) *Model {
	cmd := exec.Command("sh", "-c", "ulimit -s unlimited 2>/dev/null; exec "+path)
	stdin, _ := cmd.StdinPipe()
	stdout, _ := cmd.StdoutPipe()
	cmd.Stderr = os.Stderr
	if err := cmd.Start(); err != nil {
		fmt.Fprintln(os.Stderr, "cannot start modeld:", err)
		os.Exit(2)
	}
	return &Model{cmd: cmd, in: bufio.NewWriterSize(stdin, 1<<16), out: bufio.NewReaderSize(stdout, 1<<16)}
}

// Call sends one request; returns the rendered result bytes.
func (m *Model) Call(cmd string, args ...[]byte) string {
	m.mu.Lock()
	defer m.mu.Unlock()
	m.Calls++
	m.in.WriteString(cmd)
	for _, a := range args {
		m.in.WriteByte(' ')
		if len(a) == 0 {
			m.in.WriteByte('-')
		} else {
			m.in.WriteString(hex.EncodeToString(a))
		}
	}
	m.in.WriteByte('\n')
	m.in.Flush()
	type rl struct {
		l   string
		err error
	}
	ch := make(chan rl, 1)
	go func() { l, err := m.out.ReadString('\n'); ch <- rl{l, err} }()
	var l string
	var err error
	select {
	case r := <-ch:
		l, err = r.l, r.err
	case <-time.After(120 * time.Second):
		m.cmd.Process.Kill()
		fmt.Fprintf(os.Stderr, "modeld did not answer %q within 120s (model function diverges on this input?)\n", cmd)
		os.Exit(2)
	}
	if err != nil {
		fmt.Fprintln(os.Stderr, "modeld died:", err)
		os.Exit(2)
	}
	l = strings.TrimRight(l, "\n")
	if l == "-" {
		return ""
	}
	if strings.HasPrefix(l, "!") {
		return l
	}
	b, err := hex.DecodeString(l)
	if err != nil {
		return "!badhex:" + l
	}
	return string(b)
}

func (m *Model) CallN(cmd string, args ...interface{}) string {
	bs := make([][]byte, len(args))
	for i, a := range args {
		switch v := a.(type) {
		case []byte:
			bs[i] = v
		case string:
			bs[i] = []byte(v)
		case int:
			bs[i] = []byte(fmt.Sprint(v))
		case int64:
			bs[i] = []byte(fmt.Sprint(v))
		case bool:
			if v {
				bs[i] = []byte("1")
			} else {
				bs[i] = []byte("0")
			}
		default:
			bs[i] = []byte(fmt.Sprint(v))
		}
	}
	return m.Call(cmd, bs...)
}

// ---------------------------------------------------------------------------------------

type Result struct {
	Prop        string                 `json:"property_id"`
	Tier        string                 `json:"tier"`
	Seed        int64                  `json:"seed"`
	Evaluations int                    `json:"evaluations"`
	Distinct    int                    `json:"distinct_nontrivial"`
	ModelCalls  int                    `json:"model_calls"`
	Units       map[string]int         `json:"unit_evaluations"`
	Dist        map[string]int         `json:"distribution"`
	Samples     []interface{}          `json:"samples"`
	Findings    []Finding              `json:"findings"`
	WallS       float64                `json:"wall_s"`
	Replay      map[string]interface{} `json:"replay,omitempty"`
}

func main() {
	prop := flag.String("prop", "", "property id")
	tier := flag.String("tier", "quick", "quick|thorough")
	seed := flag.Int64("seed", 1, "PRNG seed")
	modeld := flag.String("modeld", "/verif/ocaml/modeld", "path of modeld")
	out := flag.String("out", "", "result JSON path")
	replay := flag.String("replay", "", "replay file (a finding JSON)")
	only := flag.String("unit", "", "run only this unit")
	flag.Parse()
	t0 := time.Now()
	m := startModel(*modeld)
	t := &T{Prop: *prop, Tier: *tier, Seed: *seed, R: rand.New(rand.NewSource(*seed)), M: m,
		seen: map[[20]byte]struct{}{}, Dist: map[string]int{}, perUnit: map[string]int{}, unitEval: map[string]int{}}

	if *replay != "" {
		raw, err := os.ReadFile(*replay)
		if err != nil {
			fmt.Fprintln(os.Stderr, err)
			os.Exit(2)
		}
		var rf struct {
			Finding Finding `json:"finding"`
		}
		if err := json.Unmarshal(raw, &rf); err != nil || rf.Finding.Unit == "" {
			fmt.Fprintln(os.Stderr, "replay file has no finding with a unit (proof-only violation?)", err)
			os.Exit(2)
		}
		for _, u := range units {
			if u.Name == rf.Finding.Unit {
				t.U = u
				fs := t.safeCheck(rf.Finding.Input)
				for _, f := range exitFuncs {
					f()
				}
				fmt.Printf("replay unit=%s input=%v\n", u.Name, rf.Finding.Input.Pretty())
				if len(fs) == 0 {
					fmt.Println("result: no finding on the current tree (implementation, model and oracle agree)")
					os.Exit(0)
				}
				for _, f := range fs {
					fmt.Printf("result: kind=%s class=%s\n  impl  = %q\n  model = %q\n  expect= %q\n  note  = %s\n", f.Kind, f.Class, f.Impl, f.Model, f.Expect, f.Note)
				}
				os.Exit(1)
			}
		}
		fmt.Fprintln(os.Stderr, "unknown unit", rf.Finding.Unit)
		os.Exit(2)
	}

	if *out != "" {
		journalFile, _ = os.Create(*out + ".cur")
		defer os.Remove(*out + ".cur")
	}
	ran := 0
	for _, u := range units {
		ok := false
		for _, p := range u.Props {
			if p == *prop {
				ok = true
			}
		}
		if !ok || (*only != "" && *only != u.Name) {
			continue
		}
		t.U = u
		u.Gen(t)
		ran++
	}
	if ran == 0 {
		fmt.Fprintln(os.Stderr, "no units for property", *prop)
		os.Exit(2)
	}
	for _, f := range exitFuncs {
		f()
	}
	sort.Slice(t.Findings, func(i, j int) bool { return t.Findings[i].Kind > t.Findings[j].Kind })
	res := Result{Prop: *prop, Tier: *tier, Seed: *seed, Evaluations: t.Evals, Distinct: t.NonTr, ModelCalls: m.Calls,
		Units: t.unitEval, Dist: t.Dist, Samples: t.Samples, Findings: append([]Finding{}, t.Findings...), WallS: time.Since(t0).Seconds()}
	js, _ := json.MarshalIndent(res, "", " ")
	if *out != "" {
		os.WriteFile(*out, js, 0o644)
	} else {
		os.Stdout.Write(js)
	}
	fmt.Fprintf(os.Stderr, "harness: prop=%s evals=%d distinct_nontrivial=%d model_calls=%d findings=%d (%.1fs)\n",
		*prop, t.Evals, t.NonTr, m.Calls, len(t.Findings), time.Since(t0).Seconds())
}

// panicSite names the first frames below the panic that belong to hertz or the harness.
func panicSite() string {
	var out []string
	pcs := make([]uintptr, 40)
	n := runtime.Callers(3, pcs)
	fr := runtime.CallersFrames(pcs[:n])
	for {
		f, more := fr.Next()
		if strings.Contains(f.Function, "hertz") || strings.Contains(f.Function, "main.") {
			out = append(out, fmt.Sprintf("%s:%d", f.Function, f.Line))
		}
		if !more || len(out) >= 6 {
			break
		}
	}
	return strings.Join(out, " <- ")
}
