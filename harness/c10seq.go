package main

import (
	"bufio"
	"context"
	"crypto/tls"
	"errors"
	"fmt"
	"io"
	"net"
	"net/http"
	"os"
	"sort"
	"strings"
	"sync"
	"sync/atomic"
	"time"

	"github.com/cloudwego/hertz/pkg/network"
	"github.com/cloudwego/hertz/pkg/network/standard"
	"github.com/cloudwego/hertz/pkg/protocol"
	"github.com/cloudwego/hertz/pkg/protocol/http1"
)

// seqPeer holds every exchange until the orchestrator says how it ends, so that multi-caller
// histories of the real pool are deterministic and can be replayed step by step on Model/Pool.v.
type seqPeer struct {
	mu       sync.Mutex
	failDial bool
	dials    int // successful dials = connection ids
	closed   int32
	inflight map[int]*seqConn // call id -> connection its request sits on
}

type seqConn struct {
	id    int
	instr chan string
}

type closeCount struct {
	net.Conn
	p    *seqPeer
	once sync.Once
}

func (l *closeCount) Close() error {
	l.once.Do(func() { atomic.AddInt32(&l.p.closed, 1) })
	return l.Conn.Close()
}

func (p *seqPeer) DialConnection(nw, address string, timeout time.Duration, tlsConfig *tls.Config) (network.Conn, error) {
	p.mu.Lock()
	if p.failDial {
		p.failDial = false
		p.mu.Unlock()
		return nil, errors.New("scripted dial error")
	}
	id := p.dials
	p.dials++
	p.mu.Unlock()
	c1, c2 := net.Pipe()
	go p.serve(&seqConn{id: id, instr: make(chan string, 1)}, c2)
	return standard.NewConnForVerif(&closeCount{Conn: c1, p: p}, 4096), nil
}
func (p *seqPeer) DialTimeout(nw, address string, timeout time.Duration, tlsConfig *tls.Config) (net.Conn, error) {
	return nil, errors.New("unsupported")
}
func (p *seqPeer) AddTLS(conn network.Conn, tlsConfig *tls.Config) (network.Conn, error) {
	return nil, errors.New("unsupported")
}

func (p *seqPeer) serve(sc *seqConn, c net.Conn) {
	defer c.Close()
	br := bufio.NewReader(c)
	for {
		req, err := http.ReadRequest(br)
		if err != nil {
			return
		}
		io.Copy(io.Discard, req.Body)
		var id int
		fmt.Sscanf(req.Header.Get("X-Id"), "%d", &id)
		p.mu.Lock()
		p.inflight[id] = sc
		p.mu.Unlock()
		how := <-sc.instr
		p.mu.Lock()
		delete(p.inflight, id)
		p.mu.Unlock()
		switch how {
		case "clean":
			fmt.Fprintf(c, "HTTP/1.1 200 OK\r\nX-Id: %d\r\nContent-Length: 2\r\n\r\nok", id)
		case "closehdr":
			fmt.Fprintf(c, "HTTP/1.1 200 OK\r\nX-Id: %d\r\nConnection: close\r\nContent-Length: 2\r\n\r\nok", id)
			c.SetReadDeadline(time.Now().Add(200 * time.Millisecond))
		case "badfirst":
			return
		case "midheader":
			fmt.Fprintf(c, "HTTP/1.1 200 OK\r\nX-Id: %d\r\nContent-Le", id)
			return
		default: // midbody
			fmt.Fprintf(c, "HTTP/1.1 200 OK\r\nX-Id: %d\r\nContent-Length: 20\r\n\r\nok", id)
			return
		}
	}
}

type seqCall struct {
	id      int
	idem    bool
	done    chan struct{}
	err     error
	started time.Time
	expired bool // its wait for a free connection was reported to the model as timed out
}

func init() {
	register(&Unit{Name: "c10.seq", Props: []string{"C10"}, ShrinkOps: true, KeepPrefix: 2,
		// in: MaxConns, wait, op...   ops: start:<idem>:<dialfail> | cancelled | finish:<k>:<outcome>:<dialfail> | expire | closeidle
		Check: func(t *T, in In) []Finding {
			// a difference is reported when the same history shows it twice (a late timer under load does not repeat)
			fs := c10seqRun(t, in)
			if len(fs) > 0 {
				t.Count("histories-rerun-after-a-difference")
				if again := c10seqRun(t, in); len(again) == 0 {
					t.Count("histories-difference-not-reproduced")
					return nil
				}
			}
			return fs
		},
		Gen: c10seqGen})
}

func c10seqRun(t *T, in In) []Finding {
	{
		{
			maxConns, wait := in.N(0), in.N(1) == 1
			peer := &seqPeer{inflight: map[int]*seqConn{}}
			opt := &http1.ClientOptions{Dialer: peer, MaxConns: maxConns, MaxIdleConnDuration: time.Hour}
			const waitTimeout = 400 * time.Millisecond
			if wait {
				opt.MaxConnWaitTimeout = waitTimeout
			}
			c10mu.Lock()
			defer c10mu.Unlock()
			http1.VerifYield = nil
			hc := http1.NewHostClient(opt).(*http1.HostClient)
			hc.Addr = "peer.example:80"
			var calls []*seqCall
			running := func() (ids []int) {
				for _, c := range calls {
					select {
					case <-c.done:
					default:
						ids = append(ids, c.id)
					}
				}
				return
			}
			snapshot := func() string {
				st := hc.ConnPoolState()
				peer.mu.Lock()
				dials := peer.dials
				var cs []string
				for _, id := range running() {
					if sc, ok := peer.inflight[id]; ok {
						cs = append(cs, fmt.Sprintf("%d@%d", id, sc.id))
					} else {
						cs = append(cs, fmt.Sprintf("%d?", id))
					}
				}
				peer.mu.Unlock()
				return fmt.Sprintf("count=%d idle=%d wait=%d pending=%d dials=%d closed=%d calls=%s",
					st.TotalConnNum, st.PoolConnNum, hc.WantConnectionCount(), hc.PendingRequests(), dials,
					atomic.LoadInt32(&peer.closed), strings.Join(cs, ","))
			}
			suspect, diverged := false, false // diverged: an operation did not lead to the state the model predicts; the history ends there
			margsFor := func(mops []string) [][]byte {
				margs := [][]byte{[]byte(fmt.Sprint(maxConns)), []byte(map[bool]string{true: "1", false: "0"}[wait])}
				for _, m := range mops {
					margs = append(margs, []byte(m))
				}
				return margs
			}
			// settle: wait until the observable state is the one the model predicts for the operations so far and
			// stays so for a moment; if that never happens within 3 s, return whatever it settled to
			settle := func(mops []string) string {
				lines := strings.Split(t.M.Call("pool_script", margsFor(mops)...), ";")
				want := lines[len(lines)-1]
				last, same := "", 0
				deadline := time.Now().Add(3 * time.Second)
				// do not wait into the next timer: the state to compare is the one before any further waiter gives up
				if wait {
					for _, c := range calls {
						peer.mu.Lock()
						_, inflight := peer.inflight[c.id]
						peer.mu.Unlock()
						select {
						case <-c.done:
							continue
						default:
						}
						if c.expired || inflight || c.started.IsZero() {
							continue
						}
						if d := c.started.Add(waitTimeout - 40*time.Millisecond); d.Before(deadline) {
							deadline = d
						}
					}
					if time.Until(deadline) < 30*time.Millisecond {
						suspect = true
					}
				}
				for time.Now().Before(deadline) {
					s := snapshot()
					if s == last {
						same++
					} else {
						last, same = s, 0
					}
					if s == want && same >= 3 {
						return s
					}
					time.Sleep(700 * time.Microsecond)
				}
				diverged = true
				return last + " (settled; model expects: " + want + ")"
			}
			var mops, outs []string
			expired := false
			// reportExpired tells the model which waiters' timers have fired by now (one `expire:<t>` each, in call
			// order); a waiter within 40 ms of its deadline makes the history inconclusive (false)
			reportExpired := func() bool {
				if !wait {
					return true
				}
				var batch []*seqCall
				for _, c := range calls {
					if c.expired {
						continue
					}
					peer.mu.Lock()
					_, inflight := peer.inflight[c.id]
					peer.mu.Unlock()
					waiting := false
					select {
					case <-c.done: // already returned: if it was waiting, it returned because its timer fired
						waiting = c.err != nil && strings.Contains(c.err.Error(), "no free connections")
					default:
						waiting = !inflight
					}
					if !waiting {
						continue
					}
					el := time.Since(c.started)
					switch {
					case el > waitTimeout+40*time.Millisecond:
						batch = append(batch, c)
					case el > waitTimeout-40*time.Millisecond:
						return false
					}
				}
				// timers that fired during the same pause are one observation: the states in between are the model's
				for i, c := range batch {
					c.expired = true
					mops = append(mops, fmt.Sprintf("expire:%d", c.id))
					if i < len(batch)-1 {
						lines := strings.Split(t.M.Call("pool_script", margsFor(mops)...), ";")
						outs = append(outs, lines[len(lines)-1])
					} else {
						outs = append(outs, settle(mops))
					}
				}
				return true
			}
			for _, f := range in[2:] {
				if diverged {
					break
				}
				o := strings.Split(f[2:], ":")
				if !reportExpired() {
					{
						t.Count("histories-inconclusive-timer-near")
						if os.Getenv("VERIF_DEBUG") != "" {
							fmt.Println("inconclusive at", f, mops)
						}
						return nil
					}
				}
				peer.mu.Lock()
				peer.failDial = false
				peer.mu.Unlock()
				switch o[0] {
				case "start":
					c := &seqCall{id: len(calls), idem: o[1] == "1", done: make(chan struct{}), started: time.Now()}
					calls = append(calls, c)
					peer.mu.Lock()
					peer.failDial = o[2] == "1"
					peer.mu.Unlock()
					go func() {
						req, resp := protocol.AcquireRequest(), protocol.AcquireResponse()
						req.SetMethod(map[bool]string{true: "GET", false: "POST"}[c.idem])
						req.SetRequestURI("http://peer.example/x")
						req.Header.Set("X-Id", fmt.Sprint(c.id))
						if !c.idem {
							req.SetBodyString("body")
						}
						c.err = hc.Do(context.Background(), req, resp)
						close(c.done)
					}()
					mops = append(mops, "start:"+o[2])
					t.Count("op/start")
				case "cancelled":
					c := &seqCall{id: len(calls), done: make(chan struct{})}
					calls = append(calls, c)
					ctx, cancel := context.WithCancel(context.Background())
					cancel()
					req, resp := protocol.AcquireRequest(), protocol.AcquireResponse()
					req.SetRequestURI("http://peer.example/x")
					c.err = hc.Do(ctx, req, resp)
					close(c.done)
					mops = append(mops, "cancelled")
					t.Count("op/cancelled")
				case "finish":
					peer.mu.Lock()
					var ids []int
					for id := range peer.inflight {
						ids = append(ids, id)
					}
					sort.Ints(ids)
					if len(ids) == 0 {
						peer.mu.Unlock()
						continue
					}
					var k int
					fmt.Sscanf(o[1], "%d", &k)
					id := ids[k%len(ids)]
					sc := peer.inflight[id]
					peer.failDial = o[3] == "1"
					peer.mu.Unlock()
					how := o[2]
					mout := map[string]string{"clean": "clean", "closehdr": "closehdr", "badfirst": "badfirst"}[how]
					if mout == "" {
						mout = "err"
					}
					sc.instr <- how
					t.Count("op/finish-" + how)
					mops = append(mops, fmt.Sprintf("finish:%d:%s:%s:%s", id, mout, map[bool]string{true: "1", false: "0"}[calls[id].idem], o[3]))
				case "expire":
					if !wait || expired {
						continue
					}
					expired = true
					time.Sleep(waitTimeout + 60*time.Millisecond)
					t.Count("op/expire")
					if !reportExpired() {
						{
							t.Count("histories-inconclusive-timer-near")
							if os.Getenv("VERIF_DEBUG") != "" {
								fmt.Println("inconclusive at", f, mops)
							}
							return nil
						}
					}
					continue
				case "pause": // let time pass, so that waiters queued at different times expire at different times
					var ms int
					fmt.Sscanf(o[1], "%d", &ms)
					time.Sleep(time.Duration(ms) * time.Millisecond)
					t.Count("op/pause")
					if !reportExpired() {
						{
							t.Count("histories-inconclusive-timer-near")
							if os.Getenv("VERIF_DEBUG") != "" {
								fmt.Println("inconclusive at", f, mops)
							}
							return nil
						}
					}
					continue
				case "closeidle":
					hc.CloseIdleConnections()
					mops = append(mops, "closeidle")
					t.Count("op/closeidle")
				default:
					continue
				}
				outs = append(outs, settle(mops))
			}
			// let everything still in flight end so that no goroutine outlives the history
			var fs []Finding
			for i := 0; len(running()) > 0; i++ {
				if i > 3000 {
					fs = append(fs, Finding{Kind: "oracle", Unit: "c10.seq", Class: "calls-did-not-return", Impl: fmt.Sprint(running())})
					return fs
				}
				peer.mu.Lock()
				for _, sc := range peer.inflight {
					select {
					case sc.instr <- "midbody":
					default:
					}
				}
				peer.mu.Unlock()
				time.Sleep(time.Millisecond)
			}
			hc.CloseIdleConnections()
			// quiescence (the property's last clause): all calls have returned and the idle connections are closed, so
			// nothing is counted, nobody is queued and the gauge is zero
			var q string
			for i := 0; i < 300; i++ {
				st := hc.ConnPoolState()
				q = fmt.Sprintf("count=%d idle=%d wait=%d pending=%d", st.TotalConnNum, st.PoolConnNum, hc.WantConnectionCount(), hc.PendingRequests())
				if q == "count=0 idle=0 wait=0 pending=0" {
					break
				}
				time.Sleep(2 * time.Millisecond)
			}
			if q != "count=0 idle=0 wait=0 pending=0" {
				fs = append(fs, Finding{Kind: "oracle", Unit: "c10.seq", Class: "not-quiescent-after-all-calls-returned", Impl: q,
					Expect: "count=0 idle=0 wait=0 pending=0", Note: strings.Join(mops, " ")})
			}
			if strings.Contains(strings.Join(outs, ";"), "?") {
				t.Count("histories-with-a-waiter")
			}
			impl := strings.Join(outs, ";")
			mod := t.M.Call("pool_script", margsFor(mops)...)
			if os.Getenv("VERIF_DEBUG") != "" {
				fmt.Printf("mops=%v\nimpl=%s\nmod =%s\nsuspect=%v\n", mops, strings.ReplaceAll(impl, ";", "\n     "), strings.ReplaceAll(mod, ";", "\n     "), suspect)
			}
			if impl != mod && suspect {
				t.Count("histories-inconclusive-by-timing")
				return fs
			}
			if impl != mod {
				fs = append(fs, Finding{Kind: "corr", Unit: "c10.seq", Class: "pool_script", Impl: impl, Model: mod, Note: strings.Join(mops, " ")})
			}
			return fs
		}
	}
}

func c10seqGen(t *T) {
	{
		{
			outs := []string{"clean", "clean", "clean", "closehdr", "badfirst", "badfirst", "midheader", "midbody"}
			for _, how := range []string{"closehdr", "badfirst", "midbody", "clean"} {
				// one connection, two waiters queued 150 ms apart; when the first has timed out and the second
				// has not, the holder's exchange ends: the freed slot / connection belongs to the live waiter
				t.Do(In{Nn(1), Nn(1), S("start:1:0"), S("start:1:0"), S("pause:250"), S("start:0:0"), S("pause:215"),
					S("finish:0:" + how + ":0"), S("finish:0:clean:0"), S("finish:0:clean:0")}, true)
				t.Do(In{Nn(2), Nn(1), S("start:1:0"), S("start:0:0"), S("start:1:0"), S("pause:250"), S("start:0:0"), S("pause:215"),
					S("finish:1:" + how + ":0"), S("finish:0:clean:0"), S("finish:0:clean:0"), S("finish:0:clean:0")}, true)
			}
			for i := 0; i < t.Scale(150, 2500); i++ {
				in := In{Nn(1 + t.R.Intn(3)), Nn(t.R.Intn(2))}
				for j, n := 0, 3+t.R.Intn(12); j < n; j++ {
					switch k := t.R.Intn(20); {
					case k < 9:
						in = append(in, S(fmt.Sprintf("start:%d:%d", t.R.Intn(3)/1%2, b2i(t.R.Intn(8) == 0))))
					case k < 10:
						in = append(in, S("cancelled"))
					case k < 17:
						in = append(in, S(fmt.Sprintf("finish:%d:%s:%d", t.R.Intn(4), outs[t.R.Intn(len(outs))], b2i(t.R.Intn(6) == 0))))
					case k < 18:
						if t.R.Intn(2) == 0 {
							in = append(in, S("expire"))
						} else {
							in = append(in, S(fmt.Sprintf("pause:%d", []int{100, 200, 250, 330}[t.R.Intn(4)])))
						}
					default:
						in = append(in, S("closeidle"))
					}
				}
				t.Do(in, true)
			}
		}
	}
}

func b2i(b bool) int {
	if b {
		return 1
	}
	return 0
}
