package main

import (
	"bytes"
	"mime/multipart"
	"fmt"
	"net/url"
	"reflect"
	"regexp"
	"strconv"
	"strings"
	"sync"

	"github.com/cloudwego/hertz/pkg/app/server/binding"
	"github.com/cloudwego/hertz/pkg/protocol"
	"github.com/cloudwego/hertz/pkg/route/param"
)

// Descriptions are printable: records ';', parts '|', inner ','.
//   type    := field;field;...     field := kind|slice|ptr|default|tag|tag...   tag := src,name,req,skip
//   request := 7 strings: path, form, query, cookie, header (k,v|k,v...), json (k,v[,v...]|...), isjson

type c15tag struct {
	src, name string
	req, skip bool
}
type c15field struct {
	kind       string
	slice, ptr bool
	dflt       string
	tags       []c15tag
}

func c15parseType(s string) (fs []c15field) {
	if s == "" {
		return
	}
	for _, rec := range strings.Split(s, ";") {
		p := strings.Split(rec, "|")
		f := c15field{kind: p[0], slice: p[1] == "1", ptr: p[2] == "1", dflt: p[3]}
		for _, t := range p[4:] {
			q := strings.Split(t, ",")
			f.tags = append(f.tags, c15tag{src: q[0], name: q[1], req: q[2] == "1", skip: q[3] == "1"})
		}
		fs = append(fs, f)
	}
	return
}

var c15kinds = map[string]reflect.Type{
	"bool": reflect.TypeOf(false), "string": reflect.TypeOf(""),
	"int8": reflect.TypeOf(int8(0)), "int16": reflect.TypeOf(int16(0)), "int32": reflect.TypeOf(int32(0)), "int64": reflect.TypeOf(int64(0)), "int": reflect.TypeOf(int(0)),
	"uint8": reflect.TypeOf(uint8(0)), "uint16": reflect.TypeOf(uint16(0)), "uint32": reflect.TypeOf(uint32(0)), "uint64": reflect.TypeOf(uint64(0)), "uint": reflect.TypeOf(uint(0)),
	"float32": reflect.TypeOf(float32(0)), "float64": reflect.TypeOf(float64(0)),
}

func c15goType(fs []c15field) reflect.Type {
	var sf []reflect.StructField
	for i, f := range fs {
		t := c15kinds[f.kind]
		if f.slice {
			t = reflect.SliceOf(t)
		}
		if f.ptr {
			t = reflect.PtrTo(t)
		}
		var tg []string
		for _, tt := range f.tags {
			n := tt.name
			if tt.skip {
				n = "-"
			}
			if tt.req {
				n += ",required"
			}
			tg = append(tg, fmt.Sprintf(`%s:"%s"`, tt.src, n))
		}
		if f.dflt != "" && f.slice {
			// a slice default is a JSON array in the tag; strings in single quotes (toDefaultValue turns them into double quotes)
			el := strings.Split(f.dflt, ",")
			if f.kind == "string" {
				for j := range el {
					el[j] = "'" + el[j] + "'"
				}
			}
			tg = append(tg, fmt.Sprintf(`default:"[%s]"`, strings.Join(el, ",")))
		} else if f.dflt != "" {
			tg = append(tg, fmt.Sprintf(`default:"%s"`, f.dflt))
		}
		sf = append(sf, reflect.StructField{Name: fmt.Sprintf("F%d", i), Type: t, Tag: reflect.StructTag(strings.Join(tg, " "))})
	}
	return reflect.StructOf(sf)
}

func c15kvs(s string) (out [][]string) {
	if s == "" {
		return
	}
	for _, p := range strings.Split(s, "|") {
		out = append(out, strings.Split(p, ","))
	}
	return
}

// c15request builds the real request; parts as described above
func c15request(parts []string, fs []c15field) (*protocol.Request, param.Params) {
	req := protocol.AcquireRequest()
	var ps param.Params
	for _, kv := range c15kvs(parts[0]) {
		ps = append(ps, param.Param{Key: kv[0], Value: kv[1]})
	}
	q := url.Values{}
	var qs []string
	for _, kv := range c15kvs(parts[2]) {
		qs = append(qs, url.QueryEscape(kv[0])+"="+url.QueryEscape(kv[1]))
	}
	_ = q
	uri := "http://h/p"
	if len(qs) > 0 {
		uri += "?" + strings.Join(qs, "&")
	}
	req.SetRequestURI(uri)
	req.Header.SetMethod("POST")
	for _, kv := range c15kvs(parts[3]) {
		req.Header.SetCookie(kv[0], kv[1])
	}
	for _, kv := range c15kvs(parts[4]) {
		req.Header.Add(kv[0], kv[1])
	}
	if parts[6] == "1" {
		// JSON body: the literal form of each value follows the kind of the field whose json tag names the key
		kindOf := map[string]c15field{}
		for _, f := range fs {
			for _, t := range f.tags {
				if t.src == "json" && !t.skip {
					if _, dup := kindOf[t.name]; !dup {
						kindOf[t.name] = f
					}
				}
			}
		}
		var members []string
		for _, kv := range c15kvs(parts[5]) {
			f, known := kindOf[kv[0]]
			lit := func(v string) string {
				if known && f.kind != "string" {
					return v
				}
				return strconv.Quote(v)
			}
			if known && f.slice {
				var el []string
				for _, v := range kv[1:] {
					el = append(el, lit(v))
				}
				members = append(members, strconv.Quote(kv[0])+":["+strings.Join(el, ",")+"]")
			} else {
				members = append(members, strconv.Quote(kv[0])+":"+lit(kv[1]))
			}
		}
		body := "{" + strings.Join(members, ",") + "}"
		req.Header.SetContentTypeBytes([]byte("application/json"))
		req.SetBody([]byte(body))
		req.Header.SetContentLength(len(body))
	} else if parts[1] != "" && parts[6] == "2" {
		// the form fields as multipart/form-data
		var mb bytes.Buffer
		mw := multipart.NewWriter(&mb)
		for _, kv := range c15kvs(parts[1]) {
			mw.WriteField(kv[0], kv[1]) //nolint:errcheck
		}
		mw.Close()
		req.Header.SetContentTypeBytes([]byte(mw.FormDataContentType()))
		req.SetBody(mb.Bytes())
		req.Header.SetContentLength(mb.Len())
	} else if parts[1] != "" {
		var fsb []string
		for _, kv := range c15kvs(parts[1]) {
			fsb = append(fsb, url.QueryEscape(kv[0])+"="+url.QueryEscape(kv[1]))
		}
		body := strings.Join(fsb, "&")
		req.Header.SetContentTypeBytes([]byte("application/x-www-form-urlencoded"))
		req.SetBody([]byte(body))
		req.Header.SetContentLength(len(body))
	}
	return req, ps
}

func c15renderScalar(kind string, v reflect.Value) string {
	switch v.Kind() {
	case reflect.Bool:
		return strconv.FormatBool(v.Bool())
	case reflect.String:
		return fmt.Sprintf("s%x", v.String())
	case reflect.Float32:
		return "f" + strconv.FormatFloat(v.Float(), 'g', -1, 32)
	case reflect.Float64:
		return "f" + strconv.FormatFloat(v.Float(), 'g', -1, 64)
	case reflect.Int, reflect.Int8, reflect.Int16, reflect.Int32, reflect.Int64:
		return strconv.FormatInt(v.Int(), 10)
	default:
		return strconv.FormatUint(v.Uint(), 10)
	}
}

func c15render(fs []c15field, v reflect.Value) string {
	var out []string
	for i, f := range fs {
		fv := v.Field(i)
		if f.ptr {
			if fv.IsNil() {
				if f.slice {
					out = append(out, "[]")
				} else {
					out = append(out, "nil")
				}
				continue
			}
			fv = fv.Elem()
		}
		if f.slice {
			var el []string
			for j := 0; j < fv.Len(); j++ {
				el = append(el, c15renderScalar(f.kind, fv.Index(j)))
			}
			out = append(out, "["+strings.Join(el, ",")+"]")
		} else {
			out = append(out, c15renderScalar(f.kind, fv))
		}
	}
	return "OK " + strings.Join(out, " ")
}

func c15errClass(err error) string {
	switch s := err.Error(); {
	case strings.Contains(s, "'required' parameter"):
		return "ERR required"
	case strings.Contains(s, "unable to decode"), strings.Contains(s, "to unmarshal field"):
		return "ERR conv"
	default:
		return "ERR other: " + s
	}
}

// c15bind runs one Bind of a fresh value of the type on the given binder
func c15bind(b binding.Binder, fs []c15field, ty reflect.Type, parts []string) string {
	return c15bindAPI(b, "Bind", fs, ty, parts)
}

// c15bindAPI: the same through one of the binder's entry points (each keeps its own per-type decoder cache)
func c15bindAPI(b binding.Binder, api string, fs []c15field, ty reflect.Type, parts []string) string {
	req, ps := c15request(parts, fs)
	defer protocol.ReleaseRequest(req)
	v := reflect.New(ty)
	var err error
	switch api {
	case "BindPath":
		err = b.BindPath(req, v.Interface(), ps)
	case "BindQuery":
		err = b.BindQuery(req, v.Interface())
	case "BindHeader":
		err = b.BindHeader(req, v.Interface())
	case "BindForm":
		err = b.BindForm(req, v.Interface())
	case "BindAndValidate":
		err = b.BindAndValidate(req, v.Interface(), ps)
	default:
		err = b.Bind(req, v.Interface(), ps)
	}
	if err != nil {
		return c15errClass(err)
	}
	return c15render(fs, v.Elem())
}

// the model's float tokens carry the chosen text: bring them to the harness' canonical form
func c15canonModel(s string, fs []c15field) string {
	if !strings.HasPrefix(s, "OK ") {
		return s
	}
	toks := strings.Split(s[3:], " ")
	for i, tk := range toks {
		if i >= len(fs) || !strings.HasPrefix(fs[i].kind, "float") {
			continue
		}
		bits := 64
		if fs[i].kind == "float32" {
			bits = 32
		}
		fix := func(x string) (string, bool) {
			if !strings.HasPrefix(x, "f") {
				return x, true
			}
			f, err := strconv.ParseFloat(x[1:], bits)
			if err != nil {
				return x, false
			}
			return "f" + strconv.FormatFloat(f, 'g', -1, bits), true
		}
		if strings.HasPrefix(tk, "[") {
			inner := strings.TrimSuffix(strings.TrimPrefix(tk, "["), "]")
			if inner == "" {
				continue
			}
			el := strings.Split(inner, ",")
			for j := range el {
				v, ok := fix(el[j])
				if !ok {
					return "ERR conv"
				}
				el[j] = v
			}
			toks[i] = "[" + strings.Join(el, ",") + "]"
		} else {
			v, ok := fix(tk)
			if !ok {
				return "ERR conv"
			}
			toks[i] = v
		}
	}
	return "OK " + strings.Join(toks, " ")
}

func c15modelArgs(tyDesc string, parts []string) [][]byte {
	conv := func(s string) []byte {
		return []byte(strings.NewReplacer(";", "\x1e", "|", "\x1f", ",", "\x1d").Replace(s))
	}
	args := [][]byte{conv(tyDesc)}
	for i, p := range parts {
		if i == 6 && p == "2" { // a multipart form is a form: the same source for the model
			p = "0"
		}
		args = append(args, conv(p))
	}
	return args
}

var c15shared = binding.NewDefaultBinder(nil)

func init() {
	register(&Unit{Name: "c15.bind", Props: []string{"C15"}, SpecExact: true,
		// in: type description, then 7 request parts
		Check: func(t *T, in In) []Finding {
			tyDesc := in.S(0)
			parts := make([]string, 7)
			for i := range parts {
				parts[i] = in.S(1 + i)
			}
			fs := c15parseType(tyDesc)
			ty := c15goType(fs)
			var out []Finding
			cold := c15bind(binding.NewDefaultBinder(nil), fs, ty, parts)
			warm1 := c15bind(c15shared, fs, ty, parts)
			warm2 := c15bind(c15shared, fs, ty, parts)
			if cold != warm1 || cold != warm2 {
				out = append(out, Finding{Kind: "oracle", Unit: "c15.bind", Class: "result-differs-between-first-and-later-use", Impl: warm1 + " / " + warm2, Expect: cold})
			}
			t.Count("result/" + strings.SplitN(cold, " ", 3)[0] + map[bool]string{true: "-" + strings.SplitN(cold+" x", " ", 3)[1], false: ""}[strings.HasPrefix(cold, "ERR")])
			mod := c15canonModel(t.M.Call("bind_one", c15modelArgs(tyDesc, parts)...), fs)
			if mod != cold {
				out = append(out, Finding{Kind: "corr", Unit: "c15.bind", Class: "bind_one", Impl: cold, Model: mod})
			}
			return out
		},
		Gen: func(t *T) {
			// directed: a JSON body that carries the field with its zero value beats the declared default; a body
			// without the field leaves the default; the same for a form / query value that is the zero value
			for _, d := range []struct{ kind, def, zero, other string }{
				{"int8", "7", "0", "5"}, {"int", "42", "0", "-1"}, {"uint16", "9", "0", "12"}, {"bool", "true", "false", "true"},
				{"string", "dflt", "", "x"}, {"float64", "1.5", "0", "3.25"}, {"int64", "3", "0", "9223372036854775807"}} {
				ty := d.kind + "|0|0|" + d.def + "|json,j0,0,0"
				for _, v := range []string{d.zero, d.other} {
					t.Do(In{S(ty), S(""), S(""), S(""), S(""), S(""), S("j0," + v), S("1")}, true)
				}
				t.Do(In{S(ty), S(""), S(""), S(""), S(""), S(""), S("unrelated,1"), S("1")}, true)
				ty2 := d.kind + "|0|0|" + d.def + "|query,a,0,0|json,j0,0,0"
				t.Do(In{S(ty2), S(""), S(""), S(""), S(""), S(""), S("j0," + d.zero), S("1")}, true)
				if d.kind != "string" {
					t.Do(In{S(ty2), S(""), S(""), S("a," + d.zero), S(""), S(""), S(""), S("0")}, true)
				}
			}
			for i := 0; i < t.Scale(3000, 80000); i++ {
				ty, parts := c15gen(t)
				in := In{S(ty)}
				for _, p := range parts {
					in = append(in, S(p))
				}
				t.Do(in, true)
			}
		}})

	register(&Unit{Name: "c15.history", Props: []string{"C15"},
		// in: number of goroutines, then groups of 8 strings (type + 7 request parts), bound in order on ONE new binder
		Check: func(t *T, in In) []Finding {
			G := in.N(0)
			type item struct {
				fs    []c15field
				ty    reflect.Type
				parts []string
				alone string
				api   string
			}
			var items []item
			for i := 1; i+8 <= len(in); i += 8 {
				// "<API>@<type>": the entry point used for this item (Bind when absent)
				tyText, api := in.S(i), "Bind"
				if k := strings.Index(tyText, "@"); k >= 0 {
					api, tyText = tyText[:k], tyText[k+1:]
				}
				it := item{fs: c15parseType(tyText), api: api}
				it.ty = c15goType(it.fs)
				for j := 0; j < 7; j++ {
					it.parts = append(it.parts, in.S(i+1+j))
				}
				it.alone = c15bindAPI(binding.NewDefaultBinder(nil), it.api, it.fs, it.ty, it.parts)
				items = append(items, it)
			}
			var out []Finding
			b := binding.NewDefaultBinder(nil)
			t.Count(fmt.Sprintf("goroutines/%d", G))
			if G <= 1 {
				for k, it := range items {
					if got := c15bindAPI(b, it.api, it.fs, it.ty, it.parts); got != it.alone {
						out = append(out, Finding{Kind: "oracle", Unit: "c15.history", Class: "result-depends-on-earlier-binds", Impl: fmt.Sprintf("item %d (%s): %s", k, it.api, got), Expect: it.alone})
					}
				}
				return out
			}
			var wg sync.WaitGroup
			var mu sync.Mutex
			for g := 0; g < G; g++ {
				wg.Add(1)
				go func(g int) {
					defer wg.Done()
					for k := range items {
						it := items[(k+g)%len(items)]
						if got := c15bindAPI(b, it.api, it.fs, it.ty, it.parts); got != it.alone {
							mu.Lock()
							out = append(out, Finding{Kind: "oracle", Unit: "c15.history", Class: "result-depends-on-concurrent-binds", Impl: got, Expect: it.alone})
							mu.Unlock()
						}
					}
				}(g)
			}
			wg.Wait()
			return out
		},
		Gen: func(t *T) {
			for i := 0; i < t.Scale(300, 6000); i++ {
				in := In{Nn([]int{1, 1, 4, 8}[t.R.Intn(4)])}
				var pool [][]string
				for k, n := 0, 1+t.R.Intn(3); k < n; k++ {
					ty, _ := c15gen(t)
					pool = append(pool, []string{ty})
				}
				for k, n := 0, 2+t.R.Intn(6); k < n; k++ {
					ty := pool[t.R.Intn(len(pool))][0]
					_, parts := c15genReq(t, c15parseType(ty))
					if t.R.Intn(3) == 0 { // one item in three goes through another entry point of the same binder
						ty = []string{"BindPath", "BindQuery", "BindHeader", "BindForm", "BindAndValidate"}[t.R.Intn(5)] + "@" + ty
					}
					in = append(in, S(ty))
					for _, p := range parts {
						in = append(in, S(p))
					}
				}
				t.Do(in, true)
			}
		}})
}

var c15kindNames = []string{"bool", "string", "int8", "int16", "int32", "int64", "int", "uint8", "uint16", "uint32", "uint64", "uint", "float32", "float64"}
var c15srcs = []string{"path", "form", "query", "cookie", "header", "json"}

func c15valueFor(t *T, kind string) string {
	valid := map[string][]string{
		"bool": {"true", "false", "1", "0", "T", "f"}, "string": {"x", "hello", "", "a b", "5"},
		"int8": {"0", "-128", "127", "5", "+7"}, "int16": {"-32768", "32767", "12"}, "int32": {"2147483647", "-5"}, "int64": {"9223372036854775807", "-9223372036854775808", "3"}, "int": {"42", "-1"},
		"uint8": {"0", "255", "9"}, "uint16": {"65535", "1"}, "uint32": {"4294967295"}, "uint64": {"18446744073709551615", "2"}, "uint": {"77"},
		"float32": {"1.5", "-2", "0.25", "1_0", ".5", "5.", "+3", "0x1p-2", "inf"}, "float64": {"3.25", "1e3", "-0.5", "1_000.5", "1E-2", "1e1_0", "-Infinity", "NaN", "0X_1.8P+1", "0x1_0.p0"},
	}
	invalid := map[string][]string{
		"bool": {"yes", "2", "TRUE ", ""}, "int8": {"128", "-129", "x", "", "1_0"}, "int16": {"32768", "1.5"}, "int32": {"2147483648"}, "int64": {"9223372036854775808", "0x10"}, "int": {"abc", " 1"},
		"uint8": {"256", "-1", "+1"}, "uint16": {"65536"}, "uint32": {"4294967296"}, "uint64": {"18446744073709551616"}, "uint": {"-0", "1e3"},
		"float32": {"1_", "_1", "1__0", "1_.5", "", "abc", "1e", "0x", "--1", "0x1", "+nan", "infin"}, "float64": {"1e_5", "._5", "1._5", "0x1.p", "0x_p1", "0x1p_1", "in", "1e+", "1 "},
	}
	if bad, ok := invalid[kind]; ok && t.R.Intn(25) == 0 {
		return bad[t.R.Intn(len(bad))]
	}
	v := valid[kind]
	return v[t.R.Intn(len(v))]
}

// c15sliceDefaultElem: an element of a slice default, valid both as JSON and for the kind
func c15sliceDefaultElem(t *T, kind string) string {
	pick := func(v ...string) string { return v[t.R.Intn(len(v))] }
	switch kind {
	case "bool":
		return pick("true", "false")
	case "string":
		return pick("a", "bc", "x9", "default")
	case "int8":
		return pick("-128", "127", "7", "0")
	case "int16", "int32", "int64", "int":
		return pick("-32768", "32767", "7", "0", "-1")
	case "uint8":
		return pick("0", "255", "7")
	case "uint16", "uint32", "uint64", "uint":
		return pick("0", "65535", "7")
	default:
		return pick("1.5", "-2", "0.25", "3")
	}
}

func c15gen(t *T) (string, []string) {
	n := 1 + t.R.Intn(6)
	var recs []string
	for i := 0; i < n; i++ {
		kind := c15kindNames[t.R.Intn(len(c15kindNames))]
		slice, ptr := t.R.Intn(5) == 0, t.R.Intn(6) == 0
		dflt := ""
		if !slice && t.R.Intn(4) == 0 {
			for dflt == "" || strings.ContainsAny(dflt, " ") {
				dflt = c15valueFor(t, kind)
			}
		}
		if slice && t.R.Intn(2) == 0 {
			var el []string
			for j, n := 0, 1+t.R.Intn(3); j < n; j++ {
				el = append(el, c15sliceDefaultElem(t, kind))
			}
			dflt = strings.Join(el, ",")
		}
		var tags []string
		for _, s := range c15srcs {
			if t.R.Intn(3) != 0 {
				continue
			}
			name := []string{"a", "b", "c"}[t.R.Intn(3)]
			switch s {
			case "header":
				name = []string{"X-A", "X-B"}[t.R.Intn(2)]
			case "json":
				name = fmt.Sprintf("j%d", i)
			}
			skip := t.R.Intn(15) == 0
			if s == "json" && skip {
				name = fmt.Sprintf("F%d", i) // json:"-": the decoder falls back to the Go field name
			}
			tags = append(tags, fmt.Sprintf("%s,%s,%d,%d", s, name, b2i(t.R.Intn(7) == 0), b2i(skip)))
		}
		if len(tags) == 0 {
			tags = append(tags, "query,a,0,0")
		}
		recs = append(recs, fmt.Sprintf("%s|%d|%d|%s|%s", kind, b2i(slice), b2i(ptr), dflt, strings.Join(tags, "|")))
	}
	ty := strings.Join(recs, ";")
	return c15genReq(t, c15parseType(ty))
}

func c15genReq(t *T, fs []c15field) (string, []string) {
	// re-serialise the type (identity) and draw a request for it
	var recs []string
	for _, f := range fs {
		var tags []string
		for _, tg := range f.tags {
			tags = append(tags, fmt.Sprintf("%s,%s,%d,%d", tg.src, tg.name, b2i(tg.req), b2i(tg.skip)))
		}
		recs = append(recs, fmt.Sprintf("%s|%d|%d|%s|%s", f.kind, b2i(f.slice), b2i(f.ptr), f.dflt, strings.Join(tags, "|")))
	}
	parts := make([]string, 7)
	useJSON := t.R.Intn(3) == 0
	add := func(idx int, k, v string) {
		if parts[idx] != "" {
			parts[idx] += "|"
		}
		parts[idx] += k + "," + v
	}
	srcIdx := map[string]int{"path": 0, "form": 1, "query": 2, "cookie": 3, "header": 4, "json": 5}
	for _, f := range fs {
		for _, tg := range f.tags {
			if t.R.Intn(2) == 0 {
				continue
			}
			idx := srcIdx[tg.src]
			switch {
			case tg.src == "json":
				if !useJSON {
					continue
				}
				if strings.Contains("|"+parts[5], "|"+tg.name+",") {
					continue
				}
				val := func() string {
					for {
						v := c15valueFor(t, f.kind)
						ok := v != "" || f.kind == "string"
						if f.kind != "string" {
							if _, err := strconv.ParseFloat(v, 64); err != nil && v != "true" && v != "false" {
								ok = false
							}
							if strings.HasPrefix(v, "+") || strings.ContainsAny(v, " _x") {
								ok = false
							}
							if fres := c15jsonFits(f.kind, v); !fres {
								ok = false
							}
						}
						if ok && !strings.ContainsAny(v, ",|;") {
							return v
						}
					}
				}
				v := val()
				if f.slice {
					for k := t.R.Intn(3); k > 0; k-- {
						v += "," + val()
					}
				}
				add(5, tg.name, v)
			case tg.src == "form" && useJSON:
				continue
			case tg.src == "cookie" || tg.src == "path":
				// one value per cookie / path parameter name (SetCookie replaces, a route names a parameter once)
				if strings.Contains("|"+parts[idx], "|"+tg.name+",") {
					continue
				}
				add(idx, tg.name, c15valueFor(t, f.kind))
			default:
				add(idx, tg.name, c15valueFor(t, f.kind))
				if f.slice || t.R.Intn(8) == 0 {
					for k := t.R.Intn(3); k > 0; k-- {
						add(idx, tg.name, c15valueFor(t, f.kind))
					}
				}
			}
		}
	}
	// unrelated entries
	if t.R.Intn(4) == 0 {
		add(2, "zz", "1")
	}
	if useJSON {
		parts[6] = "1"
		if parts[5] == "" {
			add(5, "unrelated", "1")
		}
	} else {
		parts[6] = "0"
		// the same form fields in a multipart body (empty values are left to the urlencoded form: how the multipart
		// getter treats them is not modelled)
		emptyVal := false
		for _, kv := range c15kvs(parts[1]) {
			if len(kv) < 2 || kv[1] == "" {
				emptyVal = true
			}
		}
		if t.R.Intn(3) == 0 && !emptyVal {
			parts[6] = "2"
		}
	}
	return strings.Join(recs, ";"), parts
}

var c15jsonNumber = regexp.MustCompile(`^-?(0|[1-9][0-9]*)(\.[0-9]+)?([eE][+-]?[0-9]+)?$`)

// c15jsonFits: a JSON literal the standard decoder accepts for the kind without error
func c15jsonFits(kind, v string) bool {
	switch {
	case kind == "bool":
		return v == "true" || v == "false"
	case strings.HasPrefix(kind, "float"):
		// a JSON number: -? digits (. digits)? ([eE] [+-]? digits)? — not every text ParseFloat accepts
		return c15jsonNumber.MatchString(v)
	case strings.HasPrefix(kind, "uint"):
		bits, _ := strconv.Atoi(strings.TrimPrefix(kind, "uint"))
		if bits == 0 {
			bits = 64
		}
		_, err := strconv.ParseUint(v, 10, bits)
		return err == nil
	default:
		bits, _ := strconv.Atoi(strings.TrimPrefix(kind, "int"))
		if bits == 0 {
			bits = 64
		}
		_, err := strconv.ParseInt(v, 10, bits)
		return err == nil && !strings.HasPrefix(v, "+")
	}
}
