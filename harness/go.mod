module verifharness

go 1.19

require github.com/cloudwego/hertz v0.0.0

require github.com/bytedance/gopkg v0.1.0 // indirect

replace github.com/cloudwego/hertz => /repo
