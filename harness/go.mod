module verifharness

go 1.19

require github.com/cloudwego/hertz v0.0.0

require (
	github.com/bytedance/gopkg v0.1.0 // indirect
	github.com/bytedance/sonic v1.13.2 // indirect
	github.com/bytedance/sonic/loader v0.2.4 // indirect
	github.com/cloudwego/base64x v0.1.5 // indirect
	github.com/cloudwego/netpoll v0.6.4 // indirect
	github.com/fsnotify/fsnotify v1.5.4 // indirect
	github.com/golang/protobuf v1.5.0 // indirect
	github.com/klauspost/cpuid/v2 v2.0.9 // indirect
	github.com/nyaruka/phonenumbers v1.0.55 // indirect
	github.com/twitchyliquid64/golang-asm v0.15.1 // indirect
	golang.org/x/arch v0.0.0-20210923205945-b76863e36670 // indirect
	golang.org/x/sys v0.24.0 // indirect
	google.golang.org/protobuf v1.27.1 // indirect
)

replace github.com/cloudwego/hertz => /repo
