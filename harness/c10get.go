package main

import (
	"bufio"
	"context"
	"crypto/tls"
	"errors"
	"fmt"
	"io"
	"net"
	"net/http"
	"strings"
	"sync"
	"time"

	"github.com/cloudwego/hertz/pkg/app/client"
	"github.com/cloudwego/hertz/pkg/network"
	"github.com/cloudwego/hertz/pkg/network/standard"
)

// c10.get: the Get / GetTimeout / GetDeadline helpers of the client (pkg/protocol/client GetURL*, which run the
// exchange in a goroutine and hand the result over through a pooled channel).  A caller that gave up on a slow
// exchange must not leave its late answer to anybody else: every later call gets the answer to ITS request.
// The peer answers "/slow..." paths after a delay and every other path at once; the body is the path.
type getPeer struct{ delay time.Duration }

func (p *getPeer) DialConnection(nw, address string, timeout time.Duration, tlsConfig *tls.Config) (network.Conn, error) {
	c1, c2 := net.Pipe()
	go func() {
		defer c2.Close()
		br := bufio.NewReader(c2)
		for {
			req, err := http.ReadRequest(br)
			if err != nil {
				return
			}
			io.Copy(io.Discard, req.Body)
			if strings.HasPrefix(req.URL.Path, "/slow") {
				time.Sleep(p.delay)
			}
			body := req.URL.Path
			if _, err := fmt.Fprintf(c2, "HTTP/1.1 200 OK\r\nContent-Length: %d\r\n\r\n%s", len(body), body); err != nil {
				return
			}
		}
	}()
	return standard.NewConnForVerif(c1, 4096), nil
}
func (p *getPeer) DialTimeout(nw, address string, timeout time.Duration, tlsConfig *tls.Config) (net.Conn, error) {
	return nil, errors.New("unsupported")
}
func (p *getPeer) AddTLS(conn network.Conn, tlsConfig *tls.Config) (network.Conn, error) {
	return nil, errors.New("unsupported")
}

var c10getMu sync.Mutex // the helpers' result channels come from a process-wide pool

func init() {
	register(&Unit{Name: "c10.get", Props: []string{"C10"},
		// in: program of calls: s = GetTimeout on a slow path with a timeout shorter than the peer's delay,
		//     S = GetDeadline likewise, f = GetTimeout on a fast path, g = Get on a fast path, d = GetDeadline on a fast path;
		//     then the number of goroutines running the program side by side
		Check: func(t *T, in In) []Finding {
			c10getMu.Lock()
			defer c10getMu.Unlock()
			prog, G := in.S(0), in.N(1)
			c, err := client.NewClient(client.WithDialer(&getPeer{delay: 60 * time.Millisecond}))
			if err != nil {
				panic(err)
			}
			var fs []Finding
			var mu sync.Mutex
			bad := func(class, impl string) {
				mu.Lock()
				fs = append(fs, Finding{Kind: "oracle", Unit: "c10.get", Class: class, Impl: impl})
				mu.Unlock()
			}
			var wg sync.WaitGroup
			for g := 0; g < G; g++ {
				wg.Add(1)
				go func(g int) {
					defer wg.Done()
					for i, op := range prog {
						path := fmt.Sprintf("/fast-g%d-i%d", g, i)
						if op == 's' || op == 'S' {
							path = fmt.Sprintf("/slow-g%d-i%d", g, i)
						}
						url := "http://peer.example" + path
						var status int
						var body []byte
						var err error
						switch op {
						case 's':
							status, body, err = c.GetTimeout(context.Background(), nil, url, 15*time.Millisecond)
						case 'S':
							status, body, err = c.GetDeadline(context.Background(), nil, url, time.Now().Add(15*time.Millisecond))
						case 'f':
							status, body, err = c.GetTimeout(context.Background(), nil, url, 2*time.Second)
						case 'd':
							status, body, err = c.GetDeadline(context.Background(), nil, url, time.Now().Add(2*time.Second))
						default:
							status, body, err = c.Get(context.Background(), nil, url)
						}
						switch {
						case err == nil && string(body) != path:
							bad("response-of-another-request", fmt.Sprintf("call %c for %s returned status %d body %q", op, path, status, body))
						case err != nil && op != 's' && op != 'S':
							bad("fast-call-failed", fmt.Sprintf("call %c for %s: %v", op, path, err))
						}
					}
				}(g)
			}
			wg.Wait()
			time.Sleep(80 * time.Millisecond) // let the abandoned exchanges end before the next history
			c.CloseIdleConnections()
			return fs
		},
		Gen: func(t *T) {
			for _, p := range []string{"sf", "sfff", "Sd", "sSfdg", "ssfgd", "fsfsf", "g", "fdg"} {
				for _, g := range []int{1, 3} {
					t.Do(In{S(p), Nn(g)}, true)
				}
			}
			for i := 0; i < t.Scale(20, 400); i++ {
				b := make([]byte, 2+t.R.Intn(6))
				for j := range b {
					b[j] = "sSffgd"[t.R.Intn(6)]
				}
				t.Do(In{S(string(b)), Nn(1 + t.R.Intn(4))}, true)
			}
		}})
}
