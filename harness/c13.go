package main

import (
	"bytes"
	"errors"
	"fmt"
	"net"
	"strconv"
	"strings"
	"time"

	"github.com/cloudwego/hertz/pkg/network"
	"github.com/cloudwego/hertz/pkg/network/standard"
)

// srcConn delivers scripted read results: (bytes, err) pairs; after them (0, EOF).
type srcConn struct {
	handed int // bytes handed out by Read so far
	res   []srcRes
	out   bytes.Buffer
	wcalls int
}
type srcRes struct {
	b   []byte
	err bool
}

var errScripted = errors.New("scripted read error")

func (c *srcConn) Read(p []byte) (int, error) {
	if len(c.res) == 0 {
		return 0, errors.New("EOF")
	}
	r := &c.res[0]
	n := copy(p, r.b)
	c.handed += n
	if n < len(r.b) { // the buffer is smaller than the segment: the rest arrives with the next read
		r.b = r.b[n:]
		return n, nil
	}
	e := r.err
	c.res = c.res[1:]
	if e {
		return n, errScripted
	}
	return n, nil
}
func (c *srcConn) Write(p []byte) (int, error)         { c.wcalls++; return c.out.Write(p) }
func (c *srcConn) Close() error                        { return nil }
func (c *srcConn) LocalAddr() net.Addr                 { return &net.TCPAddr{} }
func (c *srcConn) RemoteAddr() net.Addr                { return &net.TCPAddr{} }
func (c *srcConn) SetDeadline(t time.Time) error       { return nil }
func (c *srcConn) SetReadDeadline(t time.Time) error   { return nil }
func (c *srcConn) SetWriteDeadline(t time.Time) error  { return nil }

// pattern bytes so that any misplaced byte is visible
func patBytes(start, n int) []byte {
	b := make([]byte, n)
	for i := range b {
		x := start + i
		b[i] = byte(x*131 + x>>8*17 + 7)
	}
	return b
}

func init() {
	register(&Unit{Name: "c13.reader", Props: []string{"C13"},
		// in: initial buffer size, ops "P12,S3,...", then source elements "len:err"
		Check: func(t *T, in In) []Finding {
			size := in.N(0)
			ops := strings.Split(in.S(1), ",")
			var res []srcRes
			var margs [][]byte
			margs = append(margs, []byte(in.S(1)))
			pos := 0
			var all []byte
			for i := 2; i < len(in); i++ {
				parts := strings.Split(in.S(i), ":")
				n, _ := strconv.Atoi(parts[0])
				b := patBytes(pos, n)
				pos += n
				all = append(all, b...)
				res = append(res, srcRes{b, parts[1] == "1"})
				flag := byte('0')
				if parts[1] == "1" {
					flag = '1'
				}
				margs = append(margs, append([]byte{flag}, b...))
			}
			sc := &srcConn{res: res}
			conn := standard.NewConnForVerif(sc, size)
			var outs []string
			// independent oracle: everything delivered, in order, is a prefix of what was sent;
			// outstanding peeked slices stay unchanged until the next Release (or Read)
			consumed := 0
			type view struct {
				b    []byte
				copy []byte
			}
			var views []view
			var copies []view // what ReadBinary returned: a copy, the caller's for good (also across Release)
			var fs []Finding
			checkCopies := func(when string) {
				for _, v := range copies {
					if !bytes.Equal(v.b, v.copy) {
						fs = append(fs, Finding{Kind: "oracle", Unit: "c13.reader", Class: "read-copy-changed-afterwards", Impl: when})
						copies = nil
						return
					}
				}
			}
			checkViews := func(when string) {
				for _, v := range views {
					if !bytes.Equal(v.b, v.copy) {
						fs = append(fs, Finding{Kind: "oracle", Unit: "c13.reader", Class: "peeked-slice-changed-before-release", Impl: when})
						views = nil
						return
					}
				}
			}
			for _, o := range ops {
				if o == "" {
					continue
				}
				arg := 0
				if len(o) > 1 {
					arg, _ = strconv.Atoi(o[1:])
				}
				switch o[0] {
				case 'P':
					b, err := conn.Peek(arg)
					e := ""
					if err != nil {
						e = "!"
					}
					outs = append(outs, fmt.Sprintf("P%x%s", b, e))
					if !bytes.HasPrefix(all[min(consumed, len(all)):], b) {
						fs = append(fs, Finding{Kind: "oracle", Unit: "c13.reader", Class: "peek-not-next-bytes-of-stream", Impl: fmt.Sprintf("%x", b)})
					}
					views = append(views, view{b, append([]byte(nil), b...)})
				case 'S':
					err := conn.Skip(arg)
					if err != nil {
						outs = append(outs, "S!")
					} else {
						outs = append(outs, "S")
						consumed += arg
					}
				case 'B':
					c, err := conn.ReadByte()
					if err != nil {
						outs = append(outs, "B!")
					} else {
						outs = append(outs, fmt.Sprintf("B%02x", c))
						if consumed >= len(all) || all[consumed] != c {
							fs = append(fs, Finding{Kind: "oracle", Unit: "c13.reader", Class: "readbyte-not-next-byte", Impl: fmt.Sprintf("%02x at %d", c, consumed)})
						}
						consumed++
					}
				case 'R':
					b, err := conn.ReadBinary(arg)
					if err != nil {
						outs = append(outs, "R!")
					} else {
						outs = append(outs, fmt.Sprintf("R%x", b))
						if !bytes.Equal(b, all[min(consumed, len(all)):min(consumed+arg, len(all))]) {
							fs = append(fs, Finding{Kind: "oracle", Unit: "c13.reader", Class: "readbinary-not-next-bytes", Impl: fmt.Sprintf("%x", b)})
						}
						consumed += arg
						if len(b) > 0 {
							copies = append(copies, view{b, append([]byte(nil), b...)})
						}
					}
				case 'L':
					outs = append(outs, "L")
					if conn.Len() != sc.handed-consumed {
						fs = append(fs, Finding{Kind: "oracle", Unit: "c13.reader", Class: "len-differs-from-buffered-unconsumed", Impl: fmt.Sprintf("Len=%d handed=%d consumed=%d", conn.Len(), sc.handed, consumed)})
					}
				case 'X':
					checkViews("before Release")
					views = nil
					conn.Release()
					outs = append(outs, "X")
				}
				checkViews("after " + o)
				checkCopies("after " + o)
			}
			impl := strings.Join(outs, " ")
			mod := t.M.Call("rd_script", margs...)
			if impl != mod {
				fs = append(fs, Finding{Kind: "corr", Unit: "c13.reader", Class: "rd_script", Impl: impl, Model: mod})
			}
			return fs
		},
		Gen: func(t *T) {
			sizes := []int{1, 2, 3, 7, 100, 1023, 1024, 1025, 4095, 4096, 4097, 8191, 8192, 8193, 20000}
			// directed: a message larger than the 512 KiB node limit is read and consumed completely, the buffers are
			// released (the oversized tail node is replaced), and the connection is used for the next message
			for _, size := range []int{4096} {
				for _, big := range []string{"P600100,S600100", "R600100", "P100,S100,P600000,S600000", "P600100,S600000,R100"} {
					for _, after := range []string{"X,P10,S10,B,R20,L,P3000,X,B"} {
						t.Do(In{Nn(size), S(big + "," + after), S("100:0"), S("600000:0"), S("50:0"), S("3000:0")}, true)
					}
				}
			}
			for i := 0; i < t.Scale(4000, 12000); i++ {
				in := In{Nn([]int{0, 4096, 100, 8192, 70000}[t.R.Intn(5)])}
				total := 0
				var frs []string
				for j, n := 0, 1+t.R.Intn(8); j < n; j++ {
					l := sizes[t.R.Intn(len(sizes))]
					if t.R.Intn(3) == 0 {
						l = 1 + t.R.Intn(50)
					}
					e := "0"
					switch t.R.Intn(12) {
					case 0:
						e = "1"
					case 1:
						l, e = 0, "1" // (0, err)
					}
					total += l
					frs = append(frs, fmt.Sprintf("%d:%s", l, e))
				}
				if t.Thorough() && t.R.Intn(400) == 0 {
					frs = append(frs, "600000:0")
					total += 600000
				}
				// Skip is only specified for bytes a preceding Peek made available (network.Reader
				// contract); `ensured` tracks a lower bound of what is buffered, from the scripted
				// source alone: a Peek(k) that the remaining stream can satisfy ensures k bytes
				var ops []string
				remaining := 0
				okPrefix := 0 // bytes deliverable before the first error element
				{
					stop := false
					for _, f := range frs {
						var l int
						var e string
						fmt.Sscanf(f, "%d:%s", &l, &e)
						if !stop {
							okPrefix += l
						}
						if e == "1" {
							stop = true
						}
						remaining += l
					}
				}
				ensured, consumedGen := 0, 0
				for j, n := 0, 3+t.R.Intn(t.Scale(60, 100)); j < n; j++ {
					sz := sizes[t.R.Intn(len(sizes))]
					if t.R.Intn(2) == 0 {
						sz = t.R.Intn(40)
					}
					peek := func(k int) {
						ops = append(ops, fmt.Sprintf("P%d", k))
						if consumedGen+k <= okPrefix && k > ensured {
							ensured = k
						}
					}
					switch t.R.Intn(10) {
					case 0, 1, 2:
						peek(sz)
					case 3, 4:
						peek(sz)
						if sz <= ensured {
							ops = append(ops, fmt.Sprintf("S%d", sz))
							ensured -= sz
							consumedGen += sz
						}
					case 5:
						if ensured > 0 {
							k := 1 + t.R.Intn(ensured)
							ops = append(ops, fmt.Sprintf("S%d", k))
							ensured -= k
							consumedGen += k
						}
					case 6:
						ops = append(ops, "B")
						if consumedGen+1 <= okPrefix {
							consumedGen++
							if ensured > 0 {
								ensured--
							}
						} else {
							ensured = 0
						}
					case 7:
						ops = append(ops, fmt.Sprintf("R%d", sz))
						if consumedGen+sz <= okPrefix {
							consumedGen += sz
							ensured -= min(ensured, sz)
						} else {
							ensured = 0
						}
					case 8:
						ops = append(ops, "L")
					case 9:
						ops = append(ops, "X")
					}
				}
				in = append(in, S(strings.Join(ops, ",")))
				for _, f := range frs {
					in = append(in, S(f))
				}
				t.Do(in, total > 0)
			}
		}})

	register(&Unit{Name: "c13.writer", Props: []string{"C13"},
		// in: ops "M12" (Malloc + fill), "W5000" (WriteBinary), "F" (Flush)
		Check: func(t *T, in In) []Finding {
			sc := &srcConn{}
			var conn network.Writer = standard.NewConnForVerif(sc, 4096)
			if len(in) > 1 && in.N(1) == 1 { // the generic writer of pkg/network (used over any io.Writer) instead of the standard connection
				conn = network.NewWriter(&sc.out)
			}
			var want []byte
			pos := 0
			var fs []Finding
			var pending [][]byte // caller buffers that must stay valid until Flush
			var pendingCopy [][]byte
			for _, o := range strings.Split(in.S(0), ",") {
				if o == "" {
					continue
				}
				n := 0
				if len(o) > 1 {
					n, _ = strconv.Atoi(o[1:])
				}
				switch o[0] {
				case 'M':
					buf, err := conn.Malloc(n)
					if err != nil || len(buf) != n {
						fs = append(fs, Finding{Kind: "oracle", Unit: "c13.writer", Class: "malloc-wrong-length", Impl: fmt.Sprint(len(buf), err)})
						return fs
					}
					b := patBytes(pos, n)
					copy(buf, b)
					want = append(want, b...)
					pos += n
				case 'W':
					// a caller buffer with spare capacity, as the response writers use
					b := make([]byte, n, n+64)
					copy(b, patBytes(pos, n))
					conn.WriteBinary(b)
					pending = append(pending, b[:cap(b)])
					pendingCopy = append(pendingCopy, append([]byte(nil), b[:cap(b)]...))
					want = append(want, b...)
					pos += n
				case 'F':
					if err := conn.Flush(); err != nil {
						fs = append(fs, Finding{Kind: "oracle", Unit: "c13.writer", Class: "flush-error", Impl: err.Error()})
					}
					if !bytes.Equal(sc.out.Bytes(), want) {
						fs = append(fs, Finding{Kind: "oracle", Unit: "c13.writer", Class: "peer-did-not-receive-the-concatenation", Impl: fmt.Sprintf("got %d bytes want %d; first difference at %d", sc.out.Len(), len(want), firstDiff(sc.out.Bytes(), want))})
						return fs
					}
					// the writer may keep a caller's buffer until Flush, but never writes into it (nor into its spare capacity)
					for i := range pending {
						if !bytes.Equal(pending[i], pendingCopy[i]) {
							fs = append(fs, Finding{Kind: "oracle", Unit: "c13.writer", Class: "writer-changed-a-caller-buffer", Impl: fmt.Sprintf("buffer %d, first difference at %d", i, firstDiff(pending[i], pendingCopy[i]))})
							return fs
						}
					}
					pending, pendingCopy = nil, nil
				}
			}
			return fs
		},
		Gen: func(t *T) {
			sizes := []int{0, 1, 7, 100, 4095, 4096, 4097, 8192, 9000, 70000}
			// directed triples around the zero-copy threshold
			for _, a := range []int{1, 8, 100, 4095} {
				for _, b := range []int{4096, 4097, 9000} {
					for _, c := range []int{1, 8, 100, 3000, 4095} {
						for wk := 0; wk < 2; wk++ {
							t.Do(In{S(fmt.Sprintf("M%d,W%d,M%d,F", a, b, c)), Nn(wk)}, true)
							t.Do(In{S(fmt.Sprintf("M%d,F,W%d,F,M%d,F", a, b, c)), Nn(wk)}, true)
							t.Do(In{S(fmt.Sprintf("W%d,M%d,W%d,M%d,F", b, a, b, c)), Nn(wk)}, true)
							t.Do(In{S(fmt.Sprintf("W%d,M%d,W%d,F", b, min(c, 60), a)), Nn(wk)}, true) // a small reservation right after a zero-copy write
						}
					}
				}
			}
			for i := 0; i < t.Scale(4000, 60000); i++ {
				var ops []string
				for j, n := 0, 1+t.R.Intn(t.Scale(30, 120)); j < n; j++ {
					sz := sizes[t.R.Intn(len(sizes))]
					if t.R.Intn(2) == 0 {
						sz = t.R.Intn(300)
					}
					switch t.R.Intn(5) {
					case 0, 1:
						ops = append(ops, fmt.Sprintf("M%d", sz))
					case 2, 3:
						ops = append(ops, fmt.Sprintf("W%d", sz))
					default:
						ops = append(ops, "F")
					}
				}
				ops = append(ops, "F")
				t.Do(In{S(strings.Join(ops, ",")), Nn(i % 2)}, true)
			}
		}})
}

func firstDiff(a, b []byte) int {
	for i := 0; i < len(a) && i < len(b); i++ {
		if a[i] != b[i] {
			return i
		}
	}
	return min(len(a), len(b))
}
