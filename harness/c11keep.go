package main

import (
	"bytes"
	"context"
	"fmt"
	"io"
	"math/rand"
	"strings"
	"sync"

	"github.com/cloudwego/hertz/pkg/app/client"
	"github.com/cloudwego/hertz/pkg/common/config"
	"github.com/cloudwego/hertz/pkg/protocol"
)

// c11.keepalive: a sequence of exchanges of one real client with a conforming keep-alive peer whose responses
// are already on the wire, back to back.  Streaming mode reads a part of each body (nothing, inside the
// prefetched part, beyond it, all of it) and closes the stream; buffered mode may run with a maximum response
// size.  Requests are POSTs, so the client never repeats one silently: whatever goes wrong with the position
// of the connection after an exchange shows in the next response or as an error.
func init() {
	register(&Unit{Name: "c11.keepalive", Props: []string{"C11"},
		// in: seed, fragmentation, streaming, maximum response size (0 = unset)
		Check: func(t *T, in In) []Finding {
			r := rand.New(rand.NewSource(int64(in.N(0))))
			stream, maxResp := in.N(2) == 1, in.N(3)
			n := 2 + r.Intn(3)
			resps := make([]c11resp, n)
			for i := range resps {
				resps[i] = c11GenResp(r)
				resps[i].interim = false
				if resps[i].framing == "close" && i < n-1 {
					resps[i].framing = "cl"
				}
			}
			var mu sync.Mutex
			answered := 0
			// a conforming peer: response k goes on the wire once request k has been written completely
			d := &peerDialer{next: func(i int) (*scriptConn, error) {
				mu.Lock()
				first := answered
				mu.Unlock()
				sc := newScriptConn(nil)
				queued := 0
				sc.onRead = func(int) { // called with the connection's lock held
					seen := bytes.Count(sc.out.Bytes(), []byte("\r\n\r\nreq-"))
					for ; queued < seen && first+queued < len(resps); queued++ {
						wire := resps[first+queued].render()
						switch in.N(1) {
						case 0:
							sc.frags = append(sc.frags, wire)
						case 1:
							sc.frags = append(sc.frags, fragEvery(wire, 1)...)
						default:
							sc.frags = append(sc.frags, fragRandom(r, wire, in.N(1))...)
						}
					}
				}
				return sc, nil
			}}
			opts := []config.ClientOption{client.WithDialer(d), client.WithResponseBodyStream(stream)}
			if maxResp > 0 {
				opts = append(opts, config.ClientOption{F: func(o *config.ClientOptions) { o.MaxResponseBodySize = maxResp }})
			}
			c, _ := client.NewClient(opts...)
			var fs []Finding
			for k, s := range resps {
				bad := func(class, note string) {
					fs = append(fs, Finding{Kind: "oracle", Unit: "c11.keepalive", Class: class,
						Impl: note, Note: fmt.Sprintf("exchange %d of %d, dials=%d, framing=%s, body=%d bytes, stream=%v", k+1, n, d.dials, s.framing, len(s.body), stream)})
				}
				req, resp := protocol.AcquireRequest(), protocol.AcquireResponse()
				req.SetMethod("POST")
				req.SetRequestURI("http://srv.example/x")
				req.SetBodyString(fmt.Sprintf("req-%d", k))
				err := c.Do(context.Background(), req, resp)
				tooLarge := maxResp > 0 && len(s.body) > maxResp && !stream
				switch {
				case err != nil && tooLarge && strings.Contains(err.Error(), "body size exceeds"):
					t.Count("too-large-rejected")
				case err != nil:
					bad("client-returned-an-error-for-a-conforming-response", err.Error())
				case tooLarge:
					bad("maximum-response-size-not-enforced", fmt.Sprintf("limit %d", maxResp))
				default:
					if resp.StatusCode() != s.status {
						bad("status", fmt.Sprintf("%d, sent %d", resp.StatusCode(), s.status))
					}
					for _, h := range s.hdrs {
						if string(resp.Header.Peek(h[0])) != h[1] {
							bad("header", fmt.Sprintf("%s=%q, sent %q", h[0], resp.Header.Peek(h[0]), h[1]))
						}
					}
					if stream {
						want := []int{0, 1, 100, 8192, 9000, 30000, len(s.body), len(s.body)}[r.Intn(8)]
						if want > len(s.body) {
							want = len(s.body)
						}
						got := make([]byte, want)
						m, rerr := io.ReadFull(resp.BodyStream(), got)
						if m != want || !bytes.Equal(got[:m], s.body[:m]) {
							bad("body", fmt.Sprintf("read %d of the first %d bytes (%v), first difference %d", m, want, rerr, firstDiff(got[:m], s.body)))
						}
						t.Count(map[bool]string{true: "stream/read-all", false: "stream/read-part"}[want == len(s.body)])
						resp.CloseBodyStream()
					} else if !bytes.Equal(resp.Body(), s.body) {
						bad("body", fmt.Sprintf("%d bytes, sent %d, first difference %d", len(resp.Body()), len(s.body), firstDiff(resp.Body(), s.body)))
					}
				}
				mu.Lock()
				answered = k + 1
				mu.Unlock()
				// a length-delimited response was sent completely: a read past its end would wait, on a network, for
				// bytes the peer never sends
				if s.framing != "close" && err == nil {
					for _, sc := range d.conns {
						sc.mu.Lock()
						past := sc.endReads
						sc.mu.Unlock()
						if past > 0 {
							bad("client-reads-past-the-end-of-the-response", fmt.Sprintf("%d read(s) after the last byte the peer sent", past))
							break
						}
					}
				}
				protocol.ReleaseRequest(req)
				protocol.ReleaseResponse(resp)
				if len(fs) > 0 {
					break
				}
			}
			t.Count(fmt.Sprintf("dials/%d", d.dials))
			return fs
		},
		Gen: func(t *T) {
			for i := 0; i < t.Scale(1200, 20000); i++ {
				stream := t.R.Intn(2)
				maxResp := 0
				if t.R.Intn(3) == 0 {
					maxResp = []int{50, 4096, 8000, 69999, 70000}[t.R.Intn(5)]
				}
				in := In{Nn(t.R.Intn(1 << 30)), Nn([]int{0, 0, 1, 2, 5}[t.R.Intn(5)]), Nn(stream), Nn(maxResp)}
				t.Do(in, true)
			}
		}})
}
