package main

import (
	"bytes"
	"context"
	"errors"
	"fmt"
	"io"
	"net/http"
	"reflect"
	"regexp"
	"sort"
	"strings"
	"time"

	"github.com/cloudwego/hertz/pkg/app"
	"github.com/cloudwego/hertz/pkg/app/middlewares/server/recovery"
	"github.com/cloudwego/hertz/pkg/common/config"
	"github.com/cloudwego/hertz/pkg/network"
	"github.com/cloudwego/hertz/pkg/protocol"
	"github.com/cloudwego/hertz/pkg/route"
)

type routeEngine = route.Engine

func recoveryMW() app.HandlerFunc { return recovery.Recovery() }

// structs whose fields are expanded (must mirror t2known in tools/gotrans/t2.go)
var c09Known = map[string]bool{"ResponseHeader": true, "RequestHeader": true, "Request": true, "Response": true, "URI": true,
	"Cookie": true, "Args": true, "Trailer": true, "RequestContext": true}

type c09leaf struct {
	path, origin string
	fresh        bool
	desc         string
}

// walk every leaf field (same flattening as the T2 translator) and say whether it is observably
// fresh: zero value, or empty (len 0) for slices / maps / strings.
func c09Walk(v reflect.Value, tname, prefix string, out *[]c09leaf) {
	t := v.Type()
	for i := 0; i < t.NumField(); i++ {
		f := t.Field(i)
		fv := v.Field(i)
		name := f.Name
		if f.Anonymous {
			name = "embedded_" + strings.NewReplacer(".", "_", "*", "").Replace(f.Type.String())
		}
		ft := f.Type
		ptr := false
		if ft.Kind() == reflect.Ptr {
			ft = ft.Elem()
			ptr = true
		}
		if ft.Kind() == reflect.Struct && c09Known[ft.Name()] {
			if ptr {
				if fv.IsNil() {
					continue // object absent: nothing below it can be observed
				}
				fv = fv.Elem()
			}
			c09Walk(fv, ft.Name(), prefix+name+".", out)
			continue
		}
		fresh := fv.IsZero()
		val := ""
		switch fv.Kind() {
		case reflect.Slice, reflect.Map, reflect.String:
			fresh = fv.Len() == 0
		case reflect.Int, reflect.Int8, reflect.Int16, reflect.Int32, reflect.Int64:
			val = fmt.Sprint(fv.Int())
		case reflect.Bool:
			val = fmt.Sprint(fv.Bool())
		}
		*out = append(*out, c09leaf{prefix + name, tname + "." + name, fresh, fmt.Sprintf("%s kind=%s val=%s", f.Type, fv.Kind(), val)})
	}
}

// argument pools for reflective mutation
var c09Strs = []string{"a", "x=1&y=2", "k", "id=7", "debug&z=", "text/html", "/p/q?x=1#f", "5", "close", "gzip", "a, b", "Sat, 01 Jan 2028 00:00:00 GMT", "example.com:80"}

func c09Arg(t reflect.Type, n int) (reflect.Value, bool) {
	switch t.Kind() {
	case reflect.String:
		return reflect.ValueOf(c09Strs[n%len(c09Strs)]).Convert(t), true
	case reflect.Bool:
		return reflect.ValueOf(n%2 == 0).Convert(t), true
	case reflect.Int, reflect.Int8, reflect.Int16, reflect.Int32, reflect.Int64:
		if t == reflect.TypeOf(time.Duration(0)) {
			return reflect.ValueOf(time.Duration(n%5) * time.Second), true
		}
		return reflect.ValueOf(int64(n%7 + 1)).Convert(t), true
	case reflect.Uint, reflect.Uint8, reflect.Uint16, reflect.Uint32, reflect.Uint64:
		return reflect.ValueOf(uint64(n%7 + 1)).Convert(t), true
	case reflect.Slice:
		if t.Elem().Kind() == reflect.Uint8 {
			return reflect.ValueOf([]byte(c09Strs[n%len(c09Strs)])).Convert(t), true
		}
	case reflect.Struct:
		if t == reflect.TypeOf(time.Time{}) {
			return reflect.ValueOf(time.Unix(1830000000+int64(n), 0)), true
		}
	case reflect.Interface:
		if t == reflect.TypeOf((*io.Reader)(nil)).Elem() {
			return reflect.ValueOf(io.Reader(bytes.NewReader([]byte("stream-body")))), true
		}
		if t == reflect.TypeOf((*error)(nil)).Elem() {
			return reflect.ValueOf(errors.New("e")), true
		}
		if t.NumMethod() == 0 {
			return reflect.ValueOf(interface{}("v")).Convert(t), true
		}
	case reflect.Ptr:
		if t == reflect.TypeOf(&protocol.Cookie{}) {
			c := &protocol.Cookie{}
			c.SetKey("ck")
			c.SetValue("cv")
			return reflect.ValueOf(c), true
		}
	}
	return reflect.Value{}, false
}

var c09Deny = []string{"Reset", "Release", "Acquire", "Swap", "CopyTo", "Read", "ReadFrom", "BodyWriteTo", "WriteTo", "Next", "Hijack", "SetConn", "Finished",
	"ForEachKey", "File", "FileAttachment", "FileFromFS", "SaveUploadedFile", "HTML", "Render", "Bind", "Validate", "Protobuf", "SetBodyStreamNoReset",
	"ConstructBodyStream", "SetHijackWriter", "HijackWriter", "Flush", "Exile", "VisitAll", "SetHandlers", "SetBinder", "SetValidator", "SetClientIPFunc",
	"SetFormValueFunc", "GetReader", "GetWriter", "GetConn", "RemoteAddr", "ClientIP", "SetTraceInfo", "Copy", "LoadHTML", "AbortWithMsg", "SetOptions",
	"SetMaxKeepBodySize", "SetEnableTrace", "SetIsTLS" /* connection-scoped, set by Serve */, "GetBufValue", "InitBufValue" /* scratch buffer API of the header reader */, "MultipartForm", "FormFile", "DefaultPostForm", "PostForm", "FormValue", "GetPostForm", "SetFullPath", "Body"}

func c09Denied(name string) bool {
	for _, d := range c09Deny {
		if name == d || strings.HasPrefix(name, "Reset") || strings.HasPrefix(name, "Release") || strings.HasPrefix(name, "Bind") || strings.HasPrefix(name, "Write") {
			return true
		}
	}
	return false
}

// mutators of a type: exported pointer-receiver methods whose parameters we can generate
func c09Mutators(t reflect.Type) []string {
	var out []string
	for i := 0; i < t.NumMethod(); i++ {
		m := t.Method(i)
		if c09Denied(m.Name) || m.Type.NumIn() < 2 || m.Type.IsVariadic() {
			continue
		}
		ok := true
		for j := 1; j < m.Type.NumIn(); j++ {
			if _, g := c09Arg(m.Type.In(j), 0); !g {
				ok = false
			}
		}
		if ok {
			out = append(out, m.Name)
		}
	}
	sort.Strings(out)
	return out
}

func c09Apply(obj reflect.Value, name string, seed int) {
	defer func() { recover() }()
	m := obj.MethodByName(name)
	if !m.IsValid() {
		return
	}
	var args []reflect.Value
	for j := 0; j < m.Type().NumIn(); j++ {
		a, _ := c09Arg(m.Type().In(j), seed+j)
		args = append(args, a)
	}
	m.Call(args)
}

// getters: exported zero-argument methods returning plain data
func c09Getters(t reflect.Type) []string {
	var out []string
	for i := 0; i < t.NumMethod(); i++ {
		m := t.Method(i)
		if c09Denied(m.Name) || m.Type.NumIn() != 1 || m.Type.NumOut() != 1 {
			continue
		}
		switch k := m.Type.Out(0).Kind(); {
		case k == reflect.String || k == reflect.Bool || k >= reflect.Int && k <= reflect.Uint64:
		case k == reflect.Slice && m.Type.Out(0).Elem().Kind() == reflect.Uint8:
		default:
			continue
		}
		out = append(out, m.Name)
	}
	sort.Strings(out)
	return out
}

func c09Dump(obj reflect.Value) string {
	var sb strings.Builder
	for _, g := range c09Getters(obj.Type()) {
		func() {
			defer func() {
				if r := recover(); r != nil {
					fmt.Fprintf(&sb, "%s=PANIC;", g)
				}
			}()
			r := obj.MethodByName(g).Call(nil)[0]
			if r.Kind() == reflect.Slice {
				fmt.Fprintf(&sb, "%s=%q;", g, r.Bytes())
			} else {
				fmt.Fprintf(&sb, "%s=%v;", g, r.Interface())
			}
		}()
	}
	return c09MaskClock(sb.String())
}

var c09DateRe = regexp.MustCompile(`Date: [A-Z][a-z]{2}, \d{2} [A-Z][a-z]{2} \d{4} \d{2}:\d{2}:\d{2} GMT`)

// the default Date header is the wall clock (refreshed every second): two dumps taken across a tick differ by
// design.  Only a value within a few seconds of now is masked; any other Date is left as it is.
func c09MaskClock(s string) string {
	return c09DateRe.ReplaceAllStringFunc(s, func(m string) string {
		if tm, err := time.Parse(http.TimeFormat, m[len("Date: "):]); err == nil {
			if d := time.Since(tm); d > -5*time.Second && d < 5*time.Second {
				return "Date: <now>"
			}
		}
		return m
	})
}

type c09type struct {
	name   string
	fresh  func() reflect.Value // pointer to a fresh object
	resets []string             // entry methods of the T2 jobs
}

var c09Types = []c09type{
	{"ResponseHeader", func() reflect.Value { return reflect.ValueOf(&protocol.ResponseHeader{}) }, []string{"Reset"}},
	{"RequestHeader", func() reflect.Value { return reflect.ValueOf(&protocol.RequestHeader{}) }, []string{"Reset"}},
	{"Request", func() reflect.Value { return reflect.ValueOf(&protocol.Request{}) }, []string{"Reset", "ResetWithoutConn"}},
	{"Response", func() reflect.Value { return reflect.ValueOf(&protocol.Response{}) }, []string{"Reset"}},
	{"URI", func() reflect.Value { return reflect.ValueOf(&protocol.URI{}) }, []string{"Reset"}},
	{"Cookie", func() reflect.Value { return reflect.ValueOf(&protocol.Cookie{}) }, []string{"Reset"}},
	{"Args", func() reflect.Value { return reflect.ValueOf(&protocol.Args{}) }, []string{"Reset"}},
	{"Trailer", func() reflect.Value { return reflect.ValueOf(&protocol.Trailer{}) }, []string{"Reset"}},
	{"RequestContext", func() reflect.Value { return reflect.ValueOf(app.NewContext(0)) }, []string{"Reset", "ResetWithoutConn"}},
}

func init() {
	register(&Unit{Name: "c09.fields", Props: []string{"C09"}, ShrinkOps: true, KeepPrefix: 2,
		// in: type name, reset method, then mutator names with seeds "Name:seed"
		Check: func(t *T, in In) []Finding {
			var ty *c09type
			for i := range c09Types {
				if c09Types[i].name == in.S(0) {
					ty = &c09Types[i]
				}
			}
			if ty == nil {
				return nil
			}
			obj := ty.fresh()
			for i := 2; i < len(in); i++ {
				var name string
				var seed int
				parts := strings.SplitN(in.S(i), ":", 2)
				name = parts[0]
				fmt.Sscanf(parts[1], "%d", &seed)
				c09Apply(obj, name, seed)
			}
			obj.MethodByName(in.S(1)).Call(nil)
			var leaves []c09leaf
			c09Walk(obj.Elem(), ty.name, "", &leaves)
			// the model's verdict: which non-exempt leaves are not definitely reset (expected: none),
			// and the exempt list itself
			exempt := map[string]bool{}
			for _, e := range strings.Split(t.M.Call("reset_exempt", []byte(ty.name), []byte(in.S(1))), ",") {
				exempt[e] = true
			}
			// a scalar that equals the value in a freshly allocated object is fresh too (index = -1)
			var freshLeaves []c09leaf
			c09Walk(ty.fresh().Elem(), ty.name, "", &freshLeaves)
			freshDesc := map[string]string{}
			for _, l := range freshLeaves {
				freshDesc[l.path] = l.desc
			}
			var fs []Finding
			for _, l := range leaves {
				if !l.fresh && strings.Contains(l.desc, "val=") && !strings.HasSuffix(l.desc, "val=") && freshDesc[l.path] == l.desc {
					continue
				}
				if !l.fresh && !exempt[l.origin] {
					fs = append(fs, Finding{Kind: "oracle", Unit: "c09.fields", Class: "field-survives-reset:" + l.origin, Impl: l.path + " (" + l.desc + ")", Note: ty.name + "." + in.S(1)})
				}
			}
			// public observation: every plain getter equals that of a fresh object
			if got, want := c09Dump(obj), c09Dump(ty.fresh()); got != want {
				fs = append(fs, Finding{Kind: "oracle", Unit: "c09.fields", Class: "getter-differs-after-reset:" + ty.name, Impl: got, Expect: want})
			}
			// and the recycled object behaves like a fresh one under further use: the same second program
			// (the first one's mutators with other arguments) on both must give the same observations
			// (a stale flag in a reused slice slot only shows once the slot is filled again)
			fresh2 := ty.fresh()
			for i := 2; i < len(in); i++ {
				parts := strings.SplitN(in.S(i), ":", 2)
				var seed int
				fmt.Sscanf(parts[1], "%d", &seed)
				c09Apply(obj, parts[0], seed+7)
				c09Apply(fresh2, parts[0], seed+7)
			}
			if got, want := c09Dump(obj), c09Dump(fresh2); got != want {
				fs = append(fs, Finding{Kind: "oracle", Unit: "c09.fields", Class: "recycled-object-differs-from-a-fresh-one-under-further-use:" + ty.name,
					Impl: got, Expect: want, Note: c09FirstDiff(got, want)})
			}
			return fs
		},
		Gen: func(t *T) {
			for _, ty := range c09Types {
				muts := c09Mutators(ty.fresh().Type())
				t.mu.Lock()
				t.Dist["c09.fields/mutators/"+ty.name] = len(muts)
				t.Dist["c09.fields/getters/"+ty.name] = len(c09Getters(ty.fresh().Type()))
				t.mu.Unlock()
				for _, reset := range ty.resets {
					// each mutator alone, then random programs
					for _, m := range muts {
						t.Do(In{S(ty.name), S(reset), S(fmt.Sprintf("%s:%d", m, 1))}, true)
					}
					for i := 0; i < t.Scale(300, 6000); i++ {
						in := In{S(ty.name), S(reset)}
						for j, n := 0, 1+t.R.Intn(8); j < n && len(muts) > 0; j++ {
							in = append(in, S(fmt.Sprintf("%s:%d", muts[t.R.Intn(len(muts))], t.R.Intn(50))))
						}
						t.Do(in, true)
					}
				}
			}
		}})
}

// ---- server histories: mutate in request i, probe in request i+1 ----

func c09ProbeDump(ctx *app.RequestContext) string {
	return "ctx{" + c09Dump(reflect.ValueOf(ctx)) + "} req{" + c09Dump(reflect.ValueOf(&ctx.Request)) + "} reqh{" + c09Dump(reflect.ValueOf(&ctx.Request.Header)) +
		"} resp{" + c09Dump(reflect.ValueOf(&ctx.Response)) + "} resph{" + c09Dump(reflect.ValueOf(&ctx.Response.Header)) + "} uri{" + c09Dump(reflect.ValueOf(ctx.Request.URI())) + "}" +
		fmt.Sprintf(" keys=%d errors=%d params=%d", len(ctx.Keys), len(ctx.Errors), len(ctx.Params))
}

type c09srv struct {
	probe string
	prog  []string
	// progs: the operations of the i-th mutating request of the history (prog = progs[0] when unset)
	progs [][]string
	nreq  int
}

func (s *c09srv) engine() *routeEngine {
	e := newRunningEngine(func(o *config.Options) { o.NoDefaultDate = true }) // the Date value is wall-clock
	e.Use(recoveryMW())
	e.Any("/mut/:p", func(c context.Context, ctx *app.RequestContext) {
		prog := s.prog
		if s.progs != nil {
			prog = nil
			if s.nreq < len(s.progs) {
				prog = s.progs[s.nreq]
			}
			s.nreq++
		}
		for _, op := range prog {
			parts := strings.SplitN(op, ":", 3)
			var seed int
			fmt.Sscanf(parts[2], "%d", &seed)
			var target reflect.Value
			switch parts[0] {
			case "ctx":
				target = reflect.ValueOf(ctx)
			case "req":
				target = reflect.ValueOf(&ctx.Request)
			case "reqh":
				target = reflect.ValueOf(&ctx.Request.Header)
			case "resp":
				target = reflect.ValueOf(&ctx.Response)
			case "resph":
				target = reflect.ValueOf(&ctx.Response.Header)
			}
			if parts[1] == "PANIC" {
				panic("handler panic")
			}
			if parts[0] == "conn" { // an event of the connection, not of the handler
				continue
			}
			if parts[1] == "HIJACK" {
				ctx.Hijack(func(network.Conn) {})
				continue
			}
			c09Apply(target, parts[1], seed)
		}
	})
	e.GET("/probe", func(c context.Context, ctx *app.RequestContext) {
		s.probe = c09ProbeDump(ctx)
		ctx.SetBodyString("probe-body") // what the probe's response looks like on the wire is an observation too
	})
	startEngine(e)
	return e
}

const c09MutReq = "GET /mut/x?a=1 HTTP/1.1\r\nHost: h\r\nX-K: v\r\nCookie: c=d\r\n\r\n"
const c09ProbeReq = "GET /probe HTTP/1.1\r\nHost: h\r\n\r\n"

// request shapes of a history: they leave the pooled Request in different body states (no body, body buffer
// from the chunked reader, zero-copy raw body of a fixed-length request, explicit zero length)
var c09Shapes = map[string]string{
	"get":     c09MutReq,
	"chunked": "POST /mut/x HTTP/1.1\r\nHost: h\r\nTransfer-Encoding: chunked\r\n\r\n5\r\nhello\r\n0\r\n\r\n",
	"cl":      "POST /mut/x HTTP/1.1\r\nHost: h\r\nContent-Type: text/plain\r\nContent-Length: 16\r\n\r\nbody-of-request!",
	"cl0":     "POST /mut/x HTTP/1.1\r\nHost: h\r\nContent-Length: 0\r\n\r\n",
	"form":    "POST /mut/x HTTP/1.1\r\nHost: h\r\nContent-Type: application/x-www-form-urlencoded\r\nContent-Length: 7\r\n\r\nf=1&g=2",
	"head":    "HEAD /mut/x HTTP/1.1\r\nHost: h\r\n\r\n",
	"http10":  "GET /mut/x HTTP/1.0\r\nHost: h\r\nConnection: keep-alive\r\n\r\n",
}

// c09LastResponse: the bytes of the last response on the wire (the probe's)
func c09LastResponse(out []byte) string {
	i := bytes.LastIndex(out, []byte("HTTP/1.1 "))
	if i < 0 {
		return string(out)
	}
	return string(out[i:])
}

func init() {
	register(&Unit{Name: "c09.server", Props: []string{"C09"}, ShrinkOps: true,
		// in: ops "target:Method:seed"
		Check: func(t *T, in In) []Finding {
			// "NEXT:<shape>:0" starts the next mutating request of the history; the first one is a GET
			progs := [][]string{nil}
			wire := c09MutReq
			for i := range in {
				if strings.HasPrefix(in.S(i), "NEXT:") {
					shape := strings.Split(in.S(i), ":")[1]
					if len(progs) == 1 && len(progs[0]) == 0 && i == 0 {
						wire = c09Shapes[shape] // a leading NEXT only chooses the shape of the first request
					} else {
						wire += c09Shapes[shape]
						progs = append(progs, nil)
					}
					continue
				}
				progs[len(progs)-1] = append(progs[len(progs)-1], in.S(i))
			}
			// baseline: fresh engine, fresh connection, probe only
			base := &c09srv{}
			baseOut, _ := serveScript(base.engine(), newScriptConn([][]byte{[]byte(c09ProbeReq)}))
			var fs []Finding
			// keep-alive: mutate then probe on the same connection
			ka := &c09srv{progs: progs}
			e := ka.engine()
			kaConn := newScriptConn([][]byte{[]byte(wire + c09ProbeReq)})
			for i := range in {
				// "conn:WRITEFAIL:<n>": the peer is gone after n response bytes; Serve leaves through its error
				// paths and the context goes back to the pool from there
				if strings.HasPrefix(in.S(i), "conn:WRITEFAIL:") {
					fmt.Sscanf(strings.Split(in.S(i), ":")[2], "%d", &kaConn.writeErrAfter)
				}
			}
			kaOut, _ := serveScript(e, kaConn)
			if ka.probe != "" && kaConn.writeErrAfter < 0 && c09LastResponse(kaOut) != c09LastResponse(baseOut) {
				fs = append(fs, Finding{Kind: "oracle", Unit: "c09.server", Class: "probe-response-differs-on-keepalive-connection", Impl: c09LastResponse(kaOut), Expect: c09LastResponse(baseOut)})
			}
			if ka.probe != "" && ka.probe != base.probe {
				fs = append(fs, Finding{Kind: "oracle", Unit: "c09.server", Class: "probe-differs-on-keepalive-connection", Impl: ka.probe, Expect: base.probe, Note: c09FirstDiff(ka.probe, base.probe)})
			}
			// pool: a new connection of the same engine gets the recycled context
			ka.probe = ""
			poolOut, _ := serveScript(e, newScriptConn([][]byte{[]byte(c09ProbeReq)}))
			if c09LastResponse(poolOut) != c09LastResponse(baseOut) {
				fs = append(fs, Finding{Kind: "oracle", Unit: "c09.server", Class: "probe-response-differs-on-new-connection", Impl: c09LastResponse(poolOut), Expect: c09LastResponse(baseOut)})
			}
			if ka.probe != base.probe {
				fs = append(fs, Finding{Kind: "oracle", Unit: "c09.server", Class: "probe-differs-on-new-connection", Impl: ka.probe, Expect: base.probe, Note: c09FirstDiff(ka.probe, base.probe)})
			}
			return fs
		},
		Gen: func(t *T) {
			targets := []struct {
				name string
				typ  reflect.Type
			}{{"ctx", reflect.TypeOf(&app.RequestContext{})}, {"req", reflect.TypeOf(&protocol.Request{})}, {"reqh", reflect.TypeOf(&protocol.RequestHeader{})},
				{"resp", reflect.TypeOf(&protocol.Response{})}, {"resph", reflect.TypeOf(&protocol.ResponseHeader{})}}
			var all []string
			for _, tg := range targets {
				for _, m := range c09Mutators(tg.typ) {
					all = append(all, tg.name+":"+m)
				}
			}
			all = append(all, "ctx:Exile", "ctx:PANIC", "ctx:HIJACK")
			for _, m := range all {
				t.Do(In{S(m + ":1")}, true)
				// the same when the response cannot be written (the error paths of Serve recycle the context too)
				t.Do(In{S(m + ":1"), S("conn:WRITEFAIL:0")}, true)
			}
			for _, n := range []int{0, 1, 20, 60} {
				for _, sh := range []string{"get", "chunked", "cl", "form"} {
					t.Do(In{S("NEXT:" + sh + ":0"), S("ctx:HIJACK:1"), S(fmt.Sprintf("conn:WRITEFAIL:%d", n))}, true)
					t.Do(In{S("NEXT:" + sh + ":0"), S("resp:SetBodyString:7"), S(fmt.Sprintf("conn:WRITEFAIL:%d", n))}, true)
				}
			}
			// histories of request shapes alone (read-only handlers): every sequence of up to three
			shapes := []string{"get", "chunked", "cl", "cl0", "form", "head", "http10"}
			for _, a := range shapes {
				t.Do(In{S("NEXT:" + a + ":0")}, true)
				for _, b := range shapes {
					t.Do(In{S("NEXT:" + a + ":0"), S("NEXT:" + b + ":0")}, true)
					for _, c := range shapes {
						t.Do(In{S("NEXT:" + a + ":0"), S("NEXT:" + b + ":0"), S("NEXT:" + c + ":0")}, true)
					}
				}
			}
			// pairs of body operations in consecutive requests (a kept body buffer, then a raw body, ...)
			var bodyOps []string
			for _, m := range all {
				if strings.Contains(m, "Body") && (strings.HasPrefix(m, "req:") || strings.HasPrefix(m, "resp:")) {
					bodyOps = append(bodyOps, m)
				}
			}
			for _, a := range bodyOps {
				for _, b := range bodyOps {
					if strings.Split(a, ":")[0] == strings.Split(b, ":")[0] {
						t.Do(In{S(a + ":3"), S("NEXT:get:0"), S(b + ":4")}, true)
					}
				}
			}
			for i := 0; i < t.Scale(400, 8000); i++ {
				var in In
				for j, n := 0, 1+t.R.Intn(6); j < n; j++ {
					if t.R.Intn(5) == 0 {
						in = append(in, S("NEXT:"+shapes[t.R.Intn(len(shapes))]+":0"))
						continue
					}
					in = append(in, S(fmt.Sprintf("%s:%d", all[t.R.Intn(len(all))], t.R.Intn(50))))
				}
				if t.R.Intn(6) == 0 {
					in = append(in, S(fmt.Sprintf("conn:WRITEFAIL:%d", []int{0, 0, 30, 100, 400}[t.R.Intn(5)])))
				}
				t.Do(in, true)
			}
		}})
}

func c09FirstDiff(a, b string) string {
	as, bs := strings.Split(a, ";"), strings.Split(b, ";")
	for i := 0; i < len(as) && i < len(bs); i++ {
		if as[i] != bs[i] {
			return as[i] + "  vs  " + bs[i]
		}
	}
	return "length"
}
