package main

import (
	"bytes"
	"context"
	"crypto/sha1"
	"fmt"
	"io"
	"math/rand"
	"strings"

	"github.com/cloudwego/hertz/pkg/app"
	"github.com/cloudwego/hertz/pkg/common/config"
)

// ---- abstract requests and their wire renderings ----

type absReq struct {
	method, target string
	hdrs           [][2]string // application headers (non-framing)
	body           []byte
	framing        int   // 0 = no body headers, 1 = Content-Length, 2 = chunked
	chunks         []int // chunk sizes (sum = len(body)), framing 2
	trailers       [][2]string
	expect         bool
	close          bool
}

type renderStyle struct {
	r *rand.Rand
}

func (s renderStyle) caseMix(name string) string {
	if s.r == nil {
		return name
	}
	b := []byte(name)
	for i := range b {
		switch s.r.Intn(3) {
		case 0:
			b[i] = bytes.ToUpper(b[i : i+1])[0]
		case 1:
			b[i] = bytes.ToLower(b[i : i+1])[0]
		}
	}
	return string(b)
}

func (s renderStyle) ows() string {
	if s.r == nil {
		return " "
	}
	return []string{" ", "", "  ", "   "}[s.r.Intn(4)]
}

func (s renderStyle) hex(n int) string {
	h := fmt.Sprintf("%x", n)
	if s.r == nil {
		return h
	}
	if s.r.Intn(2) == 0 {
		h = strings.ToUpper(h)
	}
	return strings.Repeat("0", s.r.Intn(3)) + h
}

func (q absReq) render(s renderStyle) []byte {
	var b bytes.Buffer
	fmt.Fprintf(&b, "%s %s HTTP/1.1\r\n", q.method, q.target)
	line := func(k, v string) {
		fmt.Fprintf(&b, "%s:%s%s%s\r\n", k, s.ows(), v, strings.TrimLeft(s.ows(), "")) // leading and trailing OWS
	}
	line(s.caseMix("Host"), "h.example")
	half := len(q.hdrs) / 2
	for _, h := range q.hdrs[:half] {
		line(h[0], h[1])
	}
	switch q.framing {
	case 1:
		line(s.caseMix("Content-Length"), fmt.Sprint(len(q.body)))
	case 2:
		line(s.caseMix("Transfer-Encoding"), s.caseMix("chunked"))
		if len(q.trailers) > 0 {
			var names []string
			for _, t := range q.trailers {
				names = append(names, t[0])
			}
			line("Trailer", strings.Join(names, ", "))
		}
	}
	if q.expect {
		line("Expect", "100-continue")
	}
	if q.close {
		line("Connection", "close")
	}
	for _, h := range q.hdrs[half:] {
		line(h[0], h[1])
	}
	b.WriteString("\r\n")
	switch q.framing {
	case 1:
		b.Write(q.body)
	case 2:
		off := 0
		for _, n := range q.chunks {
			fmt.Fprintf(&b, "%s\r\n", s.hex(n))
			b.Write(q.body[off : off+n])
			b.WriteString("\r\n")
			off += n
		}
		b.WriteString(s.hex(0) + "\r\n")
		for _, t := range q.trailers {
			fmt.Fprintf(&b, "%s: %s\r\n", t[0], t[1])
		}
		b.WriteString("\r\n")
	}
	return b.Bytes()
}

var pipeSizes = []int{0, 1, 2, 5, 100, 4095, 4096, 4097, 8191, 8192, 8193, 70000}

func genReq(r *rand.Rand, i int, big bool) absReq {
	q := absReq{method: []string{"GET", "POST", "PUT", "DELETE", "PATCH"}[r.Intn(5)], target: fmt.Sprintf("/p%d/%s?q=%d", i, []string{"a", "b%20c", "x.y", "-"}[r.Intn(4)], r.Intn(100))}
	names := []string{"X-A", "X-Content-Length", "Content-Lengthx", "Content-Len", "Transfer-Encodingx", "X-Transfer-Encoding", "Accept", "X-Long", "Content_Length", "Content-Length-", "Ontent-Length"}
	for j, n := 0, r.Intn(5); j < n; j++ {
		v := []string{"1", "5", "chunked", "a b", "text/plain", "k=v", strings.Repeat("z", 1+r.Intn(300))}[r.Intn(7)]
		q.hdrs = append(q.hdrs, [2]string{names[r.Intn(len(names))], v})
	}
	if q.method != "GET" && q.method != "DELETE" || r.Intn(4) == 0 {
		q.framing = 1 + r.Intn(2)
		n := pipeSizes[r.Intn(len(pipeSizes))]
		if !big && n > 9000 {
			n = r.Intn(300)
		}
		if big && r.Intn(2) == 0 {
			n = []int{12000, 30000, 70000}[r.Intn(3)]
		}
		if r.Intn(3) == 0 {
			n = r.Intn(64)
		}
		q.body = make([]byte, n)
		for k := range q.body {
			// bodies that look like requests and chunk headers
			q.body[k] = "GET / HTTP/1.1\r\n\r\n0\r\nabcdef5"[(k+i)%28]
		}
		if q.framing == 2 {
			left := n
			for left > 0 {
				c := 1 + r.Intn(left)
				if r.Intn(2) == 0 && left > 10 {
					c = 1 + r.Intn(10)
				}
				q.chunks = append(q.chunks, c)
				left -= c
			}
			if r.Intn(3) == 0 {
				q.trailers = [][2]string{{"X-T1", "tv"}}
			}
		}
		if r.Intn(6) == 0 {
			q.expect = true
		}
	}
	return q
}

// ---- running a stream through the real server and observing ----

type pipeCfg struct {
	streaming bool
	maxBody   int
	// consumption program in streaming mode: read sizes; nil = read everything
	consume []int
	// full: every step of `consume` keeps reading until it has that many bytes or the stream ends
	// (io.ReadFull style); the handler then reports one "hex<marker>" entry per step, joined by ';'
	full bool
	// noNorm: the server runs with DisableHeaderNamesNormalizing (names reach the framing code as sent)
	noNorm bool
	// opts: further server options as a bit set — 1 NoDefaultServerHeader, 2 NoDefaultContentType, 4 MaxKeepBodySize = 8
	// bytes, 16 DisablePreParseMultipartForm, 32 DisableKeepalive
	opts int
}

type pipeObs struct {
	handled []string // what each handler invocation saw
	out     []byte
	err     error
	closed  bool
	unread  int
}

func sha(b []byte) string { h := sha1.Sum(b); return fmt.Sprintf("%d:%x", len(b), h[:6]) }

func runPipe(frags [][]byte, cfg pipeCfg) pipeObs {
	var obs pipeObs
	e := newRunningEngine(func(o *config.Options) {
		o.StreamRequestBody = cfg.streaming
		if cfg.maxBody != 0 {
			o.MaxRequestBodySize = cfg.maxBody
		}
		o.NoDefaultDate = true
		o.DisableHeaderNamesNormalizing = cfg.noNorm
		o.NoDefaultServerHeader = cfg.opts&1 != 0
		o.NoDefaultContentType = cfg.opts&2 != 0
		if cfg.opts&4 != 0 {
			o.MaxKeepBodySize = 8
		}
		o.DisablePreParseMultipartForm = cfg.opts&16 != 0
		o.DisableKeepalive = cfg.opts&32 != 0
	})
	n := 0
	e.Any("/*p", func(c context.Context, ctx *app.RequestContext) {
		n++
		var body []byte
		if cfg.streaming && cfg.full {
			st := ctx.RequestBodyStream()
			var lines []string
		steps:
			for _, k := range cfg.consume {
				buf := make([]byte, k)
				got, mark := 0, ""
				for got < k {
					m, err := st.Read(buf[got:])
					got += m
					if err == io.EOF {
						mark = "<EOF>"
						break
					}
					if err != nil {
						mark = "<ERR>"
						break
					}
					if m == 0 {
						mark = "<STUCK>"
						break
					}
				}
				lines = append(lines, fmt.Sprintf("%x%s", buf[:got], mark))
				if mark == "<ERR>" || mark == "<STUCK>" {
					break steps
				}
			}
			body = []byte(strings.Join(lines, ";"))
		} else if cfg.streaming && cfg.consume != nil {
			st := ctx.RequestBodyStream()
			ended, short := false, false
			for _, k := range cfg.consume {
				if k == -1 { // drain
					for i := 0; i < 1000000 && !ended; i++ {
						buf := make([]byte, 512)
						m, err := st.Read(buf)
						body = append(body, buf[:m]...)
						if err != nil {
							ended = true
							if err == io.EOF {
								body = append(body, []byte("<EOF>")...)
							} else {
								body = append(body, []byte("<ERR>")...)
							}
						}
					}
					break
				}
				if k <= 0 {
					continue
				}
				buf := make([]byte, k)
				m, err := st.Read(buf)
				body = append(body, buf[:m]...)
				short = m < k
				if err != nil {
					ended = true
					if err == io.EOF {
						body = append(body, []byte("<EOF>")...)
					} else {
						body = append(body, []byte("<ERR>")...)
					}
					break
				}
			}
			// a reader may deliver the last bytes without the EOF: when the last read came back
			// short, ask once more so that the end of the stream is observed
			if !ended && short {
				buf := make([]byte, 1)
				m, err := st.Read(buf)
				body = append(body, buf[:m]...)
				if err == io.EOF {
					body = append(body, []byte("<EOF>")...)
				} else if err != nil {
					body = append(body, []byte("<ERR>")...)
				}
			}
		} else {
			body = ctx.Request.Body()
		}
		var hs []string
		ctx.Request.Header.VisitAll(func(k, v []byte) {
			hs = append(hs, string(k)+"="+string(v))
		})
		var ts []string
		ctx.Request.Header.Trailer().VisitAll(func(k, v []byte) { ts = append(ts, string(k)+"="+string(v)) })
		bodyRepr := sha(body)
		if cfg.consume != nil || cfg.full {
			bodyRepr = string(body)
		}
		obs.handled = append(obs.handled, fmt.Sprintf("%s %s [%s] body=%s trailers=[%s]", ctx.Request.Header.Method(), ctx.Request.Header.RequestURI(),
			strings.Join(hs, "|"), bodyRepr, strings.Join(ts, "|")))
		ctx.Response.Header.Set("X-I", fmt.Sprint(n))
		ctx.SetBodyString(fmt.Sprintf("r%d", n))
	})
	startEngine(e)
	sc := newScriptConn(frags)
	obs.out, obs.err = serveScript(e, sc)
	sc.mu.Lock()
	obs.closed = sc.closed
	sc.mu.Unlock()
	obs.unread = sc.Unread()
	return obs
}

// canonical observation for comparisons between segmentations
func (o pipeObs) String() string {
	e := "nil"
	if o.err != nil {
		e = o.err.Error()
	}
	return strings.Join(o.handled, "\n") + "\n--out--\n" + string(o.out) + "\n--err--\n" + e
}

func fragEvery(b []byte, k int) [][]byte {
	var out [][]byte
	for i := 0; i < len(b); i += k {
		j := i + k
		if j > len(b) {
			j = len(b)
		}
		out = append(out, b[i:j])
	}
	return out
}

func fragRandom(r *rand.Rand, b []byte, k int) [][]byte {
	cuts := map[int]bool{}
	for i := 0; i < k && len(b) > 1; i++ {
		cuts[1+r.Intn(len(b)-1)] = true
	}
	var out [][]byte
	prev := 0
	for i := 1; i < len(b); i++ {
		if cuts[i] {
			out = append(out, b[prev:i])
			prev = i
		}
	}
	return append(out, b[prev:])
}

// what a request must look like to its handler
func (q absReq) expectLine() (method, target, bodySha string, hdrs [][2]string, trailers []string) {
	var ts []string
	for _, t := range q.trailers {
		ts = append(ts, t[0]+"="+t[1])
	}
	return q.method, q.target, sha(q.body), q.hdrs, ts
}
