package main

import (
	"bytes"
	"errors"
	"fmt"
	"io"

	"github.com/cloudwego/hertz/pkg/common/bytebufferpool"
	errs "github.com/cloudwego/hertz/pkg/common/errors"
	"github.com/cloudwego/hertz/pkg/network"
	"github.com/cloudwego/hertz/pkg/network/standard"
	"github.com/cloudwego/hertz/pkg/protocol"
	"github.com/cloudwego/hertz/pkg/protocol/http1/ext"
)

// c14.prefetch: the hypothesis of the stream theorems (C14_fixed_stream / C11_streamed_response_body:
// `length p <= n`, p a prefix of the body) is established by ext.ReadBodyWithStreaming, which both the server
// (req.ContinueReadBodyStream) and the client (resp.ReadRespBodyStream) call with a pooled buffer of whatever
// capacity earlier messages left behind.  For every declared length, size limit, buffer capacity and
// segmentation: the prefetched bytes are a prefix of the body, never longer than it, exactly that many bytes
// have left the connection, and stream + release leave the connection at the first byte after the body.
func init() {
	register(&Unit{Name: "c14.prefetch", Props: []string{"C14"},
		// in: body length, size limit (0 = none), capacity of the destination buffer, fragment size (0 = whole), bytes the reader takes before release
		Check: func(t *T, in In) []Finding {
			n, limit, capDst, frag, take := in.N(0), in.N(1), in.N(2), in.N(3), in.N(4)
			body := c14Body(n)
			next := []byte("NEXT-MESSAGE " + string(c14Body(5000)))
			wire := append(append([]byte(nil), body...), next...)
			frags := [][]byte{wire}
			if frag > 0 {
				frags = fragEvery(wire, frag)
			}
			zr := standard.NewConnForVerif(newScriptConn(frags), 4096)
			var fs []Finding
			// a declared length above the limit (8 KiB when none is set) takes the branch of ReadBodyWithStreaming that
			// reads in buffer-sized steps: its findings are a class of their own (known finding D27)
			eff := limit
			if eff <= 0 {
				eff = 8192
			}
			prefix := ""
			if n > eff {
				prefix = "over-limit-body:"
				t.Count("over-limit")
			} else {
				t.Count("within-limit")
			}
			bad := func(class, note string) {
				fs = append(fs, Finding{Kind: "oracle", Unit: "c14.prefetch", Class: prefix + class, Impl: note})
			}
			buf := &bytebufferpool.ByteBuffer{B: make([]byte, 0, capDst)}
			var err error
			rec := &lenRecorder{Reader: zr}
			buf.B, err = ext.ReadBodyWithStreaming(rec, n, limit, buf.B)
			if err != nil && !errors.Is(err, errs.ErrBodyTooLarge) {
				bad("prefetch-error-on-a-complete-body", err.Error())
				return fs
			}
			p := buf.B
			// the number of bytes taken, against Model/Prefetch.v fed with the Len() answers the loop saw
			margs := [][]byte{[]byte(fmt.Sprint(n)), []byte(fmt.Sprint(max0(limit))), []byte(fmt.Sprint(capDst))}
			for _, a := range rec.avail {
				margs = append(margs, []byte(fmt.Sprint(a)))
			}
			if mod := t.M.Call("prefetch_script", margs...); mod != fmt.Sprint(len(p)) {
				fs = append(fs, Finding{Kind: "corr", Unit: "c14.prefetch", Class: "prefetch_script", Impl: fmt.Sprint(len(p)), Model: mod, Note: fmt.Sprint(rec.avail)})
			}
			if len(p) > n {
				bad("prefetched-more-than-the-body", fmt.Sprintf("%d bytes prefetched, body has %d (limit %d, buffer capacity %d)", len(p), n, limit, capDst))
			}
			if !bytes.HasPrefix(wire, p) {
				bad("prefetched-bytes-not-a-prefix", fmt.Sprintf("first difference %d", firstDiff(wire, p)))
			}
			st := ext.AcquireBodyStream(buf, zr, &protocol.Trailer{}, n)
			if take > n {
				take = n
			}
			got := make([]byte, take)
			m, rerr := io.ReadFull(st, got)
			if m != take || !bytes.Equal(got[:m], body[:m]) {
				bad("stream-bytes-differ-from-the-body", fmt.Sprintf("read %d of %d (%v), first difference %d", m, take, rerr, firstDiff(got[:m], body)))
			}
			if rel := ext.ReleaseBodyStream(st); rel != nil {
				bad("release-error-on-a-complete-body", rel.Error())
			}
			rest, _ := zr.Peek(len("NEXT-MESSAGE "))
			if string(rest) != "NEXT-MESSAGE " {
				bad("connection-not-at-the-first-byte-after-the-body", fmt.Sprintf("next bytes %q", rest))
			}
			return fs
		},
		Gen: func(t *T) {
			for i := 0; i < t.Scale(1200, 20000); i++ {
				n := []int{0, 1, 100, 4096, 8191, 8192, 8193, 8200, 9000, 12000, 20000, 70000}[t.R.Intn(12)]
				limit := []int{0, 0, 50, 4096, 8192, 8500, 10000, 69999, 70000, 1 << 22}[t.R.Intn(10)]
				capDst := []int{0, 0, 1024, 8192, 8193, 16384, 131072}[t.R.Intn(7)]
				frag := []int{0, 0, 1000, 4096, 5000}[t.R.Intn(5)]
				take := []int{0, 1, 100, 8192, 8193, 9000, 1 << 20}[t.R.Intn(7)]
				t.Do(In{Nn(n), Nn(limit), Nn(capDst), Nn(frag), Nn(take)}, true)
			}
		}})
}

// lenRecorder notes, at every Skip, what the preceding Len() call answered: the `avail` sequence of
// readBodyIdentity's loop
type lenRecorder struct {
	network.Reader
	last  int
	avail []int
}

func (r *lenRecorder) Len() int { r.last = r.Reader.Len(); return r.last }
func (r *lenRecorder) Skip(n int) error {
	r.avail = append(r.avail, r.last)
	return r.Reader.Skip(n)
}

func max0(n int) int {
	if n < 0 {
		return 0
	}
	return n
}
