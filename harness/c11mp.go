package main

import (
	"bufio"
	"bytes"
	"context"
	"fmt"
	"io"
	"math/rand"
	"net/http"
	"os"
	"path/filepath"
	"sort"
	"strings"

	"github.com/cloudwego/hertz/pkg/app"
	"github.com/cloudwego/hertz/pkg/app/client"
	"github.com/cloudwego/hertz/pkg/common/config"
	"github.com/cloudwego/hertz/pkg/protocol"
)

// c11.multipart: requests whose body is given through the multipart API (form fields, files from disk, files and
// fields from arbitrary io.Readers — also readers that hand out fewer bytes than asked although more follows).
// What was declared must be what net/http's multipart reader decodes from the bytes sent AND what the hertz
// server's MultipartForm() decodes.

// pieceReader hands out at most k bytes per Read (an io.Reader may do so without being at EOF)
type pieceReader struct {
	b []byte
	k int
}

func (p *pieceReader) Read(q []byte) (int, error) {
	if len(p.b) == 0 {
		return 0, io.EOF
	}
	n := p.k
	if n > len(q) {
		n = len(q)
	}
	if n > len(p.b) {
		n = len(p.b)
	}
	copy(q, p.b[:n])
	p.b = p.b[n:]
	return n, nil
}

type c11part struct {
	kind    string // field | file-reader | file-disk | field-reader
	param   string
	name    string // file name
	content []byte
	piece   int
}

var c11mpDir string

func c11mpTemp() string {
	if c11mpDir == "" {
		d, err := os.MkdirTemp("", "verif-c11mp-")
		if err != nil {
			panic(err)
		}
		c11mpDir = d
		atExit(func() { os.RemoveAll(d) })
	}
	return c11mpDir
}

func c11mpDescribe(ps []c11part) string {
	var l []string
	for _, p := range ps {
		if p.kind == "field" || (p.kind == "field-reader" && p.name == "") {
			l = append(l, "v:"+p.param+"="+sha(p.content))
		} else {
			l = append(l, "f:"+p.param+"="+filepath.Base(p.name)+":"+sha(p.content))
		}
	}
	sort.Strings(l)
	return strings.Join(l, " ")
}

func init() {
	register(&Unit{Name: "c11.multipart", Props: []string{"C11"},
		// in: seed
		Check: func(t *T, in In) []Finding {
			r := rand.New(rand.NewSource(int64(in.N(0))))
			sizes := []int{0, 1, 5, 100, 511, 512, 513, 1600, 4096, 9000}
			pieces := []int{1, 7, 100, 511, 512, 4096, 1 << 20}
			var parts []c11part
			for i, n := 0, 1+r.Intn(4); i < n; i++ {
				p := c11part{param: fmt.Sprintf("p%d", i), content: c04Body(sizes[r.Intn(len(sizes))], r.Intn(7)), piece: pieces[r.Intn(len(pieces))]}
				p.kind = []string{"field", "file-reader", "file-reader", "file-disk", "field-reader"}[r.Intn(5)]
				switch p.kind {
				case "field":
					p.content = []byte(fmt.Sprintf("value %d &=%%", r.Intn(1000)))
				case "file-reader":
					p.name = fmt.Sprintf("up%d.bin", i)
				case "file-disk":
					p.name = filepath.Join(c11mpTemp(), fmt.Sprintf("disk%d-%d.bin", i, len(p.content)))
					if err := os.WriteFile(p.name, p.content, 0o600); err != nil {
						panic(err)
					}
				case "field-reader":
					if r.Intn(2) == 0 {
						p.name = fmt.Sprintf("fr%d.dat", i)
					}
				}
				parts = append(parts, p)
			}
			d := &peerDialer{next: func(i int) (*scriptConn, error) {
				return newScriptConn([][]byte{[]byte("HTTP/1.1 200 OK\r\nContent-Length: 0\r\n\r\n")}), nil
			}}
			c, _ := client.NewClient(client.WithDialer(d))
			req, resp := protocol.AcquireRequest(), protocol.AcquireResponse()
			defer protocol.ReleaseRequest(req)
			defer protocol.ReleaseResponse(resp)
			req.SetMethod("POST")
			req.SetRequestURI("http://srv.example/up")
			for _, p := range parts {
				switch p.kind {
				case "field":
					req.SetMultipartFormData(map[string]string{p.param: string(p.content)})
				case "file-reader":
					req.SetFileReader(p.param, p.name, &pieceReader{b: append([]byte(nil), p.content...), k: p.piece})
				case "file-disk":
					req.SetFile(p.param, p.name)
				case "field-reader":
					req.SetMultipartField(p.param, p.name, "application/octet-stream", &pieceReader{b: append([]byte(nil), p.content...), k: p.piece})
				}
			}
			err := c.Do(context.Background(), req, resp)
			var sent []byte
			if len(d.conns) > 0 {
				sent = d.conns[0].Output()
			}
			want := c11mpDescribe(parts)
			var fs []Finding
			bad := func(class, got string) {
				fs = append(fs, Finding{Kind: "oracle", Unit: "c11.multipart", Class: class, Impl: got, Expect: want, Note: fmt.Sprintf("%d bytes sent", len(sent))})
			}
			if err != nil {
				bad("exchange-failed", err.Error())
				return fs
			}
			for _, p := range parts {
				t.Count("part/" + p.kind)
			}
			// independent decoder
			hr, herr := http.ReadRequest(bufio.NewReader(bytes.NewReader(sent)))
			if herr != nil {
				bad("net/http-rejects-the-request", herr.Error())
				return fs
			}
			if perr := hr.ParseMultipartForm(1 << 24); perr != nil {
				bad("net/http-rejects-the-multipart-body", perr.Error())
				return fs
			}
			var l []string
			for k, vs := range hr.MultipartForm.Value {
				for _, v := range vs {
					l = append(l, "v:"+k+"="+sha([]byte(v)))
				}
			}
			for k, fhs := range hr.MultipartForm.File {
				for _, fh := range fhs {
					f, _ := fh.Open()
					b, _ := io.ReadAll(f)
					f.Close()
					l = append(l, "f:"+k+"="+fh.Filename+":"+sha(b))
				}
			}
			sort.Strings(l)
			if got := strings.Join(l, " "); got != want {
				bad("net/http-decodes-other-parts-than-declared", got)
			}
			// the hertz server
			var got string
			handled := 0
			e := newRunningEngine(func(o *config.Options) { o.NoDefaultDate = true; o.MaxRequestBodySize = 1 << 24 })
			e.POST("/up", func(_ context.Context, ctx *app.RequestContext) {
				handled++
				form, err := ctx.MultipartForm()
				if err != nil {
					got = "ERR " + err.Error()
					return
				}
				var l []string
				for k, vs := range form.Value {
					for _, v := range vs {
						l = append(l, "v:"+k+"="+sha([]byte(v)))
					}
				}
				for k, fhs := range form.File {
					for _, fh := range fhs {
						f, _ := fh.Open()
						b, _ := io.ReadAll(f)
						f.Close()
						l = append(l, "f:"+k+"="+fh.Filename+":"+sha(b))
					}
				}
				sort.Strings(l)
				got = strings.Join(l, " ")
			})
			startEngine(e)
			if _, serr := serveScript(e, newScriptConn([][]byte{sent})); serr != nil && (strings.HasPrefix(serr.Error(), "PANIC") || strings.HasPrefix(serr.Error(), "harness:")) {
				got += " (serve: " + serr.Error() + ")"
			}
			if handled != 1 {
				bad("hertz-server-does-not-read-one-request", fmt.Sprintf("%d handler calls; %s", handled, got))
			} else if got != want {
				bad("hertz-server-decodes-other-parts-than-declared", got)
			}
			return fs
		},
		Gen: func(t *T) {
			for i := 0; i < t.Scale(400, 8000); i++ {
				t.Do(In{Nn(t.R.Intn(1 << 30))}, true)
			}
		}})
}
