package main

import (
	"bytes"
	"fmt"
	"strings"

	"github.com/cloudwego/hertz/pkg/network/standard"
	"github.com/cloudwego/hertz/pkg/protocol/http1/ext"
	"github.com/cloudwego/hertz/pkg/verifexport"
)

func init() {
	register(&Unit{Name: "c01.units", Props: []string{"C01", "C02", "C04", "C11", "C14"},
		Check: func(t *T, in In) []Finding {
			var fs []Finding
			diff := func(class, impl, mod string) {
				if impl != mod {
					fs = append(fs, Finding{Kind: "corr", Unit: "c01.units", Class: class, Impl: truncate(impl, 300), Model: truncate(mod, 300)})
				}
			}
			s := in.B(1)
			switch in.S(0) {
			case "block":
				_, n, err := ext.ReadRawHeaders(nil, s)
				impl := "MORE"
				if err == nil {
					impl = fmt.Sprint(n)
				}
				diff("header_block_len", impl, t.M.Call("header_block_len", s))
				if ext.HeadersComplete(s) != (err == nil) {
					fs = append(fs, Finding{Kind: "oracle", Unit: "c01.units", Class: "HeadersComplete-disagrees-with-ReadRawHeaders", Impl: fmt.Sprint(ext.HeadersComplete(s))})
				}
			case "dechunk":
				maxb := in.N(2)
				sc := newScriptConn([][]byte{s})
				conn := standard.NewConnForVerif(sc, 4096)
				body, err := ext.ReadBody(conn, -1, maxb, nil)
				impl := ""
				switch {
				case err == nil:
					rest, _ := conn.Peek(conn.Len())
					left := append(append([]byte(nil), rest...), bytes.Join(sc.frags, nil)...)
					impl = fmt.Sprintf("OK %x %x", body, left)
				case strings.Contains(err.Error(), "body size exceeds"):
					impl = "TOOLARGE"
				default:
					impl = "ERR"
				}
				diff("dechunk", impl, t.M.CallN("dechunk", s, maxb))
			case "hex":
				sc := newScriptConn([][]byte{s})
				conn := standard.NewConnForVerif(sc, 4096)
				n, err := verifexport.ReadHexInt(conn)
				impl := "ERR"
				if err == nil {
					rest, _ := conn.Peek(conn.Len())
					// at the end of the stream ReadHexInt also Skip(1)s on nothing: nothing is left
					impl = fmt.Sprintf("%d %x", n, rest)
				}
				diff("read_hex_int", impl, t.M.Call("read_hex_int", s))
			case "whex":
				n := in.N(2)
				sc := &srcConn{}
				conn := standard.NewConnForVerif(sc, 4096)
				verifexport.WriteHexInt(conn, n)
				conn.Flush()
				diff("write_hex", sc.out.String(), t.M.CallN("write_hex", n))
				// oracle: reads back
				rc := standard.NewConnForVerif(newScriptConn([][]byte{append(sc.out.Bytes(), '\r')}), 4096)
				if v, err := verifexport.ReadHexInt(rc); err != nil || v != n {
					fs = append(fs, Finding{Kind: "oracle", Unit: "c01.units", Class: "chunk-size-does-not-read-back", Impl: fmt.Sprint(v, err), Expect: fmt.Sprint(n)})
				}
			}
			return fs
		},
		Gen: func(t *T) {
			ba := toks("A: b", "\r\n", "\n", "\r", " c", ":", "x")
			enumStrings(ba, t.Scale(5, 6), func(s []byte) { t.Do(In{S("block"), H(s)}, bytes.Contains(s, []byte("\n"))) })
			ca := toks("3", "a", "F", "0", "\r\n", "\n", " ", "abc", "\r", "ffffffffffffffff", "fffffffffffffff", ";", "x")
			enumStrings(ca, t.Scale(4, 5), func(s []byte) {
				t.Do(In{S("dechunk"), H(s), Nn(1 << 16)}, len(s) > 0) // never "no limit": hertz would allocate a hostile chunk size for real
				t.Do(In{S("hex"), H(s)}, len(s) > 0)
			})
			for i := 0; i < t.Scale(3000, 60000); i++ {
				// mostly valid chunked bodies, mutated
				var b bytes.Buffer
				for j, n := 0, t.R.Intn(4); j < n; j++ {
					k := 1 + t.R.Intn(40)
					fmt.Fprintf(&b, "%x\r\n%s\r\n", k, bytes.Repeat([]byte{byte('a' + j)}, k))
				}
				b.WriteString("0\r\n")
				b.WriteString([]string{"\r\n", "X: y\r\n\r\n", ""}[t.R.Intn(3)])
				s := b.Bytes()
				if t.R.Intn(2) == 0 {
					s = c03Mutate(t, s, ca)
				}
				t.Do(In{S("dechunk"), H(s), Nn([]int{1 << 16, 1 << 16, 10, 50}[t.R.Intn(4)])}, true)
			}
			for _, n := range []int{0, 1, 9, 10, 15, 16, 255, 256, 4095, 4096, 65535, 1 << 20, 1<<31 - 1, 1 << 40, 1<<59 - 1, 1<<60 - 1} {
				t.Do(In{S("whex"), H(nil), Nn(n)}, true)
			}
			for i := 0; i < t.Scale(500, 10000); i++ {
				t.Do(In{S("whex"), H(nil), Nn(t.R.Intn(1 << 30))}, true)
			}
		}})
}
