package main

import (
	"bufio"
	"context"
	"crypto/tls"
	"errors"
	"fmt"
	"io"
	"math/rand"
	"net"
	"net/http"
	"runtime"
	"strings"
	"sync"
	"sync/atomic"
	"time"

	"github.com/cloudwego/hertz/pkg/network"
	"github.com/cloudwego/hertz/pkg/network/standard"
	"github.com/cloudwego/hertz/pkg/protocol"
	"github.com/cloudwego/hertz/pkg/protocol/http1"
)

// pipePeer: a scripted server over net.Pipe for the real HostClient.  Every exchange draws its
// fault from `faults` (by arrival order).
type pipePeer struct {
	mu       sync.Mutex
	faults   []string
	next     int
	dials    int
	open     int32
	maxOpen  int32
	seen     map[string]int // request id -> times a request with that id arrived
	method   map[string]string
	viol     []string
	conns    []net.Conn
	done     sync.WaitGroup
	hc       *http1.HostClient
	maxConns int
	live     int32 // dialed and not yet closed by the client
	maxLive  int32
	delay    int // per-exchange random delay (microseconds, upper bound)
	rnd      *rand.Rand
	slowDial time.Duration // a failing dial takes this long to fail (a waiter it was made for may have given up by then)
}

// liveConn tells the peer when the client closes its end.
type liveConn struct {
	net.Conn
	p    *pipePeer
	once sync.Once
}

func (l *liveConn) Close() error {
	l.once.Do(func() { atomic.AddInt32(&l.p.live, -1) })
	return l.Conn.Close()
}

func (p *pipePeer) fault() string {
	p.mu.Lock()
	defer p.mu.Unlock()
	f := "ok"
	if p.next < len(p.faults) {
		f = p.faults[p.next]
	}
	p.next++
	return f
}

func (p *pipePeer) violation(s string) {
	p.mu.Lock()
	p.viol = append(p.viol, s)
	p.mu.Unlock()
}

func (p *pipePeer) DialConnection(nw, address string, timeout time.Duration, tlsConfig *tls.Config) (network.Conn, error) {
	p.mu.Lock()
	p.dials++
	// a dial fault is drawn only when the next scripted fault is a dial error
	if p.next < len(p.faults) && p.faults[p.next] == "dialerr" {
		p.next++
		p.mu.Unlock()
		if p.slowDial > 0 {
			time.Sleep(p.slowDial)
		}
		return nil, errors.New("scripted dial error")
	}
	p.mu.Unlock()
	// the connection being dialled is already counted: the count must be within the limit now
	if st := p.hc.ConnPoolState(); st.TotalConnNum > p.maxConns {
		p.violation(fmt.Sprintf("counted=%d at dial time, MaxConns=%d", st.TotalConnNum, p.maxConns))
	}
	c1, c2 := net.Pipe()
	atomic.AddInt32(&p.open, 1)
	n := atomic.AddInt32(&p.live, 1)
	for {
		m := atomic.LoadInt32(&p.maxLive)
		if n <= m || atomic.CompareAndSwapInt32(&p.maxLive, m, n) {
			break
		}
	}
	p.mu.Lock()
	p.conns = append(p.conns, c2)
	p.mu.Unlock()
	p.done.Add(1)
	go p.serve(c2)
	return standard.NewConnForVerif(&liveConn{Conn: c1, p: p}, 4096), nil
}
func (p *pipePeer) DialTimeout(nw, address string, timeout time.Duration, tlsConfig *tls.Config) (net.Conn, error) {
	return nil, errors.New("unsupported")
}
func (p *pipePeer) AddTLS(conn network.Conn, tlsConfig *tls.Config) (network.Conn, error) {
	return nil, errors.New("unsupported")
}

func (p *pipePeer) serve(c net.Conn) {
	defer p.done.Done()
	defer atomic.AddInt32(&p.open, -1)
	defer c.Close()
	br := bufio.NewReader(c)
	dirty := "" // set once this connection must not carry another request
	for {
		req, err := http.ReadRequest(br)
		if err != nil {
			return // client closed (or garbage: interleaved writes show up as response mismatches)
		}
		io.Copy(io.Discard, req.Body)
		id := req.Header.Get("X-Id")
		p.mu.Lock()
		p.seen[id]++
		p.method[id] = req.Method
		p.mu.Unlock()
		if dirty != "" {
			p.violation("connection reused after " + dirty)
		}
		if req.Close {
			// a tolerant peer: it answers without Connection: close and keeps the connection open
			dirty = "a request that carried Connection: close"
		}
		f := p.fault()
		if f == "dialerr" {
			f = "ok"
		}
		body := "resp-" + id
		wireBody := body
		if req.Method == "HEAD" { // the header block of the GET response, no body bytes
			wireBody = ""
		}
		if p.delay > 0 {
			p.mu.Lock()
			d := p.rnd.Intn(p.delay)
			p.mu.Unlock()
			time.Sleep(time.Duration(d) * time.Microsecond)
		}
		switch f {
		case "ok":
			fmt.Fprintf(c, "HTTP/1.1 200 OK\r\nX-Id: %s\r\nContent-Length: %d\r\n\r\n%s", id, len(body), wireBody)
		case "okclose":
			fmt.Fprintf(c, "HTTP/1.1 200 OK\r\nX-Id: %s\r\nConnection: close\r\nContent-Length: %d\r\n\r\n%s", id, len(body), wireBody)
			dirty = "a response with Connection: close"
			// keep the connection open for a while to see whether the client sends more on it
			c.SetReadDeadline(time.Now().Add(300 * time.Millisecond))
		case "silentclose": // answer, then close while the connection is idle in the pool
			fmt.Fprintf(c, "HTTP/1.1 200 OK\r\nX-Id: %s\r\nContent-Length: %d\r\n\r\n%s", id, len(body), wireBody)
			return
		case "closebeforefirst":
			return
		case "closemidheader":
			fmt.Fprintf(c, "HTTP/1.1 200 OK\r\nX-Id: %s\r\nContent-Le", id)
			return
		case "closemidbody":
			fmt.Fprintf(c, "HTTP/1.1 200 OK\r\nX-Id: %s\r\nContent-Length: %d\r\n\r\n%s", id, len(body)+10, body)
			return
		case "stall":
			dirty = "a timed-out exchange"
			c.SetReadDeadline(time.Now().Add(700 * time.Millisecond))
			// say nothing; wait until the client gives up and closes (or sends more: a violation)
		}
	}
}

var c10mu sync.Mutex

type c10result struct {
	id, method string
	err        error
	gotID      string
	dur        time.Duration
	timeout    time.Duration
}

func init() {
	register(&Unit{Name: "c10.pool", Props: []string{"C10"},
		// in: seed, goroutines, requests each, MaxConns, wait (0/1), faults "ok,stall,..."
		Check: func(t *T, in In) []Finding {
			r := rand.New(rand.NewSource(int64(in.N(0))))
			G, M, maxConns, wait := in.N(1), in.N(2), in.N(3), in.N(4) == 1
			peer := &pipePeer{faults: strings.Split(in.S(5), ","), seen: map[string]int{}, method: map[string]string{}}
			opt := &http1.ClientOptions{Dialer: peer, MaxConns: maxConns, ReadTimeout: 150 * time.Millisecond, MaxIdleConnDuration: time.Hour}
			if wait {
				opt.MaxConnWaitTimeout = 400 * time.Millisecond
			}
			if in.N(0)%4 == 0 {
				opt.MaxConnDuration = 2 * time.Millisecond
			}
			opt.ResponseBodyStream = in.N(0)%5 == 1 // the caller reads the body from the connection and gives it back afterwards
			hc := http1.NewHostClient(opt).(*http1.HostClient)
			hc.Addr = "peer.example:80"
			peer.hc, peer.maxConns, peer.delay, peer.rnd = hc, maxConns, in.N(0)%3*400, rand.New(rand.NewSource(int64(in.N(0))+7))
			// seeded scheduler perturbation at the pool's lock boundaries (hook H2)
			ymode := 0
			if len(in) > 6 {
				ymode = in.N(6)
			}
			if len(in) > 7 {
				peer.slowDial = time.Duration(in.N(7)) * time.Millisecond
			}
			var ymu sync.Mutex
			yr := rand.New(rand.NewSource(int64(in.N(0)) + 13))
			sites := []string{"acquire.unlocked", "close.uncounted", "dec.enter", "release.enter", "dialfor.dialed", "cancel.enter"}
			c10mu.Lock() // VerifYield is a package global: one history at a time
			defer c10mu.Unlock()
			http1.VerifYield = nil
			if ymode == 1 {
				http1.VerifYield = func(string) {
					ymu.Lock()
					k := yr.Intn(8)
					ymu.Unlock()
					switch {
					case k < 3:
						runtime.Gosched()
					case k == 3:
						time.Sleep(time.Duration(50+k*37) * time.Microsecond)
					}
				}
			} else if ymode >= 2 {
				slow := sites[(ymode-2)%len(sites)]
				http1.VerifYield = func(site string) {
					if site == slow {
						ymu.Lock()
						k := yr.Intn(3)
						ymu.Unlock()
						if k > 0 {
							time.Sleep(time.Duration(k) * time.Millisecond)
						}
					}
				}
			}
			defer func() { http1.VerifYield = nil }()
			// continuous sampling of the counted connections
			stopSampler := make(chan struct{})
			var maxCounted int32
			go func() {
				for {
					select {
					case <-stopSampler:
						return
					default:
					}
					if n := int32(hc.ConnPoolState().TotalConnNum); n > atomic.LoadInt32(&maxCounted) {
						atomic.StoreInt32(&maxCounted, n)
					}
					time.Sleep(50 * time.Microsecond)
				}
			}()
			defer close(stopSampler)
			var results []c10result
			var rmu sync.Mutex
			var wg sync.WaitGroup
			type plan struct {
				method  string
				cancel  int // 0 none, 1 cancelled before the call, 2 cancelled while the call runs
				timeout time.Duration
			}
			plans := make([][]plan, G)
			for g := 0; g < G; g++ {
				for m := 0; m < M; m++ {
					pl := plan{method: []string{"GET", "GET", "POST", "HEAD"}[r.Intn(4)]}
					if k := r.Intn(10); k <= 1 {
						pl.cancel = 1 + k
					}
					if r.Intn(4) == 0 {
						pl.timeout = 120 * time.Millisecond
					}
					plans[g] = append(plans[g], pl)
				}
			}
			for g := 0; g < G; g++ {
				wg.Add(1)
				go func(g int) {
					defer wg.Done()
					for m, pl := range plans[g] {
						id := fmt.Sprintf("g%dm%d", g, m)
						req, resp := protocol.AcquireRequest(), protocol.AcquireResponse()
						req.SetMethod(pl.method)
						req.SetRequestURI("http://peer.example/x")
						req.Header.Set("X-Id", id)
						if pl.method == "POST" {
							req.SetBodyString("b-" + id)
						}
						ctx := context.Background()
						if pl.cancel == 1 {
							c2, cancel := context.WithCancel(ctx)
							cancel()
							ctx = c2
						}
						if pl.cancel == 2 {
							c2, cancel := context.WithCancel(ctx)
							time.AfterFunc(time.Duration(len(id)%3)*time.Millisecond, cancel)
							ctx = c2
						}
						t0 := time.Now()
						var err error
						if pl.timeout > 0 {
							err = hc.DoTimeout(ctx, req, resp, pl.timeout)
						} else {
							err = hc.Do(ctx, req, resp)
						}
						res := c10result{id: id, method: pl.method, err: err, dur: time.Since(t0), timeout: pl.timeout}
						if err == nil {
							res.gotID = string(resp.Header.Peek("X-Id"))
							if b := string(resp.Body()); b != "resp-"+res.gotID && !(pl.method == "HEAD" && b == "") {
								res.gotID += "(body " + b + ")"
							}
						}
						rmu.Lock()
						results = append(results, res)
						rmu.Unlock()
						protocol.ReleaseRequest(req)
						protocol.ReleaseResponse(resp)
					}
				}(g)
			}
			finished := make(chan struct{})
			go func() { wg.Wait(); close(finished) }()
			var fs []Finding
			bad := func(class, note string) {
				fs = append(fs, Finding{Kind: "oracle", Unit: "c10.pool", Class: class, Impl: note})
			}
			select {
			case <-finished:
			case <-time.After(20 * time.Second):
				bad("calls-did-not-return", "some Do call is still blocked after 20s")
				return fs
			}
			// quiescence: give dialer goroutines and the peer a moment
			var st struct{ total, pool, want, pending int }
			for i := 0; i < 500; i++ {
				s := hc.ConnPoolState()
				st.total, st.pool, st.want, st.pending = s.TotalConnNum, s.PoolConnNum, hc.WantConnectionCount(), hc.PendingRequests()
				if st.total == st.pool && st.want == 0 && st.pending == 0 && int(atomic.LoadInt32(&peer.live)) == st.pool {
					break
				}
				time.Sleep(10 * time.Millisecond)
			}
			if st.pending != 0 {
				bad("pending-requests-gauge-not-zero-at-quiescence", fmt.Sprintf("PendingRequests=%d", st.pending))
			}
			if st.want != 0 {
				bad("waiters-left-at-quiescence", fmt.Sprintf("WantConnectionCount=%d", st.want))
			}
			if st.total != st.pool {
				bad("connections-neither-idle-nor-closed-at-quiescence", fmt.Sprintf("TotalConnNum=%d PoolConnNum=%d", st.total, st.pool))
			}
			if mc := int(atomic.LoadInt32(&maxCounted)); mc > maxConns {
				bad("more-connections-counted-than-MaxConns", fmt.Sprintf("counted %d, MaxConns=%d", mc, maxConns))
			}
			// a caller may have uncounted a connection it has not closed yet: one per goroutine at most
			if ml := int(atomic.LoadInt32(&peer.maxLive)); ml > maxConns+G {
				bad("more-live-connections-than-MaxConns", fmt.Sprintf("%d live at once, MaxConns=%d, callers=%d", ml, maxConns, G))
			}
			if lv := int(atomic.LoadInt32(&peer.live)); lv != st.pool {
				bad("live-connections-differ-from-idle-pool-at-quiescence", fmt.Sprintf("live=%d PoolConnNum=%d", lv, st.pool))
			}
			for _, res := range results {
				switch {
				case res.err == nil:
					t.Count("result/ok")
				case strings.Contains(res.err.Error(), "no free connections"):
					t.Count("result/no-free-conns")
				case strings.Contains(res.err.Error(), "timeout"):
					t.Count("result/timeout")
				case strings.Contains(res.err.Error(), "context canceled"):
					t.Count("result/ctx-cancelled")
				default:
					t.Count("result/other-error")
				}
				if res.err == nil && res.gotID != res.id {
					bad("response-of-another-request", fmt.Sprintf("caller %s got %s", res.id, res.gotID))
				}
				limit := res.timeout
				if limit == 0 {
					limit = 150*time.Millisecond + 400*time.Millisecond // read timeout + wait for a connection
				}
				if res.dur > limit+1500*time.Millisecond {
					bad("call-returned-long-after-its-timeout", fmt.Sprintf("%s took %v, limit %v", res.id, res.dur, limit))
				}
			}
			peer.mu.Lock()
			for id, n := range peer.seen {
				if peer.method[id] == "POST" && n > 1 {
					bad("non-idempotent-request-sent-twice", fmt.Sprintf("%s arrived %d times", id, n))
				}
			}
			for _, v := range peer.viol {
				bad("dirty-connection-reused", v)
			}
			peer.mu.Unlock()
			hc.CloseIdleConnections()
			return fs
		},
		Gen: func(t *T) {
			kinds := []string{"ok", "ok", "ok", "okclose", "silentclose", "closebeforefirst", "closemidheader", "closemidbody", "stall", "dialerr"}
			// single-goroutine histories: every fault followed by ok requests
			for _, f := range kinds[2:] {
				for _, mc := range []int{1, 2} {
					t.Do(In{Nn(1), Nn(1), Nn(4), Nn(mc), Nn(0), S(f + ",ok,ok," + f)}, true)
					t.Do(In{Nn(2), Nn(1), Nn(4), Nn(mc), Nn(1), S("ok," + f + ",ok")}, true)
				}
			}
			// directed schedules: a 1-2 ms sleep at one chosen lock boundary of the pool (hook H2)
			// while the pool is saturated, on all-ok traffic and on traffic with closes
			for ym := 2; ym <= 7; ym++ {
				for _, mc := range []int{1, 2} {
					t.Do(In{Nn(ym), Nn(3), Nn(12), Nn(mc), Nn(1), S("ok"), Nn(ym)}, true)
					t.Do(In{Nn(ym + 10), Nn(3), Nn(8), Nn(mc), Nn(1), S("ok,okclose,ok,ok,closebeforefirst,ok,dialerr,ok,silentclose,ok,ok,closemidbody"), Nn(ym)}, true)
				}
			}
			// directed: a dial made for a queued caller fails only after that caller's wait has timed out (400 ms)
			for sd := 1; sd <= 3; sd++ {
				for _, first := range []string{"closemidbody", "closebeforefirst", "okclose", "silentclose"} {
					t.Do(In{Nn(sd), Nn(2), Nn(1), Nn(1), Nn(1), S(first + ",dialerr,ok,ok"), Nn(0), Nn(470)}, true)
					t.Do(In{Nn(sd + 4), Nn(3), Nn(2), Nn(1), Nn(1), S("ok," + first + ",dialerr,ok,dialerr"), Nn(0), Nn(470)}, true)
				}
			}
			for i := 0; i < t.Scale(120, 3000); i++ {
				var fl []string
				for j, n := 0, 4+t.R.Intn(12); j < n; j++ {
					fl = append(fl, kinds[t.R.Intn(len(kinds))])
				}
				t.Do(In{Nn(t.R.Intn(1 << 30)), Nn(1 + t.R.Intn(4)), Nn(1 + t.R.Intn(5)), Nn(1 + t.R.Intn(4)), Nn(t.R.Intn(2)), S(strings.Join(fl, ",")), Nn(t.R.Intn(8))}, true)
			}
		}})
}
