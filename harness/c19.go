package main

import (
	"context"
	"fmt"
	"io"
	"strings"
	"time"

	"github.com/cloudwego/hertz/pkg/app"
	"github.com/cloudwego/hertz/pkg/app/middlewares/server/recovery"
	"github.com/cloudwego/hertz/pkg/common/config"
	"github.com/cloudwego/hertz/pkg/common/tracer/stats"
	"github.com/cloudwego/hertz/pkg/network"
)

// recTracer records every Start/Finish call with the data the finish carries.
type recTracer struct{ log *[]string }

var c19Stages = []stats.Event{stats.HTTPStart, stats.ReadHeaderStart, stats.ReadHeaderFinish, stats.ReadBodyStart,
	stats.ReadBodyFinish, stats.ServerHandleStart, stats.ServerHandleFinish, stats.WriteStart, stats.WriteFinish, stats.HTTPFinish}
var c19StageNames = []string{"hs", "rhs", "rhf", "rbs", "rbf", "shs", "shf", "ws", "wf", "hf"}

func (r recTracer) Start(ctx context.Context, c *app.RequestContext) context.Context {
	*r.log = append(*r.log, "S")
	return ctx
}

func (r recTracer) Finish(ctx context.Context, c *app.RequestContext) {
	st := c.GetTraceInfo().Stats()
	var present []string
	var times []time.Time
	for i, e := range c19Stages {
		if ev := st.GetEvent(e); ev != nil && !ev.IsNil() {
			present = append(present, c19StageNames[i])
			times = append(times, ev.Time())
		}
	}
	ordered := "ord"
	for i := 1; i < len(times); i++ {
		if times[i].Before(times[i-1]) {
			ordered = "DISORDER"
		}
	}
	errs := "-"
	if st.Error() != nil {
		errs = "err"
	}
	*r.log = append(*r.log, fmt.Sprintf("F:%s:%s:%s:%s", c.Request.URI().Path(), strings.Join(present, ","), ordered, errs))
}

// one request per history element
//   k = ok keep-alive      c = ok with Connection: close     p = handler panics (recovery middleware)
//   m = malformed header   b = body larger than the limit    t = peer closes mid-body
//   w = write error        h = hijack        x = ok keep-alive, the handler exiles its context
// end of connection: E = peer closes (EOF), T = idle read times out
func c19Request(i int, o byte) []byte {
	path := fmt.Sprintf("/r%d", i)
	switch o {
	case 'k':
		return []byte("GET " + path + " HTTP/1.1\r\nHost: a\r\n\r\n")
	case 'c':
		return []byte("GET " + path + " HTTP/1.1\r\nHost: a\r\nConnection: close\r\n\r\n")
	case 'p':
		return []byte("GET " + path + "?panic=1 HTTP/1.1\r\nHost: a\r\n\r\n")
	case 'm':
		return []byte("GET " + path + " HTTP/1.1\r\nHost a\r\n\r\n")
	case 'b':
		return []byte("POST " + path + " HTTP/1.1\r\nHost: a\r\nContent-Length: 100\r\n\r\n" + strings.Repeat("x", 100))
	case 't':
		return []byte("POST " + path + " HTTP/1.1\r\nHost: a\r\nContent-Length: 50\r\n\r\nabc")
	case 'w':
		return []byte("GET " + path + "?big=1 HTTP/1.1\r\nHost: a\r\n\r\n")
	case 'h':
		return []byte("GET " + path + "?hijack=1 HTTP/1.1\r\nHost: a\r\n\r\n")
	case 'x':
		return []byte("GET " + path + "?exile=1 HTTP/1.1\r\nHost: a\r\n\r\n")
	}
	return nil
}

func c19Run(hist string, level stats.Level, frag int) (log []string, out []byte, err error) {
	var stream []byte
	end := byte('E')
	n := 0
	for i := 0; i < len(hist); i++ {
		o := hist[i]
		if o == 'E' || o == 'T' {
			end = o
			continue
		}
		n++
		stream = append(stream, c19Request(n, o)...)
	}
	var frags [][]byte
	if frag <= 0 {
		frags = [][]byte{stream}
	} else {
		for i := 0; i < len(stream); i += frag {
			j := i + frag
			if j > len(stream) {
				j = len(stream)
			}
			frags = append(frags, stream[i:j])
		}
	}
	sc := newScriptConn(frags)
	if end == 'T' {
		sc.endErr = timeoutErr{}
	} else {
		sc.endErr = io.EOF
	}
	e := newRunningEngine(func(o *config.Options) {
		o.Tracers = append(o.Tracers, recTracer{&log})
		o.TraceLevel = level
		o.MaxRequestBodySize = 64
	})
	e.Use(recovery.Recovery())
	e.Any("/*p", func(c context.Context, ctx *app.RequestContext) {
		log = append(log, "H:"+string(ctx.Request.URI().Path()))
		if ctx.Query("panic") != "" {
			panic("boom")
		}
		if ctx.Query("big") != "" {
			sc.mu.Lock()
			sc.writeErrAfter = sc.out.Len() // every further write fails
			sc.mu.Unlock()
		}
		if ctx.Query("hijack") != "" {
			ctx.Hijack(func(c network.Conn) {})
		}
		if ctx.Query("exile") != "" {
			ctx.Exile() // the server goes on with another context; the tracer calls of this request are unaffected
		}
		ctx.SetStatusCode(200)
	})
	startEngine(e)
	out, err = serveScript(e, sc)
	return log, out, err
}

// c19Oracle checks the property on the recorded call log.
func c19Oracle(log []string, level stats.Level) string {
	open := false
	handledInPair := ""
	for _, l := range log {
		switch {
		case l == "S":
			if open {
				return "start-while-open"
			}
			open = true
			handledInPair = ""
		case strings.HasPrefix(l, "H:"):
			if !open {
				return "handled-outside-pair"
			}
			if handledInPair != "" {
				return "two-requests-in-one-pair"
			}
			handledInPair = l[2:]
		case strings.HasPrefix(l, "F:"):
			if !open {
				return "finish-without-start"
			}
			open = false
			f := strings.Split(l, ":")
			if handledInPair != "" && f[1] != handledInPair {
				return "finish-carries-other-request"
			}
			if f[3] != "ord" {
				return "stage-times-out-of-order"
			}
			if level == stats.LevelDetailed {
				if why := c19Stages_ok(f[2]); why != "" {
					return why
				}
			} else if f[2] != "hs,hf" {
				return "base-level-stages:" + f[2]
			}
		}
	}
	if open {
		return "start-without-finish"
	}
	return ""
}

// every started stage is finished, stages appear in pipeline order, and hs/hf bracket them
func c19Stages_ok(present string) string {
	ps := strings.Split(present, ",")
	has := map[string]bool{}
	for _, p := range ps {
		has[p] = true
	}
	if !has["hs"] || !has["hf"] {
		return "missing-http-start-or-finish:" + present
	}
	for _, pair := range [][2]string{{"rhs", "rhf"}, {"rbs", "rbf"}, {"shs", "shf"}, {"ws", "wf"}} {
		if has[pair[0]] != has[pair[1]] {
			return "stage-started-not-finished:" + present
		}
	}
	// later stages need the earlier ones
	if has["rbs"] && !has["rhs"] || has["shs"] && !has["rbs"] {
		return "stage-skipped:" + present
	}
	return ""
}

func init() {
	register(&Unit{Name: "c19.history", Props: []string{"C19"},
		Check: func(t *T, in In) []Finding {
			hist := in.S(0)
			level := stats.LevelDetailed
			if in.N(1) == 1 {
				level = stats.LevelBase
			}
			log, _, err := c19Run(hist, level, in.N(2))
			var fs []Finding
			impl := strings.Join(log, " ")
			if err != nil && strings.HasPrefix(err.Error(), "harness:") {
				fs = append(fs, Finding{Kind: "oracle", Unit: "c19.history", Class: "serve-blocked", Impl: impl})
			}
			if why := c19Oracle(log, level); why != "" {
				cls := why
				if i := strings.IndexByte(cls, ':'); i >= 0 {
					cls = cls[:i]
				}
				fs = append(fs, Finding{Kind: "oracle", Unit: "c19.history", Class: cls, Impl: impl, Note: why})
			}
			// model: S / H:<path> / F:<path>:<stages> (stages compared at the detailed level only)
			// impl lines are F:<path>:<stages>:<ord>:<err>, model lines F:<path>:<stages>:<err>
			strip := func(l string, errAt int) string {
				if strings.HasPrefix(l, "F:") {
					f := strings.Split(l, ":")
					e := ""
					if len(f) > errAt {
						e = ":" + f[errAt]
					}
					if level == stats.LevelDetailed && len(f) > 2 {
						return "F:" + f[1] + ":" + f[2] + e
					}
					return "F:" + f[1] + e
				}
				return l
			}
			var proj, mproj []string
			for _, l := range log {
				proj = append(proj, strip(l, 4))
			}
			for _, l := range strings.Fields(t.M.Call("serve_trace", []byte(hist))) {
				mproj = append(mproj, strip(l, 3))
			}
			if strings.Join(mproj, " ") != strings.Join(proj, " ") {
				fs = append(fs, Finding{Kind: "corr", Unit: "c19.history", Class: "serve_trace", Impl: strings.Join(proj, " "), Model: strings.Join(mproj, " ")})
			}
			return fs
		},
		Gen: func(t *T) {
			outs := "kcpmbtwhx"
			maxLen := t.Scale(3, 4)
			var rec func(prefix string)
			rec = func(prefix string) {
				for _, end := range "ET" {
					for lvl := 0; lvl < 2; lvl++ {
						t.Do(In{S(prefix + string(end)), Nn(lvl), Nn(0)}, len(prefix) > 0)
					}
				}
				// only 'k' and 'p' keep the connection going
				if len(prefix) == maxLen {
					return
				}
				if len(prefix) > 0 {
					last := prefix[len(prefix)-1]
					if last != 'k' && last != 'p' && last != 'x' {
						return
					}
				}
				for _, o := range outs {
					rec(prefix + string(o))
				}
			}
			rec("")
			// fragmented delivery of longer keep-alive histories
			for i := 0; i < t.Scale(300, 5000); i++ {
				n := 1 + t.R.Intn(6)
				b := make([]byte, n)
				for j := range b {
					b[j] = "kkkpx"[t.R.Intn(5)]
				}
				b[n-1] = outs[t.R.Intn(len(outs))]
				t.Do(In{S(string(b) + string("ET"[t.R.Intn(2)])), Nn(t.R.Intn(2)), Nn(1 + t.R.Intn(40))}, true)
			}
		}})
}
