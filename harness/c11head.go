package main

import (
	"fmt"
	"strings"

	"github.com/cloudwego/hertz/pkg/network/standard"
	"github.com/cloudwego/hertz/pkg/protocol"
	"github.com/cloudwego/hertz/pkg/protocol/http1/resp"
)

// c11.resphead: resp.ReadHeader on the bytes of a response head against Model/RespHead.v: protocol version,
// status code, framing decision (content length / -1 chunked / -2 until close), the bytes consumed and the
// connection-persistence decision (ConnectionClose: Connection field, keep-alive list, HTTP/1.0, until-close framing).
func init() {
	register(&Unit{Name: "c11.resphead", Props: []string{"C11", "C04"},
		Check: func(t *T, in In) []Finding {
			buf := in.B(0)
			sc := newScriptConn([][]byte{append([]byte{}, buf...)})
			conn := standard.NewConnForVerif(sc, 4096)
			var h protocol.ResponseHeader
			if len(in) > 1 && in.N(1) == 1 {
				h.DisableNormalizing() // names kept as sent; framing is decided case-insensitively either way
			}
			noNorm := len(in) > 1 && in.N(1) == 1
			err := resp.ReadHeader(&h, conn)
			impl := "ERR"
			b01 := map[bool]string{true: "1", false: "0"}
			if err == nil {
				impl = fmt.Sprintf("OK %s %d %d %d", b01[h.IsHTTP11()], h.StatusCode(), h.ContentLength(), len(buf)-conn.Len())
				if !noNorm {
					// connection persistence (ResponseHeader.ConnectionClose) is modelled for canonical stored names
					impl += " " + b01[h.ConnectionClose()]
				}
			}
			full := t.M.Call("resp_head", buf)
			mod := full
			if noNorm && strings.HasPrefix(mod, "OK ") {
				mod = mod[:strings.LastIndexByte(mod, ' ')]
			}
			if strings.HasPrefix(mod, "MORE") || strings.HasPrefix(mod, "BAD") {
				t.Count("model/" + strings.ReplaceAll(mod, " ", "-"))
				mod = "ERR"
			} else {
				t.Count("model/OK")
			}
			if mod != impl {
				return []Finding{{Kind: "corr", Unit: "c11.resphead", Class: "resp_head", Impl: impl, Model: full}}
			}
			return nil
		},
		Gen: func(t *T) {
			protos := []string{"HTTP/1.1", "HTTP/1.0", "http/1.1", "HTTP/2", "", "X"}
			codes := []string{"200", "204", "304", "100", "404", "99", "0", "1000", "20x", "", "200OK", "9223372036854775808", "-1"}
			texts := []string{" OK", "", " Not Found", " a b c", "  ", " \t"}
			names := []string{"Content-Length", "content-length", "CONTENT-LENGTH", "Transfer-Encoding", "transfer-encoding", "X-A", "Connection", "Content-Type", "Server", "Set-Cookie", "", "A b"}
			values := []string{"5", "0", "12x", "", "chunked", "identity", "gzip, chunked", "close", "keep-alive", "Keep-Alive, x", "x ,keep-alive", "9223372036854775808", "a=b; Path=/", "X-T", "7 "}
			eols := []string{"\r\n", "\r\n", "\r\n", "\n"}
			alpha := []byte("a: \t\r\n-5H/1.")
			// directed: the connection-persistence decision over version x status x framing x 0-2 Connection fields
			connVals := []string{"close", "keep-alive", "Keep-Alive", "Close", "x, keep-alive", " keep-alive ,y", "close, keep-alive", "upgrade", "", "keep-alivex", ",", "a,,KEEP-ALIVE"}
			connNames := []string{"Connection", "connection", "CONNECTION"}
			for _, pr := range []string{"HTTP/1.1", "HTTP/1.0"} {
				for _, code := range []string{"200", "204", "304", "100", "404"} {
					for _, fr := range []string{"", "Content-Length: 5\r\n", "Transfer-Encoding: chunked\r\n", "Content-Length: x\r\n"} {
						for i := -1; i < len(connVals); i++ {
							for j := -1; j < len(connVals); j++ {
								if i < 0 && j >= 0 {
									continue
								}
								hd := pr + " " + code + " T\r\n" + fr
								if i >= 0 {
									hd += connNames[(i+j+1)%3] + ": " + connVals[i] + "\r\n"
								}
								if j >= 0 {
									hd += connNames[(i*j+2)%3] + ": " + connVals[j] + "\r\n"
								}
								hd += "\r\n"
								t.Do(In{H([]byte(hd))}, true)
								if (i+j)%5 == 0 {
									t.Do(In{H([]byte(hd)), Nn(1)}, true)
								}
							}
						}
					}
				}
			}
			for i := 0; i < t.Scale(6000, 150000); i++ {
				var sb strings.Builder
				for t.R.Intn(10) == 0 {
					sb.WriteString(eols[t.R.Intn(len(eols))])
				}
				sb.WriteString(protos[t.R.Intn(len(protos))] + " " + codes[t.R.Intn(len(codes))] + texts[t.R.Intn(len(texts))])
				sb.WriteString(eols[t.R.Intn(len(eols))])
				for j, n := 0, t.R.Intn(5); j < n; j++ {
					sb.WriteString(names[t.R.Intn(len(names))] + ": " + values[t.R.Intn(len(values))] + eols[t.R.Intn(len(eols))])
				}
				if t.R.Intn(8) != 0 {
					sb.WriteString(eols[t.R.Intn(len(eols))])
				}
				if t.R.Intn(3) == 0 {
					sb.WriteString("hello")
				}
				b := []byte(sb.String())
				switch t.R.Intn(8) {
				case 0:
					if len(b) > 0 {
						b = b[:t.R.Intn(len(b))]
					}
				case 1:
					if len(b) > 0 {
						b[t.R.Intn(len(b))] = alpha[t.R.Intn(len(alpha))]
					}
				case 2:
					b = make([]byte, t.R.Intn(16))
					for k := range b {
						b[k] = alpha[t.R.Intn(len(alpha))]
					}
				}
				if t.R.Intn(3) == 0 {
					t.Do(In{H(b), Nn(1)}, true)
				} else {
					t.Do(In{H(b)}, true)
				}
			}
		}})
}
