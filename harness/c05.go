package main

import (
	"bytes"
	"strings"

	"github.com/cloudwego/hertz/pkg/app"
	"github.com/cloudwego/hertz/pkg/protocol"
)

var c05Names = toks("X-A", "Cookie", "Set-Cookie", "Content-Type", "Content-Length", "Host", "Trailer", "Transfer-Encoding",
	"Connection", "User-Agent", "Server", "Date", "Content-Encoding", "Location", "x-b", "", "X A", "X:A", "X\r\nY", "X\nY: 1", "\r", "\n")
var c05Vals = toks("v", "", "a\r\nInjected: 1", "a\nInjected: 1", "a\rb", "\r\n", "\r\n\r\nbody", "a: b", " ", "\x00", "x;y=z", "1", "close", "chunked",
	"text/html\r\nX-Inj: 1", "k=v\r\nSet-Cookie: evil=1", "\n", "\r", "v\r\n", "v\r", "v\n", "a\r\n b", "a,,b", "é")

// op arities (number of byte-string operands)
var c05ReqOps = map[string]int{"Set": 2, "Add": 2, "SetCookie": 2, "SetUserAgentBytes": 1, "SetHost": 1, "SetContentTypeBytes": 1,
	"SetCanonical": 2, "SetBytesKV": 2, "SetArgBytes": 2, "TrailerSet": 2, "SetMultipartFormBoundary": 1, "SetContentLengthBytes": 1}
var c05RespOps = map[string]int{"Set": 2, "Add": 2, "SetContentType": 1, "SetContentEncoding": 1, "SetServerBytes": 1, "SetCanonical": 2,
	"SetBytesV": 2, "SetContentLengthBytes": 1, "SetCookie": 4, "TrailerSet": 2, "CtxHeader": 2, "CtxSetCookie": 4, "CtxRedirect": 1, "CtxSetContentType": 1}

func c05ApplyReq(h *protocol.RequestHeader, op string, a [][]byte) {
	switch op {
	case "Set":
		h.Set(string(a[0]), string(a[1]))
	case "Add":
		h.Add(string(a[0]), string(a[1]))
	case "SetCookie":
		h.SetCookie(string(a[0]), string(a[1]))
	case "SetUserAgentBytes":
		h.SetUserAgentBytes(a[0])
	case "SetHost":
		h.SetHost(string(a[0]))
	case "SetContentTypeBytes":
		h.SetContentTypeBytes(a[0])
	case "SetCanonical":
		h.SetCanonical(a[0], a[1])
	case "SetBytesKV":
		h.SetBytesKV(a[0], a[1])
	case "SetArgBytes":
		h.SetArgBytes(a[0], a[1], false)
	case "TrailerSet":
		h.Trailer().Set(string(a[0]), string(a[1]))
	case "SetMultipartFormBoundary":
		h.SetMultipartFormBoundary(string(a[0]))
	case "SetContentLengthBytes":
		h.SetContentLengthBytes(a[0])
	}
}

func c05ApplyResp(ctx *app.RequestContext, op string, a [][]byte) {
	h := &ctx.Response.Header
	switch op {
	case "Set":
		h.Set(string(a[0]), string(a[1]))
	case "Add":
		h.Add(string(a[0]), string(a[1]))
	case "SetContentType":
		h.SetContentType(string(a[0]))
	case "SetContentEncoding":
		h.SetContentEncoding(string(a[0]))
	case "SetServerBytes":
		h.SetServerBytes(a[0])
	case "SetCanonical":
		h.SetCanonical(a[0], a[1])
	case "SetBytesV":
		h.SetBytesV(string(a[0]), a[1])
	case "SetContentLengthBytes":
		h.SetContentLengthBytes(a[0])
	case "SetCookie":
		var c protocol.Cookie
		c.SetKeyBytes(a[0])
		c.SetValueBytes(a[1])
		c.SetDomain(string(a[2]))
		c.SetPathBytes(a[3])
		h.SetCookie(&c)
	case "TrailerSet":
		h.Trailer().Set(string(a[0]), string(a[1]))
	case "CtxHeader":
		ctx.Header(string(a[0]), string(a[1]))
	case "CtxSetCookie":
		ctx.SetCookie(string(a[0]), string(a[1]), 10, string(a[2]), string(a[3]), protocol.CookieSameSiteLaxMode, true, true)
	case "CtxRedirect":
		ctx.Redirect(302, a[0])
	case "CtxSetContentType":
		ctx.SetContentType(string(a[0]))
	}
}

// strictBlock: independent strict reader of a header block: CRLF line ends only, one start line,
// then `token ":" SP value` lines, an empty line, and nothing after it.
func strictBlock(b []byte, hasStart bool) (fields [][2]string, why string) {
	var lines []string
	for {
		i := bytes.IndexAny(b, "\r\n")
		if i < 0 {
			return nil, "no-terminating-empty-line"
		}
		if b[i] != '\r' || i+1 >= len(b) || b[i+1] != '\n' {
			return nil, "bare-cr-or-lf"
		}
		line := string(b[:i])
		b = b[i+2:]
		if line == "" {
			break
		}
		lines = append(lines, line)
	}
	if len(b) != 0 {
		return nil, "bytes-after-header-block"
	}
	if hasStart {
		if len(lines) == 0 {
			return nil, "no-start-line"
		}
		lines = lines[1:]
	}
	for _, l := range lines {
		i := strings.Index(l, ": ")
		if i <= 0 {
			return nil, "line-without-name-colon-space"
		}
		name := l[:i]
		for _, c := range []byte(name) {
			if !isTokenChar(c) {
				return nil, "name-not-a-token"
			}
		}
		fields = append(fields, [2]string{name, l[i+2:]})
	}
	return fields, ""
}

func isTokenChar(c byte) bool {
	if c >= 'a' && c <= 'z' || c >= 'A' && c <= 'Z' || c >= '0' && c <= '9' {
		return true
	}
	return strings.IndexByte("!#$%&'*+-.^_`|~", c) >= 0
}

func neutralise(b []byte) []byte {
	out := append([]byte(nil), b...)
	for i, c := range out {
		if c == '\r' || c == '\n' {
			out[i] = ' '
		}
	}
	return out
}

type c05op struct {
	name string
	args [][]byte
}

func c05Decode(in In, arity map[string]int) []c05op {
	var ops []c05op
	for i := 1; i < len(in); {
		name := in.S(i)
		n := arity[name]
		if i+n >= len(in)+0 && n > 0 && i+n > len(in)-0 {
			break
		}
		var args [][]byte
		for j := 1; j <= n && i+j < len(in); j++ {
			args = append(args, in.B(i+j))
		}
		if len(args) == n {
			ops = append(ops, c05op{name, args})
		}
		i += n + 1
	}
	return ops
}

// same number of fields with the same names (values are CR/LF free by the strict reader; how
// a setter neutralises them - space, percent-escape - is its own business)
func fieldsEq(a, b [][2]string) bool {
	if len(a) != len(b) {
		return false
	}
	for i := range a {
		if a[i][0] != b[i][0] {
			return false
		}
	}
	return true
}

func c05RunReq(ops []c05op, neutral bool) []byte {
	var h protocol.RequestHeader
	h.SetMethod("POST")
	h.SetRequestURI("/p")
	for _, o := range ops {
		args := o.args
		if neutral {
			args = make([][]byte, len(o.args))
			for i, a := range o.args {
				args[i] = neutralise(a)
			}
		}
		c05ApplyReq(&h, o.name, args)
	}
	return append([]byte(nil), h.Header()...)
}

func c05RunResp(ops []c05op, neutral bool) (hdr, trailer []byte) {
	ctx := app.NewContext(0)
	ctx.Response.Header.SetNoDefaultDate(true)
	for _, o := range ops {
		args := o.args
		if neutral {
			args = make([][]byte, len(o.args))
			for i, a := range o.args {
				args[i] = neutralise(a)
			}
		}
		c05ApplyResp(ctx, o.name, args)
	}
	return append([]byte(nil), ctx.Response.Header.Header()...), append([]byte(nil), ctx.Response.Header.Trailer().Header()...)
}

var c05Fixed = map[string]string{"SetCookie": "cookie|set-cookie", "SetUserAgentBytes": "user-agent", "SetHost": "host",
	"SetContentTypeBytes": "content-type", "SetContentType": "content-type", "CtxSetContentType": "content-type",
	"SetMultipartFormBoundary": "content-type", "SetContentLengthBytes": "content-length", "TrailerSet": "trailer",
	"SetContentEncoding": "content-encoding", "SetServerBytes": "server", "CtxRedirect": "location", "CtxSetCookie": "set-cookie"}

// c05Check: (i) the strict reader accepts the block; (ii) every field name is one the application
// named (ASCII case-insensitively) or the fixed name of a setter it used or a default field;
// (iii) there are at most one field per operation plus the default Content-Type.
func c05Check(unit string, out []byte, ops []c05op, hasStart bool) []Finding {
	fields, why := strictBlock(out, hasStart)
	if why != "" {
		return []Finding{{Kind: "oracle", Unit: unit, Class: "strict-reader:" + why, Impl: string(out)}}
	}
	allowed := map[string]bool{"content-type": true, "content-length": true, "connection": true, "date": true, "server": true}
	for _, o := range ops {
		for _, n := range strings.Split(c05Fixed[o.name], "|") {
			allowed[n] = true
		}
		if len(o.args) >= 2 {
			allowed[strings.ToLower(string(o.args[0]))] = true
			if strings.EqualFold(string(o.args[0]), "trailer") { // the value declares trailer names
				for _, n := range strings.Split(string(o.args[1]), ",") {
					allowed[strings.ToLower(strings.TrimSpace(n))] = true
				}
			}
		}
	}
	for _, f := range fields {
		if !allowed[strings.ToLower(f[0])] {
			return []Finding{{Kind: "oracle", Unit: unit, Class: "field-the-application-did-not-set", Impl: string(out), Note: f[0]}}
		}
	}
	if len(fields) > len(ops)+1 {
		return []Finding{{Kind: "oracle", Unit: unit, Class: "more-fields-than-set", Impl: string(out)}}
	}
	return nil
}

func c05Gen(t *T, kind string, arity map[string]int) {
	var names []string
	for k := range arity {
		names = append(names, k)
	}
	sortStrings(names)
	// every op alone with every hostile value at every operand position
	for _, op := range names {
		n := arity[op]
		for pos := 0; pos < n; pos++ {
			pool := c05Vals
			if n == 2 && pos == 0 {
				pool = c05Names
			}
			for _, v := range pool {
				in := In{S(kind), S(op)}
				for j := 0; j < n; j++ {
					switch {
					case j == pos:
						in = append(in, H(v))
					case n == 2 && j == 0:
						in = append(in, H([]byte("X-A")))
					default:
						in = append(in, H([]byte("v")))
					}
				}
				t.Do(in, true)
			}
		}
	}
	// names x values for the generic setters
	for _, op := range []string{"Set", "Add"} {
		for _, k := range c05Names {
			for _, v := range c05Vals {
				t.Do(In{S(kind), S(op), H(k), H(v)}, true)
			}
		}
	}
	// random programs
	for i := 0; i < t.Scale(15000, 300000); i++ {
		in := In{S(kind)}
		for j, n := 0, 1+t.R.Intn(5); j < n; j++ {
			op := names[t.R.Intn(len(names))]
			in = append(in, S(op))
			for k := 0; k < arity[op]; k++ {
				var v []byte
				if arity[op] == 2 && k == 0 && t.R.Intn(4) != 0 {
					v = c05Names[t.R.Intn(len(c05Names))]
				} else if t.R.Intn(3) == 0 {
					v = randFrom(t.R, toks("\r", "\n", "\r\n", ":", " ", "a", "\x00", ";", "="), t.R.Intn(6))
				} else {
					v = c05Vals[t.R.Intn(len(c05Vals))]
				}
				in = append(in, H(v))
			}
		}
		t.Do(in, true)
	}
}

func sortStrings(s []string) {
	for i := range s {
		for j := i + 1; j < len(s); j++ {
			if s[j] < s[i] {
				s[i], s[j] = s[j], s[i]
			}
		}
	}
}

func init() {
	register(&Unit{Name: "c05.request", Props: []string{"C05"},
		Check: func(t *T, in In) []Finding {
			ops := c05Decode(in, c05ReqOps)
			return c05Check("c05.request", c05RunReq(ops, false), ops, true)
		},
		Gen: func(t *T) { c05Gen(t, "req", c05ReqOps) }})

	register(&Unit{Name: "c05.response", Props: []string{"C05"},
		Check: func(t *T, in In) []Finding {
			ops := c05Decode(in, c05RespOps)
			h1, t1 := c05RunResp(ops, false)
			fs := c05Check("c05.response", h1, ops, true)
			fs = append(fs, c05Check("c05.response", t1, ops, false)...)
			return fs
		},
		Gen: func(t *T) { c05Gen(t, "resp", c05RespOps) }})

	register(&Unit{Name: "c05.headerline", Props: []string{"C05"},
		Check: func(t *T, in In) []Finding {
			k, v := in.B(0), in.B(1)
			impl := string(protocol.VerifAppendHeaderLine(nil, k, v))
			mod := t.M.Call("append_header_line", k, v)
			var fs []Finding
			if impl != mod {
				fs = append(fs, Finding{Kind: "corr", Unit: "c05.headerline", Class: "append_header_line", Impl: impl, Model: mod})
			}
			if n2 := string(protocol.VerifNewlineToSpace(v)); n2 != t.M.Call("nl2sp", v) {
				fs = append(fs, Finding{Kind: "corr", Unit: "c05.headerline", Class: "nl2sp", Impl: n2, Model: t.M.Call("nl2sp", v)})
			}
			return fs
		},
		Gen: func(t *T) {
			for c := 0; c < 256; c++ {
				t.Do(In{H([]byte{'X', byte(c)}), H([]byte{'v', byte(c)})}, true)
				t.Do(In{H([]byte{byte(c)}), H([]byte{byte(c), '\r', '\n'})}, true)
			}
			for _, k := range c05Names {
				for _, v := range c05Vals {
					t.Do(In{H(k), H(v)}, true)
				}
			}
			for i := 0; i < t.Scale(5000, 100000); i++ {
				t.Do(In{H(randFrom(t.R, toks("X", "-", "a", ":", " ", "\r", "\n"), t.R.Intn(6))), H(randFrom(t.R, toks("v", "\r", "\n", " ", ":"), t.R.Intn(8)))}, true)
			}
		}})
}
