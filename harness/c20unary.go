package main

import (
	"fmt"
	"reflect"
	"strings"

	"github.com/cloudwego/hertz/pkg/app/server/binding"
)

// c20.unary: the typing of the unary prefix `!`.  k >= 1 exclamation marks in front of a primary (the field, a
// number, a parenthesised arithmetic or comparison) give a bool: the truth value of the primary (a number is
// true when it is not zero), negated when k is odd — also for even k, where the value is converted but not
// negated.  The bool then takes part in ==, !=, && and || like any other.
type c20u struct {
	k    int    // number of '!'
	prim string // "$", a digit, "($-1)", "($>0)", ...
}

func (u c20u) text() string { return strings.Repeat("!", u.k) + u.prim }

// value of the primary for field value v: (number, isBool, bool)
func c20uPrim(p string, v float64) (float64, bool, bool) {
	switch p {
	case "$":
		return v, false, false
	case "($-1)":
		return v - 1, false, false
	case "($*0)":
		return 0, false, false
	case "($+2)":
		return v + 2, false, false
	case "($>0)":
		return 0, true, v > 0
	case "($==2)":
		return 0, true, v == 2
	}
	var n float64
	fmt.Sscanf(p, "%g", &n)
	return n, false, false
}

func (u c20u) eval(v float64) bool {
	n, isBool, b := c20uPrim(u.prim, v)
	if !isBool {
		b = n != 0
	}
	if u.k%2 == 1 {
		b = !b
	}
	return b
}

func init() {
	register(&Unit{Name: "c20.unary", Props: []string{"C20"},
		// in: form, k1, prim1, k2, prim2, field value (in halves)
		Check: func(t *T, in In) []Finding {
			a := c20u{in.N(1), in.S(2)}
			b := c20u{in.N(3), in.S(4)}
			val := float64(in.N(5)) / 2
			var expr string
			var want bool
			switch in.N(0) {
			case 0:
				expr, want = a.text(), a.eval(val)
			case 1:
				expr, want = a.text()+"==true", a.eval(val)
			case 2:
				expr, want = a.text()+"!=true", !a.eval(val)
			case 3:
				expr, want = a.text()+"&&"+b.text(), a.eval(val) && b.eval(val)
			case 4:
				expr, want = a.text()+"||"+b.text(), a.eval(val) || b.eval(val)
			case 5:
				expr, want = a.text()+"=="+b.text(), a.eval(val) == b.eval(val)
			default:
				expr, want = "("+a.text()+")==false", !a.eval(val)
			}
			typ := reflect.StructOf([]reflect.StructField{{Name: "A", Type: reflect.TypeOf(float64(0)), Tag: reflect.StructTag(fmt.Sprintf(`vd:"%s"`, expr))}})
			obj := reflect.New(typ)
			obj.Elem().Field(0).SetFloat(val)
			err := binding.Validate(obj.Interface())
			if got := err == nil; got != want {
				return []Finding{{Kind: "oracle", Unit: "c20.unary", Class: "unary-not-differs-from-documented-typing", Impl: fmt.Sprint(got), Expect: fmt.Sprint(want), Note: fmt.Sprintf("vd:%q A=%v err=%v", expr, val, err)}}
			}
			t.Count(fmt.Sprintf("bangs/%d", a.k))
			return nil
		},
		Gen: func(t *T) {
			prims := []string{"$", "0", "1", "2", "($-1)", "($*0)", "($+2)", "($>0)", "($==2)"}
			for form := 0; form <= 6; form++ {
				for k1 := 1; k1 <= 4; k1++ {
					for _, p1 := range prims {
						for _, v := range []int{-2, 0, 1, 2, 4} {
							t.Do(In{Nn(form), Nn(k1), S(p1), Nn(1 + (k1+form)%3), S(prims[(k1*3+form+v+9)%len(prims)]), Nn(v)}, true)
						}
					}
				}
			}
			for i := 0; i < t.Scale(300, 20000); i++ {
				t.Do(In{Nn(t.R.Intn(7)), Nn(1 + t.R.Intn(5)), S(prims[t.R.Intn(len(prims))]), Nn(1 + t.R.Intn(4)), S(prims[t.R.Intn(len(prims))]), Nn(t.R.Intn(13) - 6)}, true)
			}
		}})
}
