package main

import (
	"errors"
	"bufio"
	"bytes"
	"context"
	"fmt"
	"io"
	"math/rand"
	"net"
	"net/http"
	"strings"
	"sync"
	"sync/atomic"
	"time"

	"github.com/cloudwego/hertz/pkg/app"
	"github.com/cloudwego/hertz/pkg/app/server"
	"github.com/cloudwego/hertz/pkg/app/server/registry"
	"github.com/cloudwego/hertz/pkg/common/config"
	"github.com/cloudwego/hertz/pkg/common/hlog"
	"github.com/cloudwego/hertz/pkg/network"
	"github.com/cloudwego/hertz/pkg/network/netpoll"
	"github.com/cloudwego/hertz/pkg/network/standard"
	"github.com/cloudwego/hertz/pkg/route"
)

const c18bodyLen = 3000

type c18srv struct {
	h        *server.Hertz
	addr     string
	gates    sync.Map // request id -> chan struct{}
	once     sync.Map
	accepted sync.Map // remote address of every connection OnAccept saw
	arrived  sync.Map // request id -> time the handler was entered (unix nanos)
	hookLog  []string
	hookMu   sync.Mutex
	runErr   chan error
}

func c18freeAddr() string {
	l, err := net.Listen("tcp", "127.0.0.1:0")
	if err != nil {
		panic(err)
	}
	a := l.Addr().String()
	l.Close()
	return a
}

func (s *c18srv) release(id string) {
	o, _ := s.once.LoadOrStore(id, &sync.Once{})
	o.(*sync.Once).Do(func() { close(s.gate(id)) })
}

func (s *c18srv) gate(id string) chan struct{} {
	g, _ := s.gates.LoadOrStore(id, make(chan struct{}))
	return g.(chan struct{})
}

// c18FailDeregister: the next server is given a service registry whose Deregister fails at shutdown (set under c18mu)
var c18FailDeregister bool

type c18registry struct{}

func (c18registry) Register(*registry.Info) error   { return nil }
func (c18registry) Deregister(*registry.Info) error { return errors.New("registry unreachable") }

// c18start: transport 0 = standard, 1 = netpoll; hooks: list of sleep durations (ms)
func c18start(transport int, exitWait time.Duration, hooks []int, acceptDelay ...time.Duration) *c18srv {
	s := &c18srv{addr: c18freeAddr(), runErr: make(chan error, 1)}
	tr := standard.NewTransporter
	if transport == 1 {
		tr = netpoll.NewTransporter
	}
	opts := []config.Option{server.WithHostPorts(s.addr), server.WithExitWaitTime(exitWait),
		server.WithTransport(func(o *config.Options) network.Transporter { return tr(o) }),
		server.WithIdleTimeout(3 * time.Second), server.WithReadTimeout(3 * time.Second), server.WithDisablePrintRoute(true)}
	if c18FailDeregister {
		opts = append(opts, server.WithRegistry(c18registry{}, &registry.Info{ServiceName: "verif", Weight: 1}))
		c18FailDeregister = false
	}
	if len(acceptDelay) > 0 && acceptDelay[0] > 0 {
		// a slow OnAccept callback: the connection is accepted (the server owns it) but its goroutine has not started
		d := acceptDelay[0]
		opts = append(opts, server.WithOnAccept(func(c net.Conn) context.Context {
			s.accepted.Store(c.RemoteAddr().String(), struct{}{})
			time.Sleep(d)
			return context.Background()
		}))
	}
	s.h = server.New(opts...)
	s.h.GET("/w", func(c context.Context, ctx *app.RequestContext) {
		id := string(ctx.Query("id"))
		s.arrived.Store(id, time.Now().UnixNano())
		<-s.gate(id)
		body := bytes.Repeat([]byte("x"), c18bodyLen-len(id))
		ctx.Data(200, "text/plain", append(body, id...))
	})
	for i, ms := range hooks {
		i, ms := i, ms
		s.h.OnShutdown = append(s.h.OnShutdown, func(ctx context.Context) {
			s.hookMu.Lock()
			s.hookLog = append(s.hookLog, fmt.Sprintf("start%d", i))
			s.hookMu.Unlock()
			if ms >= 2000 { // a hook that ignores its context and outlives the exit wait time
				time.Sleep(time.Duration(ms) * time.Millisecond)
				return
			}
			select {
			case <-time.After(time.Duration(ms) * time.Millisecond):
				s.hookMu.Lock()
				s.hookLog = append(s.hookLog, fmt.Sprintf("end%d", i))
				s.hookMu.Unlock()
			case <-ctx.Done():
			}
		})
	}
	go func() { s.runErr <- s.h.Run() }()
	for i := 0; i < 400; i++ {
		if c, err := net.DialTimeout("tcp", s.addr, 100*time.Millisecond); err == nil {
			c.Close()
			break
		}
		time.Sleep(5 * time.Millisecond)
	}
	// the probe connection above must be gone before the history starts
	time.Sleep(30 * time.Millisecond)
	return s
}

type c18resp struct {
	complete bool
	close    bool
	err      string
}

// c18read reads one response strictly
func c18read(br *bufio.Reader, id string) c18resp {
	resp, err := http.ReadResponse(br, nil)
	if err != nil {
		return c18resp{err: "no response: " + err.Error()}
	}
	body, err := io.ReadAll(resp.Body)
	if err != nil || len(body) != c18bodyLen || !strings.HasSuffix(string(body), id) {
		return c18resp{err: fmt.Sprintf("truncated or foreign body: %d bytes, err=%v", len(body), err)}
	}
	return c18resp{complete: true, close: resp.Close}
}

func init() {
	hlog.SetLevel(hlog.LevelFatal)
	register(&Unit{Name: "c18.race", Props: []string{"C18"},
		// in: seed, transport (0 standard / 1 netpoll), exit wait ms, number of connections, hook sleeps "a,b,c" (ms)
		Check: func(t *T, in In) []Finding {
			r := rand.New(rand.NewSource(int64(in.N(0))))
			transport, exitWait, nconn := in.N(1), time.Duration(in.N(2))*time.Millisecond, in.N(3)
			var hooks []int
			for _, h := range strings.Split(in.S(4), ",") {
				var ms int
				if _, err := fmt.Sscanf(h, "%d", &ms); err == nil {
					hooks = append(hooks, ms)
				}
			}
			c18mu.Lock()
			defer c18mu.Unlock()
			var acceptDelayIn time.Duration
			if len(in) > 5 {
				acceptDelayIn = time.Duration(in.N(5)) * time.Millisecond
			}
			failDereg := len(in) > 6 && in.N(6) == 1 // the registry cannot be reached at shutdown: an error to report, not a reason to skip the rest
			c18FailDeregister = failDereg
			s := c18start(transport, exitWait, hooks, acceptDelayIn)
			var fs []Finding
			var fmu sync.Mutex
			bad := func(class, impl string) {
				fmu.Lock()
				fs = append(fs, Finding{Kind: "oracle", Unit: "c18.race", Class: class, Impl: impl})
				fmu.Unlock()
			}
			var shutdownBegan, shutdownReturned atomic.Int64 // unix nanos
			var wg sync.WaitGroup
			// connection plans: kind 0 busy at shutdown (released d ms after it began), 1 idle keep-alive,
			// 2 mid-request (second half never sent), 3 request arrives right around the shutdown call
			type plan struct{ kind, delay, jitter int }
			plans := make([]plan, nconn)
			for i := range plans {
				plans[i] = plan{r.Intn(4), r.Intn(int(exitWait/time.Millisecond)/2 + 20), r.Intn(7) - 3}
			}
			if acceptDelayIn > 0 { // directed: connections accepted just before the shutdown call, slow OnAccept
				for i := range plans {
					plans[i] = plan{4, 200 + 20*i, 0}
				}
			}
			var servedLate atomic.Int64 // completion time (unix nanos) of the last response of an accepted connection
			shutdownAt := time.Duration(20+r.Intn(30)) * time.Millisecond
			t0 := time.Now()
			for i, pl := range plans {
				wg.Add(1)
				go func(i int, pl plan) {
					defer wg.Done()
					if pl.kind == 4 {
						time.Sleep(shutdownAt - 8*time.Millisecond - time.Since(t0))
					}
					c, err := net.DialTimeout("tcp", s.addr, time.Second)
					if err != nil {
						// a client that was scheduled late dials a server that is already shutting down: refused by design
						if shutdownBegan.Load() == 0 {
							bad("cannot-connect-before-shutdown", err.Error())
						}
						return
					}
					defer c.Close()
					c.SetDeadline(time.Now().Add(exitWait + 4*time.Second))
					br := bufio.NewReader(c)
					id := fmt.Sprintf("c%d", i)
					reqText := func(id string) string { return "GET /w?id=" + id + " HTTP/1.1\r\nHost: h\r\n\r\n" }
					switch pl.kind {
					case 0: // busy: request in, handler blocked until after the shutdown call
						fmt.Fprint(c, reqText(id))
						// the handler returns after the shutdown began exactly when the status had left `running`
						// before the handler was let go (read here, not inferred from the planned times)
						var afterShutdown atomic.Bool
						relDone := make(chan struct{})
						go func() {
							time.Sleep(shutdownAt + time.Duration(pl.delay)*time.Millisecond - time.Since(t0))
							afterShutdown.Store(!s.h.IsRunning())
							s.release(id)
							close(relDone)
						}()
						res := c18read(br, id)
						if at, arrived := s.arrived.Load(id); arrived && at.(int64) < shutdownBegan.Load() && exitWait > time.Duration(pl.delay+150)*time.Millisecond {
							if !res.complete {
								bad("received-request-without-a-complete-response", id+": "+res.err)
							} else if <-relDone; afterShutdown.Load() && !res.close {
								bad("response-after-shutdown-began-lacks-connection-close", id)
							}
						}
					case 1: // idle keep-alive: one full exchange, then silence
						s.release(id)
						fmt.Fprint(c, reqText(id))
						res := c18read(br, id)
						if at, arrived := s.arrived.Load(id); arrived && !res.complete && (shutdownBegan.Load() == 0 || at.(int64) < shutdownBegan.Load()) {
							bad("received-request-without-a-complete-response", id+" (before shutdown): "+res.err)
						}
						// stay connected until the server closes or the deadline passes
						io.Copy(io.Discard, br)
					case 2: // mid-request
						txt := reqText(id)
						fmt.Fprint(c, txt[:len(txt)/2])
						io.Copy(io.Discard, br)
					case 4: // accepted a few ms before the shutdown call, request already in the socket
						time.Sleep(shutdownAt - 4*time.Millisecond - time.Since(t0))
						fmt.Fprint(c, reqText(id))
						go func() {
							time.Sleep(shutdownAt + time.Duration(pl.delay)*time.Millisecond - time.Since(t0))
							s.release(id)
						}()
						res := c18read(br, id)
						if _, acc := s.accepted.Load(c.LocalAddr().String()); acc {
							if !res.complete {
								bad("received-request-without-a-complete-response", id+" (accepted before shutdown): "+res.err)
							} else {
								now := time.Now().UnixNano()
								for {
									old := servedLate.Load()
									if now <= old || servedLate.CompareAndSwap(old, now) {
										break
									}
								}
							}
						}
					case 3: // request sent right around the shutdown call
						time.Sleep(shutdownAt + time.Duration(pl.jitter)*time.Millisecond - time.Since(t0)) // drawn beforehand: r is not shared between goroutines
						s.release(id)
						if _, err := fmt.Fprint(c, reqText(id)); err != nil {
							return
						}
						res := c18read(br, id)
						// "already received" = its handler had been entered when the shutdown was requested; a request that
						// reaches the server after that is not promised anything (netpoll may close a connection it takes for idle)
						if at, arrived := s.arrived.Load(id); arrived && !res.complete && at.(int64) < shutdownBegan.Load() {
							bad("received-request-without-a-complete-response", id+" (sent at shutdown time): "+res.err)
						}
					}
				}(i, pl)
			}
			time.Sleep(shutdownAt - time.Since(t0))
			var res1, res2 error
			var d1 time.Duration
			var logAtReturn string // what the hooks had logged when the Shutdown call that did the work returned nil
			captureLog := func() {
				s.hookMu.Lock()
				logAtReturn = strings.Join(s.hookLog, ",")
				s.hookMu.Unlock()
			}
			var swg sync.WaitGroup
			swg.Add(2)
			second := r.Intn(3) // 0: concurrently, 1: shortly after, 2: after the first returned
			// the caller's context: none, one that can only be cancelled, one with a deadline well after the exit
			// wait time — the exit wait time bounds the call in every case
			callerCtx := context.Background()
			switch r.Intn(3) {
			case 1:
				c2, cancel := context.WithCancel(context.Background())
				defer cancel()
				callerCtx = c2
			case 2:
				c2, cancel := context.WithTimeout(context.Background(), exitWait+8*time.Second)
				defer cancel()
				callerCtx = c2
			}
			go func() {
				defer swg.Done()
				shutdownBegan.Store(time.Now().UnixNano())
				ts := time.Now()
				res1 = s.h.Shutdown(callerCtx)
				d1 = time.Since(ts)
				if res1 == nil {
					captureLog()
				}
				shutdownReturned.Store(time.Now().UnixNano())
			}()
			go func() {
				defer swg.Done()
				switch second {
				case 1:
					time.Sleep(5 * time.Millisecond)
				case 2:
					for shutdownReturned.Load() == 0 {
						time.Sleep(time.Millisecond)
					}
				}
				done := make(chan struct{})
				go func() {
					res2 = s.h.Shutdown(context.Background())
					if res2 == nil {
						captureLog()
					}
					close(done)
				}()
				select {
				case <-done:
				case <-time.After(exitWait + 3*time.Second):
					bad("second-shutdown-hangs", "")
				}
			}()
			swg.Wait()
			if d1 > exitWait+1500*time.Millisecond {
				bad("shutdown-returned-long-after-the-exit-wait-time", fmt.Sprintf("%v, exit wait %v", d1, exitWait))
			}
			if res1 == nil && res2 == nil {
				bad("second-shutdown-reported-no-error", fmt.Sprintf("mode %d", second))
			}
			if failDereg { // neither call returned nil: the hook log is read now (the hooks were started before Deregister)
				captureLog()
			}
			// no new connection is accepted afterwards
			if c, err := net.DialTimeout("tcp", s.addr, 200*time.Millisecond); err == nil {
				c.SetDeadline(time.Now().Add(300 * time.Millisecond))
				fmt.Fprint(c, "GET /w?id=late HTTP/1.1\r\nHost: h\r\n\r\n")
				s.release("late")
				if res := c18read(bufio.NewReader(c), "late"); res.complete {
					if failDereg { // known finding D32: a Deregister error ends Shutdown before the transport is shut down
						bad("deregister-fails:connection-accepted-and-served-after-shutdown-returned", "")
					} else {
						bad("connection-accepted-and-served-after-shutdown-returned", "")
					}
				}
				c.Close()
			}
			// hooks: all started; those that fit into the exit wait had finished when Shutdown returned
			log := logAtReturn
			for i, ms := range hooks {
				if !strings.Contains(log, fmt.Sprintf("start%d", i)) {
					bad("shutdown-hook-did-not-run", fmt.Sprintf("hook %d; log %s", i, log))
				}
				if time.Duration(ms+300)*time.Millisecond < exitWait && !strings.Contains(log, fmt.Sprintf("end%d", i)) {
					bad("shutdown-returned-before-a-hook-within-the-deadline-finished", fmt.Sprintf("hook %d (%d ms); log %s", i, ms, log))
				}
			}
			// release everything still blocked and let the clients finish
			for i := range plans {
				if plans[i].kind != 4 { // those are released by their own timer, well after the shutdown call
					s.release(fmt.Sprintf("c%d", i))
				}
			}
			done := make(chan struct{})
			go func() { wg.Wait(); close(done) }()
			select {
			case <-done:
			case <-time.After(exitWait + 5*time.Second):
				bad("clients-still-blocked", "")
			}
			// a Shutdown that returned early claims the server was drained: every connection it had accepted
			// must have been served by then
			if late := servedLate.Load(); res1 == nil && d1 < exitWait-100*time.Millisecond && late > shutdownReturned.Load()+int64(120*time.Millisecond) {
				bad("shutdown-returned-drained-before-an-accepted-connection-was-served",
					fmt.Sprintf("returned after %v, last response %v later", d1, time.Duration(late-shutdownReturned.Load())))
			}
			t.Count(fmt.Sprintf("transport/%d", transport))
			return fs
		},
		Gen: func(t *T) {
			for i := 0; i < t.Scale(40, 250); i++ {
				ew := []int{150, 400, 1200}[t.R.Intn(3)]
				hooks := [][]string{{}, {"1"}, {"1", "40"}, {"30", fmt.Sprint(ew + 500)}, {"5", fmt.Sprint(ew + 2500)},
					{fmt.Sprint(ew + 500), "30"}, {"40", "40", "40"}}[t.R.Intn(7)]
				t.Do(In{Nn(t.R.Intn(1 << 30)), Nn(t.R.Intn(2)), Nn(ew), Nn(1 + t.R.Intn(4)), S(strings.Join(hooks, ","))}, true)
			}
			// directed: a hook that ignores its context and outlives the exit wait time, on both transports
			t.Do(In{Nn(5), Nn(0), Nn(150), Nn(1), S("5,2650")}, true)
			t.Do(In{Nn(6), Nn(1), Nn(150), Nn(2), S("2650")}, true)
			// directed: standard transport, slow OnAccept, connections accepted right before the shutdown call
			t.Do(In{Nn(7), Nn(0), Nn(600), Nn(2), S("1"), Nn(40)}, true)
			t.Do(In{Nn(8), Nn(0), Nn(600), Nn(1), S(""), Nn(25)}, true)
			// directed: an idle server (the transport is drained at once) and a hook well within the exit wait time
			t.Do(In{Nn(9), Nn(0), Nn(1200), Nn(0), S("200")}, true)
			t.Do(In{Nn(10), Nn(1), Nn(1200), Nn(0), S("1,250")}, true)
			t.Do(In{Nn(11), Nn(0), Nn(1200), Nn(1), S("120")}, true)
			// directed: hooks run side by side — a hook that outlives the exit wait time does not keep a later one from
			// starting, and hooks that each fit into the exit wait time all finish within it
			t.Do(In{Nn(12), Nn(0), Nn(150), Nn(1), S("2650,5")}, true)
			t.Do(In{Nn(13), Nn(1), Nn(400), Nn(0), S("900,1,1")}, true)
			t.Do(In{Nn(14), Nn(0), Nn(1200), Nn(0), S("500,500,500")}, true)
			t.Do(In{Nn(15), Nn(1), Nn(1200), Nn(2), S("450,450,450,450")}, true)
			// directed: the service registry fails to deregister — Shutdown reports it, the hooks have run all the same
			t.Do(In{Nn(16), Nn(0), Nn(400), Nn(1), S("1,40"), Nn(0), Nn(1)}, true)
			t.Do(In{Nn(17), Nn(1), Nn(400), Nn(0), S("1"), Nn(0), Nn(1)}, true)
		}})
}

var c18mu sync.Mutex

func init() {
	register(&Unit{Name: "c18.double", Props: []string{"C18"},
		// in: transport, number of concurrent Shutdown callers held together after the status load
		Check: func(t *T, in In) []Finding {
			c18mu.Lock()
			defer c18mu.Unlock()
			n := in.N(1)
			s := c18start(in.N(0), 300*time.Millisecond, nil)
			var arrived int32
			release := make(chan struct{})
			route.VerifYield = func(site string) {
				if site != "shutdown.loaded" {
					return
				}
				if int(atomic.AddInt32(&arrived, 1)) == n {
					close(release)
				}
				select {
				case <-release:
				case <-time.After(2 * time.Second):
				}
			}
			defer func() { route.VerifYield = nil }()
			errs := make([]error, n)
			var wg sync.WaitGroup
			for i := 0; i < n; i++ {
				wg.Add(1)
				go func(i int) {
					defer wg.Done()
					errs[i] = s.h.Shutdown(context.Background())
				}(i)
			}
			wg.Wait()
			nils := 0
			for _, e := range errs {
				if e == nil {
					nils++
				}
			}
			var fs []Finding
			if nils != 1 {
				fs = append(fs, Finding{Kind: "oracle", Unit: "c18.double", Class: "second-shutdown-reported-no-error",
					Impl: fmt.Sprintf("%d of %d concurrent Shutdown calls returned nil: %v", nils, n, errs)})
			}
			// and a shutdown of a server that is not running (any more)
			if err := s.h.Shutdown(context.Background()); err == nil {
				fs = append(fs, Finding{Kind: "oracle", Unit: "c18.double", Class: "shutdown-of-a-stopped-server-reported-no-error"})
			}
			return fs
		},
		Gen: func(t *T) {
			for _, tr := range []int{0, 1} {
				for _, n := range []int{2, 3} {
					t.Do(In{Nn(tr), Nn(n)}, true)
				}
			}
		}})
}

// ---- sequentialised histories of the real server (standard transport) against Model/Shutdown.v ----
type c18conn struct {
	c  net.Conn
	br *bufio.Reader
	id int
}

func init() {
	register(&Unit{Name: "c18.seq", Props: []string{"C18"}, ShrinkOps: true, KeepPrefix: 0,
		// ops: conn | req:<k> | rel:<k>:<keep> | drop:<k> | shutdown | expire   (k picks among the eligible connections)
		Check: func(t *T, in In) []Finding {
			c18mu.Lock()
			defer c18mu.Unlock()
			const exitWait = 700 * time.Millisecond
			s := c18start(0, exitWait, []int{1})
			var conns []*c18conn
			state := map[int]string{} // idle | busy | gone
			type sd struct {
				done chan struct{}
				err  error
				dur  time.Duration
			}
			var sds []*sd
			var resps []string
			var mops, outs []string
			mops = append(mops, "run")
			lnOpen := func() bool {
				c, err := net.DialTimeout("tcp", s.addr, 150*time.Millisecond)
				if err != nil {
					return false
				}
				// an accepted connection answers; a refused or reset one does not
				c.SetDeadline(time.Now().Add(150 * time.Millisecond))
				fmt.Fprint(c, "GET /w?id=probe HTTP/1.1\r\nHost: h\r\nConnection: close\r\n\r\n")
				s.release("probe")
				res := c18read(bufio.NewReader(c), "probe")
				c.Close()
				return res.complete
			}
			_ = lnOpen
			snapshot := func() string {
				var sdl []string
				for _, x := range sds {
					select {
					case <-x.done:
						switch {
						case x.err != nil:
							sdl = append(sdl, "err")
						case x.dur < exitWait-100*time.Millisecond:
							sdl = append(sdl, "nil-drained")
						default:
							sdl = append(sdl, "nil-deadline")
						}
					default:
						sdl = append(sdl, "pending")
					}
				}
				return fmt.Sprintf("sd=%s resp=%s", strings.Join(sdl, ","), strings.Join(resps, ","))
			}
			pick := func(want string, k int) int {
				var el []int
				for i := range conns {
					if state[i] == want {
						el = append(el, i)
					}
				}
				if len(el) == 0 {
					return -1
				}
				return el[k%len(el)]
			}
			// wait until the observable state is the one the model predicts for the operations so far and stays
			// so for a moment (the poll loop ticks every 10 ms); give up after 3 s and report what was seen
			settle := func(mops []string) string {
				margs := [][]byte{}
				for _, m := range mops {
					margs = append(margs, []byte(m))
				}
				lines := strings.Split(t.M.Call("shutdown_script", margs...), ";")
				want := lines[len(lines)-1]
				want = want[strings.Index(want, " ")+1:]
				deadline := time.Now().Add(3 * time.Second)
				stable := 0
				for time.Now().Before(deadline) {
					time.Sleep(8 * time.Millisecond)
					if snapshot() == want {
						stable++
						if stable >= 4 {
							return want
						}
					} else {
						stable = 0
					}
				}
				return snapshot() + " (settled; model expects: " + want + ")"
			}
			shutdownStarted, expired := false, false
			var fs []Finding
			for _, f := range in {
				o := strings.Split(f[2:], ":")
				k := 0
				if len(o) > 1 {
					fmt.Sscanf(o[1], "%d", &k)
				}
				switch o[0] {
				case "conn":
					if shutdownStarted {
						continue // the listener is closed: covered by c18.race's dial check
					}
					c, err := net.DialTimeout("tcp", s.addr, time.Second)
					if err != nil {
						fs = append(fs, Finding{Kind: "oracle", Unit: "c18.seq", Class: "cannot-connect-before-shutdown", Impl: err.Error()})
						return fs
					}
					c.SetDeadline(time.Now().Add(10 * time.Second))
					conns = append(conns, &c18conn{c: c, br: bufio.NewReader(c), id: len(conns)})
					state[len(conns)-1] = "idle"
					mops = append(mops, "conn")
				case "req":
					i := pick("idle", k)
					if i < 0 {
						continue
					}
					id := fmt.Sprintf("c%dr%d", i, len(mops))
					conns[i].id = len(mops)
					fmt.Fprintf(conns[i].c, "GET /w?id=%s HTTP/1.1\r\nHost: h\r\n\r\n", id)
					for j := 0; j < 400; j++ {
						if _, ok := s.arrived.Load(id); ok {
							break
						}
						time.Sleep(time.Millisecond)
					}
					state[i] = "busy"
					mops = append(mops, fmt.Sprintf("req:%d", i))
				case "rel":
					i := pick("busy", k)
					if i < 0 {
						continue
					}
					keep := len(o) > 2 && o[2] == "1"
					id := fmt.Sprintf("c%dr%d", i, conns[i].id)
					if !keep {
						// the handler cannot be told per request here: a non-keep-alive exchange is a client that closes after the response
					}
					s.release(id)
					res := c18read(conns[i].br, id)
					if !res.complete {
						fs = append(fs, Finding{Kind: "oracle", Unit: "c18.seq", Class: "received-request-without-a-complete-response", Impl: id + ": " + res.err})
						return fs
					}
					if res.close {
						resps = append(resps, fmt.Sprintf("%dc", i))
						state[i] = "gone"
						conns[i].c.Close()
					} else {
						resps = append(resps, fmt.Sprintf("%dk", i))
						state[i] = "idle"
					}
					mops = append(mops, fmt.Sprintf("rel:%d:1", i))
				case "drop":
					i := pick("idle", k)
					if i < 0 {
						continue
					}
					conns[i].c.Close()
					state[i] = "gone"
					mops = append(mops, fmt.Sprintf("drop:%d", i))
				case "shutdown":
					x := &sd{done: make(chan struct{})}
					sds = append(sds, x)
					go func() {
						t0 := time.Now()
						x.err = s.h.Shutdown(context.Background())
						x.dur = time.Since(t0)
						close(x.done)
					}()
					shutdownStarted = true
					mops = append(mops, "shutdown")
				case "expire":
					if !shutdownStarted || expired {
						continue
					}
					pending := false
					for _, x := range sds {
						select {
						case <-x.done:
						default:
							pending = true
						}
					}
					if !pending {
						continue
					}
					expired = true
					time.Sleep(exitWait + 60*time.Millisecond)
					mops = append(mops, "expire")
				default:
					continue
				}
				outs = append(outs, settle(mops))
			}
			for i, c := range conns {
				if state[i] == "busy" {
					s.release(fmt.Sprintf("c%dr%d", i, c.id))
				}
				c.c.Close()
			}
			if !shutdownStarted {
				s.h.Shutdown(context.Background())
			}
			for _, x := range sds {
				select {
				case <-x.done:
				case <-time.After(3 * time.Second):
					fs = append(fs, Finding{Kind: "oracle", Unit: "c18.seq", Class: "shutdown-hangs"})
					return fs
				}
			}
			margs := [][]byte{}
			for _, m := range mops {
				margs = append(margs, []byte(m))
			}
			modAll := strings.Split(t.M.Call("shutdown_script", margs...), ";")
			// the model also reports the listener; drop it and the leading `run` line
			var mod []string
			for _, l := range modAll[1:] {
				mod = append(mod, l[strings.Index(l, " ")+1:])
			}
			if strings.Contains(strings.Join(outs, ";"), "nil-deadline") {
				t.Count("histories/shutdown-ended-by-deadline")
			}
			if strings.Contains(strings.Join(outs, ";"), "nil-drained") {
				t.Count("histories/shutdown-drained")
			}
			if strings.Contains(strings.Join(outs, ";"), "err") {
				t.Count("histories/second-shutdown-error")
			}
			if strings.Contains(strings.Join(outs, ";"), "c") {
				t.Count("histories/response-with-connection-close")
			}
			if impl := strings.Join(outs, ";"); impl != strings.Join(mod, ";") {
				fs = append(fs, Finding{Kind: "corr", Unit: "c18.seq", Class: "shutdown_script", Impl: impl, Model: strings.Join(mod, ";"), Note: strings.Join(mops, " ")})
			}
			return fs
		},
		Gen: func(t *T) {
			for i := 0; i < t.Scale(25, 150); i++ {
				var in In
				nc := 0
				sdAt := 2 + t.R.Intn(6)
				for j, n := 0, 5+t.R.Intn(8); j < n; j++ {
					switch k := t.R.Intn(12); {
					case j == sdAt:
						in = append(in, S("shutdown"))
					case k < 3 && nc < 3:
						in = append(in, S("conn"))
						nc++
					case k < 6:
						in = append(in, S(fmt.Sprintf("req:%d", t.R.Intn(3))))
					case k < 9:
						in = append(in, S(fmt.Sprintf("rel:%d:1", t.R.Intn(3))))
					case k < 10:
						in = append(in, S(fmt.Sprintf("drop:%d", t.R.Intn(3))))
					case k < 11:
						in = append(in, S("shutdown"))
					default:
						in = append(in, S("expire"))
					}
				}
				t.Do(in, true)
			}
		}})
}
