package main

import (
	"fmt"
	"strings"

	"github.com/cloudwego/hertz/pkg/protocol/http1/ext"
)

func init() {
	register(&Unit{Name: "c01.scanner", Props: []string{"C01", "C02"},
		// in: header block bytes (everything after the request / status line)
		Check: func(t *T, in In) []Finding {
			block := in.B(0)
			var s ext.HeaderScanner
			s.B = append([]byte{}, block...)
			var fields []string
			for i := 0; s.Next() && i < 10000; i++ {
				fields = append(fields, fmt.Sprintf("%x=%x", s.Key, s.Value))
			}
			var impl string
			switch {
			case s.Err == nil:
				impl = fmt.Sprintf("OK %s | %d", strings.Join(fields, ";"), s.HLen)
			case strings.Contains(s.Err.Error(), "invalid header name"):
				impl = "INVALID " + strings.Join(fields, ";")
			default:
				impl = "MORE " + strings.Join(fields, ";")
			}
			t.Count("outcome/" + strings.SplitN(impl, " ", 2)[0])
			if mod := t.M.Call("header_scan", block); mod != impl {
				return []Finding{{Kind: "corr", Unit: "c01.scanner", Class: "header_scan", Impl: impl, Model: mod}}
			}
			return nil
		},
		Gen: func(t *T) {
			names := []string{"Host", "content-length", "X-A", "x-b", "Transfer-Encoding", "a", "A b", "", "X\tY", "x_y", "Set-Cookie"}
			values := []string{"v", "", "a b", " lead", "trail ", "a:b", "1", "chunked", "x\ty", "é"}
			eols := []string{"\r\n", "\r\n", "\r\n", "\n"}
			folds := []string{"\r\n more", "\n\tmore", "\r\n x: y", "\r\n  ", "\r\n\t\tz", "\n q"}
			alpha := []byte("a: \t\r\n-bX")
			for i := 0; i < t.Scale(6000, 150000); i++ {
				var sb strings.Builder
				for j, n := 0, t.R.Intn(5); j < n; j++ {
					sb.WriteString(names[t.R.Intn(len(names))])
					if t.R.Intn(12) != 0 {
						sb.WriteString(":")
					}
					sb.WriteString(strings.Repeat(" ", t.R.Intn(3)))
					sb.WriteString(values[t.R.Intn(len(values))])
					for t.R.Intn(5) == 0 {
						sb.WriteString(folds[t.R.Intn(len(folds))])
					}
					sb.WriteString(eols[t.R.Intn(len(eols))])
				}
				if t.R.Intn(6) != 0 {
					sb.WriteString(eols[t.R.Intn(len(eols))])
				}
				if t.R.Intn(3) == 0 {
					sb.WriteString("body bytes")
				}
				b := []byte(sb.String())
				switch t.R.Intn(6) {
				case 0: // truncate
					if len(b) > 0 {
						b = b[:t.R.Intn(len(b))]
					}
				case 1: // mutate one byte
					if len(b) > 0 {
						b[t.R.Intn(len(b))] = alpha[t.R.Intn(len(alpha))]
					}
				case 2: // random soup
					b = make([]byte, t.R.Intn(14))
					for k := range b {
						b[k] = alpha[t.R.Intn(len(alpha))]
					}
				}
				t.Do(In{H(b)}, true)
			}
		}})
}
