package main

import (
	"fmt"
	"strings"
)

// c14.badtrailer: a chunked, streamed request whose trailer section the server refuses (a forbidden field, a line
// that is no header field).  The handler reads the body to its end; whatever the refused trailer section held is
// body-side data of a broken message and must never be served as a request: the connection ends there.
func init() {
	register(&Unit{Name: "c14.badtrailer", Props: []string{"C14", "C01"},
		// in: trailer section text (after the last-chunk line), read size of the handler, fragment size
		Check: func(t *T, in In) []Finding {
			trailer := in.S(0)
			wire := "POST /up HTTP/1.1\r\nHost: h\r\nTransfer-Encoding: chunked\r\n\r\n3\r\nabc\r\n4\r\ndefg\r\n0\r\n" + trailer
			var frags [][]byte
			if in.N(2) <= 0 {
				frags = [][]byte{[]byte(wire)}
			} else {
				frags = fragEvery([]byte(wire), in.N(2))
			}
			obs := runPipe(frags, pipeCfg{streaming: true, consume: []int{in.N(1), -1}})
			var fs []Finding
			smuggled := false
			for _, h := range obs.handled {
				if strings.Contains(h, "/smuggled") {
					smuggled = true
				}
			}
			if smuggled || len(obs.handled) > 1 {
				fs = append(fs, Finding{Kind: "oracle", Unit: "c14.badtrailer", Class: "bytes-of-a-refused-trailer-section-served-as-a-request", Impl: truncate(obs.String(), 500)})
			}
			if obs.err != nil && strings.HasPrefix(obs.err.Error(), "PANIC") {
				fs = append(fs, Finding{Kind: "oracle", Unit: "c14.badtrailer", Class: "panic", Impl: obs.err.Error()})
			}
			t.Count(fmt.Sprintf("handled/%d", len(obs.handled)))
			return fs
		},
		Gen: func(t *T) {
			next := "GET /smuggled HTTP/1.1\r\nHost: x\r\n\r\n"
			for _, tr := range []string{next, "Host: x\r\n\r\n" + next, "Content-Length: 5\r\n\r\n" + next, "Transfer-Encoding: chunked\r\n\r\n" + next,
				"no colon here\r\n\r\n" + next, "X-T: v\r\nHost: y\r\n\r\n" + next, " leading: space\r\n\r\n" + next, "Trailer: X\r\n\r\n" + next} {
				for _, rd := range []int{1, 3, 7, 100} {
					for _, fr := range []int{0, 1, 5} {
						t.Do(In{S(tr), Nn(rd), Nn(fr)}, true)
					}
				}
			}
		}})
}
