package main

import (
	"fmt"
	"bytes"
	"encoding/hex"
	"net/url"
	"strings"

	"github.com/cloudwego/hertz/pkg/protocol"
	"github.com/cloudwego/hertz/pkg/verifexport"
)

var hostileArg = toks("%", "+", "&", "=", ";", "#", "?", "/", " ", "\x00", "\xe9", "a", "%2", "%41", "%zz", "%2B")

func init() {
	register(&Unit{Name: "c17.quote", Props: []string{"C17"},
		Check: func(t *T, in In) []Finding {
			s := in.B(0)
			impl := string(verifexport.AppendQuotedArg(nil, s))
			mod := t.M.Call("quote", s)
			var fs []Finding
			if impl != mod {
				fs = append(fs, Finding{Kind: "corr", Unit: "c17.quote", Class: "quote", Impl: impl, Model: mod})
			}
			// oracle: decoding the quoted form gives the argument back (real code both ways)
			back := string(protocol.VerifDecodeArgAppend(nil, []byte(impl)))
			if back != string(s) {
				fs = append(fs, Finding{Kind: "oracle", Unit: "c17.quote", Class: "unquote-quote", Impl: back, Expect: string(s)})
			}
			// oracle: net/url decodes it to the same bytes
			if u, err := url.QueryUnescape(impl); err != nil || u != string(s) {
				fs = append(fs, Finding{Kind: "oracle", Unit: "c17.quote", Class: "quote-vs-neturl", Impl: impl, Expect: string(s)})
			}
			return fs
		},
		Gen: func(t *T) {
			for c := 0; c < 256; c++ {
				t.Do(In{H([]byte{byte(c)})}, true)
			}
			enumStrings(hostileArg[:12], t.Scale(3, 4), func(s []byte) { t.Do(In{H(s)}, len(s) > 0) })
			for i := 0; i < t.Scale(20000, 300000); i++ {
				s := randFrom(t.R, hostileArg, t.R.Intn(24))
				t.Do(In{H(s)}, len(s) > 0)
			}
		}})

	register(&Unit{Name: "c17.decode", Props: []string{"C17", "C07"},
		Check: func(t *T, in In) []Finding {
			s := in.B(0)
			var fs []Finding
			impl := string(protocol.VerifDecodeArgAppend(nil, s))
			mod := t.M.Call("decode_arg", s)
			if impl != mod {
				fs = append(fs, Finding{Kind: "corr", Unit: "c17.decode", Class: "decode_arg", Impl: impl, Model: mod})
			}
			impl2 := string(protocol.VerifDecodeArgAppendNoPlus(nil, s))
			mod2 := t.M.Call("decode_noplus", s)
			if impl2 != mod2 {
				fs = append(fs, Finding{Kind: "corr", Unit: "c17.decode", Class: "decode_noplus", Impl: impl2, Model: mod2})
			}
			// oracle: agreement with net/url on every string net/url accepts
			if u, err := url.QueryUnescape(string(s)); err == nil && u != impl {
				fs = append(fs, Finding{Kind: "oracle", Unit: "c17.decode", Class: "decode-vs-neturl", Impl: impl, Expect: u})
			}
			if u, err := url.PathUnescape(string(s)); err == nil && u != impl2 {
				fs = append(fs, Finding{Kind: "oracle", Unit: "c17.decode", Class: "decode-noplus-vs-neturl", Impl: impl2, Expect: u})
			}
			return fs
		},
		Gen: func(t *T) {
			enumStrings(hostileArg, t.Scale(3, 4), func(s []byte) { t.Do(In{H(s)}, bytes.ContainsAny(s, "%+")) })
			hexish := toks("%", "0", "9", "a", "f", "A", "F", "g", "G", "/", ":", "@", "`", "+", "x")
			for i := 0; i < t.Scale(30000, 400000); i++ {
				s := randFrom(t.R, hexish, t.R.Intn(16))
				t.Do(In{H(s)}, bytes.ContainsAny(s, "%+"))
			}
		}})

	register(&Unit{Name: "c17.args_parse", Props: []string{"C17"},
		Check: func(t *T, in In) []Finding {
			s := in.B(0)
			var a protocol.Args
			a.ParseBytes(s)
			var parts []string
			var keys, vals []string
			a.VisitAll(func(k, v []byte) {
				parts = append(parts, hex.EncodeToString(k)+":"+hex.EncodeToString(v))
				keys = append(keys, string(k))
				vals = append(vals, string(v))
			})
			impl := strings.Join(parts, ",")
			raw := t.M.Call("args_parse", s)
			var ms []string
			if raw != "" {
				for _, e := range strings.Split(raw, ",") {
					f := strings.Split(e, ":")
					if len(f) >= 2 {
						ms = append(ms, f[0]+":"+f[1])
					}
				}
			}
			var fs []Finding
			if impl != strings.Join(ms, ",") {
				fs = append(fs, Finding{Kind: "corr", Unit: "c17.args_parse", Class: "args_parse", Impl: impl, Model: raw})
			}
			// re-encoding (exposes noValue) against the model's encode∘parse
			re := string(a.QueryString())
			mre := t.M.Call("args_reencode", s)
			if re != mre {
				fs = append(fs, Finding{Kind: "corr", Unit: "c17.args_parse", Class: "args_reencode", Impl: re, Model: mre})
			}
			// oracle: agrees with net/url on every string net/url accepts (ordered key/value list,
			// entries with empty key and value excepted)
			if exp, ok := neturlPairs(string(s)); ok {
				var got []string
				for i := range keys {
					got = append(got, keys[i]+"\x00"+vals[i])
				}
				if strings.Join(got, "\x01") != strings.Join(exp, "\x01") {
					fs = append(fs, Finding{Kind: "oracle", Unit: "c17.args_parse", Class: "args-vs-neturl", Impl: strings.Join(got, "|"), Expect: strings.Join(exp, "|")})
				}
			}
			return fs
		},
		Gen: func(t *T) {
			enumStrings(hostileArg[:12], t.Scale(4, 5), func(s []byte) { t.Do(In{H(s)}, bytes.ContainsAny(s, "&=")) })
			for i := 0; i < t.Scale(30000, 400000); i++ {
				s := randFrom(t.R, hostileArg, t.R.Intn(20))
				t.Do(In{H(s)}, bytes.ContainsAny(s, "&="))
			}
		}})

	register(&Unit{Name: "c17.args_roundtrip", Props: []string{"C17"},
		Check: func(t *T, in In) []Finding {
			// in: alternating key, value fields.  Run on fresh objects and on recycled ones (slots that held value-less
			// keys resp. other pairs before a Reset): the encoding and the round trip must not depend on it
			var fs []Finding
			var qs []byte
			for pass := 0; pass < 2; pass++ {
				var a, b protocol.Args
				if pass == 1 {
					a.ParseBytes([]byte("flag&other&x&y&z&w"))
					a.Reset()
					b.ParseBytes([]byte("p=1&q=2&r=3&s=4&t&u=6"))
					b.Reset()
				}
				var exp []string
				for i := 0; i+1 < len(in); i += 2 {
					k, v := in.B(i), in.B(i+1)
					a.Add(string(k), string(v))
					if len(k) > 0 || len(v) > 0 {
						exp = append(exp, string(k)+"\x00"+string(v))
					}
				}
				enc := a.QueryString()
				if pass == 0 {
					qs = append([]byte(nil), enc...)
				} else if string(enc) != string(qs) {
					fs = append(fs, Finding{Kind: "oracle", Unit: "c17.args_roundtrip", Class: "encoding-differs-on-a-recycled-object", Impl: string(enc), Expect: string(qs)})
				}
				b.ParseBytes(append([]byte(nil), enc...))
				var got []string
				b.VisitAll(func(k, v []byte) { got = append(got, string(k)+"\x00"+string(v)) })
				if strings.Join(got, "\x01") != strings.Join(exp, "\x01") {
					fs = append(fs, Finding{Kind: "oracle", Unit: "c17.args_roundtrip", Class: "args-roundtrip", Impl: strings.Join(got, "|"), Expect: strings.Join(exp, "|"), Note: fmt.Sprintf("encoded=%s (pass %d)", enc, pass)})
				}
			}
			// model encode of the same list
			margs := make([][]byte, 0, len(in))
			for i := range in {
				margs = append(margs, in.B(i))
			}
			if m := t.M.Call("args_encode", margs...); m != string(qs) {
				fs = append(fs, Finding{Kind: "corr", Unit: "c17.args_roundtrip", Class: "args_encode", Impl: string(qs), Model: m})
			}
			return fs
		},
		Gen: func(t *T) {
			small := toks("", "a", "=", "&", "%", "+", " ", "\x00")
			for _, k1 := range small {
				for _, v1 := range small {
					t.Do(In{H(k1), H(v1)}, true)
					for _, k2 := range small {
						for _, v2 := range small {
							t.Do(In{H(k1), H(v1), H(k2), H(v2)}, true)
						}
					}
				}
			}
			for i := 0; i < t.Scale(10000, 200000); i++ {
				n := 1 + t.R.Intn(4)
				var in In
				for j := 0; j < n; j++ {
					in = append(in, H(randFrom(t.R, hostileArg, t.R.Intn(5))), H(randFrom(t.R, hostileArg, t.R.Intn(5))))
				}
				t.Do(in, true)
			}
		}})
}

// neturlPairs: ordered (key,value) list as net/url reads it, or false when net/url rejects.
// url.ParseQuery loses order, so the split is redone here with url.QueryUnescape per part
// (the same rule ParseQuery applies), rejecting ';' as ParseQuery does.
func neturlPairs(q string) ([]string, bool) {
	if _, err := url.ParseQuery(q); err != nil {
		return nil, false
	}
	var out []string
	for q != "" {
		var part string
		part, q, _ = strings.Cut(q, "&")
		if part == "" {
			continue
		}
		k, v, _ := strings.Cut(part, "=")
		k1, err1 := url.QueryUnescape(k)
		v1, err2 := url.QueryUnescape(v)
		if err1 != nil || err2 != nil {
			return nil, false
		}
		if k1 == "" && v1 == "" {
			continue
		}
		out = append(out, k1+"\x00"+v1)
	}
	return out, true
}
