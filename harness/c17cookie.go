package main

import (
	"fmt"
	"net/http"
	"strings"

	"github.com/cloudwego/hertz/pkg/protocol"
)

// c17.cookiemodel: Cookie.ParseBytes and Cookie.AppendBytes against Model/Cookie.v on arbitrary Set-Cookie
// texts: every field of the parsed cookie and the string form of the parsed cookie are compared.  Expires values
// are drawn from canonical HTTP dates only (the model carries the date as text).
func init() {
	register(&Unit{Name: "c17.cookiemodel", Props: []string{"C17"},
		Check: func(t *T, in In) []Finding {
			src := in.B(0)
			c := protocol.AcquireCookie()
			defer protocol.ReleaseCookie(c)
			c.Parse("old=1; Domain=old.example; Path=/old; Max-Age=5; HttpOnly; Secure; SameSite=Strict; Partitioned")
			impl := "ERR"
			if err := c.ParseBytes(append([]byte(nil), src...)); err == nil {
				ex := ""
				if !c.Expire().IsZero() {
					ex = fmt.Sprintf("%x", c.Expire().UTC().Format(http.TimeFormat))
				}
				b2i := func(b bool) string {
					if b {
						return "1"
					}
					return "0"
				}
				impl = fmt.Sprintf("OK k=%x v=%x ma=%d ex=%s d=%x p=%x h=%s s=%s ss=%d pt=%s | %x",
					c.Key(), c.Value(), c.MaxAge(), ex, c.Domain(), c.Path(), b2i(c.HTTPOnly()), b2i(c.Secure()), int(c.SameSite()), b2i(c.Partitioned()), c.AppendBytes(nil))
			}
			mod := t.M.Call("cookie_parse_script", src)
			if impl != mod {
				return []Finding{{Kind: "corr", Unit: "c17.cookiemodel", Class: "cookie_parse_script", Impl: impl, Model: mod}}
			}
			if impl == "ERR" {
				t.Count("error")
			} else {
				t.Count("parsed")
			}
			return nil
		},
		Gen: func(t *T) {
			pick := func(v ...string) string { return v[t.R.Intn(len(v))] }
			for i := 0; i < t.Scale(4000, 100000); i++ {
				var segs []string
				first := pick("a", "sid", "k y", " lead", "", "a=b", "A") + pick("=", "=", "=", "", " = ") + pick("v", "", "\"q\"", "a b", "x=y", " sp ", "\"", "\"\"", "%41")
				if t.R.Intn(12) == 0 {
					first = pick("", " ", "novalue", "=", "=v")
				}
				segs = append(segs, first)
				for j, n := 0, t.R.Intn(7); j < n; j++ {
					switch t.R.Intn(12) {
					case 0:
						segs = append(segs, pick("Max-Age", "max-age", "MAX-AGE", "maxage", "m")+"="+pick("0", "5", "3600", "-1", "x", "", "9223372036854775807", "9223372036854775808", "1 2"))
					case 1:
						segs = append(segs, pick("Expires", "expires", "EXPIRES")+"="+pick("Tue, 10 Nov 2009 23:00:00 GMT", "Mon, 01 Jan 2024 00:00:00 GMT", "Fri, 31 Dec 2100 23:59:59 GMT", "Thu, 01 Jan 1970 00:00:00 GMT", "Wed, 31 Dec 1969 23:59:59 GMT", "Thu, 01 Jan 1970 00:00:01 GMT", "Mon, 01 Jan 1900 00:00:00 GMT"))
					case 2:
						segs = append(segs, pick("Domain", "domain", "DOMAIN", "dom")+"="+pick("example.com", ".x.org", "", "\"q.com\"", "a b"))
					case 3:
						segs = append(segs, pick("Path", "path", "PATH", "pa")+"="+pick("/", "/a/b", "", "/a b", "\"/q\"", "/x=y"))
					case 4:
						segs = append(segs, pick("HttpOnly", "httponly", "HTTPONLY", "http"))
					case 5:
						segs = append(segs, pick("Secure", "secure", "SECURE", "sec"))
					case 6:
						segs = append(segs, pick("SameSite", "samesite")+pick("", "=", "=Lax", "=lax", "=Strict", "=STRICT", "=None", "=none", "=l", "=zzz", "=Laxx"))
					case 7:
						segs = append(segs, pick("Partitioned", "partitioned", "part"))
					case 8:
						segs = append(segs, pick("", " ", "x", "x=y", "=z", "s=1", "e=2", "p", "h=1"))
					default:
						segs = append(segs, pick("Max-Age=7", "Path=/p", "Domain=d.example", "Secure", "HttpOnly", "SameSite=Lax"))
					}
				}
				s := strings.Join(segs, pick("; ", "; ", ";", " ; ", ";  "))
				if t.R.Intn(10) == 0 {
					s += pick(";", "; ", " ")
				}
				t.Do(In{H([]byte(s))}, true)
			}
		}})
}
