package main

import (
	"context"
	"fmt"
	"io"
	"strings"

	"github.com/cloudwego/hertz/pkg/app"
	"github.com/cloudwego/hertz/pkg/app/middlewares/server/recovery"
	"github.com/cloudwego/hertz/pkg/common/config"
	"github.com/cloudwego/hertz/pkg/common/tracer/stats"
	"github.com/cloudwego/hertz/pkg/network"
	"github.com/cloudwego/hertz/pkg/route"
)

// c19.data: "every finish carries that request's data".  Several connections are served one after the other by ONE
// engine (contexts, trace infos and stats objects are recycled between them); what each Finish call sees — the
// request path, whether an error / a panic is recorded, the bytes received and sent, which stages are present —
// must be what the same connection gives on an engine that has served nothing before.
type dataTracer struct{ log *[]string }

func (r dataTracer) Start(ctx context.Context, c *app.RequestContext) context.Context {
	*r.log = append(*r.log, "S")
	return ctx
}

func (r dataTracer) Finish(ctx context.Context, c *app.RequestContext) {
	st := c.GetTraceInfo().Stats()
	var present []string
	for i, e := range c19Stages {
		if ev := st.GetEvent(e); ev != nil && !ev.IsNil() {
			present = append(present, c19StageNames[i])
		}
	}
	errs := "-"
	if st.Error() != nil {
		errs = "err"
	}
	pan := "-"
	if p, _ := st.Panicked(); p {
		pan = "panicked"
	}
	*r.log = append(*r.log, fmt.Sprintf("F:%s:%s:%s:%s:recv=%d:send=%d", c.Request.URI().Path(), strings.Join(present, ","), errs, pan, st.RecvSize(), st.SendSize()))
}

func c19dataEngine(level stats.Level, log *[]string, cur **scriptConn) *route.Engine {
	e := newRunningEngine(func(o *config.Options) {
		o.Tracers = append(o.Tracers, dataTracer{log})
		o.TraceLevel = level
		o.MaxRequestBodySize = 64
		o.NoDefaultDate = true
	})
	e.Use(recovery.Recovery())
	e.Any("/*p", func(c context.Context, ctx *app.RequestContext) {
		if ctx.Query("panic") != "" {
			panic("boom")
		}
		if ctx.Query("big") != "" {
			sc := *cur
			sc.mu.Lock()
			sc.writeErrAfter = sc.out.Len()
			sc.mu.Unlock()
		}
		if ctx.Query("hijack") != "" {
			ctx.Hijack(func(c network.Conn) {})
		}
		if ctx.Query("exile") != "" {
			ctx.Exile()
		}
		ctx.SetStatusCode(200)
	})
	startEngine(e)
	return e
}

func c19dataServe(e *route.Engine, cur **scriptConn, hist string) {
	var stream []byte
	end := byte('E')
	n := 0
	for i := 0; i < len(hist); i++ {
		if hist[i] == 'E' || hist[i] == 'T' {
			end = hist[i]
			continue
		}
		n++
		stream = append(stream, c19Request(n, hist[i])...)
	}
	sc := newScriptConn([][]byte{stream})
	sc.endErr = io.EOF
	if end == 'T' {
		sc.endErr = timeoutErr{}
	}
	*cur = sc
	serveScript(e, sc)
}

func init() {
	register(&Unit{Name: "c19.data", Props: []string{"C19"},
		// in: connection histories separated by '|' (alphabet of c19.history), level
		Check: func(t *T, in In) []Finding {
			level := stats.LevelDetailed
			if in.N(1) == 1 {
				level = stats.LevelBase
			}
			conns := strings.Split(in.S(0), "|")
			var log []string
			var cur *scriptConn
			e := c19dataEngine(level, &log, &cur)
			var fs []Finding
			for j, h := range conns {
				log = nil
				c19dataServe(e, &cur, h)
				got := strings.Join(log, " ")
				var flog []string
				var fcur *scriptConn
				fe := c19dataEngine(level, &flog, &fcur)
				c19dataServe(fe, &fcur, h)
				if want := strings.Join(flog, " "); got != want {
					fs = append(fs, Finding{Kind: "oracle", Unit: "c19.data", Class: "finish-data-differs-from-a-fresh-engine", Impl: got, Expect: want,
						Note: fmt.Sprintf("connection %d (%s) after %s", j+1, h, strings.Join(conns[:j], "|"))})
					break
				}
				if strings.Contains(got, ":err:") {
					t.Count("finish/with-error")
				}
				if strings.Contains(got, ":panicked:") {
					t.Count("finish/panicked")
				}
			}
			return fs
		},
		Gen: func(t *T) {
			outs := "kcpmbtwhx"
			// every pair of single-request connections, both levels; then random longer ones
			for _, a := range outs {
				for _, b := range outs {
					for lvl := 0; lvl < 2; lvl++ {
						t.Do(In{S(string(a) + "E|" + string(b) + "E"), Nn(lvl)}, true)
						t.Do(In{S("k" + string(a) + "T|k" + string(b) + "E|kE"), Nn(lvl)}, true)
					}
				}
			}
			for i := 0; i < t.Scale(200, 5000); i++ {
				var cs []string
				for c, nc := 0, 2+t.R.Intn(3); c < nc; c++ {
					n := 1 + t.R.Intn(3)
					b := make([]byte, n)
					for j := range b {
						b[j] = "kkpx"[t.R.Intn(4)]
					}
					b[n-1] = outs[t.R.Intn(len(outs))]
					cs = append(cs, string(b)+string("ET"[t.R.Intn(2)]))
				}
				t.Do(In{S(strings.Join(cs, "|")), Nn(t.R.Intn(2))}, true)
			}
		}})
}
