package main

import (
	"bytes"
	"fmt"
	"os"
	"path/filepath"
	"strconv"
	"strings"
	"sync"

	"github.com/cloudwego/hertz/pkg/app"
	"github.com/cloudwego/hertz/pkg/common/config"
	"github.com/cloudwego/hertz/pkg/route"
)

type c08tree struct {
	root   string
	files  map[string][]byte // relative path -> content
	secret []byte
}

var (
	c08once sync.Once
	c08t    *c08tree
	c08engs = map[string]*route.Engine{}
)

func c08Tree() *c08tree {
	c08once.Do(func() {
		base, err := os.MkdirTemp("", "verif-c08-")
		if err != nil {
			panic(err)
		}
		atExit(func() { os.RemoveAll(base) })
		t := &c08tree{root: filepath.Join(base, "root"), files: map[string][]byte{}}
		os.MkdirAll(filepath.Join(t.root, "dir"), 0o755)
		os.MkdirAll(filepath.Join(t.root, "noindex"), 0o755)
		os.MkdirAll(filepath.Join(t.root, "many"), 0o755)
		mk := func(rel string, n int) {
			b := make([]byte, n)
			for i := range b {
				b[i] = byte('a' + (i*7+n)%26)
			}
			os.WriteFile(filepath.Join(t.root, rel), b, 0o644)
			t.files[rel] = b
		}
		mk("empty.txt", 0)
		mk("one.txt", 1)
		mk("five.txt", 5)
		mk("f8191.bin", 8191)
		mk("f8192.bin", 8192)
		mk("f8193.bin", 8193)
		mk("big.bin", 70001)
		mk("dir/index.html", 33)
		mk("dir/inner.txt", 12)
		mk("noindex/x.txt", 3)
		for i := 0; i < 150; i++ { // a directory whose generated index page is larger than a "small file" (8 KiB)
			mk(fmt.Sprintf("many/entry-with-a-long-name-%03d.txt", i), 2)
		}
		t.secret = []byte("TOP-SECRET-OUTSIDE-THE-ROOT")
		os.WriteFile(filepath.Join(base, "secret.txt"), t.secret, 0o644)
		os.WriteFile(filepath.Join(base, "index.html"), t.secret, 0o644) // what a listing of the root's parent would serve
		c08t = t
	})
	return c08t
}

func c08Engine(opts string) *route.Engine {
	if e, ok := c08engs[opts]; ok {
		return e
	}
	t := c08Tree()
	e := newRunningEngine(func(o *config.Options) { o.NoDefaultDate = true })
	fs := &app.FS{Root: t.root, AcceptByteRange: strings.Contains(opts, "R"), GenerateIndexPages: strings.Contains(opts, "G")}
	if strings.Contains(opts, "I") {
		fs.IndexNames = []string{"index.html"}
	}
	e.StaticFS("/", fs)
	startEngine(e)
	c08engs[opts] = e
	return e
}

// expected outcome of a Range header on a file of length n (numeric single-range forms exactly;
// everything else leniently)
func c08Expect(rng string, n int) (exact bool, status, a, b int) {
	if rng == "" {
		return true, 200, 0, n - 1
	}
	if !strings.HasPrefix(rng, "bytes=") {
		return false, 0, 0, 0
	}
	spec := rng[6:]
	i := strings.IndexByte(spec, '-')
	if i < 0 {
		return false, 0, 0, 0
	}
	num := func(s string) (int, bool) {
		if s == "" || len(s) > 15 {
			return 0, false
		}
		for _, c := range s {
			if c < '0' || c > '9' {
				return 0, false
			}
		}
		v, _ := strconv.Atoi(s)
		return v, true
	}
	fs, ls := spec[:i], spec[i+1:]
	switch {
	case fs == "":
		v, ok := num(ls)
		if !ok {
			return false, 0, 0, 0
		}
		if v == 0 || n == 0 {
			return true, 416, 0, 0
		}
		st := n - v
		if st < 0 {
			st = 0
		}
		return true, 206, st, n - 1
	default:
		st, ok := num(fs)
		if !ok {
			return false, 0, 0, 0
		}
		if ls == "" {
			if st >= n {
				return true, 416, 0, 0
			}
			return true, 206, st, n - 1
		}
		en, ok := num(ls)
		if !ok {
			return false, 0, 0, 0
		}
		if st >= n || en < st {
			return true, 416, 0, 0
		}
		if en >= n {
			en = n - 1
		}
		return true, 206, st, en
	}
}

func init() {
	register(&Unit{Name: "c08.fs", Props: []string{"C08"},
		// in: options, method, raw path, range header
		Check: func(t *T, in In) []Finding {
			tr := c08Tree()
			opts, method, rawPath, rng := in.S(0), in.S(1), string(in.B(2)), string(in.B(3))
			e := c08Engine(opts)
			reqb := method + " " + rawPath + " HTTP/1.1\r\nHost: h\r\nConnection: close\r\n"
			if rng != "" {
				reqb += "Range: " + rng + "\r\n"
			}
			reqb += "\r\n"
			out, err := serveScript(e, newScriptConn([][]byte{[]byte(reqb)}))
			var fs []Finding
			bad := func(class, note string) {
				fs = append(fs, Finding{Kind: "oracle", Unit: "c08.fs", Class: class, Impl: string(out[:min(len(out), 300)]), Note: note})
			}
			if err != nil && strings.HasPrefix(err.Error(), "PANIC") {
				bad("panic", err.Error())
				return fs
			}
			if bytes.Contains(out, tr.secret) {
				bad("served-file-outside-root", "")
				return fs
			}
			// split head/body
			i := bytes.Index(out, []byte("\r\n\r\n"))
			if i < 0 {
				if len(out) == 0 {
					return nil // rejected before a response (malformed target): C03's business
				}
				bad("no-header-block", "")
				return fs
			}
			fields, why := strictBlock(out[:i+4], true)
			if why != "" {
				bad("header-block:"+why, "")
				return fs
			}
			status, _ := strconv.Atoi(strings.SplitN(string(out[:i]), " ", 3)[1])
			body := out[i+4:]
			hdr := func(n string) string {
				for _, f := range fields {
					if strings.EqualFold(f[0], n) {
						return f[1]
					}
				}
				return ""
			}
			cl, clErr := strconv.Atoi(hdr("Content-Length"))
			if method == "HEAD" {
				if len(body) != 0 {
					bad("head-with-body", "")
				}
			} else if clErr != nil || cl != len(body) {
				bad("content-length-differs-from-body", fmt.Sprintf("Content-Length=%q body=%d", hdr("Content-Length"), len(body)))
			}
			// which file does the path denote (independent resolution, C07's stack spec)
			if hasCTL([]byte(rawPath)) || strings.ContainsAny(rawPath, "?#") {
				return fs
			}
			res := strings.TrimPrefix(stackSpec([]byte(rawPath)), "/")
			content, isFile := tr.files[res]
			if strings.HasSuffix(res, "/") || res == "" {
				if strings.Contains(opts, "I") {
					content, isFile = tr.files[res+"index.html"]
				} else {
					isFile = false
				}
				if !isFile {
					return fs // directory handling (listing / 403 / 404) is not pinned down here
				}
			}
			if !isFile {
				if _, isDir := map[string]bool{"dir": true, "noindex": true, "many": true}[res]; isDir {
					return fs // redirect to dir/
				}
				if strings.Contains(res, "\x00") && status == 400 {
					return fs // a decoded NUL is refused outright
				}
				if status != 404 {
					bad("missing-file-not-404", fmt.Sprintf("status=%d path=%q resolved=%q", status, rawPath, res))
				}
				return fs
			}
			eff := rng
			if !strings.Contains(opts, "R") {
				eff = ""
			}
			exact, st, a, b := c08Expect(eff, len(content))
			if !exact {
				if !(status == 416 || status == 200 && (method == "HEAD" || bytes.Equal(body, content))) {
					bad("malformed-range-neither-ignored-nor-416", fmt.Sprintf("status=%d", status))
				}
				return fs
			}
			if status != st {
				bad("wrong-status", fmt.Sprintf("status=%d expected=%d range=%q len=%d", status, st, eff, len(content)))
				return fs
			}
			switch st {
			case 200:
				if method != "HEAD" && !bytes.Equal(body, content) {
					bad("body-differs-from-file", "")
				}
				if cl != len(content) {
					bad("content-length-not-file-length", fmt.Sprintf("%d vs %d", cl, len(content)))
				}
			case 206:
				if method != "HEAD" && !bytes.Equal(body, content[a:b+1]) {
					bad("body-is-not-the-requested-slice", fmt.Sprintf("range=%q len=%d got %d bytes", eff, len(content), len(body)))
				}
				if cl != b-a+1 {
					bad("content-length-not-slice-length", fmt.Sprintf("%d vs %d", cl, b-a+1))
				}
				if want := fmt.Sprintf("bytes %d-%d/%d", a, b, len(content)); hdr("Content-Range") != want {
					bad("content-range-header", fmt.Sprintf("%q vs %q", hdr("Content-Range"), want))
				}
			}
			return fs
		},
		Gen: func(t *T) {
			paths := []string{"/five.txt", "/empty.txt", "/one.txt", "/f8191.bin", "/f8192.bin", "/f8193.bin", "/big.bin", "/dir/inner.txt", "/dir/", "/dir", "/noindex/", "/many/", "/many", "/missing",
				"/../secret.txt", "/%2e%2e/secret.txt", "/dir/../../secret.txt", "/dir/%2e%2e/%2e%2e/secret.txt", "/dir/..%2f..%2fsecret.txt", "//five.txt", "/./five.txt",
				"/dir/../five.txt", "/dir/%2e%2e/five.txt", "/five.txt/", "/%2e%2e%2fsecret.txt", "/..", "/dir/..", "/%66ive.txt", "/five.txt%00", "/\\..\\secret.txt"}
			var ranges []string
			nums := []string{"", "0", "1", "2", "4", "5", "6", "8190", "8191", "8192", "8193", "70000", "70001", "99999999999999999999", "x"}
			for _, a := range nums {
				for _, b := range nums {
					ranges = append(ranges, "bytes="+a+"-"+b)
				}
			}
			ranges = append(ranges, "", "bytes=0-1,3-4", "lines=0-1", "bytes=", "bytes", "bytes=-", "bytes= 0-1", "bytes=0 -1")
			quickRanges := []string{"", "bytes=0-0", "bytes=1-3", "bytes=-1", "bytes=-0", "bytes=2-", "bytes=5-", "bytes=4-2", "bytes=0-99999", "bytes=-99999", "bytes=8191-8192", "bytes=8192-", "bytes=x-1", "bytes=0-1,3-4", "lines=0-1"}
			for _, opts := range []string{"R", "RI", "", "RIG"} {
				for _, m := range []string{"GET", "HEAD"} {
					for _, p := range paths {
						rs := quickRanges
						if t.Thorough() {
							rs = ranges
						}
						for _, r := range rs {
							t.Do(In{S(opts), S(m), H([]byte(p)), H([]byte(r))}, true)
						}
					}
				}
			}
			// the full range table on the small files, twice (second pass hits the file cache)
			for pass := 0; pass < 2; pass++ {
				for _, p := range []string{"/five.txt", "/empty.txt", "/one.txt", "/f8192.bin", "/big.bin"} {
					for _, r := range ranges {
						t.Do(In{S("R"), S([]string{"GET", "HEAD"}[pass]), H([]byte(p)), H([]byte(r))}, true)
					}
				}
			}
			// range then plain request of the same big file on one handler (pooled readers)
			for i := 0; i < t.Scale(300, 5000); i++ {
				p := []string{"/big.bin", "/f8193.bin", "/f8192.bin", "/five.txt"}[t.R.Intn(4)]
				r := ranges[t.R.Intn(len(ranges))]
				t.Do(In{S("R"), S([]string{"GET", "HEAD"}[t.R.Intn(2)]), H([]byte(p)), H([]byte(r))}, true)
				t.Do(In{S("R"), S("GET"), H([]byte(p)), H(nil)}, true)
			}
		}})
}

func min(a, b int) int {
	if a < b {
		return a
	}
	return b
}
