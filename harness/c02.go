package main

import (
	"fmt"
	"math/rand"
	"strings"

	"github.com/cloudwego/hertz/pkg/network/standard"
	"github.com/cloudwego/hertz/pkg/protocol"
	"github.com/cloudwego/hertz/pkg/protocol/http1/resp"
)

// the streams whose every segmentation must give the same observation
var c02Corpus = []string{
	"GET /a HTTP/1.1\r\nHost: h\r\n\r\nGET /b HTTP/1.1\r\nHost: h\r\n\r\n",
	"POST /c HTTP/1.1\r\nHost: h\r\nContent-Length: 5\r\n\r\nhelloGET /d HTTP/1.1\r\nHost: h\r\n\r\n",
	"POST /e HTTP/1.1\r\nHost: h\r\nTransfer-Encoding: chunked\r\nTrailer: X-T\r\n\r\n3\r\nabc\r\n2\r\nde\r\n0\r\nX-T: v\r\n\r\nGET /f HTTP/1.1\r\nHost: h\r\n\r\n",
	"POST /g HTTP/1.1\r\nHost: h\r\nExpect: 100-continue\r\nContent-Length: 3\r\n\r\nabcGET /h HTTP/1.1\r\nHost: h\r\n\r\n",
	"POST /i HTTP/1.1\r\nHost: h\r\nX-Fold: a\r\n b\r\nContent-Length: 5\r\n\r\nhelloGET /j HTTP/1.1\r\nHost: h\r\n\r\n",
	"POST /k HTTP/1.1\r\nHost: h\r\nX-Fold: a\r\n\tb\r\n c\r\nX-After: z\r\nTransfer-Encoding: chunked\r\n\r\n1\r\nq\r\n0\r\n\r\nGET /l HTTP/1.1\r\nHost: h\r\n\r\n",
	"GET /m HTTP/1.1\nHost: h\n\nGET /n HTTP/1.1\r\nHost: h\r\n\r\n",
	"POST /o HTTP/1.1\r\nHost: h\r\nContent-Type: multipart/form-data; boundary=B\r\nContent-Length: 62\r\n\r\n--B\r\nContent-Disposition: form-data; name=\"a\"\r\n\r\nvvvvv\r\n--B--\r\nGET /p HTTP/1.1\r\nHost: h\r\n\r\n",
	// a multipart form that ends before its declared length (epilogue behind the closing boundary)
	"POST /o2 HTTP/1.1\r\nHost: h\r\nContent-Type: multipart/form-data; boundary=B\r\nContent-Length: 78\r\n\r\n--B\r\nContent-Disposition: form-data; name=\"a\"\r\n\r\nvvvvv\r\n--B--\r\nepilogue-bytes\r\nGET /p2 HTTP/1.1\r\nHost: h\r\n\r\n",
	"POST /q HTTP/1.1\r\nHost: h\r\nContent-Length: 5\r\n\r\nhel", // truncated
	"GET /r HTTP/1.1\r\nHost h\r\n\r\n",                           // malformed
	"POST /s HTTP/1.1\r\nHost: h\r\nTransfer-Encoding: chunked\r\n\r\nzz\r\n",
	"\r\n\r\nGET /t HTTP/1.1\r\nHost: h\r\n\r\n",
	"GET /u HTTP/1.1\r\nHost: h\r\nCookie: a=b; c=d\r\nCookie: e=f\r\nConnection: close\r\n\r\nGET /v HTTP/1.1\r\nHost: h\r\n\r\n",
}

var c02RespCorpus = []string{
	"HTTP/1.1 200 OK\r\nContent-Length: 5\r\nX-A: b\r\n\r\nhello",
	"HTTP/1.1 200 OK\r\nTransfer-Encoding: chunked\r\nTrailer: X-T\r\n\r\n3\r\nabc\r\n2\r\nde\r\n0\r\nX-T: v\r\n\r\n",
	"HTTP/1.1 100 Continue\r\n\r\nHTTP/1.1 204 No Content\r\nX-A: b\r\n\r\n",
	"HTTP/1.1 200 OK\r\nX-Fold: a\r\n b\r\nX-After: z\r\nContent-Length: 2\r\n\r\nok",
	"HTTP/1.1 200 OK\r\nx-fold: one\r\n two\r\n\tthree\r\n four\r\ncontent-length: 2\r\nX-After: z\r\n\r\nok",
	"HTTP/1.1 200 OK\r\nSet-Cookie: a=b; Path=/\r\nSet-Cookie: c=d\r\nConnection: close\r\n\r\nuntil-close-body",
	"HTTP/1.1 304 Not Modified\r\nContent-Length: 10\r\n\r\n",
	"HTTP/1.1 200 OK\r\nContent-Length: 5\r\n\r\nhel",
	"HTTP/1.1 200 OK\nContent-Length: 2\n\nok",
	"HTTP/1.1 200\r\nContent-Length: x\r\n\r\n",
}

func c02ClientObs(frags [][]byte, noNorm ...bool) string {
	var r protocol.Response
	if len(noNorm) > 0 && noNorm[0] { // a client with DisableHeaderNamesNormalizing
		r.Header.DisableNormalizing()
	}
	sc := newScriptConn(frags)
	conn := standard.NewConnForVerif(sc, 4096)
	err := resp.Read(&r, conn)
	if err != nil {
		return "ERR " + errClass(err)
	}
	var hs []string
	r.Header.VisitAll(func(k, v []byte) { hs = append(hs, string(k)+"="+string(v)) })
	var ts []string
	r.Header.Trailer().VisitAll(func(k, v []byte) { ts = append(ts, string(k)+"="+string(v)) })
	return fmt.Sprintf("%d close=%v [%s] body=%q trailers=[%s] left=%d", r.StatusCode(), r.ConnectionClose(), strings.Join(hs, "|"), r.Body(), strings.Join(ts, "|"), conn.Len()+sc.Unread())
}

// errClass: diagnostics quote the buffer, whose content at the time of the error depends on the
// segmentation; only the kind of error is an observation
func errClass(err error) string {
	s := err.Error()
	for _, k := range []string{"body size exceeds", "unexpected EOF", "EOF", "idle timeout", "short connection", "hijacked", "nothing read", "timeout"} {
		if strings.Contains(s, k) {
			return k
		}
	}
	if i := strings.Index(s, ": "); i >= 0 {
		s = s[:i]
	}
	return s
}

func obsClass(o pipeObs) string {
	e := "nil"
	if o.err != nil {
		e = errClass(o.err)
	}
	return strings.Join(o.handled, "\n") + "\n--out--\n" + string(o.out) + "\n--err--\n" + e
}

func init() {
	register(&Unit{Name: "c02.server", Props: []string{"C02"},
		// in: stream, split spec ("2:<k>" two-way at k, "1" bytewise, "r:<seed>:<k>" random k-way), streaming
		Check: func(t *T, in In) []Finding {
			wire := in.B(0)
			cfg := pipeCfg{streaming: in.N(2)&1 == 1, maxBody: 0, noNorm: in.N(2)&2 != 0} // bit 1: DisableHeaderNamesNormalizing
			whole := obsClass(runPipe([][]byte{wire}, cfg))
			var frags [][]byte
			spec := in.S(1)
			switch {
			case spec == "1":
				frags = fragEvery(wire, 1)
			case strings.HasPrefix(spec, "2:"):
				var k int
				fmt.Sscanf(spec, "2:%d", &k)
				frags = splitAt(wire, k)
			default:
				var seed int64
				var k int
				fmt.Sscanf(spec, "r:%d:%d", &seed, &k)
				frags = fragRandom(rand.New(rand.NewSource(seed)), wire, k)
			}
			got := obsClass(runPipe(frags, cfg))
			if got != whole {
				return []Finding{{Kind: "oracle", Unit: "c02.server", Class: "segmentation-changes-the-outcome", Impl: truncate(got, 500), Expect: truncate(whole, 500)}}
			}
			return nil
		},
		Gen: func(t *T) {
			var streams [][]byte
			for _, s := range c02Corpus {
				streams = append(streams, []byte(s))
			}
			for i := 0; i < t.Scale(12, 200); i++ { // generated pipelines, rendered with variations
				r := rand.New(rand.NewSource(int64(t.R.Intn(1 << 30))))
				var w []byte
				for j, n := 0, 1+r.Intn(3); j < n; j++ {
					w = append(w, genReq(r, j, false).render(renderStyle{r})...)
				}
				streams = append(streams, w)
			}
			for i := 0; i < t.Scale(10, 300); i++ { // malformed: mutations of corpus streams
				streams = append(streams, c03Mutate(t, []byte(c02Corpus[t.R.Intn(len(c02Corpus))]), toks("\r\n", "\n", " ", ":", "\r\n ", "0", "Content-Length: 3")))
			}
			for _, w := range streams {
				for st := 0; st < 2; st++ {
					if len(w) <= 700 || t.Thorough() {
						for k := 1; k < len(w); k++ { // every two-way split
							t.Do(In{H(w), S(fmt.Sprintf("2:%d", k)), Nn(st)}, true)
						}
					} else {
						for j := 0; j < 200; j++ {
							t.Do(In{H(w), S(fmt.Sprintf("2:%d", 1+t.R.Intn(len(w)-1))), Nn(st)}, true)
						}
					}
					t.Do(In{H(w), S("1"), Nn(st)}, true)
					t.Do(In{H(w), S("1"), Nn(st + 2)}, true)
					for j := 0; j < 5; j++ {
						t.Do(In{H(w), S(fmt.Sprintf("r:%d:%d", t.R.Intn(1<<30), 2+t.R.Intn(6))), Nn(st + 2*(j%2))}, true)
					}
				}
			}
		}})

	register(&Unit{Name: "c02.client", Props: []string{"C02"},
		Check: func(t *T, in In) []Finding {
			wire := in.B(0)
			noNorm := len(in) > 2 && in.N(2) == 1
			whole := c02ClientObs([][]byte{wire}, noNorm)
			var frags [][]byte
			spec := in.S(1)
			switch {
			case spec == "1":
				frags = fragEvery(wire, 1)
			case strings.HasPrefix(spec, "2:"):
				var k int
				fmt.Sscanf(spec, "2:%d", &k)
				frags = splitAt(wire, k)
			default:
				var seed int64
				var k int
				fmt.Sscanf(spec, "r:%d:%d", &seed, &k)
				frags = fragRandom(rand.New(rand.NewSource(seed)), wire, k)
			}
			if got := c02ClientObs(frags, noNorm); got != whole {
				return []Finding{{Kind: "oracle", Unit: "c02.client", Class: "segmentation-changes-the-response", Impl: truncate(got, 400), Expect: truncate(whole, 400)}}
			}
			return nil
		},
		Gen: func(t *T) {
			var streams [][]byte
			for _, s := range c02RespCorpus {
				streams = append(streams, []byte(s))
			}
			for i := 0; i < t.Scale(20, 400); i++ {
				streams = append(streams, c03Mutate(t, []byte(c02RespCorpus[t.R.Intn(len(c02RespCorpus))]), toks("\r\n", "\n", " ", ":", "\r\n ", "0", "Content-Length: 3", "chunked")))
			}
			for _, w := range streams {
				for nn := 0; nn < 2; nn++ { // header names normalised (default) and kept as received
					for k := 1; k < len(w); k++ {
						t.Do(In{H(w), S(fmt.Sprintf("2:%d", k)), Nn(nn)}, true)
					}
					t.Do(In{H(w), S("1"), Nn(nn)}, true)
					for j := 0; j < 5; j++ {
						t.Do(In{H(w), S(fmt.Sprintf("r:%d:%d", t.R.Intn(1<<30), 2+t.R.Intn(6))), Nn(nn)}, true)
					}
				}
			}
		}})
}
