package main

import (
	"bytes"
	"context"
	"errors"
	"fmt"
	"io"
	"net"
	"os"
	"regexp"
	"runtime/debug"
	"sync"
	"time"

	"github.com/cloudwego/hertz/pkg/common/config"
	"github.com/cloudwego/hertz/pkg/common/hlog"
	"github.com/cloudwego/hertz/pkg/network"
	"github.com/cloudwego/hertz/pkg/network/standard"
	"github.com/cloudwego/hertz/pkg/route"
)

func init() {
	hlog.SetOutput(io.Discard)
	hlog.SetLevel(hlog.LevelFatal)
	_ = os.Stderr
}

// fakeTransporter: no listener; it lets the engine be "running" without a socket.
type fakeTransporter struct{}

func (fakeTransporter) Close() error                               { return nil }
func (fakeTransporter) Shutdown(ctx context.Context) error         { return nil }
func (fakeTransporter) ListenAndServe(onData network.OnData) error { select {} }

// newRunningEngine builds a real route.Engine (real http1 server inside), marks it running.
func newRunningEngine(mod func(o *config.Options)) *route.Engine {
	opt := config.NewOptions(nil)
	opt.TransporterNewer = func(*config.Options) network.Transporter { return fakeTransporter{} }
	if mod != nil {
		mod(opt)
	}
	e := route.NewEngine(opt)
	return e
}

func startEngine(e *route.Engine) {
	if err := e.Init(); err != nil {
		panic(err)
	}
	if err := e.MarkAsRunning(); err != nil {
		panic(err)
	}
}

type timeoutErr struct{}

func (timeoutErr) Error() string   { return "i/o timeout" }
func (timeoutErr) Timeout() bool   { return true }
func (timeoutErr) Temporary() bool { return true }

// scriptConn is a net.Conn fed from a list of fragments; writes are captured.
type scriptConn struct {
	mu            sync.Mutex
	frags         [][]byte
	endErr        error // returned once the fragments are exhausted (default io.EOF)
	out           bytes.Buffer
	writeErrAfter int // fail writes once this many bytes were written (<0: never)
	closed        bool
	reads         int
	endReads      int // reads that found the script exhausted: on a network these wait for bytes the peer never sends
	// onRead, if set, is called before each Read with the number of bytes written so far
	onRead func(written int)
}

func newScriptConn(frags [][]byte) *scriptConn {
	cp := make([][]byte, 0, len(frags))
	for _, f := range frags {
		if len(f) > 0 {
			cp = append(cp, append([]byte(nil), f...))
		}
	}
	return &scriptConn{frags: cp, endErr: io.EOF, writeErrAfter: -1}
}

func (c *scriptConn) Read(p []byte) (int, error) {
	c.mu.Lock()
	defer c.mu.Unlock()
	c.reads++
	if c.onRead != nil {
		c.onRead(c.out.Len())
	}
	if c.closed {
		return 0, errors.New("use of closed connection")
	}
	if len(c.frags) == 0 {
		c.endReads++
		return 0, c.endErr
	}
	n := copy(p, c.frags[0])
	if n == len(c.frags[0]) {
		c.frags = c.frags[1:]
	} else {
		c.frags[0] = c.frags[0][n:]
	}
	return n, nil
}

func (c *scriptConn) Write(p []byte) (int, error) {
	c.mu.Lock()
	defer c.mu.Unlock()
	if c.closed {
		return 0, errors.New("use of closed connection")
	}
	if c.writeErrAfter >= 0 && c.out.Len()+len(p) > c.writeErrAfter {
		return 0, errors.New("broken pipe")
	}
	return c.out.Write(p)
}
func (c *scriptConn) Close() error { c.mu.Lock(); c.closed = true; c.mu.Unlock(); return nil }
func (c *scriptConn) LocalAddr() net.Addr {
	return &net.TCPAddr{IP: net.IPv4(127, 0, 0, 1), Port: 8888}
}
func (c *scriptConn) RemoteAddr() net.Addr {
	return &net.TCPAddr{IP: net.IPv4(127, 0, 0, 1), Port: 9999}
}
func (c *scriptConn) SetDeadline(t time.Time) error      { return nil }
func (c *scriptConn) SetReadDeadline(t time.Time) error  { return nil }
func (c *scriptConn) SetWriteDeadline(t time.Time) error { return nil }
func (c *scriptConn) Output() []byte {
	c.mu.Lock()
	defer c.mu.Unlock()
	return append([]byte(nil), c.out.Bytes()...)
}
func (c *scriptConn) Unread() int {
	c.mu.Lock()
	defer c.mu.Unlock()
	n := 0
	for _, f := range c.frags {
		n += len(f)
	}
	return n
}

// serveScript runs the engine's real connection loop over a scripted connection.
func serveScript(e *route.Engine, sc *scriptConn) (out []byte, err error) {
	conn := standard.NewConnForVerif(sc, 4096)
	done := make(chan struct{})
	go func() {
		defer close(done)
		defer func() {
			if r := recover(); r != nil {
				err = fmt.Errorf("PANIC in Serve: %v\n%s", r, debugStack())
			}
		}()
		err = e.Serve(context.Background(), conn)
	}()
	select {
	case <-done:
	case <-time.After(20 * time.Second):
		return maskDate(sc.Output()), errors.New("harness: Serve did not return within 20s (blocked)")
	}
	return maskDate(sc.Output()), err
}

var dateLine = regexp.MustCompile(`(?m)^Date: [^\r\n]*`)

// maskDate blanks the wall-clock value of Date header fields (error responses carry one even with
// NoDefaultDate), so that two runs of the same input compare equal across a second boundary.
func maskDate(b []byte) []byte { return dateLine.ReplaceAll(b, []byte("Date: -")) }

// splitAt cuts b at the given offsets (sorted, within range).
func splitAt(b []byte, cuts ...int) [][]byte {
	var out [][]byte
	prev := 0
	for _, c := range cuts {
		if c < prev || c > len(b) {
			continue
		}
		out = append(out, b[prev:c])
		prev = c
	}
	return append(out, b[prev:])
}

func debugStack() string {
	if os.Getenv("VERIF_STACK") == "" {
		return ""
	}
	return string(debug.Stack())
}
