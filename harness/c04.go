package main

import (
	"bufio"
	"bytes"
	"context"
	"fmt"
	"io"
	"net/http"
	"strconv"
	"strings"

	"github.com/cloudwego/hertz/pkg/app"
	"github.com/cloudwego/hertz/pkg/common/config"
	"github.com/cloudwego/hertz/pkg/protocol/http1/resp"
)

type c04parsed struct {
	status  int
	headers [][2]string
	body    []byte
	chunked bool
	cl      int
}

// c04Parse: independent strict reader of a sequence of responses; methods[i] is the method of
// the request response i answers (HEAD responses carry no body whatever they declare)
func c04Parse(out []byte, methods []string) ([]c04parsed, string) {
	var rs []c04parsed
	for i := 0; len(out) > 0; i++ {
		end := bytes.Index(out, []byte("\r\n\r\n"))
		if end < 0 {
			return rs, "trailing-bytes-not-a-response"
		}
		fields, why := strictBlock(out[:end+4], true)
		if why != "" {
			return rs, "header-block:" + why
		}
		first := string(out[:bytes.Index(out, []byte("\r\n"))])
		p := strings.SplitN(first, " ", 3)
		if len(p) < 2 || p[0] != "HTTP/1.1" || len(p[1]) != 3 {
			return rs, "bad-status-line"
		}
		st, err := strconv.Atoi(p[1])
		if err != nil {
			return rs, "bad-status-line"
		}
		r := c04parsed{status: st, headers: fields, cl: -1}
		out = out[end+4:]
		nCL := 0
		for _, f := range fields {
			if strings.EqualFold(f[0], "Content-Length") {
				nCL++
				r.cl, err = strconv.Atoi(f[1])
				if err != nil || r.cl < 0 {
					return rs, "bad-content-length"
				}
			}
			if strings.EqualFold(f[0], "Transfer-Encoding") {
				if !strings.EqualFold(f[1], "chunked") {
					return rs, "unknown-transfer-encoding"
				}
				r.chunked = true
			}
		}
		if nCL > 1 {
			return rs, "duplicate-content-length"
		}
		if r.chunked && r.cl >= 0 {
			return rs, "both-content-length-and-chunked"
		}
		method := "GET"
		if i < len(methods) {
			method = methods[i]
		}
		switch {
		case method == "HEAD" || st/100 == 1 || st == 204 || st == 304:
			// no body, whatever the headers say
		case r.chunked:
			for {
				j := bytes.Index(out, []byte("\r\n"))
				if j <= 0 {
					return rs, "chunk-size-line"
				}
				n, err := strconv.ParseUint(string(out[:j]), 16, 32)
				if err != nil {
					return rs, "chunk-size-line"
				}
				out = out[j+2:]
				if n == 0 {
					break
				}
				if int(n)+2 > len(out) || out[n] != '\r' || out[n+1] != '\n' {
					return rs, "chunk-data-or-terminator"
				}
				r.body = append(r.body, out[:n]...)
				out = out[n+2:]
			}
			// trailer section
			for {
				j := bytes.Index(out, []byte("\r\n"))
				if j < 0 {
					return rs, "missing-final-crlf-after-last-chunk"
				}
				line := out[:j]
				out = out[j+2:]
				if len(line) == 0 {
					break
				}
				if !bytes.Contains(line, []byte(": ")) {
					return rs, "bad-trailer-line"
				}
			}
		case r.cl >= 0:
			if r.cl > len(out) {
				return rs, "body-shorter-than-content-length"
			}
			r.body = out[:r.cl]
			out = out[r.cl:]
		default:
			return rs, "no-framing-on-a-response-with-body"
		}
		rs = append(rs, r)
	}
	return rs, ""
}

func (r c04parsed) get(name string) string {
	for _, f := range r.headers {
		if strings.EqualFold(f[0], name) {
			return f[1]
		}
	}
	return ""
}

// one response program: "status|mode|size|method|hdr"
type c04prog struct {
	status int
	mode   string
	size   int
	method string
	hdr    bool
	script []int // chunked writer: write sizes, 0 = flush
}

func c04ParseProg(s string) c04prog {
	f := strings.Split(s, "|")
	p := c04prog{}
	p.status, _ = strconv.Atoi(f[0])
	p.mode = f[1]
	p.size, _ = strconv.Atoi(f[2])
	p.method = f[3]
	p.hdr = f[4] == "1"
	if len(f) > 5 {
		p.script = parseInts(f[5])
	}
	return p
}

func c04Body(n, salt int) []byte {
	b := make([]byte, n)
	pat := "HTTP/1.1 200 OK\r\n\r\n0\r\n\r\nabc"
	for i := range b {
		b[i] = pat[(i+salt)%len(pat)]
	}
	return b
}

type onlyReader struct{ r io.Reader }

func (o onlyReader) Read(p []byte) (int, error) { return o.r.Read(p) }

func (p c04prog) expectedBody(i int) []byte {
	switch p.mode {
	case "none":
		return nil
	case "chunkw":
		var b []byte
		off := 0
		for _, k := range p.script {
			if k > 0 {
				b = append(b, c04Body(off+k, i)[off:off+k]...)
				off += k
			}
		}
		return b
	default:
		return c04Body(p.size, i)
	}
}

func init() {
	register(&Unit{Name: "c04.responses", Props: []string{"C04"}, ShrinkOps: true, KeepPrefix: 1,
		// in: "proto:keepalive" then response programs
		Check: func(t *T, in In) []Finding {
			cfgs := strings.Split(in.S(0), ":")
			proto := cfgs[0]
			var progs []c04prog
			for i := 1; i < len(in); i++ {
				progs = append(progs, c04ParseProg(in.S(i)))
			}
			e := newRunningEngine(func(o *config.Options) { o.NoDefaultDate = true })
			idx := 0
			e.Any("/*p", func(c context.Context, ctx *app.RequestContext) {
				i := idx
				idx++
				if i >= len(progs) {
					return
				}
				p := progs[i]
				ctx.SetStatusCode(p.status)
				if p.hdr {
					ctx.Response.Header.Set("X-App", fmt.Sprintf("v%d", i))
					ctx.Response.Header.Set("Content-Type", "application/x-test")
				}
				body := c04Body(p.size, i)
				switch p.mode {
				case "body":
					ctx.SetBodyString(string(body))
				case "append":
					ctx.Response.AppendBody(body[:p.size/2])
					ctx.Write(body[p.size/2:])
				case "stream-known":
					ctx.SetBodyStream(onlyReader{bytes.NewReader(body)}, p.size)
				case "stream-longer": // the stream holds more than declared: only the declared length goes out
					ctx.SetBodyStream(onlyReader{bytes.NewReader(append(append([]byte(nil), body...), "EXTRA"...))}, p.size)
				case "stream-unknown":
					ctx.SetBodyStream(onlyReader{bytes.NewReader(body)}, -1)
				case "stream-noreset-known": // the twin of SetBodyStream that keeps what was set before
					ctx.Response.SetBodyStreamNoReset(onlyReader{bytes.NewReader(body)}, p.size)
				case "stream-noreset-unknown":
					ctx.Response.SetBodyStreamNoReset(onlyReader{bytes.NewReader(body)}, -1)
				case "stream-limited":
					ctx.SetBodyStream(&io.LimitedReader{R: bytes.NewReader(append(append([]byte(nil), body...), "EXTRA"...)), N: int64(p.size)}, -1)
				case "chunkw":
					w := resp.NewChunkedBodyWriter(&ctx.Response, ctx.GetWriter())
					ctx.Response.HijackWriter(w)
					off := 0
					for _, k := range p.script {
						if k == 0 {
							ctx.Flush()
						} else if k < 0 {
							ctx.Write(nil) // an empty write
						} else {
							ctx.Write(c04Body(off+k, i)[off : off+k])
							off += k
						}
					}
				case "none":
				}
			})
			startEngine(e)
			var wire []byte
			var methods []string
			for i, p := range progs {
				line := fmt.Sprintf("%s /r%d %s\r\nHost: h\r\n", p.method, i, proto)
				if proto == "HTTP/1.0" && cfgs[1] == "1" {
					line += "Connection: keep-alive\r\n"
				}
				if i == len(progs)-1 && cfgs[1] == "0" {
					line += "Connection: close\r\n"
				}
				wire = append(wire, (line + "\r\n")...)
				methods = append(methods, p.method)
			}
			out, err := serveScript(e, newScriptConn([][]byte{wire}))
			var fs []Finding
			bad := func(class, note string) {
				fs = append(fs, Finding{Kind: "oracle", Unit: "c04.responses", Class: class, Impl: truncate(string(out), 500), Note: note})
			}
			if err != nil && (strings.HasPrefix(err.Error(), "PANIC") || strings.HasPrefix(err.Error(), "harness:")) {
				bad("panic-or-blocked", err.Error())
				return fs
			}
			rs, why := c04Parse(out, methods)
			if why != "" {
				bad("not-a-sequence-of-well-formed-responses:"+why, "")
				return fs
			}
			served := idx
			if len(rs) != served {
				bad("response-count", fmt.Sprintf("%d responses for %d handled requests", len(rs), served))
				return fs
			}
			rd := bufio.NewReader(bytes.NewReader(out))
			for i, r := range rs {
				p := progs[i]
				exp := p.expectedBody(i)
				noBody := p.method == "HEAD" || p.status/100 == 1 || p.status == 204 || p.status == 304
				if noBody {
					exp = nil
				}
				if r.status != p.status {
					bad("status", fmt.Sprintf("response %d: %d, expected %d", i, r.status, p.status))
				}
				if !bytes.Equal(r.body, exp) {
					bad("body", fmt.Sprintf("response %d: %d bytes, expected %d (first difference at %d)", i, len(r.body), len(exp), firstDiff(r.body, exp)))
				}
				if !noBody && !r.chunked && r.cl != len(exp) {
					bad("content-length-differs-from-body", fmt.Sprintf("response %d: Content-Length %d, body %d", i, r.cl, len(exp)))
				}
				if p.hdr && (r.get("X-App") != fmt.Sprintf("v%d", i) || r.get("Content-Type") != "application/x-test") {
					bad("application-header-missing", fmt.Sprintf("response %d", i))
				}
				// second opinion: net/http reads the same bytes the same way
				hr, herr := http.ReadResponse(rd, &http.Request{Method: p.method})
				if herr != nil {
					bad("net/http-rejects-the-response", fmt.Sprintf("response %d: %v", i, herr))
					break
				}
				hb, herr := io.ReadAll(hr.Body)
				hr.Body.Close()
				if herr != nil || hr.StatusCode != p.status || !bytes.Equal(hb, exp) {
					bad("net/http-decodes-differently", fmt.Sprintf("response %d: status %d, %d body bytes, err %v", i, hr.StatusCode, len(hb), herr))
					break
				}
			}
			return fs
		},
		Gen: func(t *T) {
			statuses := []int{200, 201, 204, 206, 301, 304, 400, 404, 500, 101, 102}
			modes := []string{"body", "append", "stream-known", "stream-longer", "stream-unknown", "stream-limited", "none", "chunkw", "stream-noreset-known", "stream-noreset-unknown"}
			sizes := []int{0, 1, 5, 4095, 4096, 4097, 8191, 8192, 8193, 70000}
			methods := []string{"GET", "HEAD", "POST"}
			mk := func(st int, mode string, size int, method string, hdr int, script string) string {
				return fmt.Sprintf("%d|%s|%d|%s|%d|%s", st, mode, size, method, hdr, script)
			}
			scripts := []string{"", "3", "3,0,4", "0", "5,5,0,5", "4096,1,0", "1,0,1,0,1", "2,-1,3", "-1", "-1,0,4"}
			// single responses: status x mode x method x a few sizes
			for _, st := range statuses {
				for _, mode := range modes {
					if mode == "chunkw" && (st/100 == 1 || st == 204 || st == 304) {
						continue // documented exclusion: chunked writer on a body-less status
					}
					for _, m := range methods {
						if mode == "chunkw" && m == "HEAD" {
							continue // same exclusion: a response to HEAD may not have a body
						}
						for _, sz := range []int{0, 5, 4097} {
							script := ""
							if mode == "chunkw" {
								script = scripts[t.R.Intn(len(scripts))]
							}
							t.Do(In{S("HTTP/1.1:1"), S(mk(st, mode, sz, m, 1, script))}, true)
						}
					}
				}
			}
			for _, mode := range modes[:6] {
				for _, sz := range sizes {
					t.Do(In{S("HTTP/1.1:1"), S(mk(200, mode, sz, "GET", 0, ""))}, true)
					t.Do(In{S("HTTP/1.0:0"), S(mk(200, mode, sz, "GET", 0, ""))}, true)
				}
			}
			for _, sc := range scripts {
				for _, m := range []string{"GET", "POST"} {
					t.Do(In{S("HTTP/1.1:1"), S(mk(200, "chunkw", 0, m, 1, sc))}, true)
				}
			}
			// sequences of 2-3 responses on one connection
			for i := 0; i < t.Scale(1500, 30000); i++ {
				in := In{S([]string{"HTTP/1.1:1", "HTTP/1.1:0", "HTTP/1.0:1", "HTTP/1.0:0"}[t.R.Intn(4)])}
				for j, n := 0, 1+t.R.Intn(3); j < n; j++ {
					st := statuses[t.R.Intn(len(statuses))]
					mode := modes[t.R.Intn(len(modes))]
					if mode == "chunkw" && (st/100 == 1 || st == 204 || st == 304) {
						mode = "body"
					}
					sz := sizes[t.R.Intn(len(sizes))]
					if t.R.Intn(2) == 0 {
						sz = t.R.Intn(50)
					}
					script := ""
					if mode == "chunkw" {
						script = scripts[t.R.Intn(len(scripts))]
					}
					m := methods[t.R.Intn(3)]
					if mode == "chunkw" && m == "HEAD" {
						m = "GET"
					}
					in = append(in, S(mk(st, mode, sz, m, t.R.Intn(2), script)))
				}
				t.Do(in, true)
			}
		}})
}

func init() {
	register(&Unit{Name: "c04.units", Props: []string{"C04"},
		Check: func(t *T, in In) []Finding {
			var fs []Finding
			switch in.S(0) {
			case "skip":
				st := in.N(1)
				var h protocolResponseHeader
				h.SetStatusCode(st)
				impl := "0"
				if h.MustSkipContentLength() {
					impl = "1"
				}
				if mod := t.M.CallN("must_skip", st); impl != mod {
					fs = append(fs, Finding{Kind: "corr", Unit: "c04.units", Class: "must_skip", Impl: impl, Model: mod})
				}
				want := st >= 100 && st < 200 || st == 204 || st == 304
				if (impl == "1") != want {
					fs = append(fs, Finding{Kind: "oracle", Unit: "c04.units", Class: "bodyless-status-set-differs-from-rfc", Impl: impl, Note: fmt.Sprint(st)})
				}
			case "writer":
				// the bytes the hijacked chunked writer puts after the header block
				var writes [][]byte
				for i := 1; i < len(in); i++ {
					writes = append(writes, in.B(i))
				}
				sc := &srcConn{}
				conn := standardConnOver(sc)
				var r protocolResponse
				w := resp.NewChunkedBodyWriter(&r, conn)
				for _, p := range writes {
					w.Write(p)
				}
				w.Finalize()
				conn.Flush()
				out := sc.out.Bytes()
				i := bytes.Index(out, []byte("\r\n\r\n"))
				if i < 0 {
					return []Finding{{Kind: "oracle", Unit: "c04.units", Class: "chunked-writer-wrote-no-header", Impl: string(out)}}
				}
				body := out[i+4:]
				// Finalize also writes the (empty) trailer block: CRLF
				mod := t.M.Call("chunked_writer_body", writes...) + "\r\n"
				if string(body) != mod {
					fs = append(fs, Finding{Kind: "corr", Unit: "c04.units", Class: "chunked_writer_body", Impl: truncate(string(body), 300), Model: truncate(mod, 300)})
				}
			}
			return fs
		},
		Gen: func(t *T) {
			for st := -5; st <= 700; st++ {
				t.Do(In{S("skip"), Nn(st)}, true)
			}
			pool := toks("", "a", "0\r\n\r\n", "HTTP/1.1 200 OK\r\n\r\n", "xyz", "\r\n")
			enumStrings(pool, 0, func([]byte) {})
			var rec func(prefix In, d int)
			rec = func(prefix In, d int) {
				t.Do(prefix, len(prefix) > 1)
				if d == 4 {
					return
				}
				for _, p := range pool {
					rec(append(append(In(nil), prefix...), H(p)), d+1)
				}
			}
			rec(In{S("writer")}, 0)
			for i := 0; i < t.Scale(300, 5000); i++ {
				in := In{S("writer")}
				for j, n := 0, t.R.Intn(6); j < n; j++ {
					in = append(in, H(c04Body([]int{0, 1, 15, 16, 17, 255, 256, 4095, 4096, 5000}[t.R.Intn(10)], j)))
				}
				t.Do(in, true)
			}
		}})
}
