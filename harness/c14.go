package main

import (
	"bytes"
	"fmt"
	"strconv"
	"strings"
)

const c14Probe = "GET /probe HTTP/1.1\r\nHost: h\r\n\r\n"

func c14Body(n int) []byte {
	// bytes that look like chunk framing and like a request, so that a desynchronised server
	// would act on them
	pat := "0\r\n\r\nGET /evil HTTP/1.1\r\nHost: h\r\n\r\n5\r\nabc"
	b := make([]byte, n)
	for i := range b {
		b[i] = pat[i%len(pat)]
	}
	return b
}

// c14WireCorrupt: like c14Wire for a chunked body, but the CRLF that ends chunk `bad` is replaced
// by "XY": the body is broken behind the point where a handler that reads only the first
// chunk(s) stops; what follows must never be served
func c14WireCorrupt(body []byte, chunks []int, bad int) []byte {
	var b bytes.Buffer
	b.WriteString("POST /up HTTP/1.1\r\nHost: h\r\nTransfer-Encoding: chunked\r\n\r\n")
	off := 0
	for i, n := range chunks {
		fmt.Fprintf(&b, "%x\r\n", n)
		b.Write(body[off : off+n])
		if i == bad {
			// the chunk's CRLF and everything else of the body is missing: a request follows at once
			b.WriteString("GET /evil HTTP/1.1\r\nHost: h\r\n\r\n")
			return b.Bytes()
		} else {
			b.WriteString("\r\n")
		}
		off += n
	}
	b.WriteString("0\r\n\r\n")
	b.WriteString("GET /evil HTTP/1.1\r\nHost: h\r\n\r\n")
	return b.Bytes()
}

func c14Wire(body []byte, chunks []int) []byte {
	var b bytes.Buffer
	if chunks == nil {
		fmt.Fprintf(&b, "POST /up HTTP/1.1\r\nHost: h\r\nContent-Length: %d\r\n\r\n", len(body))
		b.Write(body)
	} else {
		b.WriteString("POST /up HTTP/1.1\r\nHost: h\r\nTransfer-Encoding: chunked\r\n\r\n")
		off := 0
		for _, n := range chunks {
			fmt.Fprintf(&b, "%x\r\n", n)
			b.Write(body[off : off+n])
			b.WriteString("\r\n")
			off += n
		}
		b.WriteString("0\r\n\r\n")
	}
	b.WriteString(c14Probe)
	return b.Bytes()
}

func parseInts(s string) []int {
	var out []int
	for _, f := range strings.Split(s, ",") {
		if f == "" {
			continue
		}
		n, _ := strconv.Atoi(f)
		out = append(out, n)
	}
	return out
}

func init() {
	register(&Unit{Name: "c14.stream", Props: []string{"C14"},
		// in: body length, chunk sizes ("" = fixed length), read sizes, fragment size
		Check: func(t *T, in In) []Finding {
			body := c14Body(in.N(0))
			var chunks []int
			if in.S(1) != "-" {
				chunks = parseInts(in.S(1))
				if len(chunks) == 0 {
					chunks = []int{}
				}
			}
			reads := parseInts(in.S(2))
			wire := c14Wire(body, chunks)
			corrupt := len(in) > 4 && in.N(4) >= 0 && chunks != nil && in.N(4) < len(chunks)
			if corrupt {
				wire = c14WireCorrupt(body, chunks, in.N(4))
			}
			var frags [][]byte
			if in.N(3) <= 0 {
				frags = [][]byte{wire}
			} else {
				frags = fragEvery(wire, in.N(3))
			}
			consume := reads
			if consume == nil {
				consume = []int{}
			}
			maxBody := 0
			if len(in) > 5 {
				maxBody = in.N(5) // MaxRequestBodySize: a streamed body over the limit is still handed to the handler
			}
			probeSeen := "GET /probe [Host=h] "
			if maxBody > 0 {
				// a long next request whose body looks like requests: bytes taken from its head would leave a tail that parses
				wire = append(bytes.TrimSuffix(wire, []byte(c14Probe)), []byte("POST /probe HTTP/1.1\r\nHost: h\r\nContent-Length: 3000\r\n\r\n")...)
				wire = append(wire, c14Body(3000)...)
				probeSeen = "POST /probe [Host=h"
				// leave a large body buffer in the pool: a buffered 70 000 byte upload served just before
				runPipe([][]byte{c14Wire(c14Body(70000), nil)}, pipeCfg{streaming: false})
				if in.N(3) <= 0 {
					frags = [][]byte{wire}
				} else {
					frags = fragEvery(wire, in.N(3))
				}
			}
			obs := runPipe(frags, pipeCfg{streaming: true, consume: consume, maxBody: maxBody})
			var fs []Finding
			bad := func(class, note string) {
				if maxBody > 0 && len(body) > maxBody {
					class = "over-limit-body:" + class // known finding D27
				}
				fs = append(fs, Finding{Kind: "oracle", Unit: "c14.stream", Class: class, Impl: truncate(obs.String(), 500), Note: note})
			}
			if obs.err != nil && strings.HasPrefix(obs.err.Error(), "PANIC") {
				bad("panic", obs.err.Error())
				return fs
			}
			if obs.err != nil && strings.HasPrefix(obs.err.Error(), "harness:") {
				bad("blocked-waiting-beyond-the-body", obs.err.Error())
				return fs
			}
			if len(obs.handled) == 0 {
				bad("upload-handler-did-not-run", "")
				return fs
			}
			// what the handler read
			h := obs.handled[0]
			got := h[strings.Index(h, "body=")+5 : strings.LastIndex(h, " trailers=")]
			sawEOF := strings.HasSuffix(got, "<EOF>")
			sawErr := strings.HasSuffix(got, "<ERR>")
			data := strings.TrimSuffix(strings.TrimSuffix(got, "<EOF>"), "<ERR>")
			if !bytes.HasPrefix(body, []byte(data)) {
				bad("read-bytes-not-a-prefix-of-the-body", fmt.Sprintf("read %q", truncate(data, 80)))
				return fs
			}
			if sawErr && !corrupt {
				bad("read-error-on-a-complete-body", "")
			}
			if corrupt {
				// a broken body: whatever the handler read was a prefix (checked above); nothing after
				// the upload may be served
				if len(obs.handled) > 1 {
					bad("request-served-after-a-broken-body", obs.handled[1])
				} else if rs, why := strictResponses(obs.out); why != "" || len(rs) > 1 {
					bad("bytes-after-a-broken-body-answered", why)
				}
				return fs
			}
			if sawEOF && len(data) != len(body) {
				bad("eof-before-the-end-of-the-body", fmt.Sprintf("EOF after %d of %d bytes", len(data), len(body)))
			}
			// a program ending in -1 drains the stream (read until an error): it must end with EOF
			// exactly at the end of the body
			if len(reads) > 0 && reads[len(reads)-1] == -1 && !(sawEOF && len(data) == len(body)) {
				bad("drained-stream-did-not-end-with-eof-at-the-end", fmt.Sprintf("read %d of %d, eof=%v", len(data), len(body), sawEOF))
			}
			// resynchronisation: the probe is served as itself, or nothing else is served
			switch len(obs.handled) {
			case 1:
				if !obs.closed && obs.err == nil {
					bad("probe-not-served-and-connection-not-closed", "")
				}
				// closing instead of serving the probe is allowed; answering it with an error is not:
				// the probe is well-formed, so an error response means it was parsed from the wrong byte
				if rs, why := strictResponses(obs.out); why == "" && len(rs) > 1 {
					bad("well-formed-probe-answered-with-an-error", fmt.Sprintf("status %d", rs[len(rs)-1].status))
				}
			case 2:
				if !strings.HasPrefix(obs.handled[1], probeSeen) {
					bad("unread-body-bytes-served-as-a-request", obs.handled[1])
				}
			default:
				bad("unread-body-bytes-served-as-a-request", fmt.Sprintf("%d handler runs", len(obs.handled)))
			}
			if rs, why := strictResponses(obs.out); why != "" {
				bad("responses-not-well-formed:"+why, "")
			} else if len(obs.handled) == 2 && len(rs) != 2 {
				bad("response-count", fmt.Sprint(len(rs)))
			}
			return fs
		},
		Gen: func(t *T) {
			// small bodies: every stop point, several read-size patterns, fixed and chunked, 3 segmentations
			for _, n := range []int{0, 1, 2, 7, 20} {
				chunkings := []string{"-"}
				if n > 0 {
					chunkings = append(chunkings, fmt.Sprint(n))
					if n > 2 {
						chunkings = append(chunkings, fmt.Sprintf("1,%d", n-1), fmt.Sprintf("%d,%d,%d", n/3, n/3, n-2*(n/3)))
					}
				} else {
					chunkings = append(chunkings, "")
				}
				for _, ch := range chunkings {
					for stop := 0; stop <= n+1; stop++ {
						for _, pat := range []string{fmt.Sprint(stop), strings.TrimSuffix(strings.Repeat("1,", stop), ","), fmt.Sprintf("%d,%d", stop/2, stop-stop/2), fmt.Sprintf("%d,100", stop), fmt.Sprintf("%d,-1", stop)} {
							for _, fr := range []int{0, 1, 5} {
								t.Do(In{Nn(n), S(ch), S(pat), Nn(fr)}, true)
							}
						}
					}
				}
			}
			// broken chunk terminator behind the handler's stop point
			for _, chunks := range []string{"3,4", "1,1,5", "2,10,3", "5000,5000"} {
				cs := parseInts(chunks)
				n := 0
				for _, c := range cs {
					n += c
				}
				for badc := 0; badc < len(cs); badc++ {
					for _, reads := range []string{"", "1", fmt.Sprint(cs[0]), fmt.Sprint(cs[0] + 1), fmt.Sprintf("%d,-1", cs[0])} {
						for _, fr := range []int{0, 1, 4096} {
							t.Do(In{Nn(n), S(chunks), S(reads), Nn(fr), Nn(badc)}, true)
						}
					}
				}
			}
			// a fixed-length body larger than MaxRequestBodySize (streaming hands it to the handler all the same), after
			// exchanges that left large body buffers in the pool, with the next request already in the socket
			for _, n := range []int{100, 2000, 9000, 10500, 20000} {
				for _, reads := range []string{"", "100", "8192", "9000,-1", "-1"} {
					for _, fr := range []int{0, 4096} {
						t.Do(In{Nn(n), S("-"), S(reads), Nn(fr), Nn(-1), Nn([]int{50, 8500}[b2i(n > 8500)])}, true)
					}
				}
			}
			// around the 8 KiB prefetch limit and larger
			for i := 0; i < t.Scale(600, 6000); i++ {
				n := []int{100, 4096, 8191, 8192, 8193, 8200, 12000, 20000, 70000}[t.R.Intn(9)]
				ch := "-"
				if t.R.Intn(2) == 0 {
					var cs []string
					left := n
					for left > 0 {
						c := 1 + t.R.Intn(left)
						if t.R.Intn(2) == 0 && left > 5000 {
							c = 1 + t.R.Intn(5000)
						}
						cs = append(cs, fmt.Sprint(c))
						left -= c
					}
					ch = strings.Join(cs, ",")
				}
				var reads []string
				total := 0
				stop := t.R.Intn(n + 2)
				if t.R.Intn(4) == 0 {
					stop = n + 1
				}
				for total < stop {
					k := []int{1, 100, 4096, 8192, 9000, 100000}[t.R.Intn(6)]
					if total+k > stop && t.R.Intn(2) == 0 {
						k = stop - total
					}
					reads = append(reads, fmt.Sprint(k))
					total += k
				}
				if t.R.Intn(3) == 0 {
					reads = append(reads, "-1")
				}
				t.Do(In{Nn(n), S(ch), S(strings.Join(reads, ",")), Nn([]int{0, 0, 7, 1000, 4096}[t.R.Intn(5)])}, true)
			}
		}})
}

func init() {
	register(&Unit{Name: "c14.model", Props: []string{"C14"},
		// in: body length, chunk sizes ("-" = fixed length), step sizes, fragment size, corrupt chunk index (-1 none)
		Check: func(t *T, in In) []Finding {
			body := c14Body(in.N(0))
			var chunks []int
			if in.S(1) != "-" {
				chunks = parseInts(in.S(1))
				if chunks == nil {
					chunks = []int{}
				}
			}
			steps := parseInts(in.S(2))
			for _, k := range steps {
				if k <= 0 {
					return nil
				}
			}
			wire := c14Wire(body, chunks)
			if chunks != nil && in.N(4) >= 0 && in.N(4) < len(chunks) {
				wire = c14WireCorrupt(body, chunks, in.N(4))
			}
			frags := [][]byte{wire}
			if in.N(3) > 0 {
				frags = fragEvery(wire, in.N(3))
			}
			obs := runPipe(frags, pipeCfg{streaming: true, consume: steps, full: true})
			if len(obs.handled) == 0 || (obs.err != nil && strings.HasPrefix(obs.err.Error(), "harness:")) {
				return nil // decided by c14.stream
			}
			h := obs.handled[0]
			lines := h[strings.Index(h, "body=")+5 : strings.LastIndex(h, " trailers=")]
			after := "!"
			if len(obs.handled) > 1 && strings.HasPrefix(obs.handled[1], "GET /probe [Host=h] ") {
				after = fmt.Sprintf("%x", c14Probe[:24])
			} else if len(obs.handled) > 1 {
				after = "other:" + obs.handled[1]
			}
			impl := lines + " | " + after
			// the message body as it sits on the connection after the header block
			hdrEnd := bytes.Index(wire, []byte("\r\n\r\n")) + 4
			var mod string
			stepArg := []byte(in.S(2))
			if chunks == nil {
				pl := len(body)
				if pl > 8192 {
					pl = 8192
				}
				mod = t.M.Call("stream_script", []byte("fixed"), []byte(fmt.Sprint(len(body))), []byte(fmt.Sprint(pl)), wire[hdrEnd:], stepArg)
			} else {
				mod = t.M.Call("stream_script", []byte("chunked"), wire[hdrEnd:], stepArg)
			}
			if mod != impl {
				return []Finding{{Kind: "corr", Unit: "c14.model", Class: "stream_script", Impl: truncate(impl, 400), Model: truncate(mod, 400)}}
			}
			return nil
		},
		Gen: func(t *T) {
			for i := 0; i < t.Scale(1500, 15000); i++ {
				n := []int{0, 1, 2, 7, 20, 100, 1000, 5000, 8191, 8192, 8193, 9000, 20000}[t.R.Intn(13)]
				if t.R.Intn(3) == 0 {
					n = t.R.Intn(300)
				}
				ch := "-"
				bad := -1
				if t.R.Intn(2) == 0 {
					var cs []string
					left := n
					for left > 0 {
						c := 1 + t.R.Intn(left)
						if t.R.Intn(3) == 0 && left > 4 {
							c = 1 + t.R.Intn(4)
						}
						cs = append(cs, fmt.Sprint(c))
						left -= c
					}
					ch = strings.Join(cs, ",")
					if len(cs) > 0 && t.R.Intn(8) == 0 {
						bad = t.R.Intn(len(cs))
					}
				}
				var steps []string
				for j, k := 0, t.R.Intn(5); j < k; j++ {
					steps = append(steps, fmt.Sprint(1+t.R.Intn(n+3)))
				}
				if t.R.Intn(3) == 0 {
					steps = append(steps, fmt.Sprint(n+10))
				}
				t.Do(In{Nn(n), S(ch), S(strings.Join(steps, ",")), Nn([]int{0, 0, 1, 7, 100, 4096, 5000}[t.R.Intn(7)]), Nn(bad)}, true)
			}
		}})
}
