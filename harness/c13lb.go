package main

import (
	"fmt"
	"io"
	"strconv"
	"strings"

	"github.com/cloudwego/hertz/pkg/network/standard"
)

// c13.linkbuf: the real standard.Conn against Model/LinkBuf.v, the model of the linked buffer as it is
// built (nodes, read pointer, Release branches, handleTail, maxSize, stored error).  After EVERY operation the
// result and the whole node structure (hook H3 DumpInputForVerif: length, maxSize, read position, stored error,
// capacity:malloc:off:readOnly per node) are compared with the model's.  The theorems of Props/C13.v about
// `lb` (lossless FIFO, invariant) are about this model.
func init() {
	register(&Unit{Name: "c13.linkbuf", Props: []string{"C13"},
		// in: initial buffer size, ops "P12,S3,B,R5,L,X,D100", then source elements "len:err"
		Check: func(t *T, in In) []Finding {
			size := in.N(0)
			ops := strings.Split(in.S(1), ",")
			var res []srcRes
			margs := [][]byte{[]byte(strconv.Itoa(size)), []byte(in.S(1))}
			pos := 0
			for i := 2; i < len(in); i++ {
				parts := strings.Split(in.S(i), ":")
				n, _ := strconv.Atoi(parts[0])
				b := patBytes(pos, n)
				pos += n
				res = append(res, srcRes{b, parts[1] == "1"})
				flag := byte('0')
				if parts[1] == "1" {
					flag = '1'
				}
				margs = append(margs, append([]byte{flag}, b...))
			}
			conn := standard.NewConnForVerif(&srcConn{res: res}, size)
			var outs []string
			for _, o := range ops {
				if o == "" {
					continue
				}
				arg := 0
				if len(o) > 1 {
					arg, _ = strconv.Atoi(o[1:])
				}
				tok := ""
				switch o[0] {
				case 'P':
					b, err := conn.Peek(arg)
					tok = fmt.Sprintf("P%x%s", b, bang(err))
				case 'S':
					tok = "S" + bang(conn.Skip(arg))
				case 'B':
					c, err := conn.ReadByte()
					if err != nil {
						tok = "B!"
					} else {
						tok = fmt.Sprintf("B%02x", c)
					}
				case 'R':
					b, err := conn.ReadBinary(arg)
					if err != nil {
						tok = "R!"
					} else {
						tok = fmt.Sprintf("R%x", b)
					}
				case 'L':
					tok = fmt.Sprintf("L%d", conn.Len())
				case 'X':
					conn.Release()
					tok = "X"
				case 'D':
					buf := make([]byte, arg)
					m, err := conn.(io.Reader).Read(buf)
					tok = fmt.Sprintf("D%x%s", buf[:m], bang(err))
				default:
					continue
				}
				outs = append(outs, tok+"@"+standard.DumpInputForVerif(conn))
			}
			impl := strings.Join(outs, ";")
			mod := t.M.Call("lb_script", margs...)
			if impl != mod {
				is, ms := strings.Split(impl, ";"), strings.Split(mod, ";")
				k := 0
				for k < len(is) && k < len(ms) && is[k] == ms[k] {
					k++
				}
				note := fmt.Sprintf("first difference at operation %d", k)
				if k < len(is) && k < len(ms) {
					note += fmt.Sprintf(": impl %s | model %s", truncate(is[k], 300), truncate(ms[k], 300))
				}
				return []Finding{{Kind: "corr", Unit: "c13.linkbuf", Class: "lb_script", Impl: truncate(impl, 2000), Model: truncate(mod, 2000), Note: note}}
			}
			return nil
		},
		Gen: func(t *T) {
			sizes := []int{1, 2, 3, 7, 100, 1023, 1024, 1025, 4095, 4096, 4097, 8191, 8192, 8193, 20000}
			// directed: the oversized tail node (above 512 KiB) and the two-node Release
			for _, size := range []int{4096} {
				for _, big := range []string{"P600100,S600100", "R600100", "P100,S100,P600000,S600000", "P600100,S600000,R100"} {
					t.Do(In{Nn(size), S(big + ",X,P10,S10,B,R20,L,P3000,X,B,D100,L"), S("100:0"), S("600000:0"), S("50:0"), S("3000:0")}, true)
				}
			}
			for i := 0; i < t.Scale(400, 4000); i++ {
				in := In{Nn([]int{0, 4096, 100, 8192, 70000}[t.R.Intn(5)])}
				var frs []string
				total := 0
				for j, n := 0, 1+t.R.Intn(8); j < n; j++ {
					l := sizes[t.R.Intn(len(sizes))]
					if t.R.Intn(3) == 0 {
						l = 1 + t.R.Intn(50)
					}
					e := "0"
					switch t.R.Intn(12) {
					case 0:
						e = "1"
					case 1:
						l, e = 0, "1"
					}
					total += l
					frs = append(frs, fmt.Sprintf("%d:%s", l, e))
				}
				if t.Thorough() && t.R.Intn(400) == 0 {
					frs = append(frs, "600000:0")
					total += 600000
				}
				var ops []string
				for j, n := 0, 3+t.R.Intn(t.Scale(40, 80)); j < n; j++ {
					sz := sizes[t.R.Intn(len(sizes))]
					if t.R.Intn(2) == 0 {
						sz = t.R.Intn(40)
					}
					switch t.R.Intn(12) {
					case 0, 1, 2:
						ops = append(ops, fmt.Sprintf("P%d", sz))
					case 3, 4:
						ops = append(ops, fmt.Sprintf("P%d", sz), fmt.Sprintf("S%d", sz))
					case 5:
						ops = append(ops, fmt.Sprintf("S%d", sz))
					case 6:
						ops = append(ops, "B")
					case 7:
						ops = append(ops, fmt.Sprintf("R%d", sz))
					case 8:
						ops = append(ops, "L")
					case 9, 10:
						ops = append(ops, "X")
					case 11:
						ops = append(ops, fmt.Sprintf("D%d", 1+sz))
					}
				}
				in = append(in, S(strings.Join(ops, ",")))
				for _, f := range frs {
					in = append(in, S(f))
				}
				t.Do(in, total > 0)
			}
		}})
}

func bang(err error) string {
	if err != nil {
		return "!"
	}
	return ""
}
