package main

import (
	"bytes"
	"fmt"
	"strings"
	"time"

	"github.com/cloudwego/hertz/pkg/protocol"
)

// c17dirty returns a URI object as a server or client would reuse it: it carried another URI
// whose query arguments were materialised, and went through Reset.
func c17dirty() *protocol.URI {
	u := protocol.AcquireURI()
	u.Parse([]byte("old.example"), []byte("/old/path?stale=1&other=2#frag"))
	u.QueryArgs().Len()
	u.Reset()
	return u
}

func init() {
	register(&Unit{Name: "c17.uri", Props: []string{"C17"},
		// in: scheme, host, path bytes, hash bytes, mode (0 args through QueryArgs, 1 raw query string, 2 a raw query
		// string set after other arguments had been added through QueryArgs on the same object), k, v, k, v ...
		Check: func(t *T, in In) []Finding {
			scheme, host, path, hash, mode := in.S(0), in.S(1), in.B(2), in.B(3), in.N(4)
			if len(path) == 0 || path[0] != '/' {
				return nil // a URI path starts with a slash
			}
			var fs []Finding
			bad := func(class, impl, expect string) {
				fs = append(fs, Finding{Kind: "oracle", Unit: "c17.uri", Class: class, Impl: impl, Expect: expect})
			}
			u := c17dirty()
			u.SetScheme(scheme)
			u.SetHost(host)
			u.SetPathBytes(path)
			u.SetHashBytes(hash)
			var raw []string
			for i := 5; i+1 < len(in); i += 2 {
				if mode == 0 {
					u.QueryArgs().Add(string(in.B(i)), string(in.B(i+1)))
				} else {
					raw = append(raw, string(in.B(i))+"="+string(in.B(i+1)))
				}
			}
			if mode == 2 { // the raw query string set last replaces whatever was there
				u.QueryArgs().Add("stale", "x")
				mode = 1
			}
			if mode == 1 {
				u.SetQueryString(strings.Join(raw, "&"))
			}
			s1 := append([]byte{}, u.FullURI()...)
			v := c17dirty()
			v.Parse(nil, s1)
			cmp := func(what string, a, b []byte) {
				if !bytes.Equal(a, b) {
					bad("parsed-"+what+"-differs-from-the-assembled-one", fmt.Sprintf("%q", b), fmt.Sprintf("%q", a))
				}
			}
			cmp("scheme", u.Scheme(), v.Scheme())
			cmp("host", u.Host(), v.Host())
			cmp("path", u.Path(), v.Path())
			if mode == 0 { // QueryString() is the raw string; arguments set through QueryArgs() live there
				cmp("query", u.QueryArgs().QueryString(), v.QueryString())
			} else {
				cmp("query", u.QueryString(), v.QueryString())
			}
			cmp("fragment", u.Hash(), v.Hash())
			if s2 := v.FullURI(); !bytes.Equal(s1, s2) {
				bad("formatting-the-parsed-uri-is-not-a-fixed-point", string(s2), string(s1))
			}
			// the arguments read back one by one
			if mode == 0 {
				var want, got []string
				for i := 5; i+1 < len(in); i += 2 {
					want = append(want, fmt.Sprintf("%x=%x", in.B(i), in.B(i+1)))
				}
				v.QueryArgs().VisitAll(func(k, val []byte) { got = append(got, fmt.Sprintf("%x=%x", k, val)) })
				if strings.Join(want, "&") != strings.Join(got, "&") {
					// entries with both key and value empty are not kept
					var w2 []string
					for _, x := range want {
						if x != "=" {
							w2 = append(w2, x)
						}
					}
					if strings.Join(w2, "&") != strings.Join(got, "&") {
						bad("query-arguments-differ-after-the-round-trip", strings.Join(got, "&"), strings.Join(want, "&"))
					}
				}
			}
			protocol.ReleaseURI(u)
			protocol.ReleaseURI(v)
			// the fragment and a raw query string are written as they are, and Parse refuses any URI with
			// an ASCII control byte: one finding class for that, so that everything else stays visible
			ctl := func(b []byte) bool {
				for _, c := range b {
					if c < 0x20 || c == 0x7f {
						return true
					}
				}
				return false
			}
			if len(fs) > 0 && (ctl(hash) || (mode == 1 && ctl([]byte(strings.Join(raw, "&"))))) {
				return []Finding{{Kind: "oracle", Unit: "c17.uri", Class: "control-byte-in-fragment-or-raw-query-string-breaks-the-round-trip",
					Impl: fs[0].Class + ": " + fs[0].Impl, Expect: fs[0].Expect}}
			}
			return fs
		},
		Gen: func(t *T) {
			hosts := []string{"h", "example.com", "example.com:8080", "[::1]:80", "[2001:db8::1]", "EXAMPLE.com", "127.0.0.1:1"}
			alpha := []byte("ab/%+&=;? #\x00\xe9.~:@")
			rnd := func(n int) []byte {
				b := make([]byte, t.R.Intn(n+1))
				for i := range b {
					b[i] = alpha[t.R.Intn(len(alpha))]
				}
				return b
			}
			for i := 0; i < t.Scale(4000, 120000); i++ {
				path := append([]byte("/"), rnd(8)...)
				mode := t.R.Intn(3)
				in := In{S([]string{"http", "https", "http", "https", "soap.beep", "a+b-c.d", "x-1"}[t.R.Intn(7)]), S(hosts[t.R.Intn(len(hosts))]), H(path), H(rnd(5)), Nn(mode)}
				for k, n := 0, t.R.Intn(4); k < n; k++ {
					key, val := rnd(4), rnd(4)
					if mode >= 1 { // a raw query string is taken as is: keep it free of the delimiters of the other parts
						key = bytes.Map(func(r rune) rune {
							if strings.ContainsRune("#&=", r) {
								return 'x'
							}
							return r
						}, key)
						val = bytes.Map(func(r rune) rune {
							if strings.ContainsRune("#&", r) {
								return 'x'
							}
							return r
						}, val)
					}
					in = append(in, H(key), H(val))
				}
				t.Do(in, true)
			}
		}})

	register(&Unit{Name: "c17.cookie", Props: []string{"C17"},
		// in: key, value, domain, path, expire (unix seconds, 0 none), max-age, flags (1 httponly, 2 secure, 4 partitioned), samesite 0..4
		Check: func(t *T, in In) []Finding {
			var fs []Finding
			bad := func(class, impl, expect string) {
				fs = append(fs, Finding{Kind: "oracle", Unit: "c17.cookie", Class: class, Impl: impl, Expect: expect})
			}
			if len(in.B(0)) == 0 {
				return nil // a cookie has a name
			}
			c := protocol.AcquireCookie()
			defer protocol.ReleaseCookie(c)
			// a reused object
			c.Parse("old=1; Domain=old.example; Path=/old; Max-Age=5; HttpOnly; Secure; SameSite=Strict")
			c.Reset()
			c.SetKeyBytes(in.B(0))
			c.SetValueBytes(in.B(1))
			c.SetDomain(in.S(2))
			c.SetPath(in.S(3))
			if in.N(4) > 0 {
				c.SetExpire(time.Unix(int64(in.N(4)), 0))
			}
			if len(in) > 8 { // an explicit expiry, also at or before the epoch (the usual way to delete a cookie)
				c.SetExpire(time.Unix(int64(in.N(8)), 0))
			}
			if in.N(5) != 0 {
				c.SetMaxAge(in.N(5))
			}
			c.SetHTTPOnly(in.N(6)&1 != 0)
			c.SetSecure(in.N(6)&2 != 0)
			c.SetPartitioned(in.N(6)&4 != 0)
			c.SetSameSite(protocol.CookieSameSite(in.N(7)))
			s1 := c.String()
			d := protocol.AcquireCookie()
			defer protocol.ReleaseCookie(d)
			d.Parse("old=1; Domain=old.example; Path=/old; Max-Age=5; HttpOnly; Secure; SameSite=Strict")
			if err := d.Parse(s1); err != nil {
				bad("string-form-does-not-parse", err.Error(), s1)
				return fs
			}
			show := func(x *protocol.Cookie) string {
				return fmt.Sprintf("key=%q value=%q domain=%q path=%q expire=%d maxage=%d httponly=%v secure=%v partitioned=%v samesite=%d",
					x.Key(), x.Value(), x.Domain(), x.Path(), x.Expire().Unix(), x.MaxAge(), x.HTTPOnly(), x.Secure(), x.Partitioned(), x.SameSite())
			}
			// AppendBytes writes key, value, domain and path as they are: a text with ';', with a space at either end
			// or wrapped in double quotes (and a key with '=') is not what the reader takes it for.  Exactly the
			// hypothesis wf_cookie of C17_cookie_roundtrip; such inputs get their own class (known finding), so
			// that a loss on a well-formed cookie is told apart
			quoted := ""
			unclean := func(v []byte, key bool) bool {
				if len(v) == 0 {
					return false
				}
				if bytes.IndexByte(v, ';') >= 0 || v[0] == ' ' || v[len(v)-1] == ' ' || (key && bytes.IndexByte(v, '=') >= 0) {
					return true
				}
				return len(v) >= 2 && v[0] == '"' && v[len(v)-1] == '"'
			}
			if unclean(in.B(0), true) || unclean(in.B(1), false) || unclean(in.B(2), false) || unclean(in.B(3), false) {
				quoted = "unescaped-cookie-text:"
			}
			if a, b := show(c), show(d); a != b {
				bad(quoted+"parsed-cookie-differs-from-the-one-formatted", b, a+"  via "+s1)
			}
			if s2 := d.String(); s2 != s1 {
				bad(quoted+"formatting-the-parsed-cookie-is-not-a-fixed-point", s2, s1)
			}
			return fs
		},
		Gen: func(t *T) {
			keys := []string{"a", "session", "k-1", "A_b", "x.y"}
			vals := []string{"", "v", "abc123", "a=b", "a b", "\"quoted\"", "%41", "x,y", "é", "a;b", " lead", "trail ", "\"", "a\"b\""}
			doms := []string{"", "example.com", ".example.com", "sub.example.com"}
			paths := []string{"", "/", "/a/b", "/a b", "/x?y"}
			for i := 0; i < t.Scale(3000, 60000); i++ {
				exp := 0
				if t.R.Intn(2) == 0 {
					exp = 1 + t.R.Intn(4102444800) // up to 2100
				}
				ma := 0
				if exp == 0 && t.R.Intn(3) == 0 { // Max-Age takes precedence: Expires is not written next to it
					ma = t.R.Intn(100000) - 10
				}
				t.Do(In{S(keys[t.R.Intn(len(keys))]), S(vals[t.R.Intn(len(vals))]), S(doms[t.R.Intn(len(doms))]), S(paths[t.R.Intn(len(paths))]),
					Nn(exp), Nn(ma), Nn(t.R.Intn(8)), Nn(t.R.Intn(5))}, true)
			}
			for _, e := range []int{0, 1, -1, -86400, -2208988800, 253402300799} { // epoch, around it, 1900, year 9999
				for fl := 0; fl < 8; fl += 3 {
					t.Do(In{S("sid"), S("v"), S(doms[fl%len(doms)]), S(paths[fl%len(paths)]), Nn(0), Nn(0), Nn(fl), Nn(fl % 5), Nn(e)}, true)
				}
			}
		}})
}
