package main

import (
	"github.com/cloudwego/hertz/pkg/common/utils"
	"github.com/cloudwego/hertz/pkg/verifexport"
)

func verifParseUintBuf(b []byte) (int, int, error) { return verifexport.ParseUintBuf(b) }
func verifCICompare(a, b []byte) bool              { return utils.CaseInsensitiveCompare(a, b) }
func verifNormalizeKey(k []byte)                   { utils.NormalizeHeaderKey(k, false) }
