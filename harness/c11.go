package main

import (
	"bufio"
	"bytes"
	"context"
	"fmt"
	"io"
	"math/rand"
	"net/http"
	"sort"
	"strings"

	"github.com/cloudwego/hertz/pkg/app/client"
	"github.com/cloudwego/hertz/pkg/protocol"
)

type c11req struct {
	method, url string
	hdrs        [][2]string
	body        []byte
	mode        string // bytes | stream-known | stream-unknown | form | none
}

func c11GenReq(r *rand.Rand) c11req {
	q := c11req{method: []string{"GET", "POST", "PUT", "DELETE", "PATCH"}[r.Intn(5)]}
	q.url = "http://srv.example" + []string{"", ":8080"}[r.Intn(2)] + []string{"/", "/a/b", "/a%20b/c", "/x.y/", "/p/../q", "//r"}[r.Intn(6)]
	if r.Intn(2) == 0 {
		q.url += "?" + []string{"a=1", "a=1&b=2", "q=x%20y", "k", "a=%26&b"}[r.Intn(5)]
	}
	for j, n := 0, r.Intn(4); j < n; j++ {
		q.hdrs = append(q.hdrs, [2]string{[]string{"X-A", "X-B", "Accept", "X-Content-Length", "Authorization"}[r.Intn(5)], []string{"v", "a b", "5", "Basic QQ=="}[r.Intn(4)]})
	}
	if q.method != "GET" && q.method != "DELETE" {
		q.mode = []string{"bytes", "stream-known", "stream-unknown", "form", "none"}[r.Intn(5)]
		n := []int{0, 1, 5, 100, 4095, 4096, 4097, 9000}[r.Intn(8)]
		q.body = c04Body(n, r.Intn(7))
		if q.mode == "form" {
			q.body = []byte("f1=v1&f2=a+b%26")
		}
		if q.mode == "none" {
			q.body = nil
		}
	} else {
		q.mode = "none"
	}
	return q
}

func c11Client(opts ...interface{}) {}

// c11Exchange: run one exchange of the real client against a scripted peer
func c11Exchange(q c11req, respWire [][]byte, stream bool, maxResp int) (sent []byte, status int, hdrs []string, body []byte, err error) {
	d := &peerDialer{next: func(i int) (*scriptConn, error) { return newScriptConn(respWire), nil }}
	copts := []interface{}{}
	_ = copts
	c, _ := client.NewClient(client.WithDialer(d), client.WithResponseBodyStream(stream))
	req, resp := protocol.AcquireRequest(), protocol.AcquireResponse()
	defer protocol.ReleaseRequest(req)
	defer protocol.ReleaseResponse(resp)
	req.SetMethod(q.method)
	req.SetRequestURI(q.url)
	for _, h := range q.hdrs {
		req.Header.Add(h[0], h[1])
	}
	switch q.mode {
	case "bytes":
		req.SetBody(q.body)
	case "stream-known":
		req.SetBodyStream(onlyReader{bytes.NewReader(q.body)}, len(q.body))
	case "stream-unknown":
		req.SetBodyStream(onlyReader{bytes.NewReader(q.body)}, -1)
	case "form":
		req.Header.SetContentTypeBytes([]byte("application/x-www-form-urlencoded"))
		req.SetBody(q.body)
	}
	if maxResp > 0 {
		// per-request option is not public API here; the client option is used by the caller
	}
	err = c.Do(context.Background(), req, resp)
	if len(d.conns) > 0 {
		sent = d.conns[0].Output()
	}
	if err != nil {
		return
	}
	status = resp.StatusCode()
	resp.Header.VisitAll(func(k, v []byte) { hdrs = append(hdrs, string(k)+"="+string(v)) })
	if stream {
		body, _ = io.ReadAll(resp.BodyStream())
	} else {
		body = append([]byte(nil), resp.Body()...)
	}
	return
}

type c11resp struct {
	status  int
	hdrs    [][2]string
	body    []byte
	framing string // cl | chunked | close | none
	chunks  []int
	trailer [][2]string
	interim bool // preceded by 100 Continue
}

func (s c11resp) render() []byte {
	var b bytes.Buffer
	if s.interim {
		b.WriteString("HTTP/1.1 100 Continue\r\n\r\n")
	}
	fmt.Fprintf(&b, "HTTP/1.1 %d %s\r\n", s.status, http.StatusText(s.status))
	for _, h := range s.hdrs {
		fmt.Fprintf(&b, "%s: %s\r\n", h[0], h[1])
	}
	switch s.framing {
	case "cl":
		fmt.Fprintf(&b, "Content-Length: %d\r\n\r\n", len(s.body))
		b.Write(s.body)
	case "chunked":
		b.WriteString("Transfer-Encoding: chunked\r\n")
		if len(s.trailer) > 0 {
			b.WriteString("Trailer: " + s.trailer[0][0] + "\r\n")
		}
		b.WriteString("\r\n")
		off := 0
		for _, n := range s.chunks {
			fmt.Fprintf(&b, "%x\r\n", n)
			b.Write(s.body[off : off+n])
			b.WriteString("\r\n")
			off += n
		}
		b.WriteString("0\r\n")
		for _, t := range s.trailer {
			fmt.Fprintf(&b, "%s: %s\r\n", t[0], t[1])
		}
		b.WriteString("\r\n")
	case "close":
		b.WriteString("Connection: close\r\n\r\n")
		b.Write(s.body)
	default:
		b.WriteString("\r\n")
	}
	return b.Bytes()
}

func c11GenResp(r *rand.Rand) c11resp {
	s := c11resp{status: []int{200, 201, 404, 500, 204, 304}[r.Intn(6)]}
	for j, n := 0, r.Intn(3); j < n; j++ {
		s.hdrs = append(s.hdrs, [2]string{[]string{"X-R", "X-S", "Etag"}[j], []string{"v", "a b", "\"x\""}[r.Intn(3)]})
	}
	if s.status == 204 || s.status == 304 {
		s.framing = "none"
		return s
	}
	s.framing = []string{"cl", "chunked", "close"}[r.Intn(3)]
	n := []int{0, 1, 5, 100, 4095, 4096, 4097, 9000, 70000}[r.Intn(9)]
	s.body = c04Body(n, r.Intn(5))
	if s.framing == "chunked" {
		left := n
		for left > 0 {
			c := 1 + r.Intn(left)
			s.chunks = append(s.chunks, c)
			left -= c
		}
		if r.Intn(3) == 0 {
			s.trailer = [][2]string{{"X-T", "tv"}}
		}
	}
	s.interim = r.Intn(8) == 0
	return s
}

func init() {
	register(&Unit{Name: "c11.request", Props: []string{"C11"},
		Check: func(t *T, in In) []Finding {
			r := rand.New(rand.NewSource(int64(in.N(0))))
			q := c11GenReq(r)
			sent, _, _, _, err := c11Exchange(q, [][]byte{[]byte("HTTP/1.1 200 OK\r\nContent-Length: 0\r\n\r\n")}, false, 0)
			var fs []Finding
			bad := func(class, note string) {
				fs = append(fs, Finding{Kind: "oracle", Unit: "c11.request", Class: class, Impl: truncate(string(sent), 400), Note: note + fmt.Sprintf(" | req=%+v", struct {
					M, U, Mode string
					H           [][2]string
					N           int
				}{q.method, q.url, q.mode, q.hdrs, len(q.body)})})
			}
			if err != nil {
				bad("exchange-failed", err.Error())
				return fs
			}
			// independent parser
			hr, herr := http.ReadRequest(bufio.NewReader(bytes.NewReader(sent)))
			if herr != nil {
				bad("net/http-rejects-the-request", herr.Error())
				return fs
			}
			hb, _ := io.ReadAll(hr.Body)
			if hr.Method != q.method {
				bad("method", hr.Method)
			}
			if hr.Host != strings.TrimPrefix(strings.SplitN(strings.TrimPrefix(q.url, "http://"), "/", 2)[0], "") {
				bad("host", hr.Host)
			}
			if !bytes.Equal(hb, q.body) {
				bad("body", fmt.Sprintf("%d bytes, expected %d, first difference %d", len(hb), len(q.body), firstDiff(hb, q.body)))
			}
			for _, h := range q.hdrs {
				found := false
				for _, v := range hr.Header.Values(h[0]) {
					if v == h[1] {
						found = true
					}
				}
				if !found {
					bad("header-missing", h[0])
				}
			}
			// exactly one request on the wire
			if rest, _ := io.ReadAll(bufio.NewReader(bytes.NewReader(sent[len(sent)-0:]))); len(rest) != 0 {
				bad("bytes-after-request", "")
			}
			// the hertz server reads the same request
			obs := runPipe([][]byte{sent}, pipeCfg{})
			if len(obs.handled) != 1 {
				bad("hertz-server-does-not-read-one-request", truncate(obs.String(), 300))
				return fs
			}
			h := obs.handled[0]
			if !strings.HasPrefix(h, q.method+" "+hr.RequestURI+" [") {
				bad("hertz-server-and-net/http-disagree-on-the-request-line", h)
			}
			if !strings.Contains(h, "body="+sha(q.body)+" ") {
				bad("hertz-server-reads-a-different-body", h)
			}
			return fs
		},
		Gen: func(t *T) {
			for i := 0; i < t.Scale(3000, 50000); i++ {
				t.Do(In{Nn(t.R.Intn(1 << 30))}, true)
			}
		}})

	register(&Unit{Name: "c11.response", Props: []string{"C11"},
		// in: seed, fragmentation, streaming
		Check: func(t *T, in In) []Finding {
			r := rand.New(rand.NewSource(int64(in.N(0))))
			s := c11GenResp(r)
			wire := s.render()
			var frags [][]byte
			switch in.N(1) {
			case 0:
				frags = [][]byte{wire}
			case 1:
				frags = fragEvery(wire, 1)
			default:
				frags = fragRandom(r, wire, in.N(1))
			}
			q := c11req{method: "GET", url: "http://srv.example/x", mode: "none"}
			if s.interim {
				q = c11req{method: "POST", url: "http://srv.example/x", mode: "bytes", body: []byte("abc"), hdrs: [][2]string{{"Expect", "100-continue"}}}
			}
			_, status, hdrs, body, err := c11Exchange(q, frags, in.N(2) == 1, 0)
			var fs []Finding
			bad := func(class, note string) {
				fs = append(fs, Finding{Kind: "oracle", Unit: "c11.response", Class: class, Impl: fmt.Sprintf("status=%d hdrs=%v body=%d bytes err=%v", status, hdrs, len(body), err), Note: note + " | " + truncate(string(wire), 200)})
			}
			if err != nil {
				bad("client-returned-an-error-for-a-conforming-response", err.Error())
				return fs
			}
			if status != s.status {
				bad("status", fmt.Sprint(s.status))
			}
			if !bytes.Equal(body, s.body) {
				bad("body", fmt.Sprintf("%d bytes, expected %d, first difference %d", len(body), len(s.body), firstDiff(body, s.body)))
			}
			sort.Strings(hdrs)
			for _, h := range s.hdrs {
				found := false
				for _, kv := range hdrs {
					if strings.EqualFold(kv, h[0]+"="+h[1]) {
						found = true
					}
				}
				if !found {
					bad("header-missing", h[0])
				}
			}
			return fs
		},
		Gen: func(t *T) {
			for i := 0; i < t.Scale(3000, 50000); i++ {
				t.Do(In{Nn(t.R.Intn(1 << 30)), Nn([]int{0, 0, 1, 2, 5}[t.R.Intn(5)]), Nn(t.R.Intn(2))}, true)
			}
		}})
}
