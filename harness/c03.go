package main

import (
	"bytes"
	"context"
	"fmt"
	"strconv"
	"strings"

	"github.com/cloudwego/hertz/pkg/app"
	"github.com/cloudwego/hertz/pkg/common/config"
	"github.com/cloudwego/hertz/pkg/network/standard"
	"github.com/cloudwego/hertz/pkg/protocol"
	"github.com/cloudwego/hertz/pkg/protocol/http1/req"
	"github.com/cloudwego/hertz/pkg/protocol/http1/resp"
)

// every public parser of untrusted data: name -> run (must not panic)
var c03Parsers = []struct {
	name  string
	alpha [][]byte
	seeds []string
	run   func(s []byte)
}{
	{"uri.parse.nohost", toks("a", ":", "/", "?", "#", "@", "%", ".", "[", "]", " ", "\x00", "//", "h.c", "%2"), []string{"http://u:p@h.com:80/a/b?x=1#f", "//h/p", "a:b", "/p?q"}, func(s []byte) {
		var u protocol.URI
		u.Parse(nil, s)
		u.FullURI()
		u.RequestURI()
		u.Path()
		u.QueryArgs().Len()
		u.LastPathSegment()
		u.String()
	}},
	{"uri.parse.host", toks("a", ":", "/", "?", "#", "@", "%", ".", "[", "]", " ", "\x00", "//", "%2"), []string{"/a/b?x=1#f", "http://x/y"}, func(s []byte) {
		var u protocol.URI
		u.Parse([]byte("h.com:80"), s)
		u.FullURI()
		u.Parse(s, []byte("/p"))
		u.FullURI()
	}},
	{"uri.update", toks("a", ":", "/", "?", "#", "..", ".", "//", "%", "http:"), []string{"../x?y", "//o/p", "?q", "#h"}, func(s []byte) {
		var u protocol.URI
		u.Parse(nil, []byte("http://a.b/c/d?e=f#g"))
		u.UpdateBytes(s)
		u.FullURI()
	}},
	{"args.parse", toks("a", "=", "&", "%", "+", ";", "%4", "%41", "\x00"), []string{"a=1&b=2&c", "x=%zz"}, func(s []byte) {
		var a protocol.Args
		a.ParseBytes(s)
		a.QueryString()
		a.Peek("a")
		a.Has("b")
		a.Len()
	}},
	{"cookie.parse", toks("a", "=", ";", " ", "\"", ",", "SameSite", "samesite", "Max-Age", "max-age", "Expires", "expires", "Domain", "path", "HttpOnly", "secure", "Partitioned", "Lax", "1", "-", "x"), []string{"k=v; Path=/; Domain=d; Max-Age=3; Expires=Sat, 01 Jan 2028 00:00:00 GMT; HttpOnly; Secure; SameSite=Lax", "a=b; SameSite=", "a=b; max-age=", "a=b; expires="}, func(s []byte) {
		var c protocol.Cookie
		if err := c.ParseBytes(s); err == nil {
			c.Cookie()
			c.String()
		}
	}},
	{"cookie.request", toks("a", "=", ";", " ", "\"", ",", "\x00"), []string{"a=b; c=d", " ; =; x"}, func(s []byte) {
		var h protocol.RequestHeader
		h.SetBytesKV([]byte("Cookie"), s)
		h.Cookie("a")
		h.Header()
		var r protocol.ResponseHeader
		r.SetBytesV("Set-Cookie", s)
		var c protocol.Cookie
		c.SetKey("a")
		r.Cookie(&c)
		r.Header()
	}},
	{"trailer.set", toks("a", ",", " ", "Content-Length", "Trailer", "\x00", ":", "-"), []string{"a, b", "a,,b", ",", " "}, func(s []byte) {
		var t protocol.Trailer
		t.SetTrailers(s)
		t.Header()
		var h protocol.RequestHeader
		h.SetBytesKV([]byte("Trailer"), s)
		h.Header()
		var r protocol.ResponseHeader
		r.SetBytesV("Trailer", s)
		r.Header()
	}},
	{"range", toks("bytes", "=", "-", "0", "1", "5", "9", ",", " ", "99999999999999999999", "a"), []string{"bytes=0-4", "bytes=-1", "bytes=-0", "bytes=5-", "bytes=3-1"}, func(s []byte) {
		for _, n := range []int{0, 1, 5} {
			if st, en, err := app.ParseByteRange(s, n); err == nil {
				var h protocol.ResponseHeader
				h.SetContentRange(st, en, n)
			}
		}
	}},
	{"multipart.boundary", toks("multipart/form-data", ";", " ", "boundary", "=", "\"", "a", ","), []string{"multipart/form-data; boundary=abc", "multipart/form-data; boundary=\"a;b\""}, func(s []byte) {
		var h protocol.RequestHeader
		h.SetContentTypeBytes(s)
		h.MultipartFormBoundary()
	}},
	{"content-length", toks("0", "1", "9", "-", "+", " ", "a", "99999999999999999999", "18446744073709551616"), []string{"10", "-1"}, func(s []byte) {
		var h protocol.RequestHeader
		h.SetBytesKV([]byte("Content-Length"), s)
		h.ContentLength()
		var r protocol.ResponseHeader
		r.SetBytesV("Content-Length", s)
		r.ContentLength()
	}},
	{"req.read", toks("GET", "POST", " ", "/", "HTTP/1.1", "\r\n", "\n", "\r", ":", "Host", "Content-Length", "Transfer-Encoding", "chunked", "5", "a", "0", "Trailer", "Expect", "100-continue"),
		[]string{"POST /p HTTP/1.1\r\nHost: a\r\nContent-Length: 5\r\n\r\nhello", "POST /p HTTP/1.1\r\nHost: a\r\nTransfer-Encoding: chunked\r\nTrailer: X\r\n\r\n3\r\nabc\r\n0\r\nX: 1\r\n\r\n", "GET / HTTP/1.0\r\n\r\n"}, func(s []byte) {
			var r protocol.Request
			conn := standard.NewConnForVerif(newScriptConn([][]byte{s}), 4096)
			if err := req.Read(&r, conn); err == nil {
				r.Body()
				r.Header.Header()
				r.URI().FullURI()
			}
		}},
	{"resp.read", toks("HTTP/1.1", " ", "200", "204", "100", "OK", "\r\n", "\n", ":", "Content-Length", "Transfer-Encoding", "chunked", "5", "a", "0", "Trailer", "Set-Cookie", "="),
		[]string{"HTTP/1.1 200 OK\r\nContent-Length: 5\r\n\r\nhello", "HTTP/1.1 200 OK\r\nTransfer-Encoding: chunked\r\nTrailer: X\r\n\r\n3\r\nabc\r\n0\r\nX: 1\r\n\r\n", "HTTP/1.1 100 Continue\r\n\r\nHTTP/1.1 204 No Content\r\n\r\n"}, func(s []byte) {
			var r protocol.Response
			conn := standard.NewConnForVerif(newScriptConn([][]byte{s}), 4096)
			if err := resp.Read(&r, conn); err == nil {
				r.Body()
				r.Header.Header()
			}
		}},
}

// mutate: structure-aware mutations of a valid seed
func c03Mutate(t *T, seed []byte, alpha [][]byte) []byte {
	b := append([]byte(nil), seed...)
	for k, n := 0, 1+t.R.Intn(3); k < n; k++ {
		switch t.R.Intn(6) {
		case 0: // delete a span
			if len(b) > 0 {
				i := t.R.Intn(len(b))
				j := i + 1 + t.R.Intn(4)
				if j > len(b) {
					j = len(b)
				}
				b = append(b[:i:i], b[j:]...)
			}
		case 1: // insert a token
			i := t.R.Intn(len(b) + 1)
			tok := alpha[t.R.Intn(len(alpha))]
			b = append(b[:i:i], append(append([]byte(nil), tok...), b[i:]...)...)
		case 2: // duplicate a span
			if len(b) > 0 {
				i := t.R.Intn(len(b))
				j := i + 1 + t.R.Intn(6)
				if j > len(b) {
					j = len(b)
				}
				b = append(b[:j:j], append(append([]byte(nil), b[i:j]...), b[j:]...)...)
			}
		case 3: // truncate
			if len(b) > 0 {
				b = b[:t.R.Intn(len(b))]
			}
		case 4: // flip a byte to a hostile one
			if len(b) > 0 {
				b[t.R.Intn(len(b))] = "\x00\r\n :;=,%-\xff9"[t.R.Intn(12)]
			}
		case 5: // huge number in place of a digit
			if i := bytes.IndexAny(b, "0123456789"); i >= 0 {
				b = append(b[:i:i], append([]byte("99999999999999999999"), b[i+1:]...)...)
			}
		}
	}
	return b
}

// ---- server: reject shape ----

type c03resp struct {
	status  int
	headers [][2]string
	body    []byte
}

// strictResponses: the whole output must be a sequence of well-formed responses
func strictResponses(out []byte) ([]c03resp, string) {
	var rs []c03resp
	for len(out) > 0 {
		i := bytes.Index(out, []byte("\r\n\r\n"))
		if i < 0 {
			return rs, "trailing-bytes-not-a-response"
		}
		fields, why := strictBlock(out[:i+4], true)
		if why != "" {
			return rs, "header-block:" + why
		}
		first := out[:bytes.Index(out, []byte("\r\n"))]
		p := strings.SplitN(string(first), " ", 3)
		if len(p) < 2 || p[0] != "HTTP/1.1" || len(p[1]) != 3 {
			return rs, "bad-status-line"
		}
		st, err := strconv.Atoi(p[1])
		if err != nil {
			return rs, "bad-status-line"
		}
		r := c03resp{status: st, headers: fields}
		out = out[i+4:]
		cl := -1
		chunked := false
		for _, f := range fields {
			if strings.EqualFold(f[0], "Content-Length") {
				cl, err = strconv.Atoi(f[1])
				if err != nil || cl < 0 {
					return rs, "bad-content-length"
				}
			}
			if strings.EqualFold(f[0], "Transfer-Encoding") && strings.EqualFold(f[1], "chunked") {
				chunked = true
			}
		}
		switch {
		case st/100 == 1 || st == 204 || st == 304:
		case chunked:
			return rs, "unexpected-chunked" // the echo handler never streams
		case cl >= 0:
			if cl > len(out) {
				return rs, "body-shorter-than-content-length"
			}
			r.body = out[:cl]
			out = out[cl:]
		default:
			return rs, "no-framing"
		}
		rs = append(rs, r)
	}
	return rs, ""
}

func (r c03resp) get(name string) string {
	for _, f := range r.headers {
		if strings.EqualFold(f[0], name) {
			return f[1]
		}
	}
	return ""
}

func c03Serve(stream []byte, frag int, maxBody int, streaming bool) (handled, processed int, out []byte, closed bool, err error) {
	e := newRunningEngine(func(o *config.Options) {
		o.MaxRequestBodySize = maxBody
		o.StreamRequestBody = streaming
		o.NoDefaultDate = true
	})
	// engine-level middleware: runs for routed requests and for the engine's own 400/404/405
	e.Use(func(c context.Context, ctx *app.RequestContext) {
		processed++
		ctx.Next(c)
		ctx.Response.Header.Set("X-E", strconv.Itoa(processed))
	})
	e.Any("/*p", func(c context.Context, ctx *app.RequestContext) {
		handled++
		if streaming {
			ctx.Request.Body()
		}
		ctx.Response.Header.Set("X-H", strconv.Itoa(handled))
		ctx.SetBodyString("ok")
	})
	startEngine(e)
	var frags [][]byte
	if frag <= 0 {
		frags = [][]byte{stream}
	} else {
		for i := 0; i < len(stream); i += frag {
			j := i + frag
			if j > len(stream) {
				j = len(stream)
			}
			frags = append(frags, stream[i:j])
		}
	}
	sc := newScriptConn(frags)
	out, err = serveScript(e, sc)
	sc.mu.Lock()
	closed = sc.closed
	sc.mu.Unlock()
	return
}

var c03ReqSeeds = []string{
	"GET /a HTTP/1.1\r\nHost: h\r\n\r\n",
	"POST /b HTTP/1.1\r\nHost: h\r\nContent-Length: 5\r\n\r\nhello",
	"POST /c HTTP/1.1\r\nHost: h\r\nTransfer-Encoding: chunked\r\n\r\n3\r\nabc\r\n2\r\nde\r\n0\r\n\r\n",
	"POST /d HTTP/1.1\r\nHost: h\r\nTransfer-Encoding: chunked\r\nTrailer: X-T\r\n\r\n1\r\nz\r\n0\r\nX-T: v\r\n\r\n",
	"PUT /e?x=1 HTTP/1.1\r\nHost: h\r\nCookie: a=b\r\nContent-Type: multipart/form-data; boundary=B\r\nContent-Length: 40\r\n\r\n--B\r\nContent-Disposition: x\r\n\r\nv\r\n--B--\r\n",
	"POST /f HTTP/1.1\r\nHost: h\r\nExpect: 100-continue\r\nContent-Length: 3\r\n\r\nabc",
	"GET http://o.p/q HTTP/1.1\r\nHost: h\r\nRange: bytes=0-1\r\n\r\n",
}

func init() {
	register(&Unit{Name: "c03.parsers", Props: []string{"C03"},
		Check: func(t *T, in In) []Finding {
			name := in.S(0)
			var fs []Finding
			for _, p := range c03Parsers {
				if p.name == name {
					func() {
						defer func() {
							if r := recover(); r != nil {
								fs = append(fs, Finding{Kind: "oracle", Unit: "c03.parsers", Class: "panic:" + name, Impl: fmt.Sprint(r)})
							}
						}()
						p.run(append([]byte(nil), in.B(1)...))
					}()
				}
			}
			return fs
		},
		Gen: func(t *T) {
			for _, p := range c03Parsers {
				enumStrings(p.alpha, t.Scale(3, 4), func(s []byte) { t.Do(In{S(p.name), H(s)}, len(s) > 0) })
				for _, seed := range p.seeds {
					t.Do(In{S(p.name), H([]byte(seed))}, true)
					for i := 0; i < t.Scale(1500, 40000); i++ {
						t.Do(In{S(p.name), H(c03Mutate(t, []byte(seed), p.alpha))}, true)
					}
				}
			}
		}})

	register(&Unit{Name: "c03.server", Props: []string{"C03"},
		// in: stream bytes, fragment size, body limit, streaming
		Check: func(t *T, in In) []Finding {
			stream := in.B(0)
			if in.N(2) <= 0 && !bytes.Contains(stream, []byte("Content-Length: 9000000000000000000")) {
				// without a body limit hertz allocates whatever length a message declares (fixed or
				// chunk size) before the bytes arrive: such inputs would ask THIS process for
				// gigabytes.  Only the length Go refuses outright (makeslice panic, finding D21) is run.
				return nil
			}
			_, processed, out, closed, err := c03Serve(stream, in.N(1), in.N(2), in.N(3) == 1)
			var fs []Finding
			if err != nil && strings.HasPrefix(err.Error(), "PANIC") {
				cls := "panic"
				if in.N(2) <= 0 && strings.Contains(err.Error(), "makeslice") {
					// known finding D21: with MaxRequestBodySize <= 0 (no limit) the buffered reader
					// allocates the declared Content-Length before any body byte arrived
					cls = "panic:makeslice-with-unlimited-body-size"
				}
				return []Finding{{Kind: "oracle", Unit: "c03.server", Class: cls, Impl: err.Error()}}
			}
			if err != nil && strings.HasPrefix(err.Error(), "harness:") {
				return []Finding{{Kind: "oracle", Unit: "c03.server", Class: "serve-blocked", Impl: err.Error()}}
			}
			rs, why := strictResponses(out)
			if why != "" {
				return []Finding{{Kind: "oracle", Unit: "c03.server", Class: "output-not-well-formed-http:" + why, Impl: string(out)}}
			}
			nHandled := 0
			for i, r := range rs {
				if r.status == 100 {
					continue
				}
				if r.get("X-E") != "" { // went through the engine (handler, or the engine's own 400/404/405)
					nHandled++
					continue
				}
				// a response the server generated itself: a rejection
				cls := ""
				switch {
				case r.status/100 != 4 && r.status != 500 && r.status != 501:
					cls = "reject-status-not-4xx"
				case !strings.EqualFold(r.get("Connection"), "close"):
					cls = "reject-without-connection-close"
				case i != len(rs)-1:
					cls = "bytes-after-reject-response"
				case !closed:
					cls = "connection-not-closed-after-reject"
				}
				if cls != "" {
					fs = append(fs, Finding{Kind: "oracle", Unit: "c03.server", Class: cls, Impl: string(out), Note: fmt.Sprint(r.status)})
				}
			}
			if len(in) > 4 && in.N(4) == 1 { // a well-formed request whose body exceeds the limit, buffered mode
				ok413 := len(rs) > 0 && rs[len(rs)-1].status == 413 && processed == 0
				if !ok413 {
					fs = append(fs, Finding{Kind: "oracle", Unit: "c03.server", Class: "oversize-body-not-rejected-with-413", Impl: string(out), Note: fmt.Sprintf("limit=%d engine runs=%d", in.N(2), processed)})
				}
			}
			if nHandled != processed {
				fs = append(fs, Finding{Kind: "oracle", Unit: "c03.server", Class: "handler-ran-for-a-rejected-request", Impl: string(out), Note: fmt.Sprintf("engine runs=%d engine responses=%d", processed, nHandled)})
			}
			return fs
		},
		Gen: func(t *T) {
			alpha := toks("\r\n", "\n", "\r", " ", ":", "Content-Length: 5", "Content-Length: 99999999999999999999", "Transfer-Encoding: chunked", "ffffffffffffffff", "-1", "\x00", "HTTP/1.1", "HTTP/1.0", "Trailer: a,,b", "Host", ";", "0")
			// configuration without a body limit: a huge declared length
			t.Do(In{H([]byte("POST / HTTP/1.1\r\nHost: h\r\nContent-Length: 9000000000000000000\r\n\r\nabc")), Nn(0), Nn(0), Nn(0)}, true)
			t.Do(In{H([]byte("POST / HTTP/1.1\r\nHost: h\r\nContent-Length: 9000000000000000000\r\n\r\nabc")), Nn(0), Nn(4 * 1024 * 1024), Nn(0)}, true)
			// bodies larger than the limit, every framing, buffered mode: always 413 and no handler
			for _, body := range []string{
				"POST /b HTTP/1.1\r\nHost: h\r\nContent-Length: 50\r\n\r\n" + strings.Repeat("x", 50),
				"POST /c HTTP/1.1\r\nHost: h\r\nTransfer-Encoding: chunked\r\n\r\n19\r\n" + strings.Repeat("y", 25) + "\r\n19\r\n" + strings.Repeat("z", 25) + "\r\n0\r\n\r\n",
				"PUT /e HTTP/1.1\r\nHost: h\r\nContent-Type: multipart/form-data; boundary=B\r\nContent-Length: 62\r\n\r\n--B\r\nContent-Disposition: form-data; name=\"a\"\r\n\r\nvvvvv\r\n--B--\r\n",
				"POST /f HTTP/1.1\r\nHost: h\r\nExpect: 100-continue\r\nContent-Length: 50\r\n\r\n" + strings.Repeat("x", 50),
				"POST /g HTTP/1.1\r\nHost: h\r\nContent-Type: multipart/form-data; boundary=B\r\nExpect: 100-continue\r\nContent-Length: 62\r\n\r\n--B\r\nContent-Disposition: form-data; name=\"a\"\r\n\r\nvvvvv\r\n--B--\r\n",
			} {
				for _, lim := range []int{1, 10, 24, 49} {
					for _, frag := range []int{0, 1, 7} {
						t.Do(In{H([]byte(body + c03ReqSeeds[0])), Nn(frag), Nn(lim), Nn(0), Nn(1)}, true)
					}
				}
			}
			// chunk-size lines around the width of an int
			for _, size := range []string{"fffffffffffffff", "ffffffffffffffff", "8000000000000000", "7fffffffffffffff", "fffffffffffffffff", "0000000000000000000003", "-1", "+3", "0x3", "3;ext=1", " 3", "3 "} {
				for _, second := range []bool{false, true} {
					body := "POST /c HTTP/1.1\r\nHost: h\r\nTransfer-Encoding: chunked\r\n\r\n"
					if second {
						body += "3\r\nabc\r\n"
					}
					body += size + "\r\nabc\r\n0\r\n\r\n"
					for _, st := range []int{0, 1} {
						t.Do(In{H([]byte(body)), Nn(0), Nn(4 * 1024 * 1024), Nn(st)}, true)
						t.Do(In{H([]byte(body)), Nn(5), Nn(64), Nn(st)}, true)
					}
				}
			}
			for _, seed := range c03ReqSeeds {
				for _, lim := range []int{4 * 1024 * 1024, 4} {
					for _, st := range []int{0, 1} {
						t.Do(In{H([]byte(seed + c03ReqSeeds[0])), Nn(0), Nn(lim), Nn(st)}, true)
					}
				}
				for i := 0; i < t.Scale(300, 8000); i++ {
					s := c03Mutate(t, []byte(seed), alpha)
					if t.R.Intn(2) == 0 {
						s = append(s, c03ReqSeeds[0]...)
					}
					lim := []int{4 * 1024 * 1024, 4, 64}[t.R.Intn(3)]
					t.Do(In{H(s), Nn([]int{0, 1, 3, 7, 64}[t.R.Intn(5)]), Nn(lim), Nn(t.R.Intn(2))}, true)
				}
			}
		}})
}

// ---- unit correspondences with the Coq models ----
func init() {
	register(&Unit{Name: "c03.units", Props: []string{"C03", "C08"},
		Check: func(t *T, in In) []Finding {
			var fs []Finding
			diff := func(class, impl, mod string) {
				if impl != mod {
					fs = append(fs, Finding{Kind: "corr", Unit: "c03.units", Class: class, Impl: impl, Model: mod})
				}
			}
			s := in.B(1)
			switch in.S(0) {
			case "split":
				host := in.B(2)
				sc, h, u := protocol.VerifSplitHostURI(append([]byte(nil), host...), append([]byte(nil), s...))
				diff("split_host_uri", fmt.Sprintf("%x:%x:%x", sc, h, u), t.M.Call("split_host_uri", host, s))
			case "trailers":
				var tr protocol.Trailer
				err := tr.SetTrailers(append([]byte(nil), s...))
				var ks []string
				tr.VisitAll(func(k, v []byte) { ks = append(ks, fmt.Sprintf("%x", k)) })
				bad := "0"
				if err != nil {
					bad = "1"
				}
				diff("set_trailers", strings.Join(ks, ",")+"|"+bad, t.M.Call("set_trailers", s))
			case "range":
				n := in.N(2)
				st, en, err := app.ParseByteRange(s, n)
				impl := "ERR"
				if err == nil {
					impl = fmt.Sprintf("%d-%d", st, en)
					// oracle (range arithmetic): inside the representation
					if !(0 <= st && st <= en && en < n) {
						fs = append(fs, Finding{Kind: "oracle", Unit: "c03.units", Class: "range-outside-representation", Impl: impl, Note: fmt.Sprint(n)})
					}
				}
				diff("parse_byte_range", impl, t.M.CallN("parse_byte_range", s, n))
			case "uint":
				v, n, err := verifParseUintBuf(s)
				impl := "ERR"
				if err == nil {
					impl = fmt.Sprintf("%d,%d", v, n)
				}
				diff("parse_uint_buf", impl, t.M.Call("parse_uint_buf", s))
			case "ci":
				b := in.B(2)
				diff("ci_compare", fmt.Sprint(map[bool]int{true: 1, false: 0}[verifCICompare(s, b)]), t.M.Call("ci_compare", s, b))
				k := append([]byte(nil), s...)
				verifNormalizeKey(k)
				diff("normalize_header_key", string(k), t.M.Call("normalize_header_key", s))
			}
			return fs
		},
		Gen: func(t *T) {
			ua := toks("a", ":", "/", "?", "#", "@", ".", "+", "1", "//", "Z")
			enumStrings(ua, t.Scale(4, 5), func(s []byte) {
				t.Do(In{S("split"), H(s), H(nil)}, bytes.Contains(s, []byte(":")))
			})
			for i := 0; i < t.Scale(5000, 100000); i++ {
				t.Do(In{S("split"), H(randFrom(t.R, ua, t.R.Intn(10))), H(randFrom(t.R, toks("h", ".", ":", "8"), t.R.Intn(4)))}, true)
			}
			ta := toks("a", ",", " ", "Content-Length", "content-type", "Trailer", "Proxy-Connection", "proxy-x", "Conten", "Host", "te", "X-b", "\x00", "-")
			enumStrings(ta, t.Scale(3, 4), func(s []byte) { t.Do(In{S("trailers"), H(s)}, len(s) > 0) })
			for i := 0; i < t.Scale(5000, 100000); i++ {
				t.Do(In{S("trailers"), H(randFrom(t.R, ta, t.R.Intn(8)))}, true)
			}
			// every syntactic range form with numbers 0..N+2 and overflow literals, lengths 0..N
			N := t.Scale(6, 12)
			nums := []string{"", "x", "99999999999999999999", "21000000000000000000", "9223372036854775807", "9223372036854775808", "18446744073709551617", "-1", " 1", "01"}
			for i := 0; i <= N+2; i++ {
				nums = append(nums, strconv.Itoa(i))
			}
			for n := 0; n <= N; n++ {
				for _, a := range nums {
					for _, b := range nums {
						t.Do(In{S("range"), H([]byte("bytes=" + a + "-" + b)), Nn(n)}, true)
					}
					for _, form := range []string{"bytes=" + a, "bytes" + a + "-", "byte=" + a + "-", "bytes=" + a + "-1,2-3", "bytes =" + a + "-"} {
						t.Do(In{S("range"), H([]byte(form)), Nn(n)}, true)
					}
				}
			}
			da := toks("0", "1", "9", "a", " ", "-", "99999999999", "184467440737", "922337203685477580")
			enumStrings(da, t.Scale(4, 5), func(s []byte) { t.Do(In{S("uint"), H(s)}, len(s) > 0) })
			ca := toks("Content-Length", "content-length", "Content\rLength", "CONTENT-LENGTH", "Content-Lengt", "@", "`", "\x00", " ", "a", "A", "-", "\r", "[", "{")
			for _, a := range ca {
				for _, b := range ca {
					t.Do(In{S("ci"), H(a), H(b)}, true)
				}
			}
			for i := 0; i < t.Scale(3000, 60000); i++ {
				t.Do(In{S("ci"), H(randFrom(t.R, ca, 1+t.R.Intn(3))), H(randFrom(t.R, ca, 1+t.R.Intn(3)))}, true)
			}
		}})
}
