package main

import (
	"fmt"
	"strings"

	"github.com/cloudwego/hertz/pkg/network/standard"
	"github.com/cloudwego/hertz/pkg/protocol"
	"github.com/cloudwego/hertz/pkg/protocol/http1/req"
)

func init() {
	register(&Unit{Name: "c01.reqhead", Props: []string{"C01", "C03"},
		// in: the bytes of a request head (request line, fields, empty line, maybe more)
		Check: func(t *T, in In) []Finding {
			buf := in.B(0)
			sc := newScriptConn([][]byte{append([]byte{}, buf...)})
			conn := standard.NewConnForVerif(sc, 4096)
			var h protocol.RequestHeader
			if len(in) > 1 && in.N(1) == 1 {
				// names are kept as sent; the framing decision is case-insensitive either way (the model's ci_compare)
				h.DisableNormalizing()
			}
			err := req.ReadHeader(&h, conn)
			var impl string
			switch {
			case err == nil:
				consumed := len(buf) - conn.Len() // everything was handed over in one read
				impl = fmt.Sprintf("OK %x %x %s %d %d", h.Method(), h.RequestURI(), map[bool]string{true: "1", false: "0"}[h.IsHTTP11()], h.ContentLength(), consumed)
			default:
				impl = "ERR"
			}
			mod := t.M.Call("req_head", buf)
			// the model says why a head is refused or incomplete; the implementation returns an error either way
			if strings.HasPrefix(mod, "MORE") || strings.HasPrefix(mod, "BAD") {
				t.Count("model/" + strings.SplitN(mod, " ", 3)[0] + map[bool]string{true: "-" + strings.TrimPrefix(mod, "BAD "), false: ""}[strings.HasPrefix(mod, "BAD")])
				mod = "ERR"
			} else {
				t.Count("model/OK")
			}
			if mod != impl {
				return []Finding{{Kind: "corr", Unit: "c01.reqhead", Class: "req_head", Impl: impl, Model: t.M.Call("req_head", buf)}}
			}
			if err == nil && !(len(in) > 1 && in.N(1) == 1) {
				// connection persistence (RequestHeader.ConnectionClose), modelled for canonical stored names
				ic := map[bool]string{true: "1", false: "0"}[h.ConnectionClose()]
				if mc := t.M.Call("req_close", buf); mc != ic {
					return []Finding{{Kind: "corr", Unit: "c01.reqhead", Class: "req_close", Impl: ic, Model: mc}}
				}
			}
			return nil
		},
		Gen: func(t *T) {
			methods := []string{"GET", "POST", "X", "", "G T"}
			uris := []string{"/", "/a?b=1", "/a b", "*", "", "http://h/x"}
			protos := []string{" HTTP/1.1", " HTTP/1.0", " HTTP/1.1 ", "", " http/1.1", " HTTP/2"}
			names := []string{"Host", "content-length", "Content-Length", "CONTENT-LENGTH", "Transfer-Encoding", "transfer-encoding", "X-A", "Conten\tLength", "A b", "Connection", "connection", "CONNECTION", "Connection", ""}
			values := []string{"h", "5", "0", "12x", "", "chunked", "identity", "gzip, chunked", "close", "keep-alive", "Keep-Alive", "x, keep-alive", " keep-alive ,y", "Close", "upgrade", "9223372036854775808", "a\x00b", "a\x7fb", "7 "}
			eols := []string{"\r\n", "\r\n", "\r\n", "\n"}
			alpha := []byte("a: \t\r\n-5G/")
			for i := 0; i < t.Scale(6000, 150000); i++ {
				var sb strings.Builder
				for t.R.Intn(10) == 0 {
					sb.WriteString(eols[t.R.Intn(len(eols))]) // leading empty lines
				}
				sb.WriteString(methods[t.R.Intn(len(methods))] + " " + uris[t.R.Intn(len(uris))] + protos[t.R.Intn(len(protos))])
				sb.WriteString(eols[t.R.Intn(len(eols))])
				for j, n := 0, t.R.Intn(5); j < n; j++ {
					sb.WriteString(names[t.R.Intn(len(names))] + ": " + values[t.R.Intn(len(values))] + eols[t.R.Intn(len(eols))])
				}
				if t.R.Intn(8) != 0 {
					sb.WriteString(eols[t.R.Intn(len(eols))])
				}
				if t.R.Intn(3) == 0 {
					sb.WriteString("hello")
				}
				b := []byte(sb.String())
				switch t.R.Intn(8) {
				case 0:
					if len(b) > 0 {
						b = b[:t.R.Intn(len(b))]
					}
				case 1:
					if len(b) > 0 {
						b[t.R.Intn(len(b))] = alpha[t.R.Intn(len(alpha))]
					}
				case 2:
					b = make([]byte, t.R.Intn(16))
					for k := range b {
						b[k] = alpha[t.R.Intn(len(alpha))]
					}
				}
				if len(b) == 0 {
					b = []byte("\n")
				}
				if t.R.Intn(3) == 0 {
					t.Do(In{H(b), Nn(1)}, true)
				} else {
					t.Do(In{H(b)}, true)
				}
			}
		}})
}
