package main

import (
	"bytes"
	"path"
	"strings"

	"github.com/cloudwego/hertz/pkg/common/utils"
	"github.com/cloudwego/hertz/pkg/protocol"
)

var pathToks = toks("/", ".", "a", "%2e", "%2f", "%", "\\")
var pathToksRand = toks("/", ".", "a", "%2e", "%2f", "%", "\\", "..", "%2E", "%2F", "%25", "%252e", "b/", "/../", "/./", "//", "%5c", "%00", "\x00", "?", "#", " ", "+")

// containedPath: begins with '/', no ".." segment, no empty or "." segment except the last.
func containedPath(p string) string {
	if len(p) == 0 || p[0] != '/' {
		return "no-leading-slash"
	}
	segs := strings.Split(p[1:], "/")
	for i, s := range segs {
		if s == ".." {
			return "dotdot-segment"
		}
		if i < len(segs)-1 && (s == "" || s == ".") {
			return "empty-or-dot-inner-segment"
		}
	}
	return ""
}

// decodeOnceSpec: percent-decoding once (no '+' handling), independent of hertz's tables.
func decodeOnceSpec(s []byte) []byte {
	hexv := func(c byte) int {
		switch {
		case c >= '0' && c <= '9':
			return int(c - '0')
		case c >= 'a' && c <= 'f':
			return int(c-'a') + 10
		case c >= 'A' && c <= 'F':
			return int(c-'A') + 10
		}
		return -1
	}
	var out []byte
	for i := 0; i < len(s); i++ {
		if s[i] == '%' {
			if i+2 >= len(s) {
				return append(out, s[i:]...)
			}
			a, b := hexv(s[i+1]), hexv(s[i+2])
			if a >= 0 && b >= 0 {
				out = append(out, byte(a<<4|b))
				i += 2
				continue
			}
		}
		out = append(out, s[i])
	}
	return out
}

// stackSpec: the property's "decode once, then resolve segments left to right with a stack"
// (DESIGN.md C07 Spec): empty segments are dropped (in last position they leave a trailing
// slash); "." is dropped unless last, where it is kept; ".." pops (no-op on the empty stack)
// and in last position leaves a trailing slash; anything else is pushed.
func stackSpec(src []byte) string {
	d := decodeOnceSpec(src)
	if len(src) == 0 || src[0] != '/' {
		d = append([]byte("/"), d...)
	}
	segs := strings.Split(string(d[1:]), "/")
	var st []string
	trailing := false
	for i, s := range segs {
		last := i == len(segs)-1
		switch {
		case s == "":
			if last {
				trailing = true
			}
		case s == ".":
			if last {
				st = append(st, s)
			}
		case s == "..":
			if len(st) > 0 {
				st = st[:len(st)-1]
			}
			if last {
				trailing = true
			}
		default:
			st = append(st, s)
		}
	}
	out := "/" + strings.Join(st, "/")
	if trailing && len(st) > 0 {
		out += "/"
	}
	return out
}

func hasCTL(s []byte) bool {
	for _, b := range s {
		if b < ' ' || b == 0x7f {
			return true
		}
	}
	return false
}

func init() {
	register(&Unit{Name: "c07.normalize", Props: []string{"C07"},
		Check: func(t *T, in In) []Finding {
			s := in.B(0)
			var fs []Finding
			impl := string(protocol.VerifNormalizePath(nil, append([]byte(nil), s...)))
			mod := t.M.Call("normalize_path", s)
			if impl != mod {
				fs = append(fs, Finding{Kind: "corr", Unit: "c07.normalize", Class: "normalize_path", Impl: impl, Model: mod})
			}
			if why := containedPath(impl); why != "" {
				fs = append(fs, Finding{Kind: "oracle", Unit: "c07.normalize", Class: "not-contained:" + why, Impl: impl})
			}
			if exp := stackSpec(s); exp != impl {
				fs = append(fs, Finding{Kind: "oracle", Unit: "c07.normalize", Class: "differs-from-stack-spec", Impl: impl, Expect: exp})
			}
			// the public routes to the same function: URI.SetPath / URI.Parse + Path()
			var u protocol.URI
			u.SetPathBytes(append([]byte(nil), s...))
			if p := string(u.Path()); p != impl {
				fs = append(fs, Finding{Kind: "oracle", Unit: "c07.normalize", Class: "SetPath-differs-from-normalizePath", Impl: p, Expect: impl})
			}
			if !bytes.ContainsAny(s, "?#") && !hasCTL(s) && !bytes.Contains(s, []byte("://")) {
				var u2 protocol.URI
				u2.Parse([]byte("h"), append([]byte(nil), s...))
				p := string(u2.Path())
				if why := containedPath(p); why != "" {
					fs = append(fs, Finding{Kind: "oracle", Unit: "c07.normalize", Class: "parse-not-contained:" + why, Impl: p})
				}
				if len(s) > 0 && s[0] == '/' && p != impl {
					fs = append(fs, Finding{Kind: "oracle", Unit: "c07.normalize", Class: "Parse-differs-from-normalizePath", Impl: p, Expect: impl})
				}
			}
			return fs
		},
		Gen: func(t *T) {
			enumStrings(pathToks, t.Scale(6, 7), func(s []byte) { t.Do(In{H(s)}, bytes.ContainsAny(s, "/.%")) })
			for i := 0; i < t.Scale(40000, 400000); i++ {
				s := randFrom(t.R, pathToksRand, t.R.Intn(14))
				t.Do(In{H(s)}, bytes.ContainsAny(s, "/.%"))
			}
		}})

	register(&Unit{Name: "c07.cleanpath", Props: []string{"C07"},
		Check: func(t *T, in In) []Finding {
			s := in.B(0)
			var fs []Finding
			impl := utils.CleanPath(string(s))
			mod := t.M.Call("clean_path", s)
			if impl != mod {
				fs = append(fs, Finding{Kind: "corr", Unit: "c07.cleanpath", Class: "clean_path", Impl: impl, Model: mod})
			}
			if why := containedPath(impl); why != "" {
				fs = append(fs, Finding{Kind: "oracle", Unit: "c07.cleanpath", Class: "clean-not-contained:" + why, Impl: impl})
			}
			// second opinion: path.Clean (which drops the trailing slash CleanPath keeps)
			lead := string(s)
			if lead == "" || lead[0] != '/' {
				lead = "/" + lead
			}
			exp := path.Clean(lead)
			got := impl
			if len(got) > 1 && strings.HasSuffix(got, "/") {
				got = got[:len(got)-1]
			}
			if got != exp {
				fs = append(fs, Finding{Kind: "oracle", Unit: "c07.cleanpath", Class: "clean-differs-from-path.Clean", Impl: impl, Expect: exp})
			}
			return fs
		},
		Gen: func(t *T) {
			ct := toks("/", ".", "a", "..", "b", "\\")
			enumStrings(ct, t.Scale(6, 8), func(s []byte) { t.Do(In{H(s)}, bytes.ContainsAny(s, "/.")) })
			for i := 0; i < t.Scale(30000, 400000); i++ {
				s := randFrom(t.R, toks("/", ".", "a", "..", "bc", "//", "/./", "/../", "...", "%2e"), t.R.Intn(16))
				if t.R.Intn(10) == 0 { // beyond the 140-byte stack buffer
					s = append(bytes.Repeat([]byte("/abcdefgh"), 16), s...)
				}
				t.Do(In{H(s)}, bytes.ContainsAny(s, "/."))
			}
		}})
}
