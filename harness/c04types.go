package main

import (
	"net"

	"github.com/cloudwego/hertz/pkg/network"
	"github.com/cloudwego/hertz/pkg/network/standard"
	"github.com/cloudwego/hertz/pkg/protocol"
)

type protocolResponseHeader = protocol.ResponseHeader
type protocolResponse = protocol.Response

func standardConnOver(c net.Conn) network.Conn { return standard.NewConnForVerif(c, 4096) }
