package main

import (
	"bytes"
	"compress/gzip"
	"fmt"
	"io"
	"os"
	"path/filepath"
	"strings"
	"time"

	"github.com/cloudwego/hertz/pkg/app"
	"github.com/cloudwego/hertz/pkg/common/config"
)

// c08.compress: FS.Compress — a file asked for with Accept-Encoding: gzip is served from a compressed sibling on
// disk (<file>.hertz.gz) that is re-created when it is stale.  Whatever happened to the file since the sibling was
// written (replaced by other content with a newer or an older modification time; a sibling left by an earlier
// process), the decoded bytes are the file's bytes NOW.  (Staleness is judged by the modification time: a replacement
// that keeps the very same time is not detectable and is not generated.)  Every request goes to a fresh handler (the
// in-memory cache, which may legitimately lag by CacheDuration, is not the subject).
func c08gzGet(root, name string, gz bool) (status int, body []byte, why string) {
	e := newRunningEngine(func(o *config.Options) { o.NoDefaultDate = true })
	e.StaticFS("/", &app.FS{Root: root, Compress: true})
	startEngine(e)
	req := "GET /" + name + " HTTP/1.1\r\nHost: h\r\n"
	if gz {
		req += "Accept-Encoding: gzip\r\n"
	}
	out, _ := serveScript(e, newScriptConn([][]byte{[]byte(req + "\r\n")}))
	rs, bad := strictResponses(out)
	if bad != "" || len(rs) != 1 {
		return 0, nil, "response-not-well-formed:" + bad
	}
	body = rs[0].body
	if strings.Contains(strings.ToLower(rs[0].get("Content-Encoding")), "gzip") {
		zr, err := gzip.NewReader(bytes.NewReader(body))
		if err != nil {
			return rs[0].status, nil, "gzip-body-does-not-decode"
		}
		body, err = io.ReadAll(zr)
		if err != nil {
			return rs[0].status, nil, "gzip-body-does-not-decode"
		}
	}
	return rs[0].status, body, ""
}

func init() {
	register(&Unit{Name: "c08.compress", Props: []string{"C08"},
		// in: ops  w<k>:<dt>  write version k of the file with modification time base+dt seconds | g  GET with gzip | i  GET identity
		Check: func(t *T, in In) []Finding {
			root, err := os.MkdirTemp("", "verif-c08gz-")
			if err != nil {
				panic(err)
			}
			defer os.RemoveAll(root)
			base := time.Now().Add(-24 * time.Hour).Truncate(time.Second)
			var cur []byte
			var fs []Finding
			for _, o := range strings.Split(in.S(0), ",") {
				switch o[0] {
				case 'w':
					var k, dt int
					fmt.Sscanf(o, "w%d:%d", &k, &dt)
					cur = bytes.Repeat([]byte(fmt.Sprintf("version %d of the file, compressible text. ", k)), 40+13*k)
					p := filepath.Join(root, "f.txt")
					os.WriteFile(p, cur, 0o644)
					os.Chtimes(p, base.Add(time.Duration(dt)*time.Second), base.Add(time.Duration(dt)*time.Second))
				case 'g', 'i':
					status, body, why := c08gzGet(root, "f.txt", o[0] == 'g')
					switch {
					case why != "":
						fs = append(fs, Finding{Kind: "oracle", Unit: "c08.compress", Class: why, Impl: fmt.Sprint(status)})
					case status != 200 || !bytes.Equal(body, cur):
						fs = append(fs, Finding{Kind: "oracle", Unit: "c08.compress", Class: "served-bytes-are-not-the-file", Impl: fmt.Sprintf("status %d, %d bytes starting %q", status, len(body), truncate(string(body), 30)),
							Expect: fmt.Sprintf("%d bytes starting %q", len(cur), truncate(string(cur), 30))})
					}
					if len(fs) > 0 {
						return fs
					}
				}
			}
			return fs
		},
		Gen: func(t *T) {
			for _, h := range []string{"w1:0,g,g", "w1:0,g,w2:100,g", "w1:100,g,w2:0,g", "w1:50,g,i,w2:10,i,g,w3:90,g,w4:70,g", "w1:0,i,w2:-5,g,g"} {
				t.Do(In{S(h)}, true)
			}
			for i := 0; i < t.Scale(25, 600); i++ {
				times := t.R.Perm(40) // every version gets a modification time of its own
				ops := []string{"w1:" + fmt.Sprint(5*times[0])}
				for k, n := 2, 2+t.R.Intn(6); len(ops) < n; {
					switch t.R.Intn(3) {
					case 0:
						ops = append(ops, fmt.Sprintf("w%d:%d", k, 5*times[k-1]))
						k++
					case 1:
						ops = append(ops, "g")
					default:
						ops = append(ops, "i")
					}
				}
				ops = append(ops, "g")
				t.Do(In{S(strings.Join(ops, ","))}, true)
			}
		}})

	// c08.vhost: the built-in rewriters (NewVHostPathRewriter, NewPathSlashesStripper) with hostile Host headers and
	// paths: what they hand to the file handler stays below the root.
	register(&Unit{Name: "c08.vhost", Props: []string{"C08", "C07"},
		// in: rewriter (0 vhost, 1 slashes stripper), slashes count, Host header, request path
		Check: func(t *T, in In) []Finding {
			tr := c08Tree()
			e := newRunningEngine(func(o *config.Options) { o.NoDefaultDate = true })
			rw := app.NewVHostPathRewriter(in.N(1))
			if in.N(0) == 1 {
				rw = app.NewPathSlashesStripper(in.N(1))
			}
			e.StaticFS("/", &app.FS{Root: tr.root, PathRewrite: rw, IndexNames: []string{"index.html"}, GenerateIndexPages: true})
			startEngine(e)
			out, _ := serveScript(e, newScriptConn([][]byte{[]byte("GET " + string(in.B(3)) + " HTTP/1.1\r\nHost: " + string(in.B(2)) + "\r\n\r\n")}))
			var fs []Finding
			if bytes.Contains(out, tr.secret) || bytes.Contains(out, []byte("secret.txt")) {
				fs = append(fs, Finding{Kind: "oracle", Unit: "c08.vhost", Class: "file-or-listing-outside-the-root-served", Impl: truncate(string(out), 300)})
			}
			return fs
		},
		Gen: func(t *T) {
			hosts := []string{"..", ".", "../..", "a/..", "%2e%2e", "..%2f", "h", "", "..\\..", "a/../..", "...", ".. "}
			paths := []string{"/", "/one.txt", "/a/b", "/../x", "/..", "//", "/dir/", "/a", "/index.html", "/x.txt"}
			for rwk := 0; rwk < 2; rwk++ {
				for n := 0; n <= 3; n++ {
					for _, h := range hosts {
						for _, p := range paths {
							t.Do(In{Nn(rwk), Nn(n), H([]byte(h)), H([]byte(p))}, true)
						}
					}
				}
			}
		}})

	// c08.rewrite: FS.PathRewrite may hand the handler any path (here: taken verbatim from a query argument).  Whatever
	// it is, nothing outside the root is served: the guard of the file handler itself.
	register(&Unit{Name: "c08.rewrite", Props: []string{"C08", "C07"},
		Check: func(t *T, in In) []Finding {
			tr := c08Tree()
			e := newRunningEngine(func(o *config.Options) { o.NoDefaultDate = true })
			e.StaticFS("/", &app.FS{Root: tr.root, PathRewrite: func(c *app.RequestContext) []byte { return c.QueryArgs().Peek("p") }})
			startEngine(e)
			p := in.B(0)
			var q []byte
			for _, c := range p { // the query value carries the bytes verbatim
				q = append(q, []byte(fmt.Sprintf("%%%02X", c))...)
			}
			out, _ := serveScript(e, newScriptConn([][]byte{[]byte("GET /x?p=" + string(q) + " HTTP/1.1\r\nHost: h\r\n\r\n")}))
			var fs []Finding
			if bytes.Contains(out, tr.secret) {
				fs = append(fs, Finding{Kind: "oracle", Unit: "c08.rewrite", Class: "file-outside-the-root-served", Impl: truncate(string(out), 200)})
			}
			rs, bad := strictResponses(out)
			if bad == "" && len(rs) == 1 && rs[0].status == 200 {
				// a served file is one of the tree, addressed by the cleaned path
				known := false
				for _, b := range tr.files {
					if bytes.Equal(b, rs[0].body) {
						known = true
					}
				}
				if !known && !bytes.Contains(rs[0].body, []byte("<html>")) {
					fs = append(fs, Finding{Kind: "oracle", Unit: "c08.rewrite", Class: "served-bytes-are-no-file-of-the-tree", Impl: truncate(string(rs[0].body), 100)})
				}
				t.Count("status/200")
			}
			return fs
		},
		Gen: func(t *T) {
			toksR := toks("/", "..", ".", "secret.txt", "one.txt", "dir", "%2e", "\\", "//")
			enumStrings(toksR, t.Scale(5, 6), func(s []byte) { t.Do(In{H(s)}, bytes.Contains(s, []byte(".."))) })
		}})
}
