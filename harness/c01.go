package main

import (
	"fmt"
	"math/rand"
	"strings"
)

// checkHandled compares what handler i saw with abstract request i
func checkHandled(line string, q absReq, noNorm ...bool) string {
	m, tg, bsha, hdrs, ts := q.expectLine()
	if !strings.HasPrefix(line, m+" "+tg+" [") {
		return "method-or-target"
	}
	if !strings.Contains(line, "body="+bsha+" ") {
		return "body"
	}
	if len(noNorm) > 0 && noNorm[0] { // names as sent: compare them case-insensitively
		if !strings.HasSuffix(strings.ToLower(line), strings.ToLower("trailers=["+strings.Join(ts, "|")+"]")) {
			return "trailers"
		}
	} else if !strings.HasSuffix(line, "trailers=["+strings.Join(ts, "|")+"]") {
		return "trailers"
	}
	// every application header visible with its value (OWS trimmed); the first value wins for Peek,
	// VisitAll shows all: require each (name,value) pair to be present
	hs := line[strings.Index(line, "[")+1 : strings.Index(line, "] body=")]
	seen := map[string]int{}
	for _, kv := range strings.Split(hs, "|") {
		seen[strings.ToLower(kv)]++
	}
	for _, h := range hdrs {
		if seen[strings.ToLower(h[0]+"="+strings.TrimSpace(h[1]))] == 0 {
			return "header:" + h[0]
		}
	}
	return ""
}

func init() {
	register(&Unit{Name: "c01.pipeline", Props: []string{"C01"},
		// in: seed for the request list/rendering, count, fragmentation kind, streaming
		Check: func(t *T, in In) []Finding {
			r := rand.New(rand.NewSource(int64(in.N(0))))
			n := in.N(1)
			var reqs []absReq
			var wire []byte
			style := renderStyle{r}
			if in.N(4) == 0 {
				style = renderStyle{nil}
			}
			for i := 0; i < n; i++ {
				q := genReq(r, i, in.N(5) == 1)
				if i == n-1 && r.Intn(2) == 0 {
					q.close = true
				}
				reqs = append(reqs, q)
				wire = append(wire, q.render(style)...)
			}
			var frags [][]byte
			switch in.N(2) {
			case 0:
				frags = [][]byte{wire}
			case 1:
				frags = fragEvery(wire, 1)
			case 2:
				frags = fragRandom(r, wire, 1+r.Intn(6))
			default:
				frags = fragEvery(wire, in.N(2))
			}
			cfg := pipeCfg{streaming: in.N(3) == 1, noNorm: len(in) > 7 && in.N(7) == 1}
			if len(in) > 8 {
				cfg.opts = in.N(8)
			}
			noKeepalive := cfg.opts&32 != 0
			partial := 0
			if len(in) > 6 && in.N(6) > 0 && cfg.streaming {
				partial = in.N(6)
				cfg.consume = []int{partial} // every handler reads at most this many body bytes, then returns
			}
			obs := runPipe(frags, cfg)
			var fs []Finding
			bad := func(class, note string) {
				fs = append(fs, Finding{Kind: "oracle", Unit: "c01.pipeline", Class: class, Impl: truncate(obs.String(), 600), Note: note})
			}
			if obs.err != nil && (strings.HasPrefix(obs.err.Error(), "PANIC") || strings.HasPrefix(obs.err.Error(), "harness:")) {
				bad("panic-or-blocked", obs.err.Error())
				return fs
			}
			if noKeepalive { // DisableKeepalive: the first request is served with Connection: close, nothing after it
				reqs = reqs[:1]
			}
			if len(obs.handled) != len(reqs) {
				bad("handler-invocation-count", fmt.Sprintf("handled %d of %d requests", len(obs.handled), len(reqs)))
				return fs
			}
			for i, q := range reqs {
				if partial > 0 {
					// the handler saw a prefix of its own body and the right request line
					h := obs.handled[i]
					got := h[strings.Index(h, "body=")+5 : strings.LastIndex(h, " trailers=")]
					got = strings.TrimSuffix(strings.TrimSuffix(got, "<EOF>"), "<ERR>")
					if !strings.HasPrefix(h, q.method+" "+q.target+" [") || !strings.HasPrefix(string(q.body), got) {
						bad("handler-saw-different-request:partial", fmt.Sprintf("request %d saw %s", i, truncate(h, 200)))
						return fs
					}
					continue
				}
				if why := checkHandled(obs.handled[i], q, cfg.noNorm); why != "" {
					bad("handler-saw-different-request:"+strings.SplitN(why, ":", 2)[0], fmt.Sprintf("request %d: %s\nsaw: %s", i, why, truncate(obs.handled[i], 300)))
					return fs
				}
			}
			rs, why := strictResponses(obs.out)
			if why != "" {
				bad("responses-not-well-formed:"+why, "")
				return fs
			}
			k := 0
			for _, rsp := range rs {
				if rsp.status == 100 {
					continue
				}
				k++
				if rsp.status != 200 || rsp.get("X-I") != fmt.Sprint(k) || string(rsp.body) != fmt.Sprintf("r%d", k) {
					bad("response-order-or-content", fmt.Sprintf("response %d: status %d X-I=%s body=%q", k, rsp.status, rsp.get("X-I"), rsp.body))
					return fs
				}
				if (rsp.get("Server") == "") != (cfg.opts&1 != 0) {
					bad("server-header-option-not-honoured", fmt.Sprintf("Server=%q, NoDefaultServerHeader=%v", rsp.get("Server"), cfg.opts&1 != 0))
					return fs
				}
				if noKeepalive && !strings.EqualFold(rsp.get("Connection"), "close") {
					bad("keep-alive-disabled-but-response-lacks-connection-close", fmt.Sprintf("Connection=%q", rsp.get("Connection")))
					return fs
				}
			}
			if k != len(reqs) {
				bad("response-count", fmt.Sprintf("%d responses for %d requests", k, len(reqs)))
			}
			return fs
		},
		Gen: func(t *T) {
			// streaming, large bodies, handlers that stop after reading past the prefetched part
			for i := 0; i < t.Scale(60, 1000); i++ {
				t.Do(In{Nn(t.R.Intn(1 << 30)), Nn(2 + t.R.Intn(2)), Nn([]int{0, 4096, 100}[t.R.Intn(3)]), Nn(1), Nn(t.R.Intn(2)), Nn(1), Nn([]int{8193, 9000, 20000}[t.R.Intn(3)])}, true)
			}
			for i := 0; i < t.Scale(1500, 30000); i++ {
				seed := t.R.Intn(1 << 30)
				n := 1 + t.R.Intn(4)
				frag := []int{0, 0, 1, 2, 2, 3, 7, 100, 4096}[t.R.Intn(9)]
				big := 0
				if t.R.Intn(8) == 0 {
					big = 1
					if frag == 1 {
						frag = 4096
					}
				}
				partial := 0
				if t.R.Intn(4) == 0 {
					partial = []int{1, 100, 5000, 8192, 9000, 20000}[t.R.Intn(6)]
				}
				noNorm := 0
				if t.R.Intn(4) == 0 {
					noNorm = 1
				}
				opts := 0
				if t.R.Intn(3) == 0 { // one case in three under further server options
					opts = t.R.Intn(8)&7 | []int{0, 16, 32, 48}[t.R.Intn(4)]
				}
				t.Do(In{Nn(seed), Nn(n), Nn(frag), Nn(t.R.Intn(2)), Nn(t.R.Intn(2)), Nn(big), Nn(partial), Nn(noNorm), Nn(opts)}, true)
			}
		}})
}

func truncate(s string, n int) string {
	if len(s) > n {
		return s[:n] + "..."
	}
	return s
}

// near-miss framing names: a header whose name is not Content-Length / Transfer-Encoding
// (ASCII case-insensitively) must not decide where the request ends
func init() {
	register(&Unit{Name: "c01.nearmiss", Props: []string{"C01"},
		Check: func(t *T, in In) []Finding {
			name, val := in.B(0), in.S(1)
			body := "abc"
			if val == "chunked" {
				body = "3\r\nabc\r\n0\r\n\r\n"
			}
			wire := "POST /x HTTP/1.1\r\nHost: h\r\n" + string(name) + ": " + val + "\r\n\r\n" + body + c14Probe
			obs := runPipe([][]byte{[]byte(wire)}, pipeCfg{noNorm: len(in) > 2 && in.N(2) == 1})
			var fs []Finding
			isFraming := strings.EqualFold(string(name), "Content-Length") || strings.EqualFold(string(name), "Transfer-Encoding")
			for _, h := range obs.handled {
				sawBody := strings.Contains(h, "body="+sha([]byte("abc"))+" ")
				if sawBody && !isFraming {
					fs = append(fs, Finding{Kind: "oracle", Unit: "c01.nearmiss", Class: "non-framing-header-name-decided-the-body", Impl: truncate(obs.String(), 400)})
				}
			}
			if isFraming && (len(obs.handled) != 2 || !strings.Contains(obs.handled[0], "body="+sha([]byte("abc"))+" ")) {
				fs = append(fs, Finding{Kind: "oracle", Unit: "c01.nearmiss", Class: "framing-header-not-honoured", Impl: truncate(obs.String(), 400)})
			}
			// the comparison function itself
			for _, ref := range []string{"Content-Length", "Transfer-Encoding"} {
				if got, want := verifCICompare(name, []byte(ref)), strings.EqualFold(string(name), ref); got != want {
					fs = append(fs, Finding{Kind: "oracle", Unit: "c01.nearmiss", Class: "CaseInsensitiveCompare-differs-from-ascii-case-folding", Impl: fmt.Sprint(got), Expect: fmt.Sprint(want), Note: ref})
				}
			}
			return fs
		},
		Gen: func(t *T) {
			for _, ref := range []string{"Content-Length", "Transfer-Encoding"} {
				val := "3"
				if ref == "Transfer-Encoding" {
					val = "chunked"
				}
				var names [][]byte
				names = append(names, []byte(ref), []byte(strings.ToUpper(ref)), []byte(strings.ToLower(ref)), []byte(ref+"x"), []byte("x"+ref), []byte(ref[1:]), []byte(ref[:len(ref)-1]), []byte(strings.ReplaceAll(ref, "-", "_")))
				for i := range ref { // flip bit 0x20, 0x40, 0x80 and 0x01 of every position
					for _, bit := range []byte{0x20, 0x40, 0x80, 0x01, 0x10} {
						b := []byte(ref)
						b[i] ^= bit
						if b[i] != '\n' && b[i] != ':' {
							names = append(names, b)
						}
					}
				}
				for _, n := range names {
					t.Do(In{H(n), S(val)}, true)
					t.Do(In{H(n), S(val), Nn(1)}, true) // the same with DisableHeaderNamesNormalizing
				}
			}
		}})
}
