package main

import (
	"fmt"
	"strings"

	"github.com/cloudwego/hertz/pkg/protocol"
)

// c17.urimodel: URI.Parse(nil, s) and URI.FullURI on arbitrary texts against Model/Uri.v: scheme, host, user,
// password, path, query string, fragment as the getters answer them, and the full string form of the parsed URI.
func init() {
	register(&Unit{Name: "c17.urimodel", Props: []string{"C17"},
		Check: func(t *T, in In) []Finding {
			src := in.B(0)
			u := protocol.AcquireURI()
			defer protocol.ReleaseURI(u)
			u.Parse(nil, []byte("https://old.example/old/path?old=1#oldfrag"))
			u.QueryArgs().Len() // a reused object whose arguments had been materialised
			u.Parse(nil, append([]byte(nil), src...))
			impl := fmt.Sprintf("OK s=%x h=%x u=%x pw=%x p=%x q=%x f=%x | %x",
				u.Scheme(), u.Host(), u.Username(), u.Password(), u.Path(), u.QueryString(), u.Hash(), u.FullURI())
			mod := t.M.Call("uri_parse_script", src)
			if impl != mod {
				return []Finding{{Kind: "corr", Unit: "c17.urimodel", Class: "uri_parse_script", Impl: impl, Model: mod}}
			}
			return nil
		},
		Gen: func(t *T) {
			pick := func(v ...string) string { return v[t.R.Intn(len(v))] }
			alpha := []string{"a", "b", "/", "%", "+", "&", "=", ";", "?", "#", " ", "\x00", "\xe9", ".", "~", ":", "@", "%2f", "%2F", "%41", "%zz", "..", "//", "/./", "/../", "*"}
			for i := 0; i < t.Scale(6000, 150000); i++ {
				var sb strings.Builder
				switch t.R.Intn(8) {
				case 0:
					// no scheme
				case 1:
					sb.WriteString(pick("1http", "ht tp", ":", "a:", "http:/", "HTTP:") + pick("//", "/", ""))
				default:
					sb.WriteString(pick("http", "https", "HTTP", "ftp", "a+b-c.d", "x") + "://")
				}
				if t.R.Intn(6) != 0 {
					sb.WriteString(pick("example.com", "EXAMPLE.com:8080", "[::1]:80", "u@h", "u:p@h.example", "a@b@c", "", "h?x", "h#y"))
				}
				for j, n := 0, t.R.Intn(7); j < n; j++ {
					sb.WriteString(alpha[t.R.Intn(len(alpha))])
				}
				if t.R.Intn(3) == 0 {
					sb.WriteString("?")
					for j, n := 0, t.R.Intn(5); j < n; j++ {
						sb.WriteString(alpha[t.R.Intn(len(alpha))])
					}
				}
				if t.R.Intn(3) == 0 {
					sb.WriteString("#")
					for j, n := 0, t.R.Intn(5); j < n; j++ {
						sb.WriteString(alpha[t.R.Intn(len(alpha))])
					}
				}
				t.Do(In{H([]byte(sb.String()))}, true)
			}
		}})
}
