#!/bin/sh
# Run once after a fresh restore, offline: build everything from files on disk.
set -e
cd "$(dirname "$0")"
export GOFLAGS=-mod=mod GOPROXY=off GOSUMDB=off GOTOOLCHAIN=local CGO_ENABLED=0
mkdir -p .cache evidence replays
(cd tools/gotrans && go build -o ../../.cache/gotrans .)
.cache/gotrans /repo coq/Gen
(cd coq && coq_makefile -f _CoqProject -o Makefile && timeout 3000 make -j16 >/dev/null 2>.cache-make.err || { tail -30 .cache-make.err; echo "setup: coq build incomplete (checks rebuild their own cone)"; })
ocaml/build.sh || echo "setup: modeld not built"
cp /repo/go.sum harness/go.sum
(cd harness && go build -tags verif -o ../.cache/harness .)
if [ -d harness-hz ]; then cat /repo/go.sum /repo/cmd/hz/go.sum | sort -u > harness-hz/go.sum; (cd harness-hz && go build -tags verif -o ../.cache/harness-hz .); fi
echo "setup ok"
