#!/bin/sh
# (re)extract the model and build modeld; run from anywhere.  Rebuilds only when inputs changed.
set -e
cd "$(dirname "$0")"
C=../coq
stamp=$(cat $C/Extract/Dispatch.vo $C/Extract/Extract.v modeld.ml 2>/dev/null | md5sum | cut -d' ' -f1)
if [ -x modeld ] && [ "$(cat .stamp 2>/dev/null)" = "$stamp" ]; then exit 0; fi
timeout 600 coqc -Q $C/Lib "" -Q $C/Gen "" -Q $C/Model "" -Q $C/Proofs "" -Q $C/Props "" -Q $C/Extract "" $C/Extract/Extract.v >/dev/null
rm -f model.cmi model.cmx model.o modeld.cmi modeld.cmx modeld.o
ocamlfind ocamlopt -O2 -w -a model.mli model.ml modeld.ml -o modeld 2>/dev/null || ocamlfind ocamlopt -w -a model.mli model.ml modeld.ml -o modeld
echo "$stamp" > .stamp
