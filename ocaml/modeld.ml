(* modeld: line protocol around the extracted model.
   request : <cmd> <hexarg|-> <hexarg|-> ...      response : <hex of the rendered result|->  *)
open Model

let rec pos_of_int i = if i = 1 then XH else if i land 1 = 0 then XO (pos_of_int (i lsr 1)) else XI (pos_of_int (i lsr 1))
let n_of_int i = if i = 0 then N0 else Npos (pos_of_int i)
let rec int_of_pos = function XH -> 1 | XO p -> 2 * int_of_pos p | XI p -> 2 * int_of_pos p + 1
let int_of_n = function N0 -> 0 | Npos p -> int_of_pos p

(* byte <-> int through the extracted Byte.of_N / Byte.to_N, tabulated once *)
let byte_tab = Array.init 256 (fun i -> match verif_byte_of_N (n_of_int i) with Some b -> b | None -> failwith "byte")
let int_of_byte b = int_of_n (verif_byte_to_N b)

let hexval c = match c with
  | '0'..'9' -> Char.code c - 48 | 'a'..'f' -> Char.code c - 87 | 'A'..'F' -> Char.code c - 55
  | _ -> failwith "hex"
let unhex s =
  if s = "-" then [] else begin
    let n = String.length s / 2 in
    let r = ref [] in
    for i = n - 1 downto 0 do
      r := byte_tab.(16 * hexval s.[2*i] + hexval s.[2*i+1]) :: !r
    done; !r end
let of_ascii s = List.init (String.length s) (fun i -> byte_tab.(Char.code s.[i]))
let hexdig = "0123456789abcdef"
let hex l =
  let b = Buffer.create 64 in
  List.iter (fun c -> let i = int_of_byte c in
              Buffer.add_char b hexdig.[i lsr 4]; Buffer.add_char b hexdig.[i land 15]) l;
  if Buffer.length b = 0 then "-" else Buffer.contents b

let () =
  try
    while true do
      let line = input_line stdin in
      let out =
        try
          match String.split_on_char ' ' line with
          | [] -> "-"
          | cmd :: args -> hex (dispatch (of_ascii cmd) (List.map unhex args))
        with Stack_overflow -> "!stackoverflow" | Failure m -> "!" ^ m in
      print_string out; print_newline ()
    done
  with End_of_file -> ()
