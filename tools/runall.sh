#!/bin/sh
# usage: tools/runall.sh [quick|thorough]  — every claimed check in turn on the current tree
T=${1:-quick}
cd "$(dirname "$0")/.."
for id in $(python3 -c "import json; print(' '.join(c['property_id'] for c in json.load(open('MANIFEST.json'))['checks']))"); do
  ./check $id $T 2>&1 | grep -v "^\[INFO\]" | tail -3
done
