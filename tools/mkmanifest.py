#!/usr/bin/env python3
"""Regenerate MANIFEST.json: a property is claimed iff it has an entry in meta.json."""
import json, subprocess
props = [json.loads(l) for l in open('/verif/properties.jsonl')]
meta = json.load(open('/verif/meta.json'))
claimed = sorted(meta)
hooks = subprocess.run("git -C /repo log --format=%h --grep='^verif hooks' ", shell=True, capture_output=True, text=True).stdout.split()
m = {"version": 1, "setup_cmd": "./setup.sh",
     "hooks": {"guard": "verif", "enable": "go build -tags verif (harness modules `replace github.com/cloudwego/hertz => /repo`)",
               "baseline_off_cmd": "cd /repo && go test -vet=off -count=1 ./... && cd cmd/hz && go test -vet=off -count=1 ./...",
               "source_commits": hooks, "add_only": True},
     "engines": [{"name": "coq", "path": "coq/", "serves_properties": claimed,
                  "kind_free_text": "Coq 8.16.1 project: Lib, Gen (regenerated from /repo on every run by tools/gotrans), Model (executable Gallina), Proofs, Props (property theorems + Print Assumptions)"},
                 {"name": "harness", "path": "harness/", "serves_properties": claimed,
                  "kind_free_text": "Go differential harness: real hertz built from /repo with -tags verif vs the extracted model (ocaml/modeld) vs independent property oracles; seeded, shrinking, replayable"}],
     "checks": [], "not_applicable": [],
     "notes": "Every check regenerates coq/Gen from /repo, rebuilds the property's Coq cone, re-extracts the model, rebuilds the harness against /repo and runs correspondence + oracle units. See DESIGN.md."}
for p in props:
    i = p['id']
    if i in meta:
        md = meta[i]
        m["checks"].append({
            "property_id": i, "quick_cmd": "./check %s quick" % i, "thorough_cmd": "./check %s thorough" % i,
            "evidence_file": "evidence/%s.json" % i, "replay_cmd_template": "./check %s --replay {path}" % i, "engine": "coq",
            "level_claimed": {"category": "proof",
                              "text": md.get("level_text") or ("Theorems in coq/Props/%s.v over an executable Gallina model, for all inputs/histories; proved: %s. Partial: %s" % (i, "; ".join(md.get("proved", [])), "; ".join(md.get("partial", [])) or "none")),
                              "design_ref": "DESIGN.md section 8, %s" % i},
            "level_note": md.get("level_note") or "Trusted: Coq kernel incl. vm_compute, tools/gotrans, extraction + modeld, harness generators/oracles. The Go code is modelled, not verified: the model is tied to /repo by regenerated definitions and by differential execution (a test, not a proof). Exercised only: " + ("; ".join(md.get("exercised_only", [])) or "-"),
            "technique": md.get("technique") or "machine-checked proof in Coq (Rocq) over a model tied to the code by regeneration + differential correspondence"})
    else:
        m["not_applicable"].append({"property_id": i, "reason": "check under construction in this session (claimed once its Props file and harness units exist)"})
json.dump(m, open('/verif/MANIFEST.json', 'w'), indent=1)
print("claimed:", claimed)
