import json,sys,glob,jsonschema
jsonschema.validate(json.load(open('/verif/MANIFEST.json')),json.load(open('/root/.vp/MANIFEST.schema.json')))
s=json.load(open('/root/.vp/EVIDENCE.schema.json'))
for f in sorted(glob.glob('/verif/evidence/*.json')):
    jsonschema.validate(json.load(open(f)),s)
print('manifest + %d evidence files valid'%len(glob.glob('/verif/evidence/*.json')))
