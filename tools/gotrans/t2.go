package main

// T2: reset lists.  For every struct named by C09 the translator emits DATA only:
//   - the flattened list of leaf fields (sub-objects whose type is one of the known structs are
//     expanded, so `Request.Header.contentLength` is a leaf of RequestContext), each with its
//     origin `Struct.field`;
//   - every Reset-like method reachable from the listed entry points, instantiated per prefix,
//     as a statement list of coq/Model/ResetLang.v:
//         recv.path = zero-ish const     -> SSet leaf RZero
//         recv.path = recv.path[:0]      -> SSet leaf REmpty
//         recv.path = anything else      -> SSet leaf ROther
//         recv.sub.M() / recv.M()        -> SCall <instantiated method>     (known struct)
//         recv.leaf.M()                  -> SSub leaf (M == "Reset")       (external object)
//         if recv.leaf ==/!= nil {..}    -> SIf (CIsNil/CNotNil leaf) ..   other conditions COpaque
//         for i := range recv.leaf { [if recv.leaf[i] != nil {] ...; recv.leaf[i] = nil [}] }
//                                        -> SSet leaf REmpty               (range-clear idiom)
//         return                         -> SReturn
//         statements that cannot write through the receiver -> SEffect
//         anything else                  -> SOpaque (the analysis then yields no result and the
//                                           obligation fails closed)
// The path analysis and its soundness proof are Gallina (Model/ResetLang.v, Proofs/ResetProofs.v).

import (
	"fmt"
	"go/ast"
	"go/parser"
	"go/token"
	"os"
	"path/filepath"
	"strings"
)

type t2field struct {
	name string
	typ  string // type expression source
}
type t2struct struct {
	name    string
	fields  []t2field
	methods map[string]*ast.FuncDecl
}

var t2structs = map[string]*t2struct{}

func t2load(dir string) {
	pkgs, err := parser.ParseDir(t3fset, filepath.Join(repo, dir), func(fi os.FileInfo) bool {
		return !strings.HasSuffix(fi.Name(), "_test.go") && !strings.HasPrefix(fi.Name(), "verif_")
	}, 0)
	if err != nil {
		die("t2: %v", err)
	}
	for _, p := range pkgs {
		for _, f := range p.Files {
			for _, d := range f.Decls {
				switch d := d.(type) {
				case *ast.GenDecl:
					for _, s := range d.Specs {
						ts, ok := s.(*ast.TypeSpec)
						if !ok {
							continue
						}
						st, ok := ts.Type.(*ast.StructType)
						if !ok {
							continue
						}
						info := t2get(ts.Name.Name)
						for _, fl := range st.Fields.List {
							if len(fl.Names) == 0 {
								info.fields = append(info.fields, t2field{"embedded_" + strings.NewReplacer(".", "_", "*", "").Replace(t3src(fl.Type)), t3src(fl.Type)})
							}
							for _, n := range fl.Names {
								info.fields = append(info.fields, t2field{n.Name, t3src(fl.Type)})
							}
						}
					}
				case *ast.FuncDecl:
					if d.Recv != nil && len(d.Recv.List) == 1 && d.Body != nil {
						t := d.Recv.List[0].Type
						if se, ok := t.(*ast.StarExpr); ok {
							t = se.X
						}
						if id, ok := t.(*ast.Ident); ok {
							t2get(id.Name).methods[d.Name.Name] = d
						}
					}
				}
			}
		}
	}
}

func t2get(name string) *t2struct {
	if s, ok := t2structs[name]; ok {
		return s
	}
	s := &t2struct{name: name, methods: map[string]*ast.FuncDecl{}}
	t2structs[name] = s
	return s
}

// the structs whose fields are expanded when they occur as sub-objects
var t2known = map[string]bool{"ResponseHeader": true, "RequestHeader": true, "Request": true, "Response": true, "URI": true,
	"Cookie": true, "Args": true, "Trailer": true, "RequestContext": true, "bodyStream": true, "httpStats": true}

func t2subStruct(typ string) string {
	t := strings.TrimPrefix(typ, "*")
	if i := strings.LastIndex(t, "."); i >= 0 {
		t = t[i+1:]
	}
	if t2known[t] {
		if s, ok := t2structs[t]; ok && len(s.fields) > 0 {
			return t
		}
	}
	return ""
}

type t2leaf struct{ path, origin string }

func t2flatten(st string, prefix string, out *[]t2leaf) {
	for _, f := range t2structs[st].fields {
		if sub := t2subStruct(f.typ); sub != "" {
			t2flatten(sub, prefix+f.name+".", out)
		} else {
			*out = append(*out, t2leaf{prefix + f.name, st + "." + f.name})
		}
	}
}

// ---- per top-level struct translation context ----
type t2ctx struct {
	top     string
	leaves  []t2leaf
	leafIdx map[string]int
	methods []string          // rendered bodies, index = method id
	names   []string          // "prefix|Struct.method"
	ids     map[string]int
}

// resolve an expression rooted at the receiver to (struct-valued?, struct name, path)
func (c *t2ctx) resolve(e ast.Expr, recv, st, prefix string) (isStruct bool, sname, path string, ok bool) {
	switch e := e.(type) {
	case *ast.Ident:
		if e.Name == recv {
			return true, st, strings.TrimSuffix(prefix, "."), true
		}
	case *ast.ParenExpr:
		return c.resolve(e.X, recv, st, prefix)
	case *ast.UnaryExpr:
		if e.Op == token.AND {
			return c.resolve(e.X, recv, st, prefix)
		}
	case *ast.StarExpr:
		return c.resolve(e.X, recv, st, prefix)
	case *ast.SelectorExpr:
		isS, sn, p, ok := c.resolve(e.X, recv, st, prefix)
		if !ok || !isS {
			return false, "", "", false
		}
		return c.field(sn, p, e.Sel.Name)
	case *ast.CallExpr: // accessor h.Trailer()
		if len(e.Args) == 0 {
			if se, ok := e.Fun.(*ast.SelectorExpr); ok {
				isS, sn, p, ok := c.resolve(se.X, recv, st, prefix)
				if ok && isS {
					name := strings.ToLower(se.Sel.Name[:1]) + se.Sel.Name[1:]
					return c.field(sn, p, name)
				}
			}
		}
	}
	return false, "", "", false
}

func (c *t2ctx) field(sn, p, name string) (bool, string, string, bool) {
	for _, f := range t2structs[sn].fields {
		if f.name == name {
			np := name
			if p != "" {
				np = p + "." + name
			}
			if sub := t2subStruct(f.typ); sub != "" {
				return true, sub, np, true
			}
			return false, "", np, true
		}
	}
	return false, "", "", false
}

func mentions(n ast.Node, names map[string]bool) bool {
	found := false
	ast.Inspect(n, func(x ast.Node) bool {
		if id, ok := x.(*ast.Ident); ok && names[id.Name] {
			found = true
		}
		return !found
	})
	return found
}

func (c *t2ctx) method(st, m, prefix string) int {
	key := prefix + "|" + st + "." + m
	if id, ok := c.ids[key]; ok {
		return id
	}
	id := len(c.methods)
	c.ids[key] = id
	c.methods = append(c.methods, "")
	c.names = append(c.names, key)
	d := t2structs[st].methods[m]
	body := "[SOpaque " + coqBytes("method not found: "+key) + "]"
	if d != nil && len(d.Recv.List[0].Names) == 1 && (d.Type.Params == nil || len(d.Type.Params.List) == 0) {
		recv := d.Recv.List[0].Names[0].Name
		tainted := map[string]bool{recv: true}
		body = c.block(d.Body.List, recv, st, prefix, tainted)
	} else if d != nil {
		body = "[SOpaque " + coqBytes("method with parameters: "+key) + "]"
	}
	c.methods[id] = body
	return id
}

func (c *t2ctx) block(list []ast.Stmt, recv, st, prefix string, tainted map[string]bool) string {
	var out []string
	for _, s := range list {
		out = append(out, c.stmt(s, recv, st, prefix, tainted))
	}
	return "[" + strings.Join(out, "; ") + "]"
}

func zeroish(rhs ast.Expr, leaf string) bool {
	s := t3src(rhs)
	switch s {
	case "nil", "0", `""`, "false", "zeroTime", "CookieSameSiteDisabled":
		return true
	case "-1":
		return strings.HasSuffix(leaf, "index")
	}
	return false
}

func (c *t2ctx) cond(e ast.Expr, recv, st, prefix string) string {
	if be, ok := e.(*ast.BinaryExpr); ok && (be.Op == token.EQL || be.Op == token.NEQ) && t3src(be.Y) == "nil" {
		if isS, _, p, ok := c.resolve(be.X, recv, st, prefix); ok && !isS {
			if idx, ok := c.leafIdx[p]; ok {
				if be.Op == token.EQL {
					return fmt.Sprintf("CIsNil %d", idx)
				}
				return fmt.Sprintf("CNotNil %d", idx)
			}
		}
	}
	return "COpaque"
}

func (c *t2ctx) stmt(s ast.Stmt, recv, st, prefix string, tainted map[string]bool) string {
	opaque := func() string { return "SOpaque " + coqBytes(t3src(s)) }
	switch s := s.(type) {
	case *ast.AssignStmt:
		if len(s.Lhs) == 1 && len(s.Rhs) == 1 && s.Tok == token.ASSIGN {
			if isS, _, p, ok := c.resolve(s.Lhs[0], recv, st, prefix); ok && isS && p != strings.TrimSuffix(prefix, ".") && t3src(s.Rhs[0]) == "nil" {
				// a pointer to a known struct is dropped: every leaf below it is gone
				var sets []string
				for i, l := range c.leaves {
					if strings.HasPrefix(l.path, p+".") {
						sets = append(sets, fmt.Sprintf("SSet %d RZero", i))
					}
				}
				if len(sets) > 0 {
					return strings.Join(sets, "; ")
				}
			}
			if isS, _, p, ok := c.resolve(s.Lhs[0], recv, st, prefix); ok && !isS {
				idx, ok := c.leafIdx[p]
				if !ok {
					return opaque()
				}
				switch {
				case zeroish(s.Rhs[0], p):
					return fmt.Sprintf("SSet %d RZero", idx)
				default:
					if se, ok := s.Rhs[0].(*ast.SliceExpr); ok && se.High != nil && t3src(se.High) == "0" && (se.Low == nil || t3src(se.Low) == "0") {
						if isS2, _, p2, ok := c.resolve(se.X, recv, st, prefix); ok && !isS2 && p2 == p {
							return fmt.Sprintf("SSet %d REmpty", idx)
						}
					}
					return fmt.Sprintf("SSet %d ROther", idx)
				}
			}
		}
		// assignment to locals: harmless unless the target aliases receiver state
		for _, l := range s.Lhs {
			root := l
			for {
				switch x := root.(type) {
				case *ast.SelectorExpr:
					root = x.X
					continue
				case *ast.IndexExpr:
					root = x.X
					continue
				case *ast.StarExpr:
					root = x.X
					continue
				}
				break
			}
			id, ok := root.(*ast.Ident)
			if !ok {
				return opaque()
			}
			if _, isPlain := l.(*ast.Ident); !isPlain && tainted[id.Name] {
				return opaque() // write through something derived from the receiver
			}
			if id.Name == recv {
				return opaque()
			}
		}
		for _, r := range s.Rhs {
			if mentions(r, tainted) {
				for _, l := range s.Lhs {
					if id, ok := l.(*ast.Ident); ok {
						tainted[id.Name] = true
					}
				}
			}
		}
		return "SEffect"
	case *ast.DeclStmt:
		return "SEffect"
	case *ast.ExprStmt:
		ce, ok := s.X.(*ast.CallExpr)
		if !ok {
			return opaque()
		}
		if se, ok := ce.Fun.(*ast.SelectorExpr); ok {
			if isS, sn, p, ok := c.resolve(se.X, recv, st, prefix); ok {
				if isS {
					if len(ce.Args) != 0 {
						return opaque()
					}
					np := p
					if np != "" {
						np += "."
					}
					return fmt.Sprintf("SCall %d", c.method(sn, se.Sel.Name, np))
				}
				if idx, ok := c.leafIdx[p]; ok {
					total := "false"
					if se.Sel.Name == "Reset" && len(ce.Args) == 0 {
						total = "true"
					}
					return fmt.Sprintf("SSub %d %s", idx, total)
				}
				return opaque()
			}
		}
		// a call that is not a method of receiver state: an effect outside the struct as long as
		// it cannot receive a pointer into it
		for _, a := range ce.Args {
			if ue, ok := a.(*ast.UnaryExpr); ok && ue.Op == token.AND && mentions(ue, tainted) {
				return opaque()
			}
		}
		return "SEffect"
	case *ast.IfStmt:
		if s.Init != nil {
			if r := c.stmt(s.Init, recv, st, prefix, tainted); r != "SEffect" {
				return opaque()
			}
		}
		els := "[]"
		switch e := s.Else.(type) {
		case *ast.BlockStmt:
			els = c.block(e.List, recv, st, prefix, tainted)
		case *ast.IfStmt:
			els = "[" + c.stmt(e, recv, st, prefix, tainted) + "]"
		}
		return "SIf (" + c.cond(s.Cond, recv, st, prefix) + ") " + c.block(s.Body.List, recv, st, prefix, tainted) + " " + els
	case *ast.ReturnStmt:
		for _, r := range s.Results {
			switch x := r.(type) {
			case *ast.Ident:
				_ = x
			case *ast.BasicLit:
			default:
				return opaque()
			}
		}
		return "SReturn"
	case *ast.RangeStmt:
		// range-clear idiom over a leaf field
		isS, _, p, ok := c.resolve(s.X, recv, st, prefix)
		key, kok := s.Key.(*ast.Ident)
		if ok && !isS && kok && s.Value == nil {
			if idx, ok := c.leafIdx[p]; ok {
				body := s.Body.List
				if len(body) == 1 {
					if is, ok := body[0].(*ast.IfStmt); ok && is.Else == nil && is.Init == nil {
						body = is.Body.List
					}
				}
				cleared := false
				fine := true
				for _, b := range body {
					if as, ok := b.(*ast.AssignStmt); ok && len(as.Lhs) == 1 && len(as.Rhs) == 1 && t3src(as.Rhs[0]) == "nil" {
						if ie, ok := as.Lhs[0].(*ast.IndexExpr); ok && t3src(ie.Index) == key.Name {
							if _, _, p2, ok := c.resolve(ie.X, recv, st, prefix); ok && p2 == p {
								cleared = true
								continue
							}
						}
						fine = false
					} else if _, ok := b.(*ast.ExprStmt); !ok {
						fine = false
					}
				}
				if cleared && fine {
					return fmt.Sprintf("SSet %d REmpty", idx)
				}
			}
		}
		return opaque()
	}
	return opaque()
}

func t2() {
	for _, d := range []string{"pkg/protocol", "pkg/app", "pkg/protocol/http1/ext", "pkg/common/tracer/traceinfo"} {
		t2load(d)
	}
	jobs := []struct {
		typ     string
		entries []string
	}{
		{"ResponseHeader", []string{"Reset"}},
		{"RequestHeader", []string{"Reset"}},
		{"Request", []string{"Reset", "ResetWithoutConn"}},
		{"Response", []string{"Reset"}},
		{"URI", []string{"Reset"}},
		{"Cookie", []string{"Reset"}},
		{"Args", []string{"Reset"}},
		{"Trailer", []string{"Reset"}},
		{"RequestContext", []string{"Reset", "ResetWithoutConn"}},
		{"bodyStream", []string{"reset"}},
		{"httpStats", []string{"Reset"}},
	}
	var sb strings.Builder
	sb.WriteString("(* GENERATED by /verif/tools/gotrans (T2) from /repo — do not edit *)\n")
	sb.WriteString("From Coq Require Import List Strings.Byte.\nRequire Import ResetLang.\nImport ListNotations.\n\n")
	for _, j := range jobs {
		if s, ok := t2structs[j.typ]; !ok || len(s.fields) == 0 {
			fmt.Fprintf(&sb, "(* struct %s not found *)\nDefinition R_%s_leaves : list (list byte * list byte) := [].\nDefinition R_%s_methods : list (list stmt) := [[SOpaque %s]].\n",
				j.typ, j.typ, j.typ, coqBytes("struct not found"))
			for _, e := range j.entries {
				fmt.Fprintf(&sb, "Definition R_%s_entry_%s : nat := 0.\n", j.typ, e)
			}
			continue
		}
		c := &t2ctx{top: j.typ, leafIdx: map[string]int{}, ids: map[string]int{}}
		t2flatten(j.typ, "", &c.leaves)
		for i, l := range c.leaves {
			c.leafIdx[l.path] = i
		}
		entryIds := map[string]int{}
		for _, e := range j.entries {
			entryIds[e] = c.method(j.typ, e, "")
		}
		fmt.Fprintf(&sb, "(* ---- %s ---- *)\n", j.typ)
		var ls []string
		for _, l := range c.leaves {
			ls = append(ls, fmt.Sprintf("(%s, %s)", coqBytes(l.path), coqBytes(l.origin)))
		}
		fmt.Fprintf(&sb, "Definition R_%s_leaves : list (list byte * list byte) := [\n  %s].\n", j.typ, strings.Join(ls, ";\n  "))
		var ms []string
		for i, m := range c.methods {
			ms = append(ms, fmt.Sprintf("(* %d: %s *) %s", i, c.names[i], m))
		}
		fmt.Fprintf(&sb, "Definition R_%s_methods : list (list stmt) := [\n  %s].\n", j.typ, strings.Join(ms, ";\n  "))
		for _, e := range j.entries {
			fmt.Fprintf(&sb, "Definition R_%s_entry_%s : nat := %d.\n", j.typ, e, entryIds[e])
		}
		sb.WriteString("\n")
	}
	writeIfChanged("ResetModel.v", []byte(sb.String()))
}
