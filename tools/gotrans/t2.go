package main

func t2() {}
