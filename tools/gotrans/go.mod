module gotrans

go 1.19
