// gotrans: purpose-built syntactic translators from /repo sources to coq/Gen/*.v.
//
//	T1 tables/constants  -> Gen/Tables.v
//	T2 reset lists       -> Gen/ResetModel.v   (t2.go)
//	T3 serialiser skel.  -> Gen/SerSkel.v      (t3.go)
//
// Uses go/parser + go/ast only; anything it does not recognise is emitted in a form
// that no proof obligation accepts (fail closed).  Files are rewritten only on change
// so that make stays incremental.
package main

import (
	"bytes"
	"fmt"
	"go/ast"
	"go/constant"
	"go/parser"
	"go/token"
	"os"
	"path/filepath"
	"sort"
	"strconv"
	"strings"
)

var repo, outDir string

func die(format string, a ...interface{}) {
	fmt.Fprintf(os.Stderr, "gotrans: "+format+"\n", a...)
	os.Exit(2)
}

func parseFile(rel string) (*token.FileSet, *ast.File) {
	fset := token.NewFileSet()
	f, err := parser.ParseFile(fset, filepath.Join(repo, rel), nil, parser.ParseComments)
	if err != nil {
		die("parse %s: %v", rel, err)
	}
	return fset, f
}

func writeIfChanged(name string, content []byte) {
	p := filepath.Join(outDir, name)
	old, err := os.ReadFile(p)
	if err == nil && bytes.Equal(old, content) {
		return
	}
	if err := os.WriteFile(p, content, 0o644); err != nil {
		die("write %s: %v", p, err)
	}
	fmt.Println("gotrans: wrote", p)
}

func coqBytes(s string) string {
	var sb strings.Builder
	sb.WriteString("[")
	for i := 0; i < len(s); i++ {
		if i > 0 {
			sb.WriteString("; ")
		}
		fmt.Fprintf(&sb, "x%02x", s[i])
	}
	sb.WriteString("]")
	return sb.String()
}

// evalConst evaluates integer constant expressions built from literals, identifiers
// already known, + - * / << >> and parentheses.
func evalConst(e ast.Expr, env map[string]constant.Value) (constant.Value, bool) {
	switch x := e.(type) {
	case *ast.BasicLit:
		if x.Kind == token.INT || x.Kind == token.CHAR {
			return constant.MakeFromLiteral(x.Value, x.Kind, 0), true
		}
	case *ast.Ident:
		v, ok := env[x.Name]
		return v, ok
	case *ast.SelectorExpr:
		if id, ok := x.X.(*ast.Ident); ok && id.Name == "math" {
			switch x.Sel.Name {
			case "MaxInt8":
				return constant.MakeInt64(127), true
			case "MaxInt16":
				return constant.MakeInt64(32767), true
			case "MaxInt32":
				return constant.MakeInt64(2147483647), true
			case "MaxInt64":
				return constant.MakeInt64(9223372036854775807), true
			}
		}
	case *ast.ParenExpr:
		return evalConst(x.X, env)
	case *ast.UnaryExpr:
		v, ok := evalConst(x.X, env)
		if ok && (x.Op == token.SUB || x.Op == token.ADD) {
			return constant.UnaryOp(x.Op, v, 0), true
		}
	case *ast.BinaryExpr:
		a, ok1 := evalConst(x.X, env)
		b, ok2 := evalConst(x.Y, env)
		if !ok1 || !ok2 {
			return nil, false
		}
		switch x.Op {
		case token.SHL, token.SHR:
			n, _ := constant.Uint64Val(b)
			return constant.Shift(a, x.Op, uint(n)), true
		case token.ADD, token.SUB, token.MUL:
			return constant.BinaryOp(a, x.Op, b), true
		case token.QUO:
			return constant.BinaryOp(a, token.QUO_ASSIGN, b), true
		}
	case *ast.CallExpr: // int64(x), int8(x) conversions
		if len(x.Args) == 1 {
			return evalConst(x.Args[0], env)
		}
	}
	return nil, false
}

// intConsts collects integer constants (const and var with constant initialiser) of a file.
func intConsts(rel string) map[string]constant.Value {
	_, f := parseFile(rel)
	env := map[string]constant.Value{}
	for _, d := range f.Decls {
		gd, ok := d.(*ast.GenDecl)
		if !ok || (gd.Tok != token.CONST && gd.Tok != token.VAR) {
			continue
		}
		var lastExprs []ast.Expr
		for iota_, s := range gd.Specs {
			vs := s.(*ast.ValueSpec)
			exprs := vs.Values
			if len(exprs) == 0 {
				exprs = lastExprs
			} else {
				lastExprs = exprs
			}
			env["iota"] = constant.MakeInt64(int64(iota_))
			for i, n := range vs.Names {
				if n.Name == "_" {
					continue
				}
				if i < len(exprs) {
					if v, ok := evalConst(exprs[i], env); ok && v.Kind() == constant.Int {
						env[n.Name] = v
					}
				}
			}
		}
	}
	delete(env, "iota")
	return env
}

// stringConsts collects string constants and []byte("lit") variables of a file;
// identifiers referring to string constants in `deps` are resolved.
func stringConsts(rel string, deps map[string]string) map[string]string {
	_, f := parseFile(rel)
	out := map[string]string{}
	var str func(e ast.Expr) (string, bool)
	str = func(e ast.Expr) (string, bool) {
		switch x := e.(type) {
		case *ast.BasicLit:
			if x.Kind == token.STRING {
				s, err := strconv.Unquote(x.Value)
				return s, err == nil
			}
		case *ast.Ident:
			if s, ok := out[x.Name]; ok {
				return s, true
			}
			s, ok := deps[x.Name]
			return s, ok
		case *ast.SelectorExpr:
			s, ok := deps[x.Sel.Name]
			return s, ok
		case *ast.BinaryExpr:
			if x.Op == token.ADD {
				a, ok1 := str(x.X)
				b, ok2 := str(x.Y)
				return a + b, ok1 && ok2
			}
		case *ast.CallExpr:
			if at, ok := x.Fun.(*ast.ArrayType); ok && at.Len == nil && len(x.Args) == 1 {
				if id, ok := at.Elt.(*ast.Ident); ok && id.Name == "byte" {
					return str(x.Args[0])
				}
			}
		}
		return "", false
	}
	for _, d := range f.Decls {
		gd, ok := d.(*ast.GenDecl)
		if !ok || (gd.Tok != token.CONST && gd.Tok != token.VAR) {
			continue
		}
		for _, s := range gd.Specs {
			vs := s.(*ast.ValueSpec)
			for i, n := range vs.Names {
				if i < len(vs.Values) {
					if v, ok := str(vs.Values[i]); ok {
						out[n.Name] = v
					}
				}
			}
		}
	}
	return out
}

func sortedKeys[V any](m map[string]V) []string {
	var ks []string
	for k := range m {
		ks = append(ks, k)
	}
	sort.Strings(ks)
	return ks
}

func t1() {
	var sb strings.Builder
	sb.WriteString("(* GENERATED by /verif/tools/gotrans (T1) from /repo — do not edit; regenerated on every check *)\n")
	sb.WriteString("From Coq Require Import List Strings.Byte NArith ZArith.\nImport ListNotations.\n\n")
	sb.WriteString("Definition tbl_get (t : list byte) (b : byte) : byte := nth (N.to_nat (Byte.to_N b)) t x00.\n\n")

	// 256-entry tables
	tabs := stringConsts("internal/bytesconv/bytesconv_table.go", nil)
	sb.WriteString("(* internal/bytesconv/bytesconv_table.go *)\n")
	for _, n := range sortedKeys(tabs) {
		if len(tabs[n]) != 256 {
			continue
		}
		fmt.Fprintf(&sb, "Definition %s : list byte := %s.\n", n, coqBytes(tabs[n]))
	}

	// byte-string constants
	cs := stringConsts("pkg/protocol/consts/headers.go", nil)
	for k, v := range stringConsts("pkg/protocol/consts/methods.go", nil) {
		cs[k] = v
	}
	for k, v := range stringConsts("pkg/protocol/consts/default.go", nil) {
		cs[k] = v
	}
	bstr := stringConsts("internal/bytestr/bytes.go", cs)
	sb.WriteString("\n(* internal/bytestr/bytes.go *)\n")
	for _, n := range sortedKeys(bstr) {
		fmt.Fprintf(&sb, "Definition bytestr_%s : list byte := %s.\n", n, coqBytes(bstr[n]))
	}
	sb.WriteString("\n(* pkg/protocol/consts *)\n")
	for _, n := range sortedKeys(cs) {
		fmt.Fprintf(&sb, "Definition consts_%s : list byte := %s.\n", n, coqBytes(cs[n]))
	}

	// integer constants, by file
	intFiles := []struct{ prefix, rel string }{
		{"bytesconv", "internal/bytesconv/bytesconv.go"},
		{"bytesconv64", "internal/bytesconv/bytesconv_64.go"},
		{"status", "pkg/protocol/consts/status.go"},
		{"consts", "pkg/protocol/consts/default.go"},
		{"ext", "pkg/protocol/http1/ext/common.go"},
		{"extstream", "pkg/protocol/http1/ext/stream.go"},
		{"std", "pkg/network/standard/buffer.go"},
		{"stdconn", "pkg/network/standard/connection.go"},
		{"appctx", "pkg/app/context.go"},
		{"rconsts", "pkg/route/consts/const.go"},
		{"utils", "pkg/common/utils/utils.go"},
		{"fs", "pkg/app/fs.go"},
		{"engine", "pkg/route/engine.go"},
	}
	for _, f := range intFiles {
		if _, err := os.Stat(filepath.Join(repo, f.rel)); err != nil {
			continue
		}
		env := intConsts(f.rel)
		if len(env) == 0 {
			continue
		}
		fmt.Fprintf(&sb, "\n(* %s *)\n", f.rel)
		for _, n := range sortedKeys(env) {
			fmt.Fprintf(&sb, "Definition %s_%s : Z := (%s)%%Z.\n", f.prefix, n, env[n].ExactString())
		}
	}

	// status messages (map literal in status.go): emitted as an association list
	_, f := parseFile("pkg/protocol/consts/status.go")
	senv := intConsts("pkg/protocol/consts/status.go")
	var pairs []string
	ast.Inspect(f, func(n ast.Node) bool {
		cl, ok := n.(*ast.CompositeLit)
		if !ok {
			return true
		}
		if _, ok := cl.Type.(*ast.MapType); !ok {
			return true
		}
		for _, el := range cl.Elts {
			kv, ok := el.(*ast.KeyValueExpr)
			if !ok {
				continue
			}
			k, ok1 := evalConst(kv.Key, senv)
			lit, ok2 := kv.Value.(*ast.BasicLit)
			if ok1 && ok2 && lit.Kind == token.STRING {
				s, _ := strconv.Unquote(lit.Value)
				pairs = append(pairs, fmt.Sprintf("((%s)%%Z, %s)", k.ExactString(), coqBytes(s)))
			}
		}
		return false
	})
	sb.WriteString("\nDefinition status_messages : list (Z * list byte) := [\n  " + strings.Join(pairs, ";\n  ") + "].\n")

	// operator priority table: the type switch of internal/tagexpr.getPriority
	{
		_, f := parseFile("internal/tagexpr/expr.go")
		var rows []string
		def := "(-1)%Z"
		ast.Inspect(f, func(n ast.Node) bool {
			fd, ok := n.(*ast.FuncDecl)
			if !ok || fd.Name.Name != "getPriority" {
				return true
			}
			ast.Inspect(fd.Body, func(n ast.Node) bool {
				cc, ok := n.(*ast.CaseClause)
				if !ok {
					return true
				}
				val := ""
				for _, st := range cc.Body {
					if rs, ok := st.(*ast.ReturnStmt); ok && len(rs.Results) == 1 {
						if v, ok := evalConst(rs.Results[0], nil); ok {
							val = "(" + v.ExactString() + ")%Z"
						}
					}
				}
				if val == "" {
					val = "(-1)%Z" // unrecognised body: no side condition accepts a negative priority
				}
				if cc.List == nil {
					def = val
				}
				for _, t := range cc.List {
					name := "?"
					if st, ok := t.(*ast.StarExpr); ok {
						if id, ok := st.X.(*ast.Ident); ok {
							name = id.Name
						}
					}
					rows = append(rows, fmt.Sprintf("(%s, %s)", coqBytes(name), val))
				}
				return true
			})
			return false
		})
		sb.WriteString("\n(* internal/tagexpr/expr.go getPriority: node type name -> priority; default for everything else *)\n")
		sb.WriteString("Definition tagexpr_priority : list (list byte * Z) := [\n  " + strings.Join(rows, ";\n  ") + "].\n")
		sb.WriteString("Definition tagexpr_priority_default : Z := " + def + ".\n")
	}

	writeIfChanged("Tables.v", []byte(sb.String()))
}

func main() {
	if len(os.Args) < 3 {
		die("usage: gotrans <repo> <outdir>")
	}
	repo, outDir = os.Args[1], os.Args[2]
	os.MkdirAll(outDir, 0o755)
	t1()
	t2()
	t3()
}
