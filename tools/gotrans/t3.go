package main

// T3: serialiser skeletons.  The bodies of the append-only serialisers of pkg/protocol are
// transcribed statement by statement into the emission language of coq/Model/Ser.v:
//
//	dst = append(dst, e...)            -> Raw e            (one per appended expression)
//	dst = appendHeaderLine(dst, k, v)  -> HLine k v
//	dst = f(dst, args...)              -> CallS "f" args
//	statement not mentioning dst       -> Skip
//	if c { A } else { B }              -> If A B           (condition uninterpreted)
//	for / range                        -> Loop body
//	return append(dst, e...)           -> Ret [Raw e]
//	return dst                         -> Ret []
//	anything else                      -> Opaque "<source>"   (no side condition accepts it)
//
// Expressions: bytestr.X and literals are Lit <bytes> (resolved through T1), everything else
// is Atom "<source text>" - a value the environment (the application) controls.

import (
	"bytes"
	"fmt"
	"go/ast"
	"go/parser"
	"go/printer"
	"go/token"
	"os"
	"path/filepath"
	"strconv"
	"strings"
)

var t3fset = token.NewFileSet()
var t3bytestr map[string]string

func t3src(n ast.Node) string {
	var b bytes.Buffer
	printer.Fprint(&b, t3fset, n)
	return strings.Join(strings.Fields(b.String()), " ")
}

func mentionsDst(n ast.Node) bool {
	found := false
	ast.Inspect(n, func(x ast.Node) bool {
		if id, ok := x.(*ast.Ident); ok && id.Name == "dst" {
			found = true
		}
		return !found
	})
	return found
}

func isDstIdent(e ast.Expr) bool { id, ok := e.(*ast.Ident); return ok && id.Name == "dst" }

func t3expr(e ast.Expr) string {
	if se, ok := e.(*ast.SelectorExpr); ok {
		if id, ok := se.X.(*ast.Ident); ok && id.Name == "bytestr" {
			if v, ok := t3bytestr[se.Sel.Name]; ok {
				return "Lit " + coqBytes(v)
			}
		}
	}
	if bl, ok := e.(*ast.BasicLit); ok {
		switch bl.Kind {
		case token.CHAR:
			if r, _, _, err := strconv.UnquoteChar(bl.Value[1:len(bl.Value)-1], '\''); err == nil && r < 256 {
				return "Lit " + coqBytes(string([]byte{byte(r)}))
			}
		case token.STRING:
			if s, err := strconv.Unquote(bl.Value); err == nil {
				return "Lit " + coqBytes(s)
			}
		}
	}
	if mentionsDst(e) {
		return "Bad " + coqBytes(t3src(e))
	}
	return "Atom " + coqBytes(t3src(e))
}

func t3emits(args []ast.Expr) []string {
	var out []string
	for _, a := range args {
		out = append(out, "Raw ("+t3expr(a)+")")
	}
	return out
}

func t3block(list []ast.Stmt) string {
	var out []string
	for _, st := range list {
		out = append(out, t3stmt(st)...)
	}
	return "[" + strings.Join(out, "; ") + "]"
}

func t3stmt(st ast.Stmt) []string {
	opaque := func() []string { return []string{"Opaque " + coqBytes(t3src(st))} }
	switch st := st.(type) {
	case *ast.AssignStmt:
		if !mentionsDst(st) {
			return []string{"Skip"}
		}
		if len(st.Lhs) == 1 && len(st.Rhs) == 1 && isDstIdent(st.Lhs[0]) {
			if ce, ok := st.Rhs[0].(*ast.CallExpr); ok && len(ce.Args) >= 1 && isDstIdent(ce.Args[0]) {
				fn := t3src(ce.Fun)
				for _, a := range ce.Args[1:] {
					if mentionsDst(a) {
						return opaque()
					}
				}
				switch {
				case fn == "append" && len(ce.Args) >= 2:
					return t3emits(ce.Args[1:])
				case fn == "appendHeaderLine" && len(ce.Args) == 3:
					return []string{"HLine (" + t3expr(ce.Args[1]) + ") (" + t3expr(ce.Args[2]) + ")"}
				default:
					var as []string
					for _, a := range ce.Args[1:] {
						as = append(as, t3expr(a))
					}
					return []string{"CallS " + coqBytes(fn) + " [" + strings.Join(as, "; ") + "]"}
				}
			}
		}
		return opaque()
	case *ast.ExprStmt, *ast.DeclStmt, *ast.IncDecStmt:
		if !mentionsDst(st) {
			return []string{"Skip"}
		}
		return opaque()
	case *ast.IfStmt:
		if st.Init != nil && mentionsDst(st.Init) || mentionsDst(st.Cond) {
			return opaque()
		}
		els := "[]"
		switch e := st.Else.(type) {
		case *ast.BlockStmt:
			els = t3block(e.List)
		case *ast.IfStmt:
			els = "[" + strings.Join(t3stmt(e), "; ") + "]"
		}
		return []string{"If " + t3block(st.Body.List) + " " + els}
	case *ast.ForStmt:
		if st.Init != nil && mentionsDst(st.Init) || st.Cond != nil && mentionsDst(st.Cond) || st.Post != nil && mentionsDst(st.Post) {
			return opaque()
		}
		return []string{"Loop " + t3block(st.Body.List)}
	case *ast.RangeStmt:
		if mentionsDst(st.X) {
			return opaque()
		}
		return []string{"Loop " + t3block(st.Body.List)}
	case *ast.ReturnStmt:
		if len(st.Results) == 1 {
			if isDstIdent(st.Results[0]) {
				return []string{"Ret []"}
			}
			if ce, ok := st.Results[0].(*ast.CallExpr); ok && t3src(ce.Fun) == "append" && len(ce.Args) >= 2 && isDstIdent(ce.Args[0]) {
				return []string{"Ret [" + strings.Join(t3emits(ce.Args[1:]), "; ") + "]"}
			}
		}
		return opaque()
	}
	return opaque()
}

func t3() {
	cs := stringConsts("pkg/protocol/consts/headers.go", nil)
	for k, v := range stringConsts("pkg/protocol/consts/methods.go", nil) {
		cs[k] = v
	}
	for k, v := range stringConsts("pkg/protocol/consts/default.go", nil) {
		cs[k] = v
	}
	t3bytestr = stringConsts("internal/bytestr/bytes.go", cs)

	want := []string{"RequestHeader.AppendBytes", "ResponseHeader.AppendBytes", "Trailer.AppendBytes", "appendHeaderLine"}
	found := map[string]string{}
	pkgs, err := parser.ParseDir(t3fset, filepath.Join(repo, "pkg/protocol"), func(fi os.FileInfo) bool {
		return !strings.HasSuffix(fi.Name(), "_test.go") && !strings.HasPrefix(fi.Name(), "verif_")
	}, 0)
	if err != nil {
		die("t3: %v", err)
	}
	for _, p := range pkgs {
		for _, f := range p.Files {
			for _, d := range f.Decls {
				fd, ok := d.(*ast.FuncDecl)
				if !ok || fd.Body == nil {
					continue
				}
				name := fd.Name.Name
				if fd.Recv != nil && len(fd.Recv.List) == 1 {
					t := fd.Recv.List[0].Type
					if se, ok := t.(*ast.StarExpr); ok {
						t = se.X
					}
					name = t3src(t) + "." + name
				}
				for _, w := range want {
					if w == name {
						found[name] = t3block(fd.Body.List)
					}
				}
			}
		}
	}
	var sb strings.Builder
	sb.WriteString("(* GENERATED by /verif/tools/gotrans (T3) from /repo/pkg/protocol — do not edit *)\n")
	sb.WriteString("From Coq Require Import List Strings.Byte.\nRequire Import Ser.\nImport ListNotations.\n\n")
	for _, w := range want {
		body, ok := found[w]
		if !ok {
			body = "[Opaque " + coqBytes("function not found: "+w) + "]"
		}
		fmt.Fprintf(&sb, "Definition skel_%s : list ser :=\n  %s.\n\n", strings.ReplaceAll(w, ".", "_"), body)
	}
	writeIfChanged("SerSkel.v", []byte(sb.String()))
}
