package main

func t3() {}
