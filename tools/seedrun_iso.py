#!/usr/bin/env python3
"""Like tools/seedrun.py, but without touching /repo or /verif's build: every seeded change is applied to a scratch
copy of /repo's HEAD and checked by a scratch copy of /verif whose harness modules point at that copy
(VERIF_REPO selects the tree the translators read).  Several seeds run side by side.
usage: tools/seedrun_iso.py [-j N] [seed-or-property ...]      e.g.  tools/seedrun_iso.py -j 3 C18 C05/d"""
import json, os, subprocess, sys, glob, shutil, re
from concurrent.futures import ThreadPoolExecutor
ROOT = "/verif"
SCR = os.environ.get("VERIF_SCRATCH", "/root/scratch/iso")
args = sys.argv[1:]
J = 3
if args[:1] == ["-j"]:
    J = int(args[1]); args = args[2:]
only = set(args)

def run_seed(meta_path):
    d = os.path.dirname(meta_path)
    meta = json.load(open(meta_path))
    sid = meta["seed"]
    tag = sid.replace("/", "_")
    rc, vc = os.path.join(SCR, "repo_" + tag), os.path.join(SCR, "verif_" + tag)
    for p in (rc, vc):
        shutil.rmtree(p, ignore_errors=True)
    os.makedirs(rc)
    subprocess.run("git -C /repo archive HEAD | tar -x -C " + rc, shell=True, check=True)
    ap = subprocess.run(["git", "apply", os.path.join(d, "patch.diff")], capture_output=True, text=True, cwd=rc)
    if ap.returncode != 0:
        meta["result"] = {"applies": False, "note": ap.stderr.strip()[:300]}
    else:
        subprocess.run(["rsync", "-a", "--exclude", ".git", "--exclude", "replays", "--exclude", "seeded", ROOT + "/", vc + "/"], check=True)
        for gm in ("harness/go.mod", "harness-hz/go.mod"):
            p = os.path.join(vc, gm)
            s = open(p).read()
            s = re.sub(r"=> /repo\b", "=> " + rc, s)
            open(p, "w").write(s)
        out = {}
        env = dict(os.environ, VERIF_REPO=rc)
        for pid in [meta["property"]] + meta.get("also_run", []):
            r = subprocess.run([os.path.join(vc, "check"), pid, "quick"], capture_output=True, text=True, cwd=vc, env=env)
            lines = [l for l in r.stdout.splitlines() if l.startswith("VIOLATION") or l.startswith(pid + " quick")]
            out[pid] = {"exit": r.returncode, "violation_lines": len([l for l in lines if l.startswith("VIOLATION")]),
                        "no_failing_input": any(l.endswith("no-failing-input-found") for l in lines),
                        "summary": lines[-1] if lines else (r.stdout[-300:] + r.stderr[-300:])}
            # keep the replays of what was reported, for inspection
            for l in lines:
                m = re.search(r"replay=(\S+)", l)
                if m and os.path.exists(m.group(1)):
                    dst = os.path.join(SCR, "replays", tag)
                    os.makedirs(dst, exist_ok=True)
                    shutil.copy(m.group(1), dst)
        meta["result"] = {"applies": True, "checks": out, "caught": any(v["exit"] != 0 for v in out.values())}
    for p in (rc, vc):
        shutil.rmtree(p, ignore_errors=True)
    json.dump(meta, open(meta_path, "w"), indent=1)
    print(sid, json.dumps(meta["result"])[:260], flush=True)
    return sid, meta["result"]

metas = []
for mp in sorted(glob.glob(os.path.join(ROOT, "seeded", "*", "*", "meta.json"))):
    m = json.load(open(mp))
    if only and m["seed"] not in only and m["property"] not in only:
        continue
    if m.get("status") == "neutralised":
        continue
    metas.append(mp)
os.makedirs(SCR, exist_ok=True)
with ThreadPoolExecutor(J) as ex:
    res = dict(ex.map(run_seed, metas))
rp = os.path.join(ROOT, "seeded", "results.json")
allres = json.load(open(rp)) if os.path.exists(rp) else {}
allres.update(res)
json.dump(allres, open(rp, "w"), indent=1, sort_keys=True)
