#!/usr/bin/env python3
"""Apply every seeded change under /verif/seeded to /repo in turn, run the quick check of its property
(and of the extra properties listed in its meta.json), record what was reported, undo the change."""
import json, os, subprocess, sys, glob
ROOT = "/verif"
only = set(sys.argv[1:])
res = {}
for meta_path in sorted(glob.glob(os.path.join(ROOT, "seeded", "*", "*", "meta.json"))):
    d = os.path.dirname(meta_path)
    meta = json.load(open(meta_path))
    sid = meta["seed"]
    if only and sid not in only and meta["property"] not in only:
        continue
    subprocess.run(["git", "-C", "/repo", "checkout", "--", "."], check=True)
    ap = subprocess.run(["git", "-C", "/repo", "apply", os.path.join(d, "patch.diff")], capture_output=True, text=True)
    if ap.returncode != 0:
        meta["result"] = {"applies": False, "note": ap.stderr.strip()[:300]}
    else:
        out = {}
        for pid in [meta["property"]] + meta.get("also_run", []):
            r = subprocess.run([os.path.join(ROOT, "check"), pid, "quick"], capture_output=True, text=True, cwd=ROOT)
            lines = [l for l in r.stdout.splitlines() if l.startswith("VIOLATION") or l.startswith(pid + " quick")]
            out[pid] = {"exit": r.returncode, "violation_lines": len([l for l in lines if l.startswith("VIOLATION")]),
                        "no_failing_input": any(l.endswith("no-failing-input-found") for l in lines),
                        "summary": lines[-1] if lines else ""}
        meta["result"] = {"applies": True, "checks": out,
                          "caught": any(v["exit"] != 0 for v in out.values())}
    subprocess.run(["git", "-C", "/repo", "checkout", "--", "."], check=True)
    json.dump(meta, open(meta_path, "w"), indent=1)
    res[sid] = meta["result"]
    print(sid, json.dumps(meta["result"])[:200], flush=True)
rp = os.path.join(ROOT, "seeded", "results.json")
allres = json.load(open(rp)) if os.path.exists(rp) else {}
allres.update(res)
json.dump(allres, open(rp, "w"), indent=1, sort_keys=True)
