#!/bin/sh
# usage: tools/tryseed.sh <patch> <id>...   applies the patch to /repo, runs quick checks, reverts
P=$1; shift
git -C /repo apply "$P" || { echo "patch does not apply"; exit 2; }
for id in "$@"; do /verif/check $id quick 2>&1 | tail -4; done
git -C /repo checkout -- . ; git -C /repo status --short | head -3
