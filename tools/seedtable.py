#!/usr/bin/env python3
"""Render seeded/*/*/meta.json as the markdown table of DESIGN.md §0.6.1 (replaces the block between the markers)."""
import json, glob, os, re
rows = []
for mp in sorted(glob.glob("/verif/seeded/*/*/meta.json")):
    m = json.load(open(mp))
    r = m.get("result", {})
    if m.get("status") == "neutralised":
        verdict = "neutralised by a repair (no longer changes behaviour)"
    elif not r:
        verdict = "not run"
    elif not r.get("applies"):
        verdict = "does not apply"
    else:
        parts = []
        for pid, c in r["checks"].items():
            if c["exit"] != 0:
                parts.append("%s: VIOLATION%s" % (pid, " (no-failing-input-found)" if c["no_failing_input"] and c["violation_lines"] == 1 else " with replay"))
            else:
                parts.append("%s: passes" % pid)
        verdict = "; ".join(parts)
    summ = re.sub(r"\s+", " ", m.get("summary", ""))[:110].replace("|", "/")
    rows.append("| %s | %s | %s |" % (m["seed"], summ, verdict))
table = "#### 0.6.1 Result of `tools/seedrun_iso.py` on the current tree\n\n| seed | change (the agent's own headline) | quick check |\n|------|------|------|\n" + "\n".join(rows) + "\n"
p = "/verif/DESIGN.md"
s = open(p).read()
if "SEEDTABLE" in s:
    s = s.replace("SEEDTABLE", "<!-- seedtable:begin -->\n" + table + "<!-- seedtable:end -->")
else:
    s = re.sub(r"<!-- seedtable:begin -->.*?<!-- seedtable:end -->", "<!-- seedtable:begin -->\n" + table.replace("\\", "\\\\") + "<!-- seedtable:end -->", s, flags=re.S)
open(p, "w").write(s)
print(len(rows), "rows")
