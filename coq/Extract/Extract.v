Require Import Dispatch.
From Coq Require Import Strings.Byte.
Require Import Extraction ExtrOcamlBasic.
Extraction Language OCaml.
Extraction "model.ml" dispatch Byte.to_N Byte.of_N.
