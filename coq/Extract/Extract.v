Require Import Dispatch.
From Coq Require Import Strings.Byte.
Require Import Extraction ExtrOcamlBasic.
Extraction Language OCaml.
Extraction "model.ml" dispatch verif_byte_to_N verif_byte_of_N.
