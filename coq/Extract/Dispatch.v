(* One entry point for the correspondence check: command name + byte-string arguments ->
   rendered result.  All rendering is Gallina, so modeld.ml has no per-function glue. *)
From Coq Require Import String.
From Coq Require Import List Strings.Byte NArith ZArith Bool.
Require Import Bytes Show Tables Codec Norm CleanPath Chain.
Require Serve Rot Ser.
Import ListNotations.

Definition arg (args : list bs) (i : nat) : bs := nth i args [].

Fixpoint pairs_kv (a : list bs) : list kv :=
  match a with
  | k :: v :: r => {| key := k; value := v; noValue := false |} :: pairs_kv r
  | _ => []
  end.

Definition entries : list (bs * (list bs -> bs)) := [
  (B "quote", fun a => quote (arg a 0));
  (B "quote_path", fun a => quote_path (arg a 0));
  (B "decode_arg", fun a => decode_arg (arg a 0));
  (B "decode_noplus", fun a => decode_noplus (arg a 0));
  (B "args_parse", fun a => show_args (args_parse (arg a 0)));
  (B "args_reencode", fun a => match args_parse (arg a 0) with Some l => encode l | None => B "FUEL" end);
  (B "args_encode", fun a => encode (pairs_kv a));
  (B "normalize_path", fun a => show_obs (normalize_path (arg a 0)));
  (B "clean_path", fun a => show_obs (clean_path (arg a 0)));
  (B "run_chain", fun a => run_chain a);
  (B "serve_trace", fun a => Serve.serve_trace (arg a 0));
  (B "sort_shape", fun a => Rot.sort_shape (arg a 0));
  (B "spec_shape", fun a => Rot.spec_shape (arg a 0));
  (B "append_header_line", fun a => Ser.append_header_line (arg a 0) (arg a 1));
  (B "nl2sp", fun a => Ser.nl2sp (arg a 0))
].

Fixpoint lookup (cmd : bs) (l : list (bs * (list bs -> bs))) : option (list bs -> bs) :=
  match l with
  | [] => None
  | (n, f) :: r => if bs_eqb cmd n then Some f else lookup cmd r
  end.

Definition dispatch (cmd : bs) (args : list bs) : bs :=
  match lookup cmd entries with
  | Some f => f args
  | None => B "UNKNOWN-COMMAND"
  end.
