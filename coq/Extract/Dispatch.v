(* One entry point for the correspondence check: command name + byte-string arguments ->
   rendered result.  All rendering is Gallina, so modeld.ml has no per-function glue. *)
From Coq Require Import String.
From Coq Require Import List Strings.Byte NArith ZArith Bool.
Require Import Bytes Show Tables Codec Norm CleanPath Chain.
Require Serve Rot Ser ResetLang ResetModel ResetClass Range UriSplit TrailerKeys Rd Chunk HeaderBlock RespFrame Pool Router Bind HzRouter Shutdown Radix BodyStream HeaderScan ReqHead LinkBuf OutBuf Cookie RespHead Uri Prefetch.
Import ListNotations.

Definition arg (args : list bs) (i : nat) : bs := nth i args [].

Fixpoint pairs_kv (a : list bs) : list kv :=
  match a with
  | k :: v :: r => {| key := k; value := v; noValue := false |} :: pairs_kv r
  | _ => []
  end.

Definition reset_unreset (ty m : bs) : bs :=
  let ex := ResetClass.exempt_for m in
  let keep := bs_eqb m (B "ResetWithoutConn") in
  let f := 400%nat in
  let go leaves ms entry := ResetLang.show_unreset (ResetLang.unreset f leaves ms entry ex) in
  if bs_eqb ty (B "ResponseHeader") then go ResetModel.R_ResponseHeader_leaves ResetModel.R_ResponseHeader_methods ResetModel.R_ResponseHeader_entry_Reset
  else if bs_eqb ty (B "RequestHeader") then go ResetModel.R_RequestHeader_leaves ResetModel.R_RequestHeader_methods ResetModel.R_RequestHeader_entry_Reset
  else if bs_eqb ty (B "Request") then go ResetModel.R_Request_leaves ResetModel.R_Request_methods
         (if keep then ResetModel.R_Request_entry_ResetWithoutConn else ResetModel.R_Request_entry_Reset)
  else if bs_eqb ty (B "Response") then go ResetModel.R_Response_leaves ResetModel.R_Response_methods ResetModel.R_Response_entry_Reset
  else if bs_eqb ty (B "URI") then go ResetModel.R_URI_leaves ResetModel.R_URI_methods ResetModel.R_URI_entry_Reset
  else if bs_eqb ty (B "Cookie") then go ResetModel.R_Cookie_leaves ResetModel.R_Cookie_methods ResetModel.R_Cookie_entry_Reset
  else if bs_eqb ty (B "Args") then go ResetModel.R_Args_leaves ResetModel.R_Args_methods ResetModel.R_Args_entry_Reset
  else if bs_eqb ty (B "Trailer") then go ResetModel.R_Trailer_leaves ResetModel.R_Trailer_methods ResetModel.R_Trailer_entry_Reset
  else if bs_eqb ty (B "RequestContext") then go ResetModel.R_RequestContext_leaves ResetModel.R_RequestContext_methods
         (if keep then ResetModel.R_RequestContext_entry_ResetWithoutConn else ResetModel.R_RequestContext_entry_Reset)
  else B "!UNKNOWN-TYPE".

Definition entries : list (bs * (list bs -> bs)) := [
  (B "quote", fun a => quote (arg a 0));
  (B "quote_path", fun a => quote_path (arg a 0));
  (B "decode_arg", fun a => decode_arg (arg a 0));
  (B "decode_noplus", fun a => decode_noplus (arg a 0));
  (B "args_parse", fun a => show_args (args_parse (arg a 0)));
  (B "args_reencode", fun a => match args_parse (arg a 0) with Some l => encode l | None => B "FUEL" end);
  (B "args_encode", fun a => encode (pairs_kv a));
  (B "normalize_path", fun a => show_obs (normalize_path (arg a 0)));
  (B "clean_path", fun a => show_obs (clean_path (arg a 0)));
  (B "run_chain", fun a => run_chain a);
  (B "serve_trace", fun a => Serve.serve_trace (arg a 0));
  (B "sort_shape", fun a => Rot.sort_shape (arg a 0));
  (B "spec_shape", fun a => Rot.spec_shape (arg a 0));
  (B "append_header_line", fun a => Ser.append_header_line (arg a 0) (arg a 1));
  (B "nl2sp", fun a => Ser.nl2sp (arg a 0));
  (B "reset_exempt", fun a => join (B ",") (ResetClass.exempt_for (arg a 1)));
  (B "reset_unreset", fun a => reset_unreset (arg a 0) (arg a 1));
  (B "split_host_uri", fun a => UriSplit.show_split (UriSplit.split_host_uri (arg a 0) (arg a 1)));
  (B "set_trailers", fun a => TrailerKeys.show_trailers (TrailerKeys.set_trailers (arg a 0)));
  (B "parse_byte_range", fun a => Range.show_range (Range.parse_byte_range (arg a 0) (parse_Z (arg a 1))));
  (B "parse_uint_buf", fun a => Range.show_pu (Range.parse_uint_buf (arg a 0)));
  (B "rd_script", fun a => Rd.rd_script a);
  (B "lb_script", fun a => LinkBuf.lb_script a);
  (B "ob_script", fun a => OutBuf.ob_script a);
  (B "cookie_parse_script", fun a => Cookie.cookie_parse_script a);
  (B "resp_head", fun a => RespHead.resp_head a);
  (B "req_close", fun a => RespHead.req_close_of a);
  (B "uri_parse_script", fun a => Uri.uri_parse_script a);
  (B "prefetch_script", fun a => Prefetch.prefetch_script a);
  (B "pool_script", fun a => Pool.pool_script a);
  (B "bind_one", fun a => Bind.bind_one a);
  (B "hz_router", fun a => HzRouter.hz_router a);
  (B "shutdown_script", fun a => Shutdown.shutdown_script a);
  (B "hz_interp", fun a => HzRouter.hz_interp a);
  (B "radix_script", fun a => Radix.radix_script a);
  (B "header_scan", fun a => HeaderScan.header_scan a);
  (B "req_head", fun a => ReqHead.req_head a);
  (B "stream_script", fun a => BodyStream.stream_script a);
  (B "route_find", fun a => Router.route_find (bs_eqb (arg a 0) (B "1")) (skipn 2 a) (arg a 1));
  (B "header_block_len", fun a => HeaderBlock.show_opt_nat (HeaderBlock.header_block_len (arg a 0)));
  (B "dechunk", fun a => Chunk.show_dres (Chunk.dechunk (S (length (arg a 0))) (parse_N (arg a 1)) (arg a 0) []));
  (B "read_hex_int", fun a => Chunk.show_hexres (Chunk.read_hex_int (arg a 0) 0 0));
  (B "write_hex", fun a => Chunk.write_hex (parse_N (arg a 0)));
  (B "enchunk", fun a => Chunk.enchunk a);
  (B "chunked_writer_body", fun a => RespFrame.chunked_writer_body a);
  (B "must_skip", fun a => show_bool (RespFrame.must_skip_content_length (parse_Z (arg a 0))));
  (B "ci_compare", fun a => show_bool (TrailerKeys.ci_compare (arg a 0) (arg a 1)));
  (B "normalize_header_key", fun a => TrailerKeys.normalize_header_key (arg a 0))
].

Fixpoint lookup (cmd : bs) (l : list (bs * (list bs -> bs))) : option (list bs -> bs) :=
  match l with
  | [] => None
  | (n, f) :: r => if bs_eqb cmd n then Some f else lookup cmd r
  end.

Definition dispatch (cmd : bs) (args : list bs) : bs :=
  match lookup cmd entries with
  | Some f => f args
  | None => B "UNKNOWN-COMMAND"
  end.

(* stable names for the byte <-> number conversions modeld.ml uses *)
Definition verif_byte_of_N := Byte.of_N.
Definition verif_byte_to_N := Byte.to_N.
