(* C14 / C11: how many body bytes ext.ReadBodyWithStreaming takes off the connection before the body stream is
   built (stream.go: ReadBodyWithStreaming, common.go: appendBodyFixedSize, readBodyIdentity, round2), for a
   declared length >= 0.  `avail` is what r.Len() answers at each turn of readBodyIdentity's loop (how much the
   connection has buffered: it depends on how the bytes arrived; the harness records it).  Sizes only: that the
   bytes are the body's is the oracle of unit c14.prefetch.  Definitions only. *)
From Coq Require Import String.
From Coq Require Import List Strings.Byte NArith Bool Arith.
Require Import Bytes Show.
Import ListNotations.
Local Open Scope nat_scope.

Definition max_in_stream : nat := N.to_nat 8192.
Definition round2 (n : nat) : nat := if n =? 0 then 0 else N.to_nat (2 ^ N.log2_up (N.of_nat n)).

(* readBodyIdentity: bytes taken so far = offset; dlen = len(dst) *)
Fixpoint identity_loop (avail : list nat) (max dlen offset : nat) : nat :=
  match avail with
  | [] => offset
  | a :: rest =>
      let nn := Nat.min a (dlen - offset) in
      let offset' := offset + nn in
      if max <? offset' then offset'
      else if dlen =? offset' then
        let n := round2 (2 * offset') in
        identity_loop rest max (if max <? n then max + 1 else n) offset'
      else identity_loop rest max dlen offset'
  end.

Definition eff_limit (limit : nat) : nat := if limit =? 0 then max_in_stream else limit.

Definition prefetch (cl limit cap : nat) (avail : list nat) : nat :=
  let max := eff_limit limit in
  let readN := Nat.min (Nat.min max cl) max_in_stream in
  if cl <=? max then readN
  else identity_loop avail readN (if cap =? 0 then N.to_nat 1024 else cap) 0.

(* prefetch_script: contentLength, limit, capacity of dst, then the recorded Len() values *)
Definition prefetch_script (a : list bs) : bs :=
  show_nat (prefetch (parse_nat (nth 0 a [])) (parse_nat (nth 1 a [])) (parse_nat (nth 2 a [])) (map parse_nat (skipn 3 a))).
