(* C14: ext.bodyStream for a fixed-length (Content-Length) streamed request body:
   Read, skipRest / ReleaseBodyStream.  `pre` are the bytes ReadBodyWithStreaming prefetched
   (at most maxContentLengthInStream), `wire` is everything that follows them on the connection:
   the rest of the body and then the next requests.  Definitions only. *)
From Coq Require Import String.
From Coq Require Import List Strings.Byte NArith ZArith Bool Arith.
Require Import Bytes Show Tables.
Import ListNotations.

Record bstream := { offset : nat; clen : nat; pre : bs; wire : bs }.

Inductive rerror := RNil | REOF | RErr.   (* nil, io.EOF, any other error *)

(* one Read(p) with len(p) = k > 0; `avail` = how many bytes the connection would hand out at
   most right now (>= 1; a connection read returns what is there, not necessarily all of m) *)
Definition bs_read (k avail : nat) (s : bstream) : bs * rerror * bstream :=
  if offset s =? clen s then ([], REOF, s)
  else
    let n := if offset s <? length (pre s) then Nat.min k (length (pre s) - offset s) else 0 in
    let fromPre := firstn n (skipn (offset s) (pre s)) in
    let s1 := {| offset := offset s + n; clen := clen s; pre := pre s; wire := wire s |} in
    if (0 <? n) && (offset s1 =? clen s1) then (fromPre, REOF, s1)
    else if (0 <? n) && (k =? n) then (fromPre, RNil, s1)
    else
      let m := Nat.min (k - n) (clen s1 - offset s1) in          (* the fixed bound: p[n : n+m] *)
      match wire s1 with
      | [] => (fromPre, RErr, {| offset := clen s1; clen := clen s1; pre := pre s1; wire := [] |})   (* unexpected EOF *)
      | _ =>
          let j := Nat.min m (Nat.max 1 avail) in
          let j := Nat.min j (length (wire s1)) in
          let s2 := {| offset := offset s1 + j; clen := clen s1; pre := pre s1; wire := skipn j (wire s1) |} in
          (fromPre ++ firstn j (wire s1), (if offset s2 =? clen s2 then REOF else RNil), s2)
      end.

(* a handler: a list of (buffer size, availability) reads, stopping at the first error / EOF *)
Fixpoint run_reads (prog : list (nat * nat)) (s : bstream) : bs * bool (* saw EOF *) * bstream :=
  match prog with
  | [] => ([], false, s)
  | (k, a) :: rest =>
      match k with
      | O => run_reads rest s
      | _ => let '(b, e, s1) := bs_read k a s in
             match e with
             | RNil => let '(b2, eof, s2) := run_reads rest s1 in (b ++ b2, eof, s2)
             | REOF => (b, true, s1)
             | RErr => (b, false, s1)
             end
      end
  end.

(* skipRest for the fixed-length case: bytes of the wire discarded after the handler returned *)
Definition skip_rest (s : bstream) : bstream :=
  if (clen s <=? length (pre s)) || (offset s =? clen s) then s
  else
    let need := if length (pre s) <? offset s then clen s - offset s else clen s - length (pre s) in
    {| offset := offset s; clen := clen s; pre := pre s; wire := skipn need (wire s) |}.

(* the body as the sender meant it *)
Definition body_of (s : bstream) : bs := pre s ++ firstn (clen s - length (pre s)) (wire s).

Definition show_rerror (e : rerror) : bs := match e with RNil => B "" | REOF => B "<EOF>" | RErr => B "<ERR>" end.
