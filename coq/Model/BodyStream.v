(* C14: ext.bodyStream for a fixed-length (Content-Length) streamed request body:
   Read, skipRest / ReleaseBodyStream.  `pre` are the bytes ReadBodyWithStreaming prefetched
   (at most maxContentLengthInStream), `wire` is everything that follows them on the connection:
   the rest of the body and then the next requests.  Definitions only. *)
From Coq Require Import String.
From Coq Require Import List Strings.Byte NArith ZArith Bool Arith.
Require Import Bytes Show Tables.
Import ListNotations.

Record bstream := { offset : nat; clen : nat; pre : bs; wire : bs }.

Inductive rerror := RNil | REOF | RErr.   (* nil, io.EOF, any other error *)

(* one Read(p) with len(p) = k > 0; `avail` = how many bytes the connection would hand out at
   most right now (>= 1; a connection read returns what is there, not necessarily all of m) *)
Definition bs_read (k avail : nat) (s : bstream) : bs * rerror * bstream :=
  if offset s =? clen s then ([], REOF, s)
  else
    let n := if offset s <? length (pre s) then Nat.min k (length (pre s) - offset s) else 0 in
    let fromPre := firstn n (skipn (offset s) (pre s)) in
    let s1 := {| offset := offset s + n; clen := clen s; pre := pre s; wire := wire s |} in
    if (0 <? n) && (offset s1 =? clen s1) then (fromPre, REOF, s1)
    else if (0 <? n) && (k =? n) then (fromPre, RNil, s1)
    else
      let m := Nat.min (k - n) (clen s1 - offset s1) in          (* the fixed bound: p[n : n+m] *)
      match wire s1 with
      | [] => (fromPre, RErr, {| offset := clen s1; clen := clen s1; pre := pre s1; wire := [] |})   (* unexpected EOF *)
      | _ =>
          let j := Nat.min m (Nat.max 1 avail) in
          let j := Nat.min j (length (wire s1)) in
          let s2 := {| offset := offset s1 + j; clen := clen s1; pre := pre s1; wire := skipn j (wire s1) |} in
          (fromPre ++ firstn j (wire s1), (if offset s2 =? clen s2 then REOF else RNil), s2)
      end.

(* a handler: a list of (buffer size, availability) reads, stopping at the first error / EOF *)
Fixpoint run_reads (prog : list (nat * nat)) (s : bstream) : bs * bool (* saw EOF *) * bstream :=
  match prog with
  | [] => ([], false, s)
  | (k, a) :: rest =>
      match k with
      | O => run_reads rest s
      | _ => let '(b, e, s1) := bs_read k a s in
             match e with
             | RNil => let '(b2, eof, s2) := run_reads rest s1 in (b ++ b2, eof, s2)
             | REOF => (b, true, s1)
             | RErr => (b, false, s1)
             end
      end
  end.

(* skipRest for the fixed-length case: bytes of the wire discarded after the handler returned *)
Definition skip_rest (s : bstream) : bstream :=
  if (clen s <=? length (pre s)) || (offset s =? clen s) then s
  else
    let need := if length (pre s) <? offset s then clen s - offset s else clen s - length (pre s) in
    {| offset := offset s; clen := clen s; pre := pre s; wire := skipn need (wire s) |}.

(* the body as the sender meant it *)
Definition body_of (s : bstream) : bs := pre s ++ firstn (clen s - length (pre s)) (wire s).

Definition show_rerror (e : rerror) : bs := match e with RNil => B "" | REOF => B "<EOF>" | RErr => B "<ERR>" end.

(* ---------- chunked streams (contentLength = -1): Read and skipRest over the chunk framing ---------- *)
Require Import Res Chunk.

Record cstream := { cleft : N; ceof : bool; cwire : bs }.

(* the trailer section after the last chunk: field lines up to the empty line *)
Fixpoint skip_trailer (fuel : nat) (s : bs) : option bs :=
  match fuel with
  | O => None
  | S f =>
      match s with
      | c1 :: c2 :: r => if Byte.eqb c1 CR && Byte.eqb c2 LF then Some r
                         else match index_byte LF s with
                              | Some i => skip_trailer f (skipn (S i) s)
                              | None => None
                              end
      | _ => None
      end
  end.

Definition take_crlf (s : bs) : option bs :=
  match s with c1 :: c2 :: r => if Byte.eqb c1 CR && Byte.eqb c2 LF then Some r else None | _ => None end.

(* one Read(p) with len(p) = k > 0, everything it needs already on the wire or missing for good *)
Definition cs_read (k : nat) (s : cstream) : bs * rerror * cstream :=
  if ceof s then ([], REOF, s)
  else
    let start : option (N * bs) :=
      if N.eqb (cleft s) 0 then parse_chunk_size (cwire s) else Some (cleft s, cwire s) in
    match start with
    | None => ([], RErr, s)
    | Some (n, w) =>
        if N.eqb n 0 then
          match skip_trailer (S (length w)) w with
          | Some rest => ([], REOF, {| cleft := 0; ceof := true; cwire := rest |})
          | None => ([], RErr, {| cleft := 0; ceof := false; cwire := w |})
          end
        else
          let want := if N.ltb (N.of_nat k) n then k else N.to_nat n in
          let got := firstn want w in
          let w' := skipn want w in
          let left' := (n - N.of_nat (length got))%N in
          if Nat.ltb (length got) want then (got, RErr, {| cleft := left'; ceof := false; cwire := w' |})
          else if N.eqb left' 0 then
            match take_crlf w' with
            | Some w'' => (got, RNil, {| cleft := 0; ceof := false; cwire := w'' |})
            | None => (got, RErr, {| cleft := 0; ceof := false; cwire := w' |})
            end
          else (got, RNil, {| cleft := left'; ceof := false; cwire := w' |})
    end.

Fixpoint crun_reads (prog : list nat) (s : cstream) : bs * bool * cstream :=
  match prog with
  | [] => ([], false, s)
  | k :: rest =>
      match k with
      | O => crun_reads rest s
      | _ => let '(b, e, s1) := cs_read k s in
             match e with
             | RNil => let '(b2, eof, s2) := crun_reads rest s1 in (b ++ b2, eof, s2)
             | REOF => (b, true, s1)
             | RErr => (b, false, s1)
             end
      end
  end.

(* skipRest for a chunked stream: the rest of the current chunk, then whole chunks, then the trailer *)
Fixpoint cskip_rest (fuel : nat) (s : cstream) : option cstream :=
  match fuel with
  | O => None
  | S f =>
      if ceof s then Some s
      else
        let start : option (N * bs) :=
          if N.eqb (cleft s) 0 then parse_chunk_size (cwire s) else Some (cleft s, cwire s) in
        match start with
        | None => None
        | Some (n, w) =>
            if N.eqb n 0 then
              match skip_trailer (S (length w)) w with
              | Some rest => Some {| cleft := 0; ceof := true; cwire := rest |}
              | None => None
              end
            else if N.ltb (N.of_nat (length w)) n then None
            else match take_crlf (skipn (N.to_nat n) w) with
                 | Some w' => cskip_rest f {| cleft := 0; ceof := false; cwire := w' |}
                 | None => None
                 end
        end
  end.

Definition cfresh (w : bs) : cstream := {| cleft := 0; ceof := false; cwire := w |}.

(* ---------- rendering for the correspondence check: ReadFull-style steps ---------- *)
Fixpoint parse_steps (s : bs) (cur : bs) : list nat :=
  match s with
  | [] => match cur with [] => [] | _ => [parse_nat (rev cur)] end
  | c :: r => if Byte.eqb c ","%byte then parse_nat (rev cur) :: parse_steps r [] else parse_steps r (c :: cur)
  end.

(* a step asks for k bytes and keeps reading until it has them or the stream ends (io.ReadFull) *)
Fixpoint fixed_steps (steps : list nat) (s : bstream) : list bs * bstream :=
  match steps with
  | [] => ([], s)
  | k :: r =>
      let '(b, e, s1) := bs_read k (S (length (wire s))) s in
      let line := hex_of b ++ show_rerror e in
      match e with
      | RErr => ([line], s1)
      | _ => let '(ls, s2) := fixed_steps r s1 in (line :: ls, s2)
      end
  end.

Fixpoint chunked_full (fuel k : nat) (s : cstream) : bs * rerror * cstream :=
  match fuel with
  | O => ([], RErr, s)
  | S f =>
      match k with
      | O => ([], RNil, s)
      | _ => let '(b, e, s1) := cs_read k s in
             match e with
             | RNil => let '(b2, e2, s2) := chunked_full f (k - length b) s1 in (b ++ b2, e2, s2)
             | _ => (b, e, s1)
             end
      end
  end.

Fixpoint chunked_steps (steps : list nat) (s : cstream) : list bs * cstream :=
  match steps with
  | [] => ([], s)
  | k :: r =>
      let '(b, e, s1) := chunked_full (S k) k s in
      let line := hex_of b ++ show_rerror e in
      match e with
      | RErr => ([line], s1)
      | _ => let '(ls, s2) := chunked_steps r s1 in (line :: ls, s2)
      end
  end.

(* stream_script "fixed" n prelen wire steps | "chunked" wire steps : one line per step, then what skipRest
   leaves on the connection (first 24 bytes, hex) or "!" when it fails *)
Definition stream_script (a : list bs) : bs :=
  let mode := nth 0 a [] in
  if bs_eqb mode (B "fixed") then
    let n := parse_nat (nth 1 a []) in
    let pl := parse_nat (nth 2 a []) in
    let w := nth 3 a [] in
    let '(ls, s) := fixed_steps (parse_steps (nth 4 a []) []) {| offset := 0; clen := n; pre := firstn pl w; wire := skipn pl w |} in
    join (B ";") ls ++ B " | " ++ hex_of (firstn 24 (wire (skip_rest s)))
  else
    let w := nth 1 a [] in
    let '(ls, s) := chunked_steps (parse_steps (nth 2 a []) []) (cfresh w) in
    join (B ";") ls ++ B " | " ++
    match cskip_rest (S (length w)) s with Some s' => hex_of (firstn 24 (cwire s')) | None => B "!" end.
