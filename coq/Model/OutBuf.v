(* C13, writer side: the output link buffer of standard.Conn as it is built (connection.go: Malloc,
   WriteBinary, Flush; buffer.go).  `onodes` runs from outputBuffer.head to outputBuffer.write (the last
   element); `oleft` is outputBuffer.len, the room left in the write node; `sent` is what the peer has received.
   Malloc(n) hands out a region the caller fills before the next Flush: the operation carries the bytes.
   Definitions only; the unit c13.outbuf compares the node structure and the received bytes after every
   operation. *)
From Coq Require Import String.
From Coq Require Import List Strings.Byte NArith Bool Arith.
Require Import Bytes Show Rd LinkBuf.
Import ListNotations.

Record ob := { onodes : list node; oleft : nat; sent : bs }.

Definition block8k : nat := N.to_nat 8192.

Definition ob_init : ob := {| onodes := [new_node 0]; oleft := 0; sent := [] |}.

Definition ob_malloc (b : bs) (s : ob) : ob :=
  let n := length b in
  if n =? 0 then s
  else if n <? oleft s then {| onodes := upd_last (add_data b) (onodes s); oleft := oleft s - n; sent := sent s |}
  else
    let size := if n <? block4k then block4k else n in
    {| onodes := onodes s ++ [{| ncap := cap_of size; ndata := b; noff := 0; nro := false |}];
       oleft := cap_of size - n; sent := sent s |}.

(* WriteBinary(b): small writes are copied, large ones become a read-only node around the caller's slice
   (whose capacity is its length in the harness) *)
Definition ob_write (b : bs) (s : ob) : ob :=
  if length b <? block4k then ob_malloc b s
  else {| onodes := onodes s ++ [{| ncap := length b; ndata := b; noff := 0; nro := true |}]; oleft := 0; sent := sent s |}.

Definition recyclable (n : node) : bool := (ncap n <=? block8k) && negb (nro n).
Definition flushed (n : node) : node := {| ncap := ncap n; ndata := ndata n; noff := length (ndata n); nro := nro n |}.

Definition ob_flush (s : ob) : ob :=
  match onodes s with
  | [] => s
  | h :: r =>
      if (match r with [] => true | _ => false end) && (nlen h =? 0) then s
      else
        let ns := if nlen h =? 0 then r else h :: r in
        let w := last ns dummy in
        {| onodes := [if recyclable w then reset_node w else flushed w];
           oleft := if recyclable w then ncap w else oleft s;
           sent := sent s ++ concat (map navail ns) |}
  end.

Inductive wop := WMalloc (b : bs) | WWrite (b : bs) | WFlush.
Definition wstep (o : wop) (s : ob) : ob :=
  match o with WMalloc b => ob_malloc b s | WWrite b => ob_write b s | WFlush => ob_flush s end.
Fixpoint wrun (ops : list wop) (s : ob) : ob := match ops with [] => s | o :: r => wrun r (wstep o s) end.

(* ---- script: ops "M12,W5000,F"; payload bytes are the harness' pattern, passed as one argument and cut up in order ---- *)
Definition odump (s : ob) : bs :=
  B "left=" ++ show_nat (oleft s) ++ B " sent=" ++ show_nat (length (sent s)) ++ B " " ++ join (B ",") (map show_node (onodes s)).

Fixpoint run_wops (ops : list bs) (payload : bs) (s : ob) : list bs :=
  match ops with
  | [] => []
  | o :: rest =>
      match o with
      | c :: r =>
          let n := parse_nat r in
          if Byte.eqb c x4d then let s' := ob_malloc (firstn n payload) s in (B "M@" ++ odump s') :: run_wops rest (skipn n payload) s'
          else if Byte.eqb c x57 then let s' := ob_write (firstn n payload) s in (B "W@" ++ odump s') :: run_wops rest (skipn n payload) s'
          else if Byte.eqb c x46 then let s' := ob_flush s in (B "F" ++ hex_of (skipn (length (sent s)) (sent s')) ++ B "@" ++ odump s') :: run_wops rest payload s'
          else run_wops rest payload s
      | [] => run_wops rest payload s
      end
  end.
Definition ob_script (args : list bs) : bs :=
  match args with
  | ops :: payload :: _ => join (B ";") (run_wops (split_on x2c ops []) payload ob_init)
  | _ => []
  end.
