(* C17: response cookies — pkg/protocol/cookie.go: Cookie.AppendBytes, cookieScanner.next,
   decodeCookieArg, Cookie.ParseBytes.  The Expires date is carried as its text (the conversion between
   time.Time and the HTTP date text is the time package's; the unit c17.cookiemodel feeds valid dates only).
   Definitions only. *)
From Coq Require Import String.
From Coq Require Import List Strings.Byte NArith ZArith Bool Arith.
Require Import Bytes Show Res Tables TrailerKeys Range Chunk.
Import ListNotations.
Local Open Scope nat_scope.

Definition SEMI : byte := x3b. Definition EQ : byte := x3d. Definition SP : byte := x20. Definition DQ : byte := x22.

(* sameSite: 0 disabled, 1 default (bare "SameSite"), 2 lax, 3 strict, 4 none *)
Record cookie := {
  ck_key : bs; ck_value : bs; ck_maxage : Z; ck_expire : bs;
  ck_domain : bs; ck_path : bs; ck_httponly : bool; ck_secure : bool; ck_samesite : nat; ck_partitioned : bool
}.

Definition empty_cookie : cookie :=
  {| ck_key := []; ck_value := []; ck_maxage := 0%Z; ck_expire := []; ck_domain := []; ck_path := [];
     ck_httponly := false; ck_secure := false; ck_samesite := 0; ck_partitioned := false |}.

Definition part (k v : bs) : bs := [SEMI; SP] ++ k ++ [EQ] ++ v.
Definition flag (k : bs) : bs := [SEMI; SP] ++ k.

(* Cookie.AppendBytes *)
Definition cookie_bytes (c : cookie) : bs :=
  (match ck_key c with [] => [] | k => k ++ [EQ] end) ++ ck_value c ++
  (if (0 <? ck_maxage c)%Z then part bytestr_StrCookieMaxAge (show_Z (ck_maxage c))
   else match ck_expire c with [] => [] | e => part bytestr_StrCookieExpires e end) ++
  (match ck_domain c with [] => [] | d => part bytestr_StrCookieDomain d end) ++
  (match ck_path c with [] => [] | p => part bytestr_StrCookiePath p end) ++
  (if ck_httponly c then flag bytestr_StrCookieHTTPOnly else []) ++
  (if ck_secure c then flag bytestr_StrCookieSecure else []) ++
  (match ck_samesite c with
   | 1 => flag bytestr_StrCookieSameSite
   | 2 => part bytestr_StrCookieSameSite bytestr_StrCookieSameSiteLax
   | 3 => part bytestr_StrCookieSameSite bytestr_StrCookieSameSiteStrict
   | 4 => part bytestr_StrCookieSameSite bytestr_StrCookieSameSiteNone
   | _ => []
   end) ++
  (if ck_partitioned c then flag bytestr_StrCookiePartitioned else []).

(* decodeCookieArg *)
Fixpoint ltrim (s : bs) : bs := match s with c :: r => if Byte.eqb c SP then ltrim r else s | [] => [] end.
Definition rtrim (s : bs) : bs := rev (ltrim (rev s)).
Definition unquote (s : bs) : bs :=
  match s with
  | c :: r => match rev r with
              | d :: m => if Byte.eqb c DQ && Byte.eqb d DQ then rev m else s
              | [] => s
              end
  | [] => []
  end.
Definition decode_cookie_arg (s : bs) (quotes : bool) : bs :=
  let t := rtrim (ltrim s) in if quotes then unquote t else t.

(* cookieScanner.next on a non-empty input: key, value, the rest (None when the input is used up) *)
Definition seg_kv (seg : bs) : bs * bs :=
  match index_byte EQ seg with
  | Some i => (decode_cookie_arg (firstn i seg) false, decode_cookie_arg (skipn (S i) seg) true)
  | None => ([], decode_cookie_arg seg true)
  end.
Definition scan_next (b : bs) : bs * bs * bs :=
  match index_byte SEMI b with
  | Some i => let '(k, v) := seg_kv (firstn i b) in (k, v, skipn (S i) b)
  | None => let '(k, v) := seg_kv b in (k, v, [])
  end.

Definition lower1 (c : byte) : byte := or20 c.

Definition set_maxage (z : Z) (c : cookie) : cookie := {| ck_key := ck_key c; ck_value := ck_value c; ck_maxage := z; ck_expire := ck_expire c; ck_domain := ck_domain c; ck_path := ck_path c; ck_httponly := ck_httponly c; ck_secure := ck_secure c; ck_samesite := ck_samesite c; ck_partitioned := ck_partitioned c |}.
Definition set_expire (e : bs) (c : cookie) : cookie := {| ck_key := ck_key c; ck_value := ck_value c; ck_maxage := ck_maxage c; ck_expire := e; ck_domain := ck_domain c; ck_path := ck_path c; ck_httponly := ck_httponly c; ck_secure := ck_secure c; ck_samesite := ck_samesite c; ck_partitioned := ck_partitioned c |}.
Definition set_domain (d : bs) (c : cookie) : cookie := {| ck_key := ck_key c; ck_value := ck_value c; ck_maxage := ck_maxage c; ck_expire := ck_expire c; ck_domain := d; ck_path := ck_path c; ck_httponly := ck_httponly c; ck_secure := ck_secure c; ck_samesite := ck_samesite c; ck_partitioned := ck_partitioned c |}.
Definition set_path (p : bs) (c : cookie) : cookie := {| ck_key := ck_key c; ck_value := ck_value c; ck_maxage := ck_maxage c; ck_expire := ck_expire c; ck_domain := ck_domain c; ck_path := p; ck_httponly := ck_httponly c; ck_secure := ck_secure c; ck_samesite := ck_samesite c; ck_partitioned := ck_partitioned c |}.
Definition set_httponly (c : cookie) : cookie := {| ck_key := ck_key c; ck_value := ck_value c; ck_maxage := ck_maxage c; ck_expire := ck_expire c; ck_domain := ck_domain c; ck_path := ck_path c; ck_httponly := true; ck_secure := ck_secure c; ck_samesite := ck_samesite c; ck_partitioned := ck_partitioned c |}.
Definition set_secure (c : cookie) : cookie := {| ck_key := ck_key c; ck_value := ck_value c; ck_maxage := ck_maxage c; ck_expire := ck_expire c; ck_domain := ck_domain c; ck_path := ck_path c; ck_httponly := ck_httponly c; ck_secure := true; ck_samesite := ck_samesite c; ck_partitioned := ck_partitioned c |}.
Definition set_samesite (m : nat) (c : cookie) : cookie := {| ck_key := ck_key c; ck_value := ck_value c; ck_maxage := ck_maxage c; ck_expire := ck_expire c; ck_domain := ck_domain c; ck_path := ck_path c; ck_httponly := ck_httponly c; ck_secure := ck_secure c; ck_samesite := m; ck_partitioned := ck_partitioned c |}.
Definition set_partitioned (c : cookie) : cookie := {| ck_key := ck_key c; ck_value := ck_value c; ck_maxage := ck_maxage c; ck_expire := ck_expire c; ck_domain := ck_domain c; ck_path := ck_path c; ck_httponly := ck_httponly c; ck_secure := ck_secure c; ck_samesite := ck_samesite c; ck_partitioned := true |}.

(* one attribute of ParseBytes; None = the error return *)
Definition apply_attr (k v : bs) (c : cookie) : option cookie :=
  match k with
  | k0 :: _ =>
      let f := lower1 k0 in
      if Byte.eqb f x6d then                                  (* m *)
        if ci_compare bytestr_StrCookieMaxAge k then match parse_uint v with Some z => Some (set_maxage z c) | None => None end else Some c
      else if Byte.eqb f x65 then                             (* e *)
        if ci_compare bytestr_StrCookieExpires k then Some (set_expire v c) else Some c
      else if Byte.eqb f x64 then                             (* d *)
        if ci_compare bytestr_StrCookieDomain k then Some (set_domain v c) else Some c
      else if Byte.eqb f x70 then                             (* p *)
        if ci_compare bytestr_StrCookiePath k then Some (set_path v c) else Some c
      else if Byte.eqb f x73 then                             (* s *)
        if ci_compare bytestr_StrCookieSameSite k then
          match v with
          | v0 :: _ =>
              let g := lower1 v0 in
              if Byte.eqb g x6c then (if ci_compare bytestr_StrCookieSameSiteLax v then Some (set_samesite 2 c) else Some c)
              else if Byte.eqb g x73 then (if ci_compare bytestr_StrCookieSameSiteStrict v then Some (set_samesite 3 c) else Some c)
              else if Byte.eqb g x6e then (if ci_compare bytestr_StrCookieSameSiteNone v then Some (set_samesite 4 c) else Some c)
              else Some c
          | [] => Some c
          end
        else Some c
      else Some c
  | [] =>
      match v with
      | v0 :: _ =>
          let g := lower1 v0 in
          if Byte.eqb g x68 then (if ci_compare bytestr_StrCookieHTTPOnly v then Some (set_httponly c) else Some c)
          else if Byte.eqb g x73 then
            (if ci_compare bytestr_StrCookieSecure v then Some (set_secure c)
             else if ci_compare bytestr_StrCookieSameSite v then Some (set_samesite 1 c) else Some c)
          else if Byte.eqb g x70 then (if ci_compare bytestr_StrCookiePartitioned v then Some (set_partitioned c) else Some c)
          else Some c
      | [] => Some c
      end
  end.

Fixpoint parse_attrs (fuel : nat) (b : bs) (c : cookie) : option cookie :=
  match fuel with
  | O => Some c
  | S f =>
      match b with
      | [] => Some c
      | _ => let '(k, v, rest) := scan_next b in
             match apply_attr k v c with Some c' => parse_attrs f rest c' | None => None end
      end
  end.

(* Cookie.ParseBytes: None = an error (no cookie, bad max-age) *)
Definition cookie_parse (src : bs) : option cookie :=
  match src with
  | [] => None
  | _ =>
      let '(k, v, rest) := scan_next src in
      parse_attrs (S (length rest)) rest
        {| ck_key := k; ck_value := v; ck_maxage := 0%Z; ck_expire := []; ck_domain := []; ck_path := [];
           ck_httponly := false; ck_secure := false; ck_samesite := 0; ck_partitioned := false |}
  end.

(* ---- rendering for the correspondence check ---- *)
Definition show_cookie (c : cookie) : bs :=
  B "k=" ++ hex_of (ck_key c) ++ B " v=" ++ hex_of (ck_value c) ++ B " ma=" ++ show_Z (ck_maxage c) ++
  B " ex=" ++ hex_of (ck_expire c) ++ B " d=" ++ hex_of (ck_domain c) ++ B " p=" ++ hex_of (ck_path c) ++
  B " h=" ++ show_bool (ck_httponly c) ++ B " s=" ++ show_bool (ck_secure c) ++ B " ss=" ++ show_nat (ck_samesite c) ++
  B " pt=" ++ show_bool (ck_partitioned c).
Definition cookie_parse_script (a : list bs) : bs :=
  match cookie_parse (nth 0 a []) with Some c => B "OK " ++ show_cookie c ++ B " | " ++ hex_of (cookie_bytes c) | None => B "ERR" end.
