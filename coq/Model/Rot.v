(* C20: internal/tagexpr expression trees — the left chain built by parseExprNode, the
   subSortPriority / leftOperandToParent rotation loop, and the precedence-climbing spec.
   Definitions only.  Priorities come from Gen (getPriority's type switch). *)
From Coq Require Import String.
From Coq Require Import List Arith Bool ZArith Strings.Byte.
Require Import Bytes Show Tables.
Import ListNotations.

Inductive tree :=
| Leaf (a : nat)
| Grp (t : tree)                       (* parenthesised group: priority 7, own scope *)
| Node (p : nat) (o : nat) (l r : tree).  (* p = priority of operator o *)

Definition top := 7.
Definition rp (t : tree) : nat := match t with Node p _ _ _ => p | _ => top end.

(* one pass of subSortPriority; returns new subtree and "changed" *)
Fixpoint pass (t : tree) : tree * bool :=
  match t with
  | Leaf a => (Leaf a, false)
  | Grp g => let (g', c) := pass g in (Grp g', c)
  | Node p o l r =>
      let (l', cl) := pass l in
      let (r', cr) := pass r in
      match l' with
      | Node pl ol ll lr =>
          if pl <? p then (Node pl ol ll (Node p o lr r'), true)
          else (Node p o l' r', cl || cr)
      | _ => (Node p o l' r', cl || cr)
      end
  end.

Fixpoint iter (fuel : nat) (t : tree) : option tree :=
  match fuel with
  | O => None
  | S f => let (t', c) := pass t in if c then iter f t' else Some t'
  end.


(* ---- the spec: precedence climbing with left associativity, as right-spine insertion ---- *)
Fixpoint insert (t : tree) (p o : nat) (x : tree) : tree :=
  match t with
  | Node p' o' l r => if p' <? p then Node p' o' l (insert r p o x) else Node p o t x
  | _ => Node p o t x
  end.
Fixpoint spec (t : tree) : tree :=
  match t with
  | Leaf a => Leaf a
  | Grp g => Grp (spec g)
  | Node p o l r => insert (spec l) p o (spec r)
  end.

(* ---- parseExprNode on a token string (for the correspondence check) ----
   operands: one byte (digit); operators: one byte code; '(' ')' groups *)
Definition op_table : list (byte * (bs * bs)) := [
  (x2a, (B "*", B "multiplicationExprNode")); (x2f, (B "/", B "divisionExprNode"));
  (x25, (B "%", B "remainderExprNode")); (x2b, (B "+", B "additionExprNode"));
  (x2d, (B "-", B "subtractionExprNode")); (x3c, (B "<", B "lessExprNode"));
  (x4c, (B "<=", B "lessEqualExprNode")); (x3e, (B ">", B "greaterExprNode"));
  (x47, (B ">=", B "greaterEqualExprNode")); (x45, (B "==", B "equalExprNode"));
  (x4e, (B "!=", B "notEqualExprNode")); (x26, (B "&&", B "andExprNode"));
  (x7c, (B "||", B "orExprNode")) ].
Fixpoint assoc_byte {A} (c : byte) (l : list (byte * A)) : option A :=
  match l with [] => None | (k, v) :: r => if Byte.eqb c k then Some v else assoc_byte c r end.
Fixpoint assoc_bs {A} (k : bs) (l : list (bs * A)) : option A :=
  match l with [] => None | (k', v) :: r => if bs_eqb k k' then Some v else assoc_bs k r end.
Definition prio_of_type (ty : bs) : nat :=
  Z.to_nat (match assoc_bs ty tagexpr_priority with Some p => p | None => tagexpr_priority_default end).
Definition prio_of_op (c : byte) : option nat :=
  match assoc_byte c op_table with Some (_, ty) => Some (prio_of_type ty) | None => None end.

(* readGroupExprNode / parseOperand: one operand, `rec` parses the inside of a group *)
Definition operand_with (rec : bs -> option (tree * bs)) (s : bs) : option (tree * bs) :=
  match s with
  | c :: r => if Byte.eqb c x28 then
                match rec r with
                | Some (g, c2 :: r2) => if Byte.eqb c2 x29 then Some (Grp g, r2) else None
                | _ => None
                end
              else if Byte.eqb c x29 then None
              else match prio_of_op c with Some _ => None | None => Some (Leaf (N.to_nat (Byte.to_N c)), r) end
  | [] => None
  end.
(* the tail recursion of parseExprNode: operator, operand, new root = operator over the old root *)
Fixpoint ops_loop (opnd : bs -> option (tree * bs)) (k : nat) (acc : tree) (s : bs) : option (tree * bs) :=
  match k with
  | O => None
  | S k' =>
      match s with
      | c :: r =>
          match prio_of_op c with
          | Some p => match opnd r with
                      | Some (x, r') => ops_loop opnd k' (Node p (N.to_nat (Byte.to_N c)) acc x) r'
                      | None => None
                      end
          | None => Some (acc, s)
          end
      | [] => Some (acc, [])
      end
  end.
Fixpoint parse_chain (fuel : nat) (s : bs) : option (tree * bs) :=
  match fuel with
  | O => None
  | S f =>
      match operand_with (parse_chain f) s with
      | Some (a, r) => ops_loop (operand_with (parse_chain f)) (S (length r)) a r
      | None => None
      end
  end.

Fixpoint render_tree (t : tree) : bs :=
  match t with
  | Leaf a => [b_of (N.of_nat a)]
  | Grp g => B "G(" ++ render_tree g ++ B ")"
  | Node _ o l r =>
      B "(" ++ render_tree l ++ B " " ++
      (match assoc_byte (b_of (N.of_nat o)) op_table with Some (sym, _) => sym | None => B "?" end)
      ++ B " " ++ render_tree r ++ B ")"
  end.

Fixpoint cnt_lt (q : nat) (t : tree) : nat :=   (* operators in t with priority < q *)
  match t with
  | Node p _ l r => (if p <? q then 1 else 0) + cnt_lt q l + cnt_lt q r
  | _ => 0
  end.
Fixpoint inv (t : tree) : nat :=
  match t with
  | Leaf _ => 0
  | Grp g => inv g
  | Node p _ l r => cnt_lt p l + inv l + inv r
  end.

(* what the real parser + sorter yields, and what the spec yields, for a token string *)
Definition sort_shape (s : bs) : bs :=
  match parse_chain (S (length s)) s with
  | Some (t, []) => match iter (S (inv t)) t with
                    | Some t' => B "G(" ++ render_tree t' ++ B ")"
                    | None => B "!FUEL"
                    end
  | _ => B "!SYNTAX"
  end.
Definition spec_shape (s : bs) : bs :=
  match parse_chain (S (length s)) s with
  | Some (t, []) => B "G(" ++ render_tree (spec t) ++ B ")"
  | _ => B "!SYNTAX"
  end.
