(* C04: framing decisions of the response writer: which statuses carry no body
   (ResponseHeader.MustSkipContentLength) and what the hijacked chunked body writer emits
   (resp.chunkedBodyWriter: Write per chunk, empty writes emit nothing, Finalize writes the last
   chunk).  Definitions only. *)
From Coq Require Import String.
From Coq Require Import List Strings.Byte NArith ZArith Bool Arith.
Require Import Bytes Show Tables Codec Chunk.
Import ListNotations.
Open Scope Z_scope.

(* header.go: fast path, then slow path *)
Definition must_skip_content_length (status : Z) : bool :=
  if (status <? 100) || (status =? status_StatusOK) then false
  else (status =? status_StatusNotModified) || (status =? status_StatusNoContent) || (status <? 200).

(* chunkedBodyWriter: the body bytes after the header block, for a sequence of Write calls *)
Definition chunk_of_write (p : bs) : bs := match p with [] => [] | _ => enchunk1 p end.
Definition chunked_writer_body (writes : list bs) : bs := flat_map chunk_of_write writes ++ last_chunk.
