(* C17: URI.Parse(nil, uri) and URI.FullURI for a URI whose query is a raw string (pkg/protocol/uri.go: parse,
   splitHostURI, getScheme, normalizePath; AppendBytes, RequestURI, appendSchemeHost).  The values are those the
   getters answer (Scheme() says "http" and Path() says "/" for an empty field).  Definitions only. *)
From Coq Require Import String.
From Coq Require Import List Strings.Byte NArith Bool Arith.
Require Import Bytes Show Res Tables TrailerKeys Codec Norm UriSplit Chunk.
Import ListNotations.
Local Open Scope nat_scope.

Record uri := { u_scheme : bs; u_host : bs; u_user : bs; u_pass : bs; u_path : bs; u_query : bs; u_hash : bs }.

Definition AT : byte := x40. Definition QM : byte := x3f. Definition HASH : byte := x23.
Definition lower (s : bs) : bs := map to_lower s.
Definition is_ctl (b : byte) : bool := N.ltb (n_of b) 32 || N.eqb (n_of b) 127.
Definition has_ctl (s : bs) : bool := existsb is_ctl s.

Definition scheme_or_http (s : bs) : bs := match s with [] => bytestr_StrHTTP | _ => s end.
Definition path_or_slash (s : bs) : bs := match s with [] => bytestr_StrSlash | _ => s end.

(* the URI after Reset() *)
Definition reset_uri : uri :=
  {| u_scheme := bytestr_StrHTTP; u_host := []; u_user := []; u_pass := []; u_path := bytestr_StrSlash; u_query := []; u_hash := [] |}.

(* URI.Parse(nil, s); Panic cannot come out of split_host_uri (C03), an exhausted normalizePath fuel shows as Err *)
Definition uri_parse (s : bs) : res uri :=
  if has_ctl s then Ok reset_uri else
  r <- split_host_uri [] s ;;
  let '(scheme, host0, rest) := r in
  let '(user, pass, host1) :=
    match index_byte AT host0 with
    | Some n =>
        let auth := firstn n host0 in
        (match index_byte cColon auth with
         | Some k => (firstn k auth, skipn (S k) auth)
         | None => (auth, [])
         end, skipn (S n) host0)
    | None => (([], []), host0)
    end in
  let qi := index_byte QM rest in
  let fi := index_byte HASH rest in
  let qi := match qi, fi with Some a, Some b => if Nat.ltb b a then None else Some a | _, _ => qi end in
  let '(porig, query, hash) :=
    match qi, fi with
    | None, None => (rest, [], [])
    | Some a, None => (firstn a rest, skipn (S a) rest, [])
    | Some a, Some b => (firstn a rest, firstn (b - S a) (skipn (S a) rest), skipn (S b) rest)
    | None, Some b => (firstn b rest, [], skipn (S b) rest)
    end in
  match normalize_path porig with
  | None => Err
  | Some p =>
      Ok {| u_scheme := scheme_or_http (lower scheme); u_host := lower host1; u_user := user; u_pass := pass;
            u_path := path_or_slash p; u_query := query; u_hash := hash |}
  end.

(* URI.FullURI() when the query is the raw string *)
Definition qpart (q : bs) : bs := match q with [] => [] | _ => QM :: q end.
Definition hpart (h : bs) : bs := match h with [] => [] | _ => HASH :: h end.
Definition uri_full (u : uri) : bs :=
  u_scheme u ++ bytestr_StrColonSlashSlash ++ u_host u ++ quote_path (u_path u) ++ qpart (u_query u) ++ hpart (u_hash u).

Definition show_uri (u : uri) : bs :=
  B "s=" ++ hex_of (u_scheme u) ++ B " h=" ++ hex_of (u_host u) ++ B " u=" ++ hex_of (u_user u) ++ B " pw=" ++ hex_of (u_pass u) ++
  B " p=" ++ hex_of (u_path u) ++ B " q=" ++ hex_of (u_query u) ++ B " f=" ++ hex_of (u_hash u).
Definition uri_parse_script (a : list bs) : bs :=
  match uri_parse (nth 0 a []) with
  | Ok u => B "OK " ++ show_uri u ++ B " | " ++ hex_of (uri_full u)
  | Err => B "ERR"
  | Panic => B "PANIC"
  end.
