(* C19 (shared with C01/C03/C09/C14 later): the control skeleton of http1.Server.Serve
   (pkg/protocol/http1/server.go) with tracing enabled — the DoStart/DoFinish calls, the
   eventStack pushes/pops and the traceStarted flag, transcribed statement by statement over a
   script of per-request outcomes.  Definitions only. *)
From Coq Require Import String.
From Coq Require Import List Strings.Byte NArith Bool Arith.
Require Import Bytes Show.
Import ListNotations.

(* what happens to request i *)
Inductive outcome :=
| OKeep        (* handled, response written, connection kept alive (incl. a recovered panic and a handler that exiles its context: Serve finishes the trace, then goes on with another context) *)
| OClose       (* handled, response carries Connection: close *)
| OMalformed   (* ReadHeader fails *)
| OBodyErr     (* header read, body read fails (too large / peer closed mid-body) *)
| OWriteErr    (* handled, writing the response fails *)
| OHijack.     (* handled, connection hijacked *)

Inductive stage := HS | RHS | RHF | RBS | RBF | SHS | SHF | WS | WF | HF.

Inductive ev :=
| TStart
| Handled (i : nat)
| TFinish (req : option nat) (stages : list stage) (err : bool).
  (* req = the request whose data the finish carries; err = the trace info holds an error (Stats().Error() != nil) *)

Record st := {
  started : bool;          (* traceStarted *)
  stack : list stage;      (* eventsToTrigger: finish events still to record *)
  rec : list stage;        (* events recorded in the trace info since the last reset, oldest first *)
  cur : option nat;        (* request currently held by ctx.Request (None after a reset) *)
  serr : bool;             (* the stats object of the trace info holds an error (SetError since the last Reset) *)
  out : list ev            (* tracer calls and handler runs, oldest first *)
}.

Definition record (s : st) (e : stage) : st :=
  {| started := started s; stack := stack s; rec := rec s ++ [e]; cur := cur s; serr := serr s; out := out s |}.
Definition push (s : st) (e : stage) : st :=
  {| started := started s; stack := e :: stack s; rec := rec s; cur := cur s; serr := serr s; out := out s |}.
(* `if last := eventsToTrigger.pop(); last != nil { last(...) }` *)
Definition pop (s : st) : st :=
  match stack s with
  | [] => s
  | e :: r => {| started := started s; stack := r; rec := rec s ++ [e]; cur := cur s; serr := serr s; out := out s |}
  end.
Definition emit (s : st) (e : ev) : st :=
  {| started := started s; stack := stack s; rec := rec s; cur := cur s; serr := serr s; out := out s ++ [e] |}.
Definition do_start (s : st) : st :=
  let s := record s HS in
  {| started := true; stack := stack s; rec := rec s; cur := cur s; serr := serr s; out := out s ++ [TStart] |}.
(* Controller.DoFinish(ctx, c, err): `if err != nil { Stats().SetError(err) }`, HTTPFinish recorded, tracers' Finish called.
   e = Serve passes a non-nil error (shouldRecordInTraceError) *)
Definition do_finish (s : st) (e : bool) : st :=
  let s := record s HF in
  let s := {| started := started s; stack := stack s; rec := rec s; cur := cur s; serr := serr s || e; out := out s |} in
  emit s (TFinish (cur s) (rec s) (serr s)).
Definition set_cur (s : st) (c : option nat) : st :=
  {| started := started s; stack := stack s; rec := rec s; cur := c; serr := serr s; out := out s |}.
(* ctx.ResetWithoutConn(): request and trace info are reset *)
Definition reset_ctx (s : st) : st :=
  {| started := started s; stack := stack s; rec := []; cur := None; serr := false; out := out s |}.

(* the deferred epilogue *)
Fixpoint pop_all (fuel : nat) (s : st) : st :=
  match fuel with
  | O => s
  | S f => match stack s with [] => s | _ => pop_all f (pop s) end
  end.
(* e: Serve returns an error that shouldRecordInTraceError lets through (not nil, idle timeout, hijacked, short connection) *)
Definition epilogue (s : st) (e : bool) : st :=
  let s := pop_all (S (length (stack s))) s in
  if started s then do_finish s e else s.

Inductive step_result := Continue (s : st) | Return (s : st) (e : bool).

(* one loop iteration on request number i with the given outcome *)
Definition iteration (i : nat) (o : outcome) (s : st) : step_result :=
  let s := do_start s in
  let s := push (record s RHS) RHF in
  match o with
  | OMalformed =>
      (* ReadHeader failed: the `err == nil` block is skipped; "read body finished" pops *)
      Return (pop s) true
  | _ =>
      let s := set_cur s (Some i) in
      let s := push (record (pop s) RBS) RBF in
      match o with
      | OBodyErr => Return (pop s) true
      | _ =>
          let s := pop s in
          let s := push (record s SHS) SHF in
          let s := emit s (Handled i) in
          let s := pop s in
          let s := push (record s WS) WF in
          match o with
          | OWriteErr => Return s true              (* writeResponse / Flush failed *)
          | _ =>
              let s := pop s in
              match o with
              | OHijack | OClose => Return s false    (* errHijacked / errShortConnection are not recorded *)
              | _ =>
                  let s := do_finish s false in
                  let s := {| started := false; stack := stack s; rec := rec s; cur := cur s; serr := serr s; out := out s |} in
                  Continue (reset_ctx s)
              end
          end
      end
  end.

Definition init : st := {| started := false; stack := []; rec := []; cur := None; serr := false; out := [] |}.

(* the whole connection: requests 1..n, then the peer closes (tmo = false) or the read times out (tmo = true) *)
Fixpoint serve_from (tmo : bool) (i : nat) (script : list outcome) (s : st) : st :=
  match script with
  | [] =>
      if i =? 1 then
        (* first iteration, nothing arrives: DoStart, ReadHeader fails.  EOF before the first byte is ErrNothingRead
           (Serve returns nil); a read timeout is an error like any other (answered and recorded) *)
        let s := do_start s in
        let s := push (record s RHS) RHF in
        epilogue (pop s) tmo
      else epilogue s false                                  (* idle Peek(4) fails before DoStart: errIdleTimeout *)
  | o :: rest =>
      match iteration i o s with
      | Return s' e => epilogue s' e
      | Continue s' => serve_from tmo (S i) rest s'
      end
  end.
Definition serve (tmo : bool) (script : list outcome) : list ev := out (serve_from tmo 1 script init).

(* ---- rendering / parsing for the correspondence check ---- *)
Definition show_stage (e : stage) : bs :=
  match e with HS => B "hs" | RHS => B "rhs" | RHF => B "rhf" | RBS => B "rbs" | RBF => B "rbf"
             | SHS => B "shs" | SHF => B "shf" | WS => B "ws" | WF => B "wf" | HF => B "hf" end.
Definition show_req (r : option nat) : bs :=
  match r with None => B "/" | Some i => B "/r" ++ show_nat i end.
Definition show_ev (e : ev) : bs :=
  match e with
  | TStart => B "S"
  | Handled i => B "H:/r" ++ show_nat i
  | TFinish r sts e => B "F:" ++ show_req r ++ B ":" ++ join (B ",") (map show_stage sts) ++ (if e then B ":err" else B ":-")
  end.
Fixpoint parse_script (s : bs) : list outcome :=
  match s with
  | [] => []
  | c :: r =>
      (if Byte.eqb c x6b (*k*) || Byte.eqb c x70 (*p*) || Byte.eqb c x78 (*x: the handler exiles its context*) then [OKeep]
       else if Byte.eqb c x63 (*c*) then [OClose]
       else if Byte.eqb c x6d (*m*) then [OMalformed]
       else if Byte.eqb c x62 (*b*) || Byte.eqb c x74 (*t*) then [OBodyErr]
       else if Byte.eqb c x77 (*w*) then [OWriteErr]
       else if Byte.eqb c x68 (*h*) then [OHijack]
       else []) ++ parse_script r
  end.
(* outcomes after the first one that ends the connection are never reached *)
Definition serve_trace (s : bs) : bs := join (B " ") (map show_ev (serve (existsb (Byte.eqb x54) s) (parse_script s))).
