(* C18: graceful shutdown as a transition system over atomic steps.
   pkg/route/engine.go: Engine.status (initialized -> running -> shutdown -> closed), Shutdown
   (status load, compare-and-swap, hooks, transport shutdown, deferred wait for the hooks),
   pkg/network/standard/transport.go: accept loop, active counter, Shutdown (close the listener,
   poll the counter until it is zero or the context ends), pkg/protocol/http1/server.go: the exit
   check that forces Connection: close once the engine is not running. *)
From Coq Require Import String.
From Coq Require Import List Strings.Byte NArith Bool Arith.
Require Import Bytes Show Pool.
Import ListNotations.

Inductive stt := StInit | StRunning | StShutdown.
Inductive cst := CIdle | CBusy.          (* waiting for a request / request received, handler running *)
Inductive spc :=
| SLoaded                    (* saw status = running *)
| SWon                       (* swapped the status; hooks started; listener not yet closed *)
| SWait                      (* listener closed; polling the active counter *)
| SDrained                   (* saw active = 0; waiting for the hooks *)
| SDone (ok drained : bool). (* returned: nil / errStatusNotRunning; whether it saw active = 0 *)
Inductive hst := HNone | HRunning | HDone.

Record st := {
  status : stt;
  ln : bool;                        (* listener open *)
  conns : nat -> option cst;
  nc : nat;
  active : nat;                     (* transport.active *)
  callers : nat -> option spc;      (* Shutdown calls *)
  nk : nat;
  hooks : hst;
  resps : list (nat * bool * bool)  (* connection, Connection: close?, engine running at the exit check? *)
}.

Definition init : st :=
  {| status := StInit; ln := false; conns := fun _ => None; nc := 0; active := 0;
     callers := fun _ => None; nk := 0; hooks := HNone; resps := [] |}.

Definition set_status v s := {| status := v; ln := ln s; conns := conns s; nc := nc s; active := active s; callers := callers s; nk := nk s; hooks := hooks s; resps := resps s |}.
Definition set_ln v s := {| status := status s; ln := v; conns := conns s; nc := nc s; active := active s; callers := callers s; nk := nk s; hooks := hooks s; resps := resps s |}.
Definition set_conns v s := {| status := status s; ln := ln s; conns := v; nc := nc s; active := active s; callers := callers s; nk := nk s; hooks := hooks s; resps := resps s |}.
Definition set_nc v s := {| status := status s; ln := ln s; conns := conns s; nc := v; active := active s; callers := callers s; nk := nk s; hooks := hooks s; resps := resps s |}.
Definition set_active v s := {| status := status s; ln := ln s; conns := conns s; nc := nc s; active := v; callers := callers s; nk := nk s; hooks := hooks s; resps := resps s |}.
Definition set_callers v s := {| status := status s; ln := ln s; conns := conns s; nc := nc s; active := active s; callers := v; nk := nk s; hooks := hooks s; resps := resps s |}.
Definition set_nk v s := {| status := status s; ln := ln s; conns := conns s; nc := nc s; active := active s; callers := callers s; nk := v; hooks := hooks s; resps := resps s |}.
Definition set_hooks v s := {| status := status s; ln := ln s; conns := conns s; nc := nc s; active := active s; callers := callers s; nk := nk s; hooks := v; resps := resps s |}.
Definition set_resps v s := {| status := status s; ln := ln s; conns := conns s; nc := nc s; active := active s; callers := callers s; nk := nk s; hooks := hooks s; resps := v |}.

Definition set_conn c v s := set_conns (upd (conns s) c v) s.
Definition set_caller k v s := set_callers (upd (callers s) k v) s.

Definition is_running (s : st) : bool := match status s with StRunning => true | _ => false end.

Inductive label :=
| LRun                          (* MarkAsRunning + listen *)
| LAccept                       (* accept loop: active++ *)
| LRequest (c : nat)            (* a complete request arrived on an idle connection *)
| LReturn (c : nat) (keep : bool)   (* the handler returned; the response is written completely *)
| LDrop (c : nat)               (* idle connection ends (peer close, idle timeout): active-- *)
| LSLoad                        (* a Shutdown call loads the status *)
| LSCas (k : nat)               (* its compare-and-swap *)
| LHooksDone
| LSCloseLn (k : nat)           (* transport.Shutdown closes the listener *)
| LSPoll (k : nat)              (* a tick of the poll loop *)
| LSFinish (k : nat)            (* drained and hooks finished: return nil *)
| LSDeadline (k : nat).         (* the exit wait time ends: return (nil as well) *)

Definition step (s : st) (l : label) : option st :=
  match l with
  | LRun => match status s with StInit => Some (set_ln true (set_status StRunning s)) | _ => None end
  | LAccept =>
      if ln s then Some (set_active (S (active s)) (set_nc (S (nc s)) (set_conn (nc s) (Some CIdle) s))) else None
  | LRequest c => match conns s c with Some CIdle => Some (set_conn c (Some CBusy) s) | _ => None end
  | LReturn c keep =>
      match conns s c with
      | Some CBusy =>
          let close := negb keep || negb (is_running s) in
          let s1 := set_resps ((c, close, is_running s) :: resps s) s in
          if close then Some (set_active (active s - 1) (set_conn c None s1)) else Some (set_conn c (Some CIdle) s1)
      | _ => None
      end
  | LDrop c => match conns s c with Some CIdle => Some (set_active (active s - 1) (set_conn c None s)) | _ => None end
  | LSLoad =>
      let k := nk s in
      Some (set_nk (S k) (set_caller k (Some (if is_running s then SLoaded else SDone false false)) s))
  | LSCas k =>
      match callers s k with
      | Some SLoaded =>
          if is_running s then Some (set_hooks HRunning (set_status StShutdown (set_caller k (Some SWon) s)))
          else Some (set_caller k (Some (SDone false false)) s)
      | _ => None
      end
  | LHooksDone => match hooks s with HRunning => Some (set_hooks HDone s) | _ => None end
  | LSCloseLn k => match callers s k with Some SWon => Some (set_ln false (set_caller k (Some SWait) s)) | _ => None end
  | LSPoll k =>
      match callers s k with
      | Some SWait => if Nat.eqb (active s) 0 then Some (set_caller k (Some SDrained) s) else Some s
      | _ => None
      end
  | LSFinish k =>
      match callers s k, hooks s with
      | Some SDrained, HDone => Some (set_caller k (Some (SDone true true)) s)
      | _, _ => None
      end
  | LSDeadline k =>
      match callers s k with
      | Some SWait => Some (set_caller k (Some (SDone true false)) s)
      | Some SDrained => Some (set_caller k (Some (SDone true true)) s)
      | _ => None
      end
  end.

Fixpoint run (s : st) (ls : list label) : option st :=
  match ls with
  | [] => Some s
  | l :: r => match step s l with Some s' => run s' r | None => None end
  end.

(* ---------- deterministic histories for the correspondence check ---------- *)
Definition step_or (s : st) (l : label) : st := match step s l with Some s' => s' | None => s end.

Fixpoint first_caller (p : spc -> bool) (s : st) (n : nat) : option nat :=
  match n with
  | 0 => None
  | S k => match first_caller p s k with
           | Some x => Some x
           | None => match callers s k with Some v => if p v then Some k else None | None => None end
           end
  end.
Definition is_wait (v : spc) := match v with SWait => true | _ => false end.
Definition is_drained (v : spc) := match v with SDrained => true | _ => false end.

(* what happens by itself within a few poll ticks: hooks end, the poll sees zero, the call returns *)
Fixpoint settle (fuel : nat) (s : st) : st :=
  match fuel with
  | 0 => s
  | S f =>
      match hooks s with
      | HRunning => settle f (step_or s LHooksDone)
      | _ =>
          match first_caller is_wait s (nk s) with
          | Some k => if Nat.eqb (active s) 0 then settle f (step_or s (LSPoll k)) else s
          | None => match first_caller is_drained s (nk s) with
                    | Some k => settle f (step_or s (LSFinish k))
                    | None => s
                    end
          end
      end
  end.

Fixpoint split_colon (s : bs) (cur : bs) : list bs :=
  match s with
  | [] => [rev cur]
  | c :: r => if Byte.eqb c ":"%byte then rev cur :: split_colon r [] else split_colon r (c :: cur)
  end.

Definition apply_op (s : st) (op : bs) : st :=
  let f := split_colon op [] in
  let name := nth 0 f [] in
  let arg := parse_nat (nth 1 f []) in
  if bs_eqb name (B "run") then step_or s LRun
  else if bs_eqb name (B "conn") then step_or s LAccept
  else if bs_eqb name (B "req") then step_or s (LRequest arg)
  else if bs_eqb name (B "rel") then settle 20 (step_or s (LReturn arg (bs_eqb (nth 2 f []) (B "1"))))
  else if bs_eqb name (B "drop") then settle 20 (step_or s (LDrop arg))
  else if bs_eqb name (B "shutdown") then
    let k := nk s in
    settle 20 (step_or (step_or (step_or s LSLoad) (LSCas k)) (LSCloseLn k))
  else if bs_eqb name (B "expire") then
    match first_caller is_wait s (nk s) with Some k => step_or s (LSDeadline k) | None => s end
  else s.

Fixpoint show_callers (s : st) (n : nat) : list bs :=
  match n with
  | 0 => []
  | S k => show_callers s k ++
           match callers s k with
           | Some (SDone true true) => [B "nil-drained"]
           | Some (SDone true false) => [B "nil-deadline"]
           | Some (SDone false _) => [B "err"]
           | Some _ => [B "pending"]
           | None => []
           end
  end.
Fixpoint show_resps (l : list (nat * bool * bool)) : list bs :=
  match l with
  | [] => []
  | (c, cl, _) :: r => show_resps r ++ [show_nat c ++ (if cl then B "c" else B "k")]
  end.
Definition show_st (s : st) : bs :=
  B "ln=" ++ show_bool (ln s) ++ B " sd=" ++ join (B ",") (show_callers s (nk s)) ++
  B " resp=" ++ join (B ",") (show_resps (resps s)).

Fixpoint run_ops (s : st) (ops : list bs) : list bs :=
  match ops with
  | [] => []
  | o :: r => let s' := apply_op s o in show_st s' :: run_ops s' r
  end.
Definition shutdown_script (a : list bs) : bs := join (B ";") (run_ops init a).
