(* C15: request binding.  The per-field decoding loop of
   pkg/app/server/binding/internal/decoder/{base,slice}_type_decoder.go, the getters of getter.go /
   slice_getter.go, the text conversions of text_decoder.go (strconv rules for bool / intN / uintN;
   floats are carried as text), the JSON pre-bind of defaultBinder.preBindBody and the per-type
   decoder cache of defaultBinder.bindTag. *)
From Coq Require Import String.
From Coq Require Import List Strings.Byte NArith ZArith Bool Arith.
Require Import Bytes Show.
Import ListNotations.

Inductive src := SPath | SForm | SQuery | SCookie | SHeader | SJson.
Inductive kind := KBool | KInt (bits : N) | KUint (bits : N) | KString | KFloat (bits : N).

Record tag := { t_src : src; t_name : bs; t_req : bool; t_skip : bool }.
Record field := { f_kind : kind; f_slice : bool; f_ptr : bool; f_default : bs; f_tags : list tag }.

(* what the request carries, per source, in wire order *)
Record request := {
  q_path : list (bs * bs); q_form : list (bs * bs); q_query : list (bs * bs);
  q_cookie : list (bs * bs); q_header : list (bs * bs);
  q_json : list (bs * list bs);      (* top-level keys of a JSON body: scalar = one text, array = its elements *)
  q_isjson : bool                    (* Content-Type application/json with a body *)
}.

Fixpoint assoc {V} (k : bs) (l : list (bs * V)) : option V :=
  match l with [] => None | (k', v) :: r => if bs_eqb k k' then Some v else assoc k r end.
Definition all_of (k : bs) (l : list (bs * bs)) : list bs :=
  map snd (filter (fun kv => bs_eqb k (fst kv)) l).

(* getter.go: (text, exist) *)
Definition get1 (s : src) (q : request) (k : bs) : option bs :=
  match s with
  | SPath => assoc k (q_path q)
  | SForm => match assoc k (q_form q) with Some v => Some v | None => assoc k (q_query q) end
  | SQuery => assoc k (q_query q)
  | SCookie => assoc k (q_cookie q)
  | SHeader => assoc k (q_header q)
  | SJson => None
  end.
(* slice_getter.go *)
Definition getn (s : src) (q : request) (k : bs) : list bs :=
  match s with
  | SPath => match assoc k (q_path q) with Some v => match v with [] => [] | _ => [v] end | None => [] end
  | SForm => all_of k (q_form q)
  | SQuery => all_of k (q_query q)
  | SCookie => all_of k (q_cookie q)
  | SHeader => all_of k (q_header q)
  | SJson => []
  end.

Definition json_has (q : request) (k : bs) : bool :=
  q_isjson q && match assoc k (q_json q) with Some _ => true | None => false end.

(* ---------- the decoding loop ---------- *)
Inductive outcome :=
| OErrRequired
| OKeep                      (* leave the field as the JSON pre-bind (or the zero value) left it *)
| OTexts (ts : list bs) (from_default : bool).

Fixpoint split_on (sep : byte) (s : bs) (cur : bs) : list bs :=
  match s with
  | [] => [rev cur]
  | c :: r => if Byte.eqb c sep then rev cur :: split_on sep r [] else split_on sep r (c :: cur)
  end.
Definition fields_of (sep : byte) (s : bs) : list bs := match s with [] => [] | _ => split_on sep s [] end.

Definition RS : byte := x1e.   (* between records *)
Definition US : byte := x1f.   (* between the parts of a record *)
Definition GS : byte := x1d.   (* inside a part *)

(* the texts a declared default stands for: a scalar field takes the text itself; a slice field's default is a
   JSON array, carried here as its elements (the harness writes `default:"[e1,e2]"` for e1 GS e2) *)
Definition default_texts (slice : bool) (dv : bs) : list bs := if slice then split_on GS dv [] else [dv].

(* loop state: err, found texts, defaultValue *)
Fixpoint scan (slice : bool) (q : request) (dflt : bs) (tags : list tag)
              (err : bool) (dv : bs) : bool * option (list bs) * bs :=
  match tags with
  | [] => (err, None, dv)
  | t :: r =>
      match t_src t with
      | SJson =>
          (* JSON is not read here: the value was pre-bound; only `required` and the default are settled.
             A value present in the body satisfies an earlier `required`; an absent one does not. *)
          let has := json_has q (t_name t) in
          let err' := if has then false else if t_req t then true else err in
          let dv' := if negb (match dflt with [] => true | _ => false end) && has then [] else dflt in
          scan slice q dflt r err' dv'
      | s =>
          if t_skip t then scan slice q dflt r err dv
          else
            let found := if slice then (match getn s q (t_name t) with [] => None | l => Some l end)
                         else (match get1 s q (t_name t) with Some v => Some [v] | None => None end) in
            match found with
            | Some l => (false, Some l, dflt)
            | None => scan slice q dflt r (if t_req t then true else err) dflt
            end
      end
  end.

Definition decide (f : field) (q : request) : outcome :=
  let '(err, found, dv) := scan (f_slice f) q (f_default f) (f_tags f) false [] in
  if err then OErrRequired
  else
    let texts := match found with Some l => l | None => [] end in
    let empty := if f_slice f then (match texts with [] => true | _ => false end)
                 else (match texts with [[]] | [] => true | _ => false end) in
    if empty && negb (match dv with [] => true | _ => false end) then OTexts (default_texts (f_slice f) dv) true
    else match found with
         | None => OKeep
         | Some l => if f_slice f then OTexts l false
                     else match l with [[]] => OTexts l false | _ => OTexts l false end
         end.

(* ---------- strconv ---------- *)
Definition is_digit (c : byte) : bool := (N.leb 48 (n_of c)) && (N.leb (n_of c) 57).
Fixpoint digits_val (s : bs) (acc : N) : option N :=
  match s with
  | [] => Some acc
  | c :: r => if is_digit c then digits_val r (acc * 10 + (n_of c - 48))%N else None
  end.
Definition parse_udec (s : bs) : option N := match s with [] => None | _ => digits_val s 0 end.

Definition parse_uint (bits : N) (s : bs) : option Z :=
  match parse_udec s with
  | Some n => if N.ltb n (2 ^ bits) then Some (Z.of_N n) else None
  | None => None
  end.
Definition parse_int (bits : N) (s : bs) : option Z :=
  let '(neg, body) := match s with
                      | c :: r => if Byte.eqb c "-"%byte then (true, r) else if Byte.eqb c "+"%byte then (false, r) else (false, s)
                      | [] => (false, [])
                      end in
  match parse_udec body with
  | Some n => if neg then (if N.leb n (2 ^ (bits - 1)) then Some (- Z.of_N n)%Z else None)
              else (if N.ltb n (2 ^ (bits - 1)) then Some (Z.of_N n) else None)
  | None => None
  end.
Definition parse_bool (s : bs) : option bool :=
  if existsb (bs_eqb s) [B "1"; B "t"; B "T"; B "TRUE"; B "true"; B "True"] then Some true
  else if existsb (bs_eqb s) [B "0"; B "f"; B "F"; B "FALSE"; B "false"; B "False"] then Some false
  else None.

(* floating-point syntax accepted by strconv.ParseFloat; decimal form:
   [+-]? (digits+ ('.' digits* )? | '.' digits+) ([eE] [+-]? digits+)?
   where the digit runs may hold underscores that readFloat skips, provided strconv.underscoreOK holds: every
   underscore stands between two digits ("1_0" is 10, "1_" and "_1" and "1_.5" are refused) *)
Fixpoint skip_digits (s : bs) : nat * bs :=
  match s with
  | c :: r => if is_digit c then let '(n, t) := skip_digits r in (S n, t) else (0, s)
  | [] => (0, [])
  end.
(* strconv.underscoreOK on a text without base prefix; saw: 0 = start / other, 1 = digit, 2 = underscore *)
Fixpoint us_ok_from (saw : nat) (s : bs) : bool :=
  match s with
  | [] => negb (Nat.eqb saw 2)
  | c :: r => if is_digit c then us_ok_from 1 r
              else if Byte.eqb c "_"%byte then Nat.eqb saw 1 && us_ok_from 2 r
              else negb (Nat.eqb saw 2) && us_ok_from 0 r
  end.
Definition float_syntax (s : bs) : bool :=
  let s1 := match s with c :: r => if Byte.eqb c "-"%byte || Byte.eqb c "+"%byte then r else s | [] => [] end in
  let '(n1, s2) := skip_digits s1 in
  let '(n2, s3) := match s2 with
                   | c :: r => if Byte.eqb c "."%byte then skip_digits r else (0, s2)
                   | [] => (0, [])
                   end in
  if Nat.eqb (n1 + n2) 0 then false
  else match s3 with
       | [] => true
       | c :: r =>
           if Byte.eqb c "e"%byte || Byte.eqb c "E"%byte then
             let r1 := match r with d :: r' => if Byte.eqb d "-"%byte || Byte.eqb d "+"%byte then r' else r | [] => [] end in
             let '(n3, r2) := skip_digits r1 in
             negb (Nat.eqb n3 0) && match r2 with [] => true | _ => false end
           else false
       end.
(* hexadecimal form: 0x mantissa (hex digits, optional '.') and a mandatory binary exponent p[+-]digits *)
Definition is_hexd (c : byte) : bool :=
  is_digit c || (N.leb 97 (n_of c) && N.leb (n_of c) 102) || (N.leb 65 (n_of c) && N.leb (n_of c) 70).
Fixpoint skip_hexd (s : bs) : nat * bs :=
  match s with
  | c :: r => if is_hexd c then let '(n, t) := skip_hexd r in (S n, t) else (0, s)
  | [] => (0, [])
  end.
Definition hexfloat_syntax (s : bs) : bool :=   (* s: what follows the sign and "0x" *)
  let '(n1, s2) := skip_hexd s in
  let '(n2, s3) := match s2 with
                   | c :: r => if Byte.eqb c "."%byte then skip_hexd r else (0, s2)
                   | [] => (0, [])
                   end in
  if Nat.eqb (n1 + n2) 0 then false
  else match s3 with
       | c :: r =>
           if Byte.eqb c "p"%byte || Byte.eqb c "P"%byte then
             let r1 := match r with d :: r' => if Byte.eqb d "-"%byte || Byte.eqb d "+"%byte then r' else r | [] => [] end in
             let '(n3, r2) := skip_digits r1 in
             negb (Nat.eqb n3 0) && match r2 with [] => true | _ => false end
           else false
       | [] => false
       end.
(* strconv.underscoreOK after a 0x prefix: hexadecimal digits count as digits, the prefix counts as one *)
Fixpoint us_ok_hex (saw : nat) (s : bs) : bool :=
  match s with
  | [] => negb (Nat.eqb saw 2)
  | c :: r => if is_hexd c then us_ok_hex 1 r
              else if Byte.eqb c "_"%byte then Nat.eqb saw 1 && us_ok_hex 2 r
              else negb (Nat.eqb saw 2) && us_ok_hex 0 r
  end.
Definition no_us (s : bs) : bs := filter (fun c => negb (Byte.eqb c "_"%byte)) s.
Definition lower_ascii (c : byte) : byte :=
  if N.leb 65 (n_of c) && N.leb (n_of c) 90 then match Byte.of_N (n_of c + 32) with Some b => b | None => c end else c.
(* strconv.special: [+-]?inf, [+-]?infinity, nan (no sign), any letter case *)
Definition float_special (s : bs) : bool :=
  let l := map lower_ascii s in
  let unsigned := match l with c :: r => if Byte.eqb c "-"%byte || Byte.eqb c "+"%byte then r else l | [] => [] end in
  bs_eqb unsigned (B "inf") || bs_eqb unsigned (B "infinity") || bs_eqb l (B "nan").
Definition float_ok (s : bs) : bool :=
  let unsigned := match s with c :: r => if Byte.eqb c "-"%byte || Byte.eqb c "+"%byte then r else s | [] => [] end in
  match unsigned with
  | z :: x :: r =>
      if Byte.eqb z "0"%byte && (Byte.eqb x "x"%byte || Byte.eqb x "X"%byte)
      then us_ok_hex 1 r && hexfloat_syntax (no_us r)
      else float_special s || (us_ok_from 0 s && float_syntax (no_us s))
  | _ => float_special s || (us_ok_from 0 s && float_syntax (no_us s))
  end.

(* one text as a value of the kind, rendered canonically; floats stay text *)
Definition conv (k : kind) (s : bs) : option bs :=
  match k with
  | KBool => match parse_bool s with Some true => Some (B "true") | Some false => Some (B "false") | None => None end
  | KInt b => match parse_int b s with Some z => Some (show_Z z) | None => None end
  | KUint b => match parse_uint b s with Some z => Some (show_Z z) | None => None end
  | KString => Some (B "s" ++ hex_of s)
  | KFloat _ => if float_ok s then Some (B "f" ++ s) else None
  end.

Fixpoint conv_all (k : kind) (l : list bs) : option (list bs) :=
  match l with
  | [] => Some []
  | x :: r => match conv k x, conv_all k r with Some v, Some vs => Some (v :: vs) | _, _ => None end
  end.

Definition zero_of (f : field) : bs :=
  if f_slice f then B "[]" else if f_ptr f then B "nil" else
  match f_kind f with KBool => B "false" | KString => B "s" | KFloat _ => B "f0" | _ => B "0" end.

Inductive fres := FErrRequired | FErrConv | FVal (v : bs).

Definition render (f : field) (vs : list bs) : bs :=
  if f_slice f then B "[" ++ join (B ",") vs ++ B "]" else match vs with v :: _ => v | [] => zero_of f end.

(* the JSON pre-bind: a field whose json tag names a key of the body takes that value *)
Definition json_name (f : field) : option bs :=
  match filter (fun t => match t_src t with SJson => negb (t_skip t) | _ => false end) (f_tags f) with
  | t :: _ => Some (t_name t)
  | [] => None
  end.
Definition prebound (f : field) (q : request) : option (list bs) :=
  if q_isjson q then match json_name f with Some n => assoc n (q_json q) | None => None end else None.

Definition bind_field (f : field) (q : request) : fres :=
  match decide f q with
  | OErrRequired => FErrRequired
  | OKeep =>
      match prebound f q with
      | Some js => match conv_all (f_kind f) js with Some vs => FVal (render f vs) | None => FErrConv end
      | None => FVal (zero_of f)
      end
  | OTexts ts _ =>
      match conv_all (f_kind f) ts with Some vs => FVal (render f vs) | None => FErrConv end
  end.

(* the decoder of a type runs its field decoders in order and stops at the first error *)
Fixpoint run_fields (fs : list field) (q : request) : fres + list bs :=
  match fs with
  | [] => inr []
  | f :: r =>
      match bind_field f q with
      | FVal v => match run_fields r q with inr vs => inr (v :: vs) | inl e => inl e end
      | e => inl e
      end
  end.

(* ---------- the per-type decoder cache ---------- *)
(* a compiled decoder is the list of field decoders built from the type on first use *)
Definition decoder := list field.
Definition compile (ty : list field) : decoder := ty.
Definition cache := list (nat * decoder).
Fixpoint lookup (id : nat) (c : cache) : option decoder :=
  match c with [] => None | (i, d) :: r => if Nat.eqb i id then Some d else lookup id r end.

(* bindTag: load the cached decoder or build and store it, then run it *)
Definition bind_cached (types : nat -> list field) (c : cache) (id : nat) (q : request) : cache * (fres + list bs) :=
  match lookup id c with
  | Some d => (c, run_fields d q)
  | None => let d := compile (types id) in ((id, d) :: c, run_fields d q)
  end.

Fixpoint bind_history (types : nat -> list field) (c : cache) (h : list (nat * request)) : list (fres + list bs) :=
  match h with
  | [] => []
  | (id, q) :: r => let '(c', res) := bind_cached types c id q in res :: bind_history types c' r
  end.

(* ---------- decoding of the harness' description ---------- *)
Definition kind_of (s : bs) : kind :=
  if bs_eqb s (B "bool") then KBool else if bs_eqb s (B "string") then KString
  else if bs_eqb s (B "int8") then KInt 8 else if bs_eqb s (B "int16") then KInt 16
  else if bs_eqb s (B "int32") then KInt 32 else if bs_eqb s (B "int64") then KInt 64
  else if bs_eqb s (B "int") then KInt 64
  else if bs_eqb s (B "uint8") then KUint 8 else if bs_eqb s (B "uint16") then KUint 16
  else if bs_eqb s (B "uint32") then KUint 32 else if bs_eqb s (B "uint64") then KUint 64
  else if bs_eqb s (B "uint") then KUint 64
  else if bs_eqb s (B "float32") then KFloat 32 else KFloat 64.
Definition src_of (s : bs) : src :=
  if bs_eqb s (B "path") then SPath else if bs_eqb s (B "form") then SForm
  else if bs_eqb s (B "query") then SQuery else if bs_eqb s (B "cookie") then SCookie
  else if bs_eqb s (B "header") then SHeader else SJson.
Definition flag (s : bs) : bool := bs_eqb s (B "1").

Definition tag_of (s : bs) : tag :=
  let p := split_on GS s [] in
  {| t_src := src_of (nth 0 p []); t_name := nth 1 p []; t_req := flag (nth 2 p []); t_skip := flag (nth 3 p []) |}.
Definition field_of (s : bs) : field :=
  let p := split_on US s [] in
  {| f_kind := kind_of (nth 0 p []); f_slice := flag (nth 1 p []); f_ptr := flag (nth 2 p []);
     f_default := nth 3 p []; f_tags := map tag_of (skipn 4 p) |}.
Definition type_of (s : bs) : list field := map field_of (fields_of RS s).

Definition kv_of (s : bs) : bs * bs := let p := split_on GS s [] in (nth 0 p [], nth 1 p []).
Definition kvs_of (s : bs) : list (bs * bs) := map kv_of (fields_of US s).
Definition jkv_of (s : bs) : bs * list bs := let p := split_on GS s [] in (nth 0 p [], skipn 1 p).
Definition request_of (a : list bs) : request :=
  {| q_path := kvs_of (nth 0 a []); q_form := kvs_of (nth 1 a []); q_query := kvs_of (nth 2 a []);
     q_cookie := kvs_of (nth 3 a []); q_header := kvs_of (nth 4 a []);
     q_json := map jkv_of (fields_of US (nth 5 a [])); q_isjson := flag (nth 6 a []) |}.

Definition show_res (r : fres + list bs) : bs :=
  match r with
  | inl FErrRequired => B "ERR required"
  | inl FErrConv => B "ERR conv"
  | inl (FVal _) => B "ERR ?"
  | inr vs => B "OK " ++ join (B " ") vs
  end.

(* bind_one: type description, then the 7 request parts *)
Definition bind_one (a : list bs) : bs :=
  show_res (run_fields (type_of (nth 0 a [])) (request_of (skipn 1 a))).
