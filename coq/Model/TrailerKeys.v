(* C03: utils.CaseInsensitiveCompare, utils.NormalizeHeaderKey, protocol.IsBadTrailer,
   Trailer.SetTrailers — checked accesses.  Definitions only. *)
From Coq Require Import String.
From Coq Require Import List Strings.Byte NArith Bool Arith.
Require Import Bytes Show Res Tables.
Import ListNotations.

Definition or20 (c : byte) : byte := b_of (N.lor (n_of c) 32).
Definition to_upper (c : byte) : byte := tbl_get ToUpperTable c.
Definition to_lower (c : byte) : byte := tbl_get ToLowerTable c.
(* utils.CaseInsensitiveCompare: ToLowerTable[a[i]] == ToLowerTable[b[i]] *)
Fixpoint ci_compare (a b : bs) : bool :=
  match a, b with
  | [], [] => true
  | x :: a', y :: b' => Byte.eqb (to_lower x) (to_lower y) && ci_compare a' b'
  | _, _ => false
  end.

(* utils.NormalizeHeaderKey (normalising enabled) *)
Fixpoint norm_rest (s : bs) : bs :=
  match s with
  | [] => []
  | c :: r => if Byte.eqb c x2d then
                match r with
                | d :: r' => c :: to_upper d :: norm_rest r'
                | [] => [c]
                end
              else to_lower c :: norm_rest r
  end.
Definition normalize_header_key (s : bs) : bs :=
  match s with [] => [] | c :: r => to_upper c :: norm_rest r end.

Definition any_ci (key : bs) (l : list bs) : bool := existsb (ci_compare key) l.

Definition is_bad_trailer (key : bs) : res bool :=
  match key with [] => Ok true | _ =>
  c0 <- index key 0 ;;
  let c := or20 c0 in
  if Byte.eqb c x61 (* a *) then Ok (ci_compare key bytestr_StrAuthorization)
  else if Byte.eqb c x63 (* c *) then
    if (length consts_HeaderContentType <=? length key) then
      p <- slice_to key 8 ;; q <- slice_to bytestr_StrContentType 8 ;;
      if ci_compare p q then
        k8 <- slice_from key 8 ;;
        e <- slice_from bytestr_StrContentEncoding 8 ;; l <- slice_from bytestr_StrContentLength 8 ;;
        t <- slice_from bytestr_StrContentType 8 ;; r <- slice_from bytestr_StrContentRange 8 ;;
        Ok (ci_compare k8 e || ci_compare k8 l || ci_compare k8 t || ci_compare k8 r)
      else Ok (ci_compare key bytestr_StrConnection)
    else Ok (ci_compare key bytestr_StrConnection)
  else if Byte.eqb c x65 (* e *) then Ok (ci_compare key bytestr_StrExpect)
  else if Byte.eqb c x68 (* h *) then Ok (ci_compare key bytestr_StrHost)
  else if Byte.eqb c x6b (* k *) then Ok (ci_compare key bytestr_StrKeepAlive)
  else if Byte.eqb c x6d (* m *) then Ok (ci_compare key bytestr_StrMaxForwards)
  else if Byte.eqb c x70 (* p *) then
    if (length consts_HeaderProxyConnection <=? length key) then
      p <- slice_to key 6 ;; q <- slice_to bytestr_StrProxyConnection 6 ;;
      if ci_compare p q then
        k6 <- slice_from key 6 ;;
        a <- slice_from bytestr_StrProxyConnection 6 ;; b <- slice_from bytestr_StrProxyAuthenticate 6 ;;
        d <- slice_from bytestr_StrProxyAuthorization 6 ;;
        Ok (ci_compare k6 a || ci_compare k6 b || ci_compare k6 d)
      else Ok false
    else Ok false
  else if Byte.eqb c x72 (* r *) then Ok (ci_compare key bytestr_StrRange)
  else if Byte.eqb c x74 (* t *) then
    Ok (ci_compare key bytestr_StrTE || ci_compare key bytestr_StrTrailer || ci_compare key bytestr_StrTransferEncoding)
  else if Byte.eqb c x77 (* w *) then Ok (ci_compare key bytestr_StrWWWAuthenticate)
  else Ok false
  end.

Fixpoint trim_left (s : bs) : bs := match s with c :: r => if Byte.eqb c x20 then trim_left r else s | [] => [] end.
Definition trim (s : bs) : bs := rev (trim_left (rev (trim_left s))).

(* one element of the comma separated list: (key, rest after the comma if any) *)
Definition next_elem (s : bs) : bs * option bs :=
  match index_byte x2c s with
  | Some i => (firstn i s, Some (skipn (S i) s))
  | None => (s, None)
  end.

(* Trailer.SetTrailers: keys added in order, and whether the LAST element was refused *)
Fixpoint set_trailers_loop (fuel : nat) (s : bs) (acc : list bs) : res (list bs * bool) :=
  match fuel with
  | O => Err
  | S f =>
      let (e, rest) := next_elem s in
      let k := normalize_header_key (trim e) in
      bad <- is_bad_trailer k ;;
      let acc' := if bad then acc else acc ++ [k] in
      match rest with
      | Some r => (match r with [] => Ok (acc', bad) | _ => set_trailers_loop f r acc' end)
      | None => Ok (acc', bad)
      end
  end.
Definition set_trailers (s : bs) : res (list bs * bool) :=
  match s with [] => Ok ([], false) | _ => set_trailers_loop (S (length s)) s [] end.

Definition show_trailers (r : res (list bs * bool)) : bs :=
  match r with
  | Ok (ks, bad) => join (B ",") (map hex_of ks) ++ B "|" ++ show_bool bad
  | Err => B "ERR" | Panic => B "PANIC"
  end.
