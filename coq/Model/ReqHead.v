(* The request head as req.ReadHeader sees it (pkg/protocol/http1/req/header.go): parseFirstLine,
   then parseHeaders over the fields of the scanner: name / value validation and the framing
   decision taken from Content-Length and Transfer-Encoding. *)
From Coq Require Import String.
From Coq Require Import List Strings.Byte NArith ZArith Bool Arith.
Require Import Bytes Show Res Tables Chunk TrailerKeys Range HeaderScan.
Import ListNotations.

(* utils.NextLine *)
Definition next_line (b : bs) : option (bs * bs) :=
  match index_byte LF b with
  | None => None
  | Some n => let line := firstn n b in
              Some (drop_last_if (fun c => Byte.eqb c CR) line, skipn (S n) b)
  end.

Fixpoint first_nonempty_line (fuel : nat) (b : bs) : option (bs * bs) :=
  match fuel with
  | O => None
  | S f => match next_line b with
           | None => None
           | Some ([], r) => first_nonempty_line f r
           | Some (l, r) => Some (l, r)
           end
  end.

Fixpoint last_index (c : byte) (s : bs) (i : nat) (acc : option nat) : option nat :=
  match s with
  | [] => acc
  | x :: r => last_index c r (S i) (if Byte.eqb x c then Some i else acc)
  end.

Inductive flres := FLNeedMore | FLBad | FLOk (method uri : bs) (http11 : bool) (rest : bs).

Definition parse_first_line (buf : bs) : flres :=
  match first_nonempty_line (S (length buf)) buf with
  | None => FLNeedMore
  | Some (b, rest) =>
      match index_byte SPC b with
      | None | Some O => FLBad
      | Some n =>
          let m := firstn n b in
          let b1 := skipn (S n) b in
          match last_index SPC b1 0 None with
          | None => FLOk m b1 false rest
          | Some O => FLBad
          | Some k => FLOk m (firstn k b1) (bs_eqb (skipn (S k) b1) bytestr_StrHTTP11) rest
          end
      end
  end.

(* ---------- the framing decision over the scanned fields ---------- *)
Definition valid_value (v : bs) : bool := forallb (fun c => negb (Byte.eqb (nth (N.to_nat (n_of c)) ValidHeaderFieldValueTable x00) x00)) v.
Definition key_has_blank (k : bs) : bool := has_byte SPC k || has_byte TAB k.

(* state: content length (-2 none, -1 chunked), first error seen *)
Inductive herr := HNone | HBadKey | HBadValue | HBadLength.
Definition frame_step (st : Z * herr) (kv : bs * bs) : (Z * herr) + herr :=
  let '(clen, e) := st in
  let '(k, v) := kv in
  match k with
  | [] => inl st
  | _ =>
      if key_has_blank k then inr HBadKey
      else if negb (valid_value v) then inr HBadValue
      else if ci_compare k bytestr_StrContentLength then
        if Z.eqb clen (-1) then inl st
        else match Range.parse_uint v with
             | Some n => inl (n, e)
             | None => inl ((-2)%Z, match e with HNone => HBadLength | _ => e end)
             end
      else if ci_compare k bytestr_StrTransferEncoding then
        if bs_eqb v bytestr_StrIdentity then inl st else inl ((-1)%Z, e)
      else inl st
  end.

Fixpoint frame_of (fs : list (bs * bs)) (st : Z * herr) : (Z * herr) + herr :=
  match fs with
  | [] => inl st
  | kv :: r => match frame_step st kv with inl st' => frame_of r st' | inr e => inr e end
  end.

(* req_head block: "OK method uri http11 contentLength consumed" | "MORE" | "BAD <why>" *)
Definition req_head (a : list bs) : bs :=
  let buf := nth 0 a [] in
  match parse_first_line buf with
  | FLNeedMore => B "MORE"
  | FLBad => B "BAD first-line"
  | FLOk m u h11 rest =>
      match scan_all (S (length rest)) rest with
      | SNeedMore _ => B "MORE"
      | SInvalid _ => B "BAD name"
      | SFields fs rest' =>
          match frame_of fs ((-2)%Z, HNone) with
          | inr HBadKey => B "BAD key"
          | inr _ => B "BAD value"
          | inl (_, HBadLength) => B "BAD length"
          | inl (clen, _) =>
              (* RequestHeader.RequestURI() answers "/" for an empty target *)
              B "OK " ++ hex_of m ++ B " " ++ hex_of (match u with [] => [x2f] | _ => u end) ++ B " " ++ show_bool h11 ++ B " " ++ show_Z clen ++
              B " " ++ show_nat (length buf - length rest')
          end
      end
  end.
