(* C13: the input side of standard.Conn as it is built: a linked list of buffer nodes
   (pkg/network/standard/buffer.go, connection.go: fill, Peek, peekBuffer, Skip, Release, handleTail,
   next, Read, ReadByte, ReadBinary, Len).  `nodes` runs from inputBuffer.head to inputBuffer.write (the last
   element), `ridx` is the position of inputBuffer.read.  A node's `ndata` is buf[0:malloc].
   Definitions only; the unit c13.linkbuf compares results AND the node structure after every operation. *)
From Coq Require Import String.
From Coq Require Import List Strings.Byte NArith Bool Arith.
Require Import Bytes Show Rd.
Import ListNotations.

Record node := { ncap : nat; ndata : bs; noff : nat; nro : bool }.
Definition nlen (n : node) : nat := length (ndata n) - noff n.
Definition navail (n : node) : bs := skipn (noff n) (ndata n).

Record lb := {
  nodes : list node;
  ridx : nat;
  llen : nat;            (* inputBuffer.len *)
  maxsz : nat;           (* Conn.maxSize *)
  lsrc : list rres;      (* what the connection will deliver *)
  lerr : bool            (* Conn.err is set *)
}.

Definition mallocMax : nat := N.to_nat 524288.
Definition block4k : nat := N.to_nat 4096.

(* capacity of malloc(size, size): mcache rounds up to a power of two up to mallocMax, make() above it *)
Definition cap_of (size : nat) : nat :=
  if mallocMax <? size then size else N.to_nat (2 ^ N.log2_up (N.of_nat size)).
Definition new_node (size : nat) : node := {| ncap := cap_of size; ndata := []; noff := 0; nro := false |}.
Definition reset_node (n : node) : node := {| ncap := ncap n; ndata := []; noff := 0; nro := false |}.
Definition set_ro (v : bool) (n : node) : node := {| ncap := ncap n; ndata := ndata n; noff := noff n; nro := v |}.
Definition add_data (b : bs) (n : node) : node := {| ncap := ncap n; ndata := ndata n ++ b; noff := noff n; nro := nro n |}.
Definition add_off (k : nat) (n : node) : node := {| ncap := ncap n; ndata := ndata n; noff := noff n + k; nro := nro n |}.

Definition init_lb (size : nat) (src : list rres) : lb :=
  let m := Nat.max block4k size in
  {| nodes := [new_node m]; ridx := 0; llen := 0; maxsz := m; lsrc := src; lerr := false |}.

Definition dummy : node := {| ncap := 0; ndata := []; noff := 0; nro := false |}.
Definition wnode (s : lb) : node := last (nodes s) dummy.
Definition upd_last (f : node -> node) (l : list node) : list node :=
  match rev l with [] => [] | w :: r => rev (f w :: r) end.

(* one Read of the underlying connection into a buffer with `room` free bytes (harness srcConn) *)
Definition src_read (room : nat) (src : list rres) : bs * bool * list rres :=
  match src with
  | [] => ([], true, [])
  | x :: rest =>
      if length (rbytes x) <=? room then (rbytes x, rerr x, rest)
      else (firstn room (rbytes x), false, {| rbytes := skipn room (rbytes x); rerr := rerr x |} :: rest)
  end.

(* outcome of fill: returned nil / returned the error / cannot happen in Go without hanging: Read called with an
   empty buffer, or a (0, nil) read, or the loop ran longer than the bytes it needs *)
Inductive fout := FNil | FErr | FStuck.

(* the read loop of fill: (write node, len, source, c.err set, outcome) *)
Fixpoint fill_loop (fuel need : nat) (w : node) (len : nat) (src : list rres) : node * nat * list rres * bool * fout :=
  match fuel with
  | O => (w, len, src, false, FStuck)
  | S f =>
      if need =? 0 then (w, len, src, false, FNil)
      else if ncap w - length (ndata w) =? 0 then (w, len, src, false, FStuck)
      else
        let '(b, e, src') := src_read (ncap w - length (ndata w)) src in
        match b with
        | [] => (w, len, src', false, if e then FErr else FStuck)
        | _ =>
            let w' := add_data b w in
            if e then (w', len + length b, src', true, FNil)
            else fill_loop f (need - length b) w' (len + length b) src'
        end
  end.

Definition with_nodes (ns : list node) (s : lb) : lb :=
  {| nodes := ns; ridx := ridx s; llen := llen s; maxsz := maxsz s; lsrc := lsrc s; lerr := lerr s |}.
Definition with_err (e : bool) (s : lb) : lb :=
  {| nodes := nodes s; ridx := ridx s; llen := llen s; maxsz := maxsz s; lsrc := lsrc s; lerr := e |}.

(* fill(i): new state, outcome *)
Definition lb_fill (i : nat) (s : lb) : lb * fout :=
  if i <=? llen s then (s, FNil)
  else if lerr s then (if 0 <? llen s then (s, FNil) else (with_err false s, FErr))
  else
    let w := wnode s in
    let left := ncap w - length (ndata w) in
    let ns := if (left <? i - llen s) || nro w
              then upd_last (set_ro false) (nodes s) ++ [new_node (if i <? maxsz s then maxsz s else i)]
              else nodes s in
    let w1 := last ns dummy in
    let need := i - llen s in
    let '(w2, len2, src2, stored, e) := fill_loop (S need) need w1 (llen s) (lsrc s) in
    ({| nodes := upd_last (fun _ => w2) ns; ridx := ridx s; llen := len2; maxsz := maxsz s; lsrc := src2; lerr := stored |}, e).

(* peekBuffer from the read node on *)
Fixpoint gather (i : nat) (ns : list node) : bs :=
  match ns with
  | [] => []
  | n :: r => if i <=? nlen n then firstn i (navail n) else navail n ++ gather (i - nlen n) r
  end.

Inductive pk := PkOk (b : bs) (e : bool) (s : lb) | PkStuck.
Definition lb_peek (i : nat) (s : lb) : pk :=
  let '(s1, e) := lb_fill i s in
  match e with
  | FStuck => PkStuck
  | FErr => PkOk [] true s1
  | FNil =>
      if llen s1 <? i then PkOk (gather (llen s1) (skipn (ridx s1) (nodes s1))) (lerr s1) (with_err false s1)
      else PkOk (gather i (skipn (ridx s1) (nodes s1))) false s1
  end.

(* the loop of Skip over the nodes from the read node on: new nodes, how far the read pointer moved;
   None = the loop would run off the end of the list *)
Fixpoint skip_nodes (ack : nat) (ns : list node) : option (list node * nat) :=
  match ns with
  | [] => None
  | n :: r =>
      if ack <=? nlen n then Some (add_off ack n :: r, 0)
      else match skip_nodes (ack - nlen n) r with
           | Some (r', k) => Some (n :: r', S k)
           | None => None
           end
  end.

Inductive sk := SkOk (s : lb) | SkShort | SkCrash.
Definition lb_skip (n : nat) (s : lb) : sk :=
  if llen s <? n then SkShort
  else if n =? 0 then SkOk s
  else match skip_nodes n (skipn (ridx s) (nodes s)) with
       | Some (ns', k) =>
           SkOk {| nodes := firstn (ridx s) (nodes s) ++ ns'; ridx := ridx s + k; llen := llen s - n;
                   maxsz := maxsz s; lsrc := lsrc s; lerr := lerr s |}
       | None => SkCrash
       end.

Fixpoint sum_malloc (l : list node) : nat := match l with [] => 0 | n :: r => length (ndata n) + sum_malloc r end.

Definition lb_release (s : lb) : lb :=
  let bump sz := Nat.max (maxsz s) (Nat.min sz mallocMax) in
  match nodes s with
  | [w] =>
      if llen s =? 0 then with_nodes [reset_node w] s
      else with_nodes [set_ro true w] s
  | [h; w] =>
      if llen s =? 0 then
        let m := bump (length (ndata h) + length (ndata w)) in
        let w' := if mallocMax <? ncap w then new_node m else reset_node w in
        {| nodes := [w']; ridx := 0; llen := llen s; maxsz := m; lsrc := lsrc s; lerr := lerr s |}
      else
        {| nodes := upd_last (set_ro true) (skipn (ridx s) (nodes s)); ridx := 0; llen := llen s;
           maxsz := bump (sum_malloc (firstn (ridx s) (tl (nodes s)))); lsrc := lsrc s; lerr := lerr s |}
  | _ =>
      {| nodes := upd_last (set_ro true) (skipn (ridx s) (nodes s)); ridx := 0; llen := llen s;
         maxsz := bump (sum_malloc (firstn (ridx s) (tl (nodes s)))); lsrc := lsrc s; lerr := lerr s |}
  end.

(* results of the composite operations: bytes, error flag, state; a crash is reported as such *)
Inductive res := ROk (b : bs) (e : bool) (s : lb) | RCrash.

Definition lb_read_byte (s : lb) : res :=
  match lb_peek 1 s with
  | PkStuck => RCrash
  | PkOk b true s1 => ROk [] true s1
  | PkOk b false s1 =>
      match lb_skip 1 s1 with
      | SkOk s2 => ROk (firstn 1 b) false s2
      | SkShort => ROk [] true s1
      | SkCrash => RCrash
      end
  end.

Definition lb_read_binary (i : nat) (s : lb) : res :=
  match lb_peek i s with
  | PkStuck => RCrash
  | PkOk b true s1 => ROk [] true s1
  | PkOk b false s1 =>
      match lb_skip i s1 with
      | SkOk s2 => ROk b false s2
      | SkShort => ROk b true s1
      | SkCrash => RCrash
      end
  end.

(* next(l, b): copy, Skip, Release *)
Definition lb_next (l : nat) (s : lb) : res :=
  let b := gather l (skipn (ridx s) (nodes s)) in
  match lb_skip l s with
  | SkOk s1 => ROk b false (lb_release s1)
  | SkShort => ROk b true s
  | SkCrash => RCrash
  end.

(* Conn.Read(p) with len(p) = n *)
Definition lb_read (n : nat) (s : lb) : res :=
  if 0 <? llen s then lb_next (Nat.min (llen s) n) s
  else if n <=? block4k then
    let '(s1, e) := lb_fill 1 s in
    match e with
    | FStuck => RCrash
    | FErr => ROk [] true s1
    | FNil => lb_next (Nat.min (llen s1) n) s1
    end
  else
    let '(b, e, src') := src_read n (lsrc s) in
    ROk b e {| nodes := nodes s; ridx := ridx s; llen := llen s; maxsz := maxsz s; lsrc := src'; lerr := lerr s |}.

(* ---- scripts for the correspondence check ---- *)
Inductive lop := LPeek (n : nat) | LSkip (n : nat) | LReadByte | LReadBinary (n : nat) | LLen | LRelease | LRead (n : nat).

Definition show_node (n : node) : bs :=
  show_nat (ncap n) ++ B ":" ++ show_nat (length (ndata n)) ++ B ":" ++ show_nat (noff n) ++ B ":" ++ (if nro n then B "1" else B "0").
Definition dump (s : lb) : bs :=
  B "len=" ++ show_nat (llen s) ++ B " max=" ++ show_nat (maxsz s) ++ B " r=" ++ show_nat (ridx s) ++
  B " err=" ++ (if lerr s then B "1" else B "0") ++ B " " ++ join (B ",") (map show_node (nodes s)).

Definition show_res (tag : bs) (r : res) (s : lb) : bs * lb :=
  match r with
  | ROk b e s' => (tag ++ hex_of b ++ (if e then B "!" else []), s')
  | RCrash => (tag ++ B "CRASH", s)
  end.

Definition run_lop (o : lop) (s : lb) : bs * lb :=
  match o with
  | LPeek n => match lb_peek n s with
               | PkOk b e s' => (B "P" ++ hex_of b ++ (if e then B "!" else []), s')
               | PkStuck => (B "PSTUCK", s)
               end
  | LSkip n => match lb_skip n s with
               | SkOk s' => (B "S", s')
               | SkShort => (B "S!", s)
               | SkCrash => (B "SCRASH", s)
               end
  | LReadByte => match lb_read_byte s with
                 | ROk b false s' => (B "B" ++ hex_of b, s')
                 | ROk _ true s' => (B "B!", s')
                 | RCrash => (B "BCRASH", s)
                 end
  | LReadBinary n => match lb_read_binary n s with
                     | ROk b false s' => (B "R" ++ hex_of b, s')
                     | ROk _ true s' => (B "R!", s')
                     | RCrash => (B "RCRASH", s)
                     end
  | LLen => (B "L" ++ show_nat (llen s), s)
  | LRelease => (B "X", lb_release s)
  | LRead n => show_res (B "D") (lb_read n s) s
  end.

Fixpoint run_lops (ops : list lop) (s : lb) : list bs :=
  match ops with
  | [] => []
  | o :: rest => let '(out, s') := run_lop o s in (out ++ B "@" ++ dump s') :: run_lops rest s'
  end.

Definition parse_lop (s : bs) : list lop :=
  match s with
  | c :: r =>
      if Byte.eqb c x50 then [LPeek (parse_nat r)]
      else if Byte.eqb c x53 then [LSkip (parse_nat r)]
      else if Byte.eqb c x42 then [LReadByte]
      else if Byte.eqb c x52 then [LReadBinary (parse_nat r)]
      else if Byte.eqb c x4c then [LLen]
      else if Byte.eqb c x58 then [LRelease]
      else if Byte.eqb c x44 then [LRead (parse_nat r)]
      else []
  | [] => []
  end.
Definition parse_lops (s : bs) : list lop := flat_map parse_lop (split_on x2c s []).

(* lb_script: initial size, ops "P12,S3,B,R5,L,X,D100", then the source elements as for rd_script *)
Definition lb_script (args : list bs) : bs :=
  match args with
  | size :: ops :: frags => join (B ";") (run_lops (parse_lops ops) (init_lb (parse_nat size) (map parse_src frags)))
  | _ => []
  end.
