(* C10: the HostClient connection pool as a labelled transition system over atomic steps (every
   step is one critical section of connsLock, one wantConn.mu section, or one local decision of
   HostClient.Do / doNonNilReqResp).  Callers, wantConn objects and connections carry identities,
   so that exclusivity is a theorem and not a by-product of the representation.

   pkg/protocol/http1/client.go: acquireConn, queueForIdle, dialConnFor, releaseConn, closeConn,
   decConnsCount, wantConn.tryDeliver / cancel, Do (pending gauge, retry), doNonNilReqResp
   (close-or-release decision), connsCleaner / CloseIdleConnections. *)
From Coq Require Import String.
From Coq Require Import List Strings.Byte NArith Bool Arith.
Require Import Bytes Show.
Import ListNotations.

Inductive wst := WWait | WGot (c : nat) | WErr.
Inductive pc :=
| PEntered                    (* inside Do's loop, before acquireConn *)
| PPreQueue                   (* acquireConn found nothing and dropped the lock; not yet queued *)
| PDialing                    (* acquireConn took a slot and is dialling *)
| PWaiting (w : nat)          (* blocked in select on wantConn w *)
| PHolding (c : nat) (inpool : bool).   (* owns connection c for one exchange *)

(* what the exchange on a connection turned out to be *)
Inductive outcome :=
| OClean        (* complete response, neither side asked to close, connection not over age *)
| OCloseHdr     (* complete response, but Connection: close on either side / MaxConnDuration hit *)
| OBadFirst     (* EOF or reset before the first response byte *)
| OErr.         (* anything else: write error, mid-header, mid-body, timeout, body too large *)

Definition should_close (o : outcome) : bool := match o with OClean => false | _ => true end.
(* Do retries only ErrBadPoolConn, which doNonNilReqResp returns only for a pooled connection *)
Definition may_retry (o : outcome) (inpool idem : bool) : bool :=
  match o with OBadFirst => inpool && idem | _ => false end.

Record cfg := { maxc : nat; waiton : bool }.

Record st := {
  count : nat;                 (* connsCount *)
  idle : list nat;             (* conns; head = top of the LIFO stack *)
  wq : list nat;               (* connsWait, front first; may hold entries nobody waits on *)
  ws : nat -> option wst;      (* live wantConn objects *)
  nw : nat;
  pcs : nat -> option pc;      (* calls inside Do *)
  nt : nat;
  dfor : list nat;             (* running dialConnFor goroutines, by wantConn *)
  closed : list nat;           (* connections closed by the client *)
  nc : nat;                    (* connections dialled so far *)
  pending : nat                (* pendingRequests *)
}.

Definition init : st :=
  {| count := 0; idle := []; wq := []; ws := fun _ => None; nw := 0; pcs := fun _ => None; nt := 0;
     dfor := []; closed := []; nc := 0; pending := 0 |}.

Definition upd {A} (m : nat -> option A) (k : nat) (v : option A) : nat -> option A :=
  fun i => if Nat.eqb i k then v else m i.

Definition set_count n s := {| count := n; idle := idle s; wq := wq s; ws := ws s; nw := nw s; pcs := pcs s; nt := nt s; dfor := dfor s; closed := closed s; nc := nc s; pending := pending s |}.
Definition set_idle l s := {| count := count s; idle := l; wq := wq s; ws := ws s; nw := nw s; pcs := pcs s; nt := nt s; dfor := dfor s; closed := closed s; nc := nc s; pending := pending s |}.
Definition set_wq l s := {| count := count s; idle := idle s; wq := l; ws := ws s; nw := nw s; pcs := pcs s; nt := nt s; dfor := dfor s; closed := closed s; nc := nc s; pending := pending s |}.
Definition set_ws m s := {| count := count s; idle := idle s; wq := wq s; ws := m; nw := nw s; pcs := pcs s; nt := nt s; dfor := dfor s; closed := closed s; nc := nc s; pending := pending s |}.
Definition set_nw n s := {| count := count s; idle := idle s; wq := wq s; ws := ws s; nw := n; pcs := pcs s; nt := nt s; dfor := dfor s; closed := closed s; nc := nc s; pending := pending s |}.
Definition set_pcs m s := {| count := count s; idle := idle s; wq := wq s; ws := ws s; nw := nw s; pcs := m; nt := nt s; dfor := dfor s; closed := closed s; nc := nc s; pending := pending s |}.
Definition set_nt n s := {| count := count s; idle := idle s; wq := wq s; ws := ws s; nw := nw s; pcs := pcs s; nt := n; dfor := dfor s; closed := closed s; nc := nc s; pending := pending s |}.
Definition set_dfor l s := {| count := count s; idle := idle s; wq := wq s; ws := ws s; nw := nw s; pcs := pcs s; nt := nt s; dfor := l; closed := closed s; nc := nc s; pending := pending s |}.
Definition set_closed l s := {| count := count s; idle := idle s; wq := wq s; ws := ws s; nw := nw s; pcs := pcs s; nt := nt s; dfor := dfor s; closed := l; nc := nc s; pending := pending s |}.
Definition set_nc n s := {| count := count s; idle := idle s; wq := wq s; ws := ws s; nw := nw s; pcs := pcs s; nt := nt s; dfor := dfor s; closed := closed s; nc := n; pending := pending s |}.
Definition set_pending n s := {| count := count s; idle := idle s; wq := wq s; ws := ws s; nw := nw s; pcs := pcs s; nt := nt s; dfor := dfor s; closed := closed s; nc := nc s; pending := n |}.

Definition set_pc t p s := set_pcs (upd (pcs s) t p) s.
Definition set_w w v s := set_ws (upd (ws s) w v) s.

(* the loop of releaseConn / decConnsCount: pop entries until one is still waiting *)
Fixpoint pop_live (m : nat -> option wst) (q : list nat) : option nat * list nat :=
  match q with
  | [] => (None, [])
  | w :: r => match m w with Some WWait => (Some w, r) | _ => pop_live m r end
  end.

(* wantConnQueue.clearFront: drop the entries at the front that nobody waits on any more *)
Fixpoint clear_front (m : nat -> option wst) (q : list nat) : list nat :=
  match q with
  | [] => []
  | w :: r => match m w with Some WWait => q | _ => clear_front m r end
  end.

(* releaseConn *)
Definition release (g : cfg) (c : nat) (s : st) : st :=
  if waiton g then
    match pop_live (ws s) (wq s) with
    | (Some w, r) => set_w w (Some (WGot c)) (set_wq r s)
    | (None, r) => set_idle (c :: idle s) (set_wq r s)
    end
  else set_idle (c :: idle s) s.

(* decConnsCount *)
Definition dec (g : cfg) (s : st) : st :=
  if waiton g then
    match pop_live (ws s) (wq s) with
    | (Some w, r) => set_dfor (dfor s ++ [w]) (set_wq r s)
    | (None, r) => set_count (count s - 1) (set_wq r s)
    end
  else set_count (count s - 1) s.

(* closeConn *)
Definition close_conn (g : cfg) (c : nat) (s : st) : st :=
  let s1 := dec g s in set_closed (c :: closed s1) s1.

(* a call leaves Do *)
Definition exit_do (t : nat) (s : st) : st := set_pending (pending s - 1) (set_pc t None s).

Inductive label :=
| LEnter                                   (* Do: pendingRequests++ *)
| LCancelled (t : nat)                     (* ctx.Done() seen at the top of the loop *)
| LAcquire (t : nat)                       (* first critical section of acquireConn *)
| LQueue (t : nat)                         (* queueForIdle *)
| LDial (t : nat) (ok : bool)              (* dialHostHard on behalf of the caller *)
| LDialFor (w : nat) (ok : bool)           (* dialConnFor in the background *)
| LWake (t : nat)                          (* <-w.ready *)
| LTimeout (t : nat)                       (* wait timer fired: w.cancel *)
| LExchange (t : nat) (o : outcome) (idem : bool)   (* the exchange finished one way or another *)
| LCloseIdle.                              (* cleaner / CloseIdleConnections closes the oldest idle connection *)

Fixpoint remove_first (x : nat) (l : list nat) : option (list nat) :=
  match l with
  | [] => None
  | y :: r => if Nat.eqb x y then Some r else match remove_first x r with Some r' => Some (y :: r') | None => None end
  end.

Definition step (g : cfg) (s : st) (l : label) : option st :=
  match l with
  | LEnter => Some (set_pending (S (pending s)) (set_nt (S (nt s)) (set_pc (nt s) (Some PEntered) s)))
  | LCancelled t =>
      match pcs s t with Some PEntered => Some (exit_do t s) | _ => None end
  | LAcquire t =>
      match pcs s t with
      | Some PEntered =>
          match idle s with
          | c :: r => Some (set_pc t (Some (PHolding c true)) (set_idle r s))
          | [] => if count s <? maxc g then Some (set_pc t (Some PDialing) (set_count (S (count s)) s))
                  else if waiton g then Some (set_pc t (Some PPreQueue) s)
                  else Some (exit_do t s)          (* ErrNoFreeConns *)
          end
      | _ => None
      end
  | LQueue t =>
      match pcs s t with
      | Some PPreQueue =>
          let w := nw s in
          let s0 := set_nw (S w) (set_pc t (Some (PWaiting w)) s) in
          match idle s with
          | c :: r => Some (set_w w (Some (WGot c)) (set_idle r s0))
          | [] => if count s <? maxc g
                  then Some (set_w w (Some WWait) (set_dfor (dfor s ++ [w]) (set_count (S (count s)) s0)))
                  else Some (set_w w (Some WWait) (set_wq (clear_front (ws s) (wq s) ++ [w]) s0))
          end
      | _ => None
      end
  | LDial t ok =>
      match pcs s t with
      | Some PDialing =>
          if ok then Some (set_nc (S (nc s)) (set_pc t (Some (PHolding (nc s) false)) s))
          else Some (dec g (exit_do t s))
      | _ => None
      end
  | LDialFor w ok =>
      match remove_first w (dfor s) with
      | Some r =>
          let s0 := set_dfor r s in
          if ok then
            let c := nc s in
            let s1 := set_nc (S c) s0 in
            match ws s w with
            | Some WWait => Some (set_w w (Some (WGot c)) s1)
            | _ => Some (release g c s1)
            end
          else
            match ws s w with
            | Some WWait => Some (dec g (set_w w (Some WErr) s0))
            | _ => Some (dec g s0)
            end
      | None => None
      end
  | LWake t =>
      match pcs s t with
      | Some (PWaiting w) =>
          match ws s w with
          | Some (WGot c) => Some (set_pc t (Some (PHolding c true)) (set_w w None s))
          | Some WErr => Some (exit_do t (set_w w None s))
          | _ => None
          end
      | _ => None
      end
  | LTimeout t =>
      match pcs s t with
      | Some (PWaiting w) =>
          match ws s w with
          | Some (WGot c) => Some (release g c (exit_do t (set_w w None s)))
          | Some _ => Some (exit_do t (set_w w None s))
          | None => None
          end
      | _ => None
      end
  | LExchange t o idem =>
      match pcs s t with
      | Some (PHolding c inpool) =>
          (* the connection leaves the caller's hands, then goes back to the pool or is closed *)
          let s0 := if may_retry o inpool idem then set_pc t (Some PEntered) s else exit_do t s in
          Some (if should_close o then close_conn g c s0 else release g c s0)
      | _ => None
      end
  | LCloseIdle =>
      match rev (idle s) with
      | c :: r => Some (close_conn g c (set_idle (rev r) s))
      | [] => None
      end
  end.

Fixpoint run (g : cfg) (s : st) (ls : list label) : option st :=
  match ls with
  | [] => Some s
  | l :: r => match step g s l with Some s' => run g s' r | None => None end
  end.

(* ---------- deterministic multi-actor histories for the correspondence check ---------- *)
(* settle: run every internal step that is enabled without outside input: background dials
   (succeeding unless `dialfail`), and woken waiters claiming what was delivered *)
Fixpoint first_wakeable (s : st) (n : nat) : option nat :=
  match n with
  | 0 => None
  | S k => match first_wakeable s k with
           | Some t => Some t
           | None => match pcs s k with
                     | Some (PWaiting w) => match ws s w with Some (WGot _) | Some WErr => Some k | _ => None end
                     | _ => None
                     end
           end
  end.

Definition step_or (g : cfg) (s : st) (l : label) : st := match step g s l with Some s' => s' | None => s end.

Fixpoint settle (fuel : nat) (g : cfg) (dialfail : bool) (s : st) : st :=
  match fuel with
  | 0 => s
  | S f =>
      match dfor s with
      | w :: _ => settle f g false (step_or g s (LDialFor w (negb dialfail)))
      | [] => match first_wakeable s (nt s) with
              | Some t => settle f g dialfail (step_or g s (LWake t))
              | None => s
              end
      end
  end.

(* bring caller t from PEntered as far as it gets without the peer: acquire, dial, queue *)
Definition advance (g : cfg) (dialfail : bool) (t : nat) (s : st) : st :=
  let s1 := step_or g s (LAcquire t) in
  match pcs s1 t with
  | Some PDialing => step_or g s1 (LDial t (negb dialfail))
  | Some PPreQueue => settle 50 g dialfail (step_or g s1 (LQueue t))
  | _ => s1
  end.

Fixpoint waiting_callers (s : st) (n : nat) : list nat :=
  match n with
  | 0 => []
  | S k => waiting_callers s k ++ match pcs s k with Some (PWaiting _) => [k] | _ => [] end
  end.

Fixpoint close_all_idle (fuel : nat) (g : cfg) (s : st) : st :=
  match fuel with
  | 0 => s
  | S f => match idle s with [] => s | _ => close_all_idle f g (step_or g s LCloseIdle) end
  end.

(* after an exchange: a retried caller re-acquires; then everything internal settles *)
Definition after_exchange (g : cfg) (dialfail : bool) (t : nat) (s : st) : st :=
  match pcs s t with
  | Some PEntered => settle 50 g false (advance g dialfail t s)
  | _ => settle 50 g dialfail s
  end.

Definition outcome_of (b : bs) : outcome :=
  if bs_eqb b (B "clean") then OClean else if bs_eqb b (B "closehdr") then OCloseHdr
  else if bs_eqb b (B "badfirst") then OBadFirst else OErr.

(* op := name [arg...] encoded as fields separated by ':' *)
Fixpoint split_colon (s : bs) (cur : bs) : list bs :=
  match s with
  | [] => [rev cur]
  | c :: r => if Byte.eqb c ":"%byte then rev cur :: split_colon r [] else split_colon r (c :: cur)
  end.

Definition apply_op (g : cfg) (s : st) (op : bs) : st :=
  let f := split_colon op [] in
  let name := nth 0 f [] in
  let flag i := bs_eqb (nth i f []) (B "1") in
  if bs_eqb name (B "start") then            (* start:<dialfail> *)
    let t := nt s in advance g (flag 1) t (step_or g s LEnter)
  else if bs_eqb name (B "cancelled") then
    let t := nt s in step_or g (step_or g s LEnter) (LCancelled t)
  else if bs_eqb name (B "finish") then      (* finish:<t>:<outcome>:<idem>:<dialfail> *)
    let t := parse_nat (nth 1 f []) in
    after_exchange g (flag 4) t (step_or g s (LExchange t (outcome_of (nth 2 f [])) (flag 3)))
  else if bs_eqb name (B "expire") then      (* expire | expire:<t> : every waiter's / one waiter's wait timer fires *)
    match f with
    | [_; t] => settle 50 g false (step_or g s (LTimeout (parse_nat t)))
    | _ => settle 50 g false (fold_left (fun s t => step_or g s (LTimeout t)) (waiting_callers s (nt s)) s)
    end
  else if bs_eqb name (B "closeidle") then
    settle 50 g false (close_all_idle 50 g s)
  else s.

Fixpoint show_callers (s : st) (n : nat) : list bs :=
  match n with
  | 0 => []
  | S k => show_callers s k ++
           match pcs s k with
           | Some (PHolding c _) => [show_nat k ++ B "@" ++ show_nat c]
           | Some (PWaiting _) => [show_nat k ++ B "?"]
           | Some _ => [show_nat k ++ B "!"]
           | None => []
           end
  end.

Definition show_st (s : st) : bs :=
  B "count=" ++ show_nat (count s) ++ B " idle=" ++ show_nat (length (idle s)) ++
  B " wait=" ++ show_nat (length (wq s)) ++ B " pending=" ++ show_nat (pending s) ++
  B " dials=" ++ show_nat (nc s) ++ B " closed=" ++ show_nat (length (closed s)) ++
  B " calls=" ++ join (B ",") (show_callers s (nt s)).

Fixpoint run_ops (g : cfg) (s : st) (ops : list bs) : list bs :=
  match ops with
  | [] => []
  | o :: r => let s' := apply_op g s o in show_st s' :: run_ops g s' r
  end.

(* args: max, wait(0/1), op... *)
Definition pool_script (a : list bs) : bs :=
  match a with
  | m :: w :: ops => join (B ";") (run_ops {| maxc := parse_nat m; waiton := bs_eqb w (B "1") |} init ops)
  | _ => B "!ARGS"
  end.
