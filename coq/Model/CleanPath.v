(* C07: utils.CleanPath (pkg/common/utils/path.go) — definitions only.
   The lazily allocated buffer is abstracted: `out` is the written prefix buf[:w] (or p[:w]
   while no buffer exists); bytes beyond w are never read before being overwritten. *)
From Coq Require Import String.
From Coq Require Import List Strings.Byte NArith Bool Arith.
Require Import Bytes Show Norm.
Import ListNotations.

Definition dot : byte := x2e.

(* `w--` then `for w > 1 && buf[w] != '/' { w-- }`: buf[w] is the byte popped last *)
Fixpoint back_loop (fuel : nat) (out : bs) (popped : byte) : bs :=
  match fuel with
  | O => out
  | S f => if (1 <? length out) && negb (Byte.eqb popped sl)
           then back_loop f (removelast out) (last out x00)
           else out
  end.
Definition backtrack (out : bs) : bs :=
  if 1 <? length out then back_loop (length out) (removelast out) (last out x00) else out.

Fixpoint copy_elem (p : bs) (out : bs) : bs * bs :=
  match p with
  | [] => (out, [])
  | c :: r => if Byte.eqb c sl then (out, p) else copy_elem r (out ++ [c])
  end.

Definition elem_default (p out : bs) : bs * bs :=
  copy_elem p (if 1 <? length out then out ++ [sl] else out).

Fixpoint clean_loop (fuel : nat) (p out : bs) (trailing : bool) : option (bs * bool) :=
  match fuel with
  | O => None
  | S f =>
      match p with
      | [] => Some (out, trailing)
      | c :: r =>
          if Byte.eqb c sl then clean_loop f r out trailing
          else
            let dflt := let (out', p') := elem_default p out in clean_loop f p' out' trailing in
            if Byte.eqb c dot then
              match r with
              | [] => clean_loop f [] out true
              | c2 :: r2 =>
                  if Byte.eqb c2 sl then clean_loop f r2 out trailing
                  else if Byte.eqb c2 dot && (match r2 with [] => true | c3 :: _ => Byte.eqb c3 sl end)
                  then clean_loop f (tl r2) (backtrack out) trailing
                  else dflt
              end
            else dflt
      end
  end.

Definition clean_path (p : bs) : option bs :=
  match p with
  | [] => Some [sl]
  | c :: r =>
      let rest := if Byte.eqb c sl then r else p in
      let trailing := (1 <? length p) && Byte.eqb (last p x00) sl in
      match clean_loop (S (length p)) rest [sl] trailing with
      | None => None
      | Some (out, tr) => Some (if tr && (1 <? length out) then out ++ [sl] else out)
      end
  end.
