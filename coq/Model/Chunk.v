(* C01 / C04 / C11 / C14: hex chunk sizes (bytesconv.WriteHexInt / ReadHexInt with
   maxHexIntChars), utils.ParseChunkSize, the chunked body reader (ext.readBodyChunked) and
   writer (ext.WriteChunk / WriteBodyChunked) on complete byte strings.  Definitions only. *)
From Coq Require Import String.
From Coq Require Import List Strings.Byte NArith ZArith Bool Arith.
Require Import Bytes Show Tables Codec.
Import ListNotations.

Definition CR : byte := x0d. Definition LF : byte := x0a.
Definition CRLF : bs := [CR; LF].
Definition max_hex_chars : nat := Z.to_nat bytesconv64_maxHexIntChars.

Definition hexval (c : byte) : option N := let v := hex2int c in if N.eqb v 16 then None else Some v.

(* WriteHexInt: digits of n, most significant first, at least one digit *)
Fixpoint hex_digits (fuel : nat) (n : N) (acc : bs) : bs :=
  match fuel with
  | O => acc
  | S f => let acc' := lowerhex (N.modulo n 16) :: acc in
           if (N.div n 16 =? 0)%N then acc' else hex_digits f (N.div n 16) acc'
  end.
Definition write_hex (n : N) : bs := hex_digits (S (N.to_nat (N.log2 n))) n [].

(* ReadHexInt over the remaining stream (the stream ends = Peek fails) *)
Inductive hexres := HexOk (n : N) (rest : bs) | HexErr.
Fixpoint read_hex_int (s : bs) (n : N) (i : nat) : hexres :=
  match s with
  | [] => match i with O => HexErr | _ => HexOk n [] end
  | c :: r => match hexval c with
              | None => match i with O => HexErr | _ => HexOk n s end
              | Some k => if max_hex_chars <=? i then HexErr else read_hex_int r (n * 16 + k)%N (S i)
              end
  end.

Fixpoint skip_spaces (s : bs) : bs :=
  match s with c :: r => if Byte.eqb c x20 then skip_spaces r else s | [] => [] end.

(* utils.ParseChunkSize *)
Definition parse_chunk_size (s : bs) : option (N * bs) :=
  match read_hex_int s 0 0 with
  | HexErr => None
  | HexOk n r => match skip_spaces r with
                 | c1 :: c2 :: r2 => if Byte.eqb c1 CR && Byte.eqb c2 LF then Some (n, r2) else None
                 | _ => None
                 end
  end.

Inductive dres := DOk (body rest : bs) | DErr | DTooLarge | DFuel.

(* ext.readBodyChunked; maxb = 0 means no limit *)
Fixpoint dechunk (fuel : nat) (maxb : N) (s acc : bs) : dres :=
  match fuel with
  | O => DFuel
  | S f =>
      match parse_chunk_size s with
      | None => DErr
      | Some (n, r) =>
          if N.eqb n 0 then DOk acc r
          else if (N.ltb 0 maxb) && (N.ltb maxb (N.of_nat (length acc) + n)) then DTooLarge
          else if N.ltb (N.of_nat (length r)) (n + 2) then DErr      (* compare before converting: n is peer-controlled *)
          else let k := N.to_nat n in
               if bs_eqb (firstn 2 (skipn k r)) CRLF
                    then dechunk f maxb (skipn (k + 2) r) (acc ++ firstn k r)
                    else DErr
      end
  end.

(* ext.WriteChunk for a non-empty chunk, and the chunk sequence WriteBodyChunked produces *)
Definition enchunk1 (c : bs) : bs := write_hex (N.of_nat (length c)) ++ CRLF ++ c ++ CRLF.
Definition last_chunk : bs := write_hex 0 ++ CRLF.
Definition enchunk (cs : list bs) : bs := flat_map enchunk1 cs ++ last_chunk.

Definition show_dres (d : dres) : bs :=
  match d with
  | DOk b r => B "OK " ++ hex_of b ++ B " " ++ hex_of r
  | DErr => B "ERR" | DTooLarge => B "TOOLARGE" | DFuel => B "!FUEL"
  end.
Definition show_hexres (h : hexres) : bs :=
  match h with HexOk n r => show_N n ++ B " " ++ hex_of r | HexErr => B "ERR" end.
