(* C06, the compressed tree: pkg/route/tree.go router.addRoute / insert (longest-common-prefix edge
   splitting, static / param / catch-all children) as functions on an immutable tree, the lookup in
   recursive form (handler only), the routes a tree holds, and a rendering of the tree for the
   comparison with the real one. *)
From Coq Require Import String.
From Coq Require Import List Strings.Byte NArith Bool Arith.
Require Import Bytes Show Router.
Import ListNotations.

Inductive kind := Sk | Pk | Ak.
Inductive node := Node (k : kind) (pre : bs) (cs : list node) (pc ac : option node) (h : option nat).

Definition nkind n := match n with Node k _ _ _ _ _ => k end.
Definition nprefix n := match n with Node _ p _ _ _ _ => p end.
Definition nhandler n := match n with Node _ _ _ _ _ h => h end.
Definition nlabel n : option byte := match n with Node _ (c :: _) _ _ _ _ => Some c | _ => None end.
Definition has_label (c : byte) (n : node) : bool := match nlabel n with Some x => Byte.eqb x c | None => false end.

Definition empty_root : node := Node Sk [] [] None None None.

Fixpoint lcp (a b : bs) : nat :=
  match a, b with x :: a', y :: b' => if Byte.eqb x y then S (lcp a' b') else 0 | _, _ => 0 end.

Definition is_some {T} (o : option T) : bool := match o with Some _ => true | None => false end.

(* router.insert(path, h, t) on the subtree rooted at cur *)
Fixpoint insert (fuel : nat) (cur : node) (search : bs) (h : option nat) (t : kind) : node :=
  match fuel with
  | O => cur
  | S f =>
  match cur with Node k pre cs pc ac ch =>
    let l := lcp search pre in
    if Nat.eqb l 0 then
      match h with
      | Some _ => Node t search cs pc ac h
      | None => Node k search cs pc ac ch
      end
    else if Nat.ltb l (length pre) then
      let lower := Node k (skipn l pre) cs pc ac ch in
      if Nat.eqb l (length search) then Node t (firstn l pre) [lower] None None h
      else Node Sk (firstn l pre) [lower; Node t (skipn l search) [] None None h] None None None
    else if Nat.ltb l (length search) then
      let rest := skipn l search in
      match rest with
      | [] => cur
      | c :: _ =>
          if existsb (has_label c) cs then
            Node k pre (map (fun ch0 => if has_label c ch0 then insert f ch0 rest h t else ch0) cs) pc ac ch
          else if Byte.eqb c colon && is_some pc then
            Node k pre cs (option_map (fun ch0 => insert f ch0 rest h t) pc) ac ch
          else if Byte.eqb c star && is_some ac then
            Node k pre cs pc (option_map (fun ch0 => insert f ch0 rest h t) ac) ch
          else
            let fresh := Node t rest [] None None h in
            match t with
            | Sk => Node k pre (cs ++ [fresh]) pc ac ch
            | Pk => Node k pre cs (Some fresh) ac ch
            | Ak => Node k pre cs pc (Some fresh) ch
            end
      end
    else
      match h with
      | Some _ => Node k pre cs pc ac h
      | None => cur
      end
  end end.

Fixpoint index_wild (s : bs) : option nat :=
  match s with
  | [] => None
  | x :: r => if Byte.eqb x colon || Byte.eqb x star then Some 0 else option_map S (index_wild r)
  end.

(* router.addRoute: the static part before each wildcard, then the wildcard node, names erased *)
Fixpoint add_route (fuel : nat) (root : node) (path : bs) (i0 : nat) (h : nat) : node :=
  match fuel with
  | O => root
  | S f =>
      let big := S (length path) in
      match index_wild (skipn i0 path) with
      | None => insert big root path (Some h) Sk
      | Some d =>
          let i := i0 + d in
          match nth_error path i with
          | Some c =>
              let root1 := insert big root (firstn i path) None Sk in
              if Byte.eqb c colon then
                let rest := Router.drop_seg (skipn (S i) path) in
                let path' := firstn (S i) path ++ rest in
                match rest with
                | [] => insert big root1 path' (Some h) Pk
                | _ => add_route f (insert big root1 (firstn (S i) path') None Pk) path' (S i) h
                end
              else insert big root1 (firstn (S i) path) (Some h) Ak
          | None => root
          end
      end
  end.
Definition register (root : node) (path : bs) (h : nat) : node := add_route (S (length path)) root path 0 h.

(* routes registered in the given order; the handler of a route is its position in `pats` *)
Fixpoint build_from (root : node) (pats : list bs) (order : list nat) : node :=
  match order with
  | [] => root
  | i :: r => build_from (register root (nth i pats []) i) pats r
  end.

(* ---------- the routes a tree holds ---------- *)
Definition prepend (pre : pattern) (r : route) : route := (pre ++ fst r, snd r).
Definition toks (k : kind) (pre : bs) : pattern := match k with Sk => map L pre | Pk => [P] | Ak => [A] end.
Definition own (h : option nat) : list route := match h with Some x => [([], x)] | None => [] end.
Definition opt {T} (f : node -> list T) (o : option node) : list T := match o with Some c => f c | None => [] end.

Fixpoint paths (n : node) : list route :=
  match n with Node k pre cs pc ac h =>
    map (prepend (toks k pre))
      (own h ++ flat_map paths cs
         ++ (match pc with Some c => paths c | None => [] end)
         ++ (match ac with Some c => paths c | None => [] end))
  end.

(* ---------- lookup (recursive form of router.find, handler only) ---------- *)
Fixpoint strip_prefix (p s : bs) : option bs :=
  match p, s with
  | [], _ => Some s
  | x :: p', y :: s' => if Byte.eqb x y then strip_prefix p' s' else None
  | _ :: _, [] => None
  end.

Fixpoint ft (n : node) (s : bs) : option nat :=
  match n with Node k pre cs pc ac h =>
    let after := fun rest : bs =>
      orelse (match rest, h with [], Some x => Some x | _, _ => None end)
      (orelse (match rest with
               | c :: _ => (fix go (l : list node) : option nat :=
                              match l with [] => None | ch :: l' => if has_label c ch then ft ch rest else go l' end) cs
               | [] => None end)
      (orelse (match rest, pc with _ :: _, Some ch => ft ch rest | _, _ => None end)
              (match ac with Some ch => ft ch rest | None => None end))) in
    match k with
    | Sk => match strip_prefix pre s with Some rest => after rest | None => None end
    | Pk => after (drop_seg s)
    | Ak => h
    end
  end.

(* the handler-only search over a route list (Router.find without the values) *)
Fixpoint find0 (fuel : nat) (rs : list route) (s : bs) : option nat :=
  match fuel with
  | O => None
  | S f =>
      match s with
      | [] => orelse (first_with is_nil rs) (first_with is_any rs)
      | x :: s' =>
          orelse (find0 f (adv (L x) rs) s')
            (orelse (find0 f (adv P rs) (drop_seg s))
               (first_with is_any rs))
      end
  end.

(* ---------- decidable well-formedness ---------- *)
Definition kind_eqb (a b : kind) : bool := match a, b with Sk, Sk | Pk, Pk | Ak, Ak => true | _, _ => false end.
Fixpoint nodup_labels (l : list (option byte)) : bool :=
  match l with
  | [] => true
  | x :: r => negb (existsb (fun y => match x, y with Some a, Some b => Byte.eqb a b | None, None => true | _, _ => false end) r) && nodup_labels r
  end.

Fixpoint wfb (n : node) : bool :=
  match n with Node k pre cs pc ac h =>
    (match k with Sk => negb (match pre with [] => true | _ => false end) | _ => true end) &&
    (match k with Ak => (match cs with [] => true | _ => false end) && negb (is_some pc) && negb (is_some ac) && is_some h | _ => true end) &&
    forallb (fun c => kind_eqb (nkind c) Sk && wfb c) cs &&
    nodup_labels (map nlabel cs) &&
    (match pc with Some c => kind_eqb (nkind c) Pk && wfb c | None => true end) &&
    (match ac with Some c => kind_eqb (nkind c) Ak && wfb c | None => true end)
  end.

(* ---------- rendering ---------- *)
Fixpoint dump (n : node) : bs :=
  match n with Node k pre cs pc ac h =>
    (match k with Sk => B "S" | Pk => B "P" | Ak => B "A" end) ++ [x22] ++ pre ++ [x22] ++
    (match h with Some x => B "=" ++ show_nat x | None => [] end) ++
    B "[" ++ join (B ",") (map dump cs) ++ B "|" ++
    (match pc with Some c => dump c | None => B "-" end) ++ B "|" ++
    (match ac with Some c => dump c | None => B "-" end) ++ B "]"
  end.

Fixpoint same_routes (a b : list route) : bool :=
  forallb (fun r => existsb (fun r' => Nat.eqb (snd r) (snd r') &&
                                       (Nat.eqb (length (fst r)) (length (fst r')) && forallb (fun tt => tok_eqb (fst tt) (snd tt)) (combine (fst r) (fst r')))) b) a.

(* radix_script order(comma separated) pattern... : "wf=1 routes=1 <dump>" *)
Fixpoint parse_order (s : bs) (cur : bs) : list nat :=
  match s with
  | [] => match cur with [] => [] | _ => [parse_nat (rev cur)] end
  | c :: r => if Byte.eqb c ","%byte then parse_nat (rev cur) :: parse_order r [] else parse_order r (c :: cur)
  end.

Definition radix_script (a : list bs) : bs :=
  match a with
  | o :: pats =>
      let order := parse_order o [] in
      let t := build_from empty_root pats order in
      let declared := map (fun i => (pattern_of (nth i pats []), i)) order in
      B "wf=" ++ show_bool (match order with [] => true | _ => wfb t end) ++
      B " routes=" ++ show_bool (same_routes (paths t) declared && same_routes declared (paths t)) ++
      B " " ++ dump t
  | [] => B "!ARGS"
  end.
