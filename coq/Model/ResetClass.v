(* C09: which leaf fields are NOT part of the observable request state, by origin
   `Struct.field`, with the reason.  A field that is not listed is observable: it must be
   definitely reset (so a field added to a struct must be reset or the obligation fails). *)
From Coq Require Import String.
From Coq Require Import List Strings.Byte.
Require Import Bytes Show.
Import ListNotations.

Definition exempt_reasons : list (bs * bs) := [
  (* zero-size copy guards *)
  (B "ResponseHeader.noCopy", B "marker"); (B "RequestHeader.noCopy", B "marker"); (B "Request.noCopy", B "marker");
  (B "Response.noCopy", B "marker"); (B "URI.noCopy", B "marker"); (B "Cookie.noCopy", B "marker"); (B "Args.noCopy", B "marker");
  (* scratch buffers: overwritten before every use, never exposed without being rebuilt *)
  (B "ResponseHeader.bufKV", B "scratch"); (B "RequestHeader.bufKV", B "scratch"); (B "Trailer.bufKV", B "scratch");
  (B "Cookie.bufKV", B "scratch"); (B "Cookie.buf", B "scratch"); (B "Args.buf", B "scratch");
  (B "URI.fullURI", B "scratch"); (B "URI.requestURI", B "scratch");
  (B "Request.w", B "scratch: body writer adaptor pointing back at the request");
  (B "Response.w", B "scratch: body writer adaptor pointing back at the response");
  (* engine- or connection-scoped configuration, re-initialised by Serve for every connection *)
  (B "Request.maxKeepBodySize", B "engine option"); (B "Response.maxKeepBodySize", B "engine option");
  (B "Request.isTLS", B "connection-scoped: set by Serve at connection start");
  (B "RequestContext.HTMLRender", B "engine-scoped: set by Serve"); (B "RequestContext.enableTrace", B "engine-scoped: set by Serve");
  (B "RequestContext.traceInfo", B "reset when tracing is enabled, unused otherwise");
  (B "RequestContext.clientIPFunc", B "engine-scoped"); (B "RequestContext.formValueFunc", B "engine-scoped");
  (B "RequestContext.binder", B "engine-scoped"); (B "RequestContext.validator", B "engine-scoped");
  (B "RequestContext.mu", B "lock"); (B "RequestContext.finishedMu", B "lock");
  (B "RequestContext.hijackHandler", B "cleared by Serve after every ServeHTTP");
  (B "RequestContext.exiled", B "precondition: Serve never resets or pools an exiled context, it replaces it");
  (B "httpStats.embedded_sync_RWMutex", B "lock"); (B "httpStats.level", B "engine option")
].
(* additionally allowed to survive a reset that keeps the connection *)
Definition exempt_keep_conn : list bs := [B "RequestContext.conn"].

Definition exempt_all : list bs := map fst exempt_reasons.
Definition exempt_for (method : bs) : list bs :=
  if bs_eqb method (B "ResetWithoutConn") then exempt_keep_conn ++ exempt_all else exempt_all.
