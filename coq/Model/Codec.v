(* C17 (and C07, C11): AppendQuotedArg / AppendQuotedPath / decodeArgAppend[NoPlus] /
   argsScanner.next / Args.ParseBytes / Args.AppendBytes — definitions only. *)
From Coq Require Import String.
From Coq Require Import List Strings.Byte NArith Bool.
Require Import Bytes Show Tables.
Import ListNotations.

Definition esc_arg (b : byte) : bool := negb (Byte.eqb (tbl_get QuotedArgShouldEscapeTable b) x00).
Definition esc_path (b : byte) : bool := negb (Byte.eqb (tbl_get QuotedPathShouldEscapeTable b) x00).
Definition hex2int (b : byte) : N := n_of (tbl_get Hex2intTable b).
Definition cPct : byte := x25. Definition cPlus : byte := x2b. Definition cSp : byte := x20.
Definition cAmp : byte := x26. Definition cEq : byte := x3d. Definition cStar : byte := x2a.

(* bytesconv.AppendQuotedArg *)
Definition quote1 (c : byte) : bs :=
  if Byte.eqb c cSp then [cPlus]
  else if esc_arg c then [cPct; upperhex (N.shiftr (n_of c) 4); upperhex (N.land (n_of c) 15)]
  else [c].
Definition quote (s : bs) : bs := flat_map quote1 s.

(* bytesconv.AppendQuotedPath *)
Definition quotep1 (c : byte) : bs :=
  if esc_path c then [cPct; upperhex (N.shiftr (n_of c) 4); upperhex (N.land (n_of c) 15)] else [c].
Definition quote_path (s : bs) : bs :=
  match s with
  | [c] => if Byte.eqb c cStar then [cStar] else quotep1 c
  | _ => flat_map quotep1 s
  end.

(* decodeArgAppend: slow path; `plus` selects decodeArgAppend (true) / decodeArgAppendNoPlus *)
Fixpoint dec (plus : bool) (s : bs) : bs :=
  match s with
  | [] => []
  | c :: r =>
      if Byte.eqb c cPct then
        match r with
        | h1 :: h2 :: r' =>
            if (N.eqb (hex2int h1) 16 || N.eqb (hex2int h2) 16)%bool then cPct :: dec plus r
            else b_of (N.lor (N.shiftl (hex2int h1) 4) (hex2int h2)) :: dec plus r'
        | _ => c :: r
        end
      else if plus && Byte.eqb c cPlus then cSp :: dec plus r
      else c :: dec plus r
  end.
Definition memb (c : byte) (s : bs) : bool := existsb (Byte.eqb c) s.
Definition decode_arg (s : bs) : bs :=
  if negb (memb cPct s) && negb (memb cPlus s) then s else dec true s.
Definition decode_noplus (s : bs) : bs :=
  if negb (memb cPct s) then s else dec false s.

(* argsKV and argsScanner.next *)
Record kv := { key : bs; value : bs; noValue : bool }.

Fixpoint split_first (c : byte) (s : bs) : bs * option bs :=
  match s with
  | [] => ([], None)
  | x :: r => if Byte.eqb x c then ([], Some r)
              else let (a, b) := split_first c r in (x :: a, b)
  end.

Definition scan_next (s : bs) : option (kv * bs) :=
  match s with
  | [] => None
  | _ =>
      let (chunk, rest) := split_first cAmp s in
      let rest' := match rest with Some r => r | None => [] end in
      match split_first cEq chunk with
      | (k, Some v) => Some ({| key := decode_arg k; value := decode_arg v; noValue := false |}, rest')
      | (k, None) => Some ({| key := decode_arg k; value := []; noValue := true |}, rest')
      end
  end.

Definition is_nil (s : bs) : bool := match s with [] => true | _ => false end.
Definition nonempty (e : kv) : bool := negb (is_nil (key e)) || negb (is_nil (value e)).

(* Args.ParseBytes + the visible list (entries with empty key and value are dropped) *)
Fixpoint parse (fuel : nat) (s : bs) : option (list kv) :=
  match fuel with
  | O => None
  | S f => match scan_next s with
           | None => Some []
           | Some (e, rest) => match parse f rest with
                               | None => None
                               | Some l => Some (if nonempty e then e :: l else l)
                               end
           end
  end.
Definition args_parse (s : bs) : option (list kv) := parse (S (length s)) s.

(* Args.AppendBytes / QueryString *)
Definition enc1 (e : kv) : bs :=
  quote (key e) ++ (if noValue e then [] else cEq :: quote (value e)).
Fixpoint encode (l : list kv) : bs :=
  match l with
  | [] => []
  | [e] => enc1 e
  | e :: l' => enc1 e ++ cAmp :: encode l'
  end.

(* rendering for the correspondence check *)
Definition show_kv (e : kv) : bs := hex_of (key e) ++ B ":" ++ hex_of (value e) ++ B ":" ++ show_bool (noValue e).
Definition show_args (o : option (list kv)) : bs :=
  match o with None => B "FUEL" | Some l => join (B ",") (map show_kv l) end.
