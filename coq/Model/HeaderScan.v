(* The header-field scanner of pkg/protocol/http1/ext/headerscanner.go (HeaderScanner.Next, with
   normalizeHeaderValue of ext/common.go): one call takes the next field line off a header block.
   The cached colon / newline positions of the Go code are an optimisation: they hold the positions
   a fresh search would find, so the model always searches. *)
From Coq Require Import String.
From Coq Require Import List Strings.Byte NArith Bool Arith.
Require Import Bytes Show Res Chunk TrailerKeys.
Import ListNotations.

Definition COLON : byte := x3a. Definition SPC : byte := x20. Definition TAB : byte := x09.

Inductive nres :=
| NDone (rest : bs)                 (* the empty line: end of the block *)
| NField (key value rest : bs)
| NNeedMore
| NInvalidName.

Fixpoint skip_sp (s : bs) : bs := match s with c :: r => if Byte.eqb c SPC then skip_sp r else s | [] => [] end.

Fixpoint has_byte (c : byte) (s : bs) : bool := match s with [] => false | x :: r => Byte.eqb x c || has_byte c r end.

(* the continuation-line loop: n is the position of the newline that ends the value so far *)
Fixpoint cont (fuel : nat) (b : bs) (n : nat) (multi : bool) : nat * bool :=
  match fuel with
  | O => (n, multi)
  | S f =>
      match nth_error b (S n) with
      | None => (n, multi)
      | Some c =>
          if Byte.eqb c SPC || Byte.eqb c TAB then
            match index_byte LF (skipn (S n) b) with
            | None => (n, multi)
            | Some O => (n, multi)
            | Some d =>
                if has_byte COLON (firstn d (skipn (S n) b)) then (n, multi)   (* a field line that starts with a space *)
                else cont f b (n + d + 1) true
            end
          else (n, multi)
      end
  end.

(* normalizeHeaderValue: CR and LF disappear, tabs at the start of a continuation line become spaces *)
Fixpoint norm_value (s : bs) (line_start : bool) : bs :=
  match s with
  | [] => []
  | c :: r =>
      if Byte.eqb c CR then norm_value r line_start
      else if Byte.eqb c LF then norm_value r true
      else if line_start && Byte.eqb c TAB then SPC :: norm_value r true
      else c :: norm_value r false
  end.

Definition drop_last_if (p : byte -> bool) (s : bs) : bs :=
  match rev s with c :: r => if p c then rev r else s | [] => [] end.
Fixpoint drop_trailing_sp_rev (r : bs) : bs := match r with c :: t => if Byte.eqb c SPC then drop_trailing_sp_rev t else r | [] => [] end.
Definition trim_value (s : bs) : bs :=
  let s1 := drop_last_if (fun c => Byte.eqb c CR) s in
  rev (drop_trailing_sp_rev (rev s1)).

Definition hs_next (b : bs) : nres :=
  match b with
  | c1 :: c2 :: r => if Byte.eqb c1 CR && Byte.eqb c2 LF then NDone r
                     else if Byte.eqb c1 LF then NDone (c2 :: r)
                     else
                       match index_byte LF b, index_byte COLON b with
                       | None, _ => NNeedMore
                       | Some _, None => NNeedMore
                       | Some x, Some n =>
                           if Nat.ltb x n then NInvalidName
                           else
                             let key := normalize_header_key (firstn n b) in
                             let b2 := skip_sp (skipn (S n) b) in
                             match index_byte LF b2 with
                             | None => NNeedMore
                             | Some m =>
                                 let '(m', multi) := cont (length b2) b2 m false in
                                 let v := trim_value (firstn m' b2) in
                                 NField key (if multi then norm_value v false else v) (skipn (S m') b2)
                             end
                       end
  | [c1] => if Byte.eqb c1 LF then NDone [] else NNeedMore
  | [] => NNeedMore
  end.

(* the whole block: fields in order, then what follows the empty line *)
Inductive sres := SFields (fs : list (bs * bs)) (rest : bs) | SNeedMore (fs : list (bs * bs)) | SInvalid (fs : list (bs * bs)).
Fixpoint scan_all (fuel : nat) (b : bs) : sres :=
  match fuel with
  | O => SNeedMore []
  | S f =>
      match hs_next b with
      | NDone rest => SFields [] rest
      | NNeedMore => SNeedMore []
      | NInvalidName => SInvalid []
      | NField k v rest =>
          match scan_all f rest with
          | SFields fs r => SFields ((k, v) :: fs) r
          | SNeedMore fs => SNeedMore ((k, v) :: fs)
          | SInvalid fs => SInvalid ((k, v) :: fs)
          end
      end
  end.

Definition show_fields (fs : list (bs * bs)) : bs :=
  join (B ";") (map (fun kv => hex_of (fst kv) ++ B "=" ++ hex_of (snd kv)) fs).
Definition header_scan (a : list bs) : bs :=
  let b := nth 0 a [] in
  match scan_all (S (length b)) b with
  | SFields fs r => B "OK " ++ show_fields fs ++ B " | " ++ show_nat (length b - length r)
  | SNeedMore fs => B "MORE " ++ show_fields fs
  | SInvalid fs => B "INVALID " ++ show_fields fs
  end.
