(* C16: hz's router generation (cmd/hz/generator/router.go, util/data.go, the router.go template of
   package_tpl.go) for one service, default naming style, handler by service:
   RouterNode.Update / FindNearest / Insert / Sort build the tree, DyeGroupName names groups and
   middlewares through the process-wide unique-name table, the template prints Register's body.
   `interp` gives the printed statements the meaning Go and hertz give them. *)
From Coq Require Import String.
From Coq Require Import List Strings.Byte NArith Bool Arith.
Require Import Bytes Show.
Import ListNotations.

Definition sl : byte := "/"%byte.

Record decl := { d_verb : bs; d_path : bs; d_name : bs }.

(* a node of the path-segment tree: Path, Handler ("alias.Name") with its HttpMethod, children *)
Inductive node := Node (path : bs) (handler : option (bs * bs)) (children : list node).
Definition n_path (n : node) := match n with Node p _ _ => p end.
Definition n_handler (n : node) := match n with Node _ h _ => h end.
Definition n_children (n : node) := match n with Node _ _ c => c end.

(* ---------- strings ---------- *)
Definition is_upper (c : byte) : bool := N.leb 65 (n_of c) && N.leb (n_of c) 90.
Definition is_lower (c : byte) : bool := N.leb 97 (n_of c) && N.leb (n_of c) 122.
Definition is_digit (c : byte) : bool := N.leb 48 (n_of c) && N.leb (n_of c) 57.
Definition to_lower (c : byte) : byte := if is_upper c then b_of (n_of c + 32) else c.
Definition to_upper (c : byte) : byte := if is_lower c then b_of (n_of c - 32) else c.
Definition lower (s : bs) : bs := map to_lower s.
Definition upper (s : bs) : bs := map to_upper s.

Fixpoint split_on (sep : byte) (s : bs) (cur : bs) : list bs :=
  match s with
  | [] => [rev cur]
  | c :: r => if Byte.eqb c sep then rev cur :: split_on sep r [] else split_on sep r (c :: cur)
  end.

(* byte-wise string order (Go's < on strings) *)
Fixpoint bs_ltb (a b : bs) : bool :=
  match a, b with
  | [], [] => false
  | [], _ :: _ => true
  | _ :: _, [] => false
  | x :: a', y :: b' => if N.ltb (n_of x) (n_of y) then true else if N.ltb (n_of y) (n_of x) then false else bs_ltb a' b'
  end.

(* url.PathEscape: unreserved and $&+=:@ stay, everything else becomes %XX *)
Definition path_keep (c : byte) : bool :=
  is_upper c || is_lower c || is_digit c ||
  existsb (Byte.eqb c) ["-"; "_"; "."; "~"; "$"; "&"; "+"; "="; ":"; "@"]%byte.
Definition path_escape (s : bs) : bs :=
  flat_map (fun c => if path_keep c then [c] else "%"%byte :: [upperhex (N.shiftr (n_of c) 4); upperhex (N.land (n_of c) 15)]) s.

(* util.ToVarName on one path element *)
Fixpoint var_chars (s : bs) (first : bool) : bs :=
  match s with
  | [] => []
  | c :: r =>
      if Byte.eqb c ":"%byte || Byte.eqb c "*"%byte then var_chars r false
      else (if (is_digit c && negb first) || is_lower c || is_upper c || Byte.eqb c "_"%byte then c else "_"%byte)
           :: var_chars r false
  end.
Definition to_var_name (s : bs) : bs := var_chars (path_escape s) true.
(* note: `i != 0` in the Go loop refers to the position in the escaped input, also when the
   first byte was a skipped ':' — var_chars clears `first` on every byte *)
Definition mw_name (s : bs) : bs := lower (to_var_name s).

(* ---------- the process-wide unique-name table ---------- *)
(* getUniqueName tries name0 .. name9999; one of the first |used|+1 candidates is free, so the
   search is bounded by the table size here (the 10000 limit is out of reach of any run) *)
Fixpoint mem (x : bs) (l : list bs) : bool :=
  match l with [] => false | y :: r => bs_eqb x y || mem x r end.
Fixpoint first_free (fuel : nat) (i : nat) (name : bs) (used : list bs) : option bs :=
  match fuel with
  | O => None
  | S f => let cand := name ++ show_nat i in
           if mem cand used then first_free f (S i) name used else Some cand
  end.
Definition unique_name (name : bs) (used : list bs) : option (bs * list bs) :=
  if mem name used then
    match first_free (S (length used)) 0 name used with Some u => Some (u, u :: used) | None => None end
  else Some (name, name :: used).

(* ---------- building the tree ---------- *)
Definition http_method (v : bs) : bs := if bs_eqb (lower v) (B "any") then B "Any" else upper v.

(* Insert: a chain of new nodes, the last one carrying the handler *)
Fixpoint chain (paths : list bs) (h : bs * bs) : option node :=
  match paths with
  | [] => None
  | [p] => Some (Node (sl :: p) (Some h) [])
  | p :: r => match chain r h with Some c => Some (Node (sl :: p) None [c]) | None => None end
  end.

(* childrenRouterInfo.Less *)
Fixpoint strip_nonalnum (s : bs) : bs :=
  match s with
  | [] => []
  | c :: r => if is_upper c || is_lower c || is_digit c then s else strip_nonalnum r
  end.
Definition strip_key (s : bs) : bs := match strip_nonalnum s with [] => s | t => t end.
Definition meth_of (n : node) : bs := match n_handler n with Some (_, m) => m | None => [] end.
Definition less (a b : node) : bool :=
  match meth_of a, meth_of b with
  | [], _ :: _ => false
  | _ :: _, [] => true
  | ma, mb =>
      let ca := strip_key (n_path a) in let cb := strip_key (n_path b) in
      if bs_eqb ca cb then bs_ltb ma mb else bs_ltb ca cb
  end.

(* sort.Sort on up to 12 elements is a stable insertion sort *)
Fixpoint ins (x : node) (l : list node) : list node :=
  match l with
  | [] => [x]
  | y :: r => if less x y then x :: l else y :: ins x r
  end.
Definition sort_children (l : list node) : list node := fold_left (fun acc x => ins x acc) l [].

(* the first child, in order, whose Path is "/"+p (sort-router mode only descends into pure groups) *)
Definition matches_child (sortr : bool) (p : bs) (c : node) : bool :=
  bs_eqb (sl :: p) (n_path c) && (negb sortr || match meth_of c with [] => true | _ => false end).

(* Update = FindNearest + Insert + parent.Sort, as one recursion over the path elements *)
Fixpoint update (sortr : bool) (paths : list bs) (h : bs * bs) (n : node) {struct paths} : node :=
  match n with
  | Node np nh cs =>
      match paths with
      | [] => n
      | p :: rest =>
          let add := match chain paths h with Some c => Node np nh (sort_children (cs ++ [c])) | None => n end in
          (fix scan (pre post : list node) {struct post} : node :=
             match post with
             | [] => add
             | c :: post' =>
                 if matches_child sortr p c then
                   match rest with
                   | [] => match chain [p] h with
                           | Some leaf => Node np nh (sort_children (cs ++ [leaf]))
                           | None => n
                           end
                   | _ => Node np nh (rev pre ++ update sortr rest h c :: post')
                   end
                 else scan (c :: pre) post'
             end) [] cs
      end
  end.

Definition split_path (p : bs) : list bs :=
  match split_on sl p [] with [] :: r => r | l => l end.

Definition add_decl (sortr : bool) (alias : bs) (t : node) (d : decl) : node :=
  update sortr (split_path (d_path d)) (alias ++ B "." ++ d_name d, http_method (d_verb d)) t.

Definition root0 : node := Node [sl] None [].
Definition build (sortr : bool) (alias : bs) (ds : list decl) : node := fold_left (add_decl sortr alias) ds root0.

(* ---------- naming (DyeGroupName) and printing (template "G") ---------- *)
Inductive stmt :=
| SGroup (var base path mw : bs)                 (* var := base.Group("path", mwMw()...) *)
| SHandle (grp verb path mw handler : bs)        (* grp.VERB("path", append(mwMw(), handler)...) *)
| SBlock (body : list stmt).

Definition raw_handler_name (h : bs) : bs := last (split_on "."%byte h []) [].

Definition drop_lead_slash (p : bs) : bs :=
  match p with c :: (_ :: _) as r => if Byte.eqb c sl then r else p | _ => p end.

(* names for one node: (MiddleWare, HandlerMiddleware) *)
Definition dye_node (n : node) (used : list bs) : option (bs * bs * list bs) :=
  let pname := drop_lead_slash (n_path n) in
  match n_handler n with
  | Some (h, _) =>
      let hm := raw_handler_name h in
      match n_children n with
      | [] => match unique_name (mw_name hm) used with
              | Some (u, used1) => Some (B "_" ++ u, B "_" ++ u, used1)
              | None => None
              end
      | _ => match unique_name (mw_name pname) used with
             | Some (u1, used1) =>
                 match unique_name (mw_name hm) used1 with
                 | Some (u2, used2) => Some (B "_" ++ u1, B "_" ++ u2, used2)
                 | None => None
                 end
             | None => None
             end
      end
  | None =>
      match unique_name (mw_name pname) used with
      | Some (u1, used1) =>
          match unique_name [] used1 with      (* the handler middleware name of a pure group: "" *)
          | Some (_, used2) => Some (B "_" ++ u1, [], used2)
          | None => None
          end
      | None => None
      end
  end.

(* the children of a node, printed in order: a child that has a handler inline, a pure group in a block *)
Fixpoint emit_kids (em : node -> list bs -> option (list stmt * list bs)) (cs : list node) (used : list bs)
  : option (list stmt * list bs) :=
  match cs with
  | [] => Some ([], used)
  | c :: r =>
      match em c used with
      | None => None
      | Some (body, used') =>
          match emit_kids em r used' with
          | None => None
          | Some (rest, used'') =>
              Some ((match n_handler c with Some _ => body | None => [SBlock body] end) ++ rest, used'')
          end
      end
  end.

(* template "G" for node n whose parent's variable is grp (DyeGroupName visits in the same order) *)
Fixpoint emit (fuel : nat) (grp : bs) (n : node) (used : list bs) : option (list stmt * list bs) :=
  match fuel with
  | O => None
  | S f =>
      match dye_node n used with
      | None => None
      | Some (mw, hmw, used1) =>
          let hline := match n_handler n with
                       | Some (h, m) => [SHandle grp m (n_path n) (hmw ++ B "Mw") h]
                       | None => []
                       end in
          let base := if bs_eqb (n_path n) [sl] then B "r" else grp in
          let gline := match n_children n with [] => [] | _ => [SGroup mw base (n_path n) (mw ++ B "Mw")] end in
          match emit_kids (emit f mw) (n_children n) used1 with
          | Some (ks, u) => Some (hline ++ gline ++ ks, u)
          | None => None
          end
      end
  end.

Fixpoint depth (n : node) : nat :=
  match n with Node _ _ cs => S (fold_right (fun c a => Nat.max (depth c) a) 0 cs) end.

Definition emit_root (t : node) : option (list stmt) :=
  match n_children t with
  | [] => Some []
  | cs => match emit_kids (emit (S (depth t)) (B "root")) cs [] with
          | Some (ks, _) => Some (SGroup (B "root") (B "r") [sl] (B "rootMw") :: ks)
          | None => None
          end
  end.

(* ---------- the meaning of the printed statements ---------- *)
(* a group value: absolute path prefix and middleware chain; hertz joins "/a" + "/b" = "/a/b",
   "/" + "/b" = "/b", "/a" + "/" = "/a/" *)
Definition join_path (pre p : bs) : bs :=
  let pre' := match rev pre with c :: r => if Byte.eqb c sl then rev r else pre | [] => pre end in
  pre' ++ p.

Record reg := { r_verb : bs; r_path : bs; r_chain : list bs; r_handler : bs }.

Definition env := list (list (bs * (bs * list bs))).     (* innermost block first *)
Fixpoint lookup_env (v : bs) (e : env) : option (bs * list bs) :=
  match e with
  | [] => None
  | sc :: r => match find (fun kv => bs_eqb v (fst kv)) sc with Some kv => Some (snd kv) | None => lookup_env v r end
  end.

Fixpoint interp (fuel : nat) (ss : list stmt) (e : env) : option (list reg * env) :=
  match fuel with
  | O => None
  | S f =>
      match ss with
      | [] => Some ([], e)
      | s :: rest =>
          match s with
          | SGroup var base path mw =>
              match lookup_env base e, e with
              | Some (pre, ch), sc :: outer =>
                  if existsb (fun kv => bs_eqb var (fst kv)) sc then None   (* redeclared in this block *)
                  else interp f rest (((var, (join_path pre path, ch ++ [mw])) :: sc) :: outer)
              | _, _ => None
              end
          | SHandle grp verb path mw h =>
              match lookup_env grp e with
              | Some (pre, ch) =>
                  match interp f rest e with
                  | Some (rs, e') => Some ({| r_verb := verb; r_path := join_path pre path; r_chain := ch ++ [mw]; r_handler := h |} :: rs, e')
                  | None => None
                  end
              | None => None
              end
          | SBlock body =>
              match interp f body ([] :: e) with
              | Some (rs1, _) =>
                  match interp f rest e with
                  | Some (rs2, e') => Some (rs1 ++ rs2, e')
                  | None => None
                  end
              | None => None
              end
          end
      end
  end.

Definition env0 : env := [[(B "r", ([sl], []))]].

(* ---------- rendering for the correspondence check ---------- *)
Fixpoint show_stmts (fuel : nat) (ss : list stmt) : list bs :=
  match fuel with
  | O => []
  | S f =>
      flat_map (fun s => match s with
                         | SGroup v b p m => [B "G|" ++ v ++ B "|" ++ b ++ B "|" ++ p ++ B "|" ++ m]
                         | SHandle g v p m h => [B "H|" ++ g ++ B "|" ++ v ++ B "|" ++ p ++ B "|" ++ m ++ B "|" ++ h]
                         | SBlock body => [B "{"] ++ show_stmts f body ++ [B "}"]
                         end) ss
  end.

Fixpoint decls_of (a : list bs) : list decl :=
  match a with
  | v :: p :: n :: r => {| d_verb := v; d_path := p; d_name := n |} :: decls_of r
  | _ => []
  end.

(* hz_router sortflag (verb path name)... : Register's body, one statement per line *)
Definition hz_router (a : list bs) : bs :=
  match a with
  | s :: r =>
      let t := build (bs_eqb s (B "1")) (B "api") (decls_of r) in
      match emit_root t with
      | Some ss => join [x0a] (show_stmts (S (depth t)) ss)
      | None => B "ERR names"
      end
  | [] => B "!ARGS"
  end.

(* what the printed program registers, by `interp`: "VERB path mw,mw,... handler" per line *)
Definition show_reg (r : reg) : bs :=
  r_verb r ++ B " " ++ r_path r ++ B " " ++ join (B ",") (r_chain r) ++ B " " ++ r_handler r.
Fixpoint stmts_size (fuel : nat) (ss : list stmt) : nat :=
  match fuel with
  | O => 0
  | S f => fold_right (fun s a => S (match s with SBlock b => stmts_size f b | _ => 0 end) + a) 1 ss
  end.
Definition hz_interp (a : list bs) : bs :=
  match a with
  | s :: r =>
      let t := build (bs_eqb s (B "1")) (B "api") (decls_of r) in
      match emit_root t with
      | Some ss => match interp (S (stmts_size (S (depth t)) ss)) ss env0 with
                   | Some (rs, _) => join [x0a] (map show_reg rs)
                   | None => B "ERR interp"
                   end
      | None => B "ERR names"
      end
  | [] => B "!ARGS"
  end.
