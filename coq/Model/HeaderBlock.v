(* C02 / C01: where a header block ends (ext.ReadRawHeaders / ext.HeadersComplete): everything up
   to and including the first empty line.  The header scanner, which edits the buffer in place,
   only runs on complete blocks.  Definitions only. *)
From Coq Require Import String.
From Coq Require Import List Strings.Byte NArith Bool Arith.
Require Import Bytes Show.
Import ListNotations.

Definition cLF : byte := x0a. Definition cCR : byte := x0d.

(* bytes up to the next LF (exclusive) and the rest after it *)
Fixpoint take_to_lf (s : bs) : option (bs * bs) :=
  match s with
  | [] => None
  | c :: r => if Byte.eqb c cLF then Some ([], r)
              else match take_to_lf r with Some (l, rest) => Some (c :: l, rest) | None => None end
  end.
Definition empty_line (l : bs) : bool := match l with [] => true | [c] => Byte.eqb c cCR | _ => false end.

(* length of the block including the empty line; None = need more bytes *)
Fixpoint block_len (fuel : nat) (s : bs) (acc : nat) : option nat :=
  match fuel with
  | O => None
  | S f => match take_to_lf s with
           | None => None
           | Some (l, rest) => let acc' := acc + length l + 1 in
                               if empty_line l then Some acc' else block_len f rest acc'
           end
  end.
Definition header_block_len (s : bs) : option nat := block_len (S (length s)) s 0.

Definition show_opt_nat (o : option nat) : bs := match o with Some n => show_nat n | None => B "MORE" end.
