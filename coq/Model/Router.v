(* C06: route selection.  Patterns are token lists (literal byte / named parameter / catch-all);
   `find` is the search of pkg/route/tree.go:router.find — static, then parameter, then catch-all,
   backtracking when a choice cannot complete — run over the implicit (uncompressed) trie of the
   registered routes; `is_best` is the documented priority rule, stated without any search. *)
From Coq Require Import String.
From Coq Require Import List Strings.Byte NArith Bool Arith.
Require Import Bytes Show Chunk.
Import ListNotations.

Definition sl : byte := "/"%byte.
Definition colon : byte := ":"%byte.
Definition star : byte := "*"%byte.

Inductive tok := L (c : byte) | P | A.
Definition pattern := list tok.
Definition route : Type := pattern * nat.       (* (remaining) pattern, route identity *)

Definition tok_eqb (a b : tok) : bool :=
  match a, b with L x, L y => Byte.eqb x y | P, P => true | A, A => true | _, _ => false end.

Definition cls (t : tok) : nat := match t with L _ => 0 | P => 1 | A => 2 end.

(* the part of s after its first segment (from the first '/' on), and that first segment *)
Fixpoint drop_seg (s : bs) : bs :=
  match s with [] => [] | x :: r => if Byte.eqb x sl then s else drop_seg r end.
Fixpoint take_seg (s : bs) : bs :=
  match s with [] => [] | x :: r => if Byte.eqb x sl then [] else x :: take_seg r end.

(* ---------- one pattern against a path ---------- *)
Fixpoint pmatch (p : pattern) (s : bs) (fuel : nat) : bool :=
  match fuel with O => false | S f =>
  match p with
  | [] => match s with [] => true | _ => false end
  | L c :: p' => match s with x :: s' => Byte.eqb c x && pmatch p' s' f | [] => false end
  | P :: p' => match s with [] => false | _ => pmatch p' (drop_seg s) f end
  | A :: _ => true
  end end.
Definition matches (p : pattern) (s : bs) : bool := pmatch p s (S (length p)).

(* the values a matching pattern gives its wildcards, in order *)
Fixpoint pvalues (p : pattern) (s : bs) : list bs :=
  match p with
  | [] => []
  | L _ :: p' => match s with _ :: s' => pvalues p' s' | [] => [] end
  | P :: p' => take_seg s :: pvalues p' (drop_seg s)
  | A :: _ => [s]
  end.

(* the documented priority at the first point where two patterns differ:
   end of pattern / literal < parameter < catch-all *)
Fixpoint better (p q : pattern) : bool :=
  match p, q with
  | t1 :: p', t2 :: q' => if tok_eqb t1 t2 then better p' q' else cls t1 <? cls t2
  | [], t2 :: _ => 0 <? cls t2
  | _, _ => false
  end.

(* ---------- the search ---------- *)
Definition adv (t : tok) (rs : list route) : list route :=
  flat_map (fun r => match fst r with t' :: p' => if tok_eqb t t' then [(p', snd r)] else [] | [] => [] end) rs.

Fixpoint first_with (f : pattern -> bool) (rs : list route) : option nat :=
  match rs with [] => None | r :: rs' => if f (fst r) then Some (snd r) else first_with f rs' end.

Definition is_nil (p : pattern) : bool := match p with [] => true | _ => false end.
Definition is_any (p : pattern) : bool := match p with A :: _ => true | _ => false end.

Definition orelse {T} (a b : option T) : option T := match a with Some _ => a | None => b end.

Definition with_val (v : bs) (r : option (nat * list bs)) : option (nat * list bs) :=
  match r with Some (h, vs) => Some (h, v :: vs) | None => None end.
Definition leaf (vs : list bs) (r : option nat) : option (nat * list bs) :=
  match r with Some h => Some (h, vs) | None => None end.

Fixpoint find (fuel : nat) (rs : list route) (s : bs) : option (nat * list bs) :=
  match fuel with
  | O => None
  | S f =>
      match s with
      | [] => orelse (leaf [] (first_with is_nil rs)) (leaf [[]] (first_with is_any rs))
      | x :: s' =>
          orelse (find f (adv (L x) rs) s')
            (orelse (with_val (take_seg s) (find f (adv P rs) (drop_seg s)))
               (leaf [s] (first_with is_any rs)))
      end
  end.

(* ---------- registered patterns as text ---------- *)
Fixpoint tokenize (fuel : nat) (s : bs) : pattern * list bs :=
  match fuel with
  | O => ([], [])
  | S f =>
      match s with
      | [] => ([], [])
      | c :: r =>
          if Byte.eqb c colon then
            let '(p, ns) := tokenize f (drop_seg r) in (P :: p, take_seg r :: ns)
          else if Byte.eqb c star then ([A], [r])
          else let '(p, ns) := tokenize f r in (L c :: p, ns)
      end
  end.
Definition pattern_of (s : bs) : pattern := fst (tokenize (S (length s)) s).
Definition names_of (s : bs) : list bs := snd (tokenize (S (length s)) s).

(* url.QueryUnescape: '+' is a space, %XX a byte, anything else after '%' an error *)
Fixpoint qunescape (s : bs) : option bs :=
  match s with
  | [] => Some []
  | c :: r =>
      if Byte.eqb c "%"%byte then
        match r with
        | h1 :: h2 :: r' =>
            match hexval h1, hexval h2, qunescape r' with
            | Some a, Some b, Some t => Some (b_of (a * 16 + b)%N :: t)
            | _, _, _ => None
            end
        | _ => None
        end
      else match qunescape r with
           | Some t => Some ((if Byte.eqb c "+"%byte then " "%byte else c) :: t)
           | None => None
           end
  end.
Definition unescape_value (on : bool) (v : bs) : bs :=
  if on then match qunescape v with Some u => u | None => v end else v.

Definition routes_of (pats : list bs) : list route :=
  combine (map pattern_of pats) (seq 0 (length pats)).

Definition fuel_for (rs : list route) : nat := S (list_max (map (fun r => length (fst r)) rs)).

Fixpoint show_params (ns vs : list bs) : list bs :=
  match ns, vs with
  | n :: ns', v :: vs' => (n ++ B "=" ++ hex_of v) :: show_params ns' vs'
  | _, _ => []
  end.

(* route_find unescape pats path: which registered pattern (by position), its parameters, its text *)
Definition route_find (unescape : bool) (pats : list bs) (path : bs) : bs :=
  let rs := routes_of pats in
  match find (fuel_for rs) rs path with
  | None => B "NONE"
  | Some (h, vs) =>
      let pat := nth h pats [] in
      B "H" ++ show_nat h ++ B " " ++ pat ++ B " " ++
      join (B ",") (show_params (names_of pat) (map (unescape_value unescape) vs))
  end.
