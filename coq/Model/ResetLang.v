(* C09: the statement language the T2 translator targets (Reset method bodies), its concrete
   semantics (values abstracted to zero / empty / other; opaque conditions answered by an
   arbitrary oracle), and the all-paths "definitely reset" analysis.  Definitions only. *)
From Coq Require Import String.
From Coq Require Import List Arith Bool Strings.Byte.
Require Import Bytes Show.
Import ListNotations.

Definition field := nat.
Inductive rhs := RZero | REmpty | ROther.
Inductive cond := CIsNil (f : field) | CNotNil (f : field) | COpaque.
Inductive stmt :=
| SSet (f : field) (r : rhs)
| SCall (m : nat)                     (* another method of the same receiver *)
| SSub (f : field) (total : bool)     (* f.Reset(): [total] = the callee's own obligation has been discharged *)
| SIf (c : cond) (t e : list stmt)
| SReturn
| SEffect
| SOpaque (src : list Byte.byte).   (* statement the translator does not understand *)

Definition methods := nat -> list stmt.

(* ---------- concrete semantics (what matters of it) ---------- *)
Inductive val := VZero | VEmpty | VOther.
Definition fresh (v : val) : bool := match v with VOther => false | _ => true end.
Definition cstate := field -> val.
Definition upd {A} (s : field -> A) (f : field) (v : A) : field -> A := fun g => if g =? f then v else s g.

Definition eval_rhs (r : rhs) : val := match r with RZero => VZero | REmpty => VEmpty | ROther => VOther end.

Definition cont {S O} (r : option (S * bool * O)) (k : S -> O -> option (S * bool * O)) : option (S * bool * O) :=
  match r with
  | Some (s1, false, o1) => k s1 o1
  | Some (s1, true, o1) => Some (s1, true, o1)
  | None => None
  end.

(* opaque conditions are answered by an oracle stream; returns (state, returned?, remaining oracle) *)
Fixpoint cexec (fuel : nat) (ms : methods) (b : list stmt) (s : cstate) (o : list bool)
  : option (cstate * bool * list bool) :=
  match fuel with O => None | S fu =>
  match b with
  | [] => Some (s, false, o)
  | st :: rest =>
      match st with
      | SSet f r => cexec fu ms rest (upd s f (eval_rhs r)) o
      | SCall m => match cexec fu ms (ms m) s o with
                   | Some (s1, _, o1) => cexec fu ms rest s1 o1      (* a return inside the callee ends the callee only *)
                   | None => None end
      | SSub f total => cexec fu ms rest (if total then upd s f VEmpty else upd s f VOther) o
      | SIf c t e =>
          let '(bv, o1) := match c with
                           | CIsNil f => (match s f with VZero => true | _ => false end, o)
                           | CNotNil f => (match s f with VZero => false | _ => true end, o)
                           | COpaque => match o with x :: o' => (x, o') | [] => (false, []) end
                           end in
          cont (cexec fu ms (if bv then t else e) s o1) (fun s1 o2 => cexec fu ms rest s1 o2)
      | SReturn => Some (s, true, o)
      | SEffect => cexec fu ms rest s o
      | SOpaque _ => None
      end
  end end.

(* ---------- the analysis: all paths over an abstract state ---------- *)
Definition astate := field -> bool.        (* true = known to be observably fresh *)
Definition paths := list (astate * bool).

(* continue every non-returned path with k *)
Fixpoint bindp (ps : paths) (k : astate -> option paths) : option paths :=
  match ps with
  | [] => Some []
  | (a, true) :: r => match bindp r k with Some l => Some ((a, true) :: l) | None => None end
  | (a, false) :: r => match k a, bindp r k with Some l1, Some l2 => Some (l1 ++ l2) | _, _ => None end
  end.

Fixpoint aexec (fuel : nat) (ms : methods) (b : list stmt) (a : astate) : option paths :=
  match fuel with O => None | S fu =>
  match b with
  | [] => Some [(a, false)]
  | st :: rest =>
      match st with
      | SSet f r => aexec fu ms rest (upd a f (fresh (eval_rhs r)))
      | SCall m => match aexec fu ms (ms m) a with
                   | None => None
                   | Some ps => bindp (map (fun p => (fst p, false)) ps) (aexec fu ms rest)
                   end
      | SSub f total => aexec fu ms rest (upd a f total)
      | SIf c t e =>
          let at_ := match c with CIsNil f => upd a f true | _ => a end in
          let ae := match c with CNotNil f => upd a f true | _ => a end in
          match aexec fu ms t at_, aexec fu ms e ae with
          | Some l1, Some l2 => bindp (l1 ++ l2) (aexec fu ms rest)
          | _, _ => None
          end
      | SReturn => Some [(a, true)]
      | SEffect => aexec fu ms rest a
      | SOpaque _ => None
      end
  end end.

Definition sound (a : astate) (s : cstate) : Prop := forall f, a f = true -> fresh (s f) = true.

Definition definitely_reset (fuel : nat) (ms : methods) (m : nat) (fields : list field) : option (list field) :=
  match aexec fuel ms (ms m) (fun _ => false) with
  | None => None
  | Some ps => Some (filter (fun f => forallb (fun p : astate * bool => fst p f) ps) fields)
  end.


(* ---- obligations over the generated data ---- *)
Definition ms_of (l : list (list stmt)) : methods := fun m => nth m l [].
Definition all_idx (n : nat) : list nat := seq 0 n.
Definition origin_of (leaves : list (bs * bs)) (i : nat) : bs := snd (nth i leaves ([], [])).
Definition is_exempt (exempt : list bs) (o : bs) : bool := existsb (bs_eqb o) exempt.

Definition analysis_fuel : nat := 400.

(* every leaf is definitely reset by the entry method, or exempt (scratch / connection-scoped) *)
Definition unreset (fuel : nat) (leaves : list (bs * bs)) (ms : list (list stmt)) (entry : nat) (exempt : list bs) : option (list bs) :=
  match definitely_reset fuel (ms_of ms) entry (all_idx (length leaves)) with
  | None => None
  | Some ok => Some (map (fun i => fst (nth i leaves ([], [])))
                         (filter (fun i => negb (existsb (Nat.eqb i) ok) && negb (is_exempt exempt (origin_of leaves i)))
                                 (all_idx (length leaves))))
  end.
Definition check_reset fuel leaves ms entry exempt : bool :=
  match unreset fuel leaves ms entry exempt with Some [] => true | _ => false end.

Definition show_unreset (o : option (list bs)) : bs :=
  match o with None => B "!OPAQUE-OR-FUEL" | Some l => join (B ",") l end.
