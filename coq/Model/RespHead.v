(* The response head as resp.ReadHeader sees it (pkg/protocol/http1/resp/header.go): parseFirstLine, then
   parseHeaders over the fields of the scanner: the status code, the protocol version and the framing
   decision (content length / chunked / until close) taken from Content-Length and Transfer-Encoding.
   Definitions only. *)
From Coq Require Import String.
From Coq Require Import List Strings.Byte NArith ZArith Bool Arith.
Require Import Bytes Show Res Tables Chunk TrailerKeys Range HeaderScan ReqHead RespFrame.
Import ListNotations.
Local Open Scope nat_scope.

Inductive slres := SLNeedMore | SLBad | SLOk (http11 : bool) (code : Z) (rest : bs).

Definition parse_status_line (buf : bs) : slres :=
  match first_nonempty_line (S (length buf)) buf with
  | None => SLNeedMore
  | Some (b, rest) =>
      match index_byte SPC b with
      | None => SLBad
      | Some n =>
          let b1 := skipn (S n) b in
          match parse_uint_buf b1 with
          | PU_err => SLBad
          | PU_ok code k =>
              match nth_error b1 k with
              | Some c => if Byte.eqb c SPC then SLOk (bs_eqb (firstn n b) bytestr_StrHTTP11) code rest else SLBad
              | None => SLOk (bs_eqb (firstn n b) bytestr_StrHTTP11) code rest
              end
          end
      end
  end.

(* the content length after one field: -2 until close, -1 chunked; nothing overrides chunked.  The flag is
   parseHeaders' `err` as far as Content-Length sets it: the LAST Content-Length seen while the message is not
   chunked decides whether the head is refused (a Trailer field, which also assigns it, is not modelled) *)
Definition rframe_step (st : Z * bool) (kv : bs * bs) : Z * bool :=
  let '(clen, e) := st in
  let '(k, v) := kv in
  match k with
  | [] => st
  | _ =>
      if ci_compare k bytestr_StrContentLength then
        if Z.eqb clen (-1) then st
        else match Range.parse_uint v with Some n => (n, false) | None => ((-2)%Z, true) end
      else if ci_compare k bytestr_StrTransferEncoding then
        if bs_eqb v bytestr_StrIdentity then st else ((-1)%Z, e)
      else st
  end.
Definition rframe_of (fs : list (bs * bs)) : Z * bool := fold_left rframe_step fs ((-2)%Z, false).

(* ---- connection persistence (parseHeaders, normalising mode: stored keys are canonical) ----
   ext.HasHeaderValue: comma separated list, elements stripped of spaces, compared ignoring ASCII case *)
Fixpoint has_header_value (fuel : nat) (s x : bs) : bool :=
  match fuel with
  | O => false
  | S f =>
      match s with
      | [] => false
      | _ => match index_byte x2c s with
             | None => ci_compare (trim s) x
             | Some n => ci_compare (trim (firstn n s)) x || has_header_value f (skipn (S n) s) x
             end
      end
  end.
Definition has_value (s x : bs) : bool := has_header_value (S (length s)) s x.

(* the close bit and the first Connection value kept in h.h after one field *)
Definition rconn_step (st : bool * option bs) (kv : bs * bs) : bool * option bs :=
  let '(cl, first) := st in
  let '(k, v) := kv in
  match k with
  | [] => st
  | _ =>
      if ci_compare k bytestr_StrConnection then
        if bs_eqb v bytestr_StrClose then (true, first)
        else (false, match first with None => Some v | Some _ => first end)
      else st
  end.
Definition rconn_of (fs : list (bs * bs)) : bool * option bs := fold_left rconn_step fs (false, None).

(* ResponseHeader.ConnectionClose() after a successful parseHeaders *)
Definition resp_close (h11 : bool) (status clen : Z) (fs : list (bs * bs)) : bool :=
  let '(cl, first) := rconn_of fs in
  let stored := match first with Some v => v | None => [] end in
  let keep := has_value stored bytestr_StrKeepAlive in
  (* ConnectionUpgrade peeks through Peek("Connection"): "close" when the bit is set *)
  let upgrade := if cl then false else keep in
  let cl1 := if Z.eqb clen (-2) && negb upgrade && negb (must_skip_content_length status) then true else cl in
  if negb h11 && negb cl1 then negb keep else cl1.

(* RequestHeader.ConnectionClose() after a successful req.parseHeaders: the same Connection bookkeeping,
   no until-close framing on the request side *)
Definition req_close (h11 : bool) (fs : list (bs * bs)) : bool :=
  let '(cl, first) := rconn_of fs in
  let stored := match first with Some v => v | None => [] end in
  if negb h11 && negb cl then negb (has_value stored bytestr_StrKeepAlive) else cl.
Definition req_close_of (a : list bs) : bs :=
  let buf := nth 0 a [] in
  match parse_first_line buf with
  | FLOk m u h11 rest =>
      match scan_all (S (length rest)) rest with
      | SFields fs _ => show_bool (req_close h11 fs)
      | _ => B "-"
      end
  | _ => B "-"
  end.

(* resp_head block: "OK http11 status contentLength consumed close" | "MORE" | "BAD <why>" *)
Definition resp_head (a : list bs) : bs :=
  let buf := nth 0 a [] in
  match parse_status_line buf with
  | SLNeedMore => B "MORE"
  | SLBad => B "BAD status-line"
  | SLOk h11 code rest =>
      match scan_all (S (length rest)) rest with
      | SNeedMore _ => B "MORE"
      | SInvalid _ => B "BAD name"
      | SFields fs rest' =>
          let '(clen, e) := rframe_of fs in
          if e then B "BAD length"
          else (* ResponseHeader.StatusCode() answers 200 for a stored 0 *)
            B "OK " ++ show_bool h11 ++ B " " ++ show_Z (if Z.eqb code 0 then 200%Z else code) ++ B " " ++ show_Z clen ++
            B " " ++ show_nat (length buf - length rest') ++ B " " ++
            show_bool (resp_close h11 (if Z.eqb code 0 then 200%Z else code) clen fs)
      end
  end.
