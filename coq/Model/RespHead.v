(* The response head as resp.ReadHeader sees it (pkg/protocol/http1/resp/header.go): parseFirstLine, then
   parseHeaders over the fields of the scanner: the status code, the protocol version and the framing
   decision (content length / chunked / until close) taken from Content-Length and Transfer-Encoding.
   Definitions only. *)
From Coq Require Import String.
From Coq Require Import List Strings.Byte NArith ZArith Bool Arith.
Require Import Bytes Show Res Tables Chunk TrailerKeys Range HeaderScan ReqHead.
Import ListNotations.
Local Open Scope nat_scope.

Inductive slres := SLNeedMore | SLBad | SLOk (http11 : bool) (code : Z) (rest : bs).

Definition parse_status_line (buf : bs) : slres :=
  match first_nonempty_line (S (length buf)) buf with
  | None => SLNeedMore
  | Some (b, rest) =>
      match index_byte SPC b with
      | None => SLBad
      | Some n =>
          let b1 := skipn (S n) b in
          match parse_uint_buf b1 with
          | PU_err => SLBad
          | PU_ok code k =>
              match nth_error b1 k with
              | Some c => if Byte.eqb c SPC then SLOk (bs_eqb (firstn n b) bytestr_StrHTTP11) code rest else SLBad
              | None => SLOk (bs_eqb (firstn n b) bytestr_StrHTTP11) code rest
              end
          end
      end
  end.

(* the content length after one field: -2 until close, -1 chunked; nothing overrides chunked.  The flag is
   parseHeaders' `err` as far as Content-Length sets it: the LAST Content-Length seen while the message is not
   chunked decides whether the head is refused (a Trailer field, which also assigns it, is not modelled) *)
Definition rframe_step (st : Z * bool) (kv : bs * bs) : Z * bool :=
  let '(clen, e) := st in
  let '(k, v) := kv in
  match k with
  | [] => st
  | _ =>
      if ci_compare k bytestr_StrContentLength then
        if Z.eqb clen (-1) then st
        else match Range.parse_uint v with Some n => (n, false) | None => ((-2)%Z, true) end
      else if ci_compare k bytestr_StrTransferEncoding then
        if bs_eqb v bytestr_StrIdentity then st else ((-1)%Z, e)
      else st
  end.
Definition rframe_of (fs : list (bs * bs)) : Z * bool := fold_left rframe_step fs ((-2)%Z, false).

(* resp_head block: "OK http11 status contentLength consumed" | "MORE" | "BAD <why>" *)
Definition resp_head (a : list bs) : bs :=
  let buf := nth 0 a [] in
  match parse_status_line buf with
  | SLNeedMore => B "MORE"
  | SLBad => B "BAD status-line"
  | SLOk h11 code rest =>
      match scan_all (S (length rest)) rest with
      | SNeedMore _ => B "MORE"
      | SInvalid _ => B "BAD name"
      | SFields fs rest' =>
          let '(clen, e) := rframe_of fs in
          if e then B "BAD length"
          else (* ResponseHeader.StatusCode() answers 200 for a stored 0 *)
            B "OK " ++ show_bool h11 ++ B " " ++ show_Z (if Z.eqb code 0 then 200%Z else code) ++ B " " ++ show_Z clen ++
            B " " ++ show_nat (length buf - length rest')
      end
  end.
