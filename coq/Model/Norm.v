(* C07: protocol.normalizePath (pkg/protocol/uri.go, unix build) — definitions only.
   Each Go loop is transcribed on fuel; None = fuel exhausted (excluded by the theorems). *)
From Coq Require Import String.
From Coq Require Import List Strings.Byte NArith Bool Arith.
Require Import Bytes Show Tables Codec.
Import ListNotations.

Definition sl : byte := x2f.
Definition dd : bs := [x2e; x2e].
Definition pat (X : bs) : bs := sl :: X ++ [sl].
Definition pSS : bs := pat [].          (* bytestr.StrSlashSlash        "//"   *)
Definition pSDS : bs := pat [x2e].      (* bytestr.StrSlashDotSlash     "/./"  *)
Definition pSDDS : bs := pat dd.        (* bytestr.StrSlashDotDotSlash  "/../" *)
Definition pSDD : bs := sl :: dd.       (* bytestr.StrSlashDotDot       "/.."  *)

(* bytes.LastIndexByte *)
Fixpoint rindex (c : byte) (s : bs) : option nat :=
  match s with
  | [] => None
  | x :: r => match rindex c r with
              | Some k => Some (S k)
              | None => if Byte.eqb x c then Some 0 else None
              end
  end.

(* remove duplicate slashes: the search continues from the match position *)
Fixpoint loop1 (fuel : nat) (s : bs) : option bs :=
  match fuel with
  | O => None
  | S f => match find_sub pSS s with
           | None => Some s
           | Some n => match loop1 f (skipn (S n) s) with
                       | Some r => Some (firstn n s ++ r)
                       | None => None
                       end
           end
  end.

(* remove /./ parts: the search restarts from the beginning *)
Fixpoint loop2 (fuel : nat) (s : bs) : option bs :=
  match fuel with
  | O => None
  | S f => match find_sub pSDS s with
           | None => Some s
           | Some n => loop2 f (firstn n s ++ skipn (n + 2) s)
           end
  end.

(* remove /foo/../ parts *)
Fixpoint loop3 (fuel : nat) (s : bs) : option bs :=
  match fuel with
  | O => None
  | S f => match find_sub pSDDS s with
           | None => Some s
           | Some n =>
               let nn := match rindex sl (firstn n s) with Some k => k | None => 0 end in
               loop3 f (firstn nn s ++ skipn (n + 3) s)
           end
  end.

Definition has_suffix (p s : bs) : bool := has_prefix (rev p) (rev s).

(* remove trailing /foo/.. *)
Definition final (s : bs) : bs :=
  if has_suffix pSDD s then
    let n := length s - 3 in
    match rindex sl (firstn n s) with
    | None => [sl]
    | Some nn => firstn (S nn) s
    end
  else s.

Definition normalize_tail (d : bs) : option bs :=
  let f := S (length d) in
  match loop1 f d with
  | None => None
  | Some s1 => match loop2 f s1 with
               | None => None
               | Some s2 => match loop3 f s2 with
                            | None => None
                            | Some s3 => Some (final s3)
                            end
               end
  end.

(* addLeadingSlash (unix) decides on the UNDECODED first byte *)
Definition add_leading_slash (src : bs) : bs :=
  match src with
  | c :: _ => if Byte.eqb c sl then [] else [sl]
  | [] => [sl]
  end.

Definition normalize_path (src : bs) : option bs :=
  normalize_tail (add_leading_slash src ++ decode_noplus src).

Definition show_obs (o : option bs) : bs := match o with Some s => s | None => B "!FUEL" end.
