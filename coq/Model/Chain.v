(* C12: RequestContext.Next / Abort (pkg/app/context.go) as an interpreter over handler
   programs — definitions only.  index is int8 (explicit wrap8); AbortIndex comes from Gen.
   `wrapped` and the `Ab` event are ghosts: they never influence behaviour. *)
From Coq Require Import String.
From Coq Require Import List ZArith Bool Arith Strings.Byte.
Require Import Bytes Show Tables.
Import ListNotations.
Open Scope Z_scope.

Inductive action := ANext | AAbort | AMark (n : nat).
Definition handler := list action.
Inductive ev := Enter (i : Z) | Exit (i : Z) | Mark (i : Z) (n : nat) | Ab.

Definition abortIndex : Z := rconsts_AbortIndex.
Definition wrap8 (z : Z) : Z := ((z + 128) mod 256) - 128.

Record st := { idx : Z; tr : list ev (* newest first *); panicked : bool; wrapped : bool (* ghost *) }.

Definition incr (s : st) : st :=
  {| idx := wrap8 (idx s + 1); tr := tr s; panicked := panicked s;
     wrapped := wrapped s || (127 <? idx s + 1) |}.

Definition nthh (hs : list handler) (i : Z) : option handler :=
  if (i <? 0) then None else nth_error hs (Z.to_nat i).

Fixpoint next (fuel : nat) (hs : list handler) (s : st) {struct fuel} : option st :=
  match fuel with
  | O => None
  | S f => loop f hs (incr s)
  end
with loop (fuel : nat) (hs : list handler) (s : st) {struct fuel} : option st :=
  match fuel with
  | O => None
  | S f =>
      if panicked s then Some s else
      if idx s <? Z.of_nat (length hs) then
        match nthh hs (idx s) with
        | None => Some {| idx := idx s; tr := tr s; panicked := true; wrapped := wrapped s |}
        | Some h =>
            let i := idx s in
            match acts f hs i h {| idx := idx s; tr := Enter i :: tr s; panicked := false; wrapped := wrapped s |} with
            | None => None
            | Some s2 =>
                if panicked s2 then Some s2 else
                loop f hs (incr {| idx := idx s2; tr := Exit i :: tr s2; panicked := false; wrapped := wrapped s2 |})
            end
        end
      else Some s
  end
with acts (fuel : nat) (hs : list handler) (i : Z) (a : list action) (s : st) {struct fuel} : option st :=
  match fuel with
  | O => None
  | S f =>
      match a with
      | [] => Some s
      | ANext :: a' => match next f hs s with
                       | None => None
                       | Some s1 => if panicked s1 then Some s1 else acts f hs i a' s1
                       end
      | AAbort :: a' => acts f hs i a' {| idx := abortIndex; tr := Ab :: tr s; panicked := panicked s; wrapped := wrapped s |}
      | AMark n :: a' => acts f hs i a' {| idx := idx s; tr := Mark i n :: tr s; panicked := panicked s; wrapped := wrapped s |}
      end
  end.


Definition init : st := {| idx := -1; tr := []; panicked := false; wrapped := false |}.

(* ---- encoding for the correspondence check ----
   a handler program is a string over N (Next), A (Abort), M (mark, numbered by position) *)
Fixpoint parse_actions (s : bs) (pos : nat) : list action :=
  match s with
  | [] => []
  | c :: r => (if Byte.eqb c x4e then [ANext] else if Byte.eqb c x41 then [AAbort] else [AMark pos])
              ++ parse_actions r (S pos)
  end.
Definition show_ev (e : ev) : bs :=
  match e with
  | Enter i => B "E" ++ show_Z i
  | Exit i => B "X" ++ show_Z i
  | Mark i n => B "M" ++ show_Z i ++ B "." ++ show_nat n
  | Ab => B "A"
  end.
Definition run_chain (progs : list bs) : bs :=
  let hs := map (fun p => parse_actions p 0) progs in
  let fuel := (2 + length hs + fold_right (fun h a => (length h + a)%nat) 0%nat hs)%nat in
  match next (fuel * fuel + fuel) hs init with
  | None => B "!FUEL"
  | Some s => (if panicked s then B "PANIC " else []) ++ (if wrapped s then B "WRAPPED " else [])
              ++ join (B " ") (map show_ev (rev (tr s)))
  end.
