(* C05: the emission language the T3 translator targets, its semantics, the structural safety
   predicate, and the model of appendHeaderLine / newlineToSpace over the generated tables. *)
From Coq Require Import String.
From Coq Require Import List Strings.Byte NArith Bool.
Require Import Bytes Show Tables.
Import ListNotations.

Inductive sexpr :=
| Lit (b : bs)          (* a constant of the source (bytestr.X, a literal) *)
| Atom (src : bs)       (* any other expression: bytes the application controls *)
| Bad (src : bs).       (* expression the translator refuses *)

Inductive ser :=
| Raw (e : sexpr)                      (* dst = append(dst, e...) *)
| HLine (k v : sexpr)                  (* dst = appendHeaderLine(dst, k, v) *)
| CallS (f : bs) (args : list sexpr)   (* dst = f(dst, ...) for any other f *)
| Skip                                 (* statement that does not mention dst *)
| If (a b : list ser)                  (* condition uninterpreted *)
| Loop (a : list ser)                  (* for / range: any number of iterations *)
| Ret (a : list ser)                   (* return append(dst, ...) / return dst *)
| Opaque (src : bs).

Definition CR : byte := x0d. Definition LF : byte := x0a. Definition COLON : byte := x3a. Definition SP : byte := x20.
Definition CRLF : bs := [CR; LF].

(* bytesconv tables *)
Definition valid_name_byte (b : byte) : bool := negb (Byte.eqb (tbl_get ValidHeaderFieldNameTable b) x00).
Definition nl2sp1 (b : byte) : byte := tbl_get NewlineToSpaceTable b.
Definition nl2sp (v : bs) : bs := map nl2sp1 v.

(* protocol.appendHeaderLine *)
Definition append_header_line (k v : bs) : bs :=
  match k with
  | [] => []
  | _ => if forallb valid_name_byte k then k ++ COLON :: SP :: nl2sp v ++ CRLF else []
  end.

(* ---- semantics: what a run appends to dst ---- *)
Inductive ev := ERaw (b : bs) | ELine (k v : bs).

Definition ev_bytes (e : ev) : bs :=
  match e with ERaw b => b | ELine k v => append_header_line k v end.
Definition evs_bytes (l : list ev) : bs := flat_map ev_bytes l.

(* possible values of an expression: a literal is itself, an atom is anything *)
Definition val_of (e : sexpr) (b : bs) : Prop :=
  match e with Lit c => b = c | Atom _ => True | Bad _ => False end.

(* big-step runs: events appended, and whether the function returned *)
Inductive exec_s : ser -> list ev -> bool -> Prop :=
| X_raw e b : val_of e b -> exec_s (Raw e) [ERaw b] false
| X_line k v kb vb : val_of k kb -> val_of v vb -> exec_s (HLine k v) [ELine kb vb] false
| X_skip : exec_s Skip [] false
| X_if_l a b evs r : exec_b a evs r -> exec_s (If a b) evs r
| X_if_r a b evs r : exec_b b evs r -> exec_s (If a b) evs r
| X_loop_0 a : exec_s (Loop a) [] false
| X_loop_ret a evs : exec_b a evs true -> exec_s (Loop a) evs true
| X_loop_S a e1 e2 r : exec_b a e1 false -> exec_s (Loop a) e2 r -> exec_s (Loop a) (e1 ++ e2) r
| X_ret a evs r : exec_b a evs r -> exec_s (Ret a) evs true
with exec_b : list ser -> list ev -> bool -> Prop :=
| X_nil : exec_b [] [] false
| X_cons_ret s rest evs : exec_s s evs true -> exec_b (s :: rest) evs true
| X_cons s rest e1 e2 r : exec_s s e1 false -> exec_b rest e2 r -> exec_b (s :: rest) (e1 ++ e2) r.

(* ---- the structural safety predicate ---- *)
Fixpoint line_only (s : ser) : bool :=
  match s with
  | HLine (Lit _) (Lit _) | HLine (Lit _) (Atom _) | HLine (Atom _) (Lit _) | HLine (Atom _) (Atom _) => true
  | Skip => true
  | If a b => forallb line_only a && forallb line_only b
  | Loop a => forallb line_only a
  | _ => false
  end.

Fixpoint skip_only (s : ser) : bool :=
  match s with
  | Skip => true
  | If a b => forallb skip_only a && forallb skip_only b
  | Loop a => forallb skip_only a
  | _ => false
  end.
Definition start_only (s : ser) : bool :=
  match s with
  | Raw (Lit _) | Raw (Atom _) => true
  | _ => skip_only s
  end.

Fixpoint span_start (p : list ser) : list ser * list ser :=
  match p with
  | s :: r => if start_only s then let (a, b) := span_start r in (s :: a, b) else ([], p)
  | [] => ([], [])
  end.

Definition sexpr_is_crlf (e : sexpr) : bool := match e with Lit b => bs_eqb b CRLF | _ => false end.

(* body ++ one of the two return idioms; returns the body *)
Definition is_tail (p : list ser) : bool :=
  match p with
  | [Ret [Raw e]] => sexpr_is_crlf e
  | [Raw e; Ret []] => sexpr_is_crlf e
  | _ => false
  end.
Fixpoint split_tail (p : list ser) : option (list ser) :=
  if is_tail p then Some []
  else match p with
       | s :: r => match split_tail r with Some b => Some (s :: b) | None => None end
       | [] => None
       end.

Definition safe_skeleton (p : list ser) : bool :=
  let (pre, rest) := span_start p in
  match split_tail rest with
  | Some body => forallb line_only body
  | None => false
  end.

(* what the checked skeleton of appendHeaderLine itself must be (ties the Go text to
   `append_header_line` above; a changed body makes the obligation in Props/C05.v fail) *)
Definition expected_appendHeaderLine : list ser :=
  [ If [Ret []] []; Loop [If [Ret []] []];
    Raw (Atom (B "key")); Raw (Lit (B ": ")); Raw (Atom (B "newlineToSpace(value)"));
    Ret [Raw (Lit CRLF)] ].

Definition sexpr_eqb (a b : sexpr) : bool :=
  match a, b with
  | Lit x, Lit y | Atom x, Atom y | Bad x, Bad y => bs_eqb x y
  | _, _ => false
  end.
Fixpoint list_eqb {A} (f : A -> A -> bool) (a b : list A) : bool :=
  match a, b with
  | [], [] => true
  | x :: a', y :: b' => f x y && list_eqb f a' b'
  | _, _ => false
  end.
Fixpoint ser_eqb (a b : ser) {struct a} : bool :=
  let fix leq (x y : list ser) {struct x} : bool :=
    match x, y with
    | [], [] => true
    | s :: x', t :: y' => ser_eqb s t && leq x' y'
    | _, _ => false
    end in
  match a, b with
  | Raw x, Raw y => sexpr_eqb x y
  | HLine k v, HLine k' v' => sexpr_eqb k k' && sexpr_eqb v v'
  | CallS f x, CallS g y => bs_eqb f g && list_eqb sexpr_eqb x y
  | Skip, Skip => true
  | If a1 b1, If a2 b2 => leq a1 a2 && leq b1 b2
  | Loop a1, Loop a2 => leq a1 a2
  | Ret a1, Ret a2 => leq a1 a2
  | Opaque x, Opaque y => bs_eqb x y
  | _, _ => false
  end.
Definition skel_eqb (a b : list ser) : bool := ser_eqb (Loop a) (Loop b).

(* ---- the strict line reader (independent of hertz) ---- *)
Fixpoint take_line (s : bs) : option (bs * bs) :=
  match s with
  | [] => None
  | c :: r =>
      if Byte.eqb c CR then
        match r with
        | d :: r' => if Byte.eqb d LF then Some ([], r') else None
        | [] => None
        end
      else if Byte.eqb c LF then None
      else match take_line r with
           | Some (l, rest) => Some (c :: l, rest)
           | None => None
           end
  end.

Fixpoint split_colon (l : bs) : option (bs * bs) :=
  match l with
  | [] => None
  | c :: r => if Byte.eqb c COLON then
                match r with
                | s :: v => if Byte.eqb s SP then Some ([], v) else None
                | [] => None
                end
              else match split_colon r with
                   | Some (k, v) => Some (c :: k, v)
                   | None => None
                   end
  end.

Fixpoint strict_lines (fuel : nat) (s : bs) : option (list (bs * bs) * bs) :=
  match fuel with
  | O => None
  | S f =>
      match take_line s with
      | None => None
      | Some ([], rest) => Some ([], rest)          (* empty line: end of block *)
      | Some (l, rest) =>
          match split_colon l with
          | None => None
          | Some ([], _) => None                      (* empty field name *)
          | Some kv => match strict_lines f rest with
                       | Some (kvs, body) => Some (kv :: kvs, body)
                       | None => None
                       end
          end
      end
  end.
