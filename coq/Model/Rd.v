(* C13 spec (shared by C01/C02/C14): the buffered reader as a byte queue over a scripted source,
   with standard.Conn's error behaviour (sticky error of a read that also returned bytes; a
   read that returns no bytes and an error fails the Peek even when bytes are buffered).
   Definitions only. *)
From Coq Require Import String.
From Coq Require Import List Strings.Byte NArith Bool Arith.
Require Import Bytes Show.
Import ListNotations.

(* one result of the underlying net.Conn.Read: bytes (possibly none) and whether it came with an
   error.  (0 bytes, no error) is excluded by the net.Conn contract. *)
Record rres := { rbytes : bs; rerr : bool }.

Record rd := {
  buf : bs;            (* buffered, unconsumed bytes: Len() = length buf *)
  src : list rres;     (* what the connection will deliver next; exhausted = (0, EOF) forever *)
  stored : bool        (* c.err: error of a read that also returned bytes *)
}.

Definition rd_len (r : rd) : nat := length (buf r).

(* fill(i): Some r' = returned nil, None-with-state = returned the error *)
Fixpoint fill (fuel : nat) (i : nat) (r : rd) : rd * bool (* error returned *) :=
  match fuel with
  | O => (r, true)
  | S f =>
      if i <=? length (buf r) then (r, false)
      else if stored r then
        (match buf r with
         | [] => ({| buf := []; src := src r; stored := false |}, true)
         | _ => (r, false)                           (* error re-stored, fill returns nil *)
         end)
      else
        match src r with
        | [] => (r, true)                            (* (0, EOF) *)
        | x :: rest =>
            match rbytes x with
            | [] => ({| buf := buf r; src := rest; stored := false |}, true)   (* (0, err) *)
            | bsx =>
                let r' := {| buf := buf r ++ bsx; src := rest; stored := rerr x |} in
                if rerr x then (r', false) else fill f i r'
            end
        end
  end.
Definition fill_fuel (r : rd) : nat := S (S (length (src r))).

(* Peek(i): bytes, error flag, new state *)
Definition peek (i : nat) (r : rd) : bs * bool * rd :=
  let '(r1, e) := fill (fill_fuel r) i r in
  if e then ([], true, r1)
  else if length (buf r1) <? i
       then (buf r1, stored r1, {| buf := buf r1; src := src r1; stored := false |})   (* short: readErr() *)
       else (firstn i (buf r1), false, r1).

(* Skip(n): error when not enough is buffered *)
Definition skip (n : nat) (r : rd) : bool * rd :=
  if length (buf r) <? n then (true, r)
  else (false, {| buf := skipn n (buf r); src := src r; stored := stored r |}).

Definition read_byte (r : rd) : option byte * rd :=
  let '(b, e, r1) := peek 1 r in
  if e then (None, r1)
  else match b with
       | c :: _ => let '(_, r2) := skip 1 r1 in (Some c, r2)
       | [] => (None, r1)
       end.

Definition read_binary (i : nat) (r : rd) : option bs * rd :=
  let '(b, e, r1) := peek i r in
  if e then (None, r1) else let '(_, r2) := skip i r1 in (Some b, r2).

(* ---- scripts for the correspondence check ---- *)
Inductive op := OPeek (n : nat) | OSkip (n : nat) | OReadByte | OReadBinary (n : nat) | OLen | ORelease.

Definition show_be (b : bs) (e : bool) : bs := hex_of b ++ (if e then B "!" else []).
Definition run_op (o : op) (r : rd) : bs * rd :=
  match o with
  | OPeek n => let '(b, e, r') := peek n r in (B "P" ++ show_be b e, r')
  | OSkip n => let '(e, r') := skip n r in (B "S" ++ (if e then B "!" else []), r')
  | OReadByte => let '(o, r') := read_byte r in
                 (B "B" ++ match o with Some c => hex_of [c] | None => B "!" end, r')
  | OReadBinary n => let '(o, r') := read_binary n r in
                     (B "R" ++ match o with Some b => hex_of b | None => B "!" end, r')
  | OLen => (B "L", r)   (* how far the implementation reads ahead is not part of the spec: the
                            harness checks Len = bytes handed out by the source - bytes consumed *)
  | ORelease => (B "X", r)
  end.
Fixpoint run_ops (ops : list op) (r : rd) : list bs :=
  match ops with
  | [] => []
  | o :: rest => let '(out, r') := run_op o r in out :: run_ops rest r'
  end.

(* parsing of the harness encoding: ops "P12,S3,B,R5,L,X"; each source element = flag byte
   ('1' = the read also returned an error) followed by its bytes *)
Fixpoint split_on (c : byte) (s : bs) (cur : bs) : list bs :=
  match s with
  | [] => [rev cur]
  | x :: r => if Byte.eqb x c then rev cur :: split_on c r [] else split_on c r (x :: cur)
  end.
Definition parse_op (s : bs) : list op :=
  match s with
  | c :: r =>
      if Byte.eqb c x50 then [OPeek (parse_nat r)]
      else if Byte.eqb c x53 then [OSkip (parse_nat r)]
      else if Byte.eqb c x42 then [OReadByte]
      else if Byte.eqb c x52 then [OReadBinary (parse_nat r)]
      else if Byte.eqb c x4c then [OLen]
      else if Byte.eqb c x58 then [ORelease]
      else []
  | [] => []
  end.
Definition parse_ops (s : bs) : list op := flat_map parse_op (split_on x2c s []).
Definition parse_src (a : bs) : rres :=
  match a with
  | f :: r => {| rbytes := r; rerr := Byte.eqb f x31 |}
  | [] => {| rbytes := []; rerr := true |}
  end.
Definition rd_script (args : list bs) : bs :=
  match args with
  | ops :: frags => join (B " ") (run_ops (parse_ops ops) {| buf := []; src := map parse_src frags; stored := false |})
  | [] => []
  end.
