(* C08 / C03: bytesconv.ParseUintBuf / ParseUint (Go int = 64-bit, explicit wrap),
   bytesconv.AppendUint, app.ParseByteRange, ResponseHeader.SetContentRange.  Definitions only. *)
From Coq Require Import String.
From Coq Require Import List Strings.Byte NArith ZArith Bool Arith.
Require Import Bytes Show Res Tables.
Import ListNotations.
Open Scope Z_scope.

Definition two63 : Z := 9223372036854775808.
Definition two64 : Z := 18446744073709551616.
Definition wrap64 (z : Z) : Z := ((z + two63) mod two64) - two63.

(* ParseUintBuf: value, bytes consumed; PU_err for the three error returns *)
Inductive pu := PU_ok (v : Z) (n : nat) | PU_err.
Fixpoint pub (s : bs) (i : nat) (v : Z) : pu :=
  match s with
  | [] => PU_ok v i
  | c :: r =>
      let k := Z.of_N (n_of c) - 48 in
      if (k <? 0) || (9 <? k) then (match i with O => PU_err | _ => PU_ok v i end)
      else let vn := wrap64 (10 * v + k) in
           if vn <? v then PU_err else pub r (S i) vn
  end.
Definition parse_uint_buf (s : bs) : pu := match s with [] => PU_err | _ => pub s 0 0 end.
Definition parse_uint (s : bs) : option Z :=
  match parse_uint_buf s with
  | PU_ok v n => if Nat.eqb n (length s) then Some v else None
  | PU_err => None
  end.

(* AppendUint: panics on a negative argument *)
Definition append_uint (n : Z) : res bs := if n <? 0 then Panic else Ok (show_Z n).

Definition str_bytes : bs := bytestr_StrBytes.
Definition cDash : byte := x2d. Definition cEqual : byte := x3d.

(* app.ParseByteRange *)
Definition parse_byte_range (r : bs) (len : Z) : option (Z * Z) :=
  if negb (has_prefix str_bytes r) then None else
  let b := skipn (length str_bytes) r in
  match b with
  | c :: b1 =>
      if negb (Byte.eqb c cEqual) then None else
      match index_byte cDash b1 with
      | None => None
      | Some O =>
          match parse_uint (skipn 1 b1) with
          | None => None
          | Some v => if (v =? 0) || (len =? 0) then None
                      else let st := len - v in Some ((if st <? 0 then 0 else st), len - 1)
          end
      | Some n =>
          match parse_uint (firstn n b1) with
          | None => None
          | Some st =>
              if len <=? st then None else
              let b2 := skipn (S n) b1 in
              match b2 with
              | [] => Some (st, len - 1)
              | _ => match parse_uint b2 with
                     | None => None
                     | Some en => let en' := if len <=? en then len - 1 else en in
                                  if en' <? st then None else Some (st, en')
                     end
              end
          end
      end
  | [] => None
  end.

(* ResponseHeader.SetContentRange: "bytes a-b/len" *)
Definition set_content_range (st en len : Z) : res bs :=
  a <- append_uint st ;; b <- append_uint en ;; c <- append_uint len ;;
  Ok (str_bytes ++ [x20] ++ a ++ [cDash] ++ b ++ [x2f] ++ c).

(* what the file handler does with a Range header: 206 + Content-Range, or 416 *)
Definition range_response (r : bs) (len : Z) : res (option bs) :=
  match parse_byte_range r len with
  | None => Ok None
  | Some (st, en) => cr <- set_content_range st en len ;; Ok (Some cr)
  end.

(* ---- the RFC 7233 reading of a single range, on exact numbers ---- *)
Inductive range_spec := Satisfiable (a b : Z) | Unsatisfiable.
Definition rfc_range (first : option Z) (last : option Z) (len : Z) : range_spec :=
  match first, last with
  | None, Some n => if (n =? 0) || (len =? 0) then Unsatisfiable else Satisfiable (Z.max 0 (len - n)) (len - 1)
  | Some a, None => if len <=? a then Unsatisfiable else Satisfiable a (len - 1)
  | Some a, Some b => if len <=? a then Unsatisfiable else if b <? a then Unsatisfiable else Satisfiable a (Z.min b (len - 1))
  | None, None => Unsatisfiable
  end.

Definition show_range (o : option (Z * Z)) : bs :=
  match o with None => B "ERR" | Some (a, b) => show_Z a ++ B "-" ++ show_Z b end.
Definition show_pu (p : pu) : bs := match p with PU_err => B "ERR" | PU_ok v n => show_Z v ++ B "," ++ show_nat n end.
