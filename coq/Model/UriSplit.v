(* C03 / C17: protocol.getScheme, checkSchemeWhenCharIsColon (unix), splitHostURI — checked
   slices.  Definitions only. *)
From Coq Require Import String.
From Coq Require Import List Strings.Byte NArith Bool Arith.
Require Import Bytes Show Res Tables.
Import ListNotations.

Definition in_range (c : byte) (lo hi : N) : bool := (N.leb lo (n_of c)) && (N.leb (n_of c) hi).
Definition is_letter (c : byte) : bool := in_range c 97 122 || in_range c 65 90.
Definition is_scheme_rest (c : byte) : bool :=
  in_range c 48 57 || Byte.eqb c x2b || Byte.eqb c x2d || Byte.eqb c x2e.
Definition cColon : byte := x3a.

(* index of the ':' that ends a valid scheme, scanning from position i *)
Fixpoint scheme_colon (s : bs) (i : nat) : option nat :=
  match s with
  | [] => None
  | c :: r =>
      if is_letter c then scheme_colon r (S i)
      else if is_scheme_rest c then (match i with O => None | _ => scheme_colon r (S i) end)
      else if Byte.eqb c cColon then Some i
      else None
  end.

(* None stands for (nil, rawURL) *)
Definition get_scheme (raw : bs) : res (option (bs * bs)) :=
  match scheme_colon raw 0 with
  | None => Ok None
  | Some O => Ok None                       (* checkSchemeWhenCharIsColon: i == 0, scheme stays nil *)
  | Some i => a <- slice_to raw i ;; b <- slice_from raw (S i) ;; Ok (Some (a, b))
  end.

Definition str_http : bs := bytestr_StrHTTP.
Definition str_slash : bs := bytestr_StrSlash.
Definition str_slashslash : bs := bytestr_StrSlashSlash.

Definition split_host_uri (host uri : bs) : res (bs * bs * bs) :=
  g <- get_scheme uri ;;
  match g with
  | None => Ok (str_http, host, uri)
  | Some (scheme, path) =>
      if negb (has_prefix str_slashslash path) then Ok (str_http, host, uri) else
      u <- slice_from path (length str_slashslash) ;;
      match index_byte x2f u with
      | Some n => a <- slice_to u n ;; b <- slice_from u n ;; Ok (scheme, a, b)
      | None =>
          match index_byte x3f u with
          | Some n => a <- slice_to u n ;; b <- slice_from u n ;; Ok (scheme, a, b)
          | None => Ok (scheme, u, str_slash)
          end
      end
  end.

Definition show_split (r : res (bs * bs * bs)) : bs :=
  match r with
  | Ok (s, h, u) => hex_of s ++ B ":" ++ hex_of h ++ B ":" ++ hex_of u
  | Err => B "ERR" | Panic => B "PANIC"
  end.
