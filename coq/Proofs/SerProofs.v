(* C05 proofs: every run of a structurally safe serialiser is a start part, header lines that
   went through appendHeaderLine, and the final CRLF; such a block is read back exactly by the
   strict line reader. *)
From Coq Require Import String.
From Coq Require Import List Strings.Byte NArith Lia Bool Arith.
Require Import Bytes Show Tables Ser.
Import ListNotations.

(* ---------------- table sweeps (over the generated tables) ---------------- *)
Lemma nl2sp1_nocrlf : forall b, negb (Byte.eqb (nl2sp1 b) CR) && negb (Byte.eqb (nl2sp1 b) LF) = true.
Proof. apply forall_byte. vm_compute. reflexivity. Qed.

Lemma valid_name_excl : forall b,
  (if valid_name_byte b then negb (Byte.eqb b CR) && negb (Byte.eqb b LF) && negb (Byte.eqb b COLON) && negb (Byte.eqb b SP)
   else true) = true.
Proof. apply forall_byte. vm_compute. reflexivity. Qed.

Definition nocrlf (s : bs) : bool := forallb (fun b => negb (Byte.eqb b CR) && negb (Byte.eqb b LF)) s.
Definition nocolon (s : bs) : bool := forallb (fun b => negb (Byte.eqb b COLON)) s.

Lemma nl2sp_nocrlf v : nocrlf (nl2sp v) = true.
Proof. induction v as [|b v IH]; simpl; auto. rewrite nl2sp1_nocrlf. exact IH. Qed.

Lemma valid_name_clean k : forallb valid_name_byte k = true -> nocrlf k = true /\ nocolon k = true.
Proof.
  induction k as [|b k IH]; simpl; auto. intros H. apply andb_true_iff in H as [Hb Hk].
  destruct (IH Hk) as [A B]. pose proof (valid_name_excl b) as E. rewrite Hb in E.
  apply andb_true_iff in E as [E _]. apply andb_true_iff in E as [E E3]. apply andb_true_iff in E as [E1 E2].
  rewrite E1, E2, E3, A, B. auto.
Qed.

(* ---------------- the strict reader reads sanitised lines back ---------------- *)
Definition line (kv : bs * bs) : bs := fst kv ++ COLON :: SP :: snd kv ++ CRLF.

Lemma take_line_clean l rest : nocrlf l = true -> take_line (l ++ CRLF ++ rest) = Some (l, rest).
Proof.
  induction l as [|c l IH]; simpl; intros H.
  - reflexivity.
  - apply andb_true_iff in H as [H1 H2]. apply andb_true_iff in H1 as [A B].
    apply negb_true_iff in A, B. rewrite A, B. simpl in IH. rewrite (IH H2). reflexivity.
Qed.

Lemma split_colon_clean k v : nocolon k = true -> split_colon (k ++ COLON :: SP :: v) = Some (k, v).
Proof.
  induction k as [|c k IH]; simpl; intros H.
  - reflexivity.
  - apply andb_true_iff in H as [H1 H2]. apply negb_true_iff in H1. rewrite H1, (IH H2). reflexivity.
Qed.

Definition clean (kv : bs * bs) : Prop :=
  nocrlf (fst kv) = true /\ nocolon (fst kv) = true /\ fst kv <> [] /\ nocrlf (snd kv) = true.

Lemma nocrlf_app a b : nocrlf (a ++ b) = nocrlf a && nocrlf b.
Proof. unfold nocrlf. apply forallb_app. Qed.

Theorem strict_reads_back : forall kvs body, Forall clean kvs ->
  strict_lines (S (length kvs)) (flat_map line kvs ++ CRLF ++ body) = Some (kvs, body).
Proof.
  induction kvs as [|[k v] kvs IH]; intros body F.
  - reflexivity.
  - inversion F as [|? ? C Fk]; subst. destruct C as (C1 & C2 & C3 & C4). simpl in C1, C2, C3, C4.
    cbn [flat_map length].
    assert (E0 : (line (k, v) ++ flat_map line kvs) ++ CRLF ++ body
                 = (k ++ COLON :: SP :: v) ++ CRLF ++ (flat_map line kvs ++ CRLF ++ body)).
    { unfold line. cbn [fst snd]. rewrite <- !app_assoc. cbn [app]. rewrite <- !app_assoc. reflexivity. }
    rewrite E0. clear E0.
    remember (S (length kvs)) as n. cbn [strict_lines].
    rewrite take_line_clean.
    2:{ rewrite nocrlf_app, C1. simpl. exact C4. }
    destruct (k ++ COLON :: SP :: v) as [|x l] eqn:E.
    { destruct k; [congruence | discriminate]. }
    rewrite <- E, (split_colon_clean k v C2). subst n. rewrite (IH body Fk).
    destruct k; [congruence|]. reflexivity.
Qed.

(* ---------------- runs of safe skeletons ---------------- *)
Scheme exec_s_mind := Minimality for exec_s Sort Prop
  with exec_b_mind := Minimality for exec_b Sort Prop.
Combined Scheme exec_mutind from exec_s_mind, exec_b_mind.

Definition is_line (e : ev) : Prop := match e with ELine _ _ => True | _ => False end.
Definition is_raw (e : ev) : Prop := match e with ERaw _ => True | _ => False end.

Lemma forallb_true_iff {A} (f : A -> bool) l : forallb f l = true <-> Forall (fun x => f x = true) l.
Proof. rewrite forallb_forall, Forall_forall. reflexivity. Qed.

Lemma line_only_exec :
  (forall s evs r, exec_s s evs r -> line_only s = true -> r = false /\ Forall is_line evs) /\
  (forall p evs r, exec_b p evs r -> forallb line_only p = true -> r = false /\ Forall is_line evs).
Proof.
  apply exec_mutind.
  - intros e b _ H. destruct e; discriminate.
  - intros k v kb vb _ _ _. split; auto. repeat constructor.
  - intros _. split; auto.
  - intros a b evs r _ IH H. simpl in H. apply andb_true_iff in H as [Ha _]. auto.
  - intros a b evs r _ IH H. simpl in H. apply andb_true_iff in H as [_ Hb]. auto.
  - intros a _. split; auto.
  - intros a evs _ IH H. simpl in H. destruct (IH H) as [X _]. discriminate.
  - intros a e1 e2 r _ IH1 _ IH2 H. simpl in H. destruct (IH1 H) as [_ F1].
    destruct (IH2 H) as [R F2]. split; auto. apply Forall_app; auto.
  - intros a evs r _ _ H. discriminate.
  - intros _. split; auto.
  - intros s rest evs _ IH H. simpl in H. apply andb_true_iff in H as [Hs _].
    destruct (IH Hs) as [X _]. discriminate.
  - intros s rest e1 e2 r _ IH1 _ IH2 H. simpl in H. apply andb_true_iff in H as [Hs Hr].
    destruct (IH1 Hs) as [_ F1]. destruct (IH2 Hr) as [R F2]. split; auto. apply Forall_app; auto.
Qed.

Lemma skip_only_exec :
  (forall s evs r, exec_s s evs r -> skip_only s = true -> r = false /\ evs = []) /\
  (forall p evs r, exec_b p evs r -> forallb skip_only p = true -> r = false /\ evs = []).
Proof.
  apply exec_mutind.
  - intros e b _ H. discriminate.
  - intros k v kb vb _ _ H. discriminate.
  - intros _. split; auto.
  - intros a b evs r _ IH H. simpl in H. apply andb_true_iff in H as [Ha _]. auto.
  - intros a b evs r _ IH H. simpl in H. apply andb_true_iff in H as [_ Hb]. auto.
  - intros a _. split; auto.
  - intros a evs _ IH H. simpl in H. destruct (IH H) as [X _]. discriminate.
  - intros a e1 e2 r _ IH1 _ IH2 H. simpl in H. destruct (IH1 H) as [_ ->].
    destruct (IH2 H) as [R ->]. split; auto.
  - intros a evs r _ _ H. discriminate.
  - intros _. split; auto.
  - intros s rest evs _ IH H. simpl in H. apply andb_true_iff in H as [Hs _].
    destruct (IH Hs) as [X _]. discriminate.
  - intros s rest e1 e2 r _ IH1 _ IH2 H. simpl in H. apply andb_true_iff in H as [Hs Hr].
    destruct (IH1 Hs) as [_ ->]. destruct (IH2 Hr) as [R ->]. split; auto.
Qed.

Lemma start_only_exec_s s evs r : exec_s s evs r -> start_only s = true -> r = false /\ Forall is_raw evs.
Proof.
  intros X H. destruct s; try (simpl in H; destruct (proj1 skip_only_exec _ _ _ X H) as [-> ->]; auto; fail).
  inversion X; subst. split; auto. repeat constructor.
Qed.

Lemma start_only_exec_b : forall p evs r, exec_b p evs r -> forallb start_only p = true ->
  r = false /\ Forall is_raw evs.
Proof.
  induction p as [|s p IH]; intros evs r X H.
  - inversion X; subst. split; auto.
  - simpl in H. apply andb_true_iff in H as [Hs Hp].
    inversion X as [| s' rest' evs' Xs | s' rest' e1 e2 r' Xs Xb]; subst.
    + destruct (start_only_exec_s _ _ _ Xs Hs) as [Y _]. discriminate.
    + destruct (start_only_exec_s _ _ _ Xs Hs) as [_ F1]. destruct (IH _ _ Xb Hp) as [R F2].
      split; auto. apply Forall_app; auto.
Qed.

Lemma exec_b_app : forall p q evs r, exec_b (p ++ q) evs r ->
  (exec_b p evs true /\ r = true) \/
  (exists e1 e2, exec_b p e1 false /\ exec_b q e2 r /\ evs = e1 ++ e2).
Proof.
  induction p as [|s p IH]; intros q evs r X; simpl in X.
  - right. exists [], evs. repeat split; auto. constructor.
  - inversion X as [| s' rest' evs' Xs | s' rest' e1 e2 r' Xs Xb]; subst.
    + left. split; auto. constructor. exact Xs.
    + destruct (IH _ _ _ Xb) as [[Y ->]|(a & b & Y & Z & ->)].
      * left. split; auto. eapply X_cons; eauto.
      * right. exists (e1 ++ a), b. repeat split; auto.
        -- eapply X_cons; eauto.
        -- rewrite app_assoc. reflexivity.
Qed.

Lemma span_start_spec : forall p pre rest, span_start p = (pre, rest) ->
  p = pre ++ rest /\ forallb start_only pre = true.
Proof.
  induction p as [|s p IH]; intros pre rest H; simpl in H.
  - inversion H; subst. auto.
  - destruct (start_only s) eqn:E.
    + destruct (span_start p) as [a b] eqn:S. inversion H; subst.
      destruct (IH a rest eq_refl) as [-> F]. simpl. rewrite E, F. auto.
    + inversion H; subst. auto.
Qed.

Definition tail1 : list ser := [Ret [Raw (Lit CRLF)]].
Definition tail2 : list ser := [Raw (Lit CRLF); Ret []].

Lemma is_crlf_eq e : sexpr_is_crlf e = true -> e = Lit CRLF.
Proof. destruct e; simpl; try discriminate. intros H. apply bs_eqb_eq in H. congruence. Qed.

Lemma is_tail_cases t : is_tail t = true -> t = tail1 \/ t = tail2.
Proof.
  unfold is_tail, tail1, tail2.
  destruct t as [|s1 t1]; [discriminate|]. destruct s1; try discriminate.
  - (* Raw e :: ... *)
    destruct t1 as [|s2 t2]; [discriminate|]. destruct s2; try discriminate.
    destruct a; try discriminate. destruct t2; try discriminate.
    intros H. apply is_crlf_eq in H. subst. right. reflexivity.
  - (* Ret a :: ... *)
    destruct a as [|x a']; [discriminate|]. destruct x; try discriminate.
    destruct a'; try discriminate. destruct t1; try discriminate.
    intros H. apply is_crlf_eq in H. subst. left. reflexivity.
Qed.

Lemma split_tail_spec : forall p body, split_tail p = Some body ->
  p = body ++ tail1 \/ p = body ++ tail2.
Proof.
  induction p as [|s p IH]; intros body H.
  - simpl in H. discriminate.
  - cbn [split_tail] in H. destruct (is_tail (s :: p)) eqn:T.
    + inversion H; subst. simpl. apply is_tail_cases. exact T.
    + destruct (split_tail p) as [b|] eqn:S; [|discriminate]. inversion H; subst.
      destruct (IH b eq_refl) as [->| ->]; [left|right]; reflexivity.
Qed.

Ltac inv_exec := repeat match goal with
  | H : exec_b [] _ _ |- _ => inversion H; subst; clear H
  | H : exec_b (_ :: _) _ _ |- _ => inversion H; subst; clear H
  | H : exec_s (Raw _) _ _ |- _ => inversion H; subst; clear H
  | H : exec_s (Ret _) _ _ |- _ => inversion H; subst; clear H
  | H : val_of (Lit _) _ |- _ => simpl in H; subst
  end.

Lemma tail_exec t evs r : t = tail1 \/ t = tail2 -> exec_b t evs r -> evs = [ERaw CRLF] /\ r = true.
Proof.
  unfold tail1, tail2. intros [->| ->] X; inv_exec; simpl; auto.
Qed.

Definition ev_of_line (kv : bs * bs) : ev := ELine (fst kv) (snd kv).

Lemma all_raw_map evs : Forall is_raw evs -> exists raws, evs = map ERaw raws.
Proof.
  induction 1 as [|e l He _ [raws ->]]; [exists []; reflexivity|].
  destruct e; [|contradiction]. exists (b :: raws). reflexivity.
Qed.
Lemma all_line_map evs : Forall is_line evs -> exists ls, evs = map ev_of_line ls.
Proof.
  induction 1 as [|e l He _ [ls ->]]; [exists []; reflexivity|].
  destruct e; [contradiction|]. exists ((k, v) :: ls). reflexivity.
Qed.

Theorem safe_runs : forall p evs r, safe_skeleton p = true -> exec_b p evs r ->
  exists raws ls, evs = map ERaw raws ++ map ev_of_line ls ++ [ERaw CRLF] /\ r = true.
Proof.
  intros p evs r S X. unfold safe_skeleton in S.
  destruct (span_start p) as [pre rest] eqn:Sp. destruct (span_start_spec _ _ _ Sp) as [-> Fpre].
  destruct (split_tail rest) as [body|] eqn:St; [|discriminate].
  destruct (split_tail_spec _ _ St) as [E|E]; subst rest.
  all: destruct (exec_b_app _ _ _ _ X) as [[Y _]|(e1 & e2 & Y & Z & ->)];
    [destruct (start_only_exec_b _ _ _ Y Fpre) as [? _]; discriminate|].
  all: destruct (start_only_exec_b _ _ _ Y Fpre) as [_ F1].
  all: destruct (exec_b_app _ _ _ _ Z) as [[W _]|(e3 & e4 & W & V & ->)];
    [destruct (proj2 line_only_exec _ _ _ W S) as [? _]; discriminate|].
  all: destruct (proj2 line_only_exec _ _ _ W S) as [_ F2].
  all: destruct (all_raw_map _ F1) as [raws ->]; destruct (all_line_map _ F2) as [ls ->].
  - destruct (tail_exec tail1 _ _ (or_introl eq_refl) V) as [-> ->]. exists raws, ls. auto.
  - destruct (tail_exec tail2 _ _ (or_intror eq_refl) V) as [-> ->]. exists raws, ls. auto.
Qed.

(* ---------------- bytes of such a run ---------------- *)
Definition kept (kv : bs * bs) : bool := negb (match fst kv with [] => true | _ => false end) && forallb valid_name_byte (fst kv).
Definition sanitised (ls : list (bs * bs)) : list (bs * bs) :=
  map (fun kv => (fst kv, nl2sp (snd kv))) (filter kept ls).

Lemma ahl_line kv : append_header_line (fst kv) (snd kv) = if kept kv then line (fst kv, nl2sp (snd kv)) else [].
Proof.
  destruct kv as [k v]. unfold append_header_line, kept, line. simpl. destruct k as [|c k]; simpl; auto.
Qed.

Lemma lines_bytes ls : evs_bytes (map ev_of_line ls) = flat_map line (sanitised ls).
Proof.
  induction ls as [|kv ls IH]; simpl; auto. unfold sanitised in *. simpl.
  rewrite ahl_line. destruct (kept kv); simpl; rewrite IH; reflexivity.
Qed.

Lemma evs_bytes_app a b : evs_bytes (a ++ b) = evs_bytes a ++ evs_bytes b.
Proof. unfold evs_bytes. apply flat_map_app. Qed.

Lemma raws_bytes raws : evs_bytes (map ERaw raws) = concat raws.
Proof. induction raws as [|r l IH]; simpl; auto. rewrite IH. reflexivity. Qed.

Lemma sanitised_clean ls : Forall clean (sanitised ls).
Proof.
  unfold sanitised. induction ls as [|[k v] ls IH]; simpl; [constructor|].
  destruct (kept (k, v)) eqn:K; simpl; auto. constructor; auto.
  unfold kept in K. simpl in K. apply andb_true_iff in K as [K1 K2].
  destruct (valid_name_clean k K2) as [A B]. unfold clean; simpl. repeat split; auto.
  - destruct k; [discriminate | discriminate].
  - apply nl2sp_nocrlf.
Qed.

(* The header-block statement: bytes appended = start bytes ++ block, and the strict reader
   decodes the block to exactly the executed header lines with a valid non-empty name, values
   with CR/LF turned into spaces, and nothing is left over. *)
Theorem safe_block : forall p evs r, safe_skeleton p = true -> exec_b p evs r ->
  exists start ls,
    evs_bytes evs = start ++ flat_map line (sanitised ls) ++ CRLF /\
    strict_lines (S (length (sanitised ls))) (flat_map line (sanitised ls) ++ CRLF) = Some (sanitised ls, []) /\
    Forall clean (sanitised ls).
Proof.
  intros p evs r S X. destruct (safe_runs p evs r S X) as (raws & ls & -> & _).
  exists (concat raws), ls. repeat split.
  - rewrite !evs_bytes_app, raws_bytes, lines_bytes. reflexivity.
  - pose proof (strict_reads_back (sanitised ls) [] (sanitised_clean ls)) as H.
    simpl in H. exact H.
  - apply sanitised_clean.
Qed.
