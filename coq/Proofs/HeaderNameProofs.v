(* C01 / C02: header-name comparison is ASCII case folding and nothing else; key normalisation is
   idempotent (a re-parse of an already normalised buffer changes nothing). *)
From Coq Require Import String.
From Coq Require Import List Strings.Byte NArith Bool Arith Lia.
Require Import Bytes Show Tables TrailerKeys.
Import ListNotations.

(* independent definition of ASCII lower-casing *)
Definition ascii_lower (c : byte) : byte :=
  let n := n_of c in if (N.leb 65 n && N.leb n 90)%bool then b_of (n + 32) else c.

Lemma to_lower_is_ascii_lower : forall c, Byte.eqb (to_lower c) (ascii_lower c) = true.
Proof. apply forall_byte. vm_compute. reflexivity. Qed.

Theorem ci_compare_spec : forall a b, ci_compare a b = true <-> map ascii_lower a = map ascii_lower b.
Proof.
  induction a as [|x a IH]; intros [|y b]; simpl; split; intros H; try discriminate; auto.
  - apply andb_true_iff in H as [H1 H2]. apply beqb_eq in H1. apply IH in H2.
    pose proof (to_lower_is_ascii_lower x) as Lx. pose proof (to_lower_is_ascii_lower y) as Ly.
    apply beqb_eq in Lx, Ly. congruence.
  - inversion H as [[H1 H2]]. apply andb_true_iff. split.
    + apply beqb_eq. pose proof (to_lower_is_ascii_lower x) as Lx. pose proof (to_lower_is_ascii_lower y) as Ly.
      apply beqb_eq in Lx, Ly. congruence.
    + apply IH. exact H2.
Qed.

(* sweeps for idempotence *)
Lemma upper_upper : forall c, Byte.eqb (to_upper (to_upper c)) (to_upper c) = true.
Proof. apply forall_byte. vm_compute. reflexivity. Qed.
Lemma lower_lower : forall c, Byte.eqb (to_lower (to_lower c)) (to_lower c) = true.
Proof. apply forall_byte. vm_compute. reflexivity. Qed.
Lemma lower_dash : forall c, Bool.eqb (Byte.eqb (to_lower c) x2d) (Byte.eqb c x2d) = true.
Proof. apply forall_byte. vm_compute. reflexivity. Qed.

Lemma norm_rest_idem : forall n s, length s <= n -> norm_rest (norm_rest s) = norm_rest s.
Proof.
  induction n as [|n IH]; intros s L.
  - destruct s; [reflexivity | simpl in L; lia].
  - destruct s as [|c r]; [reflexivity|]. cbn [norm_rest].
    destruct (Byte.eqb c x2d) eqn:D.
    + destruct r as [|d r']; cbn [norm_rest]; rewrite D; [reflexivity|].
      pose proof (upper_upper d) as U. apply beqb_eq in U. rewrite U.
      rewrite IH; [reflexivity|]. simpl in L. lia.
    + cbn [norm_rest].
      pose proof (lower_dash c) as LD. rewrite D in LD. apply Bool.eqb_prop in LD. rewrite LD.
      pose proof (lower_lower c) as LL. apply beqb_eq in LL. rewrite LL.
      rewrite IH; [reflexivity|]. simpl in L. lia.
Qed.

Theorem normalize_header_key_idem : forall s, normalize_header_key (normalize_header_key s) = normalize_header_key s.
Proof.
  intros [|c r]; [reflexivity|]. cbn [normalize_header_key].
  pose proof (upper_upper c) as U. apply beqb_eq in U. rewrite U.
  rewrite (norm_rest_idem (length r) r (le_n _)). reflexivity.
Qed.
