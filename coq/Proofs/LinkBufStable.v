(* C13: between two Releases the input nodes are append-only: the node list only grows at its end and the bytes of
   a node are only extended.  A slice handed out by Peek - node k, bytes [off, off+len) - therefore reads the
   same bytes until the next Release (or Read, which releases). *)
From Coq Require Import String.
From Coq Require Import List Strings.Byte NArith Bool Arith Lia.
Require Import Bytes Show Rd LinkBuf LinkBufProofs.
Import ListNotations.
Local Open Scope nat_scope.

(* s' keeps every node of s, each with its bytes extended *)
Definition keeps (s s' : lb) : Prop :=
  forall k n, nth_error (nodes s) k = Some n -> exists n' ext, nth_error (nodes s') k = Some n' /\ ndata n' = ndata n ++ ext.

Lemma keeps_refl s : keeps s s.
Proof. intros k n H. exists n, []. rewrite app_nil_r. auto. Qed.
Lemma keeps_same s s' : nodes s' = nodes s -> keeps s s'.
Proof. intros E k n H. exists n, []. rewrite app_nil_r, E. auto. Qed.
Lemma keeps_trans a b c : keeps a b -> keeps b c -> keeps a c.
Proof.
  intros H1 H2 k n H. destruct (H1 k n H) as (n1 & e1 & N1 & D1). destruct (H2 k n1 N1) as (n2 & e2 & N2 & D2).
  exists n2, (e1 ++ e2). split; [exact N2|]. rewrite D2, D1, app_assoc. reflexivity.
Qed.

Lemma nth_upd_last f pre w k (n : node) : nth_error (pre ++ [w]) k = Some n ->
  exists n', nth_error (pre ++ [f w]) k = Some n' /\ (k < length pre -> n' = n) /\ (k = length pre -> n = w /\ n' = f w).
Proof.
  intros H. destruct (Nat.lt_ge_cases k (length pre)) as [L|L].
  - rewrite nth_error_app1 in * by exact L. exists n. split; [exact H|]. split; [reflexivity|lia].
  - rewrite nth_error_app2 in * by exact L. destruct (k - length pre) as [|j] eqn:E; cbn in H; [|destruct j; discriminate].
    inversion H; subst. exists (f n). cbn. split; [reflexivity|]. split; [lia|]. auto.
Qed.

Lemma fill_loop_extends : forall fuel need w len src w2 len2 src2 st e,
  fill_loop fuel need w len src = (w2, len2, src2, st, e) -> exists b, ndata w2 = ndata w ++ b.
Proof.
  induction fuel as [|f IH]; intros need w0 len src w2 len2 src2 st e H; cbn [fill_loop] in H.
  - inversion H; subst. exists []. rewrite app_nil_r. reflexivity.
  - destruct (need =? 0); [inversion H; subst; exists []; rewrite app_nil_r; reflexivity|].
    destruct (ncap w0 - length (ndata w0) =? 0); [inversion H; subst; exists []; rewrite app_nil_r; reflexivity|].
    destruct (src_read (ncap w0 - length (ndata w0)) src) as [[b e0] src0]. destruct b as [|c b].
    + inversion H; subst. exists []. rewrite app_nil_r. reflexivity.
    + destruct e0.
      * inversion H; subst. exists (c :: b). reflexivity.
      * apply IH in H. destruct H as (b2 & E). exists ((c :: b) ++ b2). rewrite E. unfold add_data; cbn [ndata]. rewrite app_assoc. reflexivity.
Qed.

Lemma lb_fill_keeps i s : Inv s -> keeps s (fst (lb_fill i s)).
Proof.
  intros I. unfold lb_fill. destruct (i <=? llen s); [apply keeps_refl|].
  destruct (lerr s); [destruct (0 <? llen s); apply keeps_same; reflexivity|].
  destruct (nodes_split s I) as (pre & P & R).
  set (w := wnode s) in *.
  destruct ((ncap w - length (ndata w) <? i - llen s) || nro w).
  - (* a new node is appended: the old ones are untouched but for the read-only flag *)
    rewrite P, upd_last_app, last_last.
    destruct (fill_loop (S (i - llen s)) (i - llen s) (new_node (if i <? maxsz s then maxsz s else i)) (llen s) (lsrc s)) as [[[[w2 len2] src2] st] e].
    cbn [fst nodes]. rewrite upd_last_app. intros k n H. rewrite P in H.
    destruct (nth_upd_last (set_ro false) pre w k n H) as (n' & N' & Lt & Eq).
    exists n', []. rewrite app_nil_r. split.
    + cbn [nodes]. rewrite nth_error_app1; [|apply nth_error_Some; rewrite N'; discriminate].
      exact N'.
    + destruct (Nat.lt_ge_cases k (length pre)) as [L|L]; [rewrite (Lt L); reflexivity|].
      assert (k = length pre).
      { assert (k < length (pre ++ [w])) by (apply nth_error_Some; rewrite H; discriminate). rewrite app_length in H0. cbn in H0. lia. }
      destruct (Eq H0) as [-> ->]. reflexivity.
  - (* the write node is extended *)
    rewrite P, last_last.
    destruct (fill_loop (S (i - llen s)) (i - llen s) w (llen s) (lsrc s)) as [[[[w2 len2] src2] st] e] eqn:FL.
    cbn [fst nodes]. rewrite upd_last_app.
    assert (D : exists b, ndata w2 = ndata w ++ b) by (apply (fill_loop_extends _ _ _ _ _ _ _ _ _ _ FL)).
    destruct D as (b & D).
    intros k n H. rewrite P in H.
    destruct (nth_upd_last (fun _ => w2) pre w k n H) as (n' & N' & Lt & Eq).
    destruct (Nat.lt_ge_cases k (length pre)) as [L|L].
    + exists n', []. rewrite app_nil_r, (Lt L). split; [rewrite <- (Lt L); exact N'|reflexivity].
    + assert (k = length pre).
      { assert (k < length (pre ++ [w])) by (apply nth_error_Some; rewrite H; discriminate). rewrite app_length in H0. cbn in H0. lia. }
      destruct (Eq H0) as [-> ->]. exists w2, b. split; [exact N'|exact D].
Qed.

Lemma nth_firstn_lt {A} : forall (n i : nat) (l : list A), i < n -> nth_error (firstn n l) i = nth_error l i.
Proof.
  induction n as [|n IH]; intros i l H; [lia|]. destruct l as [|x l]; [destruct i; reflexivity|].
  destruct i as [|i]; [reflexivity|]. cbn [firstn nth_error]. apply IH. lia.
Qed.
Lemma nth_skipn_add {A} : forall (a b : nat) (l : list A), nth_error (skipn a l) b = nth_error l (a + b).
Proof. induction a as [|a IH]; intros b l; [reflexivity|]. destruct l as [|x l]; [destruct b; reflexivity|]. cbn [skipn Nat.add nth_error]. apply IH. Qed.

Lemma skip_nodes_keeps : forall ns ack ns' k0, skip_nodes ack ns = Some (ns', k0) ->
  forall k n, nth_error ns k = Some n -> exists n', nth_error ns' k = Some n' /\ ndata n' = ndata n.
Proof.
  induction ns as [|x ns IH]; intros ack ns' k0 H k n Hn; cbn [skip_nodes] in H; [discriminate|].
  destruct (ack <=? nlen x).
  - inversion H; subst. destruct k as [|k]; cbn [nth_error] in *; [inversion Hn; subst; exists (add_off ack n); auto|exists n; auto].
  - destruct (skip_nodes (ack - nlen x) ns) as [[r' k1]|] eqn:E; [|discriminate]. inversion H; subst.
    destruct k as [|k]; cbn [nth_error] in *; [inversion Hn; subst; exists n; auto|].
    apply (IH _ _ _ E k n Hn).
Qed.

Lemma lb_skip_keeps n s s' : Inv s -> lb_skip n s = SkOk s' -> keeps s s'.
Proof.
  intros I. unfold lb_skip. destruct (llen s <? n); [discriminate|]. destruct (n =? 0); [intros H; inversion H; apply keeps_refl|].
  destruct (skip_nodes n (skipn (ridx s) (nodes s))) as [[ns' k0]|] eqn:E; [|discriminate].
  intros H; inversion H; subst. intros k nd Hk. cbn [nodes].
  pose proof (inv_ridx s I) as R.
  destruct (Nat.lt_ge_cases k (ridx s)) as [L|L].
  - exists nd, []. rewrite app_nil_r. split; [|reflexivity]. rewrite nth_error_app1 by (rewrite firstn_length; lia).
    rewrite nth_firstn_lt by exact L. exact Hk.
  - assert (Hk' : nth_error (skipn (ridx s) (nodes s)) (k - ridx s) = Some nd).
    { rewrite nth_skipn_add. replace (ridx s + (k - ridx s)) with k by lia. exact Hk. }
    destruct (skip_nodes_keeps _ _ _ _ E _ _ Hk') as (n' & N' & D). exists n', []. rewrite app_nil_r. split; [|exact D].
    rewrite nth_error_app2 by (rewrite firstn_length; lia). rewrite firstn_length. replace (Nat.min (ridx s) (length (nodes s))) with (ridx s) by lia. exact N'.
Qed.

Lemma lb_peek_keeps i s b e s' : Inv s -> lb_peek i s = PkOk b e s' -> keeps s s'.
Proof.
  intros I. unfold lb_peek. pose proof (lb_fill_keeps i s I) as K. destruct (lb_fill i s) as [s1 ee]. cbn [fst] in K.
  destruct ee; [|intros H; inversion H; subst; exact K|discriminate].
  destruct (llen s1 <? i); intros H; inversion H; subst; [apply (keeps_trans s s1 _ K); apply keeps_same; reflexivity|exact K].
Qed.

(* the operations that do not release *)
Definition quiet (o : lop) : Prop := match o with LRelease | LRead _ => False | _ => True end.

Theorem quiet_ops_keep_nodes : forall ops s c s', Inv s -> Forall quiet ops -> lrun ops s = Some (c, s') -> keeps s s'.
Proof.
  induction ops as [|o ops IH]; intros s c s' I Q H; cbn [lrun] in H.
  - inversion H; subst. apply keeps_refl.
  - inversion Q as [|? ? Qo Qr]; subst.
    pose proof (lconsume_ok o s I) as OK.
    destruct (lconsume o s) as [[c1 s1]|] eqn:E; [|discriminate]. destruct OK as [I1 _].
    destruct (lrun ops s1) as [[c2 s2]|] eqn:E2; [|discriminate]. inversion H; subst.
    apply (keeps_trans s s1 s'); [|apply (IH s1 c2 s' I1 Qr E2)].
    destruct o as [n|n| |n| | |n]; cbn [lconsume quiet] in *; try contradiction.
    + destruct (lb_peek n s) as [b e sp|] eqn:P; [|discriminate]. inversion E; subst. apply (lb_peek_keeps _ _ _ _ _ I P).
    + destruct (lb_skip n s) as [sk| |] eqn:K; [|inversion E; subst; apply keeps_refl|discriminate].
      inversion E; subst. apply (lb_skip_keeps _ _ _ I K).
    + unfold lb_read_byte in E. destruct (lb_peek 1 s) as [b e sp|] eqn:P; [|discriminate].
      pose proof (lb_peek_keeps _ _ _ _ _ I P) as Kp. pose proof (lb_peek_spec 1 s I) as Sp. rewrite P in Sp. destruct Sp as (H0 & _).
      destruct e; [inversion E; subst; exact Kp|].
      destruct (lb_skip 1 sp) as [sk| |] eqn:K; [|inversion E; subst; exact Kp|discriminate].
      inversion E; subst. apply (keeps_trans s sp s1 Kp). apply (lb_skip_keeps _ _ _ H0 K).
    + unfold lb_read_binary in E. destruct (lb_peek n s) as [b e sp|] eqn:P; [|discriminate].
      pose proof (lb_peek_keeps _ _ _ _ _ I P) as Kp. pose proof (lb_peek_spec n s I) as Sp. rewrite P in Sp. destruct Sp as (H0 & _).
      destruct e; [inversion E; subst; exact Kp|].
      destruct (lb_skip n sp) as [sk| |] eqn:K; [|inversion E; subst; exact Kp|discriminate].
      inversion E; subst. apply (keeps_trans s sp s1 Kp). apply (lb_skip_keeps _ _ _ H0 K).
    + inversion E; subst. apply keeps_refl.
Qed.
