(* C08 / C03 proofs about ParseUint, ParseByteRange, SetContentRange. *)
From Coq Require Import String.
From Coq Require Import List Strings.Byte NArith ZArith Bool Arith Lia.
Require Import Bytes Show Res Tables Range.
Import ListNotations.
Open Scope Z_scope.

Lemma wrap64_range z : - two63 <= wrap64 z < two63.
Proof.
  unfold wrap64. assert (H : 0 <= (z + two63) mod two64 < two64) by (apply Z.mod_pos_bound; reflexivity).
  unfold two63, two64 in *. lia.
Qed.

Lemma wrap64_small z : 0 <= z < two63 -> wrap64 z = z.
Proof.
  intros H. unfold wrap64. rewrite Z.mod_small; unfold two63, two64 in *; lia.
Qed.

Lemma pub_range : forall s i v v' n, 0 <= v < two63 -> pub s i v = PU_ok v' n -> 0 <= v' < two63.
Proof.
  induction s as [|c r IH]; intros i v v' n Hv H; cbn [pub] in H.
  - inversion H; subst. exact Hv.
  - set (k := Z.of_N (n_of c) - 48) in *.
    destruct ((k <? 0) || (9 <? k)).
    + destruct i; [discriminate|]. inversion H; subst. exact Hv.
    + destruct (wrap64 (10 * v + k) <? v) eqn:E; [discriminate|].
      apply Z.ltb_ge in E. eapply IH; [|exact H].
      pose proof (wrap64_range (10 * v + k)). lia.
Qed.

Lemma parse_uint_range s v : parse_uint s = Some v -> 0 <= v < two63.
Proof.
  unfold parse_uint, parse_uint_buf. destruct s as [|c r]; [discriminate|].
  destruct (pub (c :: r) 0 0) as [v' n|] eqn:E; [|discriminate].
  destruct (Nat.eqb n (length (c :: r))); [|discriminate]. intros H; inversion H; subst.
  eapply pub_range; [|exact E]. unfold two63. lia.
Qed.

(* every range the parser accepts lies inside the representation *)
Theorem range_in_bounds : forall r len a b, 0 <= len ->
  parse_byte_range r len = Some (a, b) -> 0 <= a /\ a <= b /\ b < len.
Proof.
  intros r len a b Hl. unfold parse_byte_range.
  destruct (negb (has_prefix str_bytes r)); [discriminate|].
  destruct (skipn (length str_bytes) r) as [|c b1]; [discriminate|].
  destruct (negb (Byte.eqb c cEqual)); [discriminate|].
  destruct (index_byte cDash b1) as [[|n]|]; [| |discriminate].
  - destruct (parse_uint (skipn 1 b1)) as [v|] eqn:P; [|discriminate].
    apply parse_uint_range in P.
    destruct ((v =? 0) || (len =? 0)) eqn:Z0; [discriminate|].
    apply orb_false_iff in Z0 as [Zv Zl]. apply Z.eqb_neq in Zv, Zl.
    intros H. inversion H; subst. destruct (len - v <? 0) eqn:E.
    + lia.
    + apply Z.ltb_ge in E. lia.
  - destruct (parse_uint (firstn (S n) b1)) as [st|] eqn:P; [|discriminate].
    apply parse_uint_range in P.
    destruct (len <=? st) eqn:L; [discriminate|]. apply Z.leb_gt in L.
    destruct (skipn (S (S n)) b1) as [|x b2] eqn:S2.
    + intros H. inversion H; subst. lia.
    + destruct (parse_uint (x :: b2)) as [en|] eqn:P2; [|discriminate].
      apply parse_uint_range in P2.
      destruct (len <=? en) eqn:L2.
      * destruct (len - 1 <? st) eqn:L3; [discriminate|]. apply Z.ltb_ge in L3.
        intros H. inversion H; subst. lia.
      * apply Z.leb_gt in L2. destruct (en <? st) eqn:L3; [discriminate|]. apply Z.ltb_ge in L3.
        intros H. inversion H; subst. lia.
Qed.

Lemma append_uint_ok n : 0 <= n -> exists s, append_uint n = Ok s.
Proof. intros H. unfold append_uint. destruct (n <? 0) eqn:E; [apply Z.ltb_lt in E; lia|]. eauto. Qed.

(* the file handler's range step never panics, for any Range header and any file length *)
Theorem range_response_no_panic : forall r len, 0 <= len -> range_response r len <> Panic.
Proof.
  intros r len Hl. unfold range_response.
  destruct (parse_byte_range r len) as [[a b]|] eqn:P; [|discriminate].
  destruct (range_in_bounds _ _ _ _ Hl P) as (A & B & C).
  unfold set_content_range.
  destruct (append_uint_ok a A) as [sa ->]. destruct (append_uint_ok b ltac:(lia)) as [sb ->].
  destruct (append_uint_ok len Hl) as [sc ->]. simpl. discriminate.
Qed.
