(* The header scanner reads back what a serialiser wrote: a field line `name: value CRLF` gives
   the normalised name and the value, a rendered block gives its fields in order and stops
   exactly behind the empty line. *)
From Coq Require Import String.
From Coq Require Import List Strings.Byte NArith Bool Arith Lia.
Require Import Bytes Show Res Chunk TrailerKeys HeaderScan.
Import ListNotations.

Lemma index_byte_app c a b : ~ In c a -> index_byte c (a ++ c :: b) = Some (length a).
Proof.
  induction a as [|x a IH]; intros H; cbn [app index_byte length].
  - rewrite beqb_refl. reflexivity.
  - destruct (Byte.eqb x c) eqn:E; [apply beqb_eq in E; subst; exfalso; apply H; left; reflexivity|].
    rewrite IH by (intros K; apply H; right; exact K). reflexivity.
Qed.

Lemma has_byte_false c s : ~ In c s -> has_byte c s = false.
Proof.
  induction s as [|x s IH]; intros H; cbn [has_byte]; [reflexivity|].
  destruct (Byte.eqb x c) eqn:E; [apply beqb_eq in E; subst; exfalso; apply H; left; reflexivity|].
  cbn [orb]. apply IH. intros K. apply H. right. exact K.
Qed.

Definition no_lead_sp (v : bs) : Prop := match v with c :: _ => c <> SPC | [] => True end.
Definition no_trail_sp (v : bs) : Prop := match rev v with c :: _ => c <> SPC | [] => True end.
Definition starts_plain (rest : bs) : Prop := match rest with c :: _ => c <> SPC /\ c <> TAB | [] => True end.

Lemma skip_sp_id v w : no_lead_sp v -> (v = [] -> no_lead_sp w) -> skip_sp (v ++ w) = v ++ w.
Proof.
  destruct v as [|c v]; cbn [app].
  - intros _ H. specialize (H eq_refl). destruct w as [|d w]; [reflexivity|]. cbn [skip_sp no_lead_sp] in *.
    destruct (Byte.eqb d SPC) eqn:E; [apply beqb_eq in E; contradiction|reflexivity].
  - intros H _. cbn [skip_sp no_lead_sp] in *. destruct (Byte.eqb c SPC) eqn:E; [apply beqb_eq in E; contradiction|reflexivity].
Qed.

Lemma drop_trailing_id r : match r with c :: _ => c <> SPC | [] => True end -> drop_trailing_sp_rev r = r.
Proof. destruct r as [|c r]; [reflexivity|]. cbn. intros H. destruct (Byte.eqb c SPC) eqn:E; [apply beqb_eq in E; contradiction|reflexivity]. Qed.

Lemma trim_value_cr v : no_trail_sp v -> trim_value (v ++ [CR]) = v.
Proof.
  intros H. unfold trim_value, drop_last_if. rewrite rev_app_distr. cbn [rev app].
  change (Byte.eqb CR CR) with true. cbv iota. rewrite rev_involutive.
  rewrite drop_trailing_id by exact H. apply rev_involutive.
Qed.

(* one field line *)
Theorem field_line_reads_back k v rest :
  k <> [] -> ~ In COLON k -> ~ In LF k ->
  ~ In CR v -> ~ In LF v -> no_lead_sp v -> no_trail_sp v -> starts_plain rest ->
  hs_next (k ++ [COLON; SPC] ++ v ++ CRLF ++ rest) = NField (normalize_header_key k) v rest.
Proof.
  intros Nk Kc Kl Vc Vl Ls Ts Sr.
  set (b := k ++ [COLON; SPC] ++ v ++ CRLF ++ rest).
  (* the first two bytes are not an empty line *)
  assert (Hd : exists c1 c2 r, b = c1 :: c2 :: r /\ c1 <> LF /\ ~ (c1 = CR /\ c2 = LF)).
  { unfold b. destruct k as [|c1 [|c2 k']]; [congruence| |].
    - exists c1, COLON, ([SPC] ++ v ++ CRLF ++ rest). repeat split; [intros E; apply Kl; left; auto|intros [_ E]; discriminate].
    - exists c1, c2, (k' ++ [COLON; SPC] ++ v ++ CRLF ++ rest). repeat split; [intros E; apply Kl; left; auto|].
      intros [_ E]. apply Kl. right. left. auto. }
  destruct Hd as (c1 & c2 & r & Eb & N1 & N2).
  unfold hs_next. rewrite Eb.
  assert (E1 : (Byte.eqb c1 CR && Byte.eqb c2 LF) = false).
  { destruct (Byte.eqb c1 CR) eqn:A, (Byte.eqb c2 LF) eqn:C; auto. apply beqb_eq in A, C. exfalso. apply N2. auto. }
  assert (E2 : Byte.eqb c1 LF = false) by (apply beqb_neq; exact N1).
  rewrite E1, E2. rewrite <- Eb.
  (* positions of the colon and of the first newline *)
  assert (IC : index_byte COLON b = Some (length k)) by (unfold b; apply index_byte_app; exact Kc).
  assert (IL : index_byte LF b = Some (length (k ++ [COLON; SPC] ++ v ++ [CR]))).
  { unfold b, CRLF. replace (k ++ [COLON; SPC] ++ v ++ [CR; LF] ++ rest) with ((k ++ [COLON; SPC] ++ v ++ [CR]) ++ LF :: rest)
      by (rewrite <- !app_assoc; reflexivity).
    apply index_byte_app. intros H. apply in_app_or in H as [H|H]; [contradiction|].
    cbn [app] in H. destruct H as [H|[H|H]]; try discriminate.
    apply in_app_or in H as [H|H]; [contradiction|]. destruct H as [H|[]]. discriminate. }
  rewrite IL, IC.
  assert (Lt : Nat.ltb (length (k ++ [COLON; SPC] ++ v ++ [CR])) (length k) = false).
  { apply Nat.ltb_ge. rewrite app_length. lia. }
  rewrite Lt.
  assert (F1 : firstn (length k) b = k) by (unfold b; rewrite firstn_app, firstn_all, Nat.sub_diag; cbn; apply app_nil_r).
  assert (S1 : skipn (S (length k)) b = SPC :: v ++ CRLF ++ rest).
  { unfold b. replace (S (length k)) with (length (k ++ [COLON])) by (rewrite app_length; cbn; lia).
    replace (k ++ [COLON; SPC] ++ v ++ CRLF ++ rest) with ((k ++ [COLON]) ++ SPC :: v ++ CRLF ++ rest) by (rewrite <- app_assoc; reflexivity).
    rewrite skipn_app, skipn_all, Nat.sub_diag. reflexivity. }
  rewrite F1, S1. cbn [skip_sp]. change (Byte.eqb SPC SPC) with true. cbv iota.
  rewrite (skip_sp_id v (CRLF ++ rest) Ls) by (intros _; cbn; discriminate).
  assert (IL2 : index_byte LF (v ++ CRLF ++ rest) = Some (S (length v))).
  { unfold CRLF. replace (v ++ [CR; LF] ++ rest) with ((v ++ [CR]) ++ LF :: rest) by (rewrite <- app_assoc; reflexivity).
    rewrite index_byte_app; [rewrite app_length; cbn; f_equal; lia|].
    intros H. apply in_app_or in H as [H|[H|[]]]; [contradiction|discriminate]. }
  rewrite IL2.
  (* no continuation line *)
  assert (Ct : cont (length (v ++ CRLF ++ rest)) (v ++ CRLF ++ rest) (S (length v)) false = (S (length v), false)).
  { destruct (length (v ++ CRLF ++ rest)) as [|f] eqn:Lf; [reflexivity|]. cbn [cont].
    assert (Nt : nth_error (v ++ CRLF ++ rest) (S (S (length v))) = nth_error rest 0).
    { rewrite nth_error_app2 by lia. replace (S (S (length v)) - length v) with 2 by lia. reflexivity. }
    rewrite Nt. destruct rest as [|c rest']; [reflexivity|]. cbn [nth_error]. destruct Sr as [A C].
    destruct (Byte.eqb c SPC) eqn:X; [apply beqb_eq in X; contradiction|].
    destruct (Byte.eqb c TAB) eqn:Y; [apply beqb_eq in Y; contradiction|]. reflexivity. }
  rewrite Ct.
  assert (F2 : firstn (S (length v)) (v ++ CRLF ++ rest) = v ++ [CR]).
  { replace (S (length v)) with (length (v ++ [CR])) by (rewrite app_length; cbn; lia).
    unfold CRLF. replace (v ++ [CR; LF] ++ rest) with ((v ++ [CR]) ++ LF :: rest) by (rewrite <- app_assoc; reflexivity).
    rewrite firstn_app, firstn_all, Nat.sub_diag. cbn. apply app_nil_r. }
  assert (S2 : skipn (S (S (length v))) (v ++ CRLF ++ rest) = rest).
  { replace (S (S (length v))) with (length (v ++ CRLF)) by (rewrite app_length; cbn; lia).
    rewrite app_assoc, skipn_app, skipn_all, Nat.sub_diag. reflexivity. }
  rewrite F2, S2, (trim_value_cr v Ts). reflexivity.
Qed.

(* a whole block as a serialiser writes it *)
Definition field_ok (kv : bs * bs) : Prop :=
  let '(k, v) := kv in
  k <> [] /\ ~ In COLON k /\ ~ In LF k /\ starts_plain k /\
  ~ In CR v /\ ~ In LF v /\ no_lead_sp v /\ no_trail_sp v.

Definition render_field (kv : bs * bs) : bs := fst kv ++ [COLON; SPC] ++ snd kv ++ CRLF.
Definition render_block (fs : list (bs * bs)) : bs := flat_map render_field fs ++ CRLF.

Lemma starts_plain_app k w : k <> [] -> starts_plain k -> starts_plain (k ++ w).
Proof. destruct k; [congruence|auto]. Qed.

Theorem block_reads_back : forall fs body fuel, Forall field_ok fs -> length fs < fuel ->
  scan_all fuel (render_block fs ++ body) = SFields (map (fun kv => (normalize_header_key (fst kv), snd kv)) fs) body.
Proof.
  induction fs as [|[k v] fs IH]; intros body fuel F L; (destruct fuel as [|fuel]; [cbn in L; lia|]); cbn [scan_all].
  - unfold render_block. cbn [flat_map app]. reflexivity.
  - inversion F as [|? ? Hk Ffs]; subst. destruct Hk as (Nk & Kc & Kl & Kp & Vc & Vl & Ls & Ts).
    unfold render_block. cbn [flat_map]. unfold render_field at 1. cbn [fst snd].
    rewrite <- !app_assoc.
    assert (Sr : starts_plain (flat_map render_field fs ++ CRLF ++ body)).
    { destruct fs as [|[k2 v2] fs2]; [cbn; split; discriminate|].
      inversion Ffs as [|? ? Hk2 _]; subst. destruct Hk2 as (Nk2 & _ & _ & Kp2 & _).
      cbn [flat_map]. unfold render_field at 1. cbn [fst snd]. rewrite <- !app_assoc. apply starts_plain_app; auto. }
    replace (k ++ [COLON; SPC] ++ v ++ CRLF ++ flat_map render_field fs ++ CRLF ++ body)
      with (k ++ [COLON; SPC] ++ v ++ CRLF ++ (flat_map render_field fs ++ CRLF ++ body)) by reflexivity.
    rewrite (field_line_reads_back k v _ Nk Kc Kl Vc Vl Ls Ts Sr).
    specialize (IH body fuel Ffs ltac:(cbn in L; lia)). unfold render_block in IH. rewrite <- app_assoc in IH. rewrite IH.
    reflexivity.
Qed.
