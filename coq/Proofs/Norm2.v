From Coq Require Import String.
From Coq Require Import List Strings.Byte NArith Lia Bool Arith.
Require Import Bytes Show Tables Codec Norm Seg.
Import ListNotations.


Lemma skipn_add {A} a b (l : list A) : skipn (a + b) l = skipn b (skipn a l).
Proof.
  revert l; induction a as [|a IH]; intros l; simpl; auto.
  destruct l; simpl; auto. destruct b; reflexivity.
Qed.

Lemma render_app a b : render (a ++ b) = render a ++ render b.
Proof. induction a as [|g a IH]; simpl; auto. rewrite IH, <- app_assoc. reflexivity. Qed.

Lemma firstn_offset gs i : firstn (offset gs i) (render gs) = render (firstn i gs).
Proof.
  unfold offset. rewrite <- (firstn_skipn i gs) at 2. rewrite render_app.
  rewrite firstn_app, Nat.sub_diag, firstn_all. simpl. rewrite app_nil_r. reflexivity.
Qed.
Lemma skipn_offset gs i : skipn (offset gs i) (render gs) = render (skipn i gs).
Proof.
  unfold offset. rewrite <- (firstn_skipn i gs) at 2. rewrite render_app.
  rewrite skipn_app, Nat.sub_diag, skipn_all. simpl. reflexivity.
Qed.

Lemma first_nonlast_some X gs i : first_nonlast X gs = Some i ->
  exists rest, skipn i gs = X :: rest /\ rest <> [].
Proof.
  revert i; induction gs as [|g gs IH]; intros i; simpl; [discriminate|].
  destruct (bs_eqb g X && negb (match gs with [] => true | _ => false end)) eqn:E.
  - intros H; inversion H; subst. apply andb_true_iff in E as [E1 E2]. apply bs_eqb_eq in E1. subst.
    exists gs. simpl. split; auto. destruct gs; [discriminate|discriminate].
  - destruct (first_nonlast X gs) as [j|] eqn:F; simpl; [|discriminate].
    intros H; inversion H; subst. destruct (IH j eq_refl) as (rest & A & C).
    exists rest. simpl. auto.
Qed.

Lemma first_nonlast_none X gs : first_nonlast X gs = None ->
  forall a g b, gs = a ++ g :: b -> b <> [] -> g <> X.
Proof.
  induction gs as [|g0 gs IH]; simpl; intros H a g b E Hb.
  - destruct a; discriminate.
  - destruct (bs_eqb g0 X && negb (match gs with [] => true | _ => false end)) eqn:E0; [discriminate|].
    destruct (first_nonlast X gs) eqn:F; [discriminate|].
    destruct a as [|x a]; simpl in E; inversion E; subst.
    + intros ->. assert (bs_eqb X X = true) by (apply bs_eqb_eq; reflexivity).
      rewrite H0 in E0. destruct b; [congruence|]. discriminate.
    + eapply IH; eauto.
Qed.

Definition drop_at {A} (i : nat) (gs : list A) : list A := firstn i gs ++ skipn (S i) gs.

Lemma skipn_S_cons {A} i (l : list A) x r : skipn i l = x :: r -> skipn (S i) l = r.
Proof.
  revert l; induction i as [|i IH]; intros l H; simpl in *.
  - subst. reflexivity.
  - destruct l; [discriminate|]. apply IH. exact H.
Qed.

(* generic string-level cut for a non-last segment X at index i: drop "/X" *)
Lemma cut_seg X gs i rest :
  skipn i gs = X :: rest ->
  firstn (offset gs i) (render gs) ++ skipn (offset gs i + (1 + length X)) (render gs) = render (drop_at i gs).
Proof.
  intros H. unfold drop_at. rewrite render_app, firstn_offset. f_equal.
  rewrite (skipn_S_cons _ _ _ _ H).
  rewrite skipn_add, skipn_offset, H. cbn [render Nat.add skipn].
  rewrite skipn_app, skipn_all, Nat.sub_diag. reflexivity.
Qed.

(* ---- loop 2 as a function on strings (as in Norm.v) and on segments ---- *)

Lemma nosl_dot : nosl [x2e].
Proof. intros [H|[]]. discriminate. Qed.

Lemma drop_at_Forall {A} (P : A -> Prop) i l : Forall P l -> Forall P (drop_at i l).
Proof.
  intros F. unfold drop_at. apply Forall_app. split.
  - rewrite <- (firstn_skipn i l) in F. apply Forall_app in F. tauto.
  - rewrite <- (firstn_skipn (S i) l) in F. apply Forall_app in F. tauto.
Qed.

Lemma drop_at_length {A} i (l : list A) x r : skipn i l = x :: r -> S (length (drop_at i l)) = length l.
Proof.
  intros H. unfold drop_at. rewrite app_length, (skipn_S_cons _ _ _ _ H).
  assert (E : length l = length (firstn i l) + length (skipn i l)).
  { rewrite <- app_length, firstn_skipn. reflexivity. }
  rewrite E, H. simpl. lia.
Qed.

(* after loop 2 no non-last segment is "." ; the result is still a rendered slash-free list *)
Theorem loop2_segments : forall fuel gs, Forall nosl gs -> length gs < fuel ->
  exists gs', loop2 fuel (render gs) = Some (render gs') /\ Forall nosl gs' /\
              first_nonlast [x2e] gs' = None /\ length gs' <= length gs.
Proof.
  induction fuel as [|f IH]; intros gs F L; [lia|]. simpl.
  unfold pSDS. rewrite (find_sub_render [x2e] gs nosl_dot F).
  destruct (first_nonlast [x2e] gs) as [i|] eqn:E; simpl.
  - destruct (first_nonlast_some _ _ _ E) as (rest & Hs & Hne).
    pose proof (cut_seg [x2e] gs i rest Hs) as C. simpl in C. rewrite C.
    pose proof (drop_at_length _ _ _ _ Hs) as DL.
    destruct (IH (drop_at i gs)) as (gs' & A & B & N & Len).
    + apply drop_at_Forall. exact F.
    + lia.
    + exists gs'. repeat split; auto. lia.
  - exists gs. repeat split; auto.
Qed.
Print Assumptions loop2_segments.
