(* C12 proofs *)
From Coq Require Import String.
From Coq Require Import List ZArith Lia Bool Arith Strings.Byte.
Require Import Bytes Show Tables Chain.
Import ListNotations.
Open Scope Z_scope.

(* ---- what must hold of a trace (newest first) ---- *)
(* every Enter index is larger than all earlier Enter indices, and no Enter follows an Ab *)
Fixpoint good (t : list ev) : Prop :=
  match t with
  | [] => True
  | Enter i :: t' => good t' /\ (forall j, In (Enter j) t' -> j < i) /\ ~ In Ab t'
  | _ :: t' => good t'
  end.

Definition Inv (len : Z) (s : st) : Prop :=
  good (tr s) /\
  (forall j, In (Enter j) (tr s) -> 0 <= j < len /\ j <= idx s) /\
  (In Ab (tr s) -> abortIndex <= idx s) /\
  -1 <= idx s.

Definition InvStrict (len : Z) (s : st) : Prop :=
  Inv len s /\ (forall j, In (Enter j) (tr s) -> j < idx s).

Lemma wrap8_id z : -128 <= z <= 127 -> wrap8 z = z.
Proof. intros H. unfold wrap8. rewrite Z.mod_small; lia. Qed.

Lemma incr_idx s : wrapped (incr s) = false -> -1 <= idx s -> idx (incr s) = idx s + 1.
Proof.
  unfold incr; simpl. intros H H0. apply orb_false_iff in H as [_ H]. apply Z.ltb_ge in H.
  apply wrap8_id. lia.
Qed.

(* the ghost flag only grows *)
Lemma wrapped_mono : forall fuel hs,
  (forall s s', next fuel hs s = Some s' -> wrapped s = true -> wrapped s' = true) /\
  (forall s s', loop fuel hs s = Some s' -> wrapped s = true -> wrapped s' = true) /\
  (forall i a s s', acts fuel hs i a s = Some s' -> wrapped s = true -> wrapped s' = true).
Proof.
  induction fuel as [|f IH]; intros hs.
  - repeat split; intros; simpl in *; discriminate.
  - destruct (IH hs) as (IHn & IHl & IHa). repeat split.
    + intros s s' H W. simpl in H. apply (IHl _ _ H). unfold incr; simpl. rewrite W. reflexivity.
    + intros s s' H W. simpl in H. destruct (panicked s); [inversion H; subst; auto|].
      destruct (idx s <? Z.of_nat (length hs)); [|inversion H; subst; auto].
      destruct (nthh hs (idx s)) as [h|]; [|inversion H; subst; auto].
      destruct (acts f hs (idx s) h _) as [s2|] eqn:A; [|discriminate].
      assert (W2 : wrapped s2 = true) by (apply (IHa _ _ _ _ A); simpl; auto).
      destruct (panicked s2); [inversion H; subst; auto|].
      apply (IHl _ _ H). unfold incr; simpl. rewrite W2. reflexivity.
    + intros i a s s' H W. simpl in H. destruct a as [|[| |n] a'].
      * inversion H; subst; auto.
      * destruct (next f hs s) as [s1|] eqn:N; [|discriminate].
        assert (W1 : wrapped s1 = true) by (apply (IHn _ _ N); auto).
        destruct (panicked s1); [inversion H; subst; auto|]. apply (IHa _ _ _ _ H). auto.
      * apply (IHa _ _ _ _ H). simpl. auto.
      * apply (IHa _ _ _ _ H). simpl. auto.
Qed.

Section Main.
Variable hs : list handler.
Let len := Z.of_nat (length hs).
Hypothesis len_bound : len < abortIndex.      (* combineHandlers: finalSize < AbortIndex *)
Hypothesis ab_range : 0 <= abortIndex <= 127.

Lemma inv_incr s : Inv len s -> wrapped (incr s) = false -> InvStrict len (incr s).
Proof.
  intros (G & E & A & L) W. pose proof (incr_idx s W L) as I.
  unfold InvStrict, Inv. rewrite I. unfold incr; simpl.
  repeat split; auto; try lia.
  - apply E; auto.
  - apply E; auto.
  - specialize (E j H). lia.
  - intros H. specialize (A H). lia.
  - intros j H. specialize (E j H). lia.
Qed.

Lemma not_wrapped_back : forall fuel,
  (forall s s', next fuel hs s = Some s' -> wrapped s' = false -> wrapped s = false) /\
  (forall s s', loop fuel hs s = Some s' -> wrapped s' = false -> wrapped s = false) /\
  (forall i a s s', acts fuel hs i a s = Some s' -> wrapped s' = false -> wrapped s = false).
Proof.
  intros fuel. destruct (wrapped_mono fuel hs) as (A & B & C). repeat split; intros.
  - destruct (wrapped s) eqn:E; auto. rewrite (A _ _ H E) in H0. discriminate.
  - destruct (wrapped s) eqn:E; auto. rewrite (B _ _ H E) in H0. discriminate.
  - destruct (wrapped s) eqn:E; auto. rewrite (C _ _ _ _ H E) in H0. discriminate.
Qed.

Theorem inv_preserved : forall fuel,
  (forall s s', Inv len s -> next fuel hs s = Some s' -> wrapped s' = false -> Inv len s') /\
  (forall s s', InvStrict len s -> loop fuel hs s = Some s' -> wrapped s' = false -> Inv len s') /\
  (forall i a s s', Inv len s -> acts fuel hs i a s = Some s' -> wrapped s' = false -> Inv len s').
Proof.
  induction fuel as [|f IH].
  - split; [|split]; intros; simpl in *; discriminate.
  - destruct IH as (IHn & IHl & IHa). destruct (not_wrapped_back f) as (Bn & Bl & Ba).
    split; [|split].
    + (* next *)
      intros s s' I H W. simpl in H. apply (IHl _ _ (inv_incr s I (Bl _ _ H W)) H W).
    + (* loop *)
      intros s s' [I S] H W. simpl in H.
      destruct (panicked s); [inversion H; subst; auto|].
      destruct (idx s <? Z.of_nat (length hs)) eqn:Lt; [|inversion H; subst; auto].
      apply Z.ltb_lt in Lt. fold len in Lt.
      destruct (nthh hs (idx s)) as [h|] eqn:Nh.
      2:{ inversion H; subst. destruct I as (G & E & A & L). repeat split; simpl; auto; apply E; auto. }
      assert (I0 : 0 <= idx s).
      { unfold nthh in Nh. destruct (idx s <? 0) eqn:Z0; [discriminate|]. apply Z.ltb_ge in Z0. lia. }
      destruct I as (G & E & A & L).
      set (s1 := {| idx := idx s; tr := Enter (idx s) :: tr s; panicked := false; wrapped := wrapped s |}) in *.
      assert (I1 : Inv len s1).
      { unfold Inv, s1; simpl. repeat split; auto.
        - intros HA. specialize (A HA). lia.
        - destruct H0 as [H0|H0]; [inversion H0; subst; lia | apply E; auto].
        - destruct H0 as [H0|H0]; [inversion H0; subst; lia | apply E; auto].
        - destruct H0 as [H0|H0]; [inversion H0; subst; lia | specialize (E j H0); lia].
        - intros [HA|HA]; [discriminate|]. specialize (A HA). lia. }
      destruct (acts f hs (idx s) h s1) as [s2|] eqn:Ac; [|discriminate].
      destruct (panicked s2) eqn:P2.
      * inversion H; subst. apply (IHa _ _ _ _ I1 Ac W).
      * set (s2' := {| idx := idx s2; tr := Exit (idx s) :: tr s2; panicked := false; wrapped := wrapped s2 |}) in *.
        assert (W3 : wrapped (incr s2') = false) by (apply (Bl _ _ H W)).
        assert (W2 : wrapped s2 = false).
        { unfold incr, s2' in W3; simpl in W3. apply orb_false_iff in W3 as [X _]. exact X. }
        pose proof (IHa _ _ _ _ I1 Ac W2) as I2.
        assert (I2' : Inv len s2').
        { destruct I2 as (G2 & E2 & A2 & L2). unfold Inv, s2'; simpl. repeat split; auto.
          - destruct H0 as [H0|H0]; [discriminate | apply E2; auto].
          - destruct H0 as [H0|H0]; [discriminate | apply E2; auto].
          - destruct H0 as [H0|H0]; [discriminate | apply E2; auto].
          - intros [HA|HA]; [discriminate | auto]. }
        apply (IHl _ _ (inv_incr s2' I2' W3) H W).
    + (* acts *)
      intros i a s s' I H W. simpl in H. destruct a as [|[| |n] a'].
      * inversion H; subst; auto.
      * destruct (next f hs s) as [s1|] eqn:N; [|discriminate].
        destruct (panicked s1) eqn:P1.
        -- inversion H; subst. apply (IHn _ _ I N W).
        -- apply (IHa _ _ _ _ (IHn _ _ I N (Ba _ _ _ _ H W)) H W).
      * apply (IHa i a' {| idx := abortIndex; tr := Ab :: tr s; panicked := panicked s; wrapped := wrapped s |} s'); auto.
        destruct I as (G & E & A & L). unfold Inv; simpl. repeat split; auto; try lia.
        -- destruct H0 as [H0|H0]; [discriminate | apply E; auto].
        -- destruct H0 as [H0|H0]; [discriminate | apply E; auto].
        -- destruct H0 as [H0|H0]; [discriminate | specialize (E j H0); lia].
      * apply (IHa i a' {| idx := idx s; tr := Mark i n :: tr s; panicked := panicked s; wrapped := wrapped s |} s'); auto.
        destruct I as (G & E & A & L). unfold Inv; simpl. repeat split; auto.
        -- destruct H0 as [H0|H0]; [discriminate | apply E; auto].
        -- destruct H0 as [H0|H0]; [discriminate | apply E; auto].
        -- destruct H0 as [H0|H0]; [discriminate | apply E; auto].
        -- intros [HA|HA]; [discriminate | auto].
Qed.

(* the property: starting from the fresh context, in any run without int8 wrap-around every handler
   is entered at most once, in increasing index order, and never after an Abort *)

Theorem C12_once_in_order_abort : forall fuel s',
  next fuel hs init = Some s' -> wrapped s' = false -> good (tr s').
Proof.
  intros fuel s' H W. destruct (inv_preserved fuel) as (A & _ & _).
  assert (I : Inv len init) by (unfold Inv, init; simpl; repeat split; auto; try lia; contradiction).
  destruct (A _ _ I H W) as (G & _). exact G.
Qed.
End Main.
Print Assumptions C12_once_in_order_abort.

(* ---------------- onion order: the trace is well bracketed ---------------- *)
(* traces oldest first; `wb c u`: u is a sequence of marks of handler c, Abort events and complete
   blocks  Enter i · (a wb i sequence) · Exit i  — i.e. handlers unwind in reverse order and
   everything handler i does after a Next comes after the Exit of every handler entered inside it *)
Inductive wb : Z -> list ev -> Prop :=
| wb_nil c : wb c []
| wb_mark c t n : wb c t -> wb c (t ++ [Mark c n])
| wb_ab c t : wb c t -> wb c (t ++ [Ab])
| wb_block c t i u : wb c t -> wb i u -> wb c (t ++ Enter i :: u ++ [Exit i]).

Lemma wb_app c t u : wb c t -> wb c u -> wb c (t ++ u).
Proof.
  intros Ht Hu. induction Hu.
  - rewrite app_nil_r. exact Ht.
  - rewrite app_assoc. apply wb_mark. auto.
  - rewrite app_assoc. apply wb_ab. auto.
  - rewrite app_assoc. apply wb_block; auto.
Qed.

Lemma wb_block_cons c i u1 u2 : wb i u1 -> wb c u2 -> wb c (Enter i :: u1 ++ Exit i :: u2).
Proof.
  intros H1 H2.
  replace (Enter i :: u1 ++ Exit i :: u2) with (([] ++ Enter i :: u1 ++ [Exit i]) ++ u2)
    by (simpl; rewrite <- app_assoc; reflexivity).
  apply wb_app; auto. apply wb_block; auto. constructor.
Qed.
Lemma wb_ab_cons c u : wb c u -> wb c (Ab :: u).
Proof. intros H. change (Ab :: u) with (([] ++ [Ab]) ++ u). apply wb_app; auto. apply wb_ab. constructor. Qed.
Lemma wb_mark_cons c n u : wb c u -> wb c (Mark c n :: u).
Proof. intros H. change (Mark c n :: u) with (([] ++ [Mark c n]) ++ u). apply wb_app; auto. apply wb_mark. constructor. Qed.

Definition blocks (u : list ev) : Prop := forall c, wb c u.

Lemma blocks_nil : blocks []. Proof. intros c. constructor. Qed.

Theorem bracketed : forall fuel hs,
  (forall s s', next fuel hs s = Some s' -> panicked s' = false ->
      exists u, tr s' = rev u ++ tr s /\ blocks u) /\
  (forall s s', loop fuel hs s = Some s' -> panicked s' = false ->
      exists u, tr s' = rev u ++ tr s /\ blocks u) /\
  (forall i a s s', acts fuel hs i a s = Some s' -> panicked s' = false ->
      exists u, tr s' = rev u ++ tr s /\ wb i u).
Proof.
  induction fuel as [|f IH]; intros hs.
  - split; [|split]; intros; simpl in *; discriminate.
  - destruct (IH hs) as (IHn & IHl & IHa). split; [|split].
    + intros s s' H P. simpl in H. destruct (IHl _ _ H P) as (u & E & Bu).
      exists u. split; auto.
    + intros s s' H P. simpl in H.
      destruct (panicked s) eqn:Ps; [inversion H; subst; exists []; split; [reflexivity|apply blocks_nil]|].
      destruct (idx s <? Z.of_nat (length hs)); [|inversion H; subst; exists []; split; [reflexivity|apply blocks_nil]].
      destruct (nthh hs (idx s)) as [h|]; [|inversion H; subst; simpl in P; discriminate].
      destruct (acts f hs (idx s) h _) as [s2|] eqn:Ac; [|discriminate].
      destruct (panicked s2) eqn:P2; [inversion H; subst; congruence|].
      destruct (IHa _ _ _ _ Ac P2) as (u1 & E1 & W1). simpl in E1.
      destruct (IHl _ _ H P) as (u2 & E2 & B2). simpl in E2.
      exists (Enter (idx s) :: u1 ++ Exit (idx s) :: u2). split.
      * rewrite E2, E1. simpl. rewrite rev_app_distr. simpl.
        rewrite <- !app_assoc. simpl. reflexivity.
      * intros c. apply wb_block_cons; [exact W1 | apply B2].
    + intros i a s s' H P. simpl in H. destruct a as [|[| |n] a'].
      * inversion H; subst. exists []. split; [reflexivity|constructor].
      * destruct (next f hs s) as [s1|] eqn:N; [|discriminate].
        destruct (panicked s1) eqn:P1; [inversion H; subst; congruence|].
        destruct (IHn _ _ N P1) as (u1 & E1 & B1).
        destruct (IHa _ _ _ _ H P) as (u2 & E2 & W2).
        exists (u1 ++ u2). split.
        -- rewrite E2, E1, rev_app_distr, app_assoc. reflexivity.
        -- apply wb_app; [apply B1 | exact W2].
      * destruct (IHa _ _ _ _ H P) as (u2 & E2 & W2). simpl in E2.
        exists (Ab :: u2). split.
        -- rewrite E2. simpl. rewrite <- app_assoc. reflexivity.
        -- apply wb_ab_cons. exact W2.
      * destruct (IHa _ _ _ _ H P) as (u2 & E2 & W2). simpl in E2.
        exists (Mark i n :: u2). split.
        -- rewrite E2. simpl. rewrite <- app_assoc. reflexivity.
        -- apply wb_mark_cons. exact W2.
Qed.

Corollary onion : forall fuel hs s', next fuel hs init = Some s' -> panicked s' = false ->
  blocks (rev (tr s')).
Proof.
  intros fuel hs s' H P. destruct (bracketed fuel hs) as (A & _ & _).
  destruct (A _ _ H P) as (u & E & Bu). simpl in E. rewrite app_nil_r in E.
  rewrite E, rev_involutive. exact Bu.
Qed.
