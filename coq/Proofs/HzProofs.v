(* C16 proofs: the tree hz builds holds exactly the declared routes; names handed out by the
   unique-name table are pairwise distinct. *)
From Coq Require Import String.
From Coq Require Import List Strings.Byte NArith Bool Arith Lia Permutation.
Require Import Bytes Show HzRouter.
Import ListNotations.

(* ---------- induction over the tree ---------- *)
Section NodeInd.
  Variable P : node -> Prop.
  Hypothesis H : forall p h cs, Forall P cs -> P (Node p h cs).
  Fixpoint node_ind' (n : node) : P n :=
    match n with
    | Node p h cs => H p h cs ((fix go (l : list node) : Forall P l :=
                                 match l with [] => Forall_nil P | x :: r => Forall_cons x (node_ind' x) (go r) end) cs)
    end.
End NodeInd.

(* ---------- the routes a tree holds: (path elements from the root, handler, method) ---------- *)
Fixpoint flat (pre : list bs) (n : node) : list (list bs * (bs * bs)) :=
  match n with
  | Node p h cs =>
      (match h with Some hv => [(pre ++ [p], hv)] | None => [] end) ++ flat_map (flat (pre ++ [p])) cs
  end.

Lemma flat_node pre p h cs : flat pre (Node p h cs) =
  (match h with Some hv => [(pre ++ [p], hv)] | None => [] end) ++ flat_map (flat (pre ++ [p])) cs.
Proof. reflexivity. Qed.

Lemma flat_map_perm {A B} (f : A -> list B) l1 l2 : Permutation l1 l2 -> Permutation (flat_map f l1) (flat_map f l2).
Proof.
  induction 1; cbn [flat_map]; auto.
  - apply Permutation_app_head. assumption.
  - rewrite !app_assoc. apply Permutation_app_tail. apply Permutation_app_comm.
  - eapply Permutation_trans; eauto.
Qed.

Lemma ins_perm x l : Permutation (ins x l) (x :: l).
Proof.
  induction l as [|y r IH]; cbn [ins]; [reflexivity|].
  destruct (less x y); [reflexivity|]. rewrite IH. apply perm_swap.
Qed.

Lemma sort_children_perm l : Permutation (sort_children l) l.
Proof.
  unfold sort_children.
  assert (G : forall acc, Permutation (fold_left (fun a x => ins x a) l acc) (acc ++ l)).
  { induction l as [|x r IH]; intros acc; cbn [fold_left]; [rewrite app_nil_r; reflexivity|].
    rewrite IH. rewrite ins_perm. cbn [app]. apply Permutation_middle. }
  apply (G []).
Qed.

Lemma perm_pull {A} (x : A) a b c : Permutation (a ++ b ++ x :: c) (x :: a ++ b ++ c).
Proof. rewrite !app_assoc. symmetry. apply Permutation_middle. Qed.

(* a chain of new nodes holds exactly one route *)
Lemma flat_chain : forall paths h c pre, chain paths h = Some c ->
  flat pre c = [(pre ++ map (cons sl) paths, h)].
Proof.
  induction paths as [|p r IH]; intros h c pre H; cbn [chain] in H; [discriminate|].
  destruct r as [|p2 r2].
  - inversion H; subst. cbn. rewrite ?app_nil_r. reflexivity.
  - destruct (chain (p2 :: r2) h) as [c'|] eqn:E; [|discriminate]. inversion H; subst.
    rewrite flat_node. cbn [flat_map app]. rewrite (IH h c' _ E), app_nil_r, <- app_assoc. reflexivity.
Qed.

Lemma chain_some paths h : paths <> [] -> exists c, chain paths h = Some c.
Proof.
  induction paths as [|p r IH]; intros N; [congruence|]. cbn [chain].
  destruct r as [|p2 r2]; [eauto|]. destruct IH as [c E]; [discriminate|]. rewrite E. eauto.
Qed.

(* Update adds exactly the new route, whatever the shape of the tree and the mode *)
Theorem update_adds : forall sortr paths h n pre, paths <> [] ->
  Permutation (flat pre (update sortr paths h n))
              ((pre ++ [n_path n] ++ map (cons sl) paths, h) :: flat pre n).
Proof.
  intros sortr paths. induction paths as [|p rest IH]; intros h n pre N; [congruence|].
  destruct n as [np nh cs]. cbn [update n_path].
  (* the two ways of adding under this node *)
  assert (ADD : forall ps, ps <> [] -> forall c, chain ps h = Some c ->
            Permutation (flat pre (Node np nh (sort_children (cs ++ [c]))))
                        ((pre ++ [np] ++ map (cons sl) ps, h) :: flat pre (Node np nh cs))).
  { intros ps Nps c E. rewrite !flat_node.
    rewrite (flat_map_perm _ _ _ (sort_children_perm (cs ++ [c]))).
    rewrite flat_map_app. cbn [flat_map]. rewrite (flat_chain _ _ _ _ E), app_nil_r.
    rewrite <- (app_assoc pre). rewrite app_assoc. symmetry. apply Permutation_cons_append. }
  (* the scan over the children *)
  assert (SCAN : forall post pre0, cs = rev pre0 ++ post ->
    Permutation
      (flat pre ((fix scan (pre1 post1 : list node) {struct post1} : node :=
             match post1 with
             | [] => match chain (p :: rest) h with Some c => Node np nh (sort_children (cs ++ [c])) | None => Node np nh cs end
             | c :: post' =>
                 if matches_child sortr p c then
                   match rest with
                   | [] => match chain [p] h with
                           | Some leaf => Node np nh (sort_children (cs ++ [leaf]))
                           | None => Node np nh cs
                           end
                   | _ => Node np nh (rev pre1 ++ update sortr rest h c :: post')
                   end
                 else scan (c :: pre1) post'
             end) pre0 post))
      ((pre ++ [np] ++ map (cons sl) (p :: rest), h) :: flat pre (Node np nh cs))).
  { induction post as [|c post' IHp]; intros pre0 E.
    - destruct (chain_some (p :: rest) h N) as [c Ec]. rewrite Ec. apply (ADD (p :: rest) N c Ec).
    - destruct (matches_child sortr p c) eqn:M.
      + destruct rest as [|p2 r2].
        * cbn [chain]. apply (ADD [p]); [discriminate|reflexivity].
        * (* descend into c *)
          unfold matches_child in M. apply andb_true_iff in M as [M1 _]. apply bs_eqb_eq in M1.
          rewrite !flat_node. rewrite E. rewrite !flat_map_app. cbn [flat_map].
          specialize (IH h c (pre ++ [np]) ltac:(discriminate)).
          rewrite IH. rewrite <- M1. rewrite <- (app_assoc pre). cbn [app map].
          apply perm_pull.
      + apply (IHp (c :: pre0)). cbn [rev]. rewrite <- app_assoc. exact E. }
  apply (SCAN cs []). reflexivity.
Qed.

(* ---------- the whole build ---------- *)
Local Arguments matches_child : simpl never.
Local Arguments chain : simpl never.
Local Arguments sort_children : simpl never.

Lemma update_path sortr paths h n : n_path (update sortr paths h n) = n_path n.
Proof.
  destruct n as [np nh cs]; destruct paths as [|p rest]; [reflexivity|]. cbn [update n_path].
  match goal with |- n_path (?F [] cs) = _ => assert (G : forall post pre0, n_path (F pre0 post) = np) end.
  { induction post as [|c post IHc]; intros pre0.
    - simpl. destruct (chain (p :: rest) h); reflexivity.
    - simpl. destruct (matches_child sortr p c) eqn:M; [|apply IHc].
      destruct rest; [destruct (chain [p] h); reflexivity|reflexivity]. }
  apply G.
Qed.

Definition route_of (alias : bs) (d : decl) : list bs * (bs * bs) :=
  ([sl] :: map (cons sl) (split_path (d_path d)), (alias ++ B "." ++ d_name d, http_method (d_verb d))).

Theorem build_holds_declared sortr alias : forall ds,
  (forall d, In d ds -> split_path (d_path d) <> []) ->
  Permutation (flat [] (build sortr alias ds)) (map (route_of alias) ds).
Proof.
  intros ds. unfold build.
  assert (G : forall t, (forall d, In d ds -> split_path (d_path d) <> []) -> n_path t = [sl] ->
            Permutation (flat [] (fold_left (add_decl sortr alias) ds t)) (map (route_of alias) ds ++ flat [] t)).
  { induction ds as [|d r IH]; intros t Hne Hp; cbn [fold_left map app]; [reflexivity|].
    assert (Hp' : n_path (add_decl sortr alias t d) = [sl]) by (unfold add_decl; rewrite update_path; exact Hp).
    rewrite (IH (add_decl sortr alias t d) (fun d0 H => Hne d0 (or_intror H)) Hp').
    unfold add_decl at 1. rewrite (update_adds sortr _ _ t [] (Hne d (or_introl eq_refl))).
    rewrite Hp. cbn [app]. unfold route_of at 3. symmetry. apply Permutation_middle. }
  intros Hne. rewrite (G root0 Hne eq_refl). cbn. rewrite app_nil_r. reflexivity.
Qed.

(* the path elements of a declaration spell its path *)
Lemma concat_split : forall q cur, concat (map (cons sl) (split_on sl q cur)) = sl :: rev cur ++ q.
Proof.
  induction q as [|c r IH]; intros cur; cbn [split_on map concat].
  - rewrite !app_nil_r. reflexivity.
  - destruct (Byte.eqb c sl) eqn:E.
    + apply beqb_eq in E. subst c. cbn [map concat]. rewrite IH. cbn [rev app]. reflexivity.
    + rewrite IH. cbn [rev]. rewrite <- app_assoc. reflexivity.
Qed.

Theorem split_path_spells q : concat (map (cons sl) (split_path (sl :: q))) = sl :: q.
Proof.
  unfold split_path. cbn [split_on]. rewrite beqb_refl. cbn [rev]. apply (concat_split q []).
Qed.

(* ---------- the unique-name table ---------- *)
Lemma first_free_fresh : forall fuel i name used u, first_free fuel i name used = Some u -> mem u used = false.
Proof.
  induction fuel as [|f IH]; intros i name used u H; cbn [first_free] in H; [discriminate|].
  destruct (mem (name ++ show_nat i) used) eqn:M; [eapply IH; eauto|]. inversion H; subst. exact M.
Qed.

Theorem unique_name_fresh name used u used' :
  unique_name name used = Some (u, used') -> mem u used = false /\ used' = u :: used.
Proof.
  unfold unique_name. destruct (mem name used) eqn:M.
  - destruct (first_free (S (length used)) 0 name used) as [v|] eqn:F; [|discriminate].
    intros H; inversion H; subst. split; [eapply first_free_fresh; eauto|reflexivity].
  - intros H; inversion H; subst. auto.
Qed.

Lemma mem_In x l : mem x l = true <-> In x l.
Proof.
  induction l as [|y r IH]; cbn [mem In]; [split; [discriminate|tauto]|].
  rewrite orb_true_iff, IH. split; intros [H|H]; auto.
  - left. apply bs_eqb_eq in H. auto.
  - left. apply bs_eqb_eq. auto.
Qed.
Lemma mem_false_In x l : mem x l = false <-> ~ In x l.
Proof.
  rewrite <- mem_In. destruct (mem x l); intuition congruence.
Qed.

(* the group variables a statement list declares, blocks included *)
Fixpoint sdefs (s : stmt) : list bs :=
  match s with
  | SGroup v _ _ _ => [v]
  | SHandle _ _ _ _ _ => []
  | SBlock b => flat_map sdefs b
  end.
Definition defs (ss : list stmt) : list bs := flat_map sdefs ss.

Lemma defs_app a b : defs (a ++ b) = defs a ++ defs b.
Proof. unfold defs. apply flat_map_app. Qed.

Lemma nodup_app {A} (a b : list A) : NoDup a -> NoDup b -> (forall x, In x a -> ~ In x b) -> NoDup (a ++ b).
Proof.
  induction a as [|x a IH]; intros Na Nb D; cbn [app]; [exact Nb|].
  inversion Na; subst. constructor.
  - intros H. apply in_app_or in H as [H|H]; [contradiction|]. apply (D x (or_introl eq_refl) H).
  - apply IH; auto. intros y Hy. apply D. right. exact Hy.
Qed.

(* what one emission adds to the table: fresh names, pairwise distinct, and every declared
   variable is "_" + one of them, each used once *)
Definition adds (used used' : list bs) (ss : list stmt) : Prop :=
  exists fresh vars, used' = fresh ++ used /\ NoDup fresh /\ (forall u, In u fresh -> ~ In u used) /\
    defs ss = map (app (B "_")) vars /\ NoDup vars /\ incl vars fresh.

Lemma adds_compose used used1 used2 s1 s2 :
  adds used used1 s1 -> adds used1 used2 s2 -> adds used used2 (s1 ++ s2).
Proof.
  intros (f1 & v1 & E1 & N1 & F1 & D1 & V1 & I1) (f2 & v2 & E2 & N2 & F2 & D2 & V2 & I2).
  exists (f2 ++ f1), (v1 ++ v2). subst.
  assert (Disj : forall u, In u f2 -> ~ In u f1).
  { intros u H2 H1. apply (F2 u H2). apply in_or_app. auto. }
  repeat split.
  - rewrite app_assoc. reflexivity.
  - apply nodup_app; auto.
  - intros u H. apply in_app_or in H as [H|H].
    + intros K. apply (F2 u H). apply in_or_app. auto.
    + apply F1. exact H.
  - rewrite defs_app, D1, D2, map_app. reflexivity.
  - apply nodup_app; auto. intros u H1 H2. apply (Disj u (I2 u H2) (I1 u H1)).
  - intros u H. apply in_app_or in H as [H|H]; apply in_or_app; auto.
Qed.

Lemma adds_refl used : adds used used [].
Proof. exists [], []. repeat split; auto; try constructor. intros u []. Qed.

Lemma adds_same_defs used used' s1 s2 : defs s1 = defs s2 -> adds used used' s1 -> adds used used' s2.
Proof. intros E (f & v & A). exists f, v. rewrite <- E. exact A. Qed.

Lemma emit_kids_adds em : (forall c used ss used', em c used = Some (ss, used') -> adds used used' ss) ->
  forall cs used ss used', emit_kids em cs used = Some (ss, used') -> adds used used' ss.
Proof.
  intros Hem. induction cs as [|c r IH]; intros used ss used' H; cbn [emit_kids] in H.
  - inversion H; subst. apply adds_refl.
  - destruct (em c used) as [[body u1]|] eqn:E; [|discriminate].
    destruct (emit_kids em r u1) as [[rest u2]|] eqn:K; [|discriminate]. inversion H; subst.
    apply (adds_compose used u1 used'); [|eapply IH; eauto].
    apply (adds_same_defs _ _ body); [|eapply Hem; eauto].
    destruct (n_handler c); [reflexivity|]. unfold defs. cbn [flat_map sdefs]. rewrite app_nil_r. reflexivity.
Qed.

Lemma adds_names used used' ss fresh vars :
  used' = fresh ++ used -> NoDup fresh -> (forall u, In u fresh -> ~ In u used) ->
  defs ss = map (app (B "_")) vars -> NoDup vars -> incl vars fresh -> adds used used' ss.
Proof. intros. exists fresh, vars. repeat split; auto. Qed.

Lemma emit_adds : forall fuel grp n used ss used', emit fuel grp n used = Some (ss, used') -> adds used used' ss.
Proof.
  induction fuel as [|f IH]; intros grp n used ss used' H; cbn [emit] in H; [discriminate|].
  destruct (dye_node n used) as [[[mw hmw] used1]|] eqn:D; [|discriminate].
  destruct (emit_kids (emit f mw) (n_children n) used1) as [[ks u]|] eqn:K; [|discriminate].
  inversion H; subst. clear H.
  pose proof (emit_kids_adds (emit f mw) (fun c u0 s u1 => IH mw c u0 s u1) _ _ _ _ K) as AK.
  (* the node's own lines *)
  assert (A0 : adds used used1
                 ((match n_handler n with Some (h, m) => [SHandle grp m (n_path n) (hmw ++ B "Mw") h] | None => [] end) ++
                  (match n_children n with [] => [] | _ => [SGroup mw (if bs_eqb (n_path n) [sl] then B "r" else grp) (n_path n) (mw ++ B "Mw")] end))).
  { unfold dye_node in D.
    assert (Dh : forall l, defs ((match n_handler n with Some (h, m) => [SHandle grp m (n_path n) (hmw ++ B "Mw") h] | None => [] end) ++ l) = defs l).
    { intros l. destruct (n_handler n) as [[h m]|]; reflexivity. }
    assert (ND2 : forall (a b : bs) l, ~ In a (b :: l) -> ~ In b l -> NoDup [a; b]).
    { intros a b l Ha Hb. constructor; [intros [E|[]]; subst; apply Ha; left; reflexivity|constructor; [intros []|constructor]]. }
    assert (DJ2 : forall (a b : bs) l, ~ In a (b :: l) -> ~ In b l -> forall x, In x [a; b] -> ~ In x l).
    { intros a b l Ha Hb x [<-|[<-|[]]]; auto. intros K1. apply Ha. right. exact K1. }
    destruct (n_handler n) as [[h m]|] eqn:Hh.
    - destruct (n_children n) as [|c0 cr] eqn:Hc.
      + destruct (unique_name (mw_name (raw_handler_name h)) used) as [[u0 us]|] eqn:U; [|discriminate].
        inversion D; subst. destruct (unique_name_fresh _ _ _ _ U) as [F ->]. apply mem_false_In in F.
        apply (adds_names _ _ _ [u0] []);
          [reflexivity | constructor; [intros []|constructor] | intros x [<-|[]]; exact F | reflexivity | constructor | intros x []].
      + destruct (unique_name (mw_name (drop_lead_slash (n_path n))) used) as [[u1 us1]|] eqn:U1; [|discriminate].
        destruct (unique_name (mw_name (raw_handler_name h)) us1) as [[u2 us2]|] eqn:U2; [|discriminate].
        inversion D; subst. destruct (unique_name_fresh _ _ _ _ U1) as [F1 ->].
        destruct (unique_name_fresh _ _ _ _ U2) as [F2 ->].
        apply mem_false_In in F1. apply mem_false_In in F2.
        apply (adds_names _ _ _ [u2; u1] [u1]);
          [reflexivity | eapply ND2; eauto | eapply DJ2; eauto | reflexivity | constructor; [intros []|constructor]
          | intros x [<-|[]]; right; left; reflexivity].
    - destruct (unique_name (mw_name (drop_lead_slash (n_path n))) used) as [[u1 us1]|] eqn:U1; [|discriminate].
      destruct (unique_name [] us1) as [[u2 us2]|] eqn:U2; [|discriminate].
      inversion D; subst. destruct (unique_name_fresh _ _ _ _ U1) as [F1 ->].
      destruct (unique_name_fresh _ _ _ _ U2) as [F2 ->].
      apply mem_false_In in F1. apply mem_false_In in F2.
      destruct (n_children n) as [|c0 cr].
      + apply (adds_names _ _ _ [u2; u1] []);
          [reflexivity | eapply ND2; eauto | eapply DJ2; eauto | reflexivity | constructor | intros x []].
      + apply (adds_names _ _ _ [u2; u1] [u1]);
          [reflexivity | eapply ND2; eauto | eapply DJ2; eauto | reflexivity | constructor; [intros []|constructor]
          | intros x [<-|[]]; right; left; reflexivity]. }
  rewrite app_assoc. eapply adds_compose; eauto.
Qed.

(* every variable declared by the generated Register body has its own name *)
Theorem group_variables_distinct t ss : emit_root t = Some ss -> NoDup (defs ss).
Proof.
  unfold emit_root. destruct (n_children t) as [|c r] eqn:C.
  - intros H; inversion H; subst. constructor.
  - destruct (emit_kids (emit (S (depth t)) (B "root")) (c :: r) []) as [[ks u]|] eqn:K; [|discriminate].
    intros H; inversion H; subst. clear H.
    pose proof (emit_kids_adds _ (fun c0 u0 s u1 => emit_adds (S (depth t)) (B "root") c0 u0 s u1) _ _ _ _ K)
      as (fresh & vars & E & Nf & Ff & Dv & Nv & Iv).
    unfold defs. cbn [flat_map sdefs app]. fold (defs ks). rewrite Dv. constructor.
    + (* "root" is not "_" + anything *)
      intros Hin. apply in_map_iff in Hin as (x & Hx & _). discriminate.
    + apply FinFun.Injective_map_NoDup; [|exact Nv]. intros a b Hab. apply app_inv_head in Hab. exact Hab.
Qed.
