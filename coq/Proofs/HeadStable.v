(* C02: the whole request head and the whole response head (first line, then the field scanner on a complete
   block) are extension-stable parsers, so reading them does not depend on how the bytes arrive. *)
From Coq Require Import String.
From Coq Require Import List Strings.Byte NArith ZArith Bool Arith Lia.
Require Import Bytes Show Res Tables Chunk TrailerKeys Range HeaderBlock HeaderScan HeaderScanProofs Retry ScanStable ReqHead RespHead.
Import ListNotations.
Local Open Scope nat_scope.

Lemma next_line_app b l r q : next_line b = Some (l, r) -> next_line (b ++ q) = Some (l, r ++ q).
Proof.
  unfold next_line. destruct (index_byte LF b) as [n|] eqn:H; [|discriminate].
  rewrite (index_byte_app_l LF b q n H). pose proof (index_byte_lt _ _ _ H) as L.
  intros E. inversion E; subst. rewrite (firstn_app_lt n b q) by lia. rewrite (skipn_app_le (S n) b q) by lia. reflexivity.
Qed.
Lemma next_line_len b l r : next_line b = Some (l, r) -> length r < length b.
Proof.
  unfold next_line. destruct (index_byte LF b) as [n|] eqn:H; [|discriminate].
  pose proof (index_byte_lt _ _ _ H) as L. intros E. injection E as _ <-. change (length (skipn (S n) b) < length b). rewrite skipn_length. lia.
Qed.

Lemma first_line_app : forall f b l r q, first_nonempty_line f b = Some (l, r) ->
  forall f', f <= f' -> first_nonempty_line f' (b ++ q) = Some (l, r ++ q).
Proof.
  induction f as [|f IH]; intros b l r q H f' Lf; [discriminate|]. destruct f' as [|f']; [lia|].
  cbn [first_nonempty_line] in *. destruct (next_line b) as [[l0 r0]|] eqn:N; [|discriminate].
  rewrite (next_line_app _ _ _ q N). destruct l0 as [|c l0]; [apply IH; [exact H|lia]|].
  inversion H; subst. reflexivity.
Qed.

(* the first line of a request *)
Lemma request_line_stable b q m u h rest :
  parse_first_line b = FLOk m u h rest -> parse_first_line (b ++ q) = FLOk m u h (rest ++ q).
Proof.
  unfold parse_first_line. destruct (first_nonempty_line (S (length b)) b) as [[l r]|] eqn:F; [|discriminate].
  rewrite (first_line_app _ _ _ _ q F (S (length (b ++ q)))) by (rewrite app_length; lia).
  destruct (index_byte SPC l) as [[|n]|]; try discriminate.
  destruct (last_index SPC (skipn (S (S n)) l) 0 None) as [[|k]|]; try discriminate; intros E; inversion E; subst; reflexivity.
Qed.
Lemma request_line_bad_stable b q : parse_first_line b = FLBad -> parse_first_line (b ++ q) = FLBad.
Proof.
  unfold parse_first_line. destruct (first_nonempty_line (S (length b)) b) as [[l r]|] eqn:F; [|discriminate].
  rewrite (first_line_app _ _ _ _ q F (S (length (b ++ q)))) by (rewrite app_length; lia).
  destruct (index_byte SPC l) as [[|n]|]; try discriminate; try reflexivity.
  destruct (last_index SPC (skipn (S (S n)) l) 0 None) as [[|k]|]; try discriminate; reflexivity.
Qed.

(* the first line of a response *)
Lemma status_line_stable b q h c rest :
  parse_status_line b = SLOk h c rest -> parse_status_line (b ++ q) = SLOk h c (rest ++ q).
Proof.
  unfold parse_status_line. destruct (first_nonempty_line (S (length b)) b) as [[l r]|] eqn:F; [|discriminate].
  rewrite (first_line_app _ _ _ _ q F (S (length (b ++ q)))) by (rewrite app_length; lia).
  destruct (index_byte SPC l) as [n|]; [|discriminate].
  destruct (parse_uint_buf (skipn (S n) l)) as [code k|]; [|discriminate].
  destruct (nth_error (skipn (S n) l) k) as [x|]; [destruct (Byte.eqb x SPC)|]; try discriminate; intros E; inversion E; subst; reflexivity.
Qed.
Lemma status_line_bad_stable b q : parse_status_line b = SLBad -> parse_status_line (b ++ q) = SLBad.
Proof.
  unfold parse_status_line. destruct (first_nonempty_line (S (length b)) b) as [[l r]|] eqn:F; [|discriminate].
  rewrite (first_line_app _ _ _ _ q F (S (length (b ++ q)))) by (rewrite app_length; lia).
  destruct (index_byte SPC l) as [n|]; [|reflexivity].
  destruct (parse_uint_buf (skipn (S n) l)) as [code k|]; [|reflexivity].
  destruct (nth_error (skipn (S n) l) k) as [x|]; [destruct (Byte.eqb x SPC)|]; try discriminate; reflexivity.
Qed.

(* ---------- the request head as one parser: value = method, target, version, fields ---------- *)
Definition req_val : Type := (bs * bs * bool * list (bs * bs))%type.
Inductive head_err := HeadBadLine | HeadBadName (fs : list (bs * bs)).

Definition req_head_parse (b : bs) : pres req_val head_err :=
  match parse_first_line b with
  | FLNeedMore => PMore _ _
  | FLBad => PErr _ _ HeadBadLine
  | FLOk m u h rest =>
      match fields_parse rest with
      | PMore _ _ => PMore _ _
      | PErr _ _ fs => PErr _ _ (HeadBadName fs)
      | POk _ _ n fs => POk _ _ (length b - length rest + n) (m, u, h, fs)
      end
  end.

Lemma first_line_rest_len : forall f b l r, first_nonempty_line f b = Some (l, r) -> length r <= length b.
Proof.
  induction f as [|f IH]; intros b l r H; [discriminate|]. cbn [first_nonempty_line] in H.
  destruct (next_line b) as [[l0 r0]|] eqn:N; [|discriminate]. pose proof (next_line_len _ _ _ N).
  destruct l0; [specialize (IH _ _ _ H); lia|inversion H; subst; lia].
Qed.
Lemma request_line_rest_len b m u h rest : parse_first_line b = FLOk m u h rest -> length rest <= length b.
Proof.
  unfold parse_first_line. destruct (first_nonempty_line (S (length b)) b) as [[l r]|] eqn:F; [|discriminate].
  pose proof (first_line_rest_len _ _ _ _ F).
  destruct (index_byte SPC l) as [[|n]|]; try discriminate.
  destruct (last_index SPC (skipn (S (S n)) l) 0 None) as [[|k]|]; try discriminate; intros E; inversion E; subst; assumption.
Qed.

Lemma req_head_ok_stable p n x q : req_head_parse p = POk _ _ n x -> req_head_parse (p ++ q) = POk _ _ n x.
Proof.
  unfold req_head_parse. destruct (parse_first_line p) as [| |m u h rest] eqn:F; try discriminate.
  rewrite (request_line_stable _ q _ _ _ _ F). pose proof (request_line_rest_len _ _ _ _ _ F) as Lr.
  destruct (fields_parse rest) as [k fs|e|] eqn:P; try discriminate.
  rewrite (fields_parse_ok_stable _ _ _ q P). intros E. inversion E; subst. rewrite !app_length.
  replace (length p + length q - (length rest + length q) + k) with (length p - length rest + k) by lia. reflexivity.
Qed.
Lemma req_head_err_stable p e q : req_head_parse p = PErr _ _ e -> req_head_parse (p ++ q) = PErr _ _ e.
Proof.
  unfold req_head_parse. destruct (parse_first_line p) as [| |m u h rest] eqn:F; try discriminate.
  - rewrite (request_line_bad_stable _ q F). auto.
  - rewrite (request_line_stable _ q _ _ _ _ F).
    destruct (fields_parse rest) as [k fs|e0|] eqn:P; try discriminate.
    rewrite (fields_parse_err_stable _ _ q P). auto.
Qed.
Lemma req_head_ok_bound p n x : req_head_parse p = POk _ _ n x -> n <= length p.
Proof.
  unfold req_head_parse. destruct (parse_first_line p) as [| |m u h rest] eqn:F; try discriminate.
  pose proof (request_line_rest_len _ _ _ _ _ F) as Lr.
  destruct (fields_parse rest) as [k fs|e|] eqn:P; try discriminate.
  pose proof (fields_parse_ok_bound _ _ _ P). intros E. inversion E; subst. lia.
Qed.

Theorem request_head_sched_indep : forall f1 f2 n1 n2 r1 r2 o1 o2,
  whole r1 = whole r2 ->
  read_loop _ _ req_head_parse f1 n1 r1 = Some o1 -> read_loop _ _ req_head_parse f2 n2 r2 = Some o2 ->
  obs _ _ o1 = obs _ _ o2.
Proof. apply (sched_indep _ _ req_head_parse req_head_ok_stable req_head_ok_bound req_head_err_stable). Qed.

(* ---------- the response head ---------- *)
Definition resp_val : Type := (bool * Z * list (bs * bs))%type.
Definition resp_head_parse (b : bs) : pres resp_val head_err :=
  match parse_status_line b with
  | SLNeedMore => PMore _ _
  | SLBad => PErr _ _ HeadBadLine
  | SLOk h c rest =>
      match fields_parse rest with
      | PMore _ _ => PMore _ _
      | PErr _ _ fs => PErr _ _ (HeadBadName fs)
      | POk _ _ n fs => POk _ _ (length b - length rest + n) (h, c, fs)
      end
  end.

Lemma status_line_rest_len b h c rest : parse_status_line b = SLOk h c rest -> length rest <= length b.
Proof.
  unfold parse_status_line. destruct (first_nonempty_line (S (length b)) b) as [[l r]|] eqn:F; [|discriminate].
  pose proof (first_line_rest_len _ _ _ _ F).
  destruct (index_byte SPC l) as [n|]; [|discriminate].
  destruct (parse_uint_buf (skipn (S n) l)) as [code k|]; [|discriminate].
  destruct (nth_error (skipn (S n) l) k) as [x|]; [destruct (Byte.eqb x SPC)|]; try discriminate; intros E; inversion E; subst; assumption.
Qed.

Lemma resp_head_ok_stable p n x q : resp_head_parse p = POk _ _ n x -> resp_head_parse (p ++ q) = POk _ _ n x.
Proof.
  unfold resp_head_parse. destruct (parse_status_line p) as [| |h c rest] eqn:F; try discriminate.
  rewrite (status_line_stable _ q _ _ _ F). pose proof (status_line_rest_len _ _ _ _ F) as Lr.
  destruct (fields_parse rest) as [k fs|e|] eqn:P; try discriminate.
  rewrite (fields_parse_ok_stable _ _ _ q P). intros E. inversion E; subst. rewrite !app_length.
  replace (length p + length q - (length rest + length q) + k) with (length p - length rest + k) by lia. reflexivity.
Qed.
Lemma resp_head_err_stable p e q : resp_head_parse p = PErr _ _ e -> resp_head_parse (p ++ q) = PErr _ _ e.
Proof.
  unfold resp_head_parse. destruct (parse_status_line p) as [| |h c rest] eqn:F; try discriminate.
  - rewrite (status_line_bad_stable _ q F). auto.
  - rewrite (status_line_stable _ q _ _ _ F).
    destruct (fields_parse rest) as [k fs|e0|] eqn:P; try discriminate.
    rewrite (fields_parse_err_stable _ _ q P). auto.
Qed.
Lemma resp_head_ok_bound p n x : resp_head_parse p = POk _ _ n x -> n <= length p.
Proof.
  unfold resp_head_parse. destruct (parse_status_line p) as [| |h c rest] eqn:F; try discriminate.
  pose proof (status_line_rest_len _ _ _ _ F) as Lr.
  destruct (fields_parse rest) as [k fs|e|] eqn:P; try discriminate.
  pose proof (fields_parse_ok_bound _ _ _ P). intros E. inversion E; subst. lia.
Qed.

Theorem response_head_sched_indep : forall f1 f2 n1 n2 r1 r2 o1 o2,
  whole r1 = whole r2 ->
  read_loop _ _ resp_head_parse f1 n1 r1 = Some o1 -> read_loop _ _ resp_head_parse f2 n2 r2 = Some o2 ->
  obs _ _ o1 = obs _ _ o2.
Proof. apply (sched_indep _ _ resp_head_parse resp_head_ok_stable resp_head_ok_bound resp_head_err_stable). Qed.
