(* C06: the compressed tree that router.addRoute builds is well formed for every sequence of routes.
   `good` strengthens `wf` (RadixProofs) by what insertion needs: wildcard nodes carry exactly ":" / "*"
   (names are erased by add_route) and static prefixes contain neither byte.  `safe` is the condition under
   which one call of insert keeps a tree good; add_route only makes safe calls because it inserts the static
   prefix in front of every wildcard first, which puts a node boundary there (`bnd`). *)
From Coq Require Import String.
From Coq Require Import List Strings.Byte NArith Bool Arith Lia.
Require Import Bytes Show Chunk Router Radix RouterProofs RadixProofs.
Import ListNotations.
Local Open Scope nat_scope.

(* ---------- plain text: no wildcard byte ---------- *)
Definition wildb (c : byte) : bool := Byte.eqb c colon || Byte.eqb c star.
Definition plain (s : bs) : Prop := forall c, In c s -> wildb c = false.

Lemma plain_nil : plain []. Proof. intros c []. Qed.
Lemma plain_cons c s : plain (c :: s) <-> wildb c = false /\ plain s.
Proof.
  split.
  - intros H. split; [apply H; left; reflexivity|intros d Hd; apply H; right; exact Hd].
  - intros [H1 H2] d [<-|Hd]; [exact H1|apply H2; exact Hd].
Qed.
Lemma plain_app a b : plain (a ++ b) <-> plain a /\ plain b.
Proof.
  split.
  - intros H. split; intros c Hc; apply H; apply in_or_app; auto.
  - intros [H1 H2] c Hc. apply in_app_or in Hc. destruct Hc; auto.
Qed.
Lemma plain_firstn n s : plain s -> plain (firstn n s).
Proof. intros H c Hc. apply H. eapply (In_nth_error) in Hc. destruct Hc as [i Hi]. rewrite <- (firstn_skipn n s). apply in_or_app. left. eapply nth_error_In. exact Hi. Qed.
Lemma plain_skipn n s : plain s -> plain (skipn n s).
Proof. intros H c Hc. apply H. rewrite <- (firstn_skipn n s). apply in_or_app. right. exact Hc. Qed.

(* ---------- longest common prefix ---------- *)
Lemma lcp_le_l : forall a b, lcp a b <= length a.
Proof. induction a as [|x a IH]; intros [|y b]; cbn [lcp length]; try lia. destruct (Byte.eqb x y); [specialize (IH b)|]; lia. Qed.
Lemma lcp_le_r : forall a b, lcp a b <= length b.
Proof. induction a as [|x a IH]; intros [|y b]; cbn [lcp length]; try lia. destruct (Byte.eqb x y); [specialize (IH b)|]; lia. Qed.
Lemma lcp_firstn : forall a b, firstn (lcp a b) a = firstn (lcp a b) b.
Proof.
  induction a as [|x a IH]; intros [|y b]; cbn [lcp firstn]; try reflexivity.
  destruct (Byte.eqb x y) eqn:E; [|reflexivity]. apply beqb_eq in E. subst. cbn [firstn]. f_equal. apply IH.
Qed.
(* the bytes behind the common prefix differ *)
Lemma lcp_next : forall a b x y ra rb, skipn (lcp a b) a = x :: ra -> skipn (lcp a b) b = y :: rb -> x <> y.
Proof.
  induction a as [|c a IH]; intros [|d b] x y ra rb; cbn [lcp skipn]; try discriminate.
  destruct (Byte.eqb c d) eqn:E.
  - cbn [skipn]. apply IH.
  - cbn [skipn]. intros H1 H2. inversion H1; inversion H2; subst. intros ->. rewrite beqb_refl in E. discriminate.
Qed.
Lemma lcp_pos_hd : forall a b, 0 < lcp a b -> exists x ra rb, a = x :: ra /\ b = x :: rb.
Proof.
  intros [|x a] [|y b]; cbn [lcp]; try lia. destruct (Byte.eqb x y) eqn:E; [|lia].
  apply beqb_eq in E. subst. intros _. eauto.
Qed.
Lemma lcp_same_hd x a b : 0 < lcp (x :: a) (x :: b).
Proof. cbn [lcp]. rewrite beqb_refl. lia. Qed.
(* p is a whole prefix of p ++ r *)
Lemma lcp_app_self : forall p r, lcp (p ++ r) p = length p.
Proof. induction p as [|x p IH]; intros r; cbn [app lcp length]; [destruct r; reflexivity|]. rewrite beqb_refl, IH. reflexivity. Qed.

(* ---------- the strengthened well-formedness ---------- *)
Fixpoint good (n : node) : Prop :=
  match n with Node k pre cs pc ac h =>
    (match k with
     | Sk => pre <> [] /\ plain pre
     | Pk => pre = [colon]
     | Ak => pre = [star] /\ cs = [] /\ pc = None /\ ac = None /\ h <> None
     end) /\
    (fix all (l : list node) : Prop := match l with [] => True | c :: l' => (nkind c = Sk /\ good c) /\ all l' end) cs /\
    NoDup (map nlabel cs) /\
    (match pc with Some c => nkind c = Pk /\ good c | None => True end) /\
    (match ac with Some c => nkind c = Ak /\ good c | None => True end)
  end.

Definition goodl (l : list node) : Prop :=
  (fix all (l : list node) : Prop := match l with [] => True | c :: l' => (nkind c = Sk /\ good c) /\ all l' end) l.

Lemma goodl_forall l : goodl l <-> Forall (fun c => nkind c = Sk /\ good c) l.
Proof.
  induction l as [|c l IH]; cbn [goodl]; [split; [constructor|auto]|].
  split; [intros [H1 H2]; constructor; [exact H1|apply IH; exact H2]|intros H; inversion H; subst; split; [assumption|apply IH; assumption]].
Qed.

Lemma good_unfold k pre cs pc ac h : good (Node k pre cs pc ac h) <->
  (match k with
   | Sk => pre <> [] /\ plain pre
   | Pk => pre = [colon]
   | Ak => pre = [star] /\ cs = [] /\ pc = None /\ ac = None /\ h <> None
   end) /\ goodl cs /\ NoDup (map nlabel cs) /\
  (match pc with Some c => nkind c = Pk /\ good c | None => True end) /\
  (match ac with Some c => nkind c = Ak /\ good c | None => True end).
Proof. reflexivity. Qed.

Theorem good_wf : forall n, good n -> wf n.
Proof.
  apply (node_ind' (fun n => good n -> wf n)). intros k pre cs pc ac h Fc Fp Fa G.
  apply good_unfold in G. destruct G as (Gk & Gl & ND & Gp & Ga). cbn [wf].
  split; [|split; [|split; [|split; [|split]]]].
  - intros ->. tauto.
  - intros ->. destruct Gk as (_ & A & B & C & D). auto.
  - clear -Fc Gl. induction cs as [|c r IH]; [exact I|]. inversion Fc; subst. destruct Gl as [[K G] Gr]. split; [split; auto|apply IH; auto].
  - exact ND.
  - destruct pc as [c|]; [|exact I]. destruct Gp as [K G]. split; [exact K|apply (Fp c eq_refl G)].
  - destruct ac as [c|]; [|exact I]. destruct Ga as [K G]. split; [exact K|apply (Fa c eq_refl G)].
Qed.

(* the first byte of a good node's prefix tells its kind *)
Lemma good_label n : good n -> exists c, nlabel n = Some c /\
  (nkind n = Sk -> wildb c = false) /\ (nkind n = Pk -> c = colon) /\ (nkind n = Ak -> c = star).
Proof.
  destruct n as [k pre cs pc ac h]. intros G. apply good_unfold in G. destruct G as (Gk & _).
  destruct k; cbn [nlabel nkind].
  - destruct Gk as [Ne Pl]. destruct pre as [|c pre]; [congruence|]. exists c. repeat split; try discriminate.
    intros _. apply Pl. left. reflexivity.
  - subst pre. exists colon. repeat split; try discriminate.
  - destruct Gk as (-> & _). exists star. repeat split; discriminate.
Qed.

(* ---------- when a call of insert is safe ---------- *)
Definition fresh_ok (t : kind) (rest : bs) (hs : bool) : Prop :=
  match t with Sk => plain rest | Pk => rest = [colon] | Ak => rest = [star] /\ hs = true end.

Fixpoint safe (fuel : nat) (cur : node) (search : bs) (t : kind) (hs : bool) : Prop :=
  match fuel with
  | O => False
  | S f =>
  match cur with Node k pre cs pc ac ch =>
    let l := lcp search pre in
    if Nat.eqb l 0 then cur = empty_root /\ t = Sk /\ plain search /\ search <> []
    else if Nat.ltb l (length pre) then t = Sk /\ plain (skipn l search)
    else if Nat.ltb l (length search) then
      match skipn l search with
      | [] => False
      | c :: r =>
          if existsb (has_label c) cs then Forall (fun ch0 => has_label c ch0 = true -> safe f ch0 (c :: r) t hs) cs
          else if Byte.eqb c colon && is_some pc then match pc with Some ch0 => safe f ch0 (c :: r) t hs | None => False end
          else if Byte.eqb c star && is_some ac then match ac with Some ch0 => safe f ch0 (c :: r) t hs | None => False end
          else k <> Ak /\ fresh_ok t (c :: r) hs
      end
    else True
  end end.

Definition good_or_empty (n : node) : Prop := n = empty_root \/ good n.

(* insert keeps the first byte and the kind of a node it descends into *)
Lemma insert_label_kind : forall fuel cur s h t hs, good cur -> safe fuel cur s t hs -> 0 < lcp s (nprefix cur) ->
  nlabel (insert fuel cur s h t) = nlabel cur /\ nkind (insert fuel cur s h t) = nkind cur.
Proof.
  intros [|f] cur s h t hs G Sf L; [destruct Sf|].
  destruct cur as [k pre cs pc ac ch]. cbn [nprefix] in L. cbn [insert safe] in *.
  destruct (Nat.eqb_spec (lcp s pre) 0) as [Z|Z]; [lia|].
  destruct (Nat.ltb_spec (lcp s pre) (length pre)) as [Lp|Lp].
  - (* split: only static nodes have a prefix longer than the common part *)
    destruct Sf as [-> Pl]. apply good_unfold in G. destruct G as (Gk & _).
    assert (K : k = Sk).
    { destruct k; [reflexivity|subst pre; cbn in Lp; lia|destruct Gk as (-> & _); cbn in Lp; lia]. }
    subst k. destruct (lcp_pos_hd _ _ L) as (x & ra & rb & -> & ->).
    cbn [lcp] in *. rewrite beqb_refl in *.
    destruct (Nat.eqb (S (lcp ra rb)) (length (x :: ra))); cbn [nlabel nkind firstn]; split; reflexivity.
  - destruct (Nat.ltb_spec (lcp s pre) (length s)) as [Ls|Ls].
    + destruct (skipn (lcp s pre) s) as [|c r]; [destruct Sf|].
      destruct (existsb (has_label c) cs); [split; reflexivity|].
      destruct (Byte.eqb c colon && is_some pc); [split; reflexivity|].
      destruct (Byte.eqb c star && is_some ac); [split; reflexivity|].
      destruct t; split; reflexivity.
    + destruct h; split; reflexivity.
Qed.

Lemma has_label_of n c : nlabel n = Some c -> forall x, has_label x n = Byte.eqb c x.
Proof. intros H x. unfold has_label. rewrite H. reflexivity. Qed.

Lemma hd_skipn_lcp s pre c r : skipn (lcp s pre) s = c :: r -> lcp s pre < length s.
Proof. intros H. destruct (Nat.ltb_spec (lcp s pre) (length s)); [assumption|]. rewrite skipn_all2 in H by lia. discriminate. Qed.

(* a child with the label of the remaining text shares at least that byte *)
Lemma lcp_child ch c r : nlabel ch = Some c -> 0 < lcp (c :: r) (nprefix ch).
Proof.
  destruct ch as [k [|y pre] cs pc ac h]; cbn [nlabel nprefix]; [discriminate|]. intros E. inversion E; subst. apply lcp_same_hd.
Qed.

Definition kind_ok (k : kind) (pre : bs) (cs : list node) (pc ac : option node) (h : option nat) : Prop :=
  match k with
  | Sk => pre <> [] /\ plain pre
  | Pk => pre = [colon]
  | Ak => pre = [star] /\ cs = [] /\ pc = None /\ ac = None /\ h <> None
  end.
Definition pc_ok (pc : option node) : Prop := match pc with Some c => nkind c = Pk /\ good c | None => True end.
Definition ac_ok (ac : option node) : Prop := match ac with Some c => nkind c = Ak /\ good c | None => True end.

Lemma good_node k pre cs pc ac h : kind_ok k pre cs pc ac h -> goodl cs -> NoDup (map nlabel cs) -> pc_ok pc -> ac_ok ac ->
  good (Node k pre cs pc ac h).
Proof. intros. apply good_unfold. repeat split; assumption. Qed.
Lemma good_parts k pre cs pc ac h : good (Node k pre cs pc ac h) ->
  kind_ok k pre cs pc ac h /\ goodl cs /\ NoDup (map nlabel cs) /\ pc_ok pc /\ ac_ok ac.
Proof. intros G. apply good_unfold in G. exact G. Qed.

Lemma kind_ok_children k pre cs pc ac h cs' pc' ac' :
  kind_ok k pre cs pc ac h -> (cs <> [] \/ pc <> None \/ ac <> None \/ k <> Ak) -> kind_ok k pre cs' pc' ac' h.
Proof.
  intros K H. destruct k; [exact K|exact K|]. destruct K as (_ & A & B & C & _). subst.
  destruct H as [H|[H|[H|H]]]; congruence.
Qed.

Lemma good_leaf_static rest h : rest <> [] -> plain rest -> good (Node Sk rest [] None None h).
Proof. intros N P. apply good_node; [split; assumption|exact I|constructor|exact I|exact I]. Qed.

Lemma NoDup_snoc {A} (l : list A) x : NoDup l -> ~ In x l -> NoDup (l ++ [x]).
Proof.
  induction l as [|y l IH]; intros ND NI; cbn [app]; [constructor; [intros []|constructor]|].
  inversion ND; subst. constructor.
  - intros K. apply in_app_or in K. destruct K as [K|[K|[]]]; [contradiction|subst; apply NI; left; reflexivity].
  - apply IH; [assumption|intros K; apply NI; right; exact K].
Qed.

Theorem insert_good : forall fuel cur s h t, good_or_empty cur -> safe fuel cur s t (is_some h) ->
  good (insert fuel cur s h t).
Proof.
  induction fuel as [|f IH]; intros cur s h t GE Sf; [destruct Sf|].
  destruct cur as [k pre cs pc ac ch]. cbn [insert safe] in *.
  destruct (Nat.eqb_spec (lcp s pre) 0) as [Z|Z].
  { (* the empty root takes the whole text *)
    destruct Sf as (E & -> & Pl & Ne). inversion E; subst.
    destruct h; apply good_leaf_static; assumption. }
  assert (G : good (Node k pre cs pc ac ch)).
  { destruct GE as [E|G]; [|exact G]. inversion E; subst. destruct s; cbn in Z; congruence. }
  destruct (good_parts _ _ _ _ _ _ G) as (Gk & Gl & ND & Gp & Ga).
  destruct (Nat.ltb_spec (lcp s pre) (length pre)) as [Lp|Lp].
  - (* split a static edge *)
    destruct Sf as [-> Pl].
    assert (K : k = Sk).
    { destruct k; [reflexivity|cbn in Gk; subst pre; cbn in Lp; lia|destruct Gk as (-> & _); cbn in Lp; lia]. }
    subst k. destruct Gk as [Npre Ppre].
    assert (Glow : good (Node Sk (skipn (lcp s pre) pre) cs pc ac ch)).
    { apply good_node; try assumption. split; [|apply plain_skipn; exact Ppre].
      intros E. apply (f_equal (@length byte)) in E. rewrite skipn_length in E. cbn in E. lia. }
    assert (Kup : firstn (lcp s pre) pre <> [] /\ plain (firstn (lcp s pre) pre)).
    { split; [|apply plain_firstn; exact Ppre].
      intros E. apply (f_equal (@length byte)) in E. rewrite firstn_length in E. cbn in E. lia. }
    destruct (Nat.eqb_spec (lcp s pre) (length s)) as [Ee|Ee].
    + apply good_node; [exact Kup|apply goodl_forall; constructor; [split; [reflexivity|exact Glow]|constructor]| |exact I|exact I].
      cbn [map]. constructor; [intros []|constructor].
    + assert (Ls : lcp s pre < length s) by (pose proof (lcp_le_l s pre); lia).
      destruct (skipn (lcp s pre) s) as [|x rs] eqn:Es.
      { apply (f_equal (@length byte)) in Es. rewrite skipn_length in Es. cbn in Es. lia. }
      destruct (skipn (lcp s pre) pre) as [|y rp] eqn:Ep.
      { apply (f_equal (@length byte)) in Ep. rewrite skipn_length in Ep. cbn in Ep. lia. }
      pose proof (lcp_next s pre x y rs rp Es Ep) as Dxy.
      apply good_node; [exact Kup| |cbn [map nlabel]|exact I|exact I].
      * apply goodl_forall. constructor; [split; [reflexivity|exact Glow]|]. constructor; [|constructor].
        split; [reflexivity|]. apply good_leaf_static; [discriminate|exact Pl].
      * constructor; [intros [E|[]]; inversion E; congruence|constructor; [intros []|constructor]].
  - destruct (Nat.ltb_spec (lcp s pre) (length s)) as [Ls|Ls].
    + (* the text goes on below this node *)
      destruct (skipn (lcp s pre) s) as [|c r] eqn:Es; [destruct Sf|].
      destruct (existsb (has_label c) cs) eqn:Ex.
      * (* into the static child with that label *)
        apply good_node; [apply (kind_ok_children _ _ _ _ _ _ _ _ _ Gk); left; intros E; subst cs; discriminate Ex| | |exact Gp|exact Ga].
        -- apply goodl_forall. apply goodl_forall in Gl. rewrite Forall_forall in *. intros x Hx.
           apply in_map_iff in Hx. destruct Hx as (ch0 & <- & Hin). destruct (Gl _ Hin) as [K0 G1].
           destruct (has_label c ch0) eqn:Hl; [|split; assumption].
           specialize (Sf _ Hin Hl).
           destruct (good_label _ G1) as (c0 & Lb & _). rewrite (has_label_of _ _ Lb) in Hl. apply beqb_eq in Hl. subst c0.
           destruct (insert_label_kind f ch0 (c :: r) h t (is_some h) G1 Sf (lcp_child _ _ _ Lb)) as [_ Kk].
           split; [rewrite Kk; exact K0|apply IH; [right; exact G1|exact Sf]].
        -- assert (E : map nlabel (map (fun ch0 => if has_label c ch0 then insert f ch0 (c :: r) h t else ch0) cs) = map nlabel cs).
           { rewrite map_map. apply map_ext_in. intros ch0 Hin. destruct (has_label c ch0) eqn:Hl; [|reflexivity].
             apply goodl_forall in Gl. rewrite Forall_forall in Gl. destruct (Gl _ Hin) as [K0 G1].
             rewrite Forall_forall in Sf. specialize (Sf _ Hin Hl).
             destruct (good_label _ G1) as (c0 & Lb & _). rewrite (has_label_of _ _ Lb) in Hl. apply beqb_eq in Hl. subst c0.
             apply (insert_label_kind f ch0 (c :: r) h t (is_some h) G1 Sf (lcp_child _ _ _ Lb)). }
           rewrite E. exact ND.
      * destruct (Byte.eqb c colon && is_some pc) eqn:Cp.
        { (* into the parameter child *)
          destruct pc as [p|]; [|apply andb_true_iff in Cp; destruct Cp; discriminate]. destruct Gp as [Kp G1].
          apply andb_true_iff in Cp. destruct Cp as [Cc _]. apply beqb_eq in Cc. subst c.
          destruct (good_label _ G1) as (c0 & Lb & _ & Lc & _). specialize (Lc Kp). subst c0.
          destruct (insert_label_kind f p (colon :: r) h t (is_some h) G1 Sf (lcp_child _ _ _ Lb)) as [_ Kk].
          cbn [option_map]. apply good_node; [apply (kind_ok_children _ _ _ _ _ _ _ _ _ Gk); right; left; discriminate|exact Gl|exact ND| |exact Ga].
          split; [rewrite Kk; exact Kp|apply IH; [right; exact G1|exact Sf]]. }
        destruct (Byte.eqb c star && is_some ac) eqn:Ca.
        { destruct ac as [a|]; [|apply andb_true_iff in Ca; destruct Ca; discriminate]. destruct Ga as [Ka G1].
          apply andb_true_iff in Ca. destruct Ca as [Cc _]. apply beqb_eq in Cc. subst c.
          destruct (good_label _ G1) as (c0 & Lb & _ & _ & Lc). specialize (Lc Ka). subst c0.
          destruct (insert_label_kind f a (star :: r) h t (is_some h) G1 Sf (lcp_child _ _ _ Lb)) as [_ Kk].
          cbn [option_map]. apply good_node; [apply (kind_ok_children _ _ _ _ _ _ _ _ _ Gk); right; right; left; discriminate|exact Gl|exact ND|exact Gp|].
          split; [rewrite Kk; exact Ka|apply IH; [right; exact G1|exact Sf]]. }
        (* a new child *)
        destruct Sf as [NA Fr].
        assert (Kk' : forall cs' pc' ac', kind_ok k pre cs' pc' ac' ch)
          by (intros; apply (kind_ok_children _ _ _ _ _ _ _ _ _ Gk); right; right; right; exact NA).
        destruct t; cbn [fresh_ok] in Fr.
        -- (* static *)
           apply good_node; [exact (Kk' _ _ _)| | |exact Gp|exact Ga].
           ++ apply goodl_forall. apply Forall_app. split; [apply goodl_forall; exact Gl|]. constructor; [|constructor].
              split; [reflexivity|]. apply good_leaf_static; [discriminate|exact Fr].
           ++ rewrite map_app. cbn [map nlabel]. apply NoDup_snoc; [exact ND|].
              intros Hin. apply in_map_iff in Hin. destruct Hin as (ch0 & Lb & Hin).
              assert (existsb (has_label c) cs = true); [|congruence].
              apply existsb_exists. exists ch0. split; [exact Hin|]. rewrite (has_label_of _ _ Lb). apply beqb_refl.
        -- (* parameter: the slot is free because the text is ":" *)
           inversion Fr; subst. rewrite beqb_refl in Cp. cbn [andb] in Cp.
           destruct pc; [discriminate|].
           apply good_node; [exact (Kk' _ _ _)|exact Gl|exact ND| |exact Ga].
           split; [reflexivity|]. apply good_node; [reflexivity|exact I|constructor|exact I|exact I].
        -- destruct Fr as [Er Hs]. inversion Er; subst. rewrite beqb_refl in Ca. cbn [andb] in Ca.
           destruct ac; [discriminate|]. destruct h; [|discriminate].
           apply good_node; [exact (Kk' _ _ _)|exact Gl|exact ND|exact Gp|].
           split; [reflexivity|]. apply good_node; [repeat split; discriminate|exact I|constructor|exact I|exact I].
    + (* the node exists already: at most its handler changes *)
      destruct h as [x|]; [|exact G].
      apply good_node; try assumption.
      destruct k; [exact Gk|exact Gk|]. destruct Gk as (A & B & C & D & E). repeat split; auto. discriminate.
Qed.

(* ---------- node boundaries ---------- *)
Definition child_for (c : byte) (cs : list node) (pc ac : option node) : option node :=
  match List.find (has_label c) cs with
  | Some ch => Some ch
  | None => if Byte.eqb c colon then pc else if Byte.eqb c star then ac else None
  end.

(* the kind of the node whose prefix ends exactly where s ends *)
Fixpoint bnd (fuel : nat) (n : node) (s : bs) : option kind :=
  match fuel with
  | O => None
  | S f =>
  match n with Node k pre cs pc ac h =>
    match strip_prefix pre s with
    | None => None
    | Some [] => Some k
    | Some (c :: r) => match child_for c cs pc ac with Some ch => bnd f ch (c :: r) | None => None end
    end
  end end.

Lemma strip_prefix_app : forall p r, strip_prefix p (p ++ r) = Some r.
Proof. induction p as [|x p IH]; intros r; cbn [strip_prefix app]; [reflexivity|]. rewrite beqb_refl. apply IH. Qed.
Lemma strip_prefix_self p : strip_prefix p p = Some [].
Proof. rewrite <- (app_nil_r p) at 2. apply strip_prefix_app. Qed.
Lemma strip_prefix_spec : forall p s r, strip_prefix p s = Some r -> s = p ++ r.
Proof.
  induction p as [|x p IH]; intros s r; cbn [strip_prefix]; [intros H; inversion H; reflexivity|].
  destruct s as [|y s]; [discriminate|]. destruct (Byte.eqb x y) eqn:E; [|discriminate].
  apply beqb_eq in E. subst. intros H. cbn [app]. f_equal. apply IH. exact H.
Qed.

Lemma bnd_mono : forall f n s k, bnd f n s = Some k -> bnd (S f) n s = Some k.
Proof.
  induction f as [|f IH]; intros n s k H; [discriminate|].
  destruct n as [k0 pre cs pc ac h]. cbn [bnd] in *.
  destruct (strip_prefix pre s) as [[|c r]|]; [exact H| |discriminate].
  destruct (child_for c cs pc ac); [|discriminate]. apply IH. exact H.
Qed.
Lemma bnd_mono_le : forall f f' n s k, f <= f' -> bnd f n s = Some k -> bnd f' n s = Some k.
Proof. intros f f' n s k L H. induction L; [exact H|apply bnd_mono; exact IHL]. Qed.

Lemma find_none_existsb {A} (p : A -> bool) l : existsb p l = false -> List.find p l = None.
Proof. induction l as [|x l IH]; cbn; [reflexivity|]. destruct (p x); [discriminate|exact IH]. Qed.
Lemma find_some_existsb {A} (p : A -> bool) l : existsb p l = true -> exists x, List.find p l = Some x /\ In x l /\ p x = true.
Proof.
  induction l as [|x l IH]; cbn; [discriminate|]. destruct (p x) eqn:E.
  - intros _. exists x. auto.
  - intros H. destruct (IH H) as (y & F & I & P). exists y. auto.
Qed.

Lemma nodup_map_inj {A B} (f : A -> B) l a b : NoDup (map f l) -> In a l -> In b l -> f a = f b -> a = b.
Proof.
  induction l as [|x l IH]; intros ND Ia Ib E; [destruct Ia|].
  cbn [map] in ND. inversion ND as [|? ? Nx NDl]; subst.
  destruct Ia as [<-|Ia], Ib as [<-|Ib]; auto.
  - exfalso. apply Nx. rewrite E. apply in_map. exact Ib.
  - exfalso. apply Nx. rewrite <- E. apply in_map. exact Ia.
Qed.

Lemma label_eq_of_has c a b : good a -> good b -> has_label c a = true -> has_label c b = true -> nlabel a = nlabel b.
Proof.
  intros Ga Gb Ha Hb. destruct (good_label _ Ga) as (x & La & _). destruct (good_label _ Gb) as (y & Lb & _).
  rewrite (has_label_of _ _ La) in Ha. rewrite (has_label_of _ _ Lb) in Hb.
  apply beqb_eq in Ha. apply beqb_eq in Hb. congruence.
Qed.

(* a good node's prefix is never empty *)
Lemma good_pre_nonempty k pre cs pc ac h : good (Node k pre cs pc ac h) -> pre <> [].
Proof.
  intros G. destruct (good_parts _ _ _ _ _ _ G) as (Gk & _). destruct k; cbn in Gk.
  - tauto.
  - subst. discriminate.
  - destruct Gk as (-> & _). discriminate.
Qed.

Lemma strip_prefix_lcp : forall pre s, lcp s pre = length pre -> strip_prefix pre s = Some (skipn (length pre) s).
Proof.
  induction pre as [|x pre IH]; intros s H; cbn [strip_prefix length skipn]; [reflexivity|].
  destruct s as [|y s]; cbn [lcp] in H; [discriminate|].
  destruct (Byte.eqb y x) eqn:E; [|discriminate]. apply beqb_eq in E. subst. rewrite beqb_refl. cbn [skipn length].
  apply IH. cbn [length] in H. lia.
Qed.

(* ---------- Lemma A: after insert, the tree has a boundary at the inserted text ---------- *)
Lemma find_map_label c (g : node -> node) cs :
  (forall ch, In ch cs -> has_label c (g ch) = has_label c ch) ->
  List.find (has_label c) (map g cs) = option_map g (List.find (has_label c) cs).
Proof.
  induction cs as [|x cs IH]; intros H; cbn [map List.find option_map]; [reflexivity|].
  rewrite (H x (or_introl eq_refl)). destruct (has_label c x); [reflexivity|].
  apply IH. intros ch Hin. apply H. right. exact Hin.
Qed.

Lemma insert_bnd : forall fuel cur s h t hs, good_or_empty cur -> safe fuel cur s t hs -> length s < fuel -> s <> [] ->
  exists k', bnd fuel (insert fuel cur s h t) s = Some k'.
Proof.
  induction fuel as [|f IH]; intros cur s h t hs GE Sf Lf Ns; [destruct Sf|].
  destruct cur as [k pre cs pc ac ch]. cbn [insert safe] in *.
  destruct (Nat.eqb_spec (lcp s pre) 0) as [Z|Z].
  { destruct Sf as (E & -> & Pl & Ne). inversion E; subst.
    destruct h; cbn [bnd]; rewrite strip_prefix_self; eauto. }
  assert (G : good (Node k pre cs pc ac ch)).
  { destruct GE as [E|G]; [|exact G]. inversion E; subst. destruct s; cbn in Z; congruence. }
  destruct (good_parts _ _ _ _ _ _ G) as (Gk & Gl & ND & Gp & Ga).
  pose proof (lcp_firstn s pre) as Fl.
  destruct (Nat.ltb_spec (lcp s pre) (length pre)) as [Lp|Lp].
  - destruct Sf as [-> Pl].
    destruct (Nat.eqb_spec (lcp s pre) (length s)) as [Ee|Ee].
    + cbn [bnd]. rewrite <- Fl, Ee, firstn_all. rewrite strip_prefix_self. eauto.
    + assert (Ls : lcp s pre < length s) by (pose proof (lcp_le_l s pre); lia).
      destruct (skipn (lcp s pre) s) as [|x rs] eqn:Es.
      { apply (f_equal (@length byte)) in Es. rewrite skipn_length in Es. cbn in Es. lia. }
      destruct (skipn (lcp s pre) pre) as [|y rp] eqn:Ep.
      { apply (f_equal (@length byte)) in Ep. rewrite skipn_length in Ep. cbn in Ep. lia. }
      pose proof (lcp_next s pre x y rs rp Es Ep) as Dxy.
      pose proof (strip_prefix_app (firstn (lcp s pre) s) (skipn (lcp s pre) s)) as SPs.
      rewrite firstn_skipn, Es in SPs.
      cbn [bnd]. rewrite <- Fl, SPs.
      unfold child_for. cbn [List.find has_label nlabel].
      destruct (Byte.eqb y x) eqn:Eyx; [apply beqb_eq in Eyx; congruence|]. rewrite beqb_refl.
      destruct f as [|f']; [cbn [length] in *; lia|]. cbn [bnd].
      rewrite strip_prefix_self. eauto.
  - assert (Epre : lcp s pre = length pre) by (pose proof (lcp_le_r s pre); lia).
    pose proof (strip_prefix_lcp pre s Epre) as SP.
    destruct (Nat.ltb_spec (lcp s pre) (length s)) as [Ls|Ls].
    + destruct (skipn (lcp s pre) s) as [|c r] eqn:Es; [destruct Sf|].
      rewrite Epre in Es. rewrite Es in SP.
      assert (Lr : length (c :: r) < f).
      { rewrite <- Es, skipn_length. pose proof (good_pre_nonempty _ _ _ _ _ _ G). destruct pre; [congruence|]. cbn [length] in *. lia. }
      destruct (existsb (has_label c) cs) eqn:Ex.
      * cbn [bnd]. rewrite SP. unfold child_for.
        rewrite find_map_label.
        2:{ intros ch0 Hin. destruct (has_label c ch0) eqn:Hl; [|exact Hl].
            apply goodl_forall in Gl. rewrite Forall_forall in Gl. destruct (Gl _ Hin) as [K0 G1].
            rewrite Forall_forall in Sf. specialize (Sf _ Hin Hl).
            destruct (good_label _ G1) as (c0 & Lb & _). pose proof Hl as Hl'. rewrite (has_label_of _ _ Lb) in Hl'. apply beqb_eq in Hl'. subst c0.
            destruct (insert_label_kind f ch0 (c :: r) h t hs G1 Sf (lcp_child _ _ _ Lb)) as [Lk _].
            unfold has_label. rewrite Lk, Lb. apply beqb_refl. }
        destruct (find_some_existsb _ _ Ex) as (ch0 & Fd & Hin & Hl). rewrite Fd. cbn [option_map]. rewrite Hl.
        apply goodl_forall in Gl. rewrite Forall_forall in Gl. destruct (Gl _ Hin) as [K0 G1].
        rewrite Forall_forall in Sf. specialize (Sf _ Hin Hl).
        apply (IH ch0 (c :: r) h t hs); [right; exact G1|exact Sf|exact Lr|discriminate].
      * destruct (Byte.eqb c colon && is_some pc) eqn:Cp.
        { destruct pc as [p|]; [|apply andb_true_iff in Cp; destruct Cp; discriminate]. destruct Gp as [Kp G1].
          apply andb_true_iff in Cp. destruct Cp as [Cc _]. cbn [bnd option_map]. rewrite SP. unfold child_for.
          rewrite (find_none_existsb _ _ Ex), Cc.
          apply (IH p (c :: r) h t hs); [right; exact G1|exact Sf|exact Lr|discriminate]. }
        destruct (Byte.eqb c star && is_some ac) eqn:Ca.
        { destruct ac as [a|]; [|apply andb_true_iff in Ca; destruct Ca; discriminate]. destruct Ga as [Ka G1].
          apply andb_true_iff in Ca. destruct Ca as [Cc _]. cbn [bnd option_map]. rewrite SP. unfold child_for.
          rewrite (find_none_existsb _ _ Ex), Cc.
          assert (Ncol : Byte.eqb c colon = false) by (apply beqb_eq in Cc; subst; reflexivity). rewrite Ncol.
          apply (IH a (c :: r) h t hs); [right; exact G1|exact Sf|exact Lr|discriminate]. }
        destruct Sf as [NA Fr].
        destruct f as [|f']; [cbn [length] in *; lia|].
        destruct t; cbn [fresh_ok] in Fr; cbn [bnd]; rewrite SP; unfold child_for.
        -- assert (Fd : List.find (has_label c) (cs ++ [Node Sk (c :: r) [] None None h]) = Some (Node Sk (c :: r) [] None None h)).
           { clear -Ex. induction cs as [|x cs IH]; cbn [app List.find].
             - cbn [has_label nlabel]. rewrite beqb_refl. reflexivity.
             - cbn [existsb] in Ex. apply orb_false_iff in Ex. destruct Ex as [E1 E2]. rewrite E1. apply IH. exact E2. }
           rewrite Fd. cbn [bnd]. rewrite strip_prefix_self. eauto.
        -- inversion Fr; subst. rewrite (find_none_existsb _ _ Ex). rewrite beqb_refl.
           cbn [bnd strip_prefix]. rewrite beqb_refl. eauto.
        -- destruct Fr as [Er Hs]. inversion Er; subst. rewrite (find_none_existsb _ _ Ex).
           replace (Byte.eqb star colon) with false by reflexivity. rewrite beqb_refl.
           cbn [bnd strip_prefix]. rewrite beqb_refl. eauto.
    + assert (Es : s = pre).
      { assert (Ll : lcp s pre = length s) by (pose proof (lcp_le_l s pre); lia).
        rewrite <- (firstn_all s), <- Ll, Fl, Epre, firstn_all. reflexivity. }
      subst s. destruct h; cbn [bnd]; rewrite strip_prefix_self; eauto.
Qed.

(* ---------- Lemma C: plain text is always safe below a static node ---------- *)
Lemma wildb_colon : wildb colon = true. Proof. reflexivity. Qed.
Lemma wildb_star : wildb star = true. Proof. reflexivity. Qed.
Lemma not_wild_colon c : wildb c = false -> Byte.eqb c colon = false.
Proof. unfold wildb. intros H. apply orb_false_iff in H. tauto. Qed.
Lemma not_wild_star c : wildb c = false -> Byte.eqb c star = false.
Proof. unfold wildb. intros H. apply orb_false_iff in H. tauto. Qed.

Lemma plain_safe : forall f n x hs, good n -> nkind n = Sk -> plain x -> 0 < lcp x (nprefix n) -> length x < f ->
  safe f n x Sk hs.
Proof.
  induction f as [|f IH]; intros n x hs G K Px L Lf; [lia|].
  destruct n as [k pre cs pc ac ch]. cbn [nkind nprefix] in *. subst k. cbn [safe].
  destruct (Nat.eqb_spec (lcp x pre) 0) as [Z|Z]; [lia|].
  destruct (Nat.ltb_spec (lcp x pre) (length pre)) as [Lp|Lp]; [split; [reflexivity|apply plain_skipn; exact Px]|].
  destruct (Nat.ltb_spec (lcp x pre) (length x)) as [Ls|Ls]; [|exact I].
  destruct (skipn (lcp x pre) x) as [|c r] eqn:Es.
  { apply (f_equal (@length byte)) in Es. rewrite skipn_length in Es. cbn in Es. lia. }
  assert (Pr : plain (c :: r)) by (rewrite <- Es; apply plain_skipn; exact Px).
  assert (Wc : wildb c = false) by (apply Pr; left; reflexivity).
  destruct (good_parts _ _ _ _ _ _ G) as (Gk & Gl & ND & Gp & Ga).
  destruct (existsb (has_label c) cs) eqn:Ex.
  - apply Forall_forall. intros ch0 Hin Hl. apply goodl_forall in Gl. rewrite Forall_forall in Gl. destruct (Gl _ Hin) as [K0 G1].
    destruct (good_label _ G1) as (c0 & Lb & _). rewrite (has_label_of _ _ Lb) in Hl. apply beqb_eq in Hl. subst c0.
    apply IH; [exact G1|exact K0|exact Pr|apply (lcp_child _ _ _ Lb)|].
    rewrite <- Es, skipn_length. lia.
  - rewrite (not_wild_colon _ Wc), (not_wild_star _ Wc). cbn [andb]. split; [discriminate|exact Pr].
Qed.

Lemma skipn_app_len {A} (p r : list A) : skipn (length p) (p ++ r) = r.
Proof. induction p as [|x p IH]; [reflexivity|exact IH]. Qed.

(* ---------- what may follow a boundary ---------- *)
Definition ext_ok (t : kind) (x : bs) (hs : bool) : Prop :=
  match t with Sk => plain x /\ x <> [] | Pk => x = [colon] | Ak => x = [star] /\ hs = true end.

Lemma ext_fresh t x hs : ext_ok t x hs -> fresh_ok t x hs.
Proof. destruct t; cbn; tauto. Qed.

(* ---------- Lemma B: behind a boundary that is not a catch-all, an extension is safe ---------- *)
Lemma bnd_safe_ext : forall f n s k0 x t hs, good n -> bnd f n s = Some k0 -> k0 <> Ak -> ext_ok t x hs ->
  forall f', length (s ++ x) < f' -> safe f' n (s ++ x) t hs.
Proof.
  induction f as [|f IH]; intros n s k0 x t hs G B NA E f' Lf; [discriminate|].
  destruct n as [k pre cs pc ac ch]. cbn [bnd] in B.
  destruct (strip_prefix pre s) as [rest0|] eqn:SP; [|discriminate].
  apply strip_prefix_spec in SP. subst s.
  assert (Xne : x <> []) by (destruct t; cbn in E; [tauto|subst; discriminate|destruct E as [-> _]; discriminate]).
  destruct f' as [|f']; [lia|]. cbn [safe].
  rewrite <- app_assoc. rewrite lcp_app_self.
  pose proof (good_pre_nonempty _ _ _ _ _ _ G) as Np.
  destruct (Nat.eqb_spec (length pre) 0) as [Z|Z]; [destruct pre; [congruence|discriminate]|].
  rewrite Nat.ltb_irrefl.
  assert (Lt : length pre < length (pre ++ rest0 ++ x)).
  { rewrite !app_length. destruct x; [congruence|]. cbn [length]. lia. }
  apply Nat.ltb_lt in Lt. rewrite Lt.
  rewrite skipn_app_len.
  destruct (good_parts _ _ _ _ _ _ G) as (Gk & Gl & ND & Gp & Ga).
  assert (Lf' : length (rest0 ++ x) < f').
  { rewrite <- app_assoc, !app_length in Lf. rewrite app_length. destruct pre; [congruence|]. cbn [length] in Lf. lia. }
  destruct rest0 as [|c r].
  - (* the boundary is this node *)
    inversion B; subst k0. cbn [app]. destruct x as [|c r]; [congruence|].
    destruct (existsb (has_label c) cs) eqn:Ex.
    + apply Forall_forall. intros ch0 Hin Hl. apply goodl_forall in Gl. rewrite Forall_forall in Gl. destruct (Gl _ Hin) as [K0 G1].
      destruct (good_label _ G1) as (c0 & Lb & Wl & _). pose proof Hl as Hl'. rewrite (has_label_of _ _ Lb) in Hl'. apply beqb_eq in Hl'. subst c0.
      specialize (Wl K0).
      destruct t; cbn [ext_ok] in E.
      * apply plain_safe; [exact G1|exact K0|tauto|apply (lcp_child _ _ _ Lb)|exact Lf'].
      * inversion E; subst. rewrite wildb_colon in Wl. discriminate.
      * destruct E as [E _]. inversion E; subst. rewrite wildb_star in Wl. discriminate.
    + destruct (Byte.eqb c colon && is_some pc) eqn:Cp.
      { destruct pc as [p|]; [|apply andb_true_iff in Cp; destruct Cp; discriminate]. destruct Gp as [Kp G1].
        apply andb_true_iff in Cp. destruct Cp as [Cc _]. apply beqb_eq in Cc. subst c.
        assert (r = [] /\ t = Pk).
        { destruct t; cbn [ext_ok] in E.
          - destruct E as [Pl _]. specialize (Pl colon (or_introl eq_refl)). rewrite wildb_colon in Pl. discriminate.
          - inversion E. auto.
          - destruct E as [E _]. inversion E. }
        destruct H as [-> ->].
        destruct p as [kp prep csp pcp acp hp]. cbn [nkind] in Kp. subst kp.
        destruct (good_parts _ _ _ _ _ _ G1) as (Gkp & _). cbn in Gkp. subst prep.
        destruct f' as [|f'']; [cbn [length] in Lf'; lia|]. cbn [safe lcp]. rewrite beqb_refl. cbn. exact I. }
      destruct (Byte.eqb c star && is_some ac) eqn:Ca.
      { destruct ac as [a|]; [|apply andb_true_iff in Ca; destruct Ca; discriminate]. destruct Ga as [Ka G1].
        apply andb_true_iff in Ca. destruct Ca as [Cc _]. apply beqb_eq in Cc. subst c.
        assert (r = [] /\ t = Ak).
        { destruct t; cbn [ext_ok] in E.
          - destruct E as [Pl _]. specialize (Pl star (or_introl eq_refl)). rewrite wildb_star in Pl. discriminate.
          - inversion E.
          - destruct E as [E _]. inversion E. auto. }
        destruct H as [-> ->].
        destruct a as [ka prea csa pca aca ha]. cbn [nkind] in Ka. subst ka.
        destruct (good_parts _ _ _ _ _ _ G1) as (Gka & _). cbn in Gka. destruct Gka as (-> & _).
        destruct f' as [|f'']; [cbn [length] in Lf'; lia|]. cbn [safe lcp]. rewrite beqb_refl. cbn. exact I. }
      split; [exact NA|apply ext_fresh; exact E].
  - (* the boundary lies below: the same child is chosen *)
    cbn [app]. unfold child_for in B.
    destruct (existsb (has_label c) cs) eqn:Ex.
    + destruct (find_some_existsb _ _ Ex) as (ch1 & Fd & Hin1 & Hl1). rewrite Fd in B.
      apply Forall_forall. intros ch0 Hin Hl.
      apply goodl_forall in Gl. rewrite Forall_forall in Gl. destruct (Gl _ Hin) as [K0 G0]. destruct (Gl _ Hin1) as [K1 G1].
      assert (ch0 = ch1) by (apply (nodup_map_inj nlabel cs); auto; apply (label_eq_of_has c); auto).
      subst ch1. change (c :: r ++ x) with ((c :: r) ++ x).
      apply (IH ch0 (c :: r) k0 x t hs G0 B NA E). exact Lf'.
    + rewrite (find_none_existsb _ _ Ex) in B.
      destruct (Byte.eqb c colon) eqn:Cc.
      * destruct pc as [p|]; [|discriminate]. cbn [is_some andb]. destruct Gp as [Kp G1].
        change (c :: r ++ x) with ((c :: r) ++ x). apply (IH p (c :: r) k0 x t hs G1 B NA E). exact Lf'.
      * cbn [andb]. destruct (Byte.eqb c star) eqn:Cs; [|discriminate].
        destruct ac as [a|]; [|discriminate]. cbn [is_some andb]. destruct Ga as [Ka G1].
        change (c :: r ++ x) with ((c :: r) ++ x). apply (IH a (c :: r) k0 x t hs G1 B NA E). exact Lf'.
Qed.

(* ---------- the kind at a boundary and the last byte ---------- *)
Lemma child_for_good c k pre cs pc ac h ch : good (Node k pre cs pc ac h) -> child_for c cs pc ac = Some ch -> good ch.
Proof.
  intros G H. destruct (good_parts _ _ _ _ _ _ G) as (_ & Gl & _ & Gp & Ga). unfold child_for in H.
  destruct (List.find (has_label c) cs) as [x|] eqn:F.
  - inversion H; subst. apply find_some in F. destruct F as [Hin _].
    apply goodl_forall in Gl. rewrite Forall_forall in Gl. apply (Gl _ Hin).
  - destruct (Byte.eqb c colon); [subst pc; apply Gp|]. destruct (Byte.eqb c star); [subst ac; apply Ga|discriminate].
Qed.

Lemma bnd_any_last : forall f n s, good n -> bnd f n s = Some Ak -> exists s0, s = s0 ++ [star].
Proof.
  induction f as [|f IH]; intros n s G B; [discriminate|].
  destruct n as [k pre cs pc ac h]. cbn [bnd] in B.
  destruct (strip_prefix pre s) as [rest|] eqn:SP; [|discriminate]. apply strip_prefix_spec in SP. subst s.
  destruct rest as [|c r].
  - inversion B; subst k. destruct (good_parts _ _ _ _ _ _ G) as (Gk & _). destruct Gk as (-> & _). exists []. reflexivity.
  - destruct (child_for c cs pc ac) as [ch|] eqn:CF; [|discriminate].
    destruct (IH ch (c :: r) (child_for_good _ _ _ _ _ _ _ _ G CF) B) as (s0 & E).
    exists (pre ++ s0). rewrite E, app_assoc. reflexivity.
Qed.

Lemma plain_tail_not_star a x s0 : plain x -> x <> [] -> a ++ x = s0 ++ [star] -> False.
Proof.
  intros P N E. destruct (exists_last N) as (x' & e & ->).
  rewrite app_assoc in E. apply app_inj_tail in E. destruct E as [_ ->].
  specialize (P star). rewrite wildb_star in P. assert (true = false); [|discriminate].
  apply P. apply in_or_app. right. left. reflexivity.
Qed.

(* ---------- texts ---------- *)
Lemma index_wild_spec : forall s d, index_wild s = Some d ->
  plain (firstn d s) /\ exists c, nth_error s d = Some c /\ wildb c = true.
Proof.
  induction s as [|x s IH]; intros d H; cbn [index_wild] in H; [discriminate|].
  destruct (Byte.eqb x colon || Byte.eqb x star) eqn:W.
  - inversion H; subst. split; [apply plain_nil|]. exists x. split; [reflexivity|exact W].
  - destruct (index_wild s) as [d'|] eqn:E; [|discriminate]. inversion H; subst. destruct (IH d' eq_refl) as (P & c & N & Wc).
    split; [cbn [firstn]; apply plain_cons; split; assumption|]. exists c. split; assumption.
Qed.
Lemma index_wild_none : forall s, index_wild s = None -> plain s.
Proof.
  induction s as [|x s IH]; intros H; [apply plain_nil|]. cbn [index_wild] in H.
  destruct (Byte.eqb x colon || Byte.eqb x star) eqn:W; [discriminate|].
  destruct (index_wild s); [discriminate|]. apply plain_cons. split; [exact W|apply IH; reflexivity].
Qed.
Lemma index_wild_pos r d : index_wild (sl :: r) = Some d -> 0 < d.
Proof. cbn [index_wild]. replace (Byte.eqb sl colon || Byte.eqb sl star) with false by reflexivity. destruct (index_wild r); [|discriminate]. intros H; inversion H. lia. Qed.

Lemma drop_seg_form : forall s, drop_seg s = [] \/ exists r, drop_seg s = sl :: r.
Proof.
  induction s as [|x s IH]; cbn [drop_seg]; [left; reflexivity|].
  destruct (Byte.eqb x sl) eqn:E; [|exact IH]. apply beqb_eq in E. subst. right. eauto.
Qed.
Lemma drop_seg_len : forall s, length (drop_seg s) <= length s.
Proof. induction s as [|x s IH]; cbn [drop_seg length]; [lia|]. destruct (Byte.eqb x sl); cbn [length]; lia. Qed.

Lemma firstn_add {A} (a b : nat) (l : list A) : firstn (a + b) l = firstn a l ++ firstn b (skipn a l).
Proof.
  revert l; induction a as [|a IH]; intros l; [reflexivity|]. destruct l as [|x l]; [cbn; rewrite firstn_nil; reflexivity|].
  cbn [Nat.add firstn skipn app]. f_equal. apply IH.
Qed.
Lemma nth_error_skipn {A} (a b : nat) (l : list A) : nth_error (skipn a l) b = nth_error l (a + b).
Proof. revert l; induction a as [|a IH]; intros l; [reflexivity|]. destruct l as [|x l]; [destruct b; reflexivity|]. cbn [skipn Nat.add nth_error]. apply IH. Qed.
Lemma firstn_S_nth {A} (i : nat) (l : list A) c : nth_error l i = Some c -> firstn (S i) l = firstn i l ++ [c].
Proof.
  revert l; induction i as [|i IH]; intros l H; destruct l as [|x l]; try discriminate.
  - inversion H; subst. reflexivity.
  - cbn [nth_error] in H. cbn [firstn app]. f_equal. apply IH. exact H.
Qed.
Lemma firstn_len_lt {A} (i : nat) (l : list A) c : nth_error l i = Some c -> length (firstn (S i) l) = S i.
Proof. intros H. apply firstn_length_le. assert (i < length l) by (apply nth_error_Some; congruence). lia. Qed.

(* ---------- the root ---------- *)
Definition root_ok (root : node) : Prop := root = empty_root \/ (good root /\ nkind root = Sk /\ nlabel root = Some sl).

Lemma root_ok_goe root : root_ok root -> good_or_empty root.
Proof. intros [E|[G _]]; [left; exact E|right; exact G]. Qed.

Lemma root_insert big root s r h t : root_ok root -> s = sl :: r -> safe big root s t (is_some h) -> length s < big ->
  let root' := insert big root s h t in
  good root' /\ nkind root' = Sk /\ nlabel root' = Some sl /\ exists k', bnd big root' s = Some k'.
Proof.
  intros RO Es Sf Lb root'.
  pose proof (insert_good big root s h t (root_ok_goe _ RO) Sf) as G'.
  destruct (insert_bnd big root s h t (is_some h) (root_ok_goe _ RO) Sf Lb) as (k' & Bk); [subst s; discriminate|].
  split; [exact G'|]. split; [|split; [|exists k'; exact Bk]].
  - destruct RO as [->|(G & K & L)].
    + subst root'. destruct big as [|b]; [lia|]. cbn [insert safe empty_root] in *. rewrite Es in *.
      cbn [lcp] in *. cbn [Nat.eqb] in *. destruct Sf as (_ & -> & _). destruct h; reflexivity.
    + destruct root as [k pre cs pc ac ch]. cbn [nlabel] in L. destruct pre as [|y pre]; [discriminate|]. inversion L; subst y.
      destruct (insert_label_kind big _ s h t (is_some h) G Sf) as [_ Kk]; [subst s; apply lcp_same_hd|].
      subst root'. rewrite Kk. exact K.
  - destruct RO as [->|(G & K & L)].
    + subst root'. destruct big as [|b]; [lia|]. cbn [insert safe empty_root] in *. rewrite Es in *.
      cbn [lcp] in *. cbn [Nat.eqb] in *. destruct Sf as (_ & -> & _). destruct h; reflexivity.
    + destruct root as [k pre cs pc ac ch]. cbn [nlabel] in L. destruct pre as [|y pre]; [discriminate|]. inversion L; subst y.
      destruct (insert_label_kind big _ s h t (is_some h) G Sf) as [Lk _]; [subst s; apply lcp_same_hd|].
      subst root'. rewrite Lk. reflexivity.
Qed.

Lemma root_safe_plain big root r hs : root_ok root -> plain (sl :: r) -> length (sl :: r) < big -> safe big root (sl :: r) Sk hs.
Proof.
  intros [->|(G & K & L)] P Lb.
  - destruct big as [|b]; [lia|]. cbn [safe empty_root lcp Nat.eqb]. repeat split; auto. discriminate.
  - apply plain_safe; auto. destruct root as [k pre cs pc ac ch]. cbn [nlabel nprefix] in *. destruct pre as [|y pre]; [discriminate|].
    inversion L; subst. apply lcp_same_hd.
Qed.

(* ---------- the routes of the tree after an insert ---------- *)
Definition tokb (c : byte) : tok := if Byte.eqb c colon then P else if Byte.eqb c star then A else L c.
Definition tokz (s : bs) : pattern := map tokb s.

Lemma tokz_app a b : tokz (a ++ b) = tokz a ++ tokz b.
Proof. apply map_app. Qed.
Lemma tokz_plain s : plain s -> tokz s = map L s.
Proof.
  intros P. apply map_ext_in. intros c Hc. specialize (P c Hc). unfold tokb.
  rewrite (not_wild_colon _ P), (not_wild_star _ P). reflexivity.
Qed.

Lemma toks_tokz k pre cs pc ac h : good (Node k pre cs pc ac h) -> toks k pre = tokz pre.
Proof.
  intros G. destruct (good_parts _ _ _ _ _ _ G) as (Gk & _). destruct k; cbn in Gk; cbn [toks].
  - symmetry. apply tokz_plain. tauto.
  - subst. reflexivity.
  - destruct Gk as (-> & _). reflexivity.
Qed.

Definition sub_routes (cs : list node) (pc ac : option node) (h : option nat) (r0 : route) : Prop :=
  In r0 (own h) \/ (exists c, In c cs /\ In r0 (paths c)) \/ (exists c, pc = Some c /\ In r0 (paths c)) \/
  (exists c, ac = Some c /\ In r0 (paths c)).

Lemma paths_in k pre cs pc ac h r :
  In r (paths (Node k pre cs pc ac h)) <-> exists r0, r = prepend (toks k pre) r0 /\ sub_routes cs pc ac h r0.
Proof.
  rewrite paths_static. rewrite in_map_iff. unfold sub_routes. split.
  - intros (r0 & <- & H). exists r0. split; [reflexivity|].
    apply in_app_or in H. destruct H as [H|H]; [left; exact H|].
    apply in_app_or in H. destruct H as [H|H].
    { right; left. apply in_flat_map in H. exact H. }
    apply in_app_or in H. destruct H as [H|H].
    { right; right; left. destruct pc as [c|]; [exists c; auto|destruct H]. }
    right; right; right. destruct ac as [c|]; [exists c; auto|destruct H].
  - intros (r0 & -> & H). exists r0. split; [reflexivity|].
    destruct H as [H|[(c & Hc & H)|[(c & -> & H)|(c & -> & H)]]].
    + apply in_or_app; left; exact H.
    + apply in_or_app; right; apply in_or_app; left. apply in_flat_map. exists c. auto.
    + apply in_or_app; right; apply in_or_app; right; apply in_or_app; left. exact H.
    + apply in_or_app; right; apply in_or_app; right; apply in_or_app; right. exact H.
Qed.

Lemma prepend_app a b r : prepend a (prepend b r) = prepend (a ++ b) r.
Proof. destruct r as [p x]. unfold prepend; cbn [fst snd]. rewrite app_assoc. reflexivity. Qed.
Lemma prepend_inj a r1 r2 : prepend a r1 = prepend a r2 -> r1 = r2.
Proof. destruct r1 as [p x], r2 as [q y]. unfold prepend; cbn [fst snd]. intros H. inversion H. apply app_inv_head in H1. subst. reflexivity. Qed.
Lemma prepend_nil_pat a x : prepend a ([], x) = (a, x).
Proof. unfold prepend; cbn. rewrite app_nil_r. reflexivity. Qed.

Definition added (s : bs) (h : option nat) (r : route) : Prop := exists x, h = Some x /\ r = (tokz s, x).
Definition fresh_at (s : bs) (h : option nat) (n : node) : Prop := h <> None -> forall y, ~ In (tokz s, y) (paths n).

Lemma own_in h r : In r (own h) <-> exists x, h = Some x /\ r = ([], x).
Proof. destruct h as [x|]; cbn; split; [intros [<-|[]]; eauto|intros (y & E & ->); inversion E; auto|intros []|intros (y & E & _); discriminate]. Qed.

Lemma paths_in2 k pre cs pc ac h r :
  In r (paths (Node k pre cs pc ac h)) <->
  (exists x, h = Some x /\ r = (toks k pre, x)) \/
  (exists c r0, (In c cs \/ pc = Some c \/ ac = Some c) /\ In r0 (paths c) /\ r = prepend (toks k pre) r0).
Proof.
  rewrite paths_in. unfold sub_routes. split.
  - intros (r0 & -> & [H|[(c & Hc & H)|[(c & Hc & H)|(c & Hc & H)]]]).
    + left. apply own_in in H. destruct H as (x & E & ->). exists x. split; [exact E|apply prepend_nil_pat].
    + right. exists c, r0. auto.
    + right. exists c, r0. auto.
    + right. exists c, r0. auto.
  - intros [(x & E & ->)|(c & r0 & Hc & H & ->)].
    + exists ([], x). split; [symmetry; apply prepend_nil_pat|]. left. apply own_in. eauto.
    + exists r0. split; [reflexivity|]. destruct Hc as [Hc|[Hc|Hc]]; [right; left|right; right; left|right; right; right]; eauto.
Qed.

Lemma map_L_app a b : map L (a ++ b) = map L a ++ map L b.
Proof. apply map_app. Qed.

(* a static edge cut in two holds the same routes *)
Lemma paths_cut F K cs pc ac ch r :
  In r (paths (Node Sk F [Node Sk K cs pc ac ch] None None None)) <-> In r (paths (Node Sk (F ++ K) cs pc ac ch)).
Proof.
  rewrite paths_in2. cbn [toks]. split.
  - intros [(x & E & _)|(c & r0 & Hc & H & ->)]; [discriminate|].
    destruct Hc as [[<-|[]]|[Hc|Hc]]; try discriminate.
    rewrite paths_in in H. destruct H as (r1 & -> & S). rewrite prepend_app. cbn [toks]. rewrite <- map_L_app.
    apply paths_in. exists r1. cbn [toks]. auto.
  - intros H. apply paths_in in H. destruct H as (r1 & -> & S). cbn [toks]. right.
    exists (Node Sk K cs pc ac ch), (prepend (map L K) r1). split; [left; left; reflexivity|]. split.
    + apply paths_in. exists r1. cbn [toks]. auto.
    + rewrite prepend_app, <- map_L_app. reflexivity.
Qed.

Lemma paths_leaf k pre h r : In r (paths (Node k pre [] None None h)) <-> exists x, h = Some x /\ r = (toks k pre, x).
Proof.
  rewrite paths_in2. split; [intros [H|(c & r0 & [[]|[Hc|Hc]] & _)]; try discriminate; exact H|intros H; left; exact H].
Qed.

Lemma firstn_lcp_full s pre : lcp s pre = length s -> firstn (lcp s pre) pre = s.
Proof. intros E. rewrite <- (lcp_firstn s pre), E. apply firstn_all. Qed.

Lemma good_child_in k pre cs pc ac h c : good (Node k pre cs pc ac h) -> In c cs -> nkind c = Sk /\ good c.
Proof.
  intros G Hin. destruct (good_parts _ _ _ _ _ _ G) as (_ & Gl & _). apply goodl_forall in Gl. rewrite Forall_forall in Gl. auto.
Qed.

Theorem insert_paths : forall fuel cur s h t, good_or_empty cur -> safe fuel cur s t (is_some h) -> fresh_at s h cur ->
  forall r, In r (paths (insert fuel cur s h t)) <-> added s h r \/ In r (paths cur).
Proof.
  induction fuel as [|f IH]; intros cur s h t GE Sf Fr r; [destruct Sf|].
  destruct cur as [k pre cs pc ac ch]. cbn [insert safe] in *.
  destruct (Nat.eqb_spec (lcp s pre) 0) as [Z|Z].
  { destruct Sf as (E & -> & Pl & Ne). inversion E; subst. unfold added.
    assert (Emp : forall q, ~ In q (paths (Node Sk [] [] None None None))) by (intros q H; apply paths_leaf in H; destruct H as (x & D & _); discriminate).
    destruct h as [x|]; rewrite paths_leaf; cbn [toks]; rewrite <- (tokz_plain s Pl); split.
    - intros H. left. exact H.
    - intros [H|H]; [exact H|destruct (Emp _ H)].
    - intros (x & D & _). discriminate.
    - intros [(x & D & _)|H]; [discriminate|destruct (Emp _ H)]. }
  assert (G : good (Node k pre cs pc ac ch)).
  { destruct GE as [E|G]; [|exact G]. inversion E; subst. destruct s; cbn in Z; congruence. }
  destruct (good_parts _ _ _ _ _ _ G) as (Gk & Gl & ND & Gp & Ga).
  pose proof (toks_tokz _ _ _ _ _ _ G) as TT.
  destruct (Nat.ltb_spec (lcp s pre) (length pre)) as [Lp|Lp].
  - (* split *)
    destruct Sf as [-> Pl].
    assert (K : k = Sk).
    { destruct k; [reflexivity|cbn in Gk; subst pre; cbn in Lp; lia|destruct Gk as (-> & _); cbn in Lp; lia]. }
    subst k. destruct Gk as [Npre Ppre].
    set (l := lcp s pre) in *.
    assert (Cut : forall q, In q (paths (Node Sk (firstn l pre) [Node Sk (skipn l pre) cs pc ac ch] None None None)) <->
                            In q (paths (Node Sk pre cs pc ac ch))).
    { intros q. rewrite paths_cut, firstn_skipn. reflexivity. }
    assert (Ps : plain s).
    { rewrite <- (firstn_skipn l s). apply plain_app. split; [|exact Pl]. subst l. rewrite lcp_firstn. apply plain_firstn. exact Ppre. }
    destruct (Nat.eqb_spec l (length s)) as [Ee|Ee].
    + assert (Fs : firstn l pre = s) by (subst l; apply firstn_lcp_full; exact Ee).
      rewrite paths_in2. cbn [toks]. rewrite Fs. rewrite <- (tokz_plain s Ps). split.
      * intros [H|(c & r0 & Hc & H & ->)]; [left; exact H|]. right. apply Cut. rewrite Fs.
        apply paths_in2. cbn [toks]. right. exists c, r0. rewrite (tokz_plain s Ps). auto.
      * intros [H|H]; [left; exact H|]. apply Cut in H. rewrite Fs in H. apply paths_in2 in H. cbn [toks] in H.
        destruct H as [(x & D & _)|H]; [discriminate|]. right. rewrite (tokz_plain s Ps). exact H.
    + set (new := Node Sk (skipn l s) [] None None h).
      rewrite paths_in2. cbn [toks]. split.
      * intros [(x & D & _)|(c & r0 & Hc & H & ->)]; [discriminate|].
        destruct Hc as [[<-|[<-|[]]]|[Hc|Hc]]; try discriminate.
        -- right. apply Cut. apply paths_in2. cbn [toks]. right. eexists _, r0. split; [left; left; reflexivity|auto].
        -- left. subst new. apply paths_leaf in H. destruct H as (x & D & ->). exists x. split; [exact D|].
           cbn [toks]. unfold prepend; cbn [fst snd]. rewrite <- map_L_app. subst l. rewrite <- lcp_firstn, firstn_skipn.
           rewrite (tokz_plain s Ps). reflexivity.
      * intros [(x & D & ->)|H].
        -- right. exists new, (map L (skipn l s), x). split; [left; right; left; reflexivity|]. split.
           ++ subst new. apply paths_leaf. exists x. auto.
           ++ unfold prepend; cbn [fst snd]. rewrite <- map_L_app. subst l. rewrite <- lcp_firstn, firstn_skipn.
              rewrite (tokz_plain s Ps). reflexivity.
        -- apply Cut in H. apply paths_in2 in H. cbn [toks] in H. destruct H as [(x & D & _)|(c & r0 & Hc & H & ->)]; [discriminate|].
           destruct Hc as [[<-|[]]|[Hc|Hc]]; try discriminate.
           right. eexists _, r0. split; [left; left; reflexivity|auto].
  - assert (Epre : lcp s pre = length pre) by (pose proof (lcp_le_r s pre); lia).
    assert (Ss : s = pre ++ skipn (length pre) s).
    { rewrite <- (firstn_skipn (length pre) s) at 1. f_equal. rewrite <- Epre, lcp_firstn, Epre. apply firstn_all. }
    destruct (Nat.ltb_spec (lcp s pre) (length s)) as [Ls|Ls].
    + destruct (skipn (lcp s pre) s) as [|c r0'] eqn:Es; [destruct Sf|].
      rewrite Epre in Es. rewrite Es in Ss.
      assert (Ts : tokz s = toks k pre ++ tokz (c :: r0')) by (rewrite Ss at 1; rewrite tokz_app, TT; reflexivity).
      (* routes of a child, relative to this node *)
      assert (Lift : forall (ch0 ch1 : node) (sel : node -> Prop),
                 (forall q, In q (paths ch1) <-> added (c :: r0') h q \/ In q (paths ch0)) -> True) by (intros; exact I).
      clear Lift.
      destruct (existsb (has_label c) cs) eqn:Ex.
      * (* static child *)
        assert (Step : forall ch0, In ch0 cs -> has_label c ch0 = true ->
                   forall q, In q (paths (insert f ch0 (c :: r0') h t)) <-> added (c :: r0') h q \/ In q (paths ch0)).
        { intros ch0 Hin Hl. destruct (good_child_in _ _ _ _ _ _ _ G Hin) as [K0 G0].
          rewrite Forall_forall in Sf. apply IH; [right; exact G0|apply Sf; assumption|].
          intros Hn y Hy. apply (Fr Hn y). rewrite Ts. apply paths_in2. right. exists ch0, (tokz (c :: r0'), y). auto. }
        rewrite !paths_in2. split.
        -- intros [H|(c1 & q & Hc & H & ->)]; [right; left; exact H|].
           destruct Hc as [Hc|Hc].
           ++ apply in_map_iff in Hc. destruct Hc as (ch0 & <- & Hin). destruct (has_label c ch0) eqn:Hl.
              ** apply (Step ch0 Hin Hl) in H. destruct H as [(x & D & ->)|H].
                 --- left. exists x. split; [exact D|]. rewrite Ts. reflexivity.
                 --- right. right. exists ch0, q. auto.
              ** right. right. exists ch0, q. auto.
           ++ right. right. exists c1, q. auto.
        -- intros [(x & D & ->)|[H|(c1 & q & Hc & H & ->)]].
           ++ destruct (find_some_existsb _ _ Ex) as (ch0 & _ & Hin & Hl). right.
              exists (insert f ch0 (c :: r0') h t), (tokz (c :: r0'), x). split; [|split].
              ** left. apply in_map_iff. exists ch0. rewrite Hl. auto.
              ** apply (Step ch0 Hin Hl). left. exists x. auto.
              ** rewrite Ts. reflexivity.
           ++ left. exact H.
           ++ right. destruct Hc as [Hc|Hc]; [|exists c1, q; auto].
              destruct (has_label c c1) eqn:Hl.
              ** exists (insert f c1 (c :: r0') h t), q. split; [left; apply in_map_iff; exists c1; rewrite Hl; auto|].
                 split; [apply (Step c1 Hc Hl); right; exact H|reflexivity].
              ** exists c1, q. split; [left; apply in_map_iff; exists c1; rewrite Hl; auto|auto].
      * destruct (Byte.eqb c colon && is_some pc) eqn:Cp.
        { destruct pc as [p|]; [|apply andb_true_iff in Cp; destruct Cp; discriminate]. destruct Gp as [Kp G1].
          assert (Step : forall q, In q (paths (insert f p (c :: r0') h t)) <-> added (c :: r0') h q \/ In q (paths p)).
          { apply IH; [right; exact G1|exact Sf|].
            intros Hn y Hy. apply (Fr Hn y). rewrite Ts. apply paths_in2. right. exists p, (tokz (c :: r0'), y). auto. }
          cbn [option_map]. rewrite !paths_in2. split.
          - intros [H|(c1 & q & Hc & H & ->)]; [right; left; exact H|].
            destruct Hc as [Hc|[Hc|Hc]]; [right; right; exists c1, q; auto| |right; right; exists c1, q; auto].
            inversion Hc; subst c1. apply Step in H. destruct H as [(x & D & ->)|H].
            + left. exists x. split; [exact D|rewrite Ts; reflexivity].
            + right. right. exists p, q. auto.
          - intros [(x & D & ->)|[H|(c1 & q & Hc & H & ->)]].
            + right. exists (insert f p (c :: r0') h t), (tokz (c :: r0'), x). split; [auto|]. split; [apply Step; left; exists x; auto|rewrite Ts; reflexivity].
            + left. exact H.
            + right. destruct Hc as [Hc|[Hc|Hc]]; [exists c1, q; auto| |exists c1, q; auto].
              inversion Hc; subst c1. exists (insert f p (c :: r0') h t), q. split; [auto|]. split; [apply Step; right; exact H|reflexivity]. }
        destruct (Byte.eqb c star && is_some ac) eqn:Ca.
        { destruct ac as [a|]; [|apply andb_true_iff in Ca; destruct Ca; discriminate]. destruct Ga as [Ka G1].
          assert (Step : forall q, In q (paths (insert f a (c :: r0') h t)) <-> added (c :: r0') h q \/ In q (paths a)).
          { apply IH; [right; exact G1|exact Sf|].
            intros Hn y Hy. apply (Fr Hn y). rewrite Ts. apply paths_in2. right. exists a, (tokz (c :: r0'), y). auto. }
          cbn [option_map]. rewrite !paths_in2. split.
          - intros [H|(c1 & q & Hc & H & ->)]; [right; left; exact H|].
            destruct Hc as [Hc|[Hc|Hc]]; [right; right; exists c1, q; auto|right; right; exists c1, q; auto|].
            inversion Hc; subst c1. apply Step in H. destruct H as [(x & D & ->)|H].
            + left. exists x. split; [exact D|rewrite Ts; reflexivity].
            + right. right. exists a, q. auto.
          - intros [(x & D & ->)|[H|(c1 & q & Hc & H & ->)]].
            + right. exists (insert f a (c :: r0') h t), (tokz (c :: r0'), x). split; [auto|]. split; [apply Step; left; exists x; auto|rewrite Ts; reflexivity].
            + left. exact H.
            + right. destruct Hc as [Hc|[Hc|Hc]]; [exists c1, q; auto|exists c1, q; auto|].
              inversion Hc; subst c1. exists (insert f a (c :: r0') h t), q. split; [auto|]. split; [apply Step; right; exact H|reflexivity]. }
        (* a new child *)
        destruct Sf as [NA Frs].
        set (new := Node t (c :: r0') [] None None h).
        assert (Gnew : toks t (c :: r0') = tokz (c :: r0')).
        { destruct t; cbn [fresh_ok] in Frs; cbn [toks].
          - symmetry. apply tokz_plain. exact Frs.
          - inversion Frs; subst. reflexivity.
          - destruct Frs as [Er _]. inversion Er; subst. reflexivity. }
        assert (New : forall q, In q (paths new) <-> added (c :: r0') h q).
        { intros q. subst new. rewrite paths_leaf, Gnew. reflexivity. }
        assert (Res : forall q, In q (paths (match t with
                                             | Sk => Node k pre (cs ++ [new]) pc ac ch
                                             | Pk => Node k pre cs (Some new) ac ch
                                             | Ak => Node k pre cs pc (Some new) ch end)) <->
                      (exists x, ch = Some x /\ q = (toks k pre, x)) \/
                      (exists c1 q0, (In c1 cs \/ pc = Some c1 \/ ac = Some c1 \/ c1 = new) /\ In q0 (paths c1) /\ q = prepend (toks k pre) q0)).
        { intros q. destruct t; cbn [fresh_ok] in Frs.
          - rewrite paths_in2. split; (intros [H|(c1 & q0 & Hc & H & ->)]; [left; exact H|right; exists c1, q0; split; [|auto]]).
            + destruct Hc as [Hc|[Hc|Hc]]; auto. apply in_app_or in Hc. destruct Hc as [Hc|[<-|[]]]; auto.
            + destruct Hc as [Hc|[Hc|[Hc|Hc]]]; auto; left; apply in_or_app; [left; exact Hc|right; left; symmetry; exact Hc].
          - inversion Frs; subst. rewrite beqb_refl in Cp. cbn [andb] in Cp. destruct pc; [discriminate|].
            rewrite paths_in2. split; (intros [H|(c1 & q0 & Hc & H & ->)]; [left; exact H|right; exists c1, q0; split; [|auto]]).
            + destruct Hc as [Hc|[Hc|Hc]]; auto. inversion Hc; auto.
            + destruct Hc as [Hc|[Hc|[Hc|Hc]]]; auto; [discriminate|subst c1; auto].
          - destruct Frs as [Er _]. inversion Er; subst. rewrite beqb_refl in Ca. cbn [andb] in Ca. destruct ac; [discriminate|].
            rewrite paths_in2. split; (intros [H|(c1 & q0 & Hc & H & ->)]; [left; exact H|right; exists c1, q0; split; [|auto]]).
            + destruct Hc as [Hc|[Hc|Hc]]; auto. inversion Hc; auto.
            + destruct Hc as [Hc|[Hc|[Hc|Hc]]]; auto; [discriminate|subst c1; auto]. }
        rewrite Res, paths_in2. split.
        -- intros [H|(c1 & q0 & Hc & H & ->)]; [right; left; exact H|].
           destruct Hc as [Hc|[Hc|[Hc|Hc]]]; try (right; right; exists c1, q0; auto; fail).
           subst c1. apply New in H. destruct H as (x & D & ->). left. exists x. split; [exact D|rewrite Ts; reflexivity].
        -- intros [(x & D & ->)|[H|(c1 & q0 & Hc & H & ->)]].
           ++ right. exists new, (tokz (c :: r0'), x). split; [auto|]. split; [apply New; exists x; auto|rewrite Ts; reflexivity].
           ++ left. exact H.
           ++ right. exists c1, q0. destruct Hc as [Hc|[Hc|Hc]]; auto.
    + (* the node exists *)
      assert (Es : s = pre).
      { assert (Ll : lcp s pre = length s) by (pose proof (lcp_le_l s pre); lia).
        rewrite <- (firstn_all s), <- Ll, lcp_firstn, Epre, firstn_all. reflexivity. }
      subst s. destruct h as [x|].
      * assert (Cn : ch = None).
        { destruct ch as [y|]; [|reflexivity]. exfalso. apply (Fr ltac:(discriminate) y).
          apply paths_in2. left. exists y. rewrite TT. auto. }
        subst ch. rewrite !paths_in2. rewrite TT. split.
        -- intros [(y & D & ->)|H]; [left; exists y; auto|right; right; exact H].
        -- intros [(y & D & ->)|[(y & D & _)|H]]; [left; exists y; auto|discriminate|right; exact H].
      * split; [intros H; right; exact H|intros [(y & D & _)|H]; [discriminate|exact H]].
Qed.

(* ---------- add_route ---------- *)
Definition strong (root : node) : Prop := good root /\ nkind root = Sk /\ nlabel root = Some sl.
Definition at_ok (root : node) (path : bs) (i0 : nat) : Prop :=
  i0 = 0 \/ (0 < i0 /\ good root /\ exists k0 fb, bnd fb root (firstn i0 path) = Some k0 /\ k0 <> Ak).

Lemma strong_root_ok root : strong root -> root_ok root.
Proof. intros S. right. exact S. Qed.

Lemma root_insert_strong big root s r h t : root_ok root -> s = sl :: r -> safe big root s t (is_some h) -> length s < big ->
  strong (insert big root s h t) /\ exists k', bnd big (insert big root s h t) s = Some k'.
Proof. intros RO Es Sf Lb. destruct (root_insert big root s r h t RO Es Sf Lb) as (A & B & C & D). repeat split; assumption. Qed.

Lemma firstn_sl i r : 0 < i -> exists r', firstn i (sl :: r) = sl :: r'.
Proof. destruct i; [lia|]. intros _. cbn [firstn]. eauto. Qed.

Lemma firstn_prefix_len {A} (n : nat) (l1 l2 : list A) : length l1 = n -> firstn n (l1 ++ l2) = l1.
Proof. intros <-. rewrite firstn_app, Nat.sub_diag, firstn_all. cbn. apply app_nil_r. Qed.
Lemma skipn_prefix_len {A} (n : nat) (l1 l2 : list A) : length l1 = n -> skipn n (l1 ++ l2) = l2.
Proof. intros <-. apply skipn_app_len. Qed.

(* the text add_route finally inserts together with the handler: the path with the wildcard names removed *)
Fixpoint erase (fuel : nat) (path : bs) (i0 : nat) : bs :=
  match fuel with
  | O => path
  | S f =>
      match index_wild (skipn i0 path) with
      | None => path
      | Some d =>
          let i := i0 + d in
          match nth_error path i with
          | Some c =>
              if Byte.eqb c colon then
                let rest := drop_seg (skipn (S i) path) in
                let path' := firstn (S i) path ++ rest in
                match rest with [] => path' | _ => erase f path' (S i) end
              else firstn (S i) path
          | None => path
          end
      end
  end.

Definition routes_plus (n' n : node) (p : pattern) (h : nat) : Prop :=
  forall r, In r (paths n') <-> r = (p, h) \/ In r (paths n).
Definition routes_same (n' n : node) : Prop := forall r, In r (paths n') <-> In r (paths n).

Lemma insert_none_same big root s t : good_or_empty root -> safe big root s t false -> routes_same (insert big root s None t) root.
Proof.
  intros GE Sf r. rewrite (insert_paths big root s None t GE Sf); [|intros H; congruence].
  split; [intros [(x & D & _)|H]; [discriminate|exact H]|intros H; right; exact H].
Qed.
Lemma insert_some_plus big root s t h : good_or_empty root -> safe big root s t true ->
  (forall y, ~ In (tokz s, y) (paths root)) -> routes_plus (insert big root s (Some h) t) root (tokz s) h.
Proof.
  intros GE Sf Fr r. rewrite (insert_paths big root s (Some h) t GE Sf); [|intros _; exact Fr].
  split; [intros [(x & D & ->)|H]; [inversion D; left; reflexivity|right; exact H]|intros [->|H]; [left; exists h; auto|right; exact H]].
Qed.

Theorem add_route_full : forall f root path i0 h,
  root_ok root -> (0 < f \/ strong root) ->
  (exists r, path = sl :: r) -> (exists r, skipn i0 path = sl :: r) -> at_ok root path i0 ->
  strong (add_route f root path i0 h) /\
  (length path - i0 < f -> (forall y, ~ In (tokz (erase f path i0), y) (paths root)) ->
   routes_plus (add_route f root path i0 h) root (tokz (erase f path i0)) h).
Proof.
  induction f as [|f IH]; intros root path i0 h RO FS (r0 & Ep) (r1 & Es) AT.
  { split; [destruct FS as [F|S]; [lia|exact S]|intros L; lia]. }
  cbn [add_route erase]. set (big := S (length path)).
  assert (Lpath : length path < big) by (subst big; lia).
  destruct (index_wild (skipn i0 path)) as [d|] eqn:IW.
  2:{ (* no wildcard left: the whole path, with its handler *)
    apply index_wild_none in IW.
    assert (Sf : safe big root path Sk true).
    { destruct AT as [->|(P0 & G & k0 & fb & B & NA)].
      - cbn [skipn] in IW. rewrite Ep in *. apply root_safe_plain; assumption.
      - pose proof (bnd_safe_ext fb root (firstn i0 path) k0 (skipn i0 path) Sk true G B NA) as X.
        rewrite firstn_skipn in X. apply X; [split; [exact IW|rewrite Es; discriminate]|exact Lpath]. }
    split; [apply (root_insert_strong big root path r0 (Some h) Sk RO Ep Sf Lpath)|].
    intros _ Fr. apply insert_some_plus; [apply root_ok_goe; exact RO|exact Sf|exact Fr]. }
  destruct (index_wild_spec _ _ IW) as (Pd & c & Nc & Wc).
  assert (Dpos : 0 < d) by (rewrite Es in IW; apply (index_wild_pos _ _ IW)).
  rewrite nth_error_skipn in Nc. rewrite Nc.
  set (i := i0 + d) in *.
  assert (Ilt : i < length path) by (apply nth_error_Some; congruence).
  set (s1 := firstn i path).
  assert (E1 : s1 = firstn i0 path ++ firstn d (skipn i0 path)) by (subst s1 i; apply firstn_add).
  set (x1 := firstn d (skipn i0 path)) in *.
  assert (X1ne : x1 <> []).
  { subst x1. rewrite Es. destruct d; [lia|]. discriminate. }
  assert (S1sl : exists r', s1 = sl :: r').
  { subst s1. rewrite Ep. apply firstn_sl. subst i. lia. }
  destruct S1sl as (r' & S1sl).
  assert (L1 : length s1 < big).
  { subst s1. rewrite firstn_length. subst big. lia. }
  assert (Sf1 : safe big root s1 Sk false).
  { destruct AT as [->|(P0 & G & k0 & fb & B & NA)].
    - assert (Ps1 : plain s1) by (rewrite E1; cbn [firstn app]; exact Pd).
      revert Ps1 L1. rewrite S1sl. intros Ps1 L1. apply root_safe_plain; assumption.
    - rewrite E1. apply (bnd_safe_ext fb root (firstn i0 path) k0 x1 Sk false G B NA); [split; assumption|].
      rewrite <- E1. exact L1. }
  destruct (root_insert_strong big root s1 r' None Sk RO S1sl Sf1 L1) as (St1 & k1 & B1).
  pose proof (insert_none_same big root s1 Sk (root_ok_goe _ RO) Sf1) as Same1.
  set (root1 := insert big root s1 None Sk) in *.
  assert (NA1 : k1 <> Ak).
  { intros ->. destruct (bnd_any_last _ _ _ (proj1 St1) B1) as (s0 & E0). rewrite E1 in E0.
    apply (plain_tail_not_star _ _ _ Pd X1ne E0). }
  assert (FS1 : firstn (S i) path = s1 ++ [c]) by (subst s1; apply firstn_S_nth; exact Nc).
  assert (LS1 : length (s1 ++ [c]) < big).
  { rewrite <- FS1, firstn_length. subst big. lia. }
  assert (Ssl : s1 ++ [c] = sl :: (r' ++ [c])) by (rewrite S1sl; reflexivity).
  destruct (Byte.eqb c colon) eqn:Cc.
  - apply beqb_eq in Cc. subst c.
    set (rest := drop_seg (skipn (S i) path)).
    assert (SfP : forall hs, safe big root1 (s1 ++ [colon]) Pk hs).
    { intros hs. apply (bnd_safe_ext big root1 s1 k1 [colon] Pk hs (proj1 St1) B1 NA1); [reflexivity|exact LS1]. }
    destruct rest as [|y rr] eqn:Er.
    + rewrite FS1, app_nil_r.
      split; [apply (root_insert_strong big root1 (s1 ++ [colon]) (r' ++ [colon]) (Some h) Pk (strong_root_ok _ St1) Ssl (SfP true) LS1)|].
      intros _ Fr q.
      pose proof (insert_some_plus big root1 (s1 ++ [colon]) Pk h (or_intror (proj1 St1)) (SfP true)
                    (fun y Hy => Fr y (proj1 (Same1 _) Hy))) as Pl.
      rewrite (Pl q), (Same1 q). reflexivity.
    + assert (Rsl : exists rr', y :: rr = sl :: rr').
      { destruct (drop_seg_form (skipn (S i) path)) as [E|(rr' & E)]; fold rest in E; rewrite Er in E; [discriminate|eauto]. }
      destruct Rsl as (rr' & Rsl).
      set (path' := firstn (S i) path ++ y :: rr).
      assert (LenF : length (firstn (S i) path) = S i) by (apply (firstn_len_lt i path colon Nc)).
      assert (F' : firstn (S i) path' = s1 ++ [colon]).
      { subst path'. rewrite (firstn_prefix_len (S i) _ _ LenF). exact FS1. }
      rewrite F'.
      destruct (root_insert_strong big root1 (s1 ++ [colon]) (r' ++ [colon]) None Pk (strong_root_ok _ St1) Ssl (SfP false) LS1) as (St2 & k2 & B2).
      pose proof (insert_none_same big root1 (s1 ++ [colon]) Pk (or_intror (proj1 St1)) (SfP false)) as Same2.
      set (root2 := insert big root1 (s1 ++ [colon]) None Pk) in *.
      assert (NA2 : k2 <> Ak).
      { intros ->. destruct (bnd_any_last _ _ _ (proj1 St2) B2) as (s0 & E0).
        apply app_inj_tail in E0. destruct E0 as [_ E0]. discriminate. }
      assert (Lp' : length path' <= length path).
      { subst path'. rewrite app_length, LenF, <- Er. fold rest. subst rest.
        pose proof (drop_seg_len (skipn (S i) path)) as D. rewrite skipn_length in D. lia. }
      destruct (IH root2 path' (S i) h) as (StR & PR).
      * apply strong_root_ok. exact St2.
      * right. exact St2.
      * exists (r' ++ [colon] ++ y :: rr). subst path'. rewrite FS1, S1sl. cbn [app]. rewrite <- app_assoc. reflexivity.
      * exists rr'. subst path'. rewrite (skipn_prefix_len (S i) _ _ LenF). exact Rsl.
      * right. split; [lia|]. split; [exact (proj1 St2)|]. exists k2, big. rewrite F'. split; [exact B2|exact NA2].
      * split; [exact StR|]. intros Lf Fr q.
        assert (Lf' : length path' - S i < f) by (subst i; lia).
        pose proof (PR Lf' (fun y0 Hy => Fr y0 (proj1 (Same1 _) (proj1 (Same2 _) Hy)))) as Pl.
        rewrite (Pl q), (Same2 q), (Same1 q). reflexivity.
  - (* the catch-all ends the route *)
    assert (Cs : c = star).
    { unfold wildb in Wc. rewrite Cc in Wc. cbn [orb] in Wc. apply beqb_eq. exact Wc. }
    subst c. rewrite FS1.
    assert (SfA : safe big root1 (s1 ++ [star]) Ak true).
    { apply (bnd_safe_ext big root1 s1 k1 [star] Ak true (proj1 St1) B1 NA1); [split; reflexivity|exact LS1]. }
    split; [apply (root_insert_strong big root1 (s1 ++ [star]) (r' ++ [star]) (Some h) Ak (strong_root_ok _ St1) Ssl SfA LS1)|].
    intros _ Fr q.
    pose proof (insert_some_plus big root1 (s1 ++ [star]) Ak h (or_intror (proj1 St1)) SfA
                  (fun y Hy => Fr y (proj1 (Same1 _) Hy))) as Pl.
    rewrite (Pl q), (Same1 q). reflexivity.
Qed.

Theorem add_route_ok : forall f root path i0 h,
  root_ok root -> (0 < f \/ strong root) ->
  (exists r, path = sl :: r) -> (exists r, skipn i0 path = sl :: r) -> at_ok root path i0 ->
  strong (add_route f root path i0 h).
Proof. intros. apply add_route_full; assumption. Qed.

Theorem register_ok root path h : root_ok root -> (exists r, path = sl :: r) -> strong (register root path h).
Proof.
  intros RO (r & E). unfold register. apply add_route_ok; [exact RO|left; lia|eauto|cbn [skipn]; eauto|left; reflexivity].
Qed.

Theorem build_ok : forall order pats root, root_ok root ->
  (forall i, In i order -> exists r, nth i pats [] = sl :: r) -> root_ok (build_from root pats order).
Proof.
  induction order as [|i order IH]; intros pats root RO V; cbn [build_from]; [exact RO|].
  apply IH; [|intros j Hj; apply V; right; exact Hj].
  apply strong_root_ok. apply register_ok; [exact RO|apply V; left; reflexivity].
Qed.

(* every tree built from routes that begin with '/' is well formed (or still empty) *)
Theorem built_tree_wf pats order :
  (forall i, In i order -> exists r, nth i pats [] = sl :: r) ->
  let t := build_from empty_root pats order in t = empty_root \/ (wf t /\ nkind t = Sk).
Proof.
  intros V t. destruct (build_ok order pats empty_root (or_introl eq_refl) V) as [E|(G & K & _)]; [left; exact E|].
  right. split; [apply good_wf; exact G|exact K].
Qed.

Theorem build_strong : forall order pats root, strong root ->
  (forall i, In i order -> exists r, nth i pats [] = sl :: r) -> strong (build_from root pats order).
Proof.
  induction order as [|i order IH]; intros pats root St V; cbn [build_from]; [exact St|].
  apply IH; [|intros j Hj; apply V; right; exact Hj].
  apply register_ok; [apply strong_root_ok; exact St|apply V; left; reflexivity].
Qed.


(* ---------- the erased text spells the pattern of the route ---------- *)
Lemma tokenize_fst_cons0 f c r : fst (tokenize (S f) (c :: r)) =
  if Byte.eqb c colon then P :: fst (tokenize f (drop_seg r)) else if Byte.eqb c star then [A] else L c :: fst (tokenize f r).
Proof.
  cbn [tokenize]. destruct (Byte.eqb c colon).
  - destruct (tokenize f (drop_seg r)); reflexivity.
  - destruct (Byte.eqb c star); [reflexivity|]. destruct (tokenize f r); reflexivity.
Qed.

Lemma tok_fuel : forall f1 f2 s, length s < f1 -> length s < f2 -> fst (tokenize f1 s) = fst (tokenize f2 s).
Proof.
  induction f1 as [|f1 IH]; intros f2 s L1 L2; [lia|]. destruct f2 as [|f2]; [lia|].
  destruct s as [|c r]; [reflexivity|]. cbn [length] in *. rewrite !tokenize_fst_cons0.
  pose proof (drop_seg_len r) as D.
  destruct (Byte.eqb c colon); [f_equal; apply IH; lia|].
  destruct (Byte.eqb c star); [reflexivity|]. f_equal. apply IH; lia.
Qed.

Lemma pattern_of_nil : pattern_of [] = [].
Proof. reflexivity. Qed.
Lemma pattern_of_cons c r : pattern_of (c :: r) =
  if Byte.eqb c colon then P :: pattern_of (drop_seg r) else if Byte.eqb c star then [A] else L c :: pattern_of r.
Proof.
  unfold pattern_of. cbn [length]. rewrite tokenize_fst_cons0. pose proof (drop_seg_len r) as D.
  destruct (Byte.eqb c colon); [f_equal; apply tok_fuel; lia|]. reflexivity.
Qed.

Lemma pattern_of_plain_app : forall x rest, plain x -> pattern_of (x ++ rest) = map L x ++ pattern_of rest.
Proof.
  induction x as [|c x IH]; intros rest P; [reflexivity|]. apply plain_cons in P. destruct P as [Wc Px].
  cbn [app map]. rewrite pattern_of_cons, (not_wild_colon _ Wc), (not_wild_star _ Wc). f_equal. apply IH. exact Px.
Qed.
Lemma pattern_of_plain x : plain x -> pattern_of x = map L x.
Proof. intros P. rewrite <- (app_nil_r x) at 1. rewrite pattern_of_plain_app by exact P. rewrite pattern_of_nil. apply app_nil_r. Qed.

Lemma skipn_add {A} (a b : nat) (l : list A) : skipn a (skipn b l) = skipn (b + a) l.
Proof.
  revert l; induction b as [|b IH]; intros l; [reflexivity|].
  destruct l; [rewrite !skipn_nil; reflexivity|]. cbn [skipn Nat.add]. apply IH.
Qed.

Lemma skipn_nth_cons {A} (i : nat) (l : list A) c : nth_error l i = Some c -> skipn i l = c :: skipn (S i) l.
Proof.
  revert l; induction i as [|i IH]; intros l H; destruct l as [|x l]; try discriminate.
  - inversion H; reflexivity.
  - cbn [nth_error] in H. cbn [skipn]. apply IH. exact H.
Qed.

Lemma erase_pattern : forall f path i0, length path - i0 < f ->
  tokz (erase f path i0) = tokz (firstn i0 path) ++ pattern_of (skipn i0 path).
Proof.
  induction f as [|f IH]; intros path i0 Lf; [lia|]. cbn [erase].
  destruct (index_wild (skipn i0 path)) as [d|] eqn:IW.
  2:{ apply index_wild_none in IW. rewrite (pattern_of_plain _ IW), <- (tokz_plain _ IW), <- tokz_app, firstn_skipn. reflexivity. }
  destruct (index_wild_spec _ _ IW) as (Pd & c & Nc & Wc).
  rewrite nth_error_skipn in Nc. rewrite Nc.
  pose proof (skipn_nth_cons (i0 + d) path c Nc) as Sk0.
  set (i := i0 + d) in *.
  assert (Ilt : i < length path) by (apply nth_error_Some; congruence).
  assert (Split : skipn i0 path = firstn d (skipn i0 path) ++ c :: skipn (S i) path).
  { rewrite <- (firstn_skipn d (skipn i0 path)) at 1. f_equal. rewrite skipn_add. subst i. exact Sk0. }
  assert (FS : firstn (S i) path = firstn i0 path ++ firstn d (skipn i0 path) ++ [c]).
  { rewrite (firstn_S_nth i path c Nc). subst i. rewrite firstn_add, <- app_assoc. reflexivity. }
  replace (pattern_of (skipn i0 path)) with (pattern_of (firstn d (skipn i0 path) ++ c :: skipn (S i) path))
    by (rewrite <- Split; reflexivity).
  rewrite (pattern_of_plain_app _ _ Pd), pattern_of_cons.
  destruct (Byte.eqb c colon) eqn:Cc.
  - apply beqb_eq in Cc. subst c.
    destruct (drop_seg (skipn (S i) path)) as [|y rr] eqn:Er.
    + rewrite app_nil_r, FS, !tokz_app, (tokz_plain _ Pd), pattern_of_nil. reflexivity.
    + set (path' := firstn (S i) path ++ y :: rr).
      assert (LenF : length (firstn (S i) path) = S i) by (apply (firstn_len_lt i path colon Nc)).
      assert (Lp' : length path' <= length path).
      { subst path'. rewrite app_length, LenF, <- Er. pose proof (drop_seg_len (skipn (S i) path)) as D. rewrite skipn_length in D. lia. }
      rewrite IH by (subst i; lia).
      subst path'. rewrite (firstn_prefix_len (S i) _ _ LenF), (skipn_prefix_len (S i) _ _ LenF).
      rewrite FS, !tokz_app, (tokz_plain _ Pd), <- !app_assoc. reflexivity.
  - assert (Cs : c = star).
    { unfold wildb in Wc. rewrite Cc in Wc. cbn [orb] in Wc. apply beqb_eq. exact Wc. }
    subst c. rewrite beqb_refl. rewrite FS, !tokz_app, (tokz_plain _ Pd). reflexivity.
Qed.

Theorem register_routes root path h : root_ok root -> (exists r, path = sl :: r) ->
  (forall y, ~ In (pattern_of path, y) (paths root)) ->
  strong (register root path h) /\ routes_plus (register root path h) root (pattern_of path) h.
Proof.
  intros RO (r & E) Fr. unfold register.
  assert (Et : tokz (erase (S (length path)) path 0) = pattern_of path).
  { rewrite erase_pattern by lia. reflexivity. }
  destruct (add_route_full (S (length path)) root path 0 h RO) as (St & Pl); [left; lia|eauto|cbn [skipn]; eauto|left; reflexivity|].
  split; [exact St|]. rewrite <- Et. apply Pl; [lia|]. rewrite Et. exact Fr.
Qed.

Definition declared (pats : list bs) (order : list nat) : list route :=
  map (fun i => (pattern_of (nth i pats []), i)) order.

Theorem build_routes : forall order pats root, root_ok root ->
  (forall i, In i order -> exists r, nth i pats [] = sl :: r) ->
  NoDup (map (fun i => pattern_of (nth i pats [])) order) ->
  (forall i y, In i order -> ~ In (pattern_of (nth i pats []), y) (paths root)) ->
  forall r, In r (paths (build_from root pats order)) <-> In r (declared pats order) \/ In r (paths root).
Proof.
  induction order as [|i order IH]; intros pats root RO V ND Fr r; cbn [build_from declared map].
  - split; [intros H; right; exact H|intros [[]|H]; exact H].
  - cbn [map] in ND. inversion ND as [|? ? Ni NDr]; subst.
    destruct (register_routes root (nth i pats []) i RO (V i (or_introl eq_refl))) as (St & Pl).
    { intros y. apply Fr. left. reflexivity. }
    rewrite (IH pats (register root (nth i pats []) i) (strong_root_ok _ St)); [|intros j Hj; apply V; right; exact Hj|exact NDr|].
    + fold (declared pats order). rewrite (Pl r). cbn [In]. split; [intros [H|[H|H]]|intros [[H|H]|H]]; auto.
    + intros j y Hj Hin. apply Pl in Hin. destruct Hin as [Hin|Hin].
      * inversion Hin. apply Ni. apply in_map_iff. exists j. split; [cbv beta; congruence|exact Hj].
      * apply (Fr j y); [right; exact Hj|exact Hin].
Qed.

Lemma paths_empty_root r : ~ In r (paths empty_root).
Proof. intros H. apply paths_leaf in H. destruct H as (x & D & _). discriminate. Qed.

(* the tree built from any list of distinct route patterns holds exactly the declared routes *)
Theorem built_tree_routes pats order :
  (forall i, In i order -> exists r, nth i pats [] = sl :: r) ->
  NoDup (map (fun i => pattern_of (nth i pats [])) order) ->
  forall r, In r (paths (build_from empty_root pats order)) <-> In r (declared pats order).
Proof.
  intros V ND r. rewrite (build_routes order pats empty_root (or_introl eq_refl) V ND).
  - split; [intros [H|H]; [exact H|destruct (paths_empty_root _ H)]|intros H; left; exact H].
  - intros i y _ H. exact (paths_empty_root _ H).
Qed.

(* ... and the lookup in it is the priority search over the declared routes *)
Theorem built_tree_lookup pats order s f :
  (forall i, In i order -> exists r, nth i pats [] = sl :: r) ->
  NoDup (map (fun i => pattern_of (nth i pats [])) order) -> order <> [] ->
  short (S f) (declared pats order) ->
  ft (build_from empty_root pats order) s = option_map fst (find (S f) (declared pats order) s).
Proof.
  intros V ND Ne Sh. set (t := build_from empty_root pats order).
  pose proof (built_tree_routes pats order V ND) as Same. fold t in Same.
  assert (Sh' : short (S f) (paths t)) by (intros p h Hin; apply (Sh p h); apply Same; exact Hin).
  assert (St : strong t).
  { subst t. destruct order as [|i order]; [congruence|]. cbn [build_from].
    apply build_strong; [apply register_ok; [left; reflexivity|apply V; left; reflexivity]|intros j Hj; apply V; right; exact Hj]. }
  destruct St as (G & K & _).
  rewrite (radix_lookup_is_the_search t s f (good_wf _ G) K Sh'). f_equal.
  symmetry. apply find_order_independent; [intros r; symmetry; apply Same| | |exact Sh].
  - intros p a b Ha Hb. unfold declared in Ha, Hb. apply in_map_iff in Ha. apply in_map_iff in Hb.
    destruct Ha as (i & Ei & Hi), Hb as (j & Ej & Hj). cbv beta in Ei, Ej.
    assert (IJ : i = j).
    { apply (nodup_map_inj (fun i => pattern_of (nth i pats [])) order i j ND Hi Hj). cbv beta.
      injection Ei as E1 E2. injection Ej as E3 E4. exact (eq_trans E1 (eq_sym E3)). }
    injection Ei as E1 E2. injection Ej as E3 E4. subst. reflexivity.
  - intros p h Hin. unfold declared in Hin. apply in_map_iff in Hin. destruct Hin as (i & Ei & _). inversion Ei. apply tokenize_wf.
Qed.
