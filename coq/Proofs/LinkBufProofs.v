(* C13 proofs about the linked input buffer of standard.Conn (Model/LinkBuf.v): an invariant that every
   operation keeps, under which no operation runs off the node list, calls Read with an empty buffer or
   loses, duplicates or reorders a byte. *)
From Coq Require Import String.
From Coq Require Import List Strings.Byte NArith Bool Arith Lia ZifyN ZifyNat.
Require Import Bytes Show Rd LinkBuf.
Import ListNotations.
Local Open Scope nat_scope.

Definition unread (s : lb) : bs := concat (map navail (skipn (ridx s) (nodes s))).
Definition srcbytes (l : list rres) : bs := concat (map rbytes l).
Definition lstream (s : lb) : bs := unread s ++ srcbytes (lsrc s).

Definition node_ok (n : node) : Prop := noff n <= length (ndata n) /\ length (ndata n) <= ncap n.
(* the net.Conn contract: a read never returns (0 bytes, no error) *)
Definition src_ok (l : list rres) : Prop := Forall (fun x => rbytes x <> [] \/ rerr x = true) l.

Record Inv (s : lb) : Prop := {
  inv_ridx : ridx s < length (nodes s);
  inv_nodes : Forall node_ok (nodes s);
  inv_len : llen s = length (unread s);
  inv_src : src_ok (lsrc s)
}.

(* ---------- lists ---------- *)
Lemma skipn_add {A} (a b : nat) (l : list A) : skipn a (skipn b l) = skipn (b + a) l.
Proof.
  revert l; induction b as [|b IH]; intros l; [reflexivity|].
  destruct l; [rewrite !skipn_nil; reflexivity|]. cbn [skipn Nat.add]. apply IH.
Qed.

Lemma upd_last_app f pre w : upd_last f (pre ++ [w]) = pre ++ [f w].
Proof. unfold upd_last. rewrite rev_app_distr. cbn [rev app]. rewrite rev_involutive. reflexivity. Qed.

Lemma split_last (l : list node) : l <> [] -> exists pre, l = pre ++ [last l dummy].
Proof. intros H. exists (removelast l). apply app_removelast_last. exact H. Qed.

Lemma skipn_pre {A} (pre l : list A) k : skipn (length pre + k) (pre ++ l) = skipn k l.
Proof. induction pre as [|x pre IH]; [reflexivity|]. cbn [length Nat.add app skipn]. exact IH. Qed.

Lemma cat_last ridx pre (x : node) : ridx <= length pre ->
  concat (map navail (skipn ridx (pre ++ [x]))) = concat (map navail (skipn ridx pre)) ++ navail x.
Proof.
  intros H. rewrite skipn_app. replace (ridx - length pre) with 0 by lia. cbn [skipn].
  rewrite map_app, concat_app. cbn [map concat]. rewrite app_nil_r. reflexivity.
Qed.

(* ---------- nodes ---------- *)
Lemma nlen_navail n : nlen n = length (navail n).
Proof. unfold nlen, navail. rewrite skipn_length. reflexivity. Qed.

Lemma navail_add_off k n : navail (add_off k n) = skipn k (navail n).
Proof. unfold navail, add_off; cbn [ndata noff]. rewrite skipn_add. reflexivity. Qed.

Lemma navail_add_data b n : noff n <= length (ndata n) -> navail (add_data b n) = navail n ++ b.
Proof.
  intros H. unfold navail, add_data; cbn [ndata noff]. rewrite skipn_app.
  replace (noff n - length (ndata n)) with 0 by lia. reflexivity.
Qed.

Lemma navail_set_ro v n : navail (set_ro v n) = navail n.
Proof. reflexivity. Qed.
Lemma node_ok_set_ro v n : node_ok n -> node_ok (set_ro v n).
Proof. intros H; exact H. Qed.

Lemma map_navail_set_ro v l : map navail (map (set_ro v) l) = map navail l.
Proof. rewrite map_map. apply map_ext. intros; reflexivity. Qed.

(* ---------- peekBuffer ---------- *)
Lemma gather_spec : forall ns i, i <= length (concat (map navail ns)) ->
  gather i ns = firstn i (concat (map navail ns)).
Proof.
  induction ns as [|n r IH]; intros i H; cbn [gather map concat].
  - cbn in H. destruct i; [reflexivity|lia].
  - rewrite nlen_navail. cbn [map concat] in H. rewrite app_length in H.
    destruct (Nat.leb_spec i (length (navail n))) as [L|L].
    + rewrite firstn_app. replace (i - length (navail n)) with 0 by lia. cbn [firstn]. rewrite app_nil_r. reflexivity.
    + rewrite firstn_app, (firstn_all2 (navail n)) by lia. f_equal. apply IH. lia.
Qed.

(* ---------- the loop of Skip ---------- *)
Lemma skip_nodes_spec : forall ns ack, Forall node_ok ns -> 0 < ack -> ack <= length (concat (map navail ns)) ->
  exists ns' k, skip_nodes ack ns = Some (ns', k) /\ k < length ns /\ length ns' = length ns /\ Forall node_ok ns' /\
                concat (map navail (skipn k ns')) = skipn ack (concat (map navail ns)).
Proof.
  induction ns as [|n r IH]; intros ack F P H; cbn [skip_nodes map concat] in *.
  - cbn in H; lia.
  - inversion F as [|? ? Hn Hr]; subst. rewrite nlen_navail. rewrite app_length in H.
    destruct (Nat.leb_spec ack (length (navail n))) as [L|L].
    + exists (add_off ack n :: r), 0. split; [reflexivity|]. cbn [length skipn map concat].
      split; [lia|]. split; [reflexivity|]. split.
      * constructor; [|exact Hr]. rewrite <- nlen_navail in L. unfold nlen in L.
        destruct Hn as [H1 H2]. unfold node_ok, add_off; cbn [ndata noff ncap]. lia.
      * rewrite navail_add_off, skipn_app. replace (ack - length (navail n)) with 0 by lia. reflexivity.
    + destruct (IH (ack - length (navail n)) Hr) as (r' & k & E & K & Len & F' & C); [lia|lia|].
      rewrite E. exists (n :: r'), (S k). split; [reflexivity|]. cbn [length skipn].
      split; [lia|]. split; [lia|]. split; [constructor; assumption|].
      rewrite C, skipn_app, (skipn_all2 (navail n)) by lia. reflexivity.
Qed.

Lemma unread_len_zero s : Inv s -> llen s = 0 -> unread s = [].
Proof. intros I H. apply length_zero_iff_nil. rewrite <- (inv_len s I). exact H. Qed.

Lemma firstn_len_pre (s : lb) : ridx s < length (nodes s) -> length (firstn (ridx s) (nodes s)) = ridx s.
Proof. intros H. apply firstn_length_le. lia. Qed.

Lemma lb_skip_spec n s : Inv s ->
  match lb_skip n s with
  | SkOk s' => Inv s' /\ n <= llen s /\ unread s = firstn n (unread s) ++ unread s' /\ lsrc s' = lsrc s
  | SkShort => llen s < n
  | SkCrash => False
  end.
Proof.
  intros I. unfold lb_skip. destruct (Nat.ltb_spec (llen s) n) as [L|L]; [exact L|].
  destruct (Nat.eqb_spec n 0) as [->|N0].
  { split; [exact I|]. split; [lia|]. split; reflexivity. }
  pose proof (inv_ridx s I) as R. pose proof (inv_len s I) as Ln.
  assert (F : Forall node_ok (skipn (ridx s) (nodes s))).
  { pose proof (inv_nodes s I) as F0. rewrite <- (firstn_skipn (ridx s) (nodes s)) in F0. apply Forall_app in F0. tauto. }
  destruct (skip_nodes_spec (skipn (ridx s) (nodes s)) n F) as (ns' & k & E & K & Len & F' & C); [lia|unfold unread in Ln; lia|].
  rewrite E. split; [|split; [lia|split; [|reflexivity]]].
  - constructor; cbn [nodes ridx llen lsrc].
    + rewrite app_length, firstn_len_pre, Len, skipn_length by exact R. rewrite skipn_length in K. lia.
    + apply Forall_app. split; [|exact F'].
      pose proof (inv_nodes s I) as F0. rewrite <- (firstn_skipn (ridx s) (nodes s)) in F0. apply Forall_app in F0. tauto.
    + unfold unread; cbn [nodes ridx].
      replace (ridx s + k) with (length (firstn (ridx s) (nodes s)) + k) by (rewrite firstn_len_pre by exact R; reflexivity).
      rewrite skipn_pre, C, skipn_length. unfold unread in Ln. lia.
    + exact (inv_src s I).
  - unfold unread at 3; cbn [nodes ridx].
    replace (ridx s + k) with (length (firstn (ridx s) (nodes s)) + k) by (rewrite firstn_len_pre by exact R; reflexivity).
    rewrite skipn_pre, C. unfold unread. rewrite firstn_skipn. reflexivity.
Qed.

(* ---------- Release ---------- *)
Lemma rel_generic_spec s M : Inv s ->
  let g := {| nodes := upd_last (set_ro true) (skipn (ridx s) (nodes s)); ridx := 0; llen := llen s;
              maxsz := M; lsrc := lsrc s; lerr := lerr s |} in
  Inv g /\ unread g = unread s /\ lsrc g = lsrc s.
Proof.
  intros I g. pose proof (inv_ridx s I) as R.
  assert (NE : skipn (ridx s) (nodes s) <> []).
  { intros E. apply (f_equal (@length node)) in E. rewrite skipn_length in E. cbn in E. lia. }
  destruct (split_last _ NE) as [pre P].
  assert (F : Forall node_ok (skipn (ridx s) (nodes s))).
  { pose proof (inv_nodes s I) as F0. rewrite <- (firstn_skipn (ridx s) (nodes s)) in F0. apply Forall_app in F0. tauto. }
  assert (U : unread g = unread s).
  { unfold unread, g; cbn [nodes ridx skipn]. rewrite P, upd_last_app, !map_app, !concat_app. reflexivity. }
  split; [|split; [exact U|reflexivity]].
  constructor.
  - unfold g; cbn [nodes ridx]. rewrite P, upd_last_app, app_length. cbn. lia.
  - unfold g; cbn [nodes]. rewrite P, upd_last_app. rewrite P in F. apply Forall_app in F. destruct F as [F1 F2].
    apply Forall_app. split; [exact F1|]. inversion F2; subst. constructor; [apply node_ok_set_ro; assumption|constructor].
  - rewrite U. exact (inv_len s I).
  - exact (inv_src s I).
Qed.

Lemma node_ok_fresh n : ndata n = [] -> noff n = 0 -> node_ok n.
Proof. intros H1 H2. unfold node_ok. rewrite H1, H2. cbn. lia. Qed.

Lemma lb_release_spec s : Inv s ->
  Inv (lb_release s) /\ unread (lb_release s) = unread s /\ lsrc (lb_release s) = lsrc s.
Proof.
  intros I. pose proof (inv_ridx s I) as R. unfold lb_release.
  destruct (nodes s) as [|h [|w [|c l]]] eqn:N.
  - cbn in R. lia.
  - cbn in R. assert (R0 : ridx s = 0) by lia.
    destruct (Nat.eqb_spec (llen s) 0) as [Z|Z].
    + pose proof (unread_len_zero s I Z) as U.
      split; [|split; [|reflexivity]].
      * constructor; unfold with_nodes; cbn [nodes ridx llen lsrc]; [cbn; lia|constructor; [apply node_ok_fresh; reflexivity|constructor]| |exact (inv_src s I)].
        unfold unread; cbn [nodes ridx]. rewrite R0. cbn. exact Z.
      * rewrite U. unfold unread, with_nodes; cbn [nodes ridx]. rewrite R0. reflexivity.
    + assert (U : unread (with_nodes [set_ro true h] s) = unread s).
      { unfold unread, with_nodes; cbn [nodes ridx]. rewrite N, R0. reflexivity. }
      split; [|split; [exact U|reflexivity]].
      constructor; [cbn; lia| |rewrite U; exact (inv_len s I)|exact (inv_src s I)].
      pose proof (inv_nodes s I) as F. rewrite N in F. inversion F; subst. constructor; [apply node_ok_set_ro; assumption|constructor].
  - destruct (Nat.eqb_spec (llen s) 0) as [Z|Z].
    + pose proof (unread_len_zero s I Z) as U.
      assert (A : navail (if mallocMax <? ncap w
                          then new_node (Nat.max (maxsz s) (Nat.min (length (ndata h) + length (ndata w)) mallocMax))
                          else reset_node w) = []).
      { destruct (mallocMax <? ncap w); reflexivity. }
      split; [|split; [|reflexivity]].
      * constructor; cbn [nodes ridx llen lsrc]; [cbn; lia| | |exact (inv_src s I)].
        -- constructor; [|constructor]. destruct (mallocMax <? ncap w); apply node_ok_fresh; reflexivity.
        -- unfold unread; cbn [nodes ridx skipn map concat]. rewrite A. cbn. exact Z.
      * rewrite U. unfold unread; cbn [nodes ridx skipn map concat]. rewrite A. reflexivity.
    + pose proof (rel_generic_spec s (Nat.max (maxsz s) (Nat.min (sum_malloc (firstn (ridx s) (tl (nodes s)))) mallocMax)) I) as G.
      rewrite N in G. exact G.
  - pose proof (rel_generic_spec s (Nat.max (maxsz s) (Nat.min (sum_malloc (firstn (ridx s) (tl (nodes s)))) mallocMax)) I) as G.
    rewrite N in G. exact G.
Qed.

(* ---------- fill ---------- *)
Lemma cap_of_ge size : size <= cap_of size.
Proof.
  unfold cap_of. destruct (mallocMax <? size); [lia|].
  assert (H : (N.of_nat size <= 2 ^ N.log2_up (N.of_nat size))%N).
  { destruct (N.lt_ge_cases 1 (N.of_nat size)) as [L|L].
    - apply N.log2_up_spec. exact L.
    - rewrite N.log2_up_eqn0 by exact L. cbn. exact L. }
  lia.
Qed.

Lemma src_read_spec room src : src_ok src ->
  let '(b, e, src') := src_read room src in
  srcbytes src = b ++ srcbytes src' /\ length b <= room /\ src_ok src' /\ (0 < room -> b = [] -> e = true).
Proof.
  intros OK. destruct src as [|x rest]; cbn [src_read].
  - split; [reflexivity|]. split; [cbn; lia|]. split; [constructor|]. intros _ _. reflexivity.
  - inversion OK as [|? ? Hx Hr]; subst.
    destruct (Nat.leb_spec (length (rbytes x)) room) as [L|L].
    + split; [reflexivity|]. split; [exact L|]. split; [exact Hr|]. intros _ E. destruct Hx as [Hx|Hx]; [congruence|exact Hx].
    + unfold srcbytes; cbn [map concat rbytes]. rewrite app_assoc, firstn_skipn. split; [reflexivity|].
      split; [rewrite firstn_length; lia|]. split.
      * constructor; [|exact Hr]. left; cbn [rbytes]. intros E. apply (f_equal (@length byte)) in E.
        rewrite skipn_length in E. cbn in E. lia.
      * intros P E. apply (f_equal (@length byte)) in E. rewrite firstn_length in E. cbn in E. lia.
Qed.

Lemma fill_loop_spec : forall fuel need w len src w' len' src' st e,
  need < fuel -> need <= ncap w - length (ndata w) -> length (ndata w) <= ncap w -> src_ok src ->
  fill_loop fuel need w len src = (w', len', src', st, e) ->
  exists b, ndata w' = ndata w ++ b /\ ncap w' = ncap w /\ noff w' = noff w /\ len' = len + length b /\
            srcbytes src = b ++ srcbytes src' /\ length (ndata w') <= ncap w' /\ src_ok src' /\ e <> FStuck /\
            (e = FNil -> st = true \/ need <= length b).
Proof.
  induction fuel as [|f IH]; intros need w len src w' len' src' st e Hf Hroom Hcap OK E; [lia|].
  cbn [fill_loop] in E. destruct (Nat.eqb_spec need 0) as [Z|Z].
  { inversion E; subst. exists []. rewrite !app_nil_r. cbn. repeat split; try lia; try assumption; try discriminate; try (intros _; right; lia). }
  destruct (Nat.eqb_spec (ncap w - length (ndata w)) 0) as [R0|R0]; [lia|].
  pose proof (src_read_spec (ncap w - length (ndata w)) src OK) as SR.
  destruct (src_read (ncap w - length (ndata w)) src) as [[b e0] src0].
  destruct SR as (S1 & S2 & S3 & S4).
  destruct b as [|c b].
  - inversion E; subst. exists []. rewrite !app_nil_r. cbn. rewrite S4 by (try lia; reflexivity).
    repeat split; try lia; try assumption; try discriminate; destruct e0; discriminate.
  - destruct e0.
    + inversion E; subst. exists (c :: b). unfold add_data; cbn [ndata ncap noff].
      repeat split; try assumption; try reflexivity; try discriminate; try (intros _; left; reflexivity).
      rewrite app_length; cbn [length] in *; lia.
    + apply IH in E; [| cbn [length]; lia | unfold add_data; cbn [ndata ncap]; rewrite app_length; cbn [length] in *; lia
                       | unfold add_data; cbn [ndata ncap]; rewrite app_length; cbn [length] in *; lia | exact S3].
      destruct E as (b2 & E1 & E2 & E3 & E4 & E5 & E6 & E7 & E8 & E9).
      exists ((c :: b) ++ b2). unfold add_data in *; cbn [ndata ncap noff] in *.
      repeat split; try assumption.
      * rewrite E1, app_assoc. reflexivity.
      * rewrite E4, app_length. lia.
      * rewrite S1, E5, app_assoc. reflexivity.
      * intros X. destruct (E9 X) as [Y|Y]; [left; exact Y|right; rewrite app_length; lia].
Qed.

Lemma Inv_with_err e s : Inv s -> Inv (with_err e s).
Proof. intros I. constructor; [exact (inv_ridx s I)|exact (inv_nodes s I)|exact (inv_len s I)|exact (inv_src s I)]. Qed.

Lemma nodes_split s : Inv s -> exists pre, nodes s = pre ++ [wnode s] /\ ridx s <= length pre.
Proof.
  intros I. pose proof (inv_ridx s I) as R.
  assert (NE : nodes s <> []) by (intros E; rewrite E in R; cbn in R; lia).
  destruct (split_last _ NE) as [pre P]. exists pre. split; [exact P|].
  rewrite P, app_length in R. cbn in R. lia.
Qed.

(* where fill reads into: the list ends with a node that has room for what is still needed *)
Lemma fill_target i s : Inv s -> llen s < i ->
  let w := wnode s in
  let ns := if (ncap w - length (ndata w) <? i - llen s) || nro w
            then upd_last (set_ro false) (nodes s) ++ [new_node (if i <? maxsz s then maxsz s else i)]
            else nodes s in
  exists pre1 w1, ns = pre1 ++ [w1] /\ ridx s <= length pre1 /\ Forall node_ok pre1 /\ node_ok w1 /\
                  concat (map navail (skipn (ridx s) pre1)) ++ navail w1 = unread s /\
                  i - llen s <= ncap w1 - length (ndata w1).
Proof.
  intros I L w ns. destruct (nodes_split s I) as (pre & P & R).
  pose proof (inv_nodes s I) as F. rewrite P in F. apply Forall_app in F. destruct F as [F1 F2]. inversion F2 as [|? ? Hw _]; subst.
  assert (U : concat (map navail (skipn (ridx s) pre)) ++ navail (wnode s) = unread s).
  { unfold unread. rewrite <- (cat_last (ridx s) pre (wnode s)) by exact R. rewrite <- P. reflexivity. }
  subst ns. destruct ((ncap w - length (ndata w) <? i - llen s) || nro w) eqn:C.
  - exists (pre ++ [set_ro false w]), (new_node (if i <? maxsz s then maxsz s else i)).
    split; [rewrite P, upd_last_app; reflexivity|]. split; [rewrite app_length; cbn; lia|].
    split; [apply Forall_app; split; [exact F1|constructor; [apply node_ok_set_ro; exact Hw|constructor]]|].
    split; [apply node_ok_fresh; reflexivity|]. split.
    + rewrite cat_last by exact R. rewrite navail_set_ro. unfold navail at 3; cbn. rewrite app_nil_r. exact U.
    + cbn [new_node ncap ndata length]. pose proof (cap_of_ge (if i <? maxsz s then maxsz s else i)) as G.
      destruct (Nat.ltb_spec i (maxsz s)); lia.
  - exists pre, w. split; [exact P|]. split; [exact R|]. split; [exact F1|]. split; [exact Hw|]. split; [exact U|].
    apply orb_false_iff in C. destruct C as [C _]. apply Nat.ltb_ge in C. exact C.
Qed.

Lemma lb_fill_spec i s : Inv s ->
  let '(s', e) := lb_fill i s in
  Inv s' /\ e <> FStuck /\ ridx s' = ridx s /\ lstream s' = lstream s /\ (exists t, unread s' = unread s ++ t) /\
  (e = FNil -> i <= llen s' \/ lerr s' = true).
Proof.
  intros I. unfold lb_fill. destruct (Nat.leb_spec i (llen s)) as [L|L].
  { split; [exact I|]. split; [discriminate|]. split; [reflexivity|]. split; [reflexivity|]. split; [exists []; rewrite app_nil_r; reflexivity|]. intros _; left; exact L. }
  destruct (lerr s) eqn:LE.
  { destruct (0 <? llen s).
    - split; [exact I|]. split; [discriminate|]. split; [reflexivity|]. split; [reflexivity|]. split; [exists []; rewrite app_nil_r; reflexivity|]. intros _; right; exact LE.
    - split; [apply Inv_with_err; exact I|]. split; [discriminate|]. split; [reflexivity|]. split; [reflexivity|]. split; [exists []; rewrite app_nil_r; reflexivity|]. discriminate. }
  destruct (fill_target i s I L) as (pre1 & w1 & Ens & R1 & F1 & Hw1 & U1 & Room).
  cbv zeta. rewrite Ens, last_last.
  destruct (fill_loop (S (i - llen s)) (i - llen s) w1 (llen s) (lsrc s)) as [[[[w2 len2] src2] st] e] eqn:FL.
  destruct Hw1 as [Ho Hc].
  apply fill_loop_spec in FL; [|lia|exact Room|exact Hc|exact (inv_src s I)].
  destruct FL as (b & D1 & D2 & D3 & D4 & D5 & D6 & D7 & D8 & D9).
  assert (A : navail w2 = navail w1 ++ b).
  { unfold navail. rewrite D1, D3, skipn_app. replace (noff w1 - length (ndata w1)) with 0 by lia. reflexivity. }
  assert (U : unread {| nodes := upd_last (fun _ => w2) (pre1 ++ [w1]); ridx := ridx s; llen := len2; maxsz := maxsz s; lsrc := src2; lerr := st |} = unread s ++ b).
  { unfold unread; cbn [nodes ridx]. rewrite upd_last_app, cat_last by exact R1. rewrite A, app_assoc, U1. reflexivity. }
  split; [|split; [exact D8|split; [reflexivity|split; [|split; [exists b; exact U|]]]]].
  - constructor; cbn [nodes ridx llen lsrc].
    + rewrite upd_last_app, app_length. cbn. lia.
    + rewrite upd_last_app. apply Forall_app. split; [exact F1|]. constructor; [|constructor].
      unfold node_ok. rewrite D3. split; [rewrite D1, app_length; lia|exact D6].
    + rewrite U, app_length, D4, (inv_len s I). reflexivity.
    + exact D7.
  - unfold lstream. rewrite U. cbn [lsrc]. rewrite <- app_assoc, <- D5. reflexivity.
  - intros X. cbn [llen lerr]. destruct (D9 X) as [Y|Y]; [right; exact Y|left; lia].
Qed.

(* ---------- Peek ---------- *)
Lemma lb_peek_spec i s : Inv s ->
  match lb_peek i s with
  | PkOk b e s' => Inv s' /\ lstream s' = lstream s /\ b = firstn (length b) (unread s') /\
                   (e = false -> length b = i) /\ length b <= i
  | PkStuck => False
  end.
Proof.
  intros I. unfold lb_peek. pose proof (lb_fill_spec i s I) as F. destruct (lb_fill i s) as [s1 e].
  destruct F as (I1 & NS & _ & St & _ & Post).
  destruct e; [|split; [exact I1|split; [exact St|cbn; split; [reflexivity|split; [discriminate|lia]]]]|congruence].
  pose proof (inv_len s1 I1) as Ln.
  destruct (Nat.ltb_spec (llen s1) i) as [L|L].
  - rewrite gather_spec by (unfold unread in Ln; lia).
    assert (E : length (firstn (llen s1) (concat (map navail (skipn (ridx s1) (nodes s1))))) = llen s1)
      by (apply firstn_length_le; unfold unread in Ln; lia).
    split; [apply Inv_with_err; exact I1|]. split; [exact St|].
    split; [rewrite E; reflexivity|]. rewrite E. split; [|lia].
    intros X. destruct (Post eq_refl) as [Y|Y]; [lia|congruence].
  - rewrite gather_spec by (unfold unread in Ln; lia).
    assert (E : length (firstn i (concat (map navail (skipn (ridx s1) (nodes s1))))) = i)
      by (apply firstn_length_le; unfold unread in Ln; lia).
    split; [exact I1|]. split; [exact St|]. split; [rewrite E; reflexivity|]. split; [intros _; exact E|lia].
Qed.

(* ---------- composite operations ---------- *)
(* what an operation hands to the caller as consumed bytes (a Skip consumes what a Peek would have shown) *)
Definition lconsume (o : lop) (s : lb) : option (bs * lb) :=
  match o with
  | LPeek n => match lb_peek n s with PkOk _ _ s' => Some ([], s') | PkStuck => None end
  | LSkip n => match lb_skip n s with SkOk s' => Some (firstn n (unread s), s') | SkShort => Some ([], s) | SkCrash => None end
  | LReadByte => match lb_read_byte s with ROk b false s' => Some (b, s') | ROk _ true s' => Some ([], s') | RCrash => None end
  | LReadBinary n => match lb_read_binary n s with ROk b false s' => Some (b, s') | ROk _ true s' => Some ([], s') | RCrash => None end
  | LLen => Some ([], s)
  | LRelease => Some ([], lb_release s)
  | LRead n => match lb_read n s with ROk b _ s' => Some (b, s') | RCrash => None end
  end.

Fixpoint lrun (ops : list lop) (s : lb) : option (bs * lb) :=
  match ops with
  | [] => Some ([], s)
  | o :: rest =>
      match lconsume o s with
      | Some (c, s1) => match lrun rest s1 with Some (c', s2) => Some (c ++ c', s2) | None => None end
      | None => None
      end
  end.

Definition step_ok (s : lb) (r : option (bs * lb)) : Prop :=
  match r with Some (c, s') => Inv s' /\ lstream s = c ++ lstream s' | None => False end.

Lemma skip_stream n s : Inv s ->
  match lb_skip n s with
  | SkOk s' => Inv s' /\ lstream s = firstn n (unread s) ++ lstream s' /\ n <= llen s
  | SkShort => llen s < n
  | SkCrash => False
  end.
Proof.
  intros I. pose proof (lb_skip_spec n s I) as H. destruct (lb_skip n s) as [s'| |]; [|exact H|exact H].
  destruct H as (I' & L & U & Sr). split; [exact I'|]. split; [|exact L].
  unfold lstream. rewrite Sr, app_assoc, <- U. reflexivity.
Qed.

Lemma read_n_spec i s : Inv s ->
  step_ok s (match lb_read_binary i s with ROk b false s' => Some (b, s') | ROk _ true s' => Some ([], s') | RCrash => None end).
Proof.
  intros I. unfold lb_read_binary. pose proof (lb_peek_spec i s I) as P.
  destruct (lb_peek i s) as [b e s1|]; [|exact P]. destruct P as (I1 & St & Pre & Full & Le).
  destruct e.
  { cbn. split; [exact I1|]. rewrite St. reflexivity. }
  specialize (Full eq_refl). pose proof (skip_stream i s1 I1) as K.
  destruct (lb_skip i s1) as [s2| |].
  - destruct K as (I2 & K1 & K2). cbn. split; [exact I2|]. rewrite <- St, K1. f_equal. rewrite Full in Pre. rewrite Pre. reflexivity.
  - (* cannot happen: the peek returned i bytes, so i are buffered *)
    exfalso. pose proof (inv_len s1 I1) as Ln. rewrite Pre in Full. rewrite firstn_length in Full. lia.
  - exact K.
Qed.

Lemma read_byte_spec s : Inv s ->
  step_ok s (match lb_read_byte s with ROk b false s' => Some (b, s') | ROk _ true s' => Some ([], s') | RCrash => None end).
Proof.
  intros I. unfold lb_read_byte. pose proof (lb_peek_spec 1 s I) as P.
  destruct (lb_peek 1 s) as [b e s1|]; [|exact P]. destruct P as (I1 & St & Pre & Full & Le).
  destruct e.
  { cbn. split; [exact I1|]. rewrite St. reflexivity. }
  specialize (Full eq_refl). pose proof (skip_stream 1 s1 I1) as K.
  destruct (lb_skip 1 s1) as [s2| |].
  - destruct K as (I2 & K1 & K2). cbn. split; [exact I2|]. rewrite <- St, K1. f_equal.
    rewrite Full in Pre. rewrite <- Pre. destruct b as [|a [|a2 b]]; cbn in Full; try lia; reflexivity.
  - exfalso. pose proof (inv_len s1 I1) as Ln. rewrite Pre in Full. rewrite firstn_length in Full. lia.
  - exact K.
Qed.

Lemma next_spec l s : Inv s -> l <= llen s ->
  match lb_next l s with
  | ROk b e s' => e = false /\ Inv s' /\ lstream s = b ++ lstream s'
  | RCrash => False
  end.
Proof.
  intros I L. unfold lb_next. pose proof (skip_stream l s I) as K.
  destruct (lb_skip l s) as [s1| |]; [|lia|exact K].
  destruct K as (I1 & K1 & _). destruct (lb_release_spec s1 I1) as (I2 & U & Sr).
  split; [reflexivity|]. split; [exact I2|].
  rewrite gather_spec by (rewrite (inv_len s I) in L; exact L).
  rewrite K1. f_equal. unfold lstream. rewrite U, Sr. reflexivity.
Qed.

Lemma read_spec n s : Inv s -> step_ok s (match lb_read n s with ROk b _ s' => Some (b, s') | RCrash => None end).
Proof.
  intros I. unfold lb_read. destruct (Nat.ltb_spec 0 (llen s)) as [P|Z].
  { pose proof (next_spec (Nat.min (llen s) n) s I) as N. destruct (lb_next (Nat.min (llen s) n) s); [|apply N; lia].
    destruct N as (_ & I' & St); [lia|]. split; assumption. }
  destruct (Nat.leb_spec n block4k) as [Sm|Bg].
  - pose proof (lb_fill_spec 1 s I) as F. destruct (lb_fill 1 s) as [s1 e]. destruct F as (I1 & NS & _ & St & _ & _).
    destruct e; [|cbn; split; [exact I1|rewrite St; reflexivity]|congruence].
    pose proof (next_spec (Nat.min (llen s1) n) s1 I1) as N. destruct (lb_next (Nat.min (llen s1) n) s1); [|apply N; lia].
    destruct N as (_ & I' & St'); [lia|]. split; [exact I'|]. rewrite <- St, St'. reflexivity.
  - (* read straight from the connection: nothing is buffered *)
    pose proof (src_read_spec n (lsrc s) (inv_src s I)) as SR. destruct (src_read n (lsrc s)) as [[b e] src'].
    destruct SR as (S1 & _ & S3 & _).
    assert (U0 : unread s = []) by (apply unread_len_zero; [exact I|lia]).
    split.
    + constructor; [exact (inv_ridx s I)|exact (inv_nodes s I)|exact (inv_len s I)|exact S3].
    + unfold lstream, unread in *; cbn [nodes ridx lsrc]. rewrite U0, S1. reflexivity.
Qed.

Lemma lconsume_ok o s : Inv s -> step_ok s (lconsume o s).
Proof.
  intros I. destruct o as [n|n| |n| | |n]; cbn [lconsume].
  - pose proof (lb_peek_spec n s I) as P. destruct (lb_peek n s) as [b e s'|]; [|exact P].
    destruct P as (I' & St & _). split; [exact I'|]. rewrite St. reflexivity.
  - pose proof (skip_stream n s I) as K. destruct (lb_skip n s) as [s'| |]; [|split; [exact I|reflexivity]|exact K].
    destruct K as (I' & K1 & _). split; assumption.
  - apply read_byte_spec; exact I.
  - apply read_n_spec; exact I.
  - split; [exact I|reflexivity].
  - destruct (lb_release_spec s I) as (I' & U & Sr). split; [exact I'|]. unfold lstream. rewrite U, Sr. reflexivity.
  - apply read_spec; exact I.
Qed.

(* every operation sequence: no crash, no stuck read, and consumed ++ remaining = the stream *)
Theorem lb_fifo : forall ops s, Inv s -> step_ok s (lrun ops s).
Proof.
  induction ops as [|o rest IH]; intros s I; cbn [lrun].
  - split; [exact I|reflexivity].
  - pose proof (lconsume_ok o s I) as H. destruct (lconsume o s) as [[c s1]|]; [|exact H].
    destruct H as (I1 & St). specialize (IH s1 I1). destruct (lrun rest s1) as [[c' s2]|]; [|exact IH].
    destruct IH as (I2 & St2). split; [exact I2|]. rewrite St, St2, app_assoc. reflexivity.
Qed.

Lemma init_inv size src : src_ok src -> Inv (init_lb size src).
Proof.
  intros OK. constructor; cbn [init_lb nodes ridx llen lsrc]; [cbn; lia| |reflexivity|exact OK].
  constructor; [apply node_ok_fresh; reflexivity|constructor].
Qed.

Lemma init_stream size src : lstream (init_lb size src) = srcbytes src.
Proof. reflexivity. Qed.
