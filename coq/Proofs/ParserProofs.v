(* C03 proofs: the checked-access models of splitHostURI / getScheme and IsBadTrailer /
   SetTrailers never reach Panic, for every input. *)
From Coq Require Import String.
From Coq Require Import List Strings.Byte NArith Bool Arith Lia.
Require Import Bytes Show Res Tables UriSplit TrailerKeys.
Import ListNotations.

Lemma slice_to_ok s n : n <= length s -> slice_to s n = Ok (firstn n s).
Proof. intros H. unfold slice_to. apply Nat.leb_le in H. rewrite H. reflexivity. Qed.
Lemma slice_from_ok s n : n <= length s -> slice_from s n = Ok (skipn n s).
Proof. intros H. unfold slice_from. apply Nat.leb_le in H. rewrite H. reflexivity. Qed.

Lemma scheme_colon_bound : forall s i0 i, scheme_colon s i0 = Some i -> i0 <= i /\ i < i0 + length s.
Proof.
  induction s as [|c r IH]; intros i0 i H; simpl in H; [discriminate|].
  destruct (is_letter c).
  { apply IH in H. simpl. lia. }
  destruct (is_scheme_rest c).
  { destruct i0; [discriminate|]. apply IH in H. simpl. lia. }
  destruct (Byte.eqb c cColon); [|discriminate]. inversion H; subst. simpl. lia.
Qed.

Lemma get_scheme_ok raw : exists g, get_scheme raw = Ok g.
Proof.
  unfold get_scheme. destruct (scheme_colon raw 0) as [[|i]|] eqn:E; eauto.
  apply scheme_colon_bound in E. rewrite slice_to_ok, slice_from_ok by lia. simpl. eauto.
Qed.

Lemma has_prefix_len p s : has_prefix p s = true -> length p <= length s.
Proof.
  revert s; induction p as [|x p IH]; intros s H; simpl; [lia|].
  destruct s as [|y s]; simpl in H; [discriminate|]. apply andb_true_iff in H as [_ H]. apply IH in H. simpl. lia.
Qed.

Theorem split_host_uri_no_panic : forall host uri, exists r, split_host_uri host uri = Ok r.
Proof.
  intros host uri. unfold split_host_uri. destruct (get_scheme_ok uri) as [g ->]. cbn [rbind].
  destruct g as [[scheme path]|]; eauto.
  destruct (has_prefix str_slashslash path) eqn:P; cbn [negb]; eauto.
  apply has_prefix_len in P. rewrite slice_from_ok by exact P. cbn [rbind].
  set (u := skipn (length str_slashslash) path).
  destruct (index_byte x2f u) as [n|] eqn:I.
  - apply index_byte_lt in I. rewrite slice_to_ok, slice_from_ok by lia. simpl. eauto.
  - destruct (index_byte x3f u) as [n|] eqn:J; eauto.
    apply index_byte_lt in J. rewrite slice_to_ok, slice_from_ok by lia. simpl. eauto.
Qed.

Theorem is_bad_trailer_no_panic : forall key, exists b, is_bad_trailer key = Ok b.
Proof.
  intros key. unfold is_bad_trailer. destruct key as [|c0 k]; eauto.
  cbn [index nth_error rbind].
  repeat match goal with
  | |- exists r, (if Byte.eqb ?x ?y then _ else _) = _ => destruct (Byte.eqb x y)
  end; eauto.
  - destruct (length consts_HeaderContentType <=? length (c0 :: k)) eqn:L; eauto.
    apply Nat.leb_le in L. change (length consts_HeaderContentType) with 12 in L.
    rewrite (slice_to_ok (c0 :: k) 8) by lia. cbn [rbind].
    rewrite (slice_to_ok bytestr_StrContentType 8) by (vm_compute; lia). cbn [rbind].
    destruct (ci_compare _ _); eauto.
    rewrite (slice_from_ok (c0 :: k) 8) by lia. cbn [rbind].
    rewrite (slice_from_ok bytestr_StrContentEncoding 8) by (vm_compute; lia).
    rewrite (slice_from_ok bytestr_StrContentLength 8) by (vm_compute; lia).
    rewrite (slice_from_ok bytestr_StrContentType 8) by (vm_compute; lia).
    rewrite (slice_from_ok bytestr_StrContentRange 8) by (vm_compute; lia).
    cbn [rbind]. eauto.
  - destruct (length consts_HeaderProxyConnection <=? length (c0 :: k)) eqn:L; eauto.
    apply Nat.leb_le in L. change (length consts_HeaderProxyConnection) with 16 in L.
    rewrite (slice_to_ok (c0 :: k) 6) by lia. cbn [rbind].
    rewrite (slice_to_ok bytestr_StrProxyConnection 6) by (vm_compute; lia). cbn [rbind].
    destruct (ci_compare _ _); eauto.
    rewrite (slice_from_ok (c0 :: k) 6) by lia. cbn [rbind].
    rewrite (slice_from_ok bytestr_StrProxyConnection 6) by (vm_compute; lia).
    rewrite (slice_from_ok bytestr_StrProxyAuthenticate 6) by (vm_compute; lia).
    rewrite (slice_from_ok bytestr_StrProxyAuthorization 6) by (vm_compute; lia).
    cbn [rbind]. eauto.
Qed.

Theorem set_trailers_no_panic : forall s, set_trailers s <> Panic.
Proof.
  intros s. unfold set_trailers. destruct s as [|c0 s0]; [discriminate|].
  generalize (S (length (c0 :: s0))) as fuel. generalize (@nil bs) as acc. generalize (c0 :: s0) as t.
  intros t acc fuel. revert t acc. induction fuel as [|f IH]; intros t acc; [discriminate|].
  cbn [set_trailers_loop]. destruct (next_elem t) as [e rest].
  destruct (is_bad_trailer_no_panic (normalize_header_key (trim e))) as [b ->]. cbn [rbind].
  destruct rest as [[|x r]|]; try discriminate. apply IH.
Qed.
