From Coq Require Import String.
From Coq Require Import List Strings.Byte NArith ZArith Bool Arith Lia.
Require Import Bytes Show Tables Codec Chunk ChunkProofs RespFrame.
Import ListNotations.
Open Scope Z_scope.

Theorem must_skip_spec : forall s : Z,
  must_skip_content_length s = true <-> (100 <= s < 200 \/ s = 204 \/ s = 304).
Proof.
  intros s. unfold must_skip_content_length.
  change status_StatusOK with 200. change status_StatusNotModified with 304. change status_StatusNoContent with 204.
  destruct (s <? 100) eqn:A; destruct (s =? 200) eqn:B; destruct (s =? 304) eqn:C;
  destruct (s =? 204) eqn:D; destruct (s <? 200) eqn:E; simpl; split; intros H; try discriminate; try reflexivity; lia.
Qed.

Lemma chunked_writer_as_enchunk writes :
  chunked_writer_body writes = enchunk (filter (fun p => negb (is_nil p)) writes).
Proof.
  unfold chunked_writer_body, enchunk. f_equal.
  induction writes as [|p ws IH]; simpl; auto. destruct p; simpl; auto. rewrite IH. reflexivity.
Qed.

Lemma concat_filter_nonempty writes : concat (filter (fun p => negb (is_nil p)) writes) = concat writes.
Proof. induction writes as [|p ws IH]; simpl; auto. destruct p; simpl; auto. rewrite IH. reflexivity. Qed.

(* whatever the pattern of writes (empty ones included), a chunked reader recovers exactly the
   concatenation of what was written and stops right behind the last chunk *)
Theorem chunked_writer_decodes : forall writes rest,
  Forall (fun p => (N.of_nat (length p) < 16 ^ 15)%N) writes ->
  dechunk (S (length (filter (fun p => negb (is_nil p)) writes))) 0 (chunked_writer_body writes ++ rest) []
  = DOk (concat writes) rest.
Proof.
  intros writes rest F. rewrite chunked_writer_as_enchunk, dechunk_enchunk.
  - simpl. rewrite concat_filter_nonempty. reflexivity.
  - clear rest. induction F as [|p ws Hp _ IH]; simpl; [constructor|].
    destruct p as [|c p']; simpl; auto. constructor; auto. split; [discriminate | exact Hp].
Qed.
