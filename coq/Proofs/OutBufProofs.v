(* C13, writer side: for every sequence of Malloc / WriteBinary / Flush the peer has received, after a Flush,
   exactly the concatenation of everything written so far, and no slice expression of the Go code leaves its
   buffer (the room recorded in outputBuffer.len is really there). *)
From Coq Require Import String.
From Coq Require Import List Strings.Byte NArith Bool Arith Lia ZifyN ZifyNat.
Require Import Bytes Show Rd LinkBuf LinkBufProofs OutBuf.
Import ListNotations.
Local Open Scope nat_scope.

Definition pending (s : ob) : bs := concat (map navail (onodes s)).
Definition wnode_o (s : ob) : node := last (onodes s) dummy.

Record OInv (s : ob) : Prop := {
  oi_nonempty : onodes s <> [];
  oi_nodes : Forall node_ok (onodes s);
  oi_room : oleft s <= ncap (wnode_o s) - length (ndata (wnode_o s))
}.

Definition payload (o : wop) : bs := match o with WMalloc b | WWrite b => b | WFlush => [] end.

Lemma pending_app l x : concat (map navail (l ++ [x])) = concat (map navail l) ++ navail x.
Proof. rewrite map_app, concat_app. cbn. rewrite app_nil_r. reflexivity. Qed.

Lemma ob_malloc_spec b s : OInv s ->
  OInv (ob_malloc b s) /\ pending (ob_malloc b s) = pending s ++ b /\ sent (ob_malloc b s) = sent s.
Proof.
  intros I. unfold ob_malloc. destruct (Nat.eqb_spec (length b) 0) as [Z|Z].
  { apply length_zero_iff_nil in Z. subst b. rewrite app_nil_r. auto. }
  destruct (split_last _ (oi_nonempty s I)) as [pre P].
  pose proof (oi_nodes s I) as F. rewrite P in F. apply Forall_app in F. destruct F as [F1 F2].
  inversion F2 as [|? ? Hw _]; subst. fold (wnode_o s) in *. pose proof (oi_room s I) as R.
  destruct (Nat.ltb_spec (length b) (oleft s)) as [L|L].
  - split; [|split; [|reflexivity]].
    + constructor; cbn [onodes oleft].
      * rewrite P, upd_last_app. intros E. apply (f_equal (@length node)) in E. rewrite app_length in E. cbn in E. lia.
      * rewrite P, upd_last_app. apply Forall_app. split; [exact F1|]. constructor; [|constructor].
        destruct Hw as [H1 H2]. unfold node_ok, add_data; cbn [ndata noff ncap]. rewrite app_length. lia.
      * unfold wnode_o; cbn [onodes]. rewrite P, upd_last_app, last_last. unfold add_data; cbn [ndata ncap].
        rewrite app_length. lia.
    + unfold pending; cbn [onodes]. rewrite P at 1. rewrite upd_last_app, pending_app.
      rewrite navail_add_data by (destruct Hw; assumption). rewrite app_assoc, <- pending_app, <- P. reflexivity.
  - set (size := if length b <? block4k then block4k else length b).
    assert (G : length b <= cap_of size).
    { pose proof (cap_of_ge size) as G. subst size. destruct (Nat.ltb_spec (length b) block4k); lia. }
    split; [|split; [|reflexivity]].
    + constructor; cbn [onodes oleft].
      * intros E. apply (f_equal (@length node)) in E. rewrite app_length in E. cbn in E. lia.
      * apply Forall_app. split; [exact (oi_nodes s I)|]. constructor; [|constructor].
        unfold node_ok; cbn [ndata noff ncap]. lia.
      * unfold wnode_o; cbn [onodes]. rewrite last_last. cbn [ncap ndata]. lia.
    + unfold pending; cbn [onodes]. rewrite pending_app. reflexivity.
Qed.

Lemma ob_write_spec b s : OInv s ->
  OInv (ob_write b s) /\ pending (ob_write b s) = pending s ++ b /\ sent (ob_write b s) = sent s.
Proof.
  intros I. unfold ob_write. destruct (length b <? block4k); [apply ob_malloc_spec; exact I|].
  split; [|split; [|reflexivity]].
  - constructor; cbn [onodes oleft].
    + intros E. apply (f_equal (@length node)) in E. rewrite app_length in E. cbn in E. lia.
    + apply Forall_app. split; [exact (oi_nodes s I)|]. constructor; [|constructor]. unfold node_ok; cbn [ndata noff ncap]. lia.
    + lia.
  - unfold pending; cbn [onodes]. rewrite pending_app. reflexivity.
Qed.

Lemma navail_nil_of_nlen n : nlen n = 0 -> navail n = [].
Proof. intros H. apply length_zero_iff_nil. rewrite <- nlen_navail. exact H. Qed.

Lemma ob_flush_spec s : OInv s ->
  OInv (ob_flush s) /\ pending (ob_flush s) = [] /\ sent (ob_flush s) = sent s ++ pending s.
Proof.
  intros I. unfold ob_flush. pose proof (oi_nonempty s I) as NE. pose proof (oi_nodes s I) as F. pose proof (oi_room s I) as R.
  unfold wnode_o in R. destruct (onodes s) as [|h r] eqn:N; [congruence|].
  destruct ((match r with [] => true | _ => false end) && (nlen h =? 0)) eqn:C.
  { apply andb_true_iff in C. destruct C as [C1 C2]. destruct r; [|discriminate]. apply Nat.eqb_eq in C2.
    split; [constructor; [rewrite N; discriminate|rewrite N; exact F|unfold wnode_o; rewrite N; exact R]|].
    unfold pending. rewrite N. cbn. rewrite (navail_nil_of_nlen h C2). rewrite !app_nil_r. auto. }
  set (ns := if nlen h =? 0 then r else h :: r).
  assert (NSne : ns <> []).
  { subst ns. destruct (Nat.eqb_spec (nlen h) 0) as [Z|Z]; [|discriminate]. destruct r; [|discriminate].
    cbn in C. discriminate. }
  assert (Lw : last ns dummy = last (h :: r) dummy).
  { subst ns. destruct (nlen h =? 0); [|reflexivity]. destruct r; [congruence|reflexivity]. }
  assert (Pn : concat (map navail ns) = concat (map navail (h :: r))).
  { subst ns. destruct (Nat.eqb_spec (nlen h) 0) as [Z|Z]; [|reflexivity]. cbn [map concat]. rewrite (navail_nil_of_nlen h Z). reflexivity. }
  assert (Fw : node_ok (last (h :: r) dummy)).
  { destruct (split_last (h :: r)) as [pre P]; [discriminate|]. rewrite P in F. apply Forall_app in F. destruct F as [_ F2]. inversion F2; assumption. }
  rewrite Lw. set (w := last (h :: r) dummy) in *.
  split; [|split].
  - destruct (recyclable w) eqn:Rc; constructor; cbn [onodes oleft]; try discriminate.
    + constructor; [apply node_ok_fresh; reflexivity|constructor].
    + unfold wnode_o; cbn [onodes last reset_node ncap ndata length]. lia.
    + constructor; [|constructor]. destruct Fw as [H1 H2]. unfold node_ok, flushed; cbn [ndata noff ncap]. lia.
    + unfold wnode_o; cbn [onodes last flushed ncap ndata]. exact R.
  - unfold pending; cbn [onodes map concat]. destruct (recyclable w); [reflexivity|].
    unfold navail, flushed; cbn [ndata noff]. rewrite skipn_all. reflexivity.
  - cbn [sent]. rewrite Pn. unfold pending. rewrite N. reflexivity.
Qed.

Lemma wstep_spec o s : OInv s ->
  OInv (wstep o s) /\ sent (wstep o s) ++ pending (wstep o s) = sent s ++ pending s ++ payload o /\
  (o = WFlush -> pending (wstep o s) = []).
Proof.
  intros I. destruct o as [b|b|]; cbn [wstep payload].
  - destruct (ob_malloc_spec b s I) as (I' & P & S). split; [exact I'|]. split; [rewrite P, S; reflexivity|discriminate].
  - destruct (ob_write_spec b s I) as (I' & P & S). split; [exact I'|]. split; [rewrite P, S; reflexivity|discriminate].
  - destruct (ob_flush_spec s I) as (I' & P & S). split; [exact I'|]. split; [rewrite P, S, !app_nil_r; reflexivity|intros _; exact P].
Qed.

Lemma ob_init_inv : OInv ob_init.
Proof.
  constructor; cbn [ob_init onodes oleft]; [discriminate|constructor; [apply node_ok_fresh; reflexivity|constructor]|lia].
Qed.

(* every operation sequence: what the peer has received plus what is still buffered is the concatenation of
   everything written *)
Theorem writer_fifo : forall ops s, OInv s ->
  OInv (wrun ops s) /\ sent (wrun ops s) ++ pending (wrun ops s) = sent s ++ pending s ++ concat (map payload ops).
Proof.
  induction ops as [|o r IH]; intros s I; cbn [wrun map concat].
  - split; [exact I|]. rewrite app_nil_r. reflexivity.
  - destruct (wstep_spec o s I) as (I1 & E & _). destruct (IH _ I1) as (I2 & E2).
    split; [exact I2|]. rewrite E2, app_assoc, E, <- !app_assoc. reflexivity.
Qed.

(* by the time Flush returns the peer has everything *)
Theorem flush_delivers_everything : forall ops,
  sent (wrun (ops ++ [WFlush]) ob_init) = concat (map payload ops) /\ pending (wrun (ops ++ [WFlush]) ob_init) = [].
Proof.
  intros ops. assert (W : forall l s, wrun (l ++ [WFlush]) s = ob_flush (wrun l s)).
  { induction l as [|o l IH]; intros s; cbn [wrun app wstep]; [reflexivity|apply IH]. }
  rewrite W. destruct (writer_fifo ops ob_init ob_init_inv) as (I & E).
  destruct (ob_flush_spec _ I) as (_ & P & S). split; [|exact P].
  rewrite S, E. reflexivity.
Qed.
