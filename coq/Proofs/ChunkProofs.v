(* Chunk codec proofs: hex sizes read back, dechunk (enchunk cs) = concat cs for all chunk lists. *)
From Coq Require Import String.
From Coq Require Import List Strings.Byte NArith ZArith Lia Bool Arith ZifyN ZifyNat ZifyBool.
Require Import Bytes Show Tables Codec Chunk.
Import ListNotations.

Ltac Zify.zify_post_hook ::= Z.div_mod_to_equations.

Lemma hexval_lowerhex d : (d < 16)%N -> hexval (lowerhex d) = Some d.
Proof.
  intros H.
  assert (E : forallb (fun k => match hexval (lowerhex (N.of_nat k)) with Some v => N.eqb v (N.of_nat k) | None => false end) (seq 0 16) = true)
    by (vm_compute; reflexivity).
  rewrite forallb_forall in E. specialize (E (N.to_nat d)). rewrite N2Nat.id in E.
  assert (Hin : In (N.to_nat d) (seq 0 16)) by (apply in_seq; lia). specialize (E Hin).
  destruct (hexval (lowerhex d)) as [v|]; [|discriminate]. apply N.eqb_eq in E. congruence.
Qed.

Lemma hexval_CR : hexval CR = None. Proof. vm_compute. reflexivity. Qed.

Lemma max_hex_chars_val : max_hex_chars = 15. Proof. vm_compute. reflexivity. Qed.

(* digits produced for n < 16^m: at most m, all hex, value n *)
Lemma hex_digits_spec : forall fuel n acc m,
  (N.to_nat (N.log2 n) < fuel)%nat -> (n < 16 ^ N.of_nat m)%N -> (0 < m)%nat ->
  exists ds, hex_digits fuel n acc = ds ++ acc /\ (0 < length ds <= m)%nat /\
    forall a i rest, (i + length ds <= max_hex_chars)%nat ->
      read_hex_int (ds ++ rest) a i = read_hex_int rest (a * 16 ^ N.of_nat (length ds) + n)%N (i + length ds).
Proof.
  induction fuel as [|f IH]; intros n acc m Hf Hn Hm; [lia|]. cbn [hex_digits].
  destruct (N.div n 16 =? 0)%N eqn:E.
  - apply N.eqb_eq in E. assert (n < 16)%N by (clear -E; lia).
    exists [lowerhex (n mod 16)]. split; [reflexivity|]. split; [simpl; lia|].
    intros a i rest Hi. cbn [app read_hex_int length]. rewrite N.mod_small by lia.
    rewrite hexval_lowerhex by lia.
    assert (L : (max_hex_chars <=? i) = false) by (apply Nat.leb_gt; simpl in Hi; lia). rewrite L.
    replace (a * 16 ^ N.of_nat 1 + n)%N with (a * 16 + n)%N
      by (change (N.of_nat 1) with 1%N; rewrite N.pow_1_r; reflexivity).
    replace (i + 1)%nat with (S i) by lia. reflexivity.
  - apply N.eqb_neq in E.
    assert (H16 : (16 <= n)%N) by (clear -E; lia).
    assert (Hlog : (N.to_nat (N.log2 (n / 16)) < f)%nat).
    { assert (N.log2 (n / 16) < N.log2 n)%N.
      { change 16%N with (2^4)%N. rewrite <- N.shiftr_div_pow2, N.log2_shiftr.
        assert (4 <= N.log2 n)%N by (change 4%N with (N.log2 16); apply N.log2_le_mono; lia). lia. }
      lia. }
    destruct m as [|[|m']]; [lia| |].
    { change (16 ^ N.of_nat 1)%N with 16%N in Hn. lia. }
    assert (Hq : (n / 16 < 16 ^ N.of_nat (S m'))%N).
    { replace (N.of_nat (S (S m'))) with (N.succ (N.of_nat (S m'))) in Hn by lia.
      rewrite N.pow_succ_r' in Hn. apply N.div_lt_upper_bound; lia. }
    destruct (IH (n / 16)%N (lowerhex (n mod 16) :: acc) (S m') Hlog Hq ltac:(lia)) as (ds & E1 & L1 & R1).
    exists (ds ++ [lowerhex (n mod 16)]). split; [rewrite E1, <- app_assoc; reflexivity|].
    split; [rewrite app_length; simpl; lia|].
    intros a i rest Hi. rewrite app_length in Hi. simpl in Hi.
    rewrite <- app_assoc. rewrite R1 by lia. cbn [app read_hex_int].
    rewrite hexval_lowerhex by (apply N.mod_lt; lia).
    assert (L : (max_hex_chars <=? i + length ds) = false) by (apply Nat.leb_gt; lia). rewrite L.
    rewrite app_length. simpl length.
    replace (i + (length ds + 1))%nat with (S (i + length ds)) by lia.
    f_equal.
    replace (N.of_nat (length ds + 1)) with (N.succ (N.of_nat (length ds))) by lia.
    rewrite N.pow_succ_r'. pose proof (N.div_mod n 16). nia.
Qed.

(* a rendered chunk size, followed by CR, reads back exactly *)
Theorem read_write_hex : forall n rest, (n < 16 ^ 15)%N ->
  read_hex_int (write_hex n ++ CR :: rest) 0 0 = HexOk n (CR :: rest).
Proof.
  intros n rest Hn. unfold write_hex.
  destruct (hex_digits_spec (S (N.to_nat (N.log2 n))) n [] 15 (Nat.lt_succ_diag_r _) Hn ltac:(lia))
    as (ds & E & L & R).
  rewrite E, app_nil_r. rewrite R by (rewrite max_hex_chars_val; lia).
  cbn [read_hex_int]. rewrite hexval_CR. simpl plus.
  destruct (length ds) eqn:Ld; [lia|]. f_equal.
Qed.

Lemma parse_write_chunk_size n rest : (n < 16 ^ 15)%N ->
  parse_chunk_size (write_hex n ++ CRLF ++ rest) = Some (n, rest).
Proof.
  intros Hn. unfold parse_chunk_size, CRLF. cbn [app]. rewrite read_write_hex by exact Hn.
  cbn [skip_spaces]. change (Byte.eqb CR x20) with false. cbv iota.
  change (Byte.eqb CR CR) with true. change (Byte.eqb LF LF) with true. reflexivity.
Qed.

Lemma dechunk_S f maxb s acc : dechunk (S f) maxb s acc =
  match parse_chunk_size s with
  | None => DErr
  | Some (n, r) =>
      if N.eqb n 0 then DOk acc r
      else if (N.ltb 0 maxb) && (N.ltb maxb (N.of_nat (length acc) + n)) then DTooLarge
      else if N.ltb (N.of_nat (length r)) (n + 2) then DErr
      else let k := N.to_nat n in
           if bs_eqb (firstn 2 (skipn k r)) CRLF
                then dechunk f maxb (skipn (k + 2) r) (acc ++ firstn k r)
                else DErr
  end.
Proof. reflexivity. Qed.

Definition chunk_ok (c : bs) : Prop := c <> [] /\ (N.of_nat (length c) < 16 ^ 15)%N.

Theorem dechunk_enchunk : forall cs rest acc, Forall chunk_ok cs ->
  dechunk (S (length cs)) 0 (enchunk cs ++ rest) acc = DOk (acc ++ concat cs) rest.
Proof.
  induction cs as [|c cs IH]; intros rest acc F.
  - unfold enchunk, last_chunk. cbn [flat_map app length]. rewrite dechunk_S. rewrite <- app_assoc.
    rewrite parse_write_chunk_size by (vm_compute; reflexivity).
    cbn [N.eqb concat]. rewrite app_nil_r. reflexivity.
  - inversion F as [|? ? [Hne Hlen] Fcs]; subst.
    assert (T : enchunk (c :: cs) ++ rest
                = write_hex (N.of_nat (length c)) ++ CRLF ++ (c ++ CRLF ++ (enchunk cs ++ rest))).
    { unfold enchunk. cbn [flat_map]. unfold enchunk1 at 1. rewrite <- !app_assoc. reflexivity. }
    rewrite T. clear T. set (tail := enchunk cs ++ rest).
    cbn [length]. rewrite dechunk_S.
    rewrite parse_write_chunk_size by exact Hlen.
    assert (Hz : N.eqb (N.of_nat (length c)) 0 = false) by (destruct c; [congruence|reflexivity]).
    rewrite Hz. change (N.ltb 0 0) with false. cbn [andb].
    assert (L1 : N.ltb (N.of_nat (length (c ++ CRLF ++ tail))) (N.of_nat (length c) + 2) = false).
    { apply N.ltb_ge. rewrite !app_length. simpl. lia. }
    rewrite L1. cbv zeta. rewrite Nat2N.id.
    assert (S1 : skipn (length c) (c ++ CRLF ++ tail) = CRLF ++ tail).
    { rewrite skipn_app, skipn_all, Nat.sub_diag. reflexivity. }
    rewrite S1. change (firstn 2 (CRLF ++ tail)) with CRLF. change (bs_eqb CRLF CRLF) with true. cbv iota.
    assert (S2 : skipn (length c + 2) (c ++ CRLF ++ tail) = tail).
    { rewrite skipn_app, skipn_all2 by lia. replace (length c + 2 - length c) with 2 by lia. reflexivity. }
    rewrite S2.
    assert (F1 : firstn (length c) (c ++ CRLF ++ tail) = c).
    { rewrite firstn_app, firstn_all, Nat.sub_diag. simpl. apply app_nil_r. }
    rewrite F1. subst tail. rewrite IH by exact Fcs. cbn [concat]. rewrite app_assoc. reflexivity.
Qed.
