(* C02: on a buffer that holds a complete header block the field scanner's verdict (the fields and where the
   block ends, or "invalid name") is the verdict on every extension of the buffer — so, with the generic read
   loop theorem (Retry.sched_indep), reading a header block does not depend on how the bytes arrive, for the
   real scanner and not only for the block boundary. *)
From Coq Require Import String.
From Coq Require Import List Strings.Byte NArith Bool Arith Lia.
Require Import Bytes Show Res Chunk TrailerKeys HeaderBlock HeaderScan HeaderScanProofs Retry.
Import ListNotations.
Local Open Scope nat_scope.

(* ---------- complete blocks ---------- *)
Inductive cmpl : bs -> Prop :=
| cmpl_lf r : cmpl (LF :: r)
| cmpl_crlf r : cmpl (CR :: LF :: r)
| cmpl_line l r : ~ In LF l -> l <> [] -> l <> [CR] -> cmpl r -> cmpl (l ++ LF :: r).

Lemma take_to_lf_spec : forall s l rest, take_to_lf s = Some (l, rest) -> s = l ++ LF :: rest /\ ~ In LF l.
Proof.
  induction s as [|c r IH]; intros l rest H; cbn [take_to_lf] in H; [discriminate|].
  destruct (Byte.eqb c cLF) eqn:E.
  - inversion H; subst. apply beqb_eq in E. subst. split; [reflexivity|intros []].
  - destruct (take_to_lf r) as [[l' rest']|] eqn:T; [|discriminate]. inversion H; subst.
    destruct (IH _ _ eq_refl) as [-> N]. split; [reflexivity|].
    intros [K|K]; [subst; rewrite beqb_refl in E; discriminate|exact (N K)].
Qed.

Lemma block_len_cmpl : forall f s acc n, block_len f s acc = Some n -> cmpl s.
Proof.
  induction f as [|f IH]; intros s acc n H; [discriminate|]. cbn [block_len] in H.
  destruct (take_to_lf s) as [[l rest]|] eqn:T; [|discriminate].
  destruct (take_to_lf_spec _ _ _ T) as [-> N].
  destruct (empty_line l) eqn:E.
  - destruct l as [|c [|d l]]; cbn [empty_line] in E; [apply cmpl_lf| |discriminate].
    apply beqb_eq in E. subst. apply cmpl_crlf.
  - apply cmpl_line; [exact N| | |apply (IH _ _ _ H)].
    + intros ->. discriminate.
    + intros ->. cbn in E. discriminate.
Qed.
Lemma header_block_cmpl s n : header_block_len s = Some n -> cmpl s.
Proof. unfold header_block_len. apply block_len_cmpl. Qed.

Lemma cmpl_nonempty s : cmpl s -> s <> [].
Proof. intros C. inversion C; subst; try discriminate. destruct l; discriminate. Qed.

(* ---------- lists ---------- *)
Lemma index_byte_app_l c : forall b q i, index_byte c b = Some i -> index_byte c (b ++ q) = Some i.
Proof.
  induction b as [|x b IH]; intros q i H; cbn [index_byte app] in *; [discriminate|].
  destruct (Byte.eqb x c); [exact H|]. destruct (index_byte c b) as [j|]; [|discriminate].
  rewrite (IH q j eq_refl). exact H.
Qed.
Lemma index_byte_lt c : forall b i, index_byte c b = Some i -> i < length b.
Proof.
  induction b as [|x b IH]; intros i H; cbn [index_byte] in H; [discriminate|].
  destruct (Byte.eqb x c); [inversion H; cbn; lia|]. destruct (index_byte c b) as [j|]; [|discriminate].
  inversion H. specialize (IH j eq_refl). cbn [length]. lia.
Qed.
Lemma index_byte_nth c : forall b i, index_byte c b = Some i -> nth_error b i = Some c.
Proof.
  induction b as [|x b IH]; intros i H; cbn [index_byte] in H; [discriminate|].
  destruct (Byte.eqb x c) eqn:E; [inversion H; apply beqb_eq in E; subst; reflexivity|].
  destruct (index_byte c b) as [j|]; [|discriminate]. inversion H. cbn [nth_error]. apply IH. reflexivity.
Qed.
Lemma firstn_app_lt {A} (n : nat) (b q : list A) : n <= length b -> firstn n (b ++ q) = firstn n b.
Proof. intros L. rewrite firstn_app. replace (n - length b) with 0 by lia. cbn. apply app_nil_r. Qed.
Lemma skipn_app_le {A} (n : nat) (b q : list A) : n <= length b -> skipn n (b ++ q) = skipn n b ++ q.
Proof. intros L. rewrite skipn_app. replace (n - length b) with 0 by lia. reflexivity. Qed.
Lemma nth_error_app_lt {A} (n : nat) (b q : list A) : n < length b -> nth_error (b ++ q) n = nth_error b n.
Proof. intros L. apply nth_error_app1. exact L. Qed.
Lemma skipn_cons_nth {A} : forall (k : nat) (l : list A) c t, skipn k l = c :: t -> nth_error l k = Some c /\ k < length l.
Proof.
  induction k as [|k IH]; intros l c t H; destruct l as [|x l]; try discriminate.
  - inversion H. split; [reflexivity|cbn; lia].
  - cbn [skipn] in H. destruct (IH _ _ _ H). split; [assumption|cbn [length]; lia].
Qed.
Lemma skipn_skipn_S {A} (a b : nat) (l : list A) : skipn a (skipn b l) = skipn (b + a) l.
Proof.
  revert l; induction b as [|b IH]; intros l; [reflexivity|].
  destruct l; [rewrite !skipn_nil; reflexivity|]. cbn [skipn Nat.add]. apply IH.
Qed.

Lemma skip_sp_app_lf : forall a r, skip_sp (a ++ LF :: r) = skip_sp a ++ LF :: r.
Proof.
  induction a as [|c a IH]; intros r; cbn [app skip_sp]; [replace (Byte.eqb LF SPC) with false by reflexivity; reflexivity|].
  destruct (Byte.eqb c SPC); [apply IH|reflexivity].
Qed.
Lemma skip_sp_no_lf : forall a, ~ In LF a -> ~ In LF (skip_sp a).
Proof.
  induction a as [|c a IH]; intros N; cbn [skip_sp]; [exact N|].
  destruct (Byte.eqb c SPC); [apply IH; intros K; apply N; right; exact K|exact N].
Qed.

(* ---------- the continuation loop ---------- *)
Lemma cmpl_cont_shape c t : cmpl (c :: t) -> (Byte.eqb c SPC || Byte.eqb c TAB) = true ->
  exists l r, c :: t = l ++ LF :: r /\ ~ In LF l /\ l <> [] /\ cmpl r.
Proof.
  intros C W. remember (c :: t) as s eqn:Es. destruct C as [r|r|l r N Ne Ncr Cr].
  - inversion Es; subst. cbn in W. discriminate.
  - inversion Es; subst. cbn in W. discriminate.
  - exists l, r. auto.
Qed.

Lemma cont_stable : forall k b2 n mu q f1 f2, length b2 - n <= k -> n < length b2 -> cmpl (skipn (S n) b2) ->
  length b2 - n <= f1 -> length b2 - n <= f2 ->
  cont f1 b2 n mu = cont f2 (b2 ++ q) n mu /\
  cmpl (skipn (S (fst (cont f1 b2 n mu))) b2) /\ fst (cont f1 b2 n mu) < length b2.
Proof.
  induction k as [|k IH]; intros b2 n mu q f1 f2 Lk Ln C L1 L2; [lia|].
  destruct f1 as [|f1]; [lia|]. destruct f2 as [|f2]; [lia|]. cbn [cont].
  destruct (skipn (S n) b2) as [|c t] eqn:Es; [destruct (cmpl_nonempty _ C eq_refl)|].
  destruct (skipn_cons_nth _ _ _ _ Es) as [Nth Lt].
  rewrite (nth_error_app_lt _ _ q Lt), Nth.
  destruct (Byte.eqb c SPC || Byte.eqb c TAB) eqn:W.
  2:{ split; [reflexivity|]. cbn [fst]. rewrite Es. split; [exact C|exact Ln]. }
  (* a continuation line: it is not the empty line, so it ends inside the buffer *)
  destruct (cmpl_cont_shape c t C W) as (l & r & El & Nl & Nel & Cr).
  rewrite (skipn_app_le (S n) b2 q) by lia. rewrite Es, El.
  rewrite (index_byte_app LF l r Nl).
  rewrite <- app_assoc. cbn [app]. rewrite (index_byte_app LF l (r ++ q) Nl).
  destruct (length l) as [|d] eqn:Ll; [destruct l; [congruence|discriminate]|].
  assert (F1 : firstn (S d) (l ++ LF :: r) = l) by (rewrite <- Ll; rewrite firstn_app, Nat.sub_diag, firstn_all; cbn; apply app_nil_r).
  assert (F2 : firstn (S d) (l ++ LF :: r ++ q) = l) by (rewrite <- Ll; rewrite firstn_app, Nat.sub_diag, firstn_all; cbn; apply app_nil_r).
  rewrite F1, F2.
  destruct (has_byte COLON l).
  { split; [reflexivity|]. cbn [fst]. rewrite Es. split; [exact C|exact Ln]. }
  assert (Sk : skipn (S (n + S d + 1)) b2 = r).
  { replace (S (n + S d + 1)) with (S n + (S d + 1)) by lia. rewrite <- skipn_skipn_S. rewrite Es, El.
    replace (S d + 1) with (length (l ++ [LF])) by (rewrite app_length, Ll; cbn; lia).
    replace (l ++ LF :: r) with ((l ++ [LF]) ++ r) by (rewrite <- app_assoc; reflexivity).
    rewrite skipn_app, skipn_all, Nat.sub_diag. reflexivity. }
  assert (Lb : length b2 = S n + (S d + 1) + length r).
  { rewrite <- (firstn_skipn (S n) b2). rewrite Es, El, app_length, firstn_length, app_length, Ll. cbn [length]. lia. }
  assert (Ln' : n + S d + 1 < length b2).
  { pose proof (cmpl_nonempty _ Cr) as Nr. destruct r; [congruence|]. cbn [length] in Lb. lia. }
  apply IH; try lia. rewrite Sk. exact Cr.
Qed.

(* ---------- one field ---------- *)
Lemma hs_next_stable b q : cmpl b ->
  match hs_next b with
  | NDone rest => hs_next (b ++ q) = NDone (rest ++ q)
  | NField k v rest => hs_next (b ++ q) = NField k v (rest ++ q) /\ cmpl rest
  | NInvalidName => hs_next (b ++ q) = NInvalidName
  | NNeedMore => True
  end.
Proof.
  intros C. inversion C as [r E|r E|l r Nl Ne Ncr Cr E]; subst.
  - destruct r as [|c2 r]; cbn [hs_next app].
    + replace (Byte.eqb LF LF) with true by reflexivity. destruct q as [|c2 q]; cbn [hs_next app].
      * replace (Byte.eqb LF LF) with true by reflexivity. reflexivity.
      * replace (Byte.eqb LF CR) with false by reflexivity. cbn [andb]. replace (Byte.eqb LF LF) with true by reflexivity. reflexivity.
    + replace (Byte.eqb LF CR) with false by reflexivity. cbn [andb]. replace (Byte.eqb LF LF) with true by reflexivity. reflexivity.
  - cbn [hs_next app]. replace (Byte.eqb CR CR) with true by reflexivity. replace (Byte.eqb LF LF) with true by reflexivity. reflexivity.
  - (* a field line *)
    set (b := l ++ LF :: r).
    destruct l as [|c1 l']; [congruence|].
    assert (H1 : Byte.eqb c1 LF = false).
    { apply beqb_neq. intros ->. apply Nl. left. reflexivity. }
    assert (Two : exists c2 t, b = c1 :: c2 :: t /\ (Byte.eqb c1 CR && Byte.eqb c2 LF) = false).
    { subst b. destruct l' as [|c2 l''].
      - cbn [app]. exists LF, r. split; [reflexivity|]. destruct (Byte.eqb c1 CR) eqn:E; [apply beqb_eq in E; subst; congruence|reflexivity].
      - cbn [app]. exists c2, (l'' ++ LF :: r). split; [reflexivity|].
        assert (Byte.eqb c2 LF = false) by (apply beqb_neq; intros ->; apply Nl; right; left; reflexivity).
        rewrite H. apply andb_false_r. }
    destruct Two as (c2 & t & Eb & Hcr).
    assert (Hx : index_byte LF b = Some (length (c1 :: l'))) by (subst b; apply index_byte_app; exact Nl).
    assert (Step : forall bb, bb = b \/ bb = b ++ q ->
               hs_next bb = match index_byte LF bb, index_byte COLON bb with
                            | None, _ => NNeedMore
                            | Some _, None => NNeedMore
                            | Some x, Some n =>
                                if Nat.ltb x n then NInvalidName
                                else
                                  let key := normalize_header_key (firstn n bb) in
                                  let b2 := skip_sp (skipn (S n) bb) in
                                  match index_byte LF b2 with
                                  | None => NNeedMore
                                  | Some m =>
                                      let '(m', multi) := cont (length b2) b2 m false in
                                      let v := trim_value (firstn m' b2) in
                                      NField key (if multi then norm_value v false else v) (skipn (S m') b2)
                                  end
                            end).
    { intros bb [->| ->]; rewrite Eb; cbn [app hs_next]; rewrite Hcr, H1; reflexivity. }
    rewrite (Step b (or_introl eq_refl)), (Step (b ++ q) (or_intror eq_refl)).
    rewrite Hx, (index_byte_app_l LF b q _ Hx).
    destruct (index_byte COLON b) as [n|] eqn:Hn; [|exact I].
    rewrite (index_byte_app_l COLON b q _ Hn).
    destruct (Nat.ltb_spec (length (c1 :: l')) n) as [Lt|Ge]; [reflexivity|].
    assert (Nlt : n < length (c1 :: l')).
    { pose proof (index_byte_nth _ _ _ Hn) as Nn. pose proof (index_byte_nth _ _ _ Hx) as Nx.
      destruct (Nat.eq_dec n (length (c1 :: l'))) as [E|E]; [|lia]. rewrite E in Nn. rewrite Nn in Nx. discriminate. }
    set (x := length (c1 :: l')) in *.
    assert (Lb : length b = x + 1 + length r) by (subst b x; rewrite app_length; cbn [length]; lia).
    rewrite (firstn_app_lt n b q) by lia.
    rewrite (skipn_app_le (S n) b q) by lia.
    (* the text behind the colon still holds the line feed and everything after it *)
    assert (Sx : skipn (S n) b = skipn (S n) (c1 :: l') ++ LF :: r).
    { subst b. rewrite skipn_app. replace (S n - length (c1 :: l')) with 0 by (fold x; lia). reflexivity. }
    assert (Na : ~ In LF (skipn (S n) (c1 :: l'))).
    { intros K. apply Nl. rewrite <- (firstn_skipn (S n) (c1 :: l')). apply in_or_app. right. exact K. }
    set (a' := skip_sp (skipn (S n) (c1 :: l'))).
    assert (Na' : ~ In LF a') by (apply skip_sp_no_lf; exact Na).
    rewrite Sx, skip_sp_app_lf. rewrite <- app_assoc. cbn [app]. rewrite skip_sp_app_lf. fold a'.
    set (b2 := a' ++ LF :: r).
    assert (Eq2 : a' ++ LF :: r ++ q = b2 ++ q) by (subst b2; rewrite <- app_assoc; reflexivity).
    rewrite Eq2.
    assert (Hm : index_byte LF b2 = Some (length a')) by (subst b2; apply index_byte_app; exact Na').
    rewrite Hm, (index_byte_app_l LF b2 q _ Hm).
    assert (Skm : skipn (S (length a')) b2 = r).
    { subst b2. replace (S (length a')) with (length (a' ++ [LF])) by (rewrite app_length; cbn; lia).
      replace (a' ++ LF :: r) with ((a' ++ [LF]) ++ r) by (rewrite <- app_assoc; reflexivity).
      rewrite skipn_app, skipn_all, Nat.sub_diag. reflexivity. }
    assert (Lb2 : length b2 = length a' + 1 + length r) by (subst b2; rewrite app_length; cbn [length]; lia).
    destruct (cont_stable (length b2) b2 (length a') false q (length b2) (length (b2 ++ q))) as (Ec & Cc & Lc);
      try lia; [rewrite Skm; exact Cr|rewrite app_length; lia|].
    rewrite <- Ec. destruct (cont (length b2) b2 (length a') false) as [m' multi]. cbn [fst] in Cc, Lc.
    rewrite (firstn_app_lt m' b2 q) by lia. rewrite (skipn_app_le (S m') b2 q) by lia.
    split; [reflexivity|exact Cc].
Qed.

(* ---------- the whole block ---------- *)
Lemma scan_stable : forall f b q, cmpl b ->
  match scan_all f b with
  | SFields fs rest => scan_all f (b ++ q) = SFields fs (rest ++ q)
  | SInvalid fs => scan_all f (b ++ q) = SInvalid fs
  | SNeedMore _ => True
  end.
Proof.
  induction f as [|f IH]; intros b q C; cbn [scan_all]; [exact I|].
  pose proof (hs_next_stable b q C) as H. destruct (hs_next b) as [rest|k v rest| |].
  - rewrite H. reflexivity.
  - destruct H as [H Cr]. rewrite H. specialize (IH rest q Cr).
    destruct (scan_all f rest) as [fs r'|fs|fs]; [rewrite IH; reflexivity|exact I|rewrite IH; reflexivity].
  - exact I.
  - rewrite H. reflexivity.
Qed.

Lemma scan_fuel_mono : forall f b k,
  match scan_all f b with
  | SFields fs rest => scan_all (f + k) b = SFields fs rest
  | SInvalid fs => scan_all (f + k) b = SInvalid fs
  | SNeedMore _ => True
  end.
Proof.
  induction f as [|f IH]; intros b k; cbn [scan_all Nat.add]; [exact I|].
  destruct (hs_next b) as [rest|kk v rest| |]; try reflexivity; try exact I.
  specialize (IH rest k). destruct (scan_all f rest) as [fs r'|fs|fs]; [rewrite IH; reflexivity|exact I|rewrite IH; reflexivity].
Qed.

(* ---------- as a parser for the generic read loop ---------- *)
Definition fields_parse (s : bs) : pres (list (bs * bs)) (list (bs * bs)) :=
  match header_block_len s with
  | None => PMore _ _
  | Some _ =>
      match scan_all (S (length s)) s with
      | SFields fs rest => POk _ _ (length s - length rest) fs
      | SInvalid fs => PErr _ _ fs
      | SNeedMore _ => PMore _ _
      end
  end.

Lemma fields_parse_ok_stable p n x q : fields_parse p = POk _ _ n x -> fields_parse (p ++ q) = POk _ _ n x.
Proof.
  unfold fields_parse. destruct (header_block_len p) as [k|] eqn:H; [|discriminate].
  rewrite (header_block_len_stable _ _ q H). pose proof (header_block_cmpl _ _ H) as C.
  destruct (scan_all (S (length p)) p) as [fs rest|fs|fs] eqn:Sc; try discriminate. intros E. inversion E; subst.
  pose proof (scan_fuel_mono (S (length p)) p (length q)) as M. rewrite Sc in M.
  pose proof (scan_stable (S (length p) + length q) p q C) as St. rewrite M in St.
  replace (S (length (p ++ q))) with (S (length p) + length q) by (rewrite app_length; lia).
  rewrite St. f_equal. rewrite !app_length. lia.
Qed.

Lemma fields_parse_err_stable p e q : fields_parse p = PErr _ _ e -> fields_parse (p ++ q) = PErr _ _ e.
Proof.
  unfold fields_parse. destruct (header_block_len p) as [k|] eqn:H; [|discriminate].
  rewrite (header_block_len_stable _ _ q H). pose proof (header_block_cmpl _ _ H) as C.
  destruct (scan_all (S (length p)) p) as [fs rest|fs|fs] eqn:Sc; try discriminate. intros E. inversion E; subst.
  pose proof (scan_fuel_mono (S (length p)) p (length q)) as M. rewrite Sc in M.
  pose proof (scan_stable (S (length p) + length q) p q C) as St. rewrite M in St.
  replace (S (length (p ++ q))) with (S (length p) + length q) by (rewrite app_length; lia).
  rewrite St. reflexivity.
Qed.

Lemma fields_parse_ok_bound p n x : fields_parse p = POk _ _ n x -> n <= length p.
Proof.
  unfold fields_parse. destruct (header_block_len p); [|discriminate].
  destruct (scan_all (S (length p)) p); try discriminate. intros E. inversion E. lia.
Qed.

(* reading a header block with the real field scanner does not depend on how the bytes arrive *)
Theorem fields_sched_indep : forall f1 f2 n1 n2 r1 r2 o1 o2,
  whole r1 = whole r2 ->
  read_loop _ _ fields_parse f1 n1 r1 = Some o1 -> read_loop _ _ fields_parse f2 n2 r2 = Some o2 ->
  obs _ _ o1 = obs _ _ o2.
Proof.
  apply (sched_indep _ _ fields_parse fields_parse_ok_stable fields_parse_ok_bound fields_parse_err_stable).
Qed.
