(* C06 proofs: the priority search with backtracking returns exactly the route the documented rule
   selects, with the matched substrings as parameter values; the answer depends on the set of
   registered routes only. *)
From Coq Require Import String.
From Coq Require Import List Strings.Byte NArith Lia Bool Arith Permutation.
Require Import Bytes Show Router.
Import ListNotations.

Lemma tok_eqb_eq a b : tok_eqb a b = true <-> a = b.
Proof.
  destruct a, b; simpl; split; intros H; try discriminate; try reflexivity.
  - apply beqb_eq in H. congruence.
  - inversion H. apply beqb_refl.
Qed.
Lemma tok_eqb_refl a : tok_eqb a a = true. Proof. apply tok_eqb_eq. reflexivity. Qed.

(* the documented rule, with no search in it: h is the identity of a registered pattern p that
   matches s and beats every other registered pattern that matches s *)
Definition is_best (rs : list route) (s : bs) (p : pattern) (h : nat) : Prop :=
  In (p, h) rs /\ matches p s = true /\
  forall q h', In (q, h') rs -> matches q s = true -> q <> p -> better p q = true.

(* a catch-all only in last position (checkPathValid) *)
Fixpoint wfp (p : pattern) : Prop :=
  match p with [] => True | A :: p' => p' = [] | _ :: p' => wfp p' end.
Definition wfrs (rs : list route) : Prop := forall p h, In (p, h) rs -> wfp p.
Definition short (fuel : nat) (rs : list route) : Prop := forall p h, In (p, h) rs -> length p < fuel.

Lemma matches_L c p x s : matches (L c :: p) (x :: s) = Byte.eqb c x && matches p s.
Proof. reflexivity. Qed.
Lemma matches_P p s : s <> [] -> matches (P :: p) s = matches p (drop_seg s).
Proof. intros H. unfold matches. simpl. destruct s; [congruence|]. reflexivity. Qed.

Lemma in_adv t p h rs : In (p, h) (adv t rs) <-> In (t :: p, h) rs.
Proof.
  unfold adv. rewrite in_flat_map. split.
  - intros [[q h'] [Hin H]]. simpl in H. destruct q as [|t' q']; [contradiction|].
    destruct (tok_eqb t t') eqn:E; [|contradiction]. apply tok_eqb_eq in E. subst.
    destruct H as [H|[]]. inversion H; subst. exact Hin.
  - intros H. exists (t :: p, h). split; auto. simpl. rewrite tok_eqb_refl. left; reflexivity.
Qed.

Lemma better_cons t p q : better (t :: p) (t :: q) = better p q.
Proof. simpl. rewrite tok_eqb_refl. reflexivity. Qed.

Lemma first_with_some f rs h : first_with f rs = Some h -> exists p, In (p, h) rs /\ f p = true.
Proof.
  induction rs as [|[p h'] rs IH]; simpl; [discriminate|].
  destruct (f p) eqn:E.
  - intros H; inversion H; subst. exists p. auto.
  - intros H. destruct (IH H) as (p' & A1 & A2). exists p'. auto.
Qed.
Lemma first_with_none f rs : first_with f rs = None -> forall p h, In (p, h) rs -> f p = false.
Proof.
  induction rs as [|[p h'] rs IH]; simpl; intros H q h Hin; [contradiction|].
  destruct (f p) eqn:E; [discriminate|]. destruct Hin as [Hin|Hin]; [inversion Hin; subst; auto|eauto].
Qed.
Lemma first_with_complete f rs p h : In (p, h) rs -> f p = true -> first_with f rs <> None.
Proof.
  induction rs as [|[q h'] rs IH]; simpl; intros Hin Hf; [contradiction|].
  destruct (f q) eqn:E; [discriminate|]. destruct Hin as [Hin|Hin]; [inversion Hin; subst; congruence|auto].
Qed.

Lemma short_adv t f rs : short (S f) rs -> short f (adv t rs).
Proof. intros H p h Hin. apply in_adv in Hin. specialize (H _ _ Hin). simpl in H. lia. Qed.
Lemma wfrs_adv t rs : wfrs rs -> wfrs (adv t rs).
Proof. intros H p h Hin. apply in_adv in Hin. specialize (H _ _ Hin). destruct t; simpl in H; auto. subst. exact I. Qed.

Lemma orelse_none {T} (a b : option T) : orelse a b = None -> a = None /\ b = None.
Proof. destruct a; simpl; intros H; [discriminate|auto]. Qed.
Lemma leaf_none vs r : leaf vs r = None -> r = None.
Proof. destruct r; simpl; [discriminate|auto]. Qed.
Lemma with_val_none v r : with_val v r = None -> r = None.
Proof. destruct r as [[h vs]|]; simpl; [discriminate|auto]. Qed.

(* completeness: a matching route is never missed *)
Theorem find_complete : forall fuel rs s p h,
  short fuel rs -> In (p, h) rs -> matches p s = true -> find fuel rs s <> None.
Proof.
  induction fuel as [|f IH]; intros rs s p h Sh Hin M.
  - specialize (Sh _ _ Hin). lia.
  - cbn [find]. destruct s as [|x s'].
    + destruct p as [|[c| |] p']; try discriminate.
      * intros H. apply orelse_none in H as [H _]. apply leaf_none in H. revert H. eapply first_with_complete; eauto.
      * intros H. apply orelse_none in H as [_ H]. apply leaf_none in H. revert H. eapply first_with_complete; eauto.
    + destruct p as [|[c| |] p']; try discriminate.
      * rewrite matches_L in M. apply andb_true_iff in M as [M1 M2]. apply beqb_eq in M1. subst c.
        intros H. apply orelse_none in H as [H _]. revert H.
        apply (IH _ _ p' h); auto. apply short_adv; auto. apply in_adv; auto.
      * rewrite matches_P in M by discriminate.
        intros H. apply orelse_none in H as [_ H]. apply orelse_none in H as [H _]. apply with_val_none in H. revert H.
        apply (IH _ _ p' h); auto. apply short_adv; auto. apply in_adv; auto.
      * intros H. apply orelse_none in H as [_ H]. apply orelse_none in H as [_ H]. apply leaf_none in H. revert H.
        eapply first_with_complete; eauto.
Qed.

(* soundness + optimality + values: whatever the search returns is the documented best match,
   and the values are the substrings the pattern's wildcards matched *)
Theorem find_best : forall fuel rs s h vs,
  short fuel rs -> wfrs rs -> find fuel rs s = Some (h, vs) ->
  exists p, is_best rs s p h /\ vs = pvalues p s.
Proof.
  induction fuel as [|f IH]; intros rs s h vs Sh W H; [discriminate|].
  cbn [find] in H. destruct s as [|x s'].
  - destruct (first_with is_nil rs) as [h0|] eqn:F0; cbn [orelse leaf] in H.
    + inversion H; subst. destruct (first_with_some _ _ _ F0) as (p & Hin & Hp).
      destruct p; [|discriminate]. exists []. split; [|reflexivity]. split; [auto | split; [auto|]].
      intros q h' Hq Mq Nq. destruct q as [|[c| |] q']; try congruence; try discriminate. reflexivity.
    + destruct (first_with is_any rs) as [h1|] eqn:F1; cbn [leaf] in H; [|discriminate]. inversion H; subst.
      destruct (first_with_some _ _ _ F1) as (p & Hin & Hp).
      destruct p as [|[c| |] p']; try discriminate.
      pose proof (W _ _ Hin) as Wp. simpl in Wp. subst p'.
      exists [A]. split; [|reflexivity]. split; [auto | split; [auto|]].
      intros q h' Hq Mq Nq. destruct q as [|[c| |] q']; try discriminate.
      * pose proof (first_with_none _ _ F0 _ _ Hq). discriminate.
      * pose proof (W _ _ Hq) as Wq. simpl in Wq. subst. congruence.
  - destruct (find f (adv (L x) rs) s') as [[h0 vs0]|] eqn:F1; cbn [orelse] in H.
    + inversion H; subst.
      destruct (IH _ _ _ _ (short_adv _ _ _ Sh) (wfrs_adv _ _ W) F1) as (p' & (Hin & Mp & Best) & Vs).
      exists (L x :: p'). split; [|exact Vs]. split; [apply in_adv; auto|]. split.
      * rewrite matches_L, beqb_refl. exact Mp.
      * intros q h' Hq Mq Nq. destruct q as [|[c| |] q']; try discriminate; try reflexivity.
        rewrite matches_L in Mq. apply andb_true_iff in Mq as [M1 M2]. apply beqb_eq in M1. subst c.
        rewrite better_cons. apply (Best q' h'); auto. apply in_adv; auto. congruence.
    + destruct (find f (adv P rs) (drop_seg (x :: s'))) as [[h1 vs1]|] eqn:F2; cbn [orelse with_val] in H.
      * inversion H; subst.
        destruct (IH _ _ _ _ (short_adv _ _ _ Sh) (wfrs_adv _ _ W) F2) as (p' & (Hin & Mp & Best) & Vs).
        exists (P :: p'). split; [|cbn [pvalues]; rewrite Vs; reflexivity]. split; [apply in_adv; auto|]. split.
        -- rewrite matches_P by discriminate. exact Mp.
        -- intros q h' Hq Mq Nq. destruct q as [|[c| |] q']; try discriminate; try reflexivity.
           ++ exfalso. rewrite matches_L in Mq. apply andb_true_iff in Mq as [M1 M2]. apply beqb_eq in M1. subst c.
              apply (find_complete f (adv (L x) rs) s' q' h'); auto.
              apply short_adv; auto. apply in_adv; auto.
           ++ rewrite matches_P in Mq by discriminate.
              rewrite better_cons. apply (Best q' h'); auto. apply in_adv; auto. congruence.
      * destruct (first_with is_any rs) as [h2|] eqn:F3; cbn [leaf] in H; [|discriminate]. inversion H; subst.
        destruct (first_with_some _ _ _ F3) as (p & Hin & Hp).
        destruct p as [|[c| |] p']; try discriminate.
        pose proof (W _ _ Hin) as Wp. simpl in Wp. subst p'.
        exists [A]. split; [|reflexivity]. split; [auto | split; [auto|]].
        intros q h' Hq Mq Nq. destruct q as [|[c| |] q']; try discriminate.
        -- exfalso. rewrite matches_L in Mq. apply andb_true_iff in Mq as [M1 M2]. apply beqb_eq in M1. subst c.
           apply (find_complete f (adv (L x) rs) s' q' h'); auto.
           apply short_adv; auto. apply in_adv; auto.
        -- exfalso. rewrite matches_P in Mq by discriminate.
           apply (find_complete f (adv P rs) (drop_seg (x :: s')) q' h'); auto.
           apply short_adv; auto. apply in_adv; auto.
        -- pose proof (W _ _ Hq) as Wq. simpl in Wq. subst. congruence.
Qed.

(* no result means no registered route matches *)
Corollary find_none : forall fuel rs s, short fuel rs -> find fuel rs s = None ->
  forall p h, In (p, h) rs -> matches p s = false.
Proof.
  intros fuel rs s Sh H p h Hin. destruct (matches p s) eqn:M; auto.
  exfalso. apply (find_complete fuel rs s p h); auto.
Qed.

(* ---------- the values are the matched substrings ---------- *)
(* put the values back into the pattern's wildcards *)
Fixpoint inst (p : pattern) (vs : list bs) : bs :=
  match p with
  | [] => []
  | L c :: p' => c :: inst p' vs
  | P :: p' => match vs with v :: vs' => v ++ inst p' vs' | [] => [] end
  | A :: _ => match vs with v :: _ => v | [] => [] end
  end.

Lemma take_drop_seg s : take_seg s ++ drop_seg s = s.
Proof.
  induction s as [|x s IH]; simpl; [reflexivity|].
  destruct (Byte.eqb x sl); simpl; [reflexivity|]. rewrite IH. reflexivity.
Qed.
Lemma take_seg_no_slash s : ~ In sl (take_seg s).
Proof.
  induction s as [|x s IH]; simpl; [tauto|].
  destruct (Byte.eqb x sl) eqn:E; simpl; [tauto|]. intros [H|H]; [|tauto]. apply beqb_neq in E. congruence.
Qed.

Lemma pmatch_inst : forall p f s, pmatch p s f = true -> inst p (pvalues p s) = s.
Proof.
  induction p as [|t p' IH]; intros f s H; destruct f as [|f]; cbn [pmatch] in H; try discriminate;
    cbn [pvalues inst].
  - destruct s; [reflexivity|discriminate].
  - destruct t as [c| |].
    + destruct s as [|x s']; [discriminate|]. apply andb_true_iff in H as [H1 H2]. apply beqb_eq in H1. subst.
      rewrite (IH _ _ H2). reflexivity.
    + destruct s as [|x s']; [discriminate|]. rewrite (IH _ _ H). apply take_drop_seg.
    + reflexivity.
Qed.

(* putting the reported values back into the wildcards of the chosen pattern gives the path
   back, and a named parameter's value contains no '/' *)
Theorem values_are_matched_substrings p s : matches p s = true -> inst p (pvalues p s) = s.
Proof. apply pmatch_inst. Qed.

Fixpoint params_slash_free (p : pattern) (vs : list bs) : Prop :=
  match p with
  | [] => True
  | L _ :: p' => params_slash_free p' vs
  | P :: p' => match vs with v :: vs' => ~ In sl v /\ params_slash_free p' vs' | [] => True end
  | A :: _ => True
  end.
Theorem param_values_slash_free : forall p s, params_slash_free p (pvalues p s).
Proof.
  induction p as [|t p' IH]; intros s; cbn [pvalues params_slash_free]; [exact I|].
  destruct t as [c| |]; auto.
  - destruct s; [destruct p' as [|[| |] ?]; cbn; auto|apply IH].
    all: try (clear; induction p' as [|[| |] ? IH2]; cbn; auto).
  - split; [apply take_seg_no_slash|apply IH].
Qed.

(* ---------- the answer depends on the set of routes only ---------- *)
Lemma better_asym : forall p q, better p q = true -> better q p = false.
Proof.
  induction p as [|t1 p IH]; intros [|t2 q]; simpl; intros H; auto; try discriminate.
  destruct (tok_eqb t1 t2) eqn:E.
  - apply tok_eqb_eq in E. subst. rewrite tok_eqb_refl. auto.
  - assert (tok_eqb t2 t1 = false) as ->.
    { destruct (tok_eqb t2 t1) eqn:E'; auto. apply tok_eqb_eq in E'. subst. rewrite tok_eqb_refl in E. discriminate. }
    apply Nat.ltb_lt in H. apply Nat.ltb_ge. lia.
Qed.

Lemma tok_eq_dec (a b : tok) : {a = b} + {a <> b}.
Proof. decide equality. apply Byte.byte_eq_dec. Qed.

Definition distinct (rs : list route) : Prop := forall p a b, In (p, a) rs -> In (p, b) rs -> a = b.

Lemma is_best_unique rs s p h q h' :
  distinct rs -> is_best rs s p h -> is_best rs s q h' -> p = q /\ h = h'.
Proof.
  intros D (Hp & Mp & Bp) (Hq & Mq & Bq).
  destruct (list_eq_dec tok_eq_dec p q) as [E|N].
  - subst. split; [reflexivity|]. eapply D; eauto.
  - pose proof (Bp q h' Hq Mq (fun e => N (eq_sym e))) as B1.
    pose proof (Bq p h Hp Mp N) as B2.
    rewrite (better_asym _ _ B1) in B2. discriminate.
Qed.

Lemma is_best_perm rs rs' s p h : (forall r, In r rs <-> In r rs') -> is_best rs s p h -> is_best rs' s p h.
Proof.
  intros Same (Hp & Mp & Bp). split; [apply Same; auto|]. split; [auto|].
  intros q h' Hq. apply (Bp q h'). apply Same. auto.
Qed.

(* two registrations of the same routes, in any order, answer every lookup alike *)
Theorem find_order_independent : forall fuel rs rs' s,
  (forall r, In r rs <-> In r rs') -> distinct rs -> wfrs rs -> short fuel rs ->
  find fuel rs s = find fuel rs' s.
Proof.
  intros fuel rs rs' s Same D W Sh.
  assert (Sh' : short fuel rs') by (intros p h Hin; apply (Sh p h); apply Same; auto).
  assert (W' : wfrs rs') by (intros p h Hin; apply (W p h); apply Same; auto).
  destruct (find fuel rs s) as [[h vs]|] eqn:F1, (find fuel rs' s) as [[h' vs']|] eqn:F2; auto.
  - destruct (find_best _ _ _ _ _ Sh W F1) as (p & B1 & V1).
    destruct (find_best _ _ _ _ _ Sh' W' F2) as (q & B2 & V2).
    assert (B2' : is_best rs s q h') by (apply (is_best_perm rs' rs); [intros r; symmetry; apply Same|exact B2]).
    destruct (is_best_unique rs s p h q h' D B1 B2') as [-> ->]. subst. reflexivity.
  - exfalso. destruct (find_best _ _ _ _ _ Sh W F1) as (p & (Hp & Mp & _) & _).
    apply (find_complete fuel rs' s p h); auto. apply Same; auto.
  - exfalso. destruct (find_best _ _ _ _ _ Sh' W' F2) as (p & (Hp & Mp & _) & _).
    apply (find_complete fuel rs s p h'); auto. apply Same; auto.
Qed.

(* ---------- registered texts ---------- *)
Lemma tokenize_wf : forall f s, wfp (fst (tokenize f s)).
Proof.
  induction f as [|f IH]; intros s; cbn [tokenize]; [exact I|].
  destruct s as [|c r]; [exact I|].
  destruct (Byte.eqb c colon).
  - specialize (IH (drop_seg r)). destruct (tokenize f (drop_seg r)) as [p ns]. exact IH.
  - destruct (Byte.eqb c star); [reflexivity|].
    specialize (IH r). destruct (tokenize f r) as [p ns]. exact IH.
Qed.

Lemma routes_of_wf pats : wfrs (routes_of pats).
Proof.
  intros p h Hin. unfold routes_of in Hin. apply in_combine_l in Hin. apply in_map_iff in Hin.
  destruct Hin as (x & <- & _). apply tokenize_wf.
Qed.

Lemma fuel_for_short rs : short (fuel_for rs) rs.
Proof.
  intros p h Hin. unfold fuel_for.
  assert (F : Forall (fun k => k <= list_max (map (fun r : route => length (fst r)) rs)) (map (fun r : route => length (fst r)) rs))
    by (apply (proj1 (list_max_le _ _)); apply le_n).
  rewrite Forall_forall in F. specialize (F (length p)).
  assert (In (length p) (map (fun r : route => length (fst r)) rs)) by (apply in_map_iff; exists (p, h); auto).
  specialize (F H). cbv beta in F. apply Nat.lt_succ_r. exact F.
Qed.

Theorem route_dispatch pats path h vs :
  let rs := routes_of pats in
  find (fuel_for rs) rs path = Some (h, vs) ->
  exists p, is_best rs path p h /\ vs = pvalues p path /\ inst p vs = path /\ params_slash_free p vs.
Proof.
  intros rs H. destruct (find_best _ _ _ _ _ (fuel_for_short rs) (routes_of_wf pats) H) as (p & B & V).
  exists p. split; [exact B|]. split; [exact V|]. subst vs. split.
  - apply values_are_matched_substrings. apply B.
  - apply param_values_slash_free.
Qed.

Theorem route_no_match pats path :
  let rs := routes_of pats in
  find (fuel_for rs) rs path = None -> forall p h, In (p, h) rs -> matches p path = false.
Proof. intros rs H. apply (find_none _ _ _ (fuel_for_short rs) H). Qed.

Theorem route_order_independent pats rs' path :
  let rs := routes_of pats in
  Permutation rs rs' -> distinct rs ->
  find (fuel_for rs) rs' path = find (fuel_for rs) rs path.
Proof.
  intros rs Pm D. symmetry. apply find_order_independent; auto.
  - intros r. split; intros H; [eapply Permutation_in; eauto|eapply Permutation_in; [apply Permutation_sym; eauto|auto]].
  - apply routes_of_wf.
  - apply fuel_for_short.
Qed.

(* any sufficient fuel gives the same answer (so the fuel is not part of the meaning) *)
Theorem find_fuel_irrelevant f1 f2 rs s :
  distinct rs -> wfrs rs -> short f1 rs -> short f2 rs -> find f1 rs s = find f2 rs s.
Proof.
  intros D W S1 S2.
  destruct (find f1 rs s) as [[h vs]|] eqn:F1, (find f2 rs s) as [[h' vs']|] eqn:F2; auto.
  - destruct (find_best _ _ _ _ _ S1 W F1) as (p & B1 & V1).
    destruct (find_best _ _ _ _ _ S2 W F2) as (q & B2 & V2).
    destruct (is_best_unique rs s p h q h' D B1 B2) as [-> ->]. subst. reflexivity.
  - exfalso. destruct (find_best _ _ _ _ _ S1 W F1) as (p & (Hp & Mp & _) & _).
    apply (find_complete f2 rs s p h); auto.
  - exfalso. destruct (find_best _ _ _ _ _ S2 W F2) as (p & (Hp & Mp & _) & _).
    apply (find_complete f1 rs s p h'); auto.
Qed.
