(* Decimal rendering (show_N / AppendUint) and ParseUint are inverse on [0, 2^63). *)
From Coq Require Import String.
From Coq Require Import List Strings.Byte NArith ZArith Bool Arith Lia.
From Coq Require Import ZifyN ZifyNat ZifyBool.
Require Import Bytes Show Res Tables Range RangeProofs.
Import ListNotations.

Ltac Zify.zify_post_hook ::= Z.div_mod_to_equations.

Definition digit_of (c : byte) : Z := Z.of_N (n_of c) - 48.
Definition is_digit (c : byte) : Prop := (0 <= digit_of c <= 9)%Z.
Definition val_from (v : Z) (ds : bs) : Z := fold_left (fun a c => (10 * a + digit_of c)%Z) ds v.

Lemma b_of_digit d : (d < 10)%N -> n_of (b_of (48 + d)) = (48 + d)%N.
Proof.
  intros H. assert (E : forallb (fun k => N.eqb (n_of (b_of (48 + N.of_nat k))) (48 + N.of_nat k)) (seq 0 10) = true) by (vm_compute; reflexivity).
  rewrite forallb_forall in E. specialize (E (N.to_nat d)).
  rewrite N2Nat.id in E. apply N.eqb_eq. apply E. apply in_seq. lia.
Qed.

Lemma val_from_app v a b : val_from v (a ++ b) = val_from (val_from v a) b.
Proof. unfold val_from. apply fold_left_app. Qed.

(* show_N produces the decimal digits of n, most significant first *)
Lemma dec_digits_spec : forall f n acc, (Z.of_N n < 10 ^ Z.of_nat f)%Z -> f <> O ->
  exists ds, dec_digits f n acc = ds ++ acc /\ val_from 0 ds = Z.of_N n /\ Forall is_digit ds /\ ds <> [].
Proof.
  induction f as [|f IH]; intros n acc Hn Hf; [congruence|]. cbn [dec_digits].
  set (d := b_of (48 + n mod 10)).
  assert (Hd : digit_of d = Z.of_N (n mod 10)).
  { unfold digit_of, d. rewrite b_of_digit by (apply N.mod_upper_bound; lia). lia. }
  assert (Hdig : is_digit d).
  { unfold is_digit. rewrite Hd. pose proof (N.mod_upper_bound n 10). lia. }
  destruct (N.eqb (n / 10) 0) eqn:Q.
  - apply N.eqb_eq in Q. exists [d]. repeat split; auto; [|discriminate].
    unfold val_from; cbn [fold_left]. rewrite Hd. lia.
  - apply N.eqb_neq in Q.
    assert (Hq : (Z.of_N (n / 10) < 10 ^ Z.of_nat f)%Z).
    { rewrite Nat2Z.inj_succ, Z.pow_succ_r in Hn by lia. lia. }
    assert (Hf' : f <> O).
    { intros ->. simpl in Hq. lia. }
    destruct (IH (n / 10)%N (d :: acc) Hq Hf') as (ds & E & V & F & Ne).
    exists (ds ++ [d]). repeat split.
    + rewrite E, <- app_assoc. reflexivity.
    + rewrite val_from_app, V. unfold val_from; cbn [fold_left]. rewrite Hd. lia.
    + apply Forall_app; auto.
    + destruct ds; discriminate.
Qed.

Lemma size_nat_bound n : (Z.of_N n < 10 ^ Z.of_nat (S (N.size_nat n)))%Z.
Proof.
  assert (H : (Z.of_N n < 2 ^ Z.of_nat (N.size_nat n))%Z).
  { destruct n as [|p]; [simpl; lia|]. simpl N.size_nat.
    induction p as [p IH|p IH|]; cbn [Pos.size_nat].
    - rewrite Nat2Z.inj_succ, Z.pow_succ_r by lia. change (Z.of_N (N.pos p~1)) with (Z.pos p~1).
      change (Z.of_N (N.pos p)) with (Z.pos p) in IH. lia.
    - rewrite Nat2Z.inj_succ, Z.pow_succ_r by lia. change (Z.of_N (N.pos p~0)) with (Z.pos p~0).
      change (Z.of_N (N.pos p)) with (Z.pos p) in IH. lia.
    - simpl. lia. }
  rewrite Nat2Z.inj_succ, Z.pow_succ_r by lia.
  assert (2 ^ Z.of_nat (N.size_nat n) <= 10 ^ Z.of_nat (N.size_nat n))%Z by (apply Z.pow_le_mono_l; lia).
  assert (0 < 10 ^ Z.of_nat (N.size_nat n))%Z by (apply Z.pow_pos_nonneg; lia). lia.
Qed.

Lemma show_N_spec n : val_from 0 (show_N n) = Z.of_N n /\ Forall is_digit (show_N n) /\ show_N n <> [].
Proof.
  unfold show_N. destruct (dec_digits_spec (S (N.size_nat n)) n [] (size_nat_bound n) ltac:(discriminate))
    as (ds & E & V & F & Ne). rewrite E, app_nil_r. auto.
Qed.

(* ParseUintBuf on a digit string whose value fits *)
Lemma val_from_ge ds : Forall is_digit ds -> forall v, (0 <= v)%Z -> (v <= val_from v ds)%Z.
Proof.
  induction 1 as [|c ds Hc _ IH]; intros v Hv; [unfold val_from; cbn [fold_left]; lia|].
  unfold val_from in *. cbn [fold_left]. unfold is_digit in Hc.
  specialize (IH (10 * v + digit_of c)%Z ltac:(lia)). lia.
Qed.

Lemma pub_digits : forall ds i v, Forall is_digit ds -> (0 <= v)%Z -> (val_from v ds < two63)%Z ->
  pub ds i v = PU_ok (val_from v ds) (i + length ds).
Proof.
  induction ds as [|c ds IH]; intros i v F Hv Hb.
  - simpl. rewrite Nat.add_0_r. reflexivity.
  - inversion F as [|? ? Hc Fds]; subst. cbn [pub]. fold (digit_of c). unfold is_digit in Hc.
    assert (K : ((digit_of c <? 0) || (9 <? digit_of c))%bool = false) by lia.
    rewrite K.
    assert (Hn : (0 <= 10 * v + digit_of c)%Z) by lia.
    assert (Hle : (10 * v + digit_of c <= val_from v (c :: ds))%Z).
    { change (val_from v (c :: ds)) with (val_from (10 * v + digit_of c) ds). apply val_from_ge; auto. }
    rewrite wrap64_small by lia.
    assert (L : (10 * v + digit_of c <? v)%Z = false) by lia. rewrite L.
    rewrite IH; auto.
    f_equal. cbn [length]. lia.
Qed.

Theorem parse_uint_show : forall n : Z, (0 <= n < two63)%Z -> parse_uint (show_Z n) = Some n.
Proof.
  intros n Hn.
  assert (E : show_Z n = show_N (Z.to_N n)).
  { destruct n as [|p|p]; try reflexivity. lia. }
  rewrite E. destruct (show_N_spec (Z.to_N n)) as (V & F & Ne).
  rewrite Z2N.id in V by lia.
  unfold parse_uint, parse_uint_buf. destruct (show_N (Z.to_N n)) as [|c ds] eqn:S; [congruence|].
  rewrite pub_digits; auto; [|lia|rewrite V; lia].
  rewrite V. simpl. rewrite Nat.eqb_refl. reflexivity.
Qed.

(* ---------------- ParseByteRange agrees with RFC 7233 on exact numbers ---------------- *)
Open Scope Z_scope.
Definition spec_opt (r : range_spec) : option (Z * Z) :=
  match r with Satisfiable a b => Some (a, b) | Unsatisfiable => None end.

Definition R_ab (a b : Z) : bs := str_bytes ++ cEqual :: show_Z a ++ cDash :: show_Z b.
Definition R_a (a : Z) : bs := str_bytes ++ cEqual :: show_Z a ++ [cDash].
Definition R_suffix (n : Z) : bs := str_bytes ++ cEqual :: cDash :: show_Z n.

Lemma has_prefix_app_self p x : has_prefix p (p ++ x) = true.
Proof. apply has_prefix_spec. eauto. Qed.
Lemma skipn_app_self {A} (p x : list A) : skipn (length p) (p ++ x) = x.
Proof. induction p; simpl; auto. Qed.
Lemma firstn_app_self {A} (p x : list A) : firstn (length p) (p ++ x) = p.
Proof. induction p; simpl; auto. f_equal. auto. Qed.

Lemma digit_not_dash c : is_digit c -> Byte.eqb c cDash = false.
Proof.
  intros H. apply beqb_neq. intros ->. unfold is_digit, digit_of in H. vm_compute in H. destruct H as [H _]. apply H. reflexivity.
Qed.

Lemma index_dash ds rest : Forall is_digit ds -> index_byte cDash (ds ++ cDash :: rest) = Some (length ds).
Proof.
  induction 1 as [|c ds Hc _ IH]; simpl.
  - rewrite ?beqb_refl. reflexivity.
  - rewrite (digit_not_dash c Hc), IH. reflexivity.
Qed.

Lemma show_Z_digits n : 0 <= n -> Forall is_digit (show_Z n) /\ show_Z n <> [].
Proof.
  intros H. assert (E : show_Z n = show_N (Z.to_N n)) by (destruct n; try reflexivity; lia).
  rewrite E. destruct (show_N_spec (Z.to_N n)) as (_ & F & Ne). auto.
Qed.

Theorem range_rfc_ab : forall a b len, 0 <= a < two63 -> 0 <= b < two63 -> 0 <= len ->
  parse_byte_range (R_ab a b) len = spec_opt (rfc_range (Some a) (Some b) len).
Proof.
  intros a b len Ha Hb Hl. unfold parse_byte_range, R_ab.
  rewrite has_prefix_app_self. cbn [negb]. rewrite skipn_app_self. change (Byte.eqb cEqual cEqual) with true. cbn [negb].
  destruct (show_Z_digits a ltac:(lia)) as [Fa Na]. destruct (show_Z_digits b ltac:(lia)) as [Fb Nb].
  rewrite (index_dash _ _ Fa).
  destruct (length (show_Z a)) as [|n] eqn:L; [destruct (show_Z a); [congruence|discriminate]|].
  rewrite <- L. rewrite firstn_app_self, (parse_uint_show a Ha).
  replace (S (length (show_Z a))) with (length (show_Z a ++ [cDash])) by (rewrite app_length; simpl; lia).
  replace (show_Z a ++ cDash :: show_Z b) with ((show_Z a ++ [cDash]) ++ show_Z b) by (rewrite <- app_assoc; reflexivity).
  rewrite skipn_app_self.
  unfold rfc_range. destruct (len <=? a) eqn:E1; [reflexivity|].
  destruct (show_Z b) as [|x r] eqn:Sb; [congruence|]. rewrite <- Sb, (parse_uint_show b Hb).
  apply Z.leb_gt in E1.
  destruct (len <=? b) eqn:E2.
  - apply Z.leb_le in E2. destruct (len - 1 <? a) eqn:E3; [lia|].
    destruct (b <? a) eqn:E4; [lia|]. cbn [spec_opt]. f_equal. f_equal. lia.
  - apply Z.leb_gt in E2. destruct (b <? a) eqn:E4; [reflexivity|]. cbn [spec_opt]. f_equal. f_equal. lia.
Qed.

Theorem range_rfc_a : forall a len, 0 <= a < two63 -> 0 <= len ->
  parse_byte_range (R_a a) len = spec_opt (rfc_range (Some a) None len).
Proof.
  intros a len Ha Hl. unfold parse_byte_range, R_a.
  rewrite has_prefix_app_self. cbn [negb]. rewrite skipn_app_self. change (Byte.eqb cEqual cEqual) with true. cbn [negb].
  destruct (show_Z_digits a ltac:(lia)) as [Fa Na].
  rewrite (index_dash _ _ Fa).
  destruct (length (show_Z a)) as [|n] eqn:L; [destruct (show_Z a); [congruence|discriminate]|].
  rewrite <- L. rewrite firstn_app_self, (parse_uint_show a Ha).
  replace (S (length (show_Z a))) with (length (show_Z a ++ [cDash])) by (rewrite app_length; simpl; lia).
  rewrite skipn_all. unfold rfc_range. destruct (len <=? a); reflexivity.
Qed.

Theorem range_rfc_suffix : forall n len, 0 <= n < two63 -> 0 <= len ->
  parse_byte_range (R_suffix n) len = spec_opt (rfc_range None (Some n) len).
Proof.
  intros n len Hn Hl. unfold parse_byte_range, R_suffix.
  rewrite has_prefix_app_self. cbn [negb]. rewrite skipn_app_self. change (Byte.eqb cEqual cEqual) with true. cbn [negb].
  cbn [index_byte]. change (Byte.eqb cDash cDash) with true. cbn [skipn]. rewrite (parse_uint_show n Hn).
  unfold rfc_range. destruct ((n =? 0) || (len =? 0)); [reflexivity|].
  cbn [spec_opt]. destruct (len - n <? 0) eqn:E; f_equal; f_equal; lia.
Qed.
