(* C08: ParseUint on numerals of ANY size (including those whose 64-bit wrap the overflow test of
   ParseUintBuf misses, D20), and what that means for ParseByteRange: a range that is accepted is the
   RFC 7233 range of the TRUE numbers as long as the representation is shorter than 2^63/10 bytes. *)
From Coq Require Import String.
From Coq Require Import List Strings.Byte NArith ZArith Bool Arith Lia.
From Coq Require Import ZifyN ZifyNat ZifyBool.
Require Import Bytes Show Res Tables Range RangeProofs DecProofs.
Import ListNotations.
Open Scope Z_scope.

Ltac Zify.zify_post_hook ::= Z.div_mod_to_equations.

(* 2^63 div 10: below this value no numeral can come out wrong *)
Definition wrap_floor : Z := 922337203685477580.

(* v is the parser's accumulator, t the true value of the digits read so far *)
Definition tracks (v t : Z) : Prop := v = t \/ (wrap_floor <= v /\ two63 <= t).

Lemma wrap64_range z : - two63 <= wrap64 z < two63.
Proof. unfold wrap64, two63, two64. lia. Qed.

Lemma val_from_ge' ds : Forall is_digit ds -> forall v, 0 <= v -> v <= val_from v ds.
Proof. exact (val_from_ge ds). Qed.

Lemma pub_tracks : forall ds i v t w n, Forall is_digit ds -> 0 <= v < two63 -> tracks v t ->
  pub ds i v = PU_ok w n -> 0 <= w < two63 /\ tracks w (val_from t ds).
Proof.
  induction ds as [|c ds IH]; intros i v t w n F Hv T E.
  - cbn [pub] in E. inversion E; subst. split; [exact Hv|exact T].
  - inversion F as [|? ? Hc Fds]; subst. cbn [pub] in E. fold (digit_of c) in E. unfold is_digit in Hc.
    assert (K : ((digit_of c <? 0) || (9 <? digit_of c))%bool = false) by lia.
    rewrite K in E.
    destruct (wrap64 (10 * v + digit_of c) <? v) eqn:L; [discriminate|].
    apply Z.ltb_ge in L.
    pose proof (wrap64_range (10 * v + digit_of c)) as R.
    change (val_from t (c :: ds)) with (val_from (10 * t + digit_of c) ds).
    apply (IH (S i) (wrap64 (10 * v + digit_of c)) (10 * t + digit_of c) w n Fds); [lia| |exact E].
    destruct T as [-> | [Tv Tt]].
    + destruct (Z_lt_dec (10 * t + digit_of c) two63) as [S|S].
      * left. apply wrap64_small. lia.
      * right. unfold wrap_floor, two63 in *. lia.
    + right. unfold wrap_floor, two63 in *. lia.
Qed.

(* a numeral that ParseUintBuf consumes entirely consists of digits *)
Lemma pub_consumed : forall s i v w n, pub s i v = PU_ok w n ->
  (n <= i + length s)%nat /\ (n = (i + length s)%nat -> Forall is_digit s).
Proof.
  induction s as [|c s IH]; intros i v w n E.
  - cbn [pub] in E. inversion E; subst. cbn [length]. split; [lia|constructor].
  - cbn [pub] in E. fold (digit_of c) in E. cbn [length].
    destruct ((digit_of c <? 0) || (9 <? digit_of c))%bool eqn:K.
    + destruct i as [|i]; [discriminate|]. inversion E; subst. split; [lia|lia].
    + destruct (wrap64 (10 * v + digit_of c) <? v); [discriminate|].
      destruct (IH _ _ _ _ E) as [A Bq]. split; [lia|].
      intros N. constructor; [unfold is_digit; lia|apply Bq; lia].
Qed.

(* ParseUint, every byte string: the result is a non-negative int64; it is the true value of the numeral,
   or else both it and the true value are at least 2^63/10 resp. 2^63. *)
Theorem parse_uint_any : forall s w, parse_uint s = Some w ->
  Forall is_digit s /\ 0 <= w < two63 /\ tracks w (val_from 0 s).
Proof.
  intros s w E. unfold parse_uint, parse_uint_buf in E.
  destruct s as [|c s]; [discriminate|].
  destruct (pub (c :: s) 0 0) as [v n|] eqn:P; [|discriminate].
  destruct (Nat.eqb n (length (c :: s))) eqn:Q; [|discriminate]. inversion E; subst v.
  apply Nat.eqb_eq in Q.
  destruct (pub_consumed _ _ _ _ _ P) as [_ D]. specialize (D ltac:(lia)).
  split; [exact D|].
  apply (pub_tracks (c :: s) 0%nat 0 0 w n D); [unfold two63; lia|left; reflexivity|exact P].
Qed.

Corollary parse_uint_exact_below_floor : forall s w, parse_uint s = Some w ->
  (w < wrap_floor \/ val_from 0 s < two63) -> w = val_from 0 s.
Proof.
  intros s w E H. destruct (parse_uint_any s w E) as (_ & _ & [T | [T1 T2]]); [exact T|lia].
Qed.

(* ---- ParseByteRange on numerals of any size ---- *)
Definition R_raw (da db : bs) : bs := str_bytes ++ cEqual :: da ++ cDash :: db.

Lemma firstn_app_len {A} (p x : list A) : firstn (length p) (p ++ x) = p.
Proof. induction p; simpl; auto. f_equal. auto. Qed.

(* "bytes=<da>-<db>" with both numerals present, any number of digits *)
Theorem range_any_numeral_ab : forall da db len r, Forall is_digit da -> da <> [] -> Forall is_digit db -> db <> [] ->
  0 <= len < wrap_floor ->
  parse_byte_range (R_raw da db) len = Some r ->
  Some r = spec_opt (rfc_range (Some (val_from 0 da)) (Some (val_from 0 db)) len).
Proof.
  intros da db len r Fa Na Fb Nb Hl. unfold parse_byte_range, R_raw.
  rewrite has_prefix_app_self. cbn [negb]. rewrite skipn_app_self. change (Byte.eqb cEqual cEqual) with true. cbn [negb].
  rewrite (index_dash _ _ Fa).
  destruct (length da) as [|n] eqn:L; [destruct da; [congruence|discriminate]|].
  rewrite <- L. rewrite firstn_app_len.
  destruct (parse_uint da) as [st|] eqn:Pa; [|discriminate].
  destruct (parse_uint_any _ _ Pa) as (_ & Rs & Ts).
  destruct (len <=? st) eqn:E1; [discriminate|]. apply Z.leb_gt in E1.
  assert (Es : st = val_from 0 da) by (destruct Ts as [T | [T1 T2]]; [exact T|lia]).
  replace (S (length da)) with (length (da ++ [cDash])) by (rewrite app_length; simpl; lia).
  replace (da ++ cDash :: db) with ((da ++ [cDash]) ++ db) by (rewrite <- app_assoc; reflexivity).
  rewrite skipn_app_self.
  destruct db as [|x rb] eqn:Sb; [congruence|]. rewrite <- Sb in *.
  destruct (parse_uint db) as [en|] eqn:Pb; [|discriminate].
  destruct (parse_uint_any _ _ Pb) as (_ & Re & Te).
  unfold rfc_range. rewrite <- Es.
  assert (G : (len <=? st) = false) by lia. rewrite G.
  destruct (len <=? en) eqn:E2.
  - apply Z.leb_le in E2. destruct (len - 1 <? st) eqn:E3; [lia|]. intros H. inversion H; subst r.
    assert (Hb : len <= val_from 0 db) by (destruct Te as [T | [T1 T2]]; unfold two63, wrap_floor in *; lia).
    destruct (val_from 0 db <? st) eqn:E4; [lia|]. cbn [spec_opt]. f_equal. f_equal. lia.
  - apply Z.leb_gt in E2.
    assert (Ee : en = val_from 0 db) by (destruct Te as [T | [T1 T2]]; [exact T|lia]).
    rewrite <- Ee. destruct (en <? st) eqn:E4; [discriminate|]. intros H. inversion H; subst r. cbn [spec_opt]. f_equal. f_equal. lia.
Qed.

(* "bytes=<da>-" *)
Theorem range_any_numeral_a : forall da len r, Forall is_digit da -> da <> [] -> 0 <= len < wrap_floor ->
  parse_byte_range (str_bytes ++ cEqual :: da ++ [cDash]) len = Some r ->
  Some r = spec_opt (rfc_range (Some (val_from 0 da)) None len).
Proof.
  intros da len r Fa Na Hl. unfold parse_byte_range.
  rewrite has_prefix_app_self. cbn [negb]. rewrite skipn_app_self. change (Byte.eqb cEqual cEqual) with true. cbn [negb].
  rewrite (index_dash _ _ Fa).
  destruct (length da) as [|n] eqn:L; [destruct da; [congruence|discriminate]|].
  rewrite <- L. rewrite firstn_app_len.
  destruct (parse_uint da) as [st|] eqn:Pa; [|discriminate].
  destruct (parse_uint_any _ _ Pa) as (_ & Rs & Ts).
  destruct (len <=? st) eqn:E1; [discriminate|]. apply Z.leb_gt in E1.
  assert (Es : st = val_from 0 da) by (destruct Ts as [T | [T1 T2]]; [exact T|lia]).
  replace (S (length da)) with (length (da ++ [cDash])) by (rewrite app_length; simpl; lia).
  rewrite skipn_all. unfold rfc_range. rewrite <- Es.
  assert (G : (len <=? st) = false) by lia. rewrite G. intros H. inversion H; subst. reflexivity.
Qed.

(* "bytes=-<dn>" *)
Theorem range_any_numeral_suffix : forall dn len r, 0 <= len < wrap_floor ->
  parse_byte_range (str_bytes ++ cEqual :: cDash :: dn) len = Some r ->
  Some r = spec_opt (rfc_range None (Some (val_from 0 dn)) len).
Proof.
  intros dn len r Hl. unfold parse_byte_range.
  rewrite has_prefix_app_self. cbn [negb]. rewrite skipn_app_self. change (Byte.eqb cEqual cEqual) with true. cbn [negb].
  cbn [index_byte]. change (Byte.eqb cDash cDash) with true. cbn [skipn].
  destruct (parse_uint dn) as [v|] eqn:Pn; [|discriminate].
  destruct (parse_uint_any _ _ Pn) as (_ & Rv & Tv).
  unfold rfc_range.
  destruct ((v =? 0) || (len =? 0))%bool eqn:E0; [discriminate|].
  assert (G : ((val_from 0 dn =? 0) || (len =? 0))%bool = false).
  { destruct Tv as [T | [T1 T2]]; [rewrite <- T; exact E0|unfold two63 in *; lia]. }
  rewrite G. intros H. inversion H; subst r. cbn [spec_opt]. f_equal. f_equal.
  destruct Tv as [T | [T1 T2]].
  - rewrite <- T. destruct (len - v <? 0) eqn:E; lia.
  - assert (len - v <? 0 = true) as -> by (unfold wrap_floor in *; lia). unfold two63 in *. lia.
Qed.
