(* C18 proofs over every reachable state of the shutdown transition system (every interleaving of
   accepts, requests, handler returns, connection ends and any number of Shutdown calls). *)
From Coq Require Import String.
From Coq Require Import List Strings.Byte NArith Bool Arith Lia.
Require Import Bytes Show Pool PoolProofs Shutdown.
Import ListNotations.

Definition is_winner (v : spc) : bool :=
  match v with SWon | SWait | SDrained | SDone true _ => true | _ => false end.
Definition past_close (v : spc) : bool :=
  match v with SWait | SDrained | SDone true _ => true | _ => false end.
Definition saw_zero (v : spc) : bool :=
  match v with SDrained | SDone true true => true | _ => false end.

Record Inv (s : st) : Prop := {
  v_supp_c : forall c, nc s <= c -> conns s c = None;
  v_supp_k : forall k, nk s <= k -> callers s k = None;
  v_act : active s = cnt anyb (conns s) (nc s);
  v_win : cnt is_winner (callers s) (nk s) = match status s with StShutdown => 1 | _ => 0 end;
  v_ln : ln s = true -> status s <> StInit /\ cnt past_close (callers s) (nk s) = 0;
  v_init : status s = StInit -> nc s = 0;
  v_zero : 1 <= cnt saw_zero (callers s) (nk s) -> active s = 0;
  v_resp : forall c cl, In (c, cl, false) (resps s) -> cl = true
}.

Lemma inv_init : Inv init.
Proof. constructor; cbn; auto; try lia; try discriminate; try (intros c cl []). Qed.

Lemma cnt_le {A} (f g : A -> bool) m : (forall v, f v = true -> g v = true) -> forall n, cnt f m n <= cnt g m n.
Proof.
  intros H. induction n as [|n IH]; cbn [cnt]; [lia|].
  destruct (m n) as [v|]; cbn [optb]; [|lia].
  destruct (f v) eqn:F; [rewrite (H v F); lia|destruct (g v); lia].
Qed.

Lemma saw_zero_past v : saw_zero v = true -> past_close v = true.
Proof. destruct v as [| | | |[|] [|]]; cbn; auto. Qed.
Lemma past_winner v : past_close v = true -> is_winner v = true.
Proof. destruct v as [| | | |[|] [|]]; cbn; auto. Qed.

(* one caller's state changes *)
Lemma caller_change s k v0 v1 :
  callers s k = Some v0 -> (forall j, nk s <= j -> callers s j = None) ->
  forall f, cnt f (upd (callers s) k (Some v1)) (nk s) + optb f (Some v0) = cnt f (callers s) (nk s) + optb f (Some v1).
Proof.
  intros E Sup f. rewrite <- E. apply cnt_upd. eapply lt_supp; eauto.
Qed.

Ltac fields := cbn [set_status set_ln set_conns set_nc set_active set_callers set_nk set_hooks set_resps set_conn set_caller
                     status ln conns nc active callers nk hooks resps].

(* the eight components, in order: supp_c supp_k act win ln init zero resp *)
Ltac same I := first [apply (v_supp_c _ I) | apply (v_supp_k _ I) | apply (v_act _ I) | apply (v_win _ I)
                     | apply (v_ln _ I) | apply (v_init _ I) | apply (v_zero _ I) | apply (v_resp _ I)].

Lemma supp_k_upd s k v v1 : Inv s -> callers s k = Some v ->
  forall j, nk s <= j -> upd (callers s) k v1 j = None.
Proof.
  intros I K j Hj. rewrite upd_other; [apply (v_supp_k _ I); exact Hj|].
  pose proof (lt_supp _ _ _ _ (v_supp_k _ I) K). lia.
Qed.
Lemma supp_c_upd s c v v1 : Inv s -> conns s c = Some v ->
  forall j, nc s <= j -> upd (conns s) c v1 j = None.
Proof.
  intros I K j Hj. rewrite upd_other; [apply (v_supp_c _ I); exact Hj|].
  pose proof (lt_supp _ _ _ _ (v_supp_c _ I) K). lia.
Qed.

(* a caller moves from v0 to v1: the three counters move accordingly *)
Lemma caller_move s k v0 v1 : Inv s -> callers s k = Some v0 ->
  cnt is_winner (upd (callers s) k (Some v1)) (nk s) + optb is_winner (Some v0) = cnt is_winner (callers s) (nk s) + optb is_winner (Some v1) /\
  cnt past_close (upd (callers s) k (Some v1)) (nk s) + optb past_close (Some v0) = cnt past_close (callers s) (nk s) + optb past_close (Some v1) /\
  cnt saw_zero (upd (callers s) k (Some v1)) (nk s) + optb saw_zero (Some v0) = cnt saw_zero (callers s) (nk s) + optb saw_zero (Some v1).
Proof. intros I K. repeat split; apply caller_change; auto; apply (v_supp_k _ I). Qed.

Theorem step_inv s l s' : Inv s -> step s l = Some s' -> Inv s'.
Proof.
  intros I H. destruct l as [| |c|c keep|c| |k| |k|k|k|k]; cbn [step] in H.
  - (* LRun *)
    destruct (status s) eqn:St; try discriminate. inversion H; subst. constructor; fields.
    + same I. + same I. + same I.
    + rewrite (v_win _ I), St. reflexivity.
    + intros _. split; [discriminate|]. pose proof (v_win _ I) as W. rewrite St in W.
      pose proof (cnt_le past_close is_winner (callers s) past_winner (nk s)). lia.
    + discriminate.
    + same I. + same I.
  - (* LAccept *)
    destruct (ln s) eqn:L; [|discriminate]. inversion H; subst.
    destruct (v_ln _ I L) as [Ni P0].
    constructor; fields.
    + intros c Hc. rewrite upd_other by lia. apply (v_supp_c _ I). lia.
    + same I.
    + rewrite cnt_upd_new. cbn [optb anyb]. rewrite (v_act _ I). lia.
    + same I.
    + intros _. split; auto.
    + intros E. contradiction.
    + intros Z. exfalso. pose proof (cnt_le saw_zero past_close (callers s) saw_zero_past (nk s)). lia.
    + same I.
  - (* LRequest *)
    destruct (conns s c) as [[|]|] eqn:C; try discriminate. inversion H; subst.
    pose proof (lt_supp _ _ _ _ (v_supp_c _ I) C) as Lc.
    constructor; fields.
    + eapply supp_c_upd; eauto.
    + same I.
    + pose proof (cnt_upd (@anyb cst) (conns s) c (Some CBusy) (nc s) Lc) as U. rewrite C in U. cbn [optb anyb] in U.
      rewrite (v_act _ I). lia.
    + same I. + same I. + same I. + same I. + same I.
  - (* LReturn *)
    destruct (conns s c) as [[|]|] eqn:C; try discriminate.
    pose proof (lt_supp _ _ _ _ (v_supp_c _ I) C) as Lc.
    assert (R : forall c0 cl, In (c0, cl, false) ((c, negb keep || negb (is_running s), is_running s) :: resps s) -> cl = true).
    { intros c0 cl [E|E]; [|apply (v_resp _ I c0 cl E)]. inversion E; subst.
      match goal with Hr : is_running s = false |- _ => rewrite Hr end. cbn. apply orb_true_r. }
    destruct (negb keep || negb (is_running s)) eqn:Cl; inversion H; subst.
    + constructor; fields.
      * eapply supp_c_upd; eauto.
      * same I.
      * pose proof (cnt_upd (@anyb cst) (conns s) c None (nc s) Lc) as U. rewrite C in U. cbn [optb anyb] in U.
        rewrite (v_act _ I). lia.
      * same I. * same I. * same I.
      * intros Z. rewrite (v_zero _ I Z). reflexivity.
      * exact R.
    + constructor; fields.
      * eapply supp_c_upd; eauto.
      * same I.
      * pose proof (cnt_upd (@anyb cst) (conns s) c (Some CIdle) (nc s) Lc) as U. rewrite C in U. cbn [optb anyb] in U.
        rewrite (v_act _ I). lia.
      * same I. * same I. * same I. * same I.
      * exact R.
  - (* LDrop *)
    destruct (conns s c) as [[|]|] eqn:C; try discriminate. inversion H; subst.
    pose proof (lt_supp _ _ _ _ (v_supp_c _ I) C) as Lc.
    constructor; fields.
    + eapply supp_c_upd; eauto.
    + same I.
    + pose proof (cnt_upd (@anyb cst) (conns s) c None (nc s) Lc) as U. rewrite C in U. cbn [optb anyb] in U.
      rewrite (v_act _ I). lia.
    + same I. + same I. + same I.
    + intros Z. rewrite (v_zero _ I Z). reflexivity.
    + same I.
  - (* LSLoad *)
    inversion H; subst. clear H.
    assert (E : forall f, f SLoaded = false -> f (SDone false false) = false ->
              cnt f (upd (callers s) (nk s) (Some (if is_running s then SLoaded else SDone false false))) (S (nk s)) = cnt f (callers s) (nk s)).
    { intros f F1 F2. rewrite cnt_upd_new. destruct (is_running s); cbn [optb]; rewrite ?F1, ?F2; lia. }
    constructor; fields.
    + same I.
    + intros k Hk. rewrite upd_other by lia. apply (v_supp_k _ I). lia.
    + same I.
    + rewrite E by reflexivity. apply (v_win _ I).
    + intros L. rewrite E by reflexivity. apply (v_ln _ I L).
    + same I.
    + rewrite E by reflexivity. apply (v_zero _ I).
    + same I.
  - (* LSCas *)
    destruct (callers s k) as [[| | | |]|] eqn:K; try discriminate.
    destruct (is_running s) eqn:Rn; inversion H; subst; clear H.
    + unfold is_running in Rn. destruct (status s) eqn:St; try discriminate.
      destruct (caller_move s k SLoaded SWon I K) as (U1 & U2 & U3). cbn [optb is_winner past_close saw_zero] in *.
      constructor; fields.
      * same I.
      * eapply supp_k_upd; eauto.
      * same I.
      * pose proof (v_win _ I) as W. rewrite St in W. lia.
      * intros L. split; [discriminate|]. destruct (v_ln _ I L) as [_ P]. lia.
      * discriminate.
      * intros Z. apply (v_zero _ I). lia.
      * same I.
    + destruct (caller_move s k SLoaded (SDone false false) I K) as (U1 & U2 & U3). cbn [optb is_winner past_close saw_zero] in *.
      constructor; fields.
      * same I.
      * eapply supp_k_upd; eauto.
      * same I.
      * rewrite <- (v_win _ I). lia.
      * intros L. destruct (v_ln _ I L) as [A P]. split; auto. lia.
      * same I.
      * intros Z. apply (v_zero _ I). lia.
      * same I.
  - (* LHooksDone *)
    destruct (hooks s); try discriminate. inversion H; subst. constructor; fields; same I.
  - (* LSCloseLn *)
    destruct (callers s k) as [[| | | |]|] eqn:K; try discriminate. inversion H; subst; clear H.
    destruct (caller_move s k SWon SWait I K) as (U1 & U2 & U3). cbn [optb is_winner past_close saw_zero] in *.
    constructor; fields.
    + same I.
    + eapply supp_k_upd; eauto.
    + same I.
    + rewrite <- (v_win _ I). lia.
    + discriminate.
    + same I.
    + intros Z. apply (v_zero _ I). lia.
    + same I.
  - (* LSPoll *)
    destruct (callers s k) as [[| | | |]|] eqn:K; try discriminate.
    destruct (Nat.eqb_spec (active s) 0) as [A0|A0]; inversion H; subst; clear H; [|exact I].
    destruct (caller_move s k SWait SDrained I K) as (U1 & U2 & U3). cbn [optb is_winner past_close saw_zero] in *.
    constructor; fields.
    + same I.
    + eapply supp_k_upd; eauto.
    + same I.
    + rewrite <- (v_win _ I). lia.
    + intros L. destruct (v_ln _ I L) as [A P]. split; auto. lia.
    + same I.
    + intros _. exact A0.
    + same I.
  - (* LSFinish *)
    destruct (callers s k) as [[| | | |]|] eqn:K; try discriminate.
    destruct (hooks s); try discriminate. inversion H; subst; clear H.
    destruct (caller_move s k SDrained (SDone true true) I K) as (U1 & U2 & U3). cbn [optb is_winner past_close saw_zero] in *.
    constructor; fields.
    + same I.
    + eapply supp_k_upd; eauto.
    + same I.
    + rewrite <- (v_win _ I). lia.
    + intros L. destruct (v_ln _ I L) as [A P]. split; auto. lia.
    + same I.
    + intros Z. apply (v_zero _ I). lia.
    + same I.
  - (* LSDeadline *)
    destruct (callers s k) as [[| | | |]|] eqn:K; try discriminate; inversion H; subst; clear H.
    + destruct (caller_move s k SWait (SDone true false) I K) as (U1 & U2 & U3). cbn [optb is_winner past_close saw_zero] in *.
      constructor; fields.
      * same I.
      * eapply supp_k_upd; eauto.
      * same I.
      * rewrite <- (v_win _ I). lia.
      * intros L. destruct (v_ln _ I L) as [A P]. split; auto. lia.
      * same I.
      * intros Z. apply (v_zero _ I). lia.
      * same I.
    + destruct (caller_move s k SDrained (SDone true true) I K) as (U1 & U2 & U3). cbn [optb is_winner past_close saw_zero] in *.
      constructor; fields.
      * same I.
      * eapply supp_k_upd; eauto.
      * same I.
      * rewrite <- (v_win _ I). lia.
      * intros L. destruct (v_ln _ I L) as [A P]. split; auto. lia.
      * same I.
      * intros Z. apply (v_zero _ I). lia.
      * same I.
Qed.

Definition reachable (s : st) : Prop := exists ls, run init ls = Some s.

Lemma run_inv : forall ls s s', Inv s -> run s ls = Some s' -> Inv s'.
Proof.
  induction ls as [|l ls IH]; intros s s' I H; cbn [run] in H.
  - inversion H; subst; exact I.
  - destruct (step s l) as [s1|] eqn:E; [|discriminate]. apply (IH s1); [eapply step_inv; eauto|exact H].
Qed.
Theorem reachable_inv s : reachable s -> Inv s.
Proof. intros [ls H]. eapply run_inv; [apply inv_init|exact H]. Qed.

Lemma run_app : forall l1 l2 s s1, run s l1 = Some s1 -> run s (l1 ++ l2) = run s1 l2.
Proof.
  induction l1 as [|l l1 IH]; intros l2 s s1 H; cbn [run app] in *.
  - inversion H; reflexivity.
  - destruct (step s l); [apply IH; exact H|discriminate].
Qed.
Lemma reachable_step s l s' : reachable s -> step s l = Some s' -> reachable s'.
Proof.
  intros [ls H] E. exists (ls ++ [l]). rewrite (run_app ls [l] init s H). cbn [run]. rewrite E. reflexivity.
Qed.

Section Consequences.
  Variable s : st.
  Hypothesis I : Inv s.

  (* at most one Shutdown call ever gets past the compare-and-swap: every other call has
     returned, or will return, errStatusNotRunning *)
  Theorem single_winner k1 k2 v1 v2 :
    callers s k1 = Some v1 -> callers s k2 = Some v2 -> is_winner v1 = true -> is_winner v2 = true -> k1 = k2.
  Proof.
    intros H1 H2 W1 W2.
    assert (L : cnt is_winner (callers s) (nk s) <= 1) by (rewrite (v_win _ I); destruct (status s); lia).
    eapply (cnt_unique is_winner (callers s) (nk s) k1 k2); eauto;
      eapply lt_supp; [apply (v_supp_k _ I)|eauto|apply (v_supp_k _ I)|eauto].
  Qed.

  Theorem nil_result_is_unique k1 k2 d1 d2 :
    callers s k1 = Some (SDone true d1) -> callers s k2 = Some (SDone true d2) -> k1 = k2.
  Proof. intros H1 H2. eapply single_winner; eauto. Qed.

  (* once a Shutdown call has closed the listener (in particular once it has returned nil), no
     connection is accepted any more *)
  Theorem no_accept_after_close k v : callers s k = Some v -> past_close v = true -> ln s = false /\ step s LAccept = None.
  Proof.
    intros H P. assert (L : ln s = false).
    { destruct (ln s) eqn:E; [|reflexivity]. destruct (v_ln _ I E) as [_ Z].
      pose proof (cnt_ge_one past_close (callers s) (nk s) k v (lt_supp _ _ _ _ (v_supp_k _ I) H) H P). lia. }
    split; [exact L|]. cbn [step]. rewrite L. reflexivity.
  Qed.

  (* a call that returned after it saw the counter at zero leaves no connection behind: every
     accepted connection's handler has returned, so every request received was answered completely *)
  Theorem drained_means_no_connection k : callers s k = Some (SDone true true) ->
    active s = 0 /\ forall c, conns s c = None.
  Proof.
    intros H.
    pose proof (cnt_ge_one saw_zero (callers s) (nk s) k _ (lt_supp _ _ _ _ (v_supp_k _ I) H) H eq_refl) as Z.
    pose proof (v_zero _ I Z) as A. split; [exact A|].
    intros c. destruct (le_lt_dec (nc s) c) as [L|L]; [apply (v_supp_c _ I); exact L|].
    pose proof (v_act _ I) as VA. rewrite A in VA. apply (cnt_zero_none (conns s) (nc s)); [symmetry; exact VA|exact L].
  Qed.

  (* the active counter is the number of live connections *)
  Theorem active_counts_connections : active s = cnt anyb (conns s) (nc s).
  Proof. apply (v_act _ I). Qed.

  (* a response written after shutdown began carries Connection: close *)
  Theorem close_after_shutdown_began c cl : In (c, cl, false) (resps s) -> cl = true.
  Proof. apply (v_resp _ I). Qed.
End Consequences.

(* a handler's return always produces a complete response entry, whatever the engine status *)
Theorem return_always_answers s c keep s' :
  step s (LReturn c keep) = Some s' -> exists cl rn, resps s' = (c, cl, rn) :: resps s.
Proof.
  cbn [step]. destruct (conns s c) as [[|]|]; try discriminate.
  destruct (negb keep || negb (is_running s)); intros H; inversion H; subst; cbn; eauto.
Qed.

(* nothing but its own handler's return removes a busy connection: no Shutdown step cuts it *)
Theorem busy_connection_survives s l s' c :
  Inv s -> conns s c = Some CBusy -> step s l = Some s' -> (forall keep, l <> LReturn c keep) -> conns s' c = Some CBusy.
Proof.
  intros I C H N. pose proof (lt_supp _ _ _ _ (v_supp_c _ I) C) as Lc.
  destruct l as [| |c'|c' keep|c'| |k| |k|k|k|k]; cbn [step] in H;
    repeat match type of H with
    | match ?x with _ => _ end = Some _ => destruct x eqn:?; try discriminate
    | (if ?x then _ else _) = Some _ => destruct x eqn:?
    end; inversion H; subst; clear H; fields; auto;
    try (rewrite upd_other; [exact C|intros E; subst; try lia; try congruence]).
  all: exfalso; apply (N keep); reflexivity.
Qed.

(* ---------- the histories of the correspondence check are runs ---------- *)
Lemma step_or_reachable s l : reachable s -> reachable (step_or s l).
Proof. intros R. unfold step_or. destruct (step s l) eqn:E; [eapply reachable_step; eauto|exact R]. Qed.

Lemma settle_reachable : forall fuel s, reachable s -> reachable (settle fuel s).
Proof.
  induction fuel as [|f IH]; intros s R; cbn [settle]; [exact R|].
  destruct (hooks s); try (apply IH; apply step_or_reachable; exact R);
    (destruct (first_caller is_wait s (nk s));
     [destruct (Nat.eqb (active s) 0); [apply IH; apply step_or_reachable; exact R|exact R]
     |destruct (first_caller is_drained s (nk s)); [apply IH; apply step_or_reachable; exact R|exact R]]).
Qed.

Theorem apply_op_reachable s op : reachable s -> reachable (apply_op s op).
Proof.
  intros R. unfold apply_op.
  repeat match goal with |- context[if ?b then _ else _] => destruct b end; auto;
    try (apply settle_reachable); repeat apply step_or_reachable; auto.
  destruct (first_caller is_wait s (nk s)); [apply step_or_reachable|]; exact R.
Qed.
