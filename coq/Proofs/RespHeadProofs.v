(* The response head: the status line a server writes is read back (version, status code, position), and the
   framing decision gives Transfer-Encoding precedence over any Content-Length. *)
From Coq Require Import String.
From Coq Require Import List Strings.Byte NArith ZArith Bool Arith Lia.
Require Import Bytes Show Res Tables Chunk TrailerKeys Range RangeProofs DecProofs HeaderScan HeaderScanProofs ReqHead ReqHeadProofs RespFrame RespHead.
Import ListNotations.
Local Open Scope nat_scope.

Lemma first_line_of line rest : line <> [] -> ~ In LF line ->
  first_nonempty_line (S (length ((line ++ [CR]) ++ LF :: rest))) ((line ++ [CR]) ++ LF :: rest) = Some (line, rest).
Proof.
  intros Ne Ll. set (b := (line ++ [CR]) ++ LF :: rest).
  assert (NL : next_line b = Some (line, rest)).
  { unfold next_line, b. rewrite index_byte_app.
    2:{ intros H. apply in_app_or in H as [H|[H|[]]]; [contradiction|discriminate]. }
    rewrite firstn_app, firstn_all, Nat.sub_diag. cbn [firstn]. rewrite app_nil_r.
    replace (S (length (line ++ [CR]))) with (length ((line ++ [CR]) ++ [LF])) by (rewrite app_length; cbn; lia).
    replace ((line ++ [CR]) ++ LF :: rest) with (((line ++ [CR]) ++ [LF]) ++ rest) by (rewrite <- app_assoc; reflexivity).
    rewrite skipn_app, skipn_all, Nat.sub_diag. cbn [skipn app].
    unfold drop_last_if. rewrite rev_app_distr. cbn [rev app]. change (Byte.eqb CR CR) with true. cbv iota.
    rewrite rev_involutive. reflexivity. }
  cbn [first_nonempty_line]. rewrite NL. destruct line; [congruence|reflexivity].
Qed.

(* digits followed by a byte that is not a digit *)
Lemma pub_digits_then : forall ds i v c r, Forall is_digit ds -> (0 <= v)%Z -> (val_from v ds < two63)%Z ->
  ((digit_of c <? 0) || (9 <? digit_of c))%Z = true -> i + length ds <> 0 ->
  pub (ds ++ c :: r) i v = PU_ok (val_from v ds) (i + length ds).
Proof.
  induction ds as [|d ds IH]; intros i v c r F Hv Hb Hc Hi.
  - cbn [app pub length val_from fold_left]. fold (digit_of c). rewrite Hc. cbn in Hi. rewrite Nat.add_0_r in *.
    destruct i; [congruence|reflexivity].
  - inversion F as [|? ? Hd Fds]; subst. cbn [app pub]. fold (digit_of d). unfold is_digit in Hd.
    assert (K : ((digit_of d <? 0) || (9 <? digit_of d))%Z = false) by lia. rewrite K.
    assert (Hn : (0 <= 10 * v + digit_of d)%Z) by lia.
    assert (Hle : (10 * v + digit_of d <= val_from v (d :: ds))%Z).
    { change (val_from v (d :: ds)) with (val_from (10 * v + digit_of d) ds). apply val_from_ge; auto. }
    rewrite wrap64_small by lia.
    assert (L : (10 * v + digit_of d <? v)%Z = false) by lia. rewrite L.
    rewrite IH; auto; [|cbn [length]; lia]. f_equal. cbn [length]. lia.
Qed.

(* the status line `HTTP/1.1 SP code SP reason CRLF`: version and code come back and parsing stops behind the line *)
Theorem status_line_reads_back code text rest :
  (0 <= code < two63)%Z -> ~ In LF text ->
  parse_status_line (bytestr_StrHTTP11 ++ [SPC] ++ show_Z code ++ [SPC] ++ text ++ CRLF ++ rest) = SLOk true code rest.
Proof.
  intros Hc Tl.
  destruct (show_Z_digits code) as [Dg Ne]; [lia|].
  set (line := bytestr_StrHTTP11 ++ [SPC] ++ show_Z code ++ [SPC] ++ text).
  assert (DL : ~ In LF (show_Z code)).
  { intros K. rewrite Forall_forall in Dg. specialize (Dg _ K). unfold is_digit, digit_of in Dg. vm_compute in Dg. destruct Dg as [D1 _]. apply D1. reflexivity. }
  assert (Ll : ~ In LF line).
  { unfold line. intros H. repeat (apply in_app_or in H as [H|H]); auto;
      try (vm_compute in H; repeat destruct H as [H|H]; try discriminate; auto). }
  assert (Eb : bytestr_StrHTTP11 ++ [SPC] ++ show_Z code ++ [SPC] ++ text ++ CRLF ++ rest = (line ++ [CR]) ++ LF :: rest).
  { unfold line, CRLF. rewrite <- !app_assoc. reflexivity. }
  unfold parse_status_line. rewrite Eb, first_line_of; [|unfold line; discriminate|exact Ll].
  assert (IS : index_byte SPC line = Some (length bytestr_StrHTTP11)).
  { unfold line. apply index_byte_app. vm_compute. intros H. repeat destruct H as [H|H]; try discriminate; auto. }
  rewrite IS.
  assert (S1 : skipn (S (length bytestr_StrHTTP11)) line = show_Z code ++ SPC :: text) by reflexivity.
  assert (F1 : firstn (length bytestr_StrHTTP11) line = bytestr_StrHTTP11) by reflexivity.
  rewrite S1, F1.
  assert (V : val_from 0 (show_Z code) = code).
  { assert (E : show_Z code = show_N (Z.to_N code)) by (destruct code; try reflexivity; lia).
    rewrite E. destruct (show_N_spec (Z.to_N code)) as (V & _ & _). rewrite V. lia. }
  assert (P : parse_uint_buf (show_Z code ++ SPC :: text) = PU_ok code (length (show_Z code))).
  { unfold parse_uint_buf. destruct (show_Z code ++ SPC :: text) eqn:E; [destruct (show_Z code); discriminate|]. rewrite <- E.
    rewrite pub_digits_then; [rewrite V; reflexivity|exact Dg|lia|rewrite V; lia|reflexivity|].
    destruct (show_Z code); [congruence|discriminate]. }
  rewrite P. rewrite nth_error_app2 by lia. rewrite Nat.sub_diag. cbn [nth_error]. rewrite beqb_refl.
  rewrite (proj2 (bs_eqb_eq _ _) eq_refl). reflexivity.
Qed.

(* ---------- framing ---------- *)
Lemma rchunked_absorbing : forall fs e, fst (fold_left rframe_step fs ((-1)%Z, e)) = (-1)%Z.
Proof.
  induction fs as [|[k v] fs IH]; intros e; cbn [fold_left]; [reflexivity|].
  unfold rframe_step at 2. destruct k as [|k0 k]; [apply IH|].
  destruct (ci_compare (k0 :: k) bytestr_StrContentLength); [cbn; apply IH|].
  destruct (ci_compare (k0 :: k) bytestr_StrTransferEncoding); [|apply IH].
  destruct (bs_eqb v bytestr_StrIdentity); apply IH.
Qed.

Definition is_te_chunked (kv : bs * bs) : bool :=
  ci_compare (fst kv) bytestr_StrTransferEncoding && negb (bs_eqb (snd kv) bytestr_StrIdentity).

(* whenever some field is a Transfer-Encoding other than identity the message is chunked, whatever
   Content-Length fields come before or after it *)
Theorem resp_transfer_encoding_wins : forall fs st,
  existsb is_te_chunked fs = true -> fst (fold_left rframe_step fs st) = (-1)%Z.
Proof.
  induction fs as [|[k v] fs IH]; intros st H; [discriminate|].
  cbn [existsb] in H. cbn [fold_left]. apply orb_true_iff in H. destruct H as [H|H]; [|apply IH; exact H].
  unfold is_te_chunked in H; cbn [fst snd] in H. apply andb_true_iff in H. destruct H as [H1 H2].
  destruct st as [clen e]. unfold rframe_step at 2.
  destruct k as [|k0 k]; [discriminate H1|].
  destruct (ci_compare (k0 :: k) bytestr_StrContentLength) eqn:CL.
  { apply ci_compare_length in CL. apply ci_compare_length in H1. rewrite CL in H1. vm_compute in H1. discriminate. }
  rewrite H1. apply negb_true_iff in H2. rewrite H2. apply rchunked_absorbing.
Qed.

(* a single Content-Length and no Transfer-Encoding: the declared length *)
Theorem resp_content_length_reads : forall n : Z, (0 <= n < two63)%Z ->
  rframe_of [(bytestr_StrContentLength, show_Z n)] = (n, false).
Proof.
  intros n H. unfold rframe_of. cbn [fold_left]. unfold rframe_step.
  replace (ci_compare bytestr_StrContentLength bytestr_StrContentLength) with true by reflexivity.
  cbn [bytestr_StrContentLength]. rewrite parse_uint_show by exact H. reflexivity.
Qed.

(* ---------------- connection persistence ---------------- *)
Definition no_keep_alive (fs : list (bs * bs)) : Prop :=
  forall stored, snd (rconn_of fs) = Some stored -> has_value stored bytestr_StrKeepAlive = false.

Lemma has_value_nil x : has_value [] x = false.
Proof. reflexivity. Qed.

(* a body delimited by the end of the connection: the connection is never kept *)
Theorem resp_close_until_close : forall h11 status fs, must_skip_content_length status = false ->
  no_keep_alive fs -> resp_close h11 status (-2)%Z fs = true.
Proof.
  intros h11 status fs Hs Hk. unfold resp_close, no_keep_alive in *.
  destruct (rconn_of fs) as [cl first]. cbn [snd] in Hk.
  assert (K : has_value (match first with Some v => v | None => [] end) bytestr_StrKeepAlive = false).
  { destruct first as [v|]; [apply Hk; reflexivity|apply has_value_nil]. }
  rewrite K, Hs. destruct cl, h11; reflexivity.
Qed.

(* HTTP/1.0 (or any other version text) without a keep-alive token: closed, whatever the framing *)
Theorem resp_close_http10 : forall status clen fs, no_keep_alive fs -> resp_close false status clen fs = true.
Proof.
  intros status clen fs Hk. unfold resp_close, no_keep_alive in *.
  destruct (rconn_of fs) as [cl first]. cbn [snd] in Hk.
  assert (K : has_value (match first with Some v => v | None => [] end) bytestr_StrKeepAlive = false).
  { destruct first as [v|]; [apply Hk; reflexivity|apply has_value_nil]. }
  rewrite K. destruct cl; cbn [negb andb];
    destruct ((clen =? -2)%Z && true && negb (must_skip_content_length status)); reflexivity.
Qed.

(* a final "Connection: close" (any letter case of the name) closes, whatever came before *)
Theorem resp_close_last_field : forall h11 status clen fs name,
  name <> [] -> ci_compare name bytestr_StrConnection = true ->
  resp_close h11 status clen (fs ++ [(name, bytestr_StrClose)]) = true.
Proof.
  intros h11 status clen fs name Hn Hc. unfold resp_close, rconn_of. rewrite fold_left_app. cbn [fold_left].
  match goal with |- context[rconn_step ?st _] => destruct st as [cl first] end.
  assert (E : rconn_step (cl, first) (name, bytestr_StrClose) = (true, first)).
  { unfold rconn_step. destruct name as [|c name']; [congruence|]. rewrite Hc. reflexivity. }
  rewrite E. cbv beta iota zeta. cbn [negb andb].
  destruct ((clen =? -2)%Z && true && negb (must_skip_content_length status)); destruct h11; reflexivity.
Qed.

(* ---- request side ---- *)
Theorem req_close_http10 : forall fs, no_keep_alive fs -> req_close false fs = true.
Proof.
  intros fs Hk. unfold req_close, no_keep_alive in *.
  destruct (rconn_of fs) as [cl first]. cbn [snd] in Hk.
  assert (K : has_value (match first with Some v => v | None => [] end) bytestr_StrKeepAlive = false).
  { destruct first as [v|]; [apply Hk; reflexivity|apply has_value_nil]. }
  rewrite K. destruct cl; reflexivity.
Qed.

Theorem req_close_last_field : forall h11 fs name,
  name <> [] -> ci_compare name bytestr_StrConnection = true ->
  req_close h11 (fs ++ [(name, bytestr_StrClose)]) = true.
Proof.
  intros h11 fs name Hn Hc. unfold req_close, rconn_of. rewrite fold_left_app. cbn [fold_left].
  match goal with |- context[rconn_step ?st _] => destruct st as [cl first] end.
  assert (E : rconn_step (cl, first) (name, bytestr_StrClose) = (true, first)).
  { unfold rconn_step. destruct name as [|c name']; [congruence|]. rewrite Hc. reflexivity. }
  rewrite E. cbv beta iota zeta. cbn [negb andb]. destruct h11; reflexivity.
Qed.
