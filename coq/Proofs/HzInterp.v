(* C16: the statements hz prints mean what the tree says — executing Register's body (Go block
   scoping, hertz group/path joining) registers, for every node that has a handler, its verb,
   the joined path of its ancestors, and the middleware chain root … parent group … own handler
   middleware; no variable is undefined or redeclared. *)
From Coq Require Import String.
From Coq Require Import List Strings.Byte NArith Bool Arith Lia Permutation.
Require Import Bytes Show HzRouter HzProofs.
Import ListNotations.

(* ---------- big-step meaning of the statements (the executable `interp` follows it) ---------- *)
Definition scope := list (bs * (bs * list bs)).
Definition declared (v : bs) (sc : scope) : bool := existsb (fun kv => bs_eqb v (fst kv)) sc.

Inductive exec : list stmt -> env -> list reg -> env -> Prop :=
| ENil e : exec [] e [] e
| EGroup var base path mw rest sc outer pre ch rs e' :
    lookup_env base (sc :: outer) = Some (pre, ch) -> declared var sc = false ->
    exec rest (((var, (join_path pre path, ch ++ [mw])) :: sc) :: outer) rs e' ->
    exec (SGroup var base path mw :: rest) (sc :: outer) rs e'
| EHandle grp verb path mw h rest e pre ch rs e' :
    lookup_env grp e = Some (pre, ch) -> exec rest e rs e' ->
    exec (SHandle grp verb path mw h :: rest) e
         ({| r_verb := verb; r_path := join_path pre path; r_chain := ch ++ [mw]; r_handler := h |} :: rs) e'
| EBlock body rest e rs1 eb rs2 e' :
    exec body ([] :: e) rs1 eb -> exec rest e rs2 e' ->
    exec (SBlock body :: rest) e (rs1 ++ rs2) e'.

Lemma exec_app a b e r1 e1 r2 e2 : exec a e r1 e1 -> exec b e1 r2 e2 -> exec (a ++ b) e (r1 ++ r2) e2.
Proof.
  intros H. revert b r2 e2. induction H; intros b r2' e2' Hb; cbn [app].
  - exact Hb.
  - econstructor; eauto.
  - econstructor; eauto.
  - rewrite <- app_assoc. econstructor; eauto.
Qed.

(* the executable interpreter computes exactly this meaning, given enough fuel *)
Lemma interp_exec : forall ss e rs e', exec ss e rs e' -> exists F, forall F', F <= F' -> interp F' ss e = Some (rs, e').
Proof.
  intros ss e rs e' H. induction H.
  - exists 1. intros F' L. destruct F'; [lia|]. reflexivity.
  - destruct IHexec as [F IH]. exists (S F). intros F' L. destruct F' as [|F']; [lia|].
    cbn [interp]. rewrite H. unfold declared in H0. rewrite H0. apply IH. lia.
  - destruct IHexec as [F IH]. exists (S F). intros F' L. destruct F' as [|F']; [lia|].
    cbn [interp]. rewrite H. rewrite (IH F') by lia. reflexivity.
  - destruct IHexec1 as [F1 IH1]. destruct IHexec2 as [F2 IH2]. exists (S (F1 + F2)). intros F' L.
    destruct F' as [|F']; [lia|]. cbn [interp]. rewrite (IH1 F') by lia. rewrite (IH2 F') by lia. reflexivity.
Qed.

(* ---------- what the tree says should be registered, with the names dye_node hands out ---------- *)
Definition grp_val : Type := bs * list bs.     (* absolute prefix, middleware chain *)

Fixpoint sem_kids (sm : node -> list bs -> option (list reg * list bs)) (cs : list node) (used : list bs)
  : option (list reg * list bs) :=
  match cs with
  | [] => Some ([], used)
  | c :: r => match sm c used with
              | None => None
              | Some (rs, u1) => match sem_kids sm r u1 with
                                 | None => None
                                 | Some (rs2, u2) => Some (rs ++ rs2, u2)
                                 end
              end
  end.

Fixpoint sem (fuel : nat) (g : grp_val) (n : node) (used : list bs) : option (list reg * list bs) :=
  match fuel with
  | O => None
  | S f =>
      match dye_node n used with
      | None => None
      | Some (mw, hmw, used1) =>
          let here := match n_handler n with
                      | Some (h, m) => [{| r_verb := m; r_path := join_path (fst g) (n_path n);
                                           r_chain := snd g ++ [hmw ++ B "Mw"]; r_handler := h |}]
                      | None => []
                      end in
          let baseg : grp_val := if bs_eqb (n_path n) [sl] then ([sl], []) else g in
          let g' : grp_val := (join_path (fst baseg) (n_path n), snd baseg ++ [mw ++ B "Mw"]) in
          match sem_kids (sem f g') (n_children n) used1 with
          | Some (rs, u) => Some (here ++ rs, u)
          | None => None
          end
      end
  end.

(* ---------- environments built by the generated code ---------- *)
Definition keys (e : env) : list bs := flat_map (map fst) e.
Definition env_ok (e : env) (used : list bs) : Prop :=
  forall k, In k (keys e) -> k = B "r" \/ k = B "root" \/ exists u, k = B "_" ++ u /\ In u used.

Lemma lookup_in_keys : forall e v x, lookup_env v e = Some x -> In v (keys e).
Proof.
  induction e as [|sc r IH]; intros v x H; cbn [lookup_env] in H; [discriminate|].
  unfold keys. cbn [flat_map]. apply in_or_app.
  destruct (find (fun kv => bs_eqb v (fst kv)) sc) as [kv|] eqn:F.
  - left. apply find_some in F as [Hin E]. apply bs_eqb_eq in E. subst. apply in_map. exact Hin.
  - right. eapply IH; eauto.
Qed.

Lemma declared_false_notin v sc : declared v sc = false <-> ~ In v (map fst sc).
Proof.
  unfold declared. induction sc as [|kv r IH]; cbn [existsb map In]; [intuition|].
  rewrite orb_false_iff, IH. split.
  - intros [A B] [C|C]; [|tauto]. subst. rewrite (proj2 (bs_eqb_eq _ _) eq_refl) in A. discriminate.
  - intros H. split; [|tauto]. destruct (bs_eqb v (fst kv)) eqn:E; [|reflexivity].
    apply bs_eqb_eq in E. subst. exfalso. apply H. left. reflexivity.
Qed.

Lemma lookup_push v k x sc outer : v <> k ->
  lookup_env v (((k, x) :: sc) :: outer) = lookup_env v (sc :: outer).
Proof.
  intros N. cbn [lookup_env find fst]. destruct (bs_eqb v k) eqn:E; [apply bs_eqb_eq in E; contradiction|reflexivity].
Qed.
Lemma lookup_block v e : lookup_env v ([] :: e) = lookup_env v e.
Proof. reflexivity. Qed.

Lemma dye_fresh n used mw hmw used1 : dye_node n used = Some (mw, hmw, used1) ->
  exists u, mw = B "_" ++ u /\ ~ In u used /\ In u used1 /\ incl used used1.
Proof.
  unfold dye_node. intros D.
  destruct (n_handler n) as [[h m]|].
  - destruct (n_children n).
    + destruct (unique_name (mw_name (raw_handler_name h)) used) as [[u0 us]|] eqn:U; [|discriminate].
      inversion D; subst. destruct (unique_name_fresh _ _ _ _ U) as [F ->]. apply mem_false_In in F.
      exists u0. repeat split; auto; [left; reflexivity|intros x Hx; right; exact Hx].
    + destruct (unique_name (mw_name (drop_lead_slash (n_path n))) used) as [[u1 us1]|] eqn:U1; [|discriminate].
      destruct (unique_name (mw_name (raw_handler_name h)) us1) as [[u2 us2]|] eqn:U2; [|discriminate].
      inversion D; subst. destruct (unique_name_fresh _ _ _ _ U1) as [F1 ->].
      destruct (unique_name_fresh _ _ _ _ U2) as [F2 ->]. apply mem_false_In in F1.
      exists u1. repeat split; auto; [right; left; reflexivity|intros x Hx; right; right; exact Hx].
  - destruct (unique_name (mw_name (drop_lead_slash (n_path n))) used) as [[u1 us1]|] eqn:U1; [|discriminate].
    destruct (unique_name [] us1) as [[u2 us2]|] eqn:U2; [|discriminate].
    inversion D; subst. destruct (unique_name_fresh _ _ _ _ U1) as [F1 ->].
    destruct (unique_name_fresh _ _ _ _ U2) as [F2 ->]. apply mem_false_In in F1.
    exists u1. repeat split; auto; [right; left; reflexivity|intros x Hx; right; right; exact Hx].
Qed.

Lemma emit_incl f grp n used ss used' : emit f grp n used = Some (ss, used') -> incl used used'.
Proof.
  intros H. destruct (emit_adds _ _ _ _ _ _ H) as (fresh & vars & E & _). subst. intros x Hx. apply in_or_app. auto.
Qed.
Lemma emit_kids_incl em cs used ss used' :
  (forall c u s u', em c u = Some (s, u') -> incl u u') -> emit_kids em cs used = Some (ss, used') -> incl used used'.
Proof.
  intros Hem. revert used ss used'. induction cs as [|c r IH]; intros used ss used' H; cbn [emit_kids] in H.
  - inversion H; subst. apply incl_refl.
  - destruct (em c used) as [[body u1]|] eqn:E; [|discriminate].
    destruct (emit_kids em r u1) as [[rest u2]|] eqn:K; [|discriminate]. inversion H; subst.
    eapply incl_tran; [eapply Hem; eauto|eapply IH; eauto].
Qed.

(* new bindings carry names that were handed out during this emission *)
Definition newkeys (add : scope) (used used' : list bs) : Prop :=
  forall k, In k (map fst add) -> exists u, k = B "_" ++ u /\ In u used' /\ ~ In u used.

Lemma env_ok_mono e used used' : incl used used' -> env_ok e used -> env_ok e used'.
Proof.
  intros I H k Hk. destruct (H k Hk) as [A|[A|(u & A & B)]]; auto. right. right. exists u. auto.
Qed.

Lemma keys_cons sc outer : keys (sc :: outer) = map fst sc ++ keys outer.
Proof. reflexivity. Qed.

Lemma env_ok_add add sc outer used used' :
  incl used used' -> newkeys add used used' -> env_ok (sc :: outer) used -> env_ok ((add ++ sc) :: outer) used'.
Proof.
  intros I N H k Hk. rewrite keys_cons, map_app in Hk. apply in_app_or in Hk as [Hk|Hk].
  - apply in_app_or in Hk as [Hk|Hk].
    + destruct (N k Hk) as (u & A & B & _). right. right. exists u. auto.
    + apply (env_ok_mono _ _ _ I H). rewrite keys_cons. apply in_or_app. auto.
  - apply (env_ok_mono _ _ _ I H). rewrite keys_cons. apply in_or_app. auto.
Qed.

Lemma app_inj_us (a b : bs) : B "_" ++ a = B "_" ++ b -> a = b.
Proof. apply app_inv_head. Qed.

(* a variable that was visible before is still what it was after new, differently named bindings *)
Lemma lookup_add v add sc outer used used' :
  In v (keys (sc :: outer)) -> env_ok (sc :: outer) used -> newkeys add used used' ->
  lookup_env v ((add ++ sc) :: outer) = lookup_env v (sc :: outer).
Proof.
  intros Hv Ok N. induction add as [|[k x] add IH]; [reflexivity|].
  cbn [app]. rewrite lookup_push.
  - apply IH. intros k' Hk'. apply N. right. exact Hk'.
  - intros E. subst k. destruct (N v (or_introl eq_refl)) as (u & A & _ & Nu).
    destruct (Ok v Hv) as [B1|[B1|(u' & B1 & B2)]]; subst; try discriminate.
    apply app_inj_us in B1. subst. contradiction.
Qed.

Section EmitExec.
  Variable f : nat.
  (* induction hypothesis for the children, one fuel level down *)
  Hypothesis IHf : forall grp n used ss used' sc outer g,
    emit f grp n used = Some (ss, used') ->
    lookup_env grp (sc :: outer) = Some g -> lookup_env (B "r") (sc :: outer) = Some ([sl], []) ->
    env_ok (sc :: outer) used ->
    exists rs add, sem f g n used = Some (rs, used') /\ exec ss (sc :: outer) rs ((add ++ sc) :: outer) /\ newkeys add used used'.

  Lemma kids_exec mw g' : forall cs used ss used' sc outer,
    emit_kids (emit f mw) cs used = Some (ss, used') ->
    lookup_env mw (sc :: outer) = Some g' -> lookup_env (B "r") (sc :: outer) = Some ([sl], []) ->
    env_ok (sc :: outer) used ->
    exists rs add, sem_kids (sem f g') cs used = Some (rs, used') /\ exec ss (sc :: outer) rs ((add ++ sc) :: outer) /\ newkeys add used used'.
  Proof.
    induction cs as [|c r IH]; intros used ss used' sc outer H Lm Lr Ok; cbn [emit_kids] in H.
    - inversion H; subst. exists [], []. repeat split; [constructor|intros k []].
    - destruct (emit f mw c used) as [[body u1]|] eqn:E; [|discriminate].
      destruct (emit_kids (emit f mw) r u1) as [[rest u2]|] eqn:K; [|discriminate]. inversion H; subst. clear H.
      pose proof (emit_incl _ _ _ _ _ _ E) as I1.
      pose proof (emit_kids_incl _ _ _ _ _ (fun c0 u s u' => emit_incl f mw c0 u s u') K) as I2.
      destruct (n_handler c) eqn:Hc.
      + (* inline child *)
        destruct (IHf _ _ _ _ _ sc outer g' E Lm Lr Ok) as (rs1 & add1 & S1 & X1 & N1).
        assert (Ok1 : env_ok ((add1 ++ sc) :: outer) u1) by (eapply env_ok_add; eauto).
        assert (Lm1 : lookup_env mw ((add1 ++ sc) :: outer) = Some g').
        { rewrite (lookup_add mw add1 sc outer used u1); auto. eapply lookup_in_keys; eauto. }
        assert (Lr1 : lookup_env (B "r") ((add1 ++ sc) :: outer) = Some ([sl], [])).
        { rewrite (lookup_add (B "r") add1 sc outer used u1); auto. eapply lookup_in_keys; eauto. }
        destruct (IH u1 rest used' (add1 ++ sc) outer K Lm1 Lr1 Ok1) as (rs2 & add2 & S2 & X2 & N2).
        exists (rs1 ++ rs2), (add2 ++ add1). cbn [sem_kids]. rewrite S1, S2. split; [reflexivity|]. split.
        * rewrite <- app_assoc. eapply exec_app; eauto.
        * intros k Hk. rewrite map_app in Hk. apply in_app_or in Hk as [Hk|Hk].
          -- destruct (N2 k Hk) as (u & A & B1 & C). exists u. repeat split; auto.
          -- destruct (N1 k Hk) as (u & A & B1 & C). exists u. repeat split; auto.
      + (* pure group: its statements sit in a block *)
        assert (Lmb : lookup_env mw ([] :: sc :: outer) = Some g') by exact Lm.
        assert (Lrb : lookup_env (B "r") ([] :: sc :: outer) = Some ([sl], [])) by exact Lr.
        assert (Okb : env_ok ([] :: sc :: outer) used) by exact Ok.
        destruct (IHf _ _ _ _ _ [] (sc :: outer) g' E Lmb Lrb Okb) as (rs1 & add1 & S1 & X1 & N1).
        assert (Ok1 : env_ok (sc :: outer) u1) by (eapply env_ok_mono; eauto).
        destruct (IH u1 rest used' sc outer K Lm Lr Ok1) as (rs2 & add2 & S2 & X2 & N2).
        exists (rs1 ++ rs2), add2. cbn [sem_kids]. rewrite S1, S2. split; [reflexivity|]. split.
        * cbn [app]. econstructor; eauto.
        * intros k Hk. destruct (N2 k Hk) as (u & A & B1 & C). exists u. repeat split; auto.
  Qed.
End EmitExec.

Theorem emit_exec : forall f grp n used ss used' sc outer g,
  emit f grp n used = Some (ss, used') ->
  lookup_env grp (sc :: outer) = Some g -> lookup_env (B "r") (sc :: outer) = Some ([sl], []) ->
  env_ok (sc :: outer) used ->
  exists rs add, sem f g n used = Some (rs, used') /\ exec ss (sc :: outer) rs ((add ++ sc) :: outer) /\ newkeys add used used'.
Proof.
  induction f as [|f IHf]; intros grp n used ss used' sc outer g H Lg Lr Ok; cbn [emit] in H; [discriminate|].
  destruct (dye_node n used) as [[[mw hmw] used1]|] eqn:D; [|discriminate].
  destruct (emit_kids (emit f mw) (n_children n) used1) as [[ks u]|] eqn:K; [|discriminate].
  inversion H; subst. clear H.
  destruct (dye_fresh _ _ _ _ _ D) as (u1 & Emw & Fu1 & Iu1 & Inc1).
  cbn [sem]. rewrite D.
  match goal with |- context[sem_kids (sem f (join_path (fst ?BG) _, _)) _ _] => set (baseg := BG) end.
  match goal with |- context[sem_kids (sem f ?G) _ _] => set (g' := G) end.
  assert (Nmw : ~ In mw (keys (sc :: outer))).
  { intros Hin. destruct (Ok mw Hin) as [A|[A|(u' & A & B1)]]; subst; try discriminate.
    apply app_inj_us in A. subst. contradiction. }
  destruct (n_children n) as [|c0 cr] eqn:Hc.
  - (* no children: no group line, nothing below *)
    cbn [emit_kids] in K. inversion K; subst. cbn [sem_kids].
    exists (match n_handler n with
            | Some (h, m) => [{| r_verb := m; r_path := join_path (fst g) (n_path n); r_chain := snd g ++ [hmw ++ B "Mw"]; r_handler := h |}]
            | None => [] end ++ []), [].
    split; [reflexivity|]. split; [|intros k []].
    rewrite !app_nil_r. cbn [app]. destruct (n_handler n) as [[h m]|].
    + destruct g as [pre ch]. econstructor; [exact Lg|constructor].
    + constructor.
  - (* a group line, then the children *)
    assert (Lb : lookup_env (if bs_eqb (n_path n) [sl] then B "r" else grp) (sc :: outer) = Some baseg).
    { unfold baseg. destruct (bs_eqb (n_path n) [sl]); [exact Lr|exact Lg]. }
    assert (Dc : declared mw sc = false).
    { apply declared_false_notin. intros Hin. apply Nmw. rewrite keys_cons. apply in_or_app. auto. }
    assert (Ok1 : env_ok (((mw, g') :: sc) :: outer) used1).
    { apply (env_ok_add [(mw, g')] sc outer used used1); auto.
      intros k [<-|[]]. exists u1. auto. }
    assert (Lm1 : lookup_env mw (((mw, g') :: sc) :: outer) = Some g').
    { cbn [lookup_env find fst]. rewrite (proj2 (bs_eqb_eq _ _) eq_refl). reflexivity. }
    assert (Lr1 : lookup_env (B "r") (((mw, g') :: sc) :: outer) = Some ([sl], [])).
    { rewrite lookup_push; [exact Lr|]. subst mw. discriminate. }
    destruct (kids_exec f IHf mw g' (c0 :: cr) used1 ks used' ((mw, g') :: sc) outer K Lm1 Lr1 Ok1)
      as (rs2 & add2 & S2 & X2 & N2).
    rewrite S2.
    exists (match n_handler n with
            | Some (h, m) => [{| r_verb := m; r_path := join_path (fst g) (n_path n); r_chain := snd g ++ [hmw ++ B "Mw"]; r_handler := h |}]
            | None => [] end ++ rs2), (add2 ++ [(mw, g')]).
    split; [reflexivity|]. split.
    + assert (XG : exec (SGroup mw (if bs_eqb (n_path n) [sl] then B "r" else grp) (n_path n) (mw ++ B "Mw") :: ks)
                     (sc :: outer) rs2 (((add2 ++ [(mw, g')]) ++ sc) :: outer)).
      { clear S2. unfold g', baseg in X2. clear Lb Ok1 Lm1 Lr1 N2. destruct (bs_eqb (n_path n) [sl]) eqn:Ep.
        - econstructor; [exact Lr|exact Dc|]. rewrite <- app_assoc. cbn [app]. exact X2.
        - destruct g as [pre ch]. econstructor; [exact Lg|exact Dc|]. rewrite <- app_assoc. cbn [app]. exact X2. }
      destruct (n_handler n) as [[h m]|]; cbn [app].
      * destruct g as [pre ch]. econstructor; [exact Lg|exact XG].
      * exact XG.
    + intros k Hk. rewrite map_app in Hk. apply in_app_or in Hk as [Hk|Hk].
      * destruct (N2 k Hk) as (u' & A & B1 & C). exists u'. repeat split; auto.
      * destruct Hk as [<-|[]]. exists u1. repeat split; auto.
        apply (emit_kids_incl _ _ _ _ _ (fun c1 u0 s u' => emit_incl f mw c1 u0 s u') K). exact Iu1.
Qed.

(* ---------- what `sem` registers is what the tree holds ---------- *)
(* the text of a list of path elements below the root element "/" *)
Definition text_of (elems : list bs) : bs := concat (tl elems).
Definition prefix_val (elems : list bs) : bs := match text_of elems with [] => [sl] | t => t end.

(* a tree as hz builds it from paths without an empty interior segment: every node's path is "/"
   followed by a segment, and a node whose segment is empty (a trailing slash) has no children *)
Fixpoint wf (n : node) : Prop :=
  match n with
  | Node p _ cs =>
      (exists seg, p = sl :: seg /\ ~ In sl seg /\ (seg = [] -> cs = [])) /\
      (fix all (l : list node) : Prop := match l with [] => True | c :: r => wf c /\ all r end) cs
  end.
Fixpoint wf_all (l : list node) : Prop := match l with [] => True | c :: r => wf c /\ wf_all r end.
Lemma wf_node p h cs : wf (Node p h cs) <->
  (exists seg, p = sl :: seg /\ ~ In sl seg /\ (seg = [] -> cs = [])) /\ wf_all cs.
Proof.
  cbn [wf]. assert (E : forall l, (fix all (l : list node) : Prop := match l with [] => True | c :: r => wf c /\ all r end) l <-> wf_all l).
  { induction l as [|c r IH]; cbn; [tauto|]. rewrite IH. tauto. }
  rewrite E. tauto.
Qed.

Definition no_trailing_slash (t : bs) : Prop := match rev t with c :: _ => c <> sl | [] => True end.

Lemma join_prefix elems p : no_trailing_slash (text_of elems) -> join_path (prefix_val elems) p = text_of elems ++ p.
Proof.
  unfold prefix_val, join_path, no_trailing_slash. destruct (text_of elems) as [|c t] eqn:E.
  - intros _. cbn. rewrite beqb_refl. reflexivity.
  - destruct (rev (c :: t)) as [|x r] eqn:R; intros H.
    + apply (f_equal (@rev byte)) in R. rewrite rev_involutive in R. discriminate.
    + destruct (Byte.eqb x sl) eqn:X; [apply beqb_eq in X; contradiction|reflexivity].
Qed.

Lemma text_snoc elems p : elems <> [] -> text_of (elems ++ [p]) = text_of elems ++ p.
Proof.
  destruct elems as [|e r]; [congruence|]. intros _. unfold text_of. cbn [app tl].
  rewrite concat_app. cbn [concat]. rewrite app_nil_r. reflexivity.
Qed.

Lemma nts_snoc t seg : seg <> [] -> ~ In sl seg -> no_trailing_slash (t ++ sl :: seg).
Proof.
  intros Ns Hn. unfold no_trailing_slash. rewrite rev_app_distr. cbn [rev].
  destruct (rev seg) as [|x r] eqn:R.
  - apply (f_equal (@rev byte)) in R. rewrite rev_involutive in R. cbn in R. congruence.
  - cbn [app]. intros E. subst x. apply Hn. apply in_rev. rewrite R. left. reflexivity.
Qed.

Definition key_of_reg (r : reg) := (r_verb r, r_path r, r_handler r, length (r_chain r)).
Definition key_of_route (x : list bs * (bs * bs)) := (snd (snd x), text_of (fst x), fst (snd x), length (fst x)).

Lemma sem_kids_flat (sm : node -> list bs -> option (list reg * list bs)) (fl : node -> list (list bs * (bs * bs))) :
  forall cs used rs used',
  (forall c u r u', In c cs -> sm c u = Some (r, u') -> map key_of_reg r = map key_of_route (fl c)) ->
  sem_kids sm cs used = Some (rs, used') -> map key_of_reg rs = map key_of_route (flat_map fl cs).
Proof.
  induction cs as [|c r IH]; intros used rs used' Hc H; cbn [sem_kids] in H.
  - inversion H; subst. reflexivity.
  - destruct (sm c used) as [[r1 u1]|] eqn:E; [|discriminate].
    destruct (sem_kids sm r u1) as [[r2 u2]|] eqn:K; [|discriminate]. inversion H; subst.
    cbn [flat_map]. rewrite !map_app. f_equal.
    + eapply Hc; [left; reflexivity|eauto].
    + eapply IH; eauto. intros c0 u r0 u' Hin. apply Hc. right. exact Hin.
Qed.

Lemma wf_all_in cs c : wf_all cs -> In c cs -> wf c.
Proof. induction cs as [|x r IH]; cbn; [tauto|]. intros [A B] [E|E]; subst; auto. Qed.

Theorem sem_flat : forall f g n used rs used' elems,
  sem f g n used = Some (rs, used') -> wf n -> elems <> [] ->
  no_trailing_slash (text_of elems) -> fst g = prefix_val elems -> length (snd g) = length elems ->
  map key_of_reg rs = map key_of_route (flat elems n).
Proof.
  induction f as [|f IH]; intros g n used rs used' elems H W Ne Nt Gp Gl; cbn [sem] in H; [discriminate|].
  destruct (dye_node n used) as [[[mw hmw] used1]|]; [|discriminate].
  destruct n as [p h cs]. cbn [n_handler n_path n_children] in H.
  apply wf_node in W as [(seg & Ep & Nseg & Leaf) Wc].
  assert (Nb : bs_eqb p [sl] = true -> cs = []).
  { intros E. apply bs_eqb_eq in E. subst p. inversion E; subst. apply Leaf. reflexivity. }
  destruct (sem_kids _ cs used1) as [[rs2 u2]|] eqn:K; [|discriminate]. inversion H; subst rs used'. clear H.
  rewrite flat_node, !map_app. f_equal.
  - destruct h as [[hn m]|]; [|reflexivity]. cbn [map]. unfold key_of_reg, key_of_route. cbn [r_verb r_path r_handler r_chain fst snd].
    rewrite Gp, (join_prefix _ _ Nt), (text_snoc _ _ Ne), !app_length, Gl. reflexivity.
  - destruct cs as [|c0 cr]; [cbn [sem_kids] in K; inversion K; reflexivity|].
    assert (Hp : bs_eqb p [sl] = false) by (destruct (bs_eqb p [sl]); [specialize (Nb eq_refl); discriminate|reflexivity]).
    rewrite Hp in K.
    assert (Sn : seg <> []) by (intros E; specialize (Leaf E); discriminate).
    eapply sem_kids_flat; [|exact K].
    intros c u r u' Hin Hs. eapply (IH _ c u r u' (elems ++ [p])); eauto.
    + eapply wf_all_in; eauto.
    + intros E. apply app_eq_nil in E as [_ E]. discriminate.
    + rewrite (text_snoc _ _ Ne). subst p. apply nts_snoc; auto.
    + cbn [fst]. rewrite Gp, (join_prefix _ _ Nt). unfold prefix_val. rewrite (text_snoc _ _ Ne).
      subst p. destruct (text_of elems ++ sl :: seg) eqn:E; [destruct (text_of elems); discriminate|reflexivity].
    + cbn [snd]. rewrite !app_length, Gl. reflexivity.
Qed.

(* every chain starts with the root group's middleware *)
Lemma sem_kids_chain (sm : node -> list bs -> option (list reg * list bs)) (P : reg -> Prop) :
  forall cs used rs used',
  (forall c u0 r u', In c cs -> sm c u0 = Some (r, u') -> Forall P r) ->
  sem_kids sm cs used = Some (rs, used') -> Forall P rs.
Proof.
  induction cs as [|c r IH]; intros used rs used' Hc H; cbn [sem_kids] in H.
  - inversion H; subst. constructor.
  - destruct (sm c used) as [[r1 u1]|] eqn:E; [|discriminate].
    destruct (sem_kids sm r u1) as [[r2 u2]|] eqn:K; [|discriminate]. inversion H; subst.
    apply Forall_app. split; [eapply Hc; [left; reflexivity|eauto]|eapply IH; eauto].
    intros c0 u0 r0 u' Hin. apply Hc. right. exact Hin.
Qed.

Theorem sem_chain_root : forall f g n used rs used' x tl0, snd g = x :: tl0 ->
  sem f g n used = Some (rs, used') -> wf n ->
  Forall (fun r => exists t, r_chain r = x :: t) rs.
Proof.
  induction f as [|f IH]; intros g n used rs used' x tl0 Hg H W; cbn [sem] in H; [discriminate|].
  destruct (dye_node n used) as [[[mw hmw] used1]|]; [|discriminate].
  destruct n as [p h cs]. cbn [n_handler n_path n_children] in H.
  apply wf_node in W as [(seg & Ep & Nseg & Leaf) Wc].
  destruct (sem_kids _ cs used1) as [[rs2 u2]|] eqn:K; [|discriminate]. inversion H; subst rs used'. clear H.
  apply Forall_app. split.
  - destruct h as [[hn m]|]; constructor; [|constructor]. cbn [r_chain]. rewrite Hg. cbn [app]. eauto.
  - destruct cs as [|c0 cr]; [cbn [sem_kids] in K; inversion K; constructor|].
    assert (Hp : bs_eqb p [sl] = false).
    { destruct (bs_eqb p [sl]) eqn:E; [|reflexivity]. apply bs_eqb_eq in E. rewrite E in Ep. inversion Ep; subst seg.
      specialize (Leaf eq_refl). discriminate. }
    rewrite Hp in K. eapply sem_kids_chain; [|exact K].
    intros c u0 r u' Hin Hs. eapply (IH _ c u0 r u' x (tl0 ++ [mw ++ B "Mw"])); eauto.
    + cbn [snd]. rewrite Hg. reflexivity.
    + eapply wf_all_in; eauto.
Qed.

(* ---------- the whole program ---------- *)
Theorem program_registers_the_tree cs ss :
  wf_all cs -> emit_root (Node [sl] None cs) = Some ss ->
  exists rs e', exec ss env0 rs e' /\
    map key_of_reg rs = map key_of_route (flat [] (Node [sl] None cs)) /\
    Forall (fun r => exists t, r_chain r = B "rootMw" :: t) rs.
Proof.
  intros W H. unfold emit_root in H. cbn [n_children] in H.
  destruct cs as [|c0 cr].
  - inversion H; subst. exists [], env0. repeat split; constructor.
  - set (t := Node [sl] None (c0 :: cr)) in *.
    destruct (emit_kids (emit (S (depth t)) (B "root")) (c0 :: cr) []) as [[ks u]|] eqn:K; [|discriminate].
    inversion H; subst ss. clear H.
    set (g' := ([sl], [B "rootMw"]) : grp_val).
    set (sc := [(B "root", g'); (B "r", ([sl], []))] : scope).
    assert (Ok : env_ok [sc] []).
    { intros k Hk. cbn in Hk. destruct Hk as [<-|[<-|[]]]; auto. }
    destruct (kids_exec (S (depth t)) (emit_exec (S (depth t))) (B "root") g' (c0 :: cr) [] ks u sc [] K eq_refl eq_refl Ok)
      as (rs & add & S & X & N).
    exists rs, [add ++ sc]. split; [|split].
    + unfold env0. econstructor; [reflexivity|reflexivity|]. exact X.
    + unfold t. rewrite flat_node. cbn [app]. eapply sem_kids_flat; [|exact S].
      intros c u0 r u' Hin Hs. eapply (sem_flat _ g' c u0 r u' [[sl]]); eauto.
      * eapply wf_all_in; eauto.
      * discriminate.
      * exact I.
    + eapply sem_kids_chain; [|exact S].
      intros c u0 r u' Hin Hs. eapply (sem_chain_root _ g' c u0 r u' (B "rootMw") []); eauto.
      eapply wf_all_in; eauto.
Qed.

(* and the executable interpreter returns exactly that, for any sufficient fuel *)
Corollary program_interp cs ss :
  wf_all cs -> emit_root (Node [sl] None cs) = Some ss ->
  exists rs e' F, (forall F', F <= F' -> interp F' ss env0 = Some (rs, e')) /\
    map key_of_reg rs = map key_of_route (flat [] (Node [sl] None cs)) /\
    Forall (fun r => exists t, r_chain r = B "rootMw" :: t) rs.
Proof.
  intros W H. destruct (program_registers_the_tree cs ss W H) as (rs & e' & X & A & C).
  destruct (interp_exec _ _ _ _ X) as [F HF]. exists rs, e', F. auto.
Qed.

(* ---------- the trees hz builds are well-formed ---------- *)
Lemma wf_all_Forall l : wf_all l <-> Forall wf l.
Proof. induction l as [|c r IH]; cbn [wf_all]; [split; auto|]. rewrite IH. split; [intros [A B]; constructor; auto|intros H; inversion H; auto]. Qed.

(* path elements: none contains '/', and only the last may be empty *)
Fixpoint clean (ps : list bs) : Prop :=
  match ps with
  | [] => True
  | [p] => ~ In sl p
  | p :: r => ~ In sl p /\ p <> [] /\ clean r
  end.

Lemma chain_wf : forall ps h c, clean ps -> chain ps h = Some c -> wf c.
Proof.
  induction ps as [|p r IH]; intros h c C H; cbn [chain] in H; [discriminate|].
  destruct r as [|p2 r2].
  - inversion H; subst. apply wf_node. split; [exists p; auto|exact I].
  - destruct (chain (p2 :: r2) h) as [c'|] eqn:E; [|discriminate]. inversion H; subst.
    destruct C as (Np & Ne & Cr). apply wf_node. split.
    + exists p. repeat split; auto. intros E0. contradiction.
    + cbn [wf_all]. split; [eapply IH; eauto|exact I].
Qed.

Lemma sort_children_wf l : wf_all l -> wf_all (sort_children l).
Proof.
  rewrite !wf_all_Forall. intros H. eapply Permutation_Forall; [|exact H].
  apply Permutation_sym. apply sort_children_perm.
Qed.

Lemma wf_all_app a b : wf_all (a ++ b) <-> wf_all a /\ wf_all b.
Proof. rewrite !wf_all_Forall. apply Forall_app. Qed.

Local Arguments matches_child : simpl never.
Local Arguments chain : simpl never.
Local Arguments sort_children : simpl never.

Theorem update_children_wf sortr : forall paths h n, clean paths -> paths <> [] ->
  wf_all (n_children n) -> wf_all (n_children (update sortr paths h n)).
Proof.
  induction paths as [|p rest IH]; intros h n C N W; [congruence|].
  destruct n as [np nh cs]. cbn [n_children] in W. cbn [update].
  assert (ADD : forall ps c, clean ps -> chain ps h = Some c -> wf_all (sort_children (cs ++ [c]))).
  { intros ps c Cp E. apply sort_children_wf. apply wf_all_app. split; [exact W|]. cbn [wf_all]. split; [eapply chain_wf; eauto|exact I]. }
  match goal with |- wf_all (n_children (?F [] cs)) =>
    assert (G : forall post pre0, cs = rev pre0 ++ post -> wf_all (n_children (F pre0 post))) end.
  { induction post as [|c post IHp]; intros pre0 E.
    - simpl. destruct (chain (p :: rest) h) as [c|] eqn:Ec; cbn [n_children]; [eapply ADD; eauto|exact W].
    - simpl. destruct (matches_child sortr p c) eqn:M.
      + destruct rest as [|p2 r2].
        * first [ destruct (chain [p] h) as [leaf|] eqn:El; cbn [n_children]; [eapply (ADD [p]); eauto|exact W]
                | cbn [n_children]; eapply (ADD [p]); [exact C|reflexivity] ].
        * cbn [n_children]. rewrite E in W. apply wf_all_app in W as [W1 W2]. cbn [wf_all] in W2. destruct W2 as [Wc W2].
          apply wf_all_app. split; [exact W1|]. cbn [wf_all]. split; [|exact W2].
          (* the child we descend into: same path, a non-empty segment, children by induction *)
          destruct C as (Np & Nep & Cr).
          unfold matches_child in M. apply andb_true_iff in M as [M1 _]. apply bs_eqb_eq in M1.
          destruct c as [cp ch cc]. cbn [n_path] in M1. subst cp.
          apply wf_node in Wc as [_ Wcc].
          pose proof (IH h (Node (sl :: p) ch cc) Cr ltac:(discriminate) Wcc) as K.
          pose proof (update_path sortr (p2 :: r2) h (Node (sl :: p) ch cc)) as P. cbn [n_path] in P.
          destruct (update sortr (p2 :: r2) h (Node (sl :: p) ch cc)) as [up uh uc]. cbn [n_path n_children] in *. subst up.
          apply wf_node. split; [|exact K]. exists p. repeat split; auto. intros E0. contradiction.
      + apply (IHp (c :: pre0)). cbn [rev]. rewrite <- app_assoc. exact E. }
  apply (G cs []). reflexivity.
Qed.

Lemma split_on_no_sep : forall s cur, ~ In sl cur -> Forall (fun p => ~ In sl p) (split_on sl s cur).
Proof.
  induction s as [|c r IH]; intros cur Hc; cbn [split_on].
  - constructor; [|constructor]. intros H. apply in_rev in H. contradiction.
  - destruct (Byte.eqb c sl) eqn:E.
    + constructor; [intros H; apply in_rev in H; contradiction|]. apply IH. intros [].
    + apply IH. intros [H|H]; [subst; rewrite beqb_refl in E; discriminate|contradiction].
Qed.

Theorem build_wf sortr alias : forall ds,
  (forall d, In d ds -> clean (split_path (d_path d)) /\ split_path (d_path d) <> []) ->
  wf_all (n_children (build sortr alias ds)) /\ n_path (build sortr alias ds) = [sl] /\ n_handler (build sortr alias ds) = None.
Proof.
  intros ds. unfold build.
  assert (G : forall t, (forall d, In d ds -> clean (split_path (d_path d)) /\ split_path (d_path d) <> []) ->
            wf_all (n_children t) -> n_path t = [sl] -> n_handler t = None ->
            let r := fold_left (add_decl sortr alias) ds t in wf_all (n_children r) /\ n_path r = [sl] /\ n_handler r = None).
  { induction ds as [|d r IH]; intros t Hd W P Hn; cbn [fold_left]; [auto|].
    destruct (Hd d (or_introl eq_refl)) as [Cd Nd].
    apply IH.
    - intros d0 H0. apply Hd. right. exact H0.
    - unfold add_decl. apply update_children_wf; auto.
    - unfold add_decl. rewrite update_path. exact P.
    - unfold add_decl. destruct t as [tp th tc]. cbn [n_handler] in Hn. subst th.
      destruct (split_path (d_path d)) as [|p rest]; [reflexivity|]. cbn [update].
      match goal with |- n_handler (?F [] tc) = None => assert (K : forall post pre0, n_handler (F pre0 post) = None) end.
      { induction post as [|c post IHc]; intros pre0; simpl.
        - destruct (chain (p :: rest) _); reflexivity.
        - destruct (matches_child sortr p c); [|apply IHc].
          destruct rest; [destruct (chain [p] _); reflexivity|reflexivity]. }
      apply K. }
  intros Hd. apply (G root0 Hd); reflexivity || exact I.
Qed.

(* ---------- end to end ---------- *)
Theorem generated_program_registers_the_declared_routes sortr alias ds ss :
  (forall d, In d ds -> clean (split_path (d_path d)) /\ split_path (d_path d) <> []) ->
  emit_root (build sortr alias ds) = Some ss ->
  exists rs e' F, (forall F', F <= F' -> interp F' ss env0 = Some (rs, e')) /\
    Permutation (map key_of_reg rs) (map key_of_route (map (route_of alias) ds)) /\
    Forall (fun r => exists t, r_chain r = B "rootMw" :: t) rs.
Proof.
  intros Hd H. destruct (build_wf sortr alias ds Hd) as (W & P & Hn).
  destruct (build sortr alias ds) as [bp bh bc] eqn:Eb. cbn [n_children n_path n_handler] in *. subst bp bh.
  destruct (program_interp bc ss W H) as (rs & e' & F & HF & A & C).
  exists rs, e', F. split; [exact HF|]. split; [|exact C].
  rewrite A. apply Permutation_map. rewrite <- Eb. apply build_holds_declared.
  intros d Hin. apply Hd. exact Hin.
Qed.

(* what a declaration's key is: its verb, its own path text, its handler, and one middleware per
   path element (root group, one per group on the way, its own) *)
Lemma key_of_declared alias d q : d_path d = sl :: q ->
  key_of_route (route_of alias d) =
  (http_method (d_verb d), sl :: q, alias ++ B "." ++ d_name d, S (length (split_path (sl :: q)))).
Proof.
  intros E. unfold key_of_route, route_of, text_of. cbn [fst snd tl]. rewrite E.
  rewrite split_path_spells. cbn [length]. rewrite map_length. reflexivity.
Qed.
